/-
  The head loop of an outermost head, pass by pass: `PrevPass` (what pass `t+1` knows about
  pass `t`), `pass_first`, `pass_next` (pass `t+1` succeeds, is pointwise above pass `t`, creates
  no head, and hands `PrevPass` on).  Core Lean only.
-/
import SalsaVerif.Proofs.CycleChainSim

namespace SalsaVerif.Proofs.Cycle
open SalsaVerif.Model.Cycle

/-- the value of `c` in the pass that ended in `s1` with the new value `new` for the head `j`
    (`∅` for a node that was not evaluated). -/
def passVal (s1 : St) (j new : Nat) (c : Nat) : Nat := (cv1 s1 j new c).getD 0

section
variable (P : Prog) (env : Nat → Nat) (read : Nat → St → Res Fetched) (j : Nat) (rest : List Nat)

/-- `r0` is the start of a pass (≥ 1) of the outermost head `j`; the previous pass ran the body
    from `l0` to `e` with value `vl`, the provisional value of `j` being `lastl`. -/
structure PrevPass (l0 e r0 : St) (vl lastl : Nat) : Prop where
  run : ∃ hsl, evalM env read (P.node j).body l0 = .ok (vl, hsl, e)
  invL : Inv P env l0
  invE : Inv P env e
  invR : Inv P env r0
  stL : l0.stack = j :: rest
  lastE : e.prov.lookup j = some lastl
  r0_eq : r0 = stIter e j (cycleFn P j lastl vl)
  sim : Sim e l0 r0
  noHeadBelow : ∀ k ∈ rest, isHead r0.prov k = false

theorem stIter_prov_lookup (s1 : St) (new c : Nat) :
    (stIter s1 j new).prov.lookup c
      = if (s1.prov.lookup c).isSome then cv1 s1 j new c else none := by
  show (updateProv (cache1Of s1 j new) s1.prov).lookup c = _
  rw [lookup_updateProv]; rfl

theorem stIter_prov_some {s1 : St} {new c w : Nat}
    (h : (stIter s1 j new).prov.lookup c = some w) :
    cv1 s1 j new c = some w ∧ (s1.prov.lookup c).isSome = true := by
  rw [stIter_prov_lookup] at h
  split at h
  · rename_i hs; exact ⟨h, hs⟩
  · cases h

/-- the first pass of an outermost head. -/
theorem pass_first (hR : ReadSpec P env read) (hH : ReadRH P env read)
    (hNF : NoFallback P) (s0 s1 : St) (v last : Nat) (hs : List Nat)
    (hI : Inv P env s0) (hst : s0.stack = j :: rest) (hp0 : s0.prov = []) (hc0 : s0.cache = [])
    (hev : evalM env read (P.node j).body s0 = .ok (v, hs, s1))
    (hl : s1.prov.lookup j = some last) (hb : belowOf s1 = false) :
    PrevPass P env read j rest s0 s1 (stIter s1 j (cycleFn P j last v)) v last := by
  obtain ⟨hI1, hst1, hE1, hrel⟩ := evalM_spec P env hR _ s0 v hs s1 hI hev
  have hst1' : s1.stack = j :: rest := hst1.trans hst
  have hRH := evalM_RH P env hR hH _ s0 v hs s1 hI hev
  have hv1 : le v (lfp P env j) := by
    rw [← lfp_step]
    exact EvalRel.upper (fun c w hw => hI1.avail_le P env hw) hrel
  have hnew : le (cycleFn P j last v) (lfp P env j) :=
    (cycleFn_bounds hNF j last v).2 _ hv1 (hI1.provLe j last hl)
  have hnb : ∀ k ∈ rest, isHead (stIter s1 j (cycleFn P j last v)).prov k = false := by
    intro k hk
    cases hh : isHead (stIter s1 j (cycleFn P j last v)).prov k with
    | false => rfl
    | true =>
      obtain ⟨w, hw⟩ := isHead_iff.mp hh
      have h2 := (stIter_prov_some j hw).2
      have := (belowOf_false_iff s1 rest j hst1').mp hb k hk
      unfold isHead at this
      rw [h2] at this; cases this
  refine ⟨⟨hs, hev⟩, hI, hI1,
    iterate_inv P env s1 j rest _ hI1 hst1' hnew (by rw [hl]; rfl), hst, hl, rfl, ?_, hnb⟩
  refine ⟨hst1.symm, hE1.poisoned.symm, fun _ => rfl, ?_, ?_, ?_, ?_⟩
  · intro c _; simp [cval, stIter]
  · intro c w hw; simp [cval, hc0] at hw
  · intro c w hw; rw [hp0] at hw; cases hw
  · intro c hc
    obtain ⟨w, hw⟩ := isHead_iff.mp hc
    have hcv : ∃ u, cv1 s1 j (cycleFn P j last v) c = some u := by
      rcases hRH c hc with h | h | h
      · rw [hp0] at h; cases h
      · rw [hst1'] at h
        cases h with
        | head => exact ⟨_, cv1_self s1 _ _⟩
        | tail _ h =>
          have := (belowOf_false_iff s1 rest j hst1').mp hb c h
          rw [hc] at this; cases this
      · by_cases hcj : c = j
        · subst hcj; exact ⟨_, cv1_self s1 c _⟩
        · rw [cv1_ne s1 j _ hcj]
          cases hv : cval s1 c with
          | none => exact absurd hv h
          | some u => exact ⟨u, rfl⟩
    obtain ⟨u, hu⟩ := hcv
    apply isHead_iff.mpr
    refine ⟨u, ?_⟩
    rw [stIter_prov_lookup, hw]
    exact hu

/-- what pass `t+1` does, given `PrevPass` for pass `t`. -/
structure NextPass (l0 e r0 : St) (vl lastl : Nat) (v' : Nat) (r1 : St) : Prop where
  run : ∃ hs', evalM env read (P.node j).body r0 = .ok (v', hs', r1)
  inv1 : Inv P env r1
  st1 : r1.stack = j :: rest
  last1 : r1.prov.lookup j = some (cycleFn P j lastl vl)
  provSame : r1.prov = r0.prov
  notBelow : belowOf r1 = false
  valLe : le vl v'
  newLe : le (cycleFn P j (cycleFn P j lastl vl) v') (lfp P env j)
  valsLe : ∀ c w, cv1 e j (cycleFn P j lastl vl) c = some w →
    ∃ w', cv1 r1 j (cycleFn P j (cycleFn P j lastl vl) v') c = some w' ∧ le w w'
  valsNone : ∀ c, cv1 e j (cycleFn P j lastl vl) c = none →
    cv1 r1 j (cycleFn P j (cycleFn P j lastl vl) v') c = none
  provEq : ∀ c w, r1.prov.lookup c = some w → cv1 e j (cycleFn P j lastl vl) c = some w
  chain : ∀ c w, r0.prov.lookup c = some w →
    ∃ w', (stIter r1 j (cycleFn P j (cycleFn P j lastl vl) v')).prov.lookup c = some w' ∧ le w w'
  next : PrevPass P env read j rest r0 r1
    (stIter r1 j (cycleFn P j (cycleFn P j lastl vl) v')) v' (cycleFn P j lastl vl)

theorem pass_next (hR : ReadSpec P env read) (hS : ReadSim P env read) (hNF : NoFallback P)
    (hG : P.NoGate)
    (l0 e r0 : St) (vl lastl : Nat) (hP : PrevPass P env read j rest l0 e r0 vl lastl) :
    ∃ v' r1, NextPass P env read j rest l0 e r0 vl lastl v' r1 := by
  obtain ⟨⟨hsl, hevl⟩, hIl, hIe, hIr, hstl, hlast, hr0, hSim, hnb0⟩ := hP
  obtain ⟨_, hste, _, _⟩ := evalM_spec P env hR _ l0 vl hsl e hIl hevl
  have hste' : e.stack = j :: rest := hste.trans hstl
  obtain ⟨v', hs', r1, hevr, hS1, hle, hp1⟩ :=
    evalM_sim P env hR hS _ (noGate_node hG j) e l0 r0 vl hsl e hIl hIr hIe hSim (Ext.refl e) hevl
  obtain ⟨hI1, hst1, hE1, hrel⟩ := evalM_spec P env hR _ r0 v' hs' r1 hIr hevr
  have hst0 : r0.stack = j :: rest := by rw [hr0]; exact hste'
  have hst1' : r1.stack = j :: rest := hst1.trans hst0
  -- provisional values of the new pass = values of the previous pass
  have hprov : ∀ c w, r1.prov.lookup c = some w →
      cv1 e j (cycleFn P j lastl vl) c = some w ∧ (e.prov.lookup c).isSome = true := by
    intro c w hw
    rw [hp1, hr0] at hw
    exact stIter_prov_some j hw
  have hlast1 : r1.prov.lookup j = some (cycleFn P j lastl vl) := by
    rw [hp1, hr0, stIter_prov_lookup, hlast]
    exact cv1_self e j _
  have hv' : le v' (lfp P env j) := by
    rw [← lfp_step]
    exact EvalRel.upper (fun c w hw => hI1.avail_le P env hw) hrel
  have hnew : le (cycleFn P j (cycleFn P j lastl vl) v') (lfp P env j) :=
    (cycleFn_bounds hNF j _ v').2 _ hv' (hI1.provLe j _ hlast1)
  have hlastle : le lastl (cycleFn P j lastl vl) := by
    obtain ⟨w', hw', hle'⟩ := hS1.provLe j lastl hlast
    rw [hlast1] at hw'; injection hw' with hw'; subst hw'; exact hle'
  have hvalsLe : ∀ c w, cv1 e j (cycleFn P j lastl vl) c = some w →
      ∃ w', cv1 r1 j (cycleFn P j (cycleFn P j lastl vl) v') c = some w' ∧ le w w' := by
    intro c w hw
    by_cases hcj : c = j
    · subst hcj
      rw [cv1_self] at hw; injection hw with hw; subst hw
      exact ⟨_, cv1_self r1 c _, cycleFn_mono P c hlastle hle⟩
    · rw [cv1_ne e j _ hcj] at hw
      rw [cv1_ne r1 j _ hcj]
      exact hS1.cacheLe c w hw
  have hchain : ∀ c w, r0.prov.lookup c = some w →
      ∃ w', (stIter r1 j (cycleFn P j (cycleFn P j lastl vl) v')).prov.lookup c = some w' ∧
        le w w' := by
    intro c w hw
    have hw1 : r1.prov.lookup c = some w := by rw [hp1]; exact hw
    obtain ⟨w', hw', hle'⟩ := hvalsLe c w (hprov c w hw1).1
    refine ⟨w', ?_, hle'⟩
    rw [stIter_prov_lookup, hw1]
    exact hw'
  have hnb1 : belowOf r1 = false := by
    rw [belowOf_false_iff r1 rest j hst1', hp1]; exact hnb0
  have hnb2 : ∀ k ∈ rest,
      isHead (stIter r1 j (cycleFn P j (cycleFn P j lastl vl) v')).prov k = false := by
    intro k hk
    cases hh : isHead (stIter r1 j (cycleFn P j (cycleFn P j lastl vl) v')).prov k with
    | false => rfl
    | true =>
      obtain ⟨w, hw⟩ := isHead_iff.mp hh
      have h2 := (stIter_prov_some j hw).2
      have := hnb0 k hk
      unfold isHead at this
      rw [← hp1, h2] at this; cases this
  refine ⟨v', r1, ⟨hs', hevr⟩, hI1, hst1', hlast1, hp1, hnb1, hle, hnew, hvalsLe, ?_,
    fun c w hw => (hprov c w hw).1, hchain, ?_⟩
  · intro c hc
    by_cases hcj : c = j
    · subst hcj; rw [cv1_self] at hc; cases hc
    · rw [cv1_ne e j _ hcj] at hc
      rw [cv1_ne r1 j _ hcj]
      exact hS1.cacheNone c hc
  · refine ⟨⟨hs', hevr⟩, hIr, hI1,
      iterate_inv P env r1 j rest _ hI1 hst1' hnew (by rw [hlast1]; rfl), hst0, hlast1, rfl, ?_,
      hnb2⟩
    refine ⟨hst1.symm, hE1.poisoned.symm, fun _ => rfl, ?_, ?_, hchain, ?_⟩
    · intro c _; simp [cval, stIter]
    · intro c w hw
      have : r0.cache = [] := by rw [hr0]; rfl
      simp [cval, this] at hw
    · intro c hc
      obtain ⟨w, hw⟩ := isHead_iff.mp hc
      obtain ⟨w', hw', _⟩ := hvalsLe c w (hprov c w hw).1
      apply isHead_iff.mpr
      refine ⟨w', ?_⟩
      rw [stIter_prov_lookup, hw]
      exact hw'

/-- a loop that iterated once (gate-free program) can only end converged: no provisional state
    is left and the head itself is final. -/
theorem loop_iter_conv (hR : ReadSpec P env read) (hS : ReadSim P env read) (hNF : NoFallback P)
    (hG : P.NoGate) :
    ∀ (fuel stamp : Nat) (l0 e r0 : St) (vl lastl : Nat) (v : Nat) (hs : List Nat) (s' : St),
      PrevPass P env read j rest l0 e r0 vl lastl →
      executeMaybeIterate P env read j fuel stamp r0 = .ok (v, hs, s') →
      s'.prov = [] ∧ s'.cache = [] ∧ s'.final.lookup j = some v := by
  intro fuel
  induction fuel with
  | zero => intro stamp l0 e r0 vl lastl v hs s' _ h; simp [executeMaybeIterate] at h
  | succ fuel ih =>
    intro stamp l0 e r0 vl lastl v hs s' hP h
    obtain ⟨v', r1, hN⟩ := pass_next P env read j rest hR hS hNF hG l0 e r0 vl lastl hP
    obtain ⟨hs', hevr⟩ := hN.run
    cases hc : converged (cache1Of r1 j (cycleFn P j (cycleFn P j lastl vl) v')) r1.prov with
    | true =>
      rw [emi_conv P env read j fuel stamp r0 hevr hN.last1 hN.notBelow hc] at h
      injection h with h; injection h with e1 h; injection h with e2 e3
      subst e1; subst e3
      refine ⟨rfl, rfl, ?_⟩
      rw [stConv_final, cv1_self]; rfl
    | false =>
      cases hi : SalsaVerif.Gen.Stamp.IterationStamp.increment_iteration stamp with
      | none =>
        rw [emi_too P env read j fuel stamp r0 hevr hN.last1 hN.notBelow hc hi] at h
        cases h
      | some stamp' =>
        rw [emi_iter P env read j fuel stamp r0 hevr hN.last1 hN.notBelow hc hi] at h
        exact ih stamp' r0 r1 _ v' _ v hs s' hN.next h

end

end SalsaVerif.Proofs.Cycle
