/-
  CoreSpec, histories with writes: programs of the line-protocol language that pass the Boolean
  check `wfCheck2` are well-formed in the sense of the multi-revision theorem (`Wf2`,
  Proofs/CoreSpecRevWf.lean).  Analogue of Proofs/CoreSpecCompile.lean (`wf_progOf`) for `Wf2`.
  Core Lean only.
-/
import SalsaVerif.Proofs.CoreSpecRevWf
import SalsaVerif.Proofs.CoreSpecCompile
import SalsaVerif.Proofs.CoreSpecExamples

namespace SalsaVerif.Proofs.CoreSpec
open SalsaVerif.Model.CoreSpec

/-- every `mk idk ..` of the expression creates with identity `idk % 2 = k` -/
def _root_.SalsaVerif.Model.CoreSpec.Expr.idsOk (k : Nat) : Expr → Bool
  | .const _ => true
  | .inp _ => true
  | .qry _ => true
  | .add a b => a.idsOk k && b.idsOk k
  | .min a b => a.idsOk k && b.idsOk k
  | .max a b => a.idsOk k && b.idsOk k
  | .ite c a b => c.idsOk k && a.idsOk k && b.idsOk k
  | .mk idk v f s => decide (idk % 2 = k) && v.idsOk k && f.idsOk k && s.idsOk k
  | .tv e => e.idsOk k
  | .tk e => e.idsOk k
  | .sp e => e.idsOk k

/-- the Boolean check of the driver language for `Wf2`: `wfOwnFree` plus one identity per creator -/
def wfCheck2 (idOf : Nat → Nat) : Nat → List Expr → Bool
  | _, [] => true
  | r, e :: es => e.callsBelow r && e.ownFree && e.idsOk (idOf r) && wfCheck2 idOf (r + 1) es

/-- identity `idk % 2` of the first `mk` in left-to-right syntactic order -/
def _root_.SalsaVerif.Model.CoreSpec.Expr.firstId : Expr → Option Nat
  | .const _ => none
  | .inp _ => none
  | .qry _ => none
  | .add a b => (a.firstId).orElse fun _ => b.firstId
  | .min a b => (a.firstId).orElse fun _ => b.firstId
  | .max a b => (a.firstId).orElse fun _ => b.firstId
  | .ite c a b => ((c.firstId).orElse fun _ => a.firstId).orElse fun _ => b.firstId
  | .mk idk _ _ _ => some (idk % 2)
  | .tv e => e.firstId
  | .tk e => e.firstId
  | .sp e => e.firstId

/-- the identity function computed from the program text -/
def idOfList (es : List Expr) (r : Nat) : Nat :=
  match es[r]? with
  | some e => e.firstId.getD 0
  | none => 0

/-! ### monotonicity of `Wf2B` in the handle set -/

theorem Wf2B.monoH {idOf : Nat → Nat} {r : Nat} {ph : Phase} {H H' : Nat → Prop} {b : Body}
    (hsub : ∀ c, H c → H' c) (h : Wf2B idOf r ph H b) : Wf2B idOf r ph H' b := by
  induction h generalizing H' with
  | retPre H v hv => exact Wf2B.retPre H' v (fun c hc => hsub c (hv c hc))
  | retPost H v hv => exact Wf2B.retPost H' v (fun c hc => (hv c hc).imp (hsub c) id)
  | inp ph H i k hph _ ih => exact Wf2B.inp ph H' i k hph (fun n => ih n hsub)
  | qry ph H q k hph hq _ ih =>
    exact Wf2B.qry ph H' q k hph hq (fun v hv => ih v hv (fun c hc => hc.imp (hsub c) id))
  | field ph H c k hph hc _ ih => exact Wf2B.field ph H' c k hph (hsub c hc) (fun n => ih n hsub)
  | spec ph H c k hph hc _ ih => exact Wf2B.spec ph H' c k hph (hsub c hc) (fun n => ih n hsub)
  | ident ph H c k hph hc _ ih => exact Wf2B.ident ph H' c k hph (hsub c hc) (fun n => ih n hsub)
  | create H idk v k hid _ ih => exact Wf2B.create H' idk v k hid (ih hsub)
  | create2 H idk v k hid _ ih => exact Wf2B.create2 H' idk v k hid (ih hsub)
  | specify H c v k _ ih => exact Wf2B.specify H' c v k (ih hsub)
  | mid H b _ ih => exact Wf2B.mid H' b (ih hsub)

/-! ### the compilation lemma

  `CW idOf r m c` for a CPS computation `c : (Val → Body) → Body` of node `r` (`m`: may it execute
  a `create`?): started in phase `ph ∈ {pre, post}` holding the handles `H`, `c k` is well-formed
  provided the continuation is
    (K1) well-formed in the SAME phase for every value whose handle was received (`H' ⊇ H`), and
    (K2) if `m`: well-formed in phase `post` for every value whose handle was received or is the
         own handle `r`.
  (K1) covers the runs of `c` that execute no `create`, (K2) those that do. -/

/-- the handle of `v` was received -/
def HIn (H : Nat → Prop) (v : Val) : Prop := ∀ c, v.h = some c → H c
/-- the handle of `v` was received or is the own handle -/
def HInR (r : Nat) (H : Nat → Prop) (v : Val) : Prop := ∀ c, v.h = some c → H c ∨ c = r

theorem hIn_none (H n) : HIn H ⟨n, none⟩ := fun c h => by cases h
theorem HIn.toR {r H v} (h : HIn H v) : HInR r H v := fun c hc => Or.inl (h c hc)
theorem HIn.mono {H H' : Nat → Prop} {v} (h : HIn H v) (hs : ∀ c, H c → H' c) : HIn H' v :=
  fun c hc => hs c (h c hc)
theorem HInR.mono {r} {H H' : Nat → Prop} {v} (h : HInR r H v) (hs : ∀ c, H c → H' c) : HInR r H' v :=
  fun c hc => (h c hc).imp (hs c) id

theorem hIn_orH {H : Nat → Prop} {x y : Val} {n : Nat} (hx : HIn H x) (hy : HIn H y) :
    HIn H ⟨n, orH x.h y.h⟩ := by
  intro c h
  rcases orH_some h with e | e
  · exact hx c e
  · exact hy c e

theorem hInR_orH {r} {H : Nat → Prop} {x y : Val} {n : Nat} (hx : HInR r H x) (hy : HInR r H y) :
    HInR r H ⟨n, orH x.h y.h⟩ := by
  intro c h
  rcases orH_some h with e | e
  · exact hx c e
  · exact hy c e

def CW (idOf : Nat → Nat) (r : Nat) (m : Bool) (c : (Val → Body) → Body) : Prop :=
  ∀ ph, ph ≠ Phase.mid → ∀ (H : Nat → Prop) (k : Val → Body),
    (∀ H' : Nat → Prop, (∀ c, H c → H' c) → ∀ v, HIn H' v → Wf2B idOf r ph H' (k v)) →
    (m = true → ∀ H' : Nat → Prop, (∀ c, H c → H' c) → ∀ v, HInR r H' v → Wf2B idOf r .post H' (k v)) →
    Wf2B idOf r ph H (c k)

theorem CW.mono {idOf r} {m m' : Bool} {c} (h : CW idOf r m c) (hm : m = true → m' = true) :
    CW idOf r m' c :=
  fun ph hph H k h1 h2 => h ph hph H k h1 (fun e => h2 (hm e))

theorem cw_const (idOf r) (n : Nat) : CW idOf r false (fun k => k ⟨n, none⟩) :=
  fun _ _ H _ h1 _ => h1 H (fun _ h => h) _ (hIn_none _ _)

theorem cw_inp (idOf r) (i : Nat) : CW idOf r false (fun k => .read (.inp i) k) :=
  fun ph hph H k h1 _ => Wf2B.inp ph H i k hph (fun _ => h1 H (fun _ h => h) _ (hIn_none _ _))

theorem cw_qry (idOf) {r j : Nat} (hj : j < r) : CW idOf r false (fun k => .read (.qry j) k) :=
  fun ph hph H k h1 _ => Wf2B.qry ph H j k hph hj
    (fun v _ => h1 (fun c => H c ∨ v.h = some c) (fun _ h => Or.inl h) v (fun _ h => Or.inr h))

/-- binary operators: left operand, right operand, combine (left handle wins) -/
theorem cw_bin {idOf r} {ma mb : Bool} {ca cb : (Val → Body) → Body} (f : Nat → Nat → Nat)
    (ha : CW idOf r ma ca) (hb : CW idOf r mb cb) :
    CW idOf r (ma || mb) (fun k => ca fun x => cb fun y => k ⟨f x.n y.n, orH x.h y.h⟩) := by
  intro ph hph H k h1 h2
  apply ha ph hph H
  · intro H1 hs1 x hx
    apply hb ph hph H1
    · intro H2 hs2 y hy
      exact h1 H2 (fun c h => hs2 c (hs1 c h)) _ (hIn_orH (hx.mono hs2) hy)
    · intro emb H2 hs2 y hy
      exact h2 (by simp [emb]) H2 (fun c h => hs2 c (hs1 c h)) _ (hInR_orH (hx.mono hs2).toR hy)
  · intro ema H1 hs1 x hx
    have hm : (ma || mb) = true := by simp [ema]
    apply hb .post (by decide) H1
    · intro H2 hs2 y hy
      exact h2 hm H2 (fun c h => hs2 c (hs1 c h)) _ (hInR_orH (hx.mono hs2) hy.toR)
    · intro _ H2 hs2 y hy
      exact h2 hm H2 (fun c h => hs2 c (hs1 c h)) _ (hInR_orH (hx.mono hs2) hy)

theorem cw_ite {idOf r} {mc ma mb : Bool} {cc ca cb : (Val → Body) → Body}
    (hc : CW idOf r mc cc) (ha : CW idOf r ma ca) (hb : CW idOf r mb cb) :
    CW idOf r (mc || ma || mb) (fun k => cc fun x => if x.n % 2 = 1 then ca k else cb k) := by
  intro ph hph H k h1 h2
  apply hc ph hph H
  · intro H1 hs1 x _
    split
    · apply ha ph hph H1
      · intro H2 hs2 v hv
        exact h1 H2 (fun c h => hs2 c (hs1 c h)) v hv
      · intro em H2 hs2 v hv
        exact h2 (by simp [em]) H2 (fun c h => hs2 c (hs1 c h)) v hv
    · apply hb ph hph H1
      · intro H2 hs2 v hv
        exact h1 H2 (fun c h => hs2 c (hs1 c h)) v hv
      · intro em H2 hs2 v hv
        exact h2 (by simp [em]) H2 (fun c h => hs2 c (hs1 c h)) v hv
  · intro emc H1 hs1 x _
    have hm : (mc || ma || mb) = true := by simp [emc]
    split
    · apply ha .post (by decide) H1
      · intro H2 hs2 v hv
        exact h2 hm H2 (fun c h => hs2 c (hs1 c h)) v hv.toR
      · intro _ H2 hs2 v hv
        exact h2 hm H2 (fun c h => hs2 c (hs1 c h)) v hv
    · apply hb .post (by decide) H1
      · intro H2 hs2 v hv
        exact h2 hm H2 (fun c h => hs2 c (hs1 c h)) v hv.toR
      · intro _ H2 hs2 v hv
        exact h2 hm H2 (fun c h => hs2 c (hs1 c h)) v hv

/-- a computation run for its effects only: the continuation is well-formed for every value, in
    the start phase and in phase `post` -/
theorem CW.any {idOf r m c} (h : CW idOf r m c) {ph : Phase} (hph : ph ≠ .mid) (H : Nat → Prop)
    (k : Val → Body)
    (hk : ∀ ph', ph' ≠ Phase.mid → (ph = .post → ph' = .post) →
      ∀ H' : Nat → Prop, (∀ c, H c → H' c) → ∀ v, Wf2B idOf r ph' H' (k v)) :
    Wf2B idOf r ph H (c k) :=
  h ph hph H k (fun H' hs v _ => hk ph hph (fun e => e) H' hs v)
    (fun _ H' hs v _ => hk .post (by decide) (fun _ => rfl) H' hs v)

/-- `mk idk v f s`: the three operands, then `create`, then the optional `specify` -/
theorem cw_mk {idOf r} {mv mf ms : Bool} {cv cf cs : (Val → Body) → Body} (idk : Nat)
    (hid : idk % 2 = idOf r)
    (hv : CW idOf r mv cv) (hf : CW idOf r mf cf) (hs : CW idOf r ms cs) :
    CW idOf r true (fun k => cv fun xv => cf fun xf => cs fun xs =>
      .create (idk % 2) xv.n fun hv =>
        match xf.n % 2, hv.h with
        | 1, some c => .specify c xs.n (k hv)
        | _, _ => k hv) := by
  intro ph hph H k _ h2
  -- the `create` node is fine in phase `pre` and in phase `post`, whatever the operands were
  have hC : ∀ ph', ph' ≠ Phase.mid → ∀ H' : Nat → Prop, (∀ c, H c → H' c) → ∀ xv xf xs : Val,
      Wf2B idOf r ph' H' (.create (idk % 2) xv.n fun hv =>
        match xf.n % 2, hv.h with
        | 1, some c => .specify c xs.n (k hv)
        | _, _ => k hv) := by
    intro ph' hph' H' hsub xv xf xs
    have hk : Wf2B idOf r .post H' (k ⟨xv.n, some r⟩) :=
      h2 rfl H' hsub _ (fun c h => by simp at h; exact Or.inr h.symm)
    have hM : Wf2B idOf r .mid H' (match xf.n % 2, (⟨xv.n, some r⟩ : Val).h with
        | 1, some c => .specify c xs.n (k ⟨xv.n, some r⟩)
        | _, _ => k ⟨xv.n, some r⟩) := by
      split
      · exact Wf2B.specify H' _ _ _ (Wf2B.mid H' _ hk)
      · exact Wf2B.mid H' _ hk
    cases ph' with
    | mid => exact absurd rfl hph'
    | post => exact Wf2B.create2 H' _ _ _ hid hM
    | pre => exact Wf2B.create H' _ _ _ hid hM
  apply hv.any hph H
  intro p1 hp1 _ H1 hs1 xv
  apply hf.any hp1 H1
  intro p2 hp2 _ H2 hs2 xf
  apply hs.any hp2 H2
  intro p3 hp3 _ H3 hs3 xs
  exact hC p3 hp3 H3 (fun c h => hs3 c (hs2 c (hs1 c h))) xv xf xs

/-- `tv` / `tk` / `sp` over a computation that executes no `create`: its value carries a received
    handle, so the struct read is covered by the handle discipline -/
theorem cw_tv {idOf r} {ce : (Val → Body) → Body} (he : CW idOf r false ce) :
    CW idOf r false (fun k => ce fun x =>
      match x.h with
      | some c => .read (.field c) fun y => k ⟨y.n, none⟩
      | none => k ⟨x.n, none⟩) := by
  intro ph hph H k h1 _
  apply he ph hph H
  · intro H1 hs1 x hx
    split
    · rename_i c hh
      exact Wf2B.field ph H1 c _ hph (hx c hh) (fun _ => h1 H1 hs1 _ (hIn_none _ _))
    · exact h1 H1 hs1 _ (hIn_none _ _)
  · intro e; cases e

theorem cw_tk {idOf r} {ce : (Val → Body) → Body} (he : CW idOf r false ce) :
    CW idOf r false (fun k => ce fun x =>
      match x.h with
      | some c => .ident c fun y => k ⟨y, none⟩
      | none => k ⟨x.n, none⟩) := by
  intro ph hph H k h1 _
  apply he ph hph H
  · intro H1 hs1 x hx
    split
    · rename_i c hh
      exact Wf2B.ident ph H1 c _ hph (hx c hh) (fun _ => h1 H1 hs1 _ (hIn_none _ _))
    · exact h1 H1 hs1 _ (hIn_none _ _)
  · intro e; cases e

theorem cw_sp {idOf r} {ce : (Val → Body) → Body} (he : CW idOf r false ce) :
    CW idOf r false (fun k => ce fun x =>
      match x.h with
      | some c => .read (.spec c) fun y => k ⟨y.n, none⟩
      | none => k ⟨x.n, none⟩) := by
  intro ph hph H k h1 _
  apply he ph hph H
  · intro H1 hs1 x hx
    split
    · rename_i c hh
      exact Wf2B.spec ph H1 c _ hph (hx c hh) (fun _ => h1 H1 hs1 _ (hIn_none _ _))
    · exact h1 H1 hs1 _ (hIn_none _ _)
  · intro e; cases e

/-- the compilation lemma: an expression that calls smaller queries only, never reads its own
    struct and creates with the identity `idOf r` only -/
theorem compile_cw (idOf : Nat → Nat) (r : Nat) : ∀ (e : Expr), e.callsBelow r = true →
    e.ownFree = true → e.idsOk (idOf r) = true → CW idOf r e.hasMk (compile e) := by
  intro e
  induction e with
  | const n => intro _ _ _; exact cw_const idOf r n
  | inp i => intro _ _ _; exact cw_inp idOf r i
  | qry j =>
    intro hc _ _
    exact cw_qry idOf (by simpa [Expr.callsBelow] using hc)
  | add a b iha ihb =>
    intro hc ho hi
    simp only [Expr.callsBelow, Bool.and_eq_true] at hc
    simp only [Expr.ownFree, Bool.and_eq_true] at ho
    simp only [Expr.idsOk, Bool.and_eq_true] at hi
    exact cw_bin (fun x y => (x + y) % 4) (iha hc.1 ho.1 hi.1) (ihb hc.2 ho.2 hi.2)
  | min a b iha ihb =>
    intro hc ho hi
    simp only [Expr.callsBelow, Bool.and_eq_true] at hc
    simp only [Expr.ownFree, Bool.and_eq_true] at ho
    simp only [Expr.idsOk, Bool.and_eq_true] at hi
    exact cw_bin Nat.min (iha hc.1 ho.1 hi.1) (ihb hc.2 ho.2 hi.2)
  | max a b iha ihb =>
    intro hc ho hi
    simp only [Expr.callsBelow, Bool.and_eq_true] at hc
    simp only [Expr.ownFree, Bool.and_eq_true] at ho
    simp only [Expr.idsOk, Bool.and_eq_true] at hi
    exact cw_bin Nat.max (iha hc.1 ho.1 hi.1) (ihb hc.2 ho.2 hi.2)
  | ite c a b ihc iha ihb =>
    intro hc ho hi
    simp only [Expr.callsBelow, Bool.and_eq_true] at hc
    simp only [Expr.ownFree, Bool.and_eq_true] at ho
    simp only [Expr.idsOk, Bool.and_eq_true] at hi
    exact cw_ite (ihc hc.1.1 ho.1.1 hi.1.1) (iha hc.1.2 ho.1.2 hi.1.2) (ihb hc.2 ho.2 hi.2)
  | mk idk v f s ihv ihf ihs =>
    intro hc ho hi
    simp only [Expr.callsBelow, Bool.and_eq_true] at hc
    simp only [Expr.ownFree, Bool.and_eq_true] at ho
    simp only [Expr.idsOk, Bool.and_eq_true, decide_eq_true_eq] at hi
    exact cw_mk idk hi.1.1.1 (ihv hc.1.1 ho.1.1 hi.1.1.2) (ihf hc.1.2 ho.1.2 hi.1.2) (ihs hc.2 ho.2 hi.2)
  | tv e ih =>
    intro hc ho hi
    simp only [Expr.callsBelow] at hc
    simp only [Expr.ownFree, Bool.and_eq_true, Bool.not_eq_true'] at ho
    simp only [Expr.idsOk] at hi
    have he := ih hc ho.2 hi
    rw [ho.1] at he
    simp only [Expr.hasMk, ho.1]
    exact cw_tv he
  | tk e ih =>
    intro hc ho hi
    simp only [Expr.callsBelow] at hc
    simp only [Expr.ownFree, Bool.and_eq_true, Bool.not_eq_true'] at ho
    simp only [Expr.idsOk] at hi
    have he := ih hc ho.2 hi
    rw [ho.1] at he
    simp only [Expr.hasMk, ho.1]
    exact cw_tk he
  | sp e ih =>
    intro hc ho hi
    simp only [Expr.callsBelow] at hc
    simp only [Expr.ownFree, Bool.and_eq_true, Bool.not_eq_true'] at ho
    simp only [Expr.idsOk] at hi
    have he := ih hc ho.2 hi
    rw [ho.1] at he
    simp only [Expr.hasMk, ho.1]
    exact cw_sp he

/-- the body of node `r` -/
theorem compile_wf2 (idOf : Nat → Nat) (r : Nat) (e : Expr) (hc : e.callsBelow r = true)
    (ho : e.ownFree = true) (hi : e.idsOk (idOf r) = true) :
    Wf2B idOf r .pre (fun _ => False) (compile e .ret) :=
  compile_cw idOf r e hc ho hi .pre (by decide) _ _
    (fun H' _ v hv => Wf2B.retPre H' v hv)
    (fun _ H' _ v hv => Wf2B.retPost H' v hv)

theorem wfCheck2_get (idOf : Nat → Nat) : ∀ (es : List Expr) (r q : Nat) (e : Expr),
    wfCheck2 idOf r es = true → es[q]? = some e →
    e.callsBelow (r + q) = true ∧ e.ownFree = true ∧ e.idsOk (idOf (r + q)) = true := by
  intro es
  induction es with
  | nil => intro r q e _ h; simp at h
  | cons e0 es ih =>
    intro r q e hw h
    simp only [wfCheck2, Bool.and_eq_true] at hw
    cases q with
    | zero => simp at h; subst h; exact ⟨by simpa using hw.1.1.1, hw.1.1.2, by simpa using hw.1.2⟩
    | succ q =>
      simp at h
      have := ih (r + 1) q e hw.2 h
      rw [show r + 1 + q = r + (q + 1) by omega] at this
      exact this

/-- the Boolean check `wfCheck2` of the driver language implies `Wf2` -/
theorem wf2_progOf (idOf : Nat → Nat) (es : List Expr) (sb : SExpr) (h : wfCheck2 idOf 0 es = true) :
    Wf2 (progOf es sb) idOf := by
  refine ⟨?_, ?_⟩
  · intro q
    simp only [progOf]
    cases he : es[q]? with
    | none => exact Wf2B.retPre _ _ (fun c hc => by cases hc)
    | some e =>
      obtain ⟨h1, h2, h3⟩ := wfCheck2_get idOf es 0 q e h he
      simp only [Nat.zero_add] at h1 h3
      exact compile_wf2 idOf q e h1 h2 h3
  · intro k v
    simp only [progOf]
    exact compileS_wf k v sb _ (fun n => WfS.ret n)

/-- `wf2_progOf` with the identity function read off the program text -/
theorem wf2_progOf_list (es : List Expr) (sb : SExpr) (h : wfCheck2 (idOfList es) 0 es = true) :
    Wf2 (progOf es sb) (idOfList es) :=
  wf2_progOf (idOfList es) es sb h

/-! ### non-vacuity -/

example : wfCheck2 (idOfList esA) 0 esA = true := by decide

example : Wf2 PA (idOfList esA) := wf2_progOf_list esA (.inp 3) (by decide)

/-- `q1`: a creator with one `mk` in each branch of an `ite` (same identity `1`); `q2` reads the
    struct of `q1` through the received handle; `q3` creates in one branch only -/
def esIte : List Expr :=
  [.inp 0,
   .ite (.qry 0) (.mk 1 (.inp 1) (.inp 2) (.const 3)) (.add (.mk 3 (.const 2) (.const 0) (.const 0)) (.inp 3)),
   .add (.tv (.qry 1)) (.sp (.qry 1)),
   .ite (.inp 4) (.mk 0 (.tk (.qry 1)) (.const 1) (.const 2)) (.qry 1)]

example : wfCheck2 (idOfList esIte) 0 esIte = true := by decide

example : Wf2 (progOf esIte (.add .sk .sv)) (idOfList esIte) :=
  wf2_progOf_list esIte _ (by decide)

/-- two `mk` with different identities in one query are rejected, for every identity function -/
example (idOf : Nat → Nat) :
    wfCheck2 idOf 0 [.ite (.inp 0) (.mk 0 (.const 1) (.const 0) (.const 0)) (.mk 1 (.const 1) (.const 0) (.const 0))]
      = false := by
  simp [wfCheck2, Expr.idsOk, Expr.callsBelow, Expr.ownFree]
  omega

end SalsaVerif.Proofs.CoreSpec
