/-
  CoreSpec, histories with writes: `execute` of a node, part 3 — the frame of the running query
  (`FrOk`: every recorded read is hot, current, semantic) and ONE read of a dependency / identity
  field (`readDep_ok`, `identStep_ok`).  Core Lean only.
-/
import SalsaVerif.Proofs.CoreSpecRevLock

namespace SalsaVerif.Proofs.CoreSpec
namespace X
open SalsaVerif.Model.CoreSpec

/-- what is known about a non-output read `o` recorded in the frame `f` of node `r` -/
structure RdOk (P : Prog) (r : Nat) (s : State) (f : Frame) (o : Obs) : Prop where
  below : depBelow r o.dep
  hot : hotDep s o.dep
  info : ∃ x, depInfo s o.dep = some x ∧ x.val = o.val ∧ x.ca ≤ f.ca ∧ f.dur ≤ x.dur ∧
      o.recd = decide (x.dur ≠ 3)
  sem : semDep P s.inp o.dep = o.val

structure FrOk (P : Prog) (r : Nat) (s : State) (f : Frame) : Prop where
  ca_le : f.ca ≤ s.cur
  ca1 : 1 ≤ f.ca
  dur3 : f.dur ≤ 3
  rd : ∀ o, o ∈ f.obs → o.out = false → RdOk P r s f o
  out : ∀ o, o ∈ f.obs → o.out = true → o.dep = .spec r ∧ o.recd = true
  /-- the stamp of the frame is attained by one of its reads -/
  att : f.ca ≤ 1 ∨ ∃ o, o ∈ f.obs ∧ o.out = false ∧ ∃ x, depInfo s o.dep = some x ∧ f.ca ≤ x.ca
  hd : HdOk (fun _ => False) f.obs

theorem rdOk_ext {P r s t k f o} (h : Ext s t k) (a : RdOk P r s f o) : RdOk P r t f o := by
  obtain ⟨x, h1, h2⟩ := a.info
  exact ⟨a.below, hotDep_ext h a.hot, ⟨x, depInfo_hot_ext h a.hot h1, h2⟩, by rw [h.inp]; exact a.sem⟩

theorem frOk_ext {P r s t k f} (h : Ext s t k) (fi : FrOk P r s f) : FrOk P r t f := by
  refine ⟨by rw [h.cur]; exact fi.ca_le, fi.ca1, fi.dur3, fun o ho hout => rdOk_ext h (fi.rd o ho hout), fi.out, ?_,
    fi.hd⟩
  rcases fi.att with a | ⟨o, ho, hout, x, hx, hc⟩
  · exact Or.inl a
  · exact Or.inr ⟨o, ho, hout, x, depInfo_hot_ext h (fi.rd o ho hout).hot hx, hc⟩

theorem frOk0 {P : Prog} {idOf r s} (hI : Inv P idOf s) (seed : Option Nat) : FrOk P r s (frame0 seed) := by
  refine ⟨hI.cur1, Nat.le_refl _, Nat.le_refl _, ?_, ?_, Or.inl (Nat.le_refl _), trivial⟩
  · intro o h; simp [frame0] at h
  · intro o h; simp [frame0] at h

/-- the frame after recording a read of the hot dependency `d` with info `x` -/
theorem frOk_push {P r s f d} {x : Res} (fi : FrOk P r s f) (hb : depBelow r d) (hh : hotDep s d)
    (hx : depInfo s d = some x) (hsem : semDep P s.inp d = x.val) (hca : x.ca ≤ s.cur)
    (hhd : (∃ i, d = .inp i) ∨ (∃ q, d = .qry q) ∨ ∃ c, (d = .field c ∨ d = .spec c) ∧
      ∃ o' q', o' ∈ f.obs ∧ o'.out = false ∧ o'.dep = .qry q' ∧ o'.val.h = some c) :
    FrOk P r s (f.push d x) := by
  simp only [Frame.push]
  refine ⟨Nat.max_le.mpr ⟨fi.ca_le, hca⟩, Nat.le_trans fi.ca1 (Nat.le_max_left _ _),
    Nat.le_trans (Nat.min_le_left _ _) fi.dur3, ?_, ?_, ?_, ?_⟩
  · intro o ho hout
    simp only [List.mem_append, List.mem_singleton] at ho
    rcases ho with ho | ho
    · have a := fi.rd o ho hout
      obtain ⟨y, h1, h2, h3, h4, h5⟩ := a.info
      exact ⟨a.below, a.hot, ⟨y, h1, h2, Nat.le_trans h3 (Nat.le_max_left _ _),
        Nat.le_trans (Nat.min_le_left _ _) h4, h5⟩, a.sem⟩
    · subst ho
      exact ⟨hb, hh, ⟨x, hx, rfl, Nat.le_max_right _ _, Nat.min_le_right _ _, rfl⟩, hsem⟩
  · intro o ho hout
    simp only [List.mem_append, List.mem_singleton] at ho
    rcases ho with ho | ho
    · exact fi.out o ho hout
    · subst ho; cases hout
  · by_cases hle : x.ca ≤ f.ca
    · rw [Nat.max_eq_left hle]
      rcases fi.att with a | ⟨o, ho, hout, y, h2, h3⟩
      · exact Or.inl a
      · exact Or.inr ⟨o, by simp [ho], hout, y, h2, h3⟩
    · rw [Nat.max_eq_right (Nat.le_of_lt (Nat.lt_of_not_le hle))]
      exact Or.inr ⟨⟨d, x.val, decide (x.dur ≠ 3), false⟩, by simp, rfl, x, hx, Nat.le_refl _⟩
  · apply hdOk_snoc fi.hd
    rcases hhd with ⟨i, e⟩ | ⟨q, e⟩ | ⟨c, e, o', q', a1, a2, a3, a4⟩
    · exact Or.inr (Or.inl ⟨i, e⟩)
    · exact Or.inr (Or.inr (Or.inl ⟨q, e⟩))
    · exact Or.inr (Or.inr (Or.inr ⟨c, e, Or.inr ⟨o', q', a1, a2, a3, a4⟩⟩))

/-- a handle received from a recorded query read: the creator is valid and its struct exists -/
theorem handle_live {P idOf r s f} (hP : Wf2 P idOf) (hI : Inv P idOf s) (fi : FrOk P r s f)
    {o' : Obs} {q' c : Nat} (ho : o' ∈ f.obs) (hout : o'.out = false) (hd : o'.dep = .qry q')
    (hh : o'.val.h = some c) :
    c < r ∧ memoSok s c ∧ ∃ sl, s.slots c = some sl := by
  have a := fi.rd o' ho hout
  have hb := a.below
  have hhot := a.hot
  obtain ⟨x, hx, hv, _⟩ := a.info
  rw [hd] at hb hhot hx
  obtain ⟨m, hm, hva⟩ := hhot
  simp only [depInfo, hm, Option.map_some, Option.some.injEq] at hx
  have hmv : m.value = o'.val := by rw [← hv, ← hx]
  obtain ⟨hle, hc, hsl⟩ := handle_ok hP hI hm (Or.inl hva) (by rw [hmv]; exact hh)
  simp only [depBelow] at hb
  exact ⟨by omega, hc, hsl⟩

/-- the handle source of the `Wf2B` handle set: every held handle was received from a recorded
    query read -/
def HSrc (H : Nat → Prop) (obs : List Obs) : Prop :=
  ∀ c, H c → ∃ o' q', o' ∈ obs ∧ o'.out = false ∧ o'.dep = .qry q' ∧ o'.val.h = some c

theorem hsrc_append {H obs l} (h : HSrc H obs) : HSrc H (obs ++ l) := by
  intro c hc
  obtain ⟨o', q', a, b⟩ := h c hc
  exact ⟨o', q', by simp [a], b⟩

/-- what the body may read: inputs, smaller queries, structs whose handle it holds -/
def DepOk (r : Nat) (f : Frame) : Dep → Prop
  | .inp _ => True
  | .qry q => q < r
  | .field c => ∃ o' q', o' ∈ f.obs ∧ o'.out = false ∧ o'.dep = .qry q' ∧ o'.val.h = some c
  | .spec c => ∃ o' q', o' ∈ f.obs ∧ o'.out = false ∧ o'.dep = .qry q' ∧ o'.val.h = some c

theorem nb_lock {r c s t} (h : LockU c s t) (hnb : NB s r) (hc : memoSok s c) : NB t r := by
  intro c' hc' hb
  rcases h.busy_back hb with a | a
  · exact hnb c' hc' a
  · subst a
    exact memoSok_not_busy ((h.memoSokIff c').mpr hc) hb

/-- ONE read of a dependency by the body of node `r` -/
theorem readDep_ok {P idOf r fe} (hP : Wf2 P idOf) (hfe : FetchSpec P idOf r fe)
    (hfs : SpecFetchOk P idOf (fetchSpec P.spec)) {s : State} {f : Frame} {d : Dep}
    (hI : Inv P idOf s) (hnb : NB s r) (fi : FrOk P r s f) (hd : DepOk r f d)
    (hpn : (readDep fe (fetchSpec P.spec) s d).1.panic = none) :
    Inv P idOf (readDep fe (fetchSpec P.spec) s d).1 ∧ NB (readDep fe (fetchSpec P.spec) s d).1 r ∧
    Ext s (readDep fe (fetchSpec P.spec) s d).1 r ∧
    FrOk P r (readDep fe (fetchSpec P.spec) s d).1 (f.push d (readDep fe (fetchSpec P.spec) s d).2) ∧
    (readDep fe (fetchSpec P.spec) s d).2.val = semDep P s.inp d ∧
    hotDep (readDep fe (fetchSpec P.spec) s d).1 d ∧
    depInfo (readDep fe (fetchSpec P.spec) s d).1 d = some (readDep fe (fetchSpec P.spec) s d).2 := by
  cases d with
  | inp i =>
    simp only [readDep]
    have hx : depInfo s (.inp i) = some ⟨⟨(s.inp i).val, none⟩, (s.inp i).ca, (s.inp i).dur⟩ := rfl
    exact ⟨hI, hnb, Ext.refl s r, frOk_push fi trivial trivial hx rfl (hI.inp_le i) (Or.inl ⟨i, rfl⟩), rfl,
      trivial, hx⟩
  | qry q =>
    simp only [readDep] at hpn ⊢
    have hq : q < r := hd
    obtain ⟨g1, g2, g3, g4, m, g5, g6, g7, g8, g9⟩ := hfe s q hq hI hnb hpn
    generalize fe s q = rd at g1 g2 g3 g4 g5 g6 g7 g8 g9
    have hx : depInfo rd.1 (.qry q) = some rd.2 := by
      simp only [depInfo, g5, Option.map_some, g7, g8, g9]
    have hh : hotDep rd.1 (.qry q) := ⟨m, g5, by rw [g6, g3.cur]⟩
    refine ⟨g1, g2, g3, ?_, g4, hh, hx⟩
    refine frOk_push (frOk_ext g3 fi) hq hh hx ?_ (depInfo_ca_le g1 hx) (Or.inr (Or.inl ⟨q, rfl⟩))
    rw [g4, g3.inp]; rfl
  | field c =>
    obtain ⟨o', q', a1, a2, a3, a4⟩ := hd
    obtain ⟨hcr, hc, sl, hsl⟩ := handle_live hP hI fi a1 a2 a3 a4
    have hL := lockU_lockSlot hsl
    have he : Ext s (lockSlot s c sl) r := hL.ext.weaken (by omega)
    have e : readDep fe (fetchSpec P.spec) s (.field c) = (lockSlot s c sl, ⟨⟨sl.v, none⟩, sl.fca, sl.dur⟩) := by
      simp [readDep, hsl]
    rw [e]
    have hx : depInfo (lockSlot s c sl) (.field c) = some ⟨⟨sl.v, none⟩, sl.fca, sl.dur⟩ := by
      rw [hL.depInfo_eq]; simp [depInfo, hsl]
    obtain ⟨sl', hsl', _⟩ := hL.same sl hsl
    have hh : hotDep (lockSlot s c sl) (.field c) := ⟨(hL.memoSokIff c).mpr hc, sl', hsl'⟩
    have hI' := inv_lock' hI hsl
    have hsem : semDep P s.inp (.field c) = ⟨sl.v, none⟩ := field_sem_val hP hI hc hsl
    refine ⟨hI', nb_lock hL hnb hc, he, ?_, hsem.symm, hh, hx⟩
    exact frOk_push (frOk_ext he fi) hcr hh hx hsem (depInfo_ca_le hI' hx)
      (Or.inr (Or.inr ⟨c, Or.inl rfl, o', q', a1, a2, a3, a4⟩))
  | spec c =>
    obtain ⟨o', q', a1, a2, a3, a4⟩ := hd
    obtain ⟨hcr, hc, sl, hsl⟩ := handle_live hP hI fi a1 a2 a3 a4
    have e : readDep fe (fetchSpec P.spec) s (.spec c) = fetchSpec P.spec s c := by
      simp [readDep, hsl]
    rw [e] at hpn ⊢
    obtain ⟨g1, g2, _, g4, g5, sm, g6, g7, g8, g9, g10⟩ := hfs s c hI hc ⟨sl, hsl⟩ hpn
    generalize fetchSpec P.spec s c = rd at g1 g2 g4 g5 g6 g7 g8 g9 g10
    have he : Ext s rd.1 r := g2.weaken (by omega)
    have hx : depInfo rd.1 (.spec c) = some rd.2 := by
      simp only [depInfo, g6, Option.map_some, g8, g9, g10]
    have hh : hotDep rd.1 (.spec c) := ⟨g2.memoSok hc, sm, g6, by rw [g7, g2.cur]⟩
    have hnb' : NB rd.1 r := fun c' hc' hb => hnb c' hc' (g4 c' hb)
    refine ⟨g1, hnb', he, ?_, g5, hh, hx⟩
    refine frOk_push (frOk_ext he fi) hcr hh hx ?_ (depInfo_ca_le g1 hx)
      (Or.inr (Or.inr ⟨c, Or.inr rfl, o', q', a1, a2, a3, a4⟩))
    rw [g5, g2.inp]; rfl

/-- a read of the identity field of a struct whose handle is held -/
theorem identStep_ok {P idOf r} (hP : Wf2 P idOf) {s : State} {f : Frame} {c : Nat}
    (hI : Inv P idOf s) (hnb : NB s r) (fi : FrOk P r s f)
    (hd : ∃ o' q', o' ∈ f.obs ∧ o'.out = false ∧ o'.dep = .qry q' ∧ o'.val.h = some c) :
    Inv P idOf (identStep s c).1 ∧ NB (identStep s c).1 r ∧ Ext s (identStep s c).1 r ∧
    FrOk P r (identStep s c).1 f ∧ (identStep s c).2 = idOf c := by
  obtain ⟨o', q', a1, a2, a3, a4⟩ := hd
  obtain ⟨hcr, hc, sl, hsl⟩ := handle_live hP hI fi a1 a2 a3 a4
  have hL := lockU_lockSlot hsl
  have he : Ext s (lockSlot s c sl) r := hL.ext.weaken (by omega)
  have e : identStep s c = (lockSlot s c sl, sl.k) := by simp [identStep, hsl]
  rw [e]
  exact ⟨inv_lock' hI hsl, nb_lock hL hnb hc, he, frOk_ext he fi, (field_sem hP hI hc hsl).2⟩

end X
end SalsaVerif.Proofs.CoreSpec
