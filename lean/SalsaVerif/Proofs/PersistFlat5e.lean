/-
  C26 with flattening: shallow verification (durability) and successful deep verification (edge
  list) preserve `J`.  Core Lean only.
-/
import SalsaVerif.Proofs.PersistFlat5d

namespace SalsaVerif.Proofs.PersistFlat
open SalsaVerif.Model.Core SalsaVerif.Model.Persist SalsaVerif.Proofs.Core SalsaVerif.Proofs.Persist

theorem shallow_reval {pers P H R0 t r m} (hP : Wf P) (hJ : J pers P H R0 t) (hm : t.memos r = some m)
    (hsh : lc t m.dur ≤ m.va) :
    Reval pers P H t r m (fun k => Reach P (H m.va) r k) (fun _ => False) := by
  have h0 := hJ.memo r m hm
  have hreg : Region P H t m.va (fun k => Reach P (H m.va) r k) (fun _ => False) := by
    refine ⟨h0.va1, h0.va_cur, ?_, ?_, ?_⟩
    · intro k k' hk hd; exact Or.inl (hk.trans (Reach.step hd (Reach.refl k')))
    · intro k i hk hd
      have hl : Leaf P (H m.va) r i := ⟨k, hk, hd⟩
      have e := shallow_const hJ hm hsh i hl t.cur h0.va_cur (Nat.le_refl _)
      rw [hJ.hist.cur hJ.base] at e
      rw [e]; exact hJ.hist.hca m.va i h0.va1 h0.va_cur
    · intro p hp; exact absurd hp id
  exact ⟨hreg, Reach.refl r, fun k hk => hk, fun p hp => absurd hp id, fun p hp => absurd hp id,
    region_ca hP hJ hreg (fun p hp => absurd hp id)⟩

/-- **shallow verification preserves `J`** -/
theorem shallow_J {pers P H R0 t r m} (hP : Wf P) (hJ : J pers P H R0 t) (hm : t.memos r = some m)
    (hsh : lc t m.dur ≤ m.va) : J pers P H R0 (setMemo t r { m with va := t.cur }) := by
  have h0 := hJ.memo r m hm
  have hs : SOK t m := Or.inr hsh
  have hPrem : PremL P H t r m := by
    refine ⟨fun i _ hl => shallow_leaf_ca hJ hm hsh i hl, ?_⟩
    intro k mk hk hmk
    obtain ⟨mk', e1, _, e3, _⟩ := h0.j8 hs k hk
    rw [hmk] at e1; cases e1; exact e3
  have := reval_J hP hJ hm (shallow_reval hP hJ hm hsh) m.deepAt h0.deep1
    (Nat.le_trans h0.deep_va h0.va_cur) h0.r0 ?_ hPrem (fun k hk => hk.reach) ?_
  · exact this
  · -- j4 up to the current revision
    intro i hi ρ h1 h2
    have ha : H m.va i = H m.deepAt i := h0.j4 i hi m.va h0.deep_va (Nat.le_refl _)
    by_cases hρ : ρ ≤ m.va
    · exact h0.j4 i hi ρ h1 hρ
    · have hag : AgreeOn P (H m.deepAt) (H m.va) r := by
        intro j hj; rw [h0.j4 j hj m.va h0.deep_va (Nat.le_refl _)]
      have hl : Leaf P (H m.va) r i := (leaf_same hP hag).mp hi
      rw [shallow_const hJ hm hsh i hl ρ (by omega) h2, ha]
  · intro k hk
    obtain ⟨_, mk, hmk, hle⟩ := h0.j7 k hk
    obtain ⟨mk', e1, e2, _, _⟩ := h0.j8 hs k hk
    rw [hmk] at e1; cases e1
    exact ⟨mk, hmk, hle, e2⟩

theorem deep_prem {P H t r m}
    (hfacts : ∀ d, d ∈ odOf m → hot t d ∧ ∃ x, depInfo t d = some x ∧ x.ca ≤ m.va) : PremL P H t r m := by
  refine ⟨?_, ?_⟩
  · intro i hi _
    obtain ⟨_, x, hx, hc⟩ := hfacts (.inp i) hi
    simp only [depInfo, Option.some.injEq] at hx
    rw [← hx] at hc; exact hc
  · intro k mk hk hmk
    obtain ⟨_, x, hx, hc⟩ := hfacts (.qry k) hk
    simp only [depInfo, hmk, Option.map, Option.some.injEq] at hx
    rw [← hx] at hc; exact hc

/-- the region of a successful deep verification: the nodes above the edge list -/
theorem deep_reval {pers P H R0 t r m} (hP : Wf P) (hJ : J pers P H R0 t) (hm : t.memos r = some m)
    (hfacts : ∀ d, d ∈ odOf m → hot t d ∧ ∃ x, depInfo t d = some x ∧ x.ca ≤ m.va) :
    Reval pers P H t r m (fun k => Above P (H m.va) (odOf m) r k)
      (fun p => Dep.qry p ∈ odOf m ∧ Reach P (H m.va) r p) := by
  have h0 := hJ.memo r m hm
  have hPrem : PremL P H t r m := deep_prem hfacts
  have hcut : Cut P (H m.va) (odOf m) r := h0.j6 (Or.inr hPrem)
  have hb : ∀ p, (Dep.qry p ∈ odOf m ∧ Reach P (H m.va) r p) →
      ∃ mp, t.memos p = some mp ∧ mp.va = t.cur ∧ mp.ca ≤ m.va ∧ sem P (H m.va) p = mp.value := by
    intro p ⟨hp, hr⟩
    obtain ⟨hh, x, hx, hc⟩ := hfacts _ hp
    obtain ⟨mp, hmp, hv⟩ := hot_qry hh
    simp only [depInfo, hmp, Option.map, Option.some.injEq] at hx
    have hcp : mp.ca ≤ m.va := by rw [← hx] at hc; exact hc
    exact ⟨mp, hmp, hv, hcp, (h0.pc p mp hr hmp hcp).1⟩
  have hreg : Region P H t m.va (fun k => Above P (H m.va) (odOf m) r k)
      (fun p => Dep.qry p ∈ odOf m ∧ Reach P (H m.va) r p) := by
    refine ⟨h0.va1, h0.va_cur, ?_, ?_, ?_⟩
    · intro k k' hk hd
      by_cases hin : Dep.qry k' ∈ odOf m
      · exact Or.inr ⟨hin, hk.reach.trans (Reach.step hd (Reach.refl k'))⟩
      · exact Or.inl (Above.step hk hd hin)
    · intro k i hk hd
      obtain ⟨_, x, hx, hc⟩ := hfacts (.inp i) (hcut k hk i hd)
      simp only [depInfo, Option.some.injEq] at hx
      rw [← hx] at hc; exact hc
    · intro p hp
      obtain ⟨mp, a, _, c, d⟩ := hb p hp
      exact ⟨mp, a, c, d⟩
  refine ⟨hreg, Above.refl, fun k hk => hk.reach, fun p hp => hp.2, ?_, ?_⟩
  · intro p hp
    obtain ⟨mp, a, b, _, _⟩ := hb p hp
    exact ⟨mp, a, b⟩
  · rcases h0.j7s with hp | hall
    · exact region_ca hP hJ hreg (fun p hp' => hp p hp'.1)
    · intro k mk hk hmk
      have key : ∀ k, Above P (H m.va) (odOf m) r k → k = r := by
        intro k hk
        induction hk with
        | refl => rfl
        | step _ hd hn ih => subst ih; exact absurd (hall _ hd) hn
      rw [key k hk, hm] at hmk; cases hmk
      exact h0.ca_va

/-- **successful deep verification preserves `J`** -/
theorem deep_J {pers P H R0 t r m} (hP : Wf P) (hJ : J pers P H R0 t) (hm : t.memos r = some m)
    (hfacts : ∀ d, d ∈ odOf m → hot t d ∧ ∃ x, depInfo t d = some x ∧ x.ca ≤ m.va) :
    J pers P H R0 (setMemo t r { m with va := t.cur, deepAt := t.cur }) := by
  refine reval_J hP hJ hm (deep_reval hP hJ hm hfacts) t.cur hJ.base.cur1 (Nat.le_refl _) (fun _ => hJ.r0)
    ?_ (deep_prem hfacts) (fun k hk => hk) ?_
  · intro i _ ρ h1 h2
    have : ρ = t.cur := Nat.le_antisymm h2 h1
    rw [this]
  · intro k hk
    obtain ⟨mk, hmk, hv⟩ := hot_qry (hfacts _ hk).1
    exact ⟨mk, hmk, by rw [hv]; exact Nat.le_refl _, Or.inl hv⟩

end SalsaVerif.Proofs.PersistFlat
