/-
  Programs all of whose nodes recover from cycles: a request from an unpoisoned database never
  ends in `panic cycle` or `propagated` (and, by `CycleChainTop`, not in `tooManyIterations`
  either).  Core Lean only.
-/
import SalsaVerif.Proofs.CycleChainTop
import SalsaVerif.Proofs.CycleFuel

namespace SalsaVerif.Proofs.Cycle
open SalsaVerif.Model.Cycle SalsaVerif.Gen.Stamp

/-- every existing node has a cycle-recovery strategy. -/
def Recovering (P : Prog) : Prop := ∀ c, c < P.n → (P.node c).strat ≠ .panic

def NoCP {α : Type} (r : Res α) : Prop :=
  ∀ err, r = .error err → err.cls ≠ .cycle ∧ err.cls ≠ .propagated

section
variable (P : Prog) (env : Nat → Nat)

structure GoodSt (s : St) : Prop where
  inv : Inv P env s
  pois : s.poisoned = []
  bound : ∀ x ∈ s.stack, x < P.n

def ReadNoCP (read : Nat → St → Res Fetched) : Prop :=
  ∀ c s, c < P.n → GoodSt P env s → NoCP (read c s)

def ExecNoCP (exec : Nat → St → Res Fetched) : Prop :=
  ∀ j s, j < P.n → GoodSt P env s → j ∉ s.stack → s.final.lookup j = none →
    s.cache.lookup j = none → NoCP (exec j s)

theorem GoodSt.step {s s' : St} (h : GoodSt P env s) (hI : Inv P env s')
    (hst : s'.stack = s.stack) (hE : Ext s s') : GoodSt P env s' :=
  ⟨hI, by rw [hE.poisoned]; exact h.pois, by rw [hst]; exact h.bound⟩

theorem evalM_noCP {read : Nat → St → Res Fetched} (hR : ReadSpec P env read)
    (hT : ReadNoCP P env read) :
    ∀ (ex : Expr) (s : St), (∀ c ∈ allCallees ex, c < P.n) → GoodSt P env s →
      NoCP (evalM env read ex s) := by
  intro ex
  induction ex with
  | const c => intro s _ _ err h; simp [evalM] at h
  | input i => intro s _ _ err h; simp [evalM] at h
  | call k =>
    intro s hc hG err h
    simp only [evalM] at h
    cases hr : read k s with
    | error e' =>
      rw [hr] at h; injection h with h; subst h
      exact hT k s (hc k (by simp [allCallees])) hG _ hr
    | ok res => obtain ⟨w, hs1, s1⟩ := res; rw [hr] at h; cases h
  | union a b iha ihb =>
    intro s hc hG err h
    simp only [allCallees, List.mem_append] at hc
    simp only [evalM] at h
    cases ha : evalM env read a s with
    | error e' =>
      rw [ha] at h; injection h with h; subst h
      exact iha s (fun c hc' => hc c (Or.inl hc')) hG _ ha
    | ok res =>
      obtain ⟨x, h1, s1⟩ := res
      rw [ha] at h
      simp only at h
      obtain ⟨hI1, hst1, hE1, _⟩ := evalM_spec P env hR a s x h1 s1 hG.inv ha
      cases hb : evalM env read b s1 with
      | error e' =>
        rw [hb] at h; injection h with h; subst h
        exact ihb s1 (fun c hc' => hc c (Or.inr hc')) (hG.step P env hI1 hst1 hE1) _ hb
      | ok res2 => obtain ⟨y, h2, s2⟩ := res2; rw [hb] at h; cases h
  | inter a b iha ihb =>
    intro s hc hG err h
    simp only [allCallees, List.mem_append] at hc
    simp only [evalM] at h
    cases ha : evalM env read a s with
    | error e' =>
      rw [ha] at h; injection h with h; subst h
      exact iha s (fun c hc' => hc c (Or.inl hc')) hG _ ha
    | ok res =>
      obtain ⟨x, h1, s1⟩ := res
      rw [ha] at h
      simp only at h
      obtain ⟨hI1, hst1, hE1, _⟩ := evalM_spec P env hR a s x h1 s1 hG.inv ha
      cases hb : evalM env read b s1 with
      | error e' =>
        rw [hb] at h; injection h with h; subst h
        exact ihb s1 (fun c hc' => hc c (Or.inr hc')) (hG.step P env hI1 hst1 hE1) _ hb
      | ok res2 => obtain ⟨y, h2, s2⟩ := res2; rw [hb] at h; cases h
  | ite i a b iha ihb =>
    intro s hc hG err h
    simp only [allCallees, List.mem_append] at hc
    simp only [evalM] at h
    split at h
    · exact iha s (fun c hc' => hc c (Or.inl hc')) hG err h
    · exact ihb s (fun c hc' => hc c (Or.inr hc')) hG err h
  | gate g a ihg iha =>
    intro s hc hG err h
    simp only [allCallees, List.mem_append] at hc
    simp only [evalM] at h
    cases hg : evalM env read g s with
    | error e' =>
      rw [hg] at h; injection h with h; subst h
      exact ihg s (fun c hc' => hc c (Or.inl hc')) hG _ hg
    | ok res =>
      obtain ⟨x, h1, s1⟩ := res
      rw [hg] at h
      simp only at h
      obtain ⟨hI1, hst1, hE1, _⟩ := evalM_spec P env hR g s x h1 s1 hG.inv hg
      split at h
      · cases ha : evalM env read a s1 with
        | error e' =>
          rw [ha] at h; injection h with h; subst h
          exact iha s1 (fun c hc' => hc c (Or.inr hc')) (hG.step P env hI1 hst1 hE1) _ ha
        | ok res2 => obtain ⟨y, h2, s2⟩ := res2; rw [ha] at h; cases h
      · cases h

theorem fetch_noCP (hRec : Recovering P) {exec : Nat → St → Res Fetched}
    (hX : ExecNoCP P env exec) : ReadNoCP P env (fetch P exec) := by
  intro c s hcn hG err h
  cases hp : s.poisoned.contains c with
  | true => rw [hG.pois] at hp; cases hp
  | false =>
    cases hf : s.final.lookup c with
    | some w => rw [fetch_final P exec c s hp hf] at h; cases h
    | none =>
      cases hst : s.stack.contains c with
      | true =>
        rw [fetch_stack P exec c s hp hf hst] at h
        have hstrat := hRec c hcn
        cases hl : s.prov.lookup c with
        | some w => rw [fetchColdCycle_some P c s hstrat hl] at h; cases h
        | none => rw [fetchColdCycle_none P c s hstrat hl] at h; cases h
      | false =>
        cases hc : s.cache.lookup c with
        | some en => rw [fetch_cache P exec c s hp hf hst hc] at h; cases h
        | none =>
          rw [fetch_exec P exec c s hp hf hst hc] at h
          exact hX c s hcn hG (by simpa using hst) hf hc err h

/-- the head loop of a recovering program never panics with `cycle` / `propagated` (gates
    allowed: the only other way out is the iteration limit). -/
theorem loop_noCP (hNF : NoFallback P) (hW : P.Wf) {read : Nat → St → Res Fetched}
    (hR : ReadSpec P env read) (hT : ReadNoCP P env read) (j : Nat) (hjn : j < P.n)
    (rest : List Nat) :
    ∀ (fuel stamp : Nat) (s : St), GoodSt P env s → s.stack = j :: rest →
      NoCP (executeMaybeIterate P env read j fuel stamp s) := by
  intro fuel
  induction fuel with
  | zero =>
    intro stamp s _ _ err h
    simp only [executeMaybeIterate] at h
    injection h with h; subst h
    exact ⟨(fun hc => nomatch hc), (fun hc => nomatch hc)⟩
  | succ fuel ih =>
    intro stamp s hG hst err h
    cases hev : evalM env read (P.node j).body s with
    | error e' =>
      rw [emi_body_error P env _ j _ _ _ hev] at h
      injection h with h; subst h
      exact evalM_noCP P env hR hT _ _ (wf_allCallees P hW hjn) hG _ hev
    | ok res =>
      obtain ⟨v1, hs1, s1⟩ := res
      obtain ⟨hI1, hst1, hE1, hrel⟩ := evalM_spec P env hR _ _ v1 hs1 s1 hG.inv hev
      have hst1' : s1.stack = j :: rest := hst1.trans hst
      cases hl : s1.prov.lookup j with
      | none =>
        cases hb : belowOf s1 with
        | true => rw [emi_part P env _ j _ _ _ hev hl hb] at h; cases h
        | false => rw [emi_final P env _ j _ _ _ hev hl hb] at h; cases h
      | some last =>
        cases hb : belowOf s1 with
        | true => rw [emi_nested P env _ j _ _ _ hev hl hb] at h; cases h
        | false =>
          cases hcv : converged (cache1Of s1 j (cycleFn P j last v1)) s1.prov with
          | true => rw [emi_conv P env _ j _ _ _ hev hl hb hcv] at h; cases h
          | false =>
            cases hi : IterationStamp.increment_iteration stamp with
            | none =>
              rw [emi_too P env _ j _ _ _ hev hl hb hcv hi] at h
              injection h with h; subst h
              exact ⟨(fun hc => nomatch hc), (fun hc => nomatch hc)⟩
            | some stamp' =>
              rw [emi_iter P env _ j _ _ _ hev hl hb hcv hi] at h
              have hv1 : le v1 (lfp P env j) := by
                rw [← lfp_step]
                exact EvalRel.upper (fun c w hw => hI1.avail_le P env hw) hrel
              have hnew : le (cycleFn P j last v1) (lfp P env j) :=
                (cycleFn_bounds hNF j last v1).2 _ hv1 (hI1.provLe j last hl)
              have hI2 := iterate_inv P env s1 j rest _ hI1 hst1' hnew (by rw [hl]; rfl)
              have hG2 : GoodSt P env (stIter s1 j (cycleFn P j last v1)) :=
                ⟨hI2, by show s1.poisoned = []; rw [hE1.poisoned]; exact hG.pois,
                  by show ∀ x ∈ s1.stack, x < P.n; rw [hst1]; exact hG.bound⟩
              exact ih stamp' _ hG2 hst1' err h

theorem execute_noCP (hNF : NoFallback P) (hW : P.Wf)
    (hRec : Recovering P) : ∀ d, ExecNoCP P env (execute P env d) := by
  intro d
  induction d with
  | zero =>
    intro j s _ _ _ _ _ err h
    simp only [execute] at h
    injection h with h; subst h
    exact ⟨(fun hc => nomatch hc), (fun hc => nomatch hc)⟩
  | succ d ih =>
    intro j s hjn hG hj hf hc err h
    unfold execute at h
    have hI := hG.inv
    have hR := fetch_spec P env hNF (execute_spec P env hNF d)
    have hIp := inv_push P env hI hj hf hc
    have hGp : GoodSt P env { s with stack := j :: s.stack } := by
      refine ⟨hIp, hG.pois, ?_⟩
      intro x hx
      cases hx with
      | head => exact hjn
      | tail _ hx => exact hG.bound x hx
    exact loop_noCP P env hNF hW hR (fetch_noCP P env hRec ih) j hjn s.stack _ _ _ hGp rfl err h

/-- recovering programs (gates allowed): no `panic cycle`, no `propagated`. -/
theorem eval_noCP (hNF : NoFallback P) (hW : P.Wf) (hRec : Recovering P)
    {final : List (Nat × Nat)} (hdb : DbOk P env final) (j : Nat) (hj : j < P.n) (e : Panic)
    (h : eval P env final [] j = .error e) : e.cls ≠ .cycle ∧ e.cls ≠ .propagated := by
  unfold eval at h
  cases hf : fetch P (execute P env (P.n + 1)) j (St.init final []) with
  | ok res => obtain ⟨v, hs, s⟩ := res; rw [hf] at h; cases h
  | error e' =>
    rw [hf] at h
    injection h with h; subst h
    exact fetch_noCP P env hRec (execute_noCP P env hNF hW hRec (P.n + 1)) j _ hj
      ⟨inv_init P env hdb [], rfl, fun x hx => nomatch hx⟩ _ hf

/-- **total correctness** for recovering gate-free programs: the request returns a value. -/
theorem eval_ok (hNF : NoFallback P) (hG : P.NoGate) (hn : 8 * P.n < 200) (hW : P.Wf)
    (hRec : Recovering P)
    {final : List (Nat × Nat)} (hdb : DbOk P env final) (j : Nat) (hj : j < P.n) :
    ∃ v s, eval P env final [] j = .ok (v, s) := by
  cases h : eval P env final [] j with
  | ok res => obtain ⟨v, s⟩ := res; exact ⟨v, s, rfl⟩
  | error e =>
    exfalso
    have h1 := eval_fuel P env hW final [] j hj e h
    have h2 := eval_noTM P env hNF hG hn hdb [] j e h
    obtain ⟨h3, h4⟩ := eval_noCP P env hNF hW hRec hdb j hj e h
    cases hc : e.cls with
    | cycle => exact h3 hc
    | tooManyIterations => exact h2 hc
    | propagated => exact h4 hc
    | outOfFuel => exact h1 hc

end

end SalsaVerif.Proofs.Cycle
