/-
  Programs all of whose nodes recover from cycles: a request from an unpoisoned database never
  ends in `panic cycle` or `propagated` (and, by `CycleChainTop`, not in `tooManyIterations`
  either).  Core Lean only.
-/
import SalsaVerif.Proofs.CycleChainTop
import SalsaVerif.Proofs.CycleFuel

namespace SalsaVerif.Proofs.Cycle
open SalsaVerif.Model.Cycle SalsaVerif.Gen.Stamp

/-- every existing node has a cycle-recovery strategy. -/
def Recovering (P : Prog) : Prop := ∀ c, c < P.n → (P.node c).strat ≠ .panic

def NoCP {α : Type} (r : Res α) : Prop :=
  ∀ err, r = .error err → err.cls ≠ .cycle ∧ err.cls ≠ .propagated

section
variable (P : Prog) (env : Nat → Nat)

structure GoodSt (s : St) : Prop where
  inv : Inv P env s
  pois : s.poisoned = []
  bound : ∀ x ∈ s.stack, x < P.n

def ReadNoCP (read : Nat → St → Res Fetched) : Prop :=
  ∀ c s, c < P.n → GoodSt P env s → NoCP (read c s)

def ExecNoCP (exec : Nat → St → Res Fetched) : Prop :=
  ∀ j s, j < P.n → GoodSt P env s → j ∉ s.stack → s.final.lookup j = none →
    s.cache.lookup j = none → NoCP (exec j s)

theorem GoodSt.step {s s' : St} (h : GoodSt P env s) (hI : Inv P env s')
    (hst : s'.stack = s.stack) (hE : Ext s s') : GoodSt P env s' :=
  ⟨hI, by rw [hE.poisoned]; exact h.pois, by rw [hst]; exact h.bound⟩

theorem evalM_noCP {read : Nat → St → Res Fetched} (hR : ReadSpec P env read)
    (hT : ReadNoCP P env read) :
    ∀ (ex : Expr) (s : St), (∀ c ∈ callees env ex, c < P.n) → GoodSt P env s →
      NoCP (evalM env read ex s) := by
  intro ex
  induction ex with
  | const c => intro s _ _ err h; simp [evalM] at h
  | input i => intro s _ _ err h; simp [evalM] at h
  | call k =>
    intro s hc hG err h
    simp only [evalM] at h
    cases hr : read k s with
    | error e' =>
      rw [hr] at h; injection h with h; subst h
      exact hT k s (hc k (by simp [callees])) hG _ hr
    | ok res => obtain ⟨w, hs1, s1⟩ := res; rw [hr] at h; cases h
  | union a b iha ihb =>
    intro s hc hG err h
    simp only [callees, List.mem_append] at hc
    simp only [evalM] at h
    cases ha : evalM env read a s with
    | error e' =>
      rw [ha] at h; injection h with h; subst h
      exact iha s (fun c hc' => hc c (Or.inl hc')) hG _ ha
    | ok res =>
      obtain ⟨x, h1, s1⟩ := res
      rw [ha] at h
      simp only at h
      obtain ⟨hI1, hst1, hE1, _⟩ := evalM_spec P env hR a s x h1 s1 hG.inv ha
      cases hb : evalM env read b s1 with
      | error e' =>
        rw [hb] at h; injection h with h; subst h
        exact ihb s1 (fun c hc' => hc c (Or.inr hc')) (hG.step P env hI1 hst1 hE1) _ hb
      | ok res2 => obtain ⟨y, h2, s2⟩ := res2; rw [hb] at h; cases h
  | inter a b iha ihb =>
    intro s hc hG err h
    simp only [callees, List.mem_append] at hc
    simp only [evalM] at h
    cases ha : evalM env read a s with
    | error e' =>
      rw [ha] at h; injection h with h; subst h
      exact iha s (fun c hc' => hc c (Or.inl hc')) hG _ ha
    | ok res =>
      obtain ⟨x, h1, s1⟩ := res
      rw [ha] at h
      simp only at h
      obtain ⟨hI1, hst1, hE1, _⟩ := evalM_spec P env hR a s x h1 s1 hG.inv ha
      cases hb : evalM env read b s1 with
      | error e' =>
        rw [hb] at h; injection h with h; subst h
        exact ihb s1 (fun c hc' => hc c (Or.inr hc')) (hG.step P env hI1 hst1 hE1) _ hb
      | ok res2 => obtain ⟨y, h2, s2⟩ := res2; rw [hb] at h; cases h
  | ite i a b iha ihb =>
    intro s hc hG err h
    simp only [callees] at hc
    simp only [evalM] at h
    split at h
    · rename_i hi; rw [if_pos hi] at hc; exact iha s hc hG err h
    · rename_i hi; rw [if_neg hi] at hc; exact ihb s hc hG err h

theorem fetch_noCP (hRec : Recovering P) {exec : Nat → St → Res Fetched}
    (hX : ExecNoCP P env exec) : ReadNoCP P env (fetch P exec) := by
  intro c s hcn hG err h
  cases hp : s.poisoned.contains c with
  | true => rw [hG.pois] at hp; cases hp
  | false =>
    cases hf : s.final.lookup c with
    | some w => rw [fetch_final P exec c s hp hf] at h; cases h
    | none =>
      cases hst : s.stack.contains c with
      | true =>
        rw [fetch_stack P exec c s hp hf hst] at h
        have hstrat := hRec c hcn
        cases hl : s.prov.lookup c with
        | some w => rw [fetchColdCycle_some P c s hstrat hl] at h; cases h
        | none => rw [fetchColdCycle_none P c s hstrat hl] at h; cases h
      | false =>
        cases hc : s.cache.lookup c with
        | some en => rw [fetch_cache P exec c s hp hf hst hc] at h; cases h
        | none =>
          rw [fetch_exec P exec c s hp hf hst hc] at h
          exact hX c s hcn hG (by simpa using hst) hf hc err h

theorem execute_noCP (hNF : NoFallback P) (hn : 8 * P.n < 200) (hW : P.Wf)
    (hRec : Recovering P) : ∀ d, ExecNoCP P env (execute P env d) := by
  intro d
  induction d with
  | zero =>
    intro j s _ _ _ _ _ err h
    simp only [execute] at h
    injection h with h; subst h
    exact ⟨(fun hc => nomatch hc), (fun hc => nomatch hc)⟩
  | succ d ih =>
    intro j s hjn hG hj hf hc err h
    unfold execute at h
    have hI := hG.inv
    have hXd := execute_spec P env hNF d
    have hR := fetch_spec P env hNF hXd
    have hH := fetch_RH P env (execute_RH P env hNF d)
    have hS := fetch_sim P env hNF hXd (execute_RH P env hNF d) (execute_sim P env hNF d)
    have hIp := inv_push P env hI hj hf hc
    have hGp : GoodSt P env { s with stack := j :: s.stack } := by
      refine ⟨hIp, hG.pois, ?_⟩
      intro x hx
      cases hx with
      | head => exact hjn
      | tail _ hx => exact hG.bound x hx
    have h' : executeMaybeIterate P env (fetch P (execute P env d)) j false (MAX_ITERATIONS + 1)
        (IterationStamp.initial 0) { s with stack := j :: s.stack } = .error err := h
    clear h
    cases hev : evalM env (fetch P (execute P env d)) (P.node j).body
        { s with stack := j :: s.stack } with
    | error e' =>
      rw [emi_body_error P env _ j false _ _ _ hev] at h'
      injection h' with h'; subst h'
      exact evalM_noCP P env hR (fetch_noCP P env hRec ih) _ _ (wf_callees P env hW hjn) hGp _ hev
    | ok res =>
      obtain ⟨v1, hs1, s1⟩ := res
      obtain ⟨hI1, hst1, hE1, hrel⟩ := evalM_spec P env hR _ _ v1 hs1 s1 hIp hev
      cases hl : s1.prov.lookup j with
      | none =>
        cases hb : belowOf false s1 with
        | true => rw [emi_part P env _ j false _ _ _ hev hl hb] at h'; cases h'
        | false => rw [emi_final P env _ j false _ _ _ hev hl hb] at h'; cases h'
      | some last =>
        cases hb : belowOf false s1 with
        | true => rw [emi_nested P env _ j false _ _ _ hev hl hb] at h'; cases h'
        | false =>
          cases hcv : converged (cache1Of s1 j (cycleFn P j last v1)) s1.prov with
          | true => rw [emi_conv P env _ j false _ _ _ hev hl hb hcv] at h'; cases h'
          | false =>
            have hi : IterationStamp.increment_iteration (IterationStamp.initial 0) = some 1 := by
              decide
            rw [emi_iter P env _ j false _ _ _ hev hl hb hcv hi] at h'
            have hE : Ext s s1 := ⟨hE1.poisoned, hE1.final, hE1.prov, hE1.cache⟩
            have hno : ¬ HeadOn s := by
              apply not_headOn_of_not_below hE hst1
              rw [belowOf_false] at hb
              rw [hb]; exact fun h => nomatch h
            obtain ⟨hc0, hp0⟩ := hI.empty hno
            have hP := pass_first P env _ j s.stack hR hH hNF _ s1 v1 last hs1 hIp rfl hp0 hc0
              hev hl hb
            have hit : IterationStamp.iteration 1 = 1 := by decide
            obtain ⟨v, hs, s', hok⟩ := loop_ok P env _ j s.stack hR hS hNF hn MAX_ITERATIONS 1
              _ _ _ _ _ hP (by decide) (by decide) (by rw [hit]; omega)
            rw [hok] at h'; cases h'

theorem eval_noCP (hNF : NoFallback P) (hn : 8 * P.n < 200) (hW : P.Wf) (hRec : Recovering P)
    {final : List (Nat × Nat)} (hdb : DbOk P env final) (j : Nat) (hj : j < P.n) (e : Panic)
    (h : eval P env final [] j = .error e) : e.cls ≠ .cycle ∧ e.cls ≠ .propagated := by
  unfold eval at h
  cases hf : fetch P (execute P env (P.n + 1)) j (St.init final []) with
  | ok res => obtain ⟨v, hs, s⟩ := res; rw [hf] at h; cases h
  | error e' =>
    rw [hf] at h
    injection h with h; subst h
    exact fetch_noCP P env hRec (execute_noCP P env hNF hn hW hRec (P.n + 1)) j _ hj
      ⟨inv_init P env hdb [], rfl, fun x hx => nomatch hx⟩ _ hf

/-- **total correctness** for recovering programs: the request returns a value. -/
theorem eval_ok (hNF : NoFallback P) (hn : 8 * P.n < 200) (hW : P.Wf) (hRec : Recovering P)
    {final : List (Nat × Nat)} (hdb : DbOk P env final) (j : Nat) (hj : j < P.n) :
    ∃ v s, eval P env final [] j = .ok (v, s) := by
  cases h : eval P env final [] j with
  | ok res => obtain ⟨v, s⟩ := res; exact ⟨v, s, rfl⟩
  | error e =>
    exfalso
    have h1 := eval_fuel P env hW final [] j hj e h
    have h2 := eval_noTM P env hNF hn hdb [] j e h
    obtain ⟨h3, h4⟩ := eval_noCP P env hNF hn hW hRec hdb j hj e h
    cases hc : e.cls with
    | cycle => exact h3 hc
    | tooManyIterations => exact h2 hc
    | propagated => exact h4 hc
    | outOfFuel => exact h1 hc

end

end SalsaVerif.Proofs.Cycle
