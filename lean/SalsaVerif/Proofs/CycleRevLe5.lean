/-
  Upper bound for the revision-aware cycle model, part 5: requests, writes, histories, and the
  closed-table certificate.  Core Lean only.
-/
import SalsaVerif.Proofs.CycleRevLe4
import SalsaVerif.Proofs.Cycle

namespace SalsaVerif.Proofs.CycleRev
open SalsaVerif.Model
open SalsaVerif.Model.CycleRev
open SalsaVerif.Proofs.Cycle (le le_refl le_trans zero_le le_antisymm)

variable {B : Nat → Nat}

theorem get_good (P : Prog) (hNF : NoFb P) (hNA : NoAdd P) {s : St} (hB : Post P B s.inp)
    (h : Inv B s) (q : Nat) :
    Inv B (CycleRev.get P s q).2 ∧ (CycleRev.get P s q).2.inp = s.inp ∧ ∀ v, (CycleRev.get P s q).1 = .value v → le v (B q) := by
  unfold CycleRev.get
  have hg : G B s.inp { s with evs := [] } := ⟨fun c m v hc hv => h c m v hc hv, rfl⟩
  have := (engGood P hNF hNA hB (P.n + 2)).fetch q _ hg
  cases hr : (eng P (P.n + 2)).fetch q { s with evs := [] } with
  | error p =>
    rw [hr] at this
    exact ⟨this.1, this.2, fun v hv => by cases hv⟩
  | ok r =>
    obtain ⟨v, s'⟩ := r
    rw [hr] at this
    exact ⟨this.1.1, this.1.2, fun w hw => by cases hw; exact this.2⟩

theorem write_inv {s : St} (h : Inv B s) (k v : Nat) (nd : Option Nat) : Inv B (write s k v nd) := by
  intro c m w hc hw
  refine h c m w ?_ hw
  unfold write at hc
  simp only at hc
  split at hc <;> exact hc

theorem synth_inv {s : St} (h : Inv B s) (d : Nat) : Inv B (synth s d) := by
  intro c m w hc hw
  refine h c m w ?_ hw
  unfold synth at hc
  simp only at hc
  split at hc <;> exact hc

theorem init_inv (n : Nat) (inputs : List (Nat × Nat)) : Inv B (St.init n inputs) := by
  intro c m v hc _
  unfold St.init memoOf at hc
  simp only [List.getD_eq_getElem?_getD, List.getElem?_replicate] at hc
  split at hc <;> cases hc

/-- the requests of a history with their answers. -/
def answers (P : Prog) : St → List Op → List (Nat × Outcome)
  | _, [] => []
  | s, .get q :: ops => (q, (CycleRev.get P s q).1) :: answers P (CycleRev.get P s q).2 ops
  | s, .set k v nd :: ops => answers P (write s k v nd) ops
  | s, .synth d :: ops => answers P (synth s d) ops

theorem answers_outputs (P : Prog) (s : St) (ops : List Op) :
    (answers P s ops).map (·.2) = outputs P s ops := by
  induction ops generalizing s with
  | nil => rfl
  | cons op ops ih =>
    cases op with
    | get q => simp [answers, outputs, ih]
    | set k v nd => simp [answers, outputs, ih]
    | synth d => simp [answers, outputs, ih]

/-- `B` is a post-fixpoint of the equations at the inputs of every request of the history. -/
def PostHist (P : Prog) (B : Nat → Nat) : St → List Op → Prop
  | _, [] => True
  | s, .get q :: ops => Post P B s.inp ∧ PostHist P B (CycleRev.get P s q).2 ops
  | s, .set k v nd :: ops => PostHist P B (write s k v nd) ops
  | s, .synth d :: ops => PostHist P B (synth s d) ops

/-- every answer of a history is below every bound that is a post-fixpoint throughout. -/
theorem answers_le (P : Prog) (hNF : NoFb P) (hNA : NoAdd P) (ops : List Op) :
    ∀ s, Inv B s → PostHist P B s ops →
      ∀ q o, (q, o) ∈ answers P s ops → ∀ v, o = .value v → le v (B q) := by
  induction ops with
  | nil => intro s _ _ q o hm; cases hm
  | cons op ops ih =>
    intro s h hp q o hm v hv
    cases op with
    | get q' =>
      have hg := get_good P hNF hNA hp.1 h q'
      simp only [answers, List.mem_cons] at hm
      rcases hm with hm | hm
      · cases hm; exact hg.2.2 v hv
      · exact ih _ hg.1 hp.2 q o hm v hv
    | set k w nd => exact ih _ (write_inv h k w nd) hp q o hm v hv
    | synth d => exact ih _ (synth_inv h d) hp q o hm v hv

/-! ### one revision: `B` = the least fixpoint of `Model/Cycle.lean` -/

theorem toCycle_node (P : Prog) (c : Nat) :
    ((toCycle P).node c).body = toCycleExpr (P.node c).body := by
  unfold toCycle Cycle.Prog.node Prog.node
  simp only [List.getD_eq_getElem?_getD, List.getElem?_map]
  cases P.nodes[c]? <;> rfl

/-- the least fixpoint at the inputs `i`. -/
def lfpI (P : Prog) (i : List Inp) : Nat → Nat := Cycle.lfp (toCycle P) (envI i)

theorem post_lfp (P : Prog) (i : List Inp) : Post P (lfpI P i) i := by
  intro c
  rw [← toCycle_node]
  unfold lfpI
  rw [SalsaVerif.Proofs.Cycle.lfp_step]
  exact le_refl _

theorem postHist_gets (P : Prog) (hNF : NoFb P) (hNA : NoAdd P) (qs : List Nat) :
    ∀ s, Inv B s → Post P B s.inp → PostHist P B s (qs.map .get) := by
  induction qs with
  | nil => intro _ _ _; trivial
  | cons q qs ih =>
    intro s h hB
    have hg := get_good P hNF hNA hB h q
    exact ⟨hB, ih _ hg.1 (by rw [hg.2.1]; exact hB)⟩

/-! ### the closed-table certificate: lower bound without looking at the engine -/

theorem closed_ge_lfp (P : Prog) (s : St) (R : List Nat) (hc : closedOn P s R = true) (c v : Nat)
    (hcR : c ∈ R) (hv : finalVal s c = some v) : le (lfpI P s.inp c) v := by
  have hat : ∀ x, x ∈ R → closedAt P s R x = true := by
    intro x hx
    unfold closedOn at hc
    rw [List.all_eq_true] at hc
    exact hc x hx
  have key := SalsaVerif.Proofs.Cycle.lfp_le_of_post (toCycle P) (envI s.inp)
    (fun x => x ∈ R) (finalEnv s)
    (by
      intro x hx j hj
      have := hat x hx
      unfold closedAt at this
      cases hfx : finalVal s x with
      | none => rw [hfx] at this; cases this
      | some w =>
        rw [hfx] at this
        simp only [Bool.and_eq_true, List.all_eq_true] at this
        rw [toCycle_node] at hj
        simpa using this.1 j hj)
    (by
      intro x hx
      have := hat x hx
      unfold closedAt at this
      cases hfx : finalVal s x with
      | none => rw [hfx] at this; cases this
      | some w =>
        rw [hfx] at this
        simp only [Bool.and_eq_true, beq_iff_eq] at this
        show le (Cycle.evalExpr (envI s.inp) (finalEnv s) ((toCycle P).node x).body) (finalEnv s x)
        rw [toCycle_node, ← this.2]
        unfold finalEnv
        rw [hfx]
        exact le_refl _)
    c hcR
  unfold finalEnv at key
  rw [hv] at key
  exact key

/-! ### one revision on a fresh database -/

/-- the state after a history. -/
def run (P : Prog) (s : St) (ops : List Op) : St := ops.foldl (step P) s

theorem run_gets_good (P : Prog) (hNF : NoFb P) (hNA : NoAdd P) (qs : List Nat) :
    ∀ s, Inv B s → Post P B s.inp →
      Inv B (run P s (qs.map .get)) ∧ (run P s (qs.map .get)).inp = s.inp := by
  induction qs with
  | nil => intro s h _; exact ⟨h, rfl⟩
  | cons q qs ih =>
    intro s h hB
    have hg := get_good P hNF hNA hB h q
    have := ih (CycleRev.get P s q).2 hg.1 (by rw [hg.2.1]; exact hB)
    exact ⟨this.1, this.2.trans hg.2.1⟩

theorem init_inp (n : Nat) (inputs : List (Nat × Nat)) :
    envI (St.init n inputs).inp = envOfVals (inputs.map (·.1)) := by
  unfold envI St.init
  simp [List.map_map, Function.comp_def]

theorem toCycle_strat (P : Prog) (c : Nat) : ((toCycle P).node c).strat = P.strat c := by
  unfold toCycle Cycle.Prog.node Prog.strat Prog.node
  simp only [List.getD_eq_getElem?_getD, List.getElem?_map]
  cases P.nodes[c]? <;> rfl

theorem toCycle_n (P : Prog) : (toCycle P).n = P.n := by
  unfold toCycle Cycle.Prog.n Prog.n; simp

theorem noFallback_toCycle {P : Prog} (h : NoFb P) : SalsaVerif.Proofs.Cycle.NoFallback (toCycle P) := by
  intro j v
  rw [toCycle_strat]
  exact strat_noFb h j v

/-- upper bound in one revision: after any requests `qs` on a fresh database, a request for `q`
    that returns a value returns a subset of the least fixpoint. -/
theorem fresh_le_lfp (P : Prog) (hNF : NoFb P) (hNA : NoAdd P) (inputs : List (Nat × Nat))
    (qs : List Nat) (q v : Nat)
    (hv : (CycleRev.get P (run P (St.init P.n inputs) (qs.map .get)) q).1 = .value v) :
    le v (Cycle.lfp (toCycle P) (envOfVals (inputs.map (·.1))) q) := by
  have hB : Post P (lfpI P (St.init P.n inputs).inp) (St.init P.n inputs).inp := post_lfp P _
  have hr := run_gets_good P hNF hNA qs _ (init_inv P.n inputs) hB
  have hg := get_good P hNF hNA (by rw [hr.2]; exact hB) hr.1 q
  have := hg.2.2 v hv
  unfold lfpI at this
  rw [init_inp] at this
  exact this

/-- … and exactly the least fixpoint if the finalised memos of some set `R ∋ q` of nodes are a
    closed solution (`closedOn`, decidable) that holds `v` for `q`. -/
theorem fresh_exact_of_closed (P : Prog) (hNF : NoFb P) (hNA : NoAdd P) (inputs : List (Nat × Nat))
    (qs : List Nat) (q v : Nat)
    (hv : (CycleRev.get P (run P (St.init P.n inputs) (qs.map .get)) q).1 = .value v)
    (R : List Nat) (hqR : q ∈ R)
    (hc : closedOn P (CycleRev.get P (run P (St.init P.n inputs) (qs.map .get)) q).2 R = true)
    (hf : finalVal (CycleRev.get P (run P (St.init P.n inputs) (qs.map .get)) q).2 q = some v) :
    v = Cycle.lfp (toCycle P) (envOfVals (inputs.map (·.1))) q := by
  have hB : Post P (lfpI P (St.init P.n inputs).inp) (St.init P.n inputs).inp := post_lfp P _
  have hr := run_gets_good P hNF hNA qs _ (init_inv P.n inputs) hB
  have hg := get_good P hNF hNA (by rw [hr.2]; exact hB) hr.1 q
  have hge := closed_ge_lfp P _ R hc q v hqR hf
  rw [hg.2.1, hr.2] at hge
  unfold lfpI at hge
  rw [init_inp] at hge
  exact le_antisymm (fresh_le_lfp P hNF hNA inputs qs q v hv) hge

/-! ### the trivial bound (non-vacuity of `PostHist` for histories with writes) -/

theorem le_255 {a : Nat} (h : a < 256) : le a 255 := by
  rw [SalsaVerif.Proofs.Cycle.le_iff]
  intro k hk
  have hk8 : k < 8 := by
    by_cases h8 : k < 8
    · exact h8
    · rw [SalsaVerif.Proofs.Cycle.testBit_high h (by omega)] at hk; cases hk
  have : ∀ k, k < 8 → (255 : Nat).testBit k = true := by decide
  exact this k hk8

theorem post_top (P : Prog) (i : List Inp) : Post P (fun _ => 255) i :=
  fun _ => le_255 (SalsaVerif.Proofs.Cycle.evalExpr_lt _ _ _)

theorem postHist_top (P : Prog) (ops : List Op) : ∀ s, PostHist P (fun _ => 255) s ops := by
  induction ops with
  | nil => intro _; trivial
  | cons op ops ih =>
    intro s
    cases op with
    | get q => exact ⟨post_top P _, ih _⟩
    | set k v nd => exact ih _
    | synth d => exact ih _

end SalsaVerif.Proofs.CycleRev
