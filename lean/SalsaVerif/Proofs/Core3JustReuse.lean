/-
  Core3 engine (stage S3, invariant `InvE`): a memo that always holds its value (an untracked one:
  never evicted) and whose recomputation yields the value it already has keeps that value through
  any fetch, re-executed or not.  Used by Props/C04Core3 (`c04_dependents_reused`).  Core Lean only.
-/
import SalsaVerif.Proofs.Core3JustTop

namespace SalsaVerif.Proofs.Core3E
open SalsaVerif.Model.Core3 SalsaVerif.Proofs.Core3

/-- the value of a stored memo that holds one is its ghost value -/
theorem value_of_present {P s q m} (hI : InvE P s) (hm : s.memos q = some m) (hv : m.value ≠ none) :
    m.value = some m.gval := by
  cases h : m.value with
  | none => exact absurd h hv
  | some v => rw [(hI.memo q m hm).valg v h]

/-- **Equal recomputation.**  `u` holds a value in `s` and the from-scratch value of `u` over the
    current inputs and cells is that value.  Then after any fetch the memo of `u` — untouched,
    validated or re-executed — holds the same value. -/
theorem value_after_fetch {P} (hP : Wf P) (s : State) (hI : InvE P s) (k u : Nat) (mu : Memo)
    (hmu : s.memos u = some mu) (hval : mu.value ≠ none) (heq : sem P s.inp s.cells u = mu.gval) :
    ∀ mu', (fetch P s k).1.memos u = some mu' → mu'.value = mu.value := by
  intro mu' hmu'
  obtain ⟨hI', _, hc, hi, hce⟩ := fetch_sound hP s k hI
  obtain ⟨_, _, ok⟩ := fetch_tr3 hP s k hI
  rcases ok.stab.touched u with e | ⟨m2, hm2, hv2⟩
  · rw [e, hmu] at hmu'; cases hmu'; rfl
  · rw [hmu'] at hm2; cases hm2
    have hv' : mu'.value ≠ none := by
      intro hn
      obtain ⟨m0, hm0, hv0⟩ := ok.stab.evk u mu' hmu' hn
      rw [hmu] at hm0; cases hm0
      exact hval hv0
    have hfresh := fresh_of_sok hP hI' u mu' hmu' (Or.inl (by rw [hv2, hc]))
    rw [hi, hce, heq] at hfresh
    rw [value_of_present hI' hmu' hv', value_of_present hI hmu hval, hfresh]

end SalsaVerif.Proofs.Core3E
