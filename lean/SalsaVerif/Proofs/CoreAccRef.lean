/-
  CoreAcc engine (adapted copy of CoreRef.lean): the engine's answers (`get` and `acc`) over a
  whole history equal the from-scratch oracle `refOutputs` (which knows only input values and
  durabilities).  Core Lean only.
-/
import SalsaVerif.Proofs.CoreAccHist

namespace SalsaVerif.Proofs.CoreAcc
open SalsaVerif.Model.CoreAcc

def envOf (inp : Nat → Inp) : Nat → Nat × Nat := fun i => ((inp i).val, (inp i).dur)

theorem evalB_ext (f g : Dep → Nat) (h : ∀ d, f d = g d) : ∀ b, evalB f b = evalB g b := by
  intro b
  induction b with
  | ret v => rfl
  | read d k ih => simp only [evalB, h d]; exact ih _
  | push v k ih => simp only [evalB]; exact ih

theorem semAt_ext (P : Nat → Body) (a b : Nat → Inp) (h : ∀ i, (a i).val = (b i).val) :
    ∀ r q, semAt P a r q = semAt P b r q := by
  intro r
  induction r with
  | zero => intro q; rfl
  | succ r ih =>
    intro q
    simp only [semAt]
    split
    · exact ih q
    · split
      · apply evalB_ext
        intro d
        cases d with
        | inp i => exact h i
        | qry q' => exact ih q'
      · rfl

/-- the from-scratch semantics depends on the input values only -/
theorem sem_ext (P : Nat → Body) (a b : Nat → Inp) (h : ∀ i, (a i).val = (b i).val) (q : Nat) :
    sem P a q = sem P b q := semAt_ext P a b h (q + 1) q

theorem semDep_ext (P : Nat → Body) (a b : Nat → Inp) (h : ∀ i, (a i).val = (b i).val) :
    semDep P a = semDep P b := by
  funext d
  cases d with
  | inp i => exact h i
  | qry q => exact sem_ext P a b h q

theorem refVisit_ext (P : Nat → Body) (a b : Nat → Inp) (h : ∀ i, (a i).val = (b i).val) :
    ∀ r, refVisit P a r = refVisit P b r := by
  intro r
  induction r with
  | zero => rfl
  | succ r ih =>
    funext q vis
    simp only [refVisit, ih, pushesOf, callsOf, semDep_ext P a b h]

/-- the reference `accumulated` depends on the input values only -/
theorem refAcc_ext (P : Nat → Body) (a b : Nat → Inp) (h : ∀ i, (a i).val = (b i).val) (q : Nat) :
    refAcc P a q = refAcc P b q := by
  simp only [refAcc, refVisit_ext P a b h]

theorem envOf_write (s : State) (i v : Nat) (nd : Option Nat) :
    envOf (write s i v nd).inp = refWrite (envOf s.inp) i v nd := by
  funext j
  by_cases hd : (s.inp i).dur ≥ 3
  · simp [write, refWrite, envOf, hd]
  · by_cases hj : j = i
    · subst hj; cases nd <;> simp [write, refWrite, envOf, hd]
    · simp [write, refWrite, envOf, hd, hj]

theorem envOf_synth (s : State) (d : Nat) : envOf (synth s d).inp = envOf s.inp := by
  by_cases hd : d ≥ 3 <;> simp [synth, hd]

theorem outputs_ref {P} (hP : Wf P) : ∀ (ops : List Op) (s : State), Inv P s →
    outputs P s ops = refOutputs P (envOf s.inp) ops := by
  intro ops
  induction ops with
  | nil => intro s _; rfl
  | cons op rest ih =>
    intro s hI
    cases op with
    | get q =>
      obtain ⟨a1, a2, _, a4⟩ := fetch_sound hP s q hI
      simp only [outputs, refOutputs]
      rw [ih _ a1, a4, a2]
      congr 2
      exact sem_ext P s.inp (refInp (envOf s.inp)) (fun i => rfl) q
    | set i v nd =>
      simp only [outputs, refOutputs]
      have h := step_inv hP s (.set i v nd) hI
      simp only [step] at h
      rw [ih _ h, envOf_write]
    | synth d =>
      simp only [outputs, refOutputs]
      have h := step_inv hP s (.synth d) hI
      simp only [step] at h
      rw [ih _ h, envOf_synth]
    | acc q =>
      obtain ⟨a1, a2, _, a4, _⟩ := accumulatedBy_sound hP s q hI
      simp only [outputs, refOutputs]
      rw [ih _ a1, a4, a2]
      congr 2
      exact refAcc_ext P s.inp (refInp (envOf s.inp)) (fun i => rfl) q

end SalsaVerif.Proofs.CoreAcc
