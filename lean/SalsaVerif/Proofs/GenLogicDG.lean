/-
  Glue between the GENERATED decisions of src/runtime/dependency_graph.rs / src/runtime.rs
  (`Gen/LogicDG.lean`) and the hand-written wait-for-graph model `Model/SyncDG.lean`: the model's
  functions re-assembled from generated decisions.  `Props/GenLogicDG.lean` proves them equal to
  the model's own.  Core Lean only.
-/
import SalsaVerif.Gen.LogicDG
import SalsaVerif.Model.SyncDG

namespace SalsaVerif.Proofs.GenLogic.DG
open SalsaVerif.Gen.LogicDG
open SalsaVerif.Model.SyncDG

/-- A generated condition `f depends` contains ONE call `dg.depends_on(..)` as the right operand
    of `||` / `&&` (or is the call itself); the model represents a walk that does not terminate
    by `none`.  If the value of the condition does not depend on the call, Rust short-circuits
    and the walk is not made; otherwise the condition is `f` of the walk's answer. -/
def evalDep (f : Bool → Bool) (d : Option Bool) : Option Bool :=
  if f false = f true then some (f false) else d.map f

-- src/runtime.rs: fn Runtime::block
def blockG (s : State) (me other : Nat) : Option ClaimAnswer :=
  if block_same_thread me other then some (.cycle false)
  else (evalDep block_cycle (dependsOn s other me)).map
    (fun c => if c then .cycle false else .running other)

-- src/runtime.rs: fn BlockOnTransferredOwner::block
def ownerBlockG (s : State) (me other : Nat) : Option ClaimAnswer :=
  if owner_block_same_thread me other then some (.cycle false)
  else (evalDep owner_block_cycle (dependsOn s other me)).map
    (fun c => if c then .cycle false else .running other)

-- src/runtime.rs: fn block_transferred
def blockTransferredG (s : State) (query cur : Nat) : Option BlockTransferredResult :=
  match threadIdOfTransferredQuery s query none with
  | none => none
  | some none => some .released
  | some (some owner) =>
    (evalDep (block_transferred_is_owner owner cur) (dependsOn s owner cur)).map
      (fun b => if b then .imTheOwner else .ownedBy owner)

-- src/runtime/dependency_graph.rs: fn add_edge
def addEdgeG (s : State) (fromId key toId : Nat) : Option State :=
  if fromId = toId then none
  else if !add_edge_requires_unblocked (s.edges fromId).isSome then none
  else
    match dependsOn s toId fromId with
    | none => none
    | some d =>
      if add_edge_requires_acyclic d then
        some { s with edges := upd s.edges fromId (some toId),
                      qdeps := upd s.qdeps key (s.qdeps key ++ [fromId]) }
      else none

/-- the loop of `thread_id_of_transferred_query` -/
def resolveLoopG (tr : Nat → Option (Nat × Nat)) (skip : Option Nat) : Nat → Nat → Nat → Option Nat
  | 0, _, _ => none
  | fuel + 1, cur, resolved =>
    match tr cur with
    | none => some resolved
    | some (nt, nk) => resolveLoopG tr skip fuel nk (if resolve_skips nk skip then resolved else nt)

/-- the re-pointing loop of `transfer_lock` -/
def repointLoopG (s : State) (query oldThread oldOwner newOwner : Nat) : Nat → Nat → Option State
  | 0, _ => none
  | fuel + 1, seg =>
    match s.transferred seg with
    | none => some s
    | some (_, nextTarget) =>
      if repoint_hits nextTarget query then
        match tdepsRemove s query seg with
        | none => none
        | some s1 =>
          if repoint_removes oldOwner newOwner then
            some { s1 with transferred := upd s1.transferred seg none }
          else tdepsPush { s1 with transferred := upd s1.transferred seg (some (oldThread, oldOwner)) }
                 oldOwner seg
      else repointLoopG s query oldThread oldOwner newOwner fuel nextTarget

/-- the `match dg.transferred.entry(query)` block of `transfer_lock`:
    `some none` = the early `return false`; otherwise the state and `(thread_changed, new_mapping)` -/
def transferEntryG (s : State) (query cur newOwner nt : Nat) : Option (Option (State × Bool × Bool)) :=
  match s.transferred query with
  | none =>                                        -- Entry::Vacant
    some (some ({ s with transferred := upd s.transferred query (some (nt, newOwner)) },
                transfer_vacant cur nt))
  | some (oldThread, oldOwner) =>
    if transfer_same_mapping oldThread oldOwner nt newOwner then   -- Entry::Occupied(entry) if …
      if transfer_noop cur nt then some none
      else some (some (s, transfer_retransfer_same_owner cur nt))
    else                                           -- Entry::Occupied(mut entry)
      match tdepsRemove s oldOwner query with
      | none => none
      | some s1 =>
        let s2 := { s1 with transferred := upd s1.transferred query (some (nt, newOwner)) }
        match repointLoopG s2 query oldThread oldOwner newOwner (s.bound + 1) newOwner with
        | none => none
        | some s3 => some (some (s3, transfer_occupied cur nt))

/-- does the entry for `query` already hold `(new_owner_thread, new_owner)`?  (the guard of the
    second arm) -/
def sameMappingG (s : State) (query newOwner nt : Nat) : Bool :=
  match s.transferred query with
  | none => false
  | some (oldThread, oldOwner) => transfer_same_mapping oldThread oldOwner nt newOwner

-- src/runtime/dependency_graph.rs: fn transfer_lock, everything before the final `block_on`
def transferLockCoreG (s : State) (query cur newOwner : Nat) (ownerId : SyncOwner) :
    Option (State × TransferKind × Nat) :=
  match newOwnerThread s query newOwner ownerId with
  | none => none
  | some nt =>
    match evalDep (transfer_pre nt cur) (dependsOn s nt cur) with
    | some true =>
      match transferEntryG s query cur newOwner nt with
      | none => none
      | some none => some (s, .noop, nt)
      | some (some (s4, threadChanged, newMapping)) =>
        match (if transfer_registers_dependent newMapping then registerDependent s4 query newOwner
               else some s4) with
        | none => none
        | some s5 =>
          if transfer_runs_after threadChanged then
            match afterTransfer s5 query nt with
            | none => none
            | some s7 => some (s7, .changed, nt)
          else some (s5, .same, nt)
    | _ => none

-- src/runtime/dependency_graph.rs: fn transfer_lock
def transferLockG (s : State) (query cur newOwner : Nat) (ownerId : SyncOwner) :
    Option (State × TransferKind × Bool) :=
  match transferLockCoreG s query cur newOwner ownerId with
  | none => none
  | some (s1, .changed, nt) =>
    match evalDep (transfer_blocks cur nt) (dependsOn s1 nt cur) with
    | none => none
    | some false => some (s1, .changed, false)
    | some true =>
      match addEdge s1 cur newOwner nt with
      | none => none
      | some s2 => some (s2, .changed, true)
  | some (s1, kind, _) => some (s1, kind, false)

end SalsaVerif.Proofs.GenLogic.DG
