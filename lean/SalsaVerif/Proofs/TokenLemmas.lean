/-
  Helper lemmas for Props/C21: the cancellation token bits and the guard stack of one handle.
  Core Lean only.
-/
import SalsaVerif.Model.Cancel

namespace SalsaVerif.Proofs.TokenLemmas
open SalsaVerif.Gen.Consts SalsaVerif.Model.Cancel

/-! ### raw bits (finite case analysis; the kernel evaluates the generated definitions) -/

theorem bits_trigger_iff : ∀ b, b < 4 →
    (CancellationToken.should_trigger_local_cancellation b = true ↔
      (CancellationToken.is_cancelled b = true ∧
       (CancellationToken.set_cancellation_disabled b true).2 = false)) := by decide

theorem bits_cancel_lt : ∀ b, b < 4 → CancellationToken.cancel b < 4 := by decide

theorem bits_setDisabled_lt : ∀ b, b < 4 → ∀ d : Bool,
    (CancellationToken.set_cancellation_disabled b d).1 < 4 := by decide

/-- after `set_cancellation_disabled(d)` the disabled bit reads `d`  -/
theorem bits_setDisabled_read : ∀ b, b < 4 → ∀ d d' : Bool,
    (CancellationToken.set_cancellation_disabled
      (CancellationToken.set_cancellation_disabled b d).1 d').2 = d := by decide

/-- the value returned is the disabled bit before the call, whatever is written -/
theorem bits_setDisabled_prev : ∀ b, b < 4 → ∀ d : Bool,
    (CancellationToken.set_cancellation_disabled b d).2 =
      (CancellationToken.set_cancellation_disabled b true).2 := by decide

theorem bits_cancel_disabled : ∀ b, b < 4 →
    (CancellationToken.set_cancellation_disabled (CancellationToken.cancel b) true).2 =
      (CancellationToken.set_cancellation_disabled b true).2 := by decide

theorem bits_cancel_cancelled : ∀ b, b < 4 →
    CancellationToken.is_cancelled (CancellationToken.cancel b) = true := by decide

theorem bits_setDisabled_cancelled : ∀ b, b < 4 → ∀ d : Bool,
    CancellationToken.is_cancelled (CancellationToken.set_cancellation_disabled b d).1 =
      CancellationToken.is_cancelled b := by decide

theorem bits_disabled_no_trigger : ∀ b, b < 4 →
    (CancellationToken.set_cancellation_disabled b true).2 = true →
    CancellationToken.should_trigger_local_cancellation b = false := by decide

/-! ### token level -/

theorem Token.wf_new : Token.new.WF := by decide
theorem Token.wf_cancel (t : Token) (h : t.WF) : t.cancel.WF := bits_cancel_lt t.bits h
theorem Token.wf_setDisabled (t : Token) (h : t.WF) (d : Bool) : (t.setDisabled d).1.WF :=
  bits_setDisabled_lt t.bits h d
theorem Token.wf_reset (t : Token) : t.reset.WF := by
  show (0 : Nat) < 4
  decide

theorem Token.isDisabled_setDisabled (t : Token) (h : t.bits < 4) (d : Bool) :
    (t.setDisabled d).1.isDisabled = d := bits_setDisabled_read t.bits h d true

theorem Token.setDisabled_prev (t : Token) (h : t.bits < 4) (d : Bool) :
    (t.setDisabled d).2 = t.isDisabled := bits_setDisabled_prev t.bits h d

theorem Token.isDisabled_cancel (t : Token) (h : t.bits < 4) :
    t.cancel.isDisabled = t.isDisabled := bits_cancel_disabled t.bits h

theorem Token.isDisabled_reset (t : Token) : t.reset.isDisabled = false := by
  show (Token.mk 0).isDisabled = false
  decide

theorem Token.u8_of_wf {t : Token} (h : t.WF) : t.bits < 4 := h

/-! ### guard stack -/

theorem hasGuard_false_of_noDb : ∀ fs, framesOk fs = true → hasDb fs = false → hasGuard fs = false
  | [], _, _ => rfl
  | .db s :: rest, _, hd => by simp [hasDb, Frame.isDb] at hd
  | .disable w :: rest, hok, hd => by
    simp only [framesOk, Bool.and_eq_true] at hok
    simp only [hasDb, List.any_cons, Frame.isDb, Bool.false_or] at hd
    have := hok.1.1
    simp only [hasDb] at this
    rw [hd] at this
    cases this

theorem hasDb_cons_db (s : Bool) (rest : List Frame) : hasDb (.db s :: rest) = true := by
  simp [hasDb, Frame.isDb]
theorem hasDb_cons_disable (w : Bool) (rest : List Frame) : hasDb (.disable w :: rest) = hasDb rest := by
  simp [hasDb, Frame.isDb]
theorem hasGuard_cons_db (s : Bool) (rest : List Frame) : hasGuard (.db s :: rest) = hasGuard rest := by
  simp [hasGuard, Frame.isDisable]
theorem hasGuard_cons_disable (w : Bool) (rest : List Frame) : hasGuard (.disable w :: rest) = true := by
  simp [hasGuard, Frame.isDisable]

theorem linv_new : LInv Local.new := by decide

theorem linv_step (l l' : Local) (op : LOp) (hinv : LInv l) (hs : l.step op = some l') : LInv l' := by
  obtain ⟨hwf, hok, hatt, hdis⟩ := hinv
  have hu8 := Token.u8_of_wf hwf
  cases op with
  | cancel =>
    simp only [Local.step, Option.some.injEq] at hs
    subst hs
    exact ⟨Token.wf_cancel _ hwf, hok, hatt, by simpa [Token.isDisabled_cancel _ hu8] using hdis⟩
  | attach =>
    simp only [Local.step] at hs
    split at hs
    · next ha =>
      simp only [Option.some.injEq] at hs; subst hs
      refine ⟨hwf, ?_, ?_, ?_⟩
      · simp only [framesOk, Bool.and_eq_true]; rw [← hatt, ha]; exact ⟨rfl, hok⟩
      · simp [hasDb_cons_db, ha]
      · simpa [hasGuard_cons_db] using hdis
    · next ha =>
      simp only [Option.some.injEq] at hs; subst hs
      have ha' : l.attached = false := by simpa using ha
      refine ⟨hwf, ?_, ?_, ?_⟩
      · simp only [framesOk, Bool.and_eq_true]; rw [← hatt, ha']; exact ⟨rfl, hok⟩
      · simp [hasDb_cons_db]
      · simpa [hasGuard_cons_db] using hdis
  | pushGuard =>
    simp only [Local.step] at hs
    split at hs
    · next ha =>
      simp only [Option.some.injEq] at hs; subst hs
      refine ⟨Token.wf_setDisabled _ hwf true, ?_, ?_, ?_⟩
      · simp only [framesOk, Bool.and_eq_true]
        refine ⟨⟨by rw [← hatt]; exact ha, ?_⟩, hok⟩
        rw [Token.setDisabled_prev _ hu8, hdis]; simp
      · simpa [hasDb_cons_disable] using hatt
      · simp [hasGuard_cons_disable, Token.isDisabled_setDisabled _ hu8]
    · cases hs
  | pop =>
    simp only [Local.step] at hs
    split at hs
    · cases hs
    · next state rest hf =>
      rw [hf] at hok hatt hdis
      simp only [framesOk, Bool.and_eq_true] at hok
      rw [hasDb_cons_db] at hatt
      rw [hasGuard_cons_db] at hdis
      cases state with
      | true =>
        have hnd : hasDb rest = false := by simpa using hok.1
        simp only [hatt, Bool.and_self, if_true, Option.some.injEq] at hs
        subst hs
        exact ⟨Token.wf_reset _, hok.2, hnd.symm,
          by rw [Token.isDisabled_reset, hasGuard_false_of_noDb rest hok.2 hnd]⟩
      | false =>
        have hnd : hasDb rest = true := by simpa using hok.1
        simp only [Bool.false_and, Bool.false_eq_true, if_false, Option.some.injEq] at hs
        subst hs
        exact ⟨hwf, hok.2, by rw [hatt, hnd], hdis⟩
    · next was rest hf =>
      rw [hf] at hok hatt hdis
      simp only [framesOk, Bool.and_eq_true] at hok
      rw [hasDb_cons_disable] at hatt
      simp only [Option.some.injEq] at hs; subst hs
      refine ⟨Token.wf_setDisabled _ hwf was, hok.2, hatt, ?_⟩
      rw [Token.isDisabled_setDisabled _ hu8]
      simpa using hok.1.2
  | check =>
    simp only [Local.step, Option.some.injEq] at hs
    subst hs
    exact ⟨hwf, hok, hatt, hdis⟩

theorem linv_run : ∀ (ops : List LOp) (l l' : Local), LInv l → l.run ops = some l' → LInv l'
  | [], l, l', hinv, h => by simp only [Local.run, Option.some.injEq] at h; subst h; exact hinv
  | o :: os, l, l', hinv, h => by
    simp only [Local.run] at h
    split at h
    · next l1 h1 => exact linv_run os l1 l' (linv_step l l1 o hinv h1) h
    · cases h

/-- token bits stay below 4 along any run (no invariant on the frames needed) -/
theorem u8_step (l l' : Local) (op : LOp) (h8 : l.token.bits < 4) (hs : l.step op = some l') :
    l'.token.bits < 4 := by
  cases op with
  | cancel =>
    simp only [Local.step, Option.some.injEq] at hs; subst hs
    exact bits_cancel_lt _ h8
  | attach =>
    simp only [Local.step] at hs
    split at hs <;> (simp only [Option.some.injEq] at hs; subst hs; exact h8)
  | pushGuard =>
    simp only [Local.step] at hs
    split at hs
    · simp only [Option.some.injEq] at hs; subst hs; exact bits_setDisabled_lt _ h8 true
    · cases hs
  | pop =>
    simp only [Local.step] at hs
    split at hs
    · cases hs
    · split at hs
      · simp only [Option.some.injEq] at hs; subst hs; exact Token.wf_reset _
      · split at hs <;> (simp only [Option.some.injEq] at hs; subst hs; exact h8)
    · next was rest hf =>
      simp only [Option.some.injEq] at hs; subst hs; exact bits_setDisabled_lt _ h8 was
  | check =>
    simp only [Local.step, Option.some.injEq] at hs; subst hs; exact h8

/-- a sequence that never pops below its own start leaves the frames it started on in place:
    after it, the stack is `new ++ old` with `new.length = d'` where `balanced` counted. -/
theorem run_frames : ∀ (ops : List LOp) (d : Nat) (l l' : Local) (new old : List Frame),
    l.frames = new ++ old → new.length = d → l.token.bits < 4 →
    balanced d ops = true → l.run ops = some l' →
    l'.frames = old ∧ l'.token.bits < 4
  | [], d, l, l', new, old, hf, hn, h8, hb, hr => by
    simp only [Local.run, Option.some.injEq] at hr; subst hr
    simp only [balanced, beq_iff_eq] at hb
    subst hb
    have : new = [] := List.eq_nil_of_length_eq_zero hn
    subst this
    exact ⟨by simpa using hf, h8⟩
  | o :: os, d, l, l', new, old, hf, hn, h8, hb, hr => by
    simp only [Local.run] at hr
    split at hr
    case h_2 => cases hr
    case h_1 l1 h1 =>
    have h8' := u8_step l l1 o h8 h1
    cases o with
    | cancel =>
      simp only [balanced] at hb
      simp only [Local.step, Option.some.injEq] at h1; subst h1
      exact run_frames os d _ l' new old (by exact hf) hn h8' hb hr
    | check =>
      simp only [balanced] at hb
      simp only [Local.step, Option.some.injEq] at h1; subst h1
      exact run_frames os d _ l' new old (by exact hf) hn h8' hb hr
    | attach =>
      simp only [balanced] at hb
      simp only [Local.step] at h1
      split at h1
      · simp only [Option.some.injEq] at h1; subst h1
        refine run_frames os (d+1) _ l' (.db false :: new) old ?_ (by simp [hn]) h8' hb hr
        simp [hf]
      · simp only [Option.some.injEq] at h1; subst h1
        refine run_frames os (d+1) _ l' (.db true :: new) old ?_ (by simp [hn]) h8' hb hr
        simp [hf]
    | pushGuard =>
      simp only [balanced] at hb
      simp only [Local.step] at h1
      split at h1
      · simp only [Option.some.injEq] at h1; subst h1
        refine run_frames os (d+1) _ l' (.disable (l.token.setDisabled true).2 :: new) old ?_ (by simp [hn]) h8' hb hr
        simp [hf]
      · cases h1
    | pop =>
      cases d with
      | zero => simp [balanced] at hb
      | succ d =>
        simp only [balanced] at hb
        cases new with
        | nil => simp at hn
        | cons f new' =>
          have hn' : new'.length = d := by simpa using hn
          have hf' : l.frames = f :: (new' ++ old) := by simpa using hf
          simp only [Local.step, hf'] at h1
          cases f with
          | db state =>
            simp only at h1
            split at h1
            · simp only [Option.some.injEq] at h1; subst h1
              exact run_frames os d _ l' new' old rfl hn' h8' hb hr
            · split at h1 <;>
              · simp only [Option.some.injEq] at h1; subst h1
                exact run_frames os d _ l' new' old rfl hn' h8' hb hr
          | disable was =>
            simp only [Option.some.injEq] at h1; subst h1
            exact run_frames os d _ l' new' old rfl hn' h8' hb hr

theorem filter_length_pos_iff_any (p : Frame → Bool) : ∀ fs : List Frame,
    0 < (fs.filter p).length ↔ fs.any p = true
  | [] => by simp
  | f :: fs => by
    have ih := filter_length_pos_iff_any p fs
    cases hp : p f <;> simp [List.filter, hp, ih]

theorem filter_length_zero_iff_any (p : Frame → Bool) (fs : List Frame) :
    (fs.filter p).length = 0 ↔ fs.any p = false := by
  have := filter_length_pos_iff_any p fs
  cases h : fs.any p
  · rw [h] at this
    simp only [Bool.false_eq_true, iff_false] at this
    constructor
    · intro _; rfl
    · intro _; omega
  · rw [h] at this
    simp only [iff_true] at this
    constructor
    · intro h0; omega
    · intro h0; cases h0

/-- one step keeps the cancelled bit unless it is the `uncancel()` of the outermost `DbGuard` -/
theorem sticky_step (l l' : Local) (op : LOp) (hwf : l.token.WF) (hc : l.token.isCancelled = true)
    (hs : l.step op = some l') :
    l'.token.isCancelled = true ∨ (op = .pop ∧ l'.token = l.token.reset ∧ l.attached = true ∧ l'.attached = false) := by
  cases op with
  | cancel =>
    simp only [Local.step, Option.some.injEq] at hs; subst hs
    exact Or.inl (bits_cancel_cancelled _ hwf)
  | attach =>
    simp only [Local.step] at hs
    split at hs <;> (simp only [Option.some.injEq] at hs; subst hs; exact Or.inl hc)
  | pushGuard =>
    simp only [Local.step] at hs
    split at hs
    · simp only [Option.some.injEq] at hs; subst hs
      exact Or.inl ((bits_setDisabled_cancelled _ hwf true).trans hc)
    · cases hs
  | pop =>
    simp only [Local.step] at hs
    split at hs
    · cases hs
    · split at hs
      · next hsa =>
        simp only [Option.some.injEq] at hs; subst hs
        simp only [Bool.and_eq_true] at hsa
        exact Or.inr ⟨rfl, rfl, hsa.2, rfl⟩
      · split at hs <;> (simp only [Option.some.injEq] at hs; subst hs; exact Or.inl hc)
    · next was rest hf =>
      simp only [Option.some.injEq] at hs; subst hs
      exact Or.inl ((bits_setDisabled_cancelled _ hwf was).trans hc)
  | check =>
    simp only [Local.step, Option.some.injEq] at hs; subst hs; exact Or.inl hc

theorem sticky_run : ∀ (ops : List LOp) (l l' : Local), l.token.WF → l.token.isCancelled = true →
    l.run ops = some l' →
    (∀ k lk, l.run (ops.take k) = some lk → lk.attached = true) →
    l'.token.isCancelled = true
  | [], l, l', _, hc, hr, _ => by
    simp only [Local.run, Option.some.injEq] at hr; subst hr; exact hc
  | o :: os, l, l', hwf, hc, hr, hatt => by
    simp only [Local.run] at hr
    split at hr
    case h_2 => cases hr
    case h_1 l1 h1 =>
    have hwf1 : l1.token.WF := u8_step l l1 o hwf h1
    have ha1 : l1.attached = true := hatt 1 l1 (by simp [Local.run, h1])
    have hc1 : l1.token.isCancelled = true := by
      rcases sticky_step l l1 o hwf hc h1 with h | ⟨_, _, _, h⟩
      · exact h
      · rw [ha1] at h; cases h
    refine sticky_run os l1 l' hwf1 hc1 hr ?_
    intro k lk hk
    exact hatt (k+1) lk (by simp [Local.run, h1, hk])

end SalsaVerif.Proofs.TokenLemmas
