/-
  The semantic "Covers" clause of DESIGN.md §C26 for `collect_minimum_serialized_edges`
  (Model/Persist.lean: `flattenObs`, `cmse`, with its `visited` / already-flattened shortcuts),
  proved for QUIESCENT states (every memo verified in the current revision — the situation of a
  database that is serialized right after its results were requested):

    flatten_covers : Wf P → Inv P s → Quiet s → AllRec s → s.memos q = some m →
      ∀ inp', (∀ o ∈ flattenObs pers s m.obs, semDep P inp' o.dep = o.val) → sem P inp' q = m.value

  i.e. whatever the inputs are later changed to, as long as every flattened leaf (input field or
  persisted function) still evaluates to the value recorded for it, the function still has the
  serialized value: the flattened edges are a *sufficient* dependency set although the memos of
  the non-persisted functions in between are gone.

  Proof: `cmse j` is specified against an explicit list `anc` of ancestors (functions whose walk
  is in progress; they are marked visited before their edges are walked): every visited function
  is an ancestor or already *covered* by the flattened edges; an edge of `j` has a smaller call
  rank than `j` and all its ancestors, so a visited edge is covered.  Core Lean only.
-/
import SalsaVerif.Proofs.Persist

namespace SalsaVerif.Proofs.Persist
open SalsaVerif.Model.Core SalsaVerif.Model.Persist SalsaVerif.Proofs.Core

/-- every memo is verified in the current revision -/
def Quiet (s : State) : Prop := ∀ q m, s.memos q = some m → m.va = s.cur

/-- every observation is a recorded edge (an invariant of the persistence-build engine) -/
def AllRec (s : State) : Prop := ∀ q m, s.memos q = some m → ∀ o, o ∈ m.obs → o.recd = true

/-- the observation carries the currently stored value of its dependency -/
def CurObs (s : State) (o : Obs) : Prop := ∃ r, depInfo s o.dep = some r ∧ r.val = o.val

def Cons (s : State) (l : List Obs) : Prop := ∀ o, o ∈ l → CurObs s o

/-- `inp'` gives every listed leaf its recorded value -/
def Agrees (P : Nat → Body) (inp' : Nat → Inp) (l : List Obs) : Prop := ∀ o, o ∈ l → semDep P inp' o.dep = o.val

/-- under `inp'` the dependency evaluates to its currently stored value -/
def Covd (P : Nat → Body) (s : State) (inp' : Nat → Inp) (d : Dep) : Prop :=
  ∀ r, depInfo s d = some r → semDep P inp' d = r.val

theorem curObs_of_quiet {P s q m o} (hI : Inv P s) (hQ : Quiet s) (hm : s.memos q = some m)
    (ho : o ∈ m.obs) : CurObs s o := by
  obtain ⟨x, hx⟩ := depInfo_exists hI hm ho
  have ok := hI.memo q m hm
  have hs : SOK s m := Or.inl (hQ q m hm)
  exact ⟨x, hx, (ok.i2 o ho x hx ((ok.i3 hs o ho).1 x hx)).1⟩

theorem covd_of_mem {P s inp' l o0} (hc : Cons s l) (h0 : o0 ∈ l) (ha : Agrees P inp' l) :
    Covd P s inp' o0.dep := by
  intro r hr
  obtain ⟨r0, h1, h2⟩ := hc o0 h0
  rw [h1] at hr; cases hr
  rw [ha o0 h0, h2]

theorem agrees_prefix {P inp' l ext} (h : Agrees P inp' (l ++ ext)) : Agrees P inp' l :=
  fun o ho => h o (List.mem_append_left _ ho)

theorem hasDep_mem {l : List Obs} {d : Dep} (h : hasDep l d = true) : ∃ o0, o0 ∈ l ∧ o0.dep = d := by
  simp only [hasDep, List.any_eq_true, decide_eq_true_eq] at h
  exact h

/-- every visited edge is a function that is an ancestor or covered by the flattened edges -/
structure VisCov (P : Nat → Body) (s : State) (a : FAcc) (anc : List Nat) : Prop where
  isq : ∀ d, d ∈ a.visited → ∃ k, d = .qry k
  cov : ∀ k, Dep.qry k ∈ a.visited → k ∈ anc ∨ ∀ inp', Agrees P inp' a.flat → Covd P s inp' (.qry k)

/-- what one step of a walk establishes for the edge it handled -/
structure StepOk (P : Nat → Body) (s : State) (anc : List Nat) (a a' : FAcc) (o : Obs) : Prop where
  ext : ∃ e, a'.flat = a.flat ++ e
  cons : Cons s a'.flat
  vis : VisCov P s a' anc
  cov : ∀ inp', Agrees P inp' a'.flat → semDep P inp' o.dep = o.val

/-- a walk over a list of edges: every handled edge ends up covered by the final flattened edges -/
theorem walk_ok {P s anc} (f : FAcc → Obs → FAcc) : ∀ (l : List Obs) (a : FAcc),
    Cons s a.flat → VisCov P s a anc →
    (∀ a o, o ∈ l → Cons s a.flat → VisCov P s a anc → StepOk P s anc a (f a o) o) →
    (∃ e, (l.foldl f a).flat = a.flat ++ e) ∧ Cons s (l.foldl f a).flat ∧ VisCov P s (l.foldl f a) anc ∧
    ∀ inp', Agrees P inp' (l.foldl f a).flat → ∀ o, o ∈ l → semDep P inp' o.dep = o.val := by
  intro l
  induction l with
  | nil =>
    intro a hc hv _
    exact ⟨⟨[], by simp⟩, hc, hv, fun _ _ o ho => by cases ho⟩
  | cons o rest ih =>
    intro a hc hv hstep
    have st := hstep a o (by simp) hc hv
    obtain ⟨⟨e2, he2⟩, c2, v2, k2⟩ := ih (f a o) st.cons st.vis
      (fun a' o' ho' => hstep a' o' (by simp [ho']))
    obtain ⟨e1, he1⟩ := st.ext
    simp only [List.foldl_cons]
    refine ⟨⟨e1 ++ e2, by rw [he2, he1, List.append_assoc]⟩, c2, v2, ?_⟩
    intro inp' hag o' ho'
    simp only [List.mem_cons] at ho'
    rcases ho' with ho' | ho'
    · subst ho'
      exact st.cov inp' (by rw [he2] at hag; exact agrees_prefix hag)
    · exact k2 inp' hag o' ho'

theorem visCov_mono {P s a a' anc} (hv : VisCov P s a anc) (hvis : a'.visited = a.visited)
    (hext : ∃ e, a'.flat = a.flat ++ e) : VisCov P s a' anc := by
  obtain ⟨e, he⟩ := hext
  refine ⟨fun d hd => hv.isq d (hvis ▸ hd), ?_⟩
  intro k hk
  rcases hv.cov k (hvis ▸ hk) with h | h
  · exact Or.inl h
  · exact Or.inr (fun inp' hag => h inp' (by rw [he] at hag; exact agrees_prefix hag))

/-- `cmse j`: the flattened edges only grow, stay consistent, and afterwards cover `j` -/
theorem cmse_covers {P s} (hP : Wf P) (hI : Inv P s) (hQ : Quiet s) (hR : AllRec s) :
    ∀ fuel j a anc, j < fuel → (∀ x, x ∈ anc → j < x) → Cons s a.flat → VisCov P s a anc →
    (∃ e, (cmse s fuel j a).flat = a.flat ++ e) ∧ Cons s (cmse s fuel j a).flat ∧
    VisCov P s (cmse s fuel j a) anc ∧
    ∀ inp', Agrees P inp' (cmse s fuel j a).flat → Covd P s inp' (.qry j) := by
  intro fuel
  induction fuel with
  | zero => intro j a anc h; omega
  | succ fuel ih =>
    intro j a anc hj hanc hc hv
    simp only [cmse]
    cases hm : s.memos j with
    | none =>
      refine ⟨⟨[], by simp⟩, hc, hv, ?_⟩
      intro inp' _ r hr
      simp [depInfo, hm] at hr
    | some m =>
      simp only
      have hfilt : m.obs.filter (·.recd) = m.obs :=
        List.filter_eq_self.mpr (fun o ho => hR j m hm o ho)
      rw [hfilt]
      have ok := hI.memo j m hm
      -- the accumulator with `j` marked visited: `j` is an ancestor during the walk
      have hv0 : VisCov P s { a with visited := .qry j :: a.visited } (j :: anc) := by
        refine ⟨?_, ?_⟩
        · intro d hd
          simp only [List.mem_cons] at hd
          rcases hd with hd | hd
          · exact ⟨j, hd⟩
          · exact hv.isq d hd
        · intro k hk
          simp only [List.mem_cons, Dep.qry.injEq] at hk
          rcases hk with hk | hk
          · exact Or.inl (by simp [hk])
          · rcases hv.cov k hk with h | h
            · exact Or.inl (by simp [h])
            · exact Or.inr h
      have hwalk := walk_ok (P := P) (s := s) (anc := j :: anc) (cmseEdge (cmse s fuel)) m.obs
        { a with visited := .qry j :: a.visited } hc hv0 (by
          intro a1 o ho hc1 hv1
          have hcur := curObs_of_quiet hI hQ hm ho
          -- an edge that is covered needs no change of the accumulator
          have same : (∀ inp', Agrees P inp' a1.flat → Covd P s inp' o.dep) → StepOk P s (j :: anc) a1 a1 o := by
            intro hcov
            refine ⟨⟨[], by simp⟩, hc1, hv1, ?_⟩
            intro inp' hag
            obtain ⟨r, h1, h2⟩ := hcur
            rw [hcov inp' hag r h1, h2]
          unfold cmseEdge
          split
          · -- visited: a function below `j`, hence not an ancestor, hence covered
            rename_i hvis
            have hmem : o.dep ∈ a1.visited := by simpa using hvis
            obtain ⟨k, hk⟩ := hv1.isq _ hmem
            have hlt : k < j := (ok.i5 o k ho hk).1
            apply same
            rw [hk]
            rw [hk] at hmem
            rcases hv1.cov k hmem with h | h
            · simp only [List.mem_cons] at h
              rcases h with h | h
              · omega
              · have := hanc k h; omega
            · exact h
          · split
            · -- already among the flattened edges
              rename_i _ hhas
              obtain ⟨o0, h0, hd0⟩ := hasDep_mem hhas
              apply same
              intro inp' hag
              rw [← hd0]
              exact covd_of_mem hc1 h0 hag
            · split
              · -- an input leaf is inserted
                rename_i i hd
                have hins : ∀ o1, o1 ∈ (insertEdge a1 o).flat → o1 ∈ a1.flat ∨ o1 = { o with recd := true } := by
                  intro o1 h1
                  unfold insertEdge at h1
                  split at h1
                  · exact Or.inl h1
                  · simp only [List.mem_append, List.mem_singleton] at h1; exact h1
                have hext : ∃ e, (insertEdge a1 o).flat = a1.flat ++ e := by
                  unfold insertEdge
                  split
                  · exact ⟨[], by simp⟩
                  · exact ⟨_, rfl⟩
                have hin : ∃ o1, o1 ∈ (insertEdge a1 o).flat ∧ o1.dep = o.dep ∧ o1.val = o.val := by
                  unfold insertEdge
                  split
                  · rename_i hh
                    obtain ⟨o0, h0, hd0⟩ := hasDep_mem hh
                    obtain ⟨r0, g1, g2⟩ := hc1 o0 h0
                    obtain ⟨r, g3, g4⟩ := hcur
                    rw [hd0, g3] at g1; cases g1
                    exact ⟨o0, h0, hd0, by rw [← g2, g4]⟩
                  · exact ⟨{ o with recd := true }, by simp, rfl, rfl⟩
                have hvis : (insertEdge a1 o).visited = a1.visited := by
                  unfold insertEdge; split <;> rfl
                refine ⟨hext, ?_, visCov_mono hv1 hvis hext, ?_⟩
                · intro o1 h1
                  rcases hins o1 h1 with h | h
                  · exact hc1 o1 h
                  · rw [h]; exact hcur
                · intro inp' hag
                  obtain ⟨o1, h1, h2, h3⟩ := hin
                  rw [← h2, ← h3]; exact hag o1 h1
              · -- a function edge: walk into it
                rename_i k hd
                obtain ⟨hlt, mk, hmk, _⟩ := ok.i5 o k ho hd
                have hanc' : ∀ x, x ∈ j :: anc → k < x := by
                  intro x hx
                  simp only [List.mem_cons] at hx
                  rcases hx with hx | hx
                  · omega
                  · have := hanc x hx; omega
                obtain ⟨e1, c1, v1, k1⟩ := ih k a1 (j :: anc) (by omega) hanc' hc1 hv1
                refine ⟨e1, c1, v1, ?_⟩
                intro inp' hag
                obtain ⟨r, g1, g2⟩ := hcur
                rw [hd] at g1 ⊢
                rw [k1 inp' hag r g1, g2])
      obtain ⟨we, wc, wv, wk⟩ := hwalk
      -- after the walk `j` is covered
      have hcovj : ∀ inp', Agrees P inp' (List.foldl (cmseEdge (cmse s fuel)) { a with visited := .qry j :: a.visited } m.obs).flat →
          Covd P s inp' (.qry j) := by
        intro inp' hag r hr
        simp only [depInfo, hm, Option.map, Option.some.injEq] at hr
        subst hr
        simp only [semDep]
        rw [sem_unfold P inp' hP j]
        apply replay_sem _ (P j) (obsPairs m.obs) m.value ok.rep
        intro d x hmem
        obtain ⟨o, ho, hd, hx⟩ := mem_obsPairs hmem
        rw [← hd, ← hx]
        exact wk inp' hag o ho
      refine ⟨we, wc, ?_, hcovj⟩
      refine ⟨wv.isq, ?_⟩
      intro k hk
      rcases wv.cov k hk with h | h
      · simp only [List.mem_cons] at h
        rcases h with h | h
        · subst h; exact Or.inr hcovj
        · exact Or.inl h
      · exact Or.inr h

/-- **Covers** (quiescent states): the flattened edges of a memo determine its value. -/
theorem flatten_covers {P s} (hP : Wf P) (hI : Inv P s) (hQ : Quiet s) (hR : AllRec s)
    (pers : Nat → Bool) (q : Nat) (m : Memo) (hm : s.memos q = some m) (inp' : Nat → Inp)
    (hag : Agrees P inp' (flattenObs pers s m.obs)) : sem P inp' q = m.value := by
  have ok := hI.memo q m hm
  have hwalk := walk_ok (P := P) (s := s) (anc := []) (flattenEdge pers s) m.obs ⟨[], []⟩
    (by intro o ho; cases ho) ⟨(by intro d hd; cases hd), (by intro k hk; cases hk)⟩ (by
      intro a1 o ho hc1 hv1
      have hcur := curObs_of_quiet hI hQ hm ho
      -- a top-level edge that is copied
      have copy : StepOk P s [] a1 { a1 with flat := a1.flat ++ [o] } o := by
        refine ⟨⟨[o], rfl⟩, ?_, visCov_mono hv1 rfl ⟨[o], rfl⟩, ?_⟩
        · intro o1 h1
          simp only [List.mem_append, List.mem_singleton] at h1
          rcases h1 with h1 | h1
          · exact hc1 o1 h1
          · rw [h1]; exact hcur
        · intro inp' hag'
          exact hag' o (by simp)
      unfold flattenEdge
      split
      · exact copy
      · rename_i j hd
        split
        · exact copy
        · obtain ⟨e1, c1, v1, k1⟩ := cmse_covers hP hI hQ hR (j + 1) j a1 [] (Nat.lt_succ_self j)
            (by intro x hx; cases hx) hc1 hv1
          refine ⟨e1, c1, v1, ?_⟩
          intro inp' hag'
          obtain ⟨r, g1, g2⟩ := hcur
          rw [hd] at g1 ⊢
          rw [k1 inp' hag' r g1, g2])
  obtain ⟨_, _, _, wk⟩ := hwalk
  rw [sem_unfold P inp' hP q]
  apply replay_sem _ (P q) (obsPairs m.obs) m.value ok.rep
  intro d x hmem
  obtain ⟨o, ho, hd, hx⟩ := mem_obsPairs hmem
  rw [← hd, ← hx]
  exact wk inp' hag o ho

end SalsaVerif.Proofs.Persist
