/-
  CoreSpec, histories with writes: `execute` of a node, part 10 — running the body, phase PRE
  (reads before the `create`; then `ret`, or `create` followed by phases MID and POST).
  Core Lean only.
-/
import SalsaVerif.Proofs.CoreSpecRevRun2

namespace SalsaVerif.Proofs.CoreSpec
namespace X
open SalsaVerif.Model.CoreSpec

/-- the side condition of the tracker in phase PRE: the remaining old reads before the old
    `create` are reads of the old prefix -/
def PreCond (P : Prog) (idOf : Nat → Nat) (r : Nat) (mo : Memo) (b : Body) (orem : List Obs) : Prop :=
  ∀ o, o ∈ preOf idOf b orem → o ∈ preOf idOf (P.node r) mo.obs

/-- what does not change during the run (`s0`: the state at the start of the body) -/
structure RunCtx (P : Prog) (idOf : Nat → Nat) (r : Nat) (NB0 : Prop) (s0 : State) (old : Option Memo)
    (Ro : SemRes) (PL : Nat) : Prop where
  oc : OCtx P idOf NB0 r s0 old Ro PL
  memo : s0.memos r = old
  nsok : ∀ mo, old = some mo → ¬ SOK s0 mo
  busy : NB0 → ¬ Busy s0 r
  nbnone : old = none → ¬ Busy s0 r
  hot : ∀ Xm, s0.smemos r = some Xm → Xm.va = s0.cur → ¬ NB0
  /-- the clause of the old prefix reads at the prefix level, in every state of phase PRE -/
  prov : ∀ mo, old = some mo → ∀ t, Inv P idOf t → Ext s0 t r →
    ∀ oo, oo ∈ preOf idOf (P.node r) mo.obs → ∀ x, depInfo t oo.dep = some x →
      (x.val = oo.val ∧ PL ≤ x.dur) ∨ (NB0 ∧ Wit t PL mo.va x.ca)

structure PreH (P : Prog) (idOf : Nat → Nat) (r : Nat) (fe : FetchFn) (NB0 : Prop) (s0 : State)
    (old : Option Memo) (Ro : SemRes) (PL : Nat) (H : Nat → Prop) (t : State) (f : Frame) (b : Body) : Prop where
  inv : Inv P idOf t
  nb : NB t r
  fr : FrOk P r t f
  hs : HSrc H f.obs
  fts : f.ts = none
  fseed : f.seed = oldSeed old
  nout : ∀ o, o ∈ f.obs → o.out = false
  ext0 : Ext s0 t r
  trk : TrkO idOf r old Ro NB0 (fun _ => PL) (PreCond P idOf r) t f b none none
  pn : (runBody fe (fetchSpec P.spec) (some r) b t f).1.panic = none

/-- how the run ended: without a struct (first alternative), or with the struct `kv` created at
    frame durability `fd` -/
def PreFin (P : Prog) (idOf : Nat → Nat) (r : Nat) (NB0 : Prop) (s0 : State) (old : Option Memo)
    (Ro : SemRes) (PL : Nat) (t' : State) (f' : Frame) (v : Val) (pre : List Obs)
    (ts' : Option (Nat × Nat)) (sp' : Option Nat) : Prop :=
  (ts' = none ∧ sp' = none ∧ f'.ts = none ∧ t'.slots r = s0.slots r ∧ t'.smemos r = s0.smemos r ∧
    EndTrk idOf r old Ro (fun _ => PL) NB0 t' f' ⟨v, none, none⟩ ∧
    ∀ c, v.h = some c → ∃ o q', o ∈ f'.obs ∧ o.out = false ∧ o.dep = .qry q' ∧ o.val.h = some c) ∨
  (∃ kv fd, ts' = some kv ∧ f'.ts.isSome = true ∧ kv.1 = idOf r ∧ f'.dur ≤ fd ∧ fd ≤ 3 ∧
    (∃ sl, t'.slots r = some sl ∧ sl.k = kv.1 ∧ sl.v = kv.2 ∧ sl.upd = t'.cur ∧ sl.dur ≤ fd) ∧
    SpFin r s0 t' fd sp' ∧
    EndTrk idOf r old Ro Memo.dur True t' f' ⟨v, some kv, sp'⟩ ∧
    (∀ c, v.h = some c → c = r ∨ ∃ o q', o ∈ f'.obs ∧ o.out = false ∧ o.dep = .qry q' ∧ o.val.h = some c) ∧
    (∀ o, o ∈ pre → ∃ x, depInfo t' o.dep = some x ∧ fd ≤ x.dur) ∧
    (∀ o, o ∈ pre → ∀ c, (o.dep = .field c ∨ o.dep = .spec c) →
      ∃ o' q', o' ∈ pre ∧ o'.out = false ∧ o'.dep = .qry q' ∧ o'.val.h = some c))

structure PreC (P : Prog) (idOf : Nat → Nat) (r : Nat) (NB0 : Prop) (s0 : State) (old : Option Memo)
    (Ro : SemRes) (PL : Nat) (t : State) (f : Frame) (b : Body) (t' : State) (f' : Frame) (v : Val) : Prop where
  inv : Inv P idOf t'
  nb : NB t' r
  fr : FrOk P r t' f'
  ext : Ext t t' (r + 1)
  memo : t'.memos r = t.memos r
  fseed : f'.seed = f.seed
  fin : ∃ new ts' sp', f'.obs = f.obs ++ new ∧ replayR r idOf b new none none = some ⟨v, ts', sp'⟩ ∧
    PreFin P idOf r NB0 s0 old Ro PL t' f' v (f.obs ++ preOf idOf b new) ts' sp'

theorem preFin_pre {P idOf r NB0 s0 old Ro PL t' f' v pre pre' ts' sp'}
    (h : PreFin P idOf r NB0 s0 old Ro PL t' f' v pre ts' sp') (hp : ∀ o, o ∈ pre' ↔ o ∈ pre) :
    PreFin P idOf r NB0 s0 old Ro PL t' f' v pre' ts' sp' := by
  rcases h with h | ⟨kv, fd, a1, a2, a3, a4, a5, a6, a7, a8, a9, a10, a11⟩
  · exact Or.inl h
  · refine Or.inr ⟨kv, fd, a1, a2, a3, a4, a5, a6, a7, a8, a9, fun o ho => a10 o ((hp o).mp ho), ?_⟩
    intro o ho c hc
    obtain ⟨o', q', b1, b2⟩ := a11 o ((hp o).mp ho) c hc
    exact ⟨o', q', (hp o').mpr b1, b2⟩

/-- a read in phase PRE, given the run of the continuation -/
theorem pre_read {P idOf r fe NB0 s0 old Ro PL} (hP : Wf2 P idOf) (hfe : FetchSpec P idOf r fe)
    (hfs : SpecFetchOk P idOf (fetchSpec P.spec)) (hst : RelF Sticky fe)
    (RC : RunCtx P idOf r NB0 s0 old Ro PL) {H H' : Nat → Prop}
    {t : State} {f : Frame} {d : Dep} {k : Val → Body}
    (h : PreH P idOf r fe NB0 s0 old Ro PL H t f (.read d k)) (hd : DepOk r f d)
    (hH' : HSrc H' (f.push d (readDep fe (fetchSpec P.spec) t d).2).obs)
    (IH : (readDep fe (fetchSpec P.spec) t d).2.val = semDep P t.inp d →
      PreH P idOf r fe NB0 s0 old Ro PL H' (readDep fe (fetchSpec P.spec) t d).1
        (f.push d (readDep fe (fetchSpec P.spec) t d).2) (k (readDep fe (fetchSpec P.spec) t d).2.val) →
      PreC P idOf r NB0 s0 old Ro PL (readDep fe (fetchSpec P.spec) t d).1
        (f.push d (readDep fe (fetchSpec P.spec) t d).2) (k (readDep fe (fetchSpec P.spec) t d).2.val)
        (runBody fe (fetchSpec P.spec) (some r) (k (readDep fe (fetchSpec P.spec) t d).2.val)
          (readDep fe (fetchSpec P.spec) t d).1 (f.push d (readDep fe (fetchSpec P.spec) t d).2)).1
        (runBody fe (fetchSpec P.spec) (some r) (k (readDep fe (fetchSpec P.spec) t d).2.val)
          (readDep fe (fetchSpec P.spec) t d).1 (f.push d (readDep fe (fetchSpec P.spec) t d).2)).2.1
        (runBody fe (fetchSpec P.spec) (some r) (k (readDep fe (fetchSpec P.spec) t d).2.val)
          (readDep fe (fetchSpec P.spec) t d).1 (f.push d (readDep fe (fetchSpec P.spec) t d).2)).2.2) :
    PreC P idOf r NB0 s0 old Ro PL t f (.read d k)
      (runBody fe (fetchSpec P.spec) (some r) (.read d k) t f).1
      (runBody fe (fetchSpec P.spec) (some r) (.read d k) t f).2.1
      (runBody fe (fetchSpec P.spec) (some r) (.read d k) t f).2.2 := by
  have hpn := h.pn
  simp only [runBody] at hpn ⊢
  have hp1 : (readDep fe (fetchSpec P.spec) t d).1.panic = none := sticky_none (run_sticky hst _ _ _ _) hpn
  obtain ⟨a, hval, hinfo⟩ := read_adv hP hfe hfs h.inv h.nb h.fr hd hp1
  replace IH := IH hval
  clear hval
  generalize readDep fe (fetchSpec P.spec) t d = rd at hpn hp1 a hinfo hH' IH ⊢
  have hext0 : Ext s0 rd.1 r := h.ext0.trans a.ext
  have htrk : TrkO idOf r old Ro NB0 (fun _ => PL) (PreCond P idOf r) rd.1 (f.push d rd.2) (k rd.2.val)
      none none := by
    intro mo hmo
    refine trk_read (h.trk mo hmo) a.ext.wlog ?_ ?_
    · intro oo rest hC o ho
      exact hC o (by simp only [preOf, List.mem_cons]; exact Or.inr ho)
    · intro oo rest hC _ _ hdep
      have hin : oo ∈ preOf idOf (P.node r) mo.obs := hC oo (by simp [preOf])
      exact RC.prov mo hmo rd.1 a.inv hext0 oo hin rd.2 (by rw [hdep]; exact hinfo)
  have hnout : ∀ o, o ∈ (f.push d rd.2).obs → o.out = false := by
    intro o ho
    simp only [Frame.push, List.mem_append, List.mem_singleton] at ho
    rcases ho with ho | ho
    · exact h.nout o ho
    · rw [ho]
  have res := IH ⟨a.inv, a.nb, a.fr, hH', a.ts.trans h.fts, a.seed.trans h.fseed, hnout, hext0, htrk, hpn⟩
  generalize runBody fe (fetchSpec P.spec) (some r) (k rd.2.val) rd.1 (f.push d rd.2) = R at res
  obtain ⟨new, ts', sp', e1, e2, e3⟩ := res.fin
  refine ⟨res.inv, res.nb, res.fr, (a.ext.weaken (Nat.le_succ r)).trans res.ext,
    res.memo.trans (a.ext.above_m r (Nat.le_refl _)), res.fseed.trans a.seed,
    ⟨⟨d, rd.2.val, decide (rd.2.dur ≠ 3), false⟩ :: new, ts', sp', ?_, ?_, ?_⟩⟩
  · rw [e1]; simp [Frame.push]
  · simp only [replayR, and_self, if_true]; exact e2
  · refine preFin_pre e3 ?_
    intro o
    simp only [Frame.push, preOf, List.mem_append, List.mem_cons, List.not_mem_nil, or_false]
    constructor
    · intro ho
      rcases ho with ho | ho | ho
      · exact Or.inl (Or.inl ho)
      · exact Or.inl (Or.inr ho)
      · exact Or.inr ho
    · intro ho
      rcases ho with (ho | ho) | ho
      · exact Or.inl ho
      · exact Or.inr (Or.inl ho)
      · exact Or.inr (Or.inr ho)

theorem spFin_congr {r : Nat} {t0 s0 t' : State} {fd : Nat} (h : t0.smemos r = s0.smemos r) :
    ∀ sp, SpFin r t0 t' fd sp → SpFin r s0 t' fd sp := by
  intro sp a
  cases sp with
  | some w => exact a
  | none =>
    obtain ⟨a1, a2⟩ := a
    exact ⟨a1.trans h, fun A hA => a2 A (by rw [h]; exact hA)⟩

theorem hasOut_false_of_nout {f : Frame} {c : Nat} (h : ∀ o, o ∈ f.obs → o.out = false) : f.hasOut c = false := by
  unfold Frame.hasOut
  rw [List.any_eq_false]
  intro o ho
  simp [h o ho]

/-- a read of an identity field in phase PRE -/
theorem pre_ident {P idOf r fe NB0 s0 old Ro PL} (hP : Wf2 P idOf) {H : Nat → Prop}
    {t : State} {f : Frame} {c : Nat} {k : Nat → Body}
    (h : PreH P idOf r fe NB0 s0 old Ro PL H t f (.ident c k)) (hc : H c)
    (IH : PreH P idOf r fe NB0 s0 old Ro PL H (identStep t c).1 f (k (idOf c)) →
      PreC P idOf r NB0 s0 old Ro PL (identStep t c).1 f (k (idOf c))
        (runBody fe (fetchSpec P.spec) (some r) (k (idOf c)) (identStep t c).1 f).1
        (runBody fe (fetchSpec P.spec) (some r) (k (idOf c)) (identStep t c).1 f).2.1
        (runBody fe (fetchSpec P.spec) (some r) (k (idOf c)) (identStep t c).1 f).2.2) :
    PreC P idOf r NB0 s0 old Ro PL t f (.ident c k)
      (runBody fe (fetchSpec P.spec) (some r) (.ident c k) t f).1
      (runBody fe (fetchSpec P.spec) (some r) (.ident c k) t f).2.1
      (runBody fe (fetchSpec P.spec) (some r) (.ident c k) t f).2.2 := by
  have hpn := h.pn
  simp only [runBody] at hpn ⊢
  obtain ⟨g1, g2, g3, g4, g5⟩ := identStep_ok hP h.inv h.nb h.fr (h.hs c hc)
  rw [g5] at hpn ⊢
  generalize (identStep t c).1 = t1 at hpn g1 g2 g3 g4 IH ⊢
  have htrk : TrkO idOf r old Ro NB0 (fun _ => PL) (PreCond P idOf r) t1 f (k (idOf c)) none none := by
    intro mo hmo
    refine trk_ident (h.trk mo hmo) g3.wlog ?_
    intro orem hC o ho
    exact hC o (by simp only [preOf]; exact ho)
  have res := IH ⟨g1, g2, g4, h.hs, h.fts, h.fseed, h.nout, h.ext0.trans g3, htrk, hpn⟩
  generalize runBody fe (fetchSpec P.spec) (some r) (k (idOf c)) t1 f = R at res
  obtain ⟨new, ts', sp', e1, e2, e3⟩ := res.fin
  exact ⟨res.inv, res.nb, res.fr, (g3.weaken (Nat.le_succ r)).trans res.ext,
    res.memo.trans (g3.above_m r (Nat.le_refl _)), res.fseed,
    ⟨new, ts', sp', e1, by simp only [replayR]; exact e2, by simp only [preOf]; exact e3⟩⟩

/-- the `create` in phase PRE followed by phases MID and POST -/
theorem pre_create {P idOf r fe NB0 s0 old Ro PL} (hP : Wf2 P idOf) (hfe : FetchSpec P idOf r fe)
    (hfs : SpecFetchOk P idOf (fetchSpec P.spec)) (hst : RelF Sticky fe)
    (RC : RunCtx P idOf r NB0 s0 old Ro PL) {H : Nat → Prop}
    {t : State} {f : Frame} {idk v : Nat} {k : Val → Body} (hid : idk = idOf r)
    (hk : Wf2B idOf r .mid H (k ⟨v, some r⟩))
    (h : PreH P idOf r fe NB0 s0 old Ro PL H t f (.create idk v k)) :
    PreC P idOf r NB0 s0 old Ro PL t f (.create idk v k)
      (runBody fe (fetchSpec P.spec) (some r) (.create idk v k) t f).1
      (runBody fe (fetchSpec P.spec) (some r) (.create idk v k) t f).2.1
      (runBody fe (fetchSpec P.spec) (some r) (.create idk v k) t f).2.2 := by
  have hpn := h.pn
  have hcs : createStep t (some r) f idk v =
      ((newStruct t r f idk v).1, { f with ts := some (newStruct t r f idk v).2 }, ⟨v, some r⟩) := by
    simp [createStep, h.fts]
  simp only [runBody, hcs] at hpn ⊢
  have hSame := sameR_of_ext h.ext0
  have hmemo : t.memos r = old := by rw [hSame.memos]; exact RC.memo
  have hnsok : ∀ mo, old = some mo → ¬ SOK t mo := fun mo hmo hs => RC.nsok mo hmo ((h.ext0.sokIff mo).mp hs)
  have hnr : ¬ memoSok t r := not_memoSok_of hmemo hnsok
  have OCt : OCtx P idOf NB0 r t old Ro PL := by
    refine ⟨fun mo hmo => (RC.oc.some mo hmo).same hSame, ?_⟩
    intro ho
    obtain ⟨a, b, c⟩ := RC.oc.none ho
    exact ⟨by rw [hSame.memos]; exact a, by rw [hSame.slots]; exact b, by rw [hSame.smemos]; exact c⟩
  have co : CrOut P idOf r t (newStruct t r f idk v).1 f idk v := by
    cases hold : old with
    | some mo =>
      refine create_some h.inv (OCt.some mo hold) (hnsok mo hold) h.fr ?_ hid (h.trk mo hold) ?_
      · rw [h.fseed, hold]; rfl
      · intro hn hb
        exact RC.busy hn ((busy_ext_above h.ext0 (Nat.le_refl r)).mp hb)
    | none =>
      refine create_none h.inv (by rw [hmemo, hold]) ?_ h.fr
      intro hb
      exact RC.nbnone hold ((busy_ext_above h.ext0 (Nat.le_refl r)).mp hb)
  generalize (newStruct t r f idk v).2 = g at hpn ⊢
  generalize (newStruct t r f idk v).1 = t1 at hpn co ⊢
  obtain ⟨sl, s1, s2, s3, s4, s5, s6⟩ := co.slot
  have MH : MidH P idOf r fe NB0 t old Ro PL (idk, v) none f.dur H t1 { f with ts := some g }
      (k ⟨v, some r⟩) := by
    refine ⟨co.inv, nb_upd co.upd h.nb, frOk_congr (frOk_upd co.upd h.fr) rfl rfl rfl, h.hs, rfl, rfl,
      co.memos, hmemo, co.upd.wlog, fun mo hmo hs => hnsok mo hmo ((co.upd.sokIff mo).mp hs),
      ⟨sl, s1, by rw [s4, co.upd.cur], s6⟩, ⟨co.smemos, hasOut_false_of_nout h.nout⟩, ?_, ?_, hpn⟩
    · intro mo hmo
      exact trk_create (h.trk mo hmo) co.upd.wlog rfl rfl rfl (fun _ => trivial)
    · intro _ Xm hX hva
      rw [co.smemos, hSame.smemos] at hX
      rw [co.upd.cur, hSame.cur] at hva
      exact RC.hot Xm hX hva
  have res := runMid hP hfe hfs hst OCt hk rfl none t1 { f with ts := some g } MH
  generalize runBody fe (fetchSpec P.spec) (some r) (k ⟨v, some r⟩) t1 { f with ts := some g } = R at res
  obtain ⟨new, sp', e1, e2, e3, e4⟩ := res.rep
  have hext : Ext t R.1 (r + 1) := (ext_of_upd co.upd co.memos hnr).trans res.ext
  refine ⟨res.inv, res.nb, res.fr, hext, res.memo.trans co.memos, res.fseed,
    ⟨new, some (idk, v), sp', e1, by simp only [replayR]; exact e2, Or.inr ⟨(idk, v), f.dur, rfl, ?_, hid, res.fdur,
      h.fr.dur3, ⟨sl, by rw [res.slots]; exact s1, s2, s3, by rw [s4, hext.cur], s5⟩,
      spFin_congr hSame.smemos sp' e3, e4, res.hsrc, ?_, ?_⟩⟩⟩
  · rw [res.fts]; rfl
  · intro o ho
    simp only [preOf, List.append_nil] at ho
    have a := h.fr.rd o ho (h.nout o ho)
    obtain ⟨x, hx, _, _, hd, _⟩ := a.info
    exact ⟨x, depInfo_hot_ext hext a.hot hx, hd⟩
  · intro o ho c hc
    simp only [preOf, List.append_nil] at ho ⊢
    rcases hd_src c f.obs _ h.fr.hd o ho (h.nout o ho) hc with hh | hh
    · exact hh.elim
    · exact hh

/-- the run of the body of node `r` -/
theorem runPre {P idOf r fe NB0 s0 old Ro PL} (hP : Wf2 P idOf) (hfe : FetchSpec P idOf r fe)
    (hfs : SpecFetchOk P idOf (fetchSpec P.spec)) (hst : RelF Sticky fe)
    (RC : RunCtx P idOf r NB0 s0 old Ro PL) :
    ∀ {ph H b}, Wf2B idOf r ph H b → ph = .pre → ∀ (t : State) (f : Frame),
      PreH P idOf r fe NB0 s0 old Ro PL H t f b →
      PreC P idOf r NB0 s0 old Ro PL t f b (runBody fe (fetchSpec P.spec) (some r) b t f).1
        (runBody fe (fetchSpec P.spec) (some r) b t f).2.1 (runBody fe (fetchSpec P.spec) (some r) b t f).2.2 := by
  intro ph H b hb
  induction hb with
  | retPre H v hv =>
    intro _ t f h
    simp only [runBody]
    have hSame := sameR_of_ext h.ext0
    refine ⟨h.inv, h.nb, h.fr, Ext.refl t (r + 1), rfl, rfl, ⟨[], none, none, by simp, by simp [replayR], Or.inl
      ⟨rfl, rfl, h.fts, hSame.slots, hSame.smemos, trkO_ret h.trk, fun c hc => h.hs c (hv c hc)⟩⟩⟩
  | retPost H v hv => intro h; cases h
  | inp ph H i k _ _ ih =>
    intro hp t f h
    refine pre_read hP hfe hfs hst RC h trivial (hsrc_push_other h.hs) ?_
    intro _ hh
    have e : (readDep fe (fetchSpec P.spec) t (.inp i)).2.val = ⟨(t.inp i).val, none⟩ := rfl
    rw [e] at hh ⊢
    exact ih _ hp _ _ hh
  | qry ph H q k _ hq _ ih =>
    intro hp t f h
    refine pre_read hP hfe hfs hst RC h hq (hsrc_push_qry h.hs) ?_
    intro hv hh
    refine ih _ ?_ hp _ _ hh
    intro c hc
    rw [hv] at hc
    exact (sem_handle2 hP t.inp q c hc).1
  | field ph H c k _ hc _ ih =>
    intro hp t f h
    refine pre_read hP hfe hfs hst RC h (h.hs c hc) (hsrc_push_other h.hs) ?_
    intro hv hh
    have e : (readDep fe (fetchSpec P.spec) t (.field c)).2.val =
        ⟨(readDep fe (fetchSpec P.spec) t (.field c)).2.val.n, none⟩ := by
      apply val_eta; rw [hv]; rfl
    rw [e] at hh ⊢
    exact ih _ hp _ _ hh
  | spec ph H c k _ hc _ ih =>
    intro hp t f h
    refine pre_read hP hfe hfs hst RC h (h.hs c hc) (hsrc_push_other h.hs) ?_
    intro hv hh
    have e : (readDep fe (fetchSpec P.spec) t (.spec c)).2.val =
        ⟨(readDep fe (fetchSpec P.spec) t (.spec c)).2.val.n, none⟩ := by
      apply val_eta; rw [hv]; exact specVal_handleS hP.spec _ _
    rw [e] at hh ⊢
    exact ih _ hp _ _ hh
  | ident ph H c k _ hc _ ih =>
    intro hp t f h
    exact pre_ident hP h hc (fun hh => ih _ hp _ _ hh)
  | create H idk v k hid hk _ => intro _ t f h; exact pre_create hP hfe hfs hst RC hid hk h
  | create2 H idk v k _ _ _ => intro h; cases h
  | specify H c v k _ _ => intro h; cases h
  | mid H b _ _ => intro h; cases h

end X
end SalsaVerif.Proofs.CoreSpec
