/-
  Helper lemmas and invariants for the tracked-struct model (`Model/Structs.lean`).
  The property theorems `c06_*` are in `Props/C06.lean`; the lemmas `c07s_*` at the end of this
  file are re-exported by `Props/C07.lean`.
-/
import SalsaVerif.Model.Structs

namespace SalsaVerif.Proofs.Structs
open SalsaVerif.Model.Structs

/-! ### DisambiguatorMap -/

theorem dget_set (d : List ((Nat × Nat) × Nat)) (key : Nat × Nat) (v : Nat) (key' : Nat × Nat) :
    DisambiguatorMap.get (DisambiguatorMap.set d key v) key'
      = if key = key' then v else DisambiguatorMap.get d key' := by
  induction d with
  | nil => simp [DisambiguatorMap.set, DisambiguatorMap.get]
  | cons p rest ih =>
    obtain ⟨k, v'⟩ := p
    by_cases hk : k = key
    · subst hk
      simp only [DisambiguatorMap.set, DisambiguatorMap.get, if_true]
      by_cases hk' : k = key' <;> simp [hk']
    · by_cases hk' : k = key'
      · subst hk'
        simp [DisambiguatorMap.set, DisambiguatorMap.get, hk, Ne.symm hk]
      · simp [DisambiguatorMap.set, DisambiguatorMap.get, hk, hk', ih]

/-- the key of the disambiguator map used by a creation -/
def keyOf (hash : Nat → Nat) (c : Creation) : Nat × Nat := (c.ingr, hash c.fields.idv)

/-- number of creations in `cs` with disambiguator key `key` -/
def countKey (hash : Nat → Nat) (key : Nat × Nat) : List Creation → Nat
  | [] => 0
  | c :: rest => (if keyOf hash c = key then 1 else 0) + countKey hash key rest


/-! ### IdentityMap -/

theorem find_markActive (m : List Entry) (key key' : Identity) :
    IdentityMap.find (IdentityMap.markActive m key) key' = IdentityMap.find m key' := by
  induction m with
  | nil => rfl
  | cons e rest ih =>
    by_cases hk : e.identity = key
    · simp [IdentityMap.markActive, IdentityMap.find, hk]
    · simp [IdentityMap.markActive, IdentityMap.find, hk, ih]

theorem find_insertEntry (m : List Entry) (key : Identity) (id : Id) (a : Bool) (key' : Identity) :
    IdentityMap.find (IdentityMap.insertEntry m key id a) key'
      = if key = key' then some id else IdentityMap.find m key' := by
  induction m with
  | nil => simp [IdentityMap.insertEntry, IdentityMap.find]
  | cons e rest ih =>
    by_cases hk : e.identity = key
    · simp only [IdentityMap.insertEntry, hk, if_true, IdentityMap.find]
      by_cases hk' : key = key' <;> simp [hk']
    · simp only [IdentityMap.insertEntry, hk, if_false, IdentityMap.find, ih]
      by_cases hk' : e.identity = key'
      · have : ¬ key = key' := fun h => hk (h ▸ hk')
        simp [hk', this]
      · simp [hk']

theorem ids_markActive (m : List Entry) (key : Identity) :
    (IdentityMap.markActive m key).map (fun e => e.id) = m.map (fun e => e.id) := by
  induction m with
  | nil => rfl
  | cons e rest ih =>
    by_cases hk : e.identity = key
    · simp [IdentityMap.markActive, hk]
    · simp [IdentityMap.markActive, hk, ih]

theorem mem_markActive {m : List Entry} {key : Identity} {e : Entry}
    (h : e ∈ IdentityMap.markActive m key) :
    ∃ e0, e0 ∈ m ∧ e.identity = e0.identity ∧ e.id = e0.id ∧ (e.active = e0.active ∨ e.identity = key) := by
  induction m with
  | nil => simp [IdentityMap.markActive] at h
  | cons e1 rest ih =>
    by_cases hk : e1.identity = key
    · simp only [IdentityMap.markActive, hk, if_true, List.mem_cons] at h
      rcases h with h | h
      · exact ⟨e1, List.mem_cons_self, by simp [h, hk], by simp [h], Or.inr (by simp [h])⟩
      · exact ⟨e, List.mem_cons_of_mem _ h, rfl, rfl, Or.inl rfl⟩
    · simp only [IdentityMap.markActive, hk, if_false, List.mem_cons] at h
      rcases h with h | h
      · exact ⟨e1, List.mem_cons_self, by simp [h], by simp [h], Or.inl (by simp [h])⟩
      · obtain ⟨e0, h0, h1⟩ := ih h
        exact ⟨e0, List.mem_cons_of_mem _ h0, h1⟩

theorem mem_insertEntry {m : List Entry} {key : Identity} {id : Id} {a : Bool} {e : Entry}
    (h : e ∈ IdentityMap.insertEntry m key id a) : e = ⟨key, id, a⟩ ∨ e ∈ m := by
  induction m with
  | nil => simp [IdentityMap.insertEntry] at h; exact Or.inl h
  | cons e1 rest ih =>
    by_cases hk : e1.identity = key
    · simp only [IdentityMap.insertEntry, hk, if_true, List.mem_cons] at h
      rcases h with h | h
      · exact Or.inl h
      · exact Or.inr (List.mem_cons_of_mem _ h)
    · simp only [IdentityMap.insertEntry, hk, if_false, List.mem_cons] at h
      rcases h with h | h
      · exact Or.inr (by simp [h])
      · rcases ih h with h1 | h1
        · exact Or.inl h1
        · exact Or.inr (List.mem_cons_of_mem _ h1)

/-- slot indices of the entries of an identity map, in entry order -/
def idxs (m : List Entry) : List Nat := m.map (fun e => e.id.idx)

theorem idxs_markActive (m : List Entry) (key : Identity) :
    idxs (IdentityMap.markActive m key) = idxs m := by
  induction m with
  | nil => rfl
  | cons e rest ih =>
    by_cases hk : e.identity = key
    · simp [IdentityMap.markActive, hk, idxs]
    · simp only [IdentityMap.markActive, hk, if_false]
      show e.id.idx :: idxs (IdentityMap.markActive rest key) = e.id.idx :: idxs rest
      rw [ih]

theorem find_some_mem {m : List Entry} {key : Identity} {id : Id}
    (h : IdentityMap.find m key = some id) : ∃ e, e ∈ m ∧ e.identity = key ∧ e.id = id := by
  induction m with
  | nil => simp [IdentityMap.find] at h
  | cons e rest ih =>
    by_cases hk : e.identity = key
    · simp [IdentityMap.find, hk] at h
      exact ⟨e, List.mem_cons_self, hk, h⟩
    · simp [IdentityMap.find, hk] at h
      obtain ⟨e0, h0, h1⟩ := ih h
      exact ⟨e0, List.mem_cons_of_mem _ h0, h1⟩

theorem find_none_not_mem {m : List Entry} {key : Identity}
    (h : IdentityMap.find m key = none) : ∀ e, e ∈ m → e.identity ≠ key := by
  induction m with
  | nil => intro e he; simp at he
  | cons e rest ih =>
    by_cases hk : e.identity = key
    · simp [IdentityMap.find, hk] at h
    · simp [IdentityMap.find, hk] at h
      intro e0 he0
      rcases List.mem_cons.mp he0 with h1 | h1
      · rw [h1]; exact hk
      · exact ih h e0 h1

theorem mem_idxs {m : List Entry} {n : Nat} : n ∈ idxs m ↔ ∃ e, e ∈ m ∧ e.id.idx = n := by
  simp [idxs, List.mem_map]

theorem find_idx_mem {m : List Entry} {key : Identity} {id : Id}
    (h : IdentityMap.find m key = some id) : id.idx ∈ idxs m := by
  obtain ⟨e, he, _, hid⟩ := find_some_mem h
  exact mem_idxs.mpr ⟨e, he, by rw [hid]⟩

theorem find_idx_ne {m : List Entry} {k1 k2 : Identity} {a b : Id} (hn : (idxs m).Nodup)
    (h1 : IdentityMap.find m k1 = some a) (h2 : IdentityMap.find m k2 = some b) (hk : k1 ≠ k2) :
    a.idx ≠ b.idx := by
  induction m with
  | nil => simp [IdentityMap.find] at h1
  | cons e rest ih =>
    have hn' : e.id.idx ∉ idxs rest ∧ (idxs rest).Nodup := by
      simpa [idxs, List.nodup_cons] using hn
    by_cases hk1 : e.identity = k1
    · have hk2 : ¬ e.identity = k2 := fun h => hk (hk1 ▸ h)
      simp [IdentityMap.find, hk1] at h1
      simp [IdentityMap.find, hk2] at h2
      have := find_idx_mem h2
      intro heq
      apply hn'.1
      rw [h1, heq]; exact this
    · simp [IdentityMap.find, hk1] at h1
      by_cases hk2 : e.identity = k2
      · simp [IdentityMap.find, hk2] at h2
        have := find_idx_mem h1
        intro heq
        apply hn'.1
        rw [h2, ← heq]; exact this
      · simp [IdentityMap.find, hk2] at h2
        exact ih hn'.2 h1 h2

theorem mem_idxs_insertEntry {m : List Entry} {key : Identity} {id : Id} {a : Bool} {n : Nat}
    (h : n ∈ idxs (IdentityMap.insertEntry m key id a)) : n = id.idx ∨ n ∈ idxs m := by
  obtain ⟨e, he, hn⟩ := mem_idxs.mp h
  rcases mem_insertEntry he with h1 | h1
  · left; rw [← hn, h1]
  · right; exact mem_idxs.mpr ⟨e, h1, hn⟩

theorem insertEntry_idxs_fresh {m : List Entry} {key : Identity} {id : Id} {a : Bool}
    (hn : (idxs m).Nodup) (hf : id.idx ∉ idxs m) :
    (idxs (IdentityMap.insertEntry m key id a)).Nodup := by
  induction m with
  | nil => simp [IdentityMap.insertEntry, idxs]
  | cons e rest ih =>
    have hn' : e.id.idx ∉ idxs rest ∧ (idxs rest).Nodup := by
      simpa [idxs, List.nodup_cons] using hn
    have hf' : ¬ id.idx = e.id.idx ∧ id.idx ∉ idxs rest := by
      simpa [idxs, List.mem_cons] using hf
    by_cases hk : e.identity = key
    · simp only [IdentityMap.insertEntry, hk, if_true]
      show (id.idx :: idxs rest).Nodup
      exact List.nodup_cons.mpr ⟨hf'.2, hn'.2⟩
    · simp only [IdentityMap.insertEntry, hk, if_false]
      show (e.id.idx :: idxs (IdentityMap.insertEntry rest key id a)).Nodup
      refine List.nodup_cons.mpr ⟨?_, ih hn'.2 hf'.2⟩
      intro hmem
      rcases mem_idxs_insertEntry hmem with h1 | h1
      · exact hf'.1 h1.symm
      · exact hn'.1 h1

theorem insertEntry_idxs_same {m : List Entry} {key : Identity} {id old : Id} {a : Bool}
    (hfind : IdentityMap.find m key = some old) (hidx : old.idx = id.idx) :
    idxs (IdentityMap.insertEntry m key id a) = idxs m := by
  induction m with
  | nil => simp [IdentityMap.find] at hfind
  | cons e rest ih =>
    by_cases hk : e.identity = key
    · simp [IdentityMap.find, hk] at hfind
      simp only [IdentityMap.insertEntry, hk, if_true]
      show id.idx :: idxs rest = e.id.idx :: idxs rest
      rw [hfind, hidx]
    · simp [IdentityMap.find, hk] at hfind
      simp only [IdentityMap.insertEntry, hk, if_false]
      show e.id.idx :: idxs (IdentityMap.insertEntry rest key id a) = e.id.idx :: idxs rest
      rw [ih hfind]

/-! ### update / allocate / deleteEntity: exact case analyses -/

theorem update_cases {s : State} {cur dur ca : Nat} {id : Id} {fields : Fields}
    {r : State × Option Id} (h : update s cur dur ca id fields = .ok r) :
    ∃ v last, s.slots[id.idx]? = some v ∧ v.updatedAt = some last ∧
      ((last = cur ∧ r = (s, some id)) ∨
       (last ≠ cur ∧ GEN_MAX ≤ id.gen ∧ r = (s, none)) ∨
       (last ≠ cur ∧ id.gen < GEN_MAX ∧
         r = (⟨s.slots.set id.idx (updatedValue v cur dur ca id fields), s.free⟩,
              some (if (updateFields ca v.revs v.fields fields).identityChanged
                    then ⟨id.idx, id.gen + 1⟩ else id)))) := by
  unfold update at h
  split at h
  · cases h
  · rename_i v hv
    split at h
    · cases h
    · rename_i last hl
      refine ⟨v, last, hv, hl, ?_⟩
      by_cases h1 : last = cur
      · simp only [h1, if_true, Except.ok.injEq] at h
        exact Or.inl ⟨h1, h.symm⟩
      · simp only [h1, if_false] at h
        by_cases h2 : GEN_MAX ≤ id.gen
        · simp only [h2, if_true, Except.ok.injEq] at h
          exact Or.inr (Or.inl ⟨h1, h2, h.symm⟩)
        · simp only [h2, if_false, Except.ok.injEq] at h
          exact Or.inr (Or.inr ⟨h1, Nat.lt_of_not_le h2, h.symm⟩)

theorem update_error {s : State} {cur dur ca : Nat} {id : Id} {fields : Fields} {p : Panic}
    (h : update s cur dur ca id fields = .error p) :
    (s.slots[id.idx]? = none ∧ p = .badId) ∨
    (∃ v, s.slots[id.idx]? = some v ∧ v.updatedAt = none ∧ p = .updateWriteLocked) := by
  unfold update at h
  split at h
  · rename_i hv
    cases h; exact Or.inl ⟨hv, rfl⟩
  · rename_i v hv
    split at h
    · rename_i hl
      cases h; exact Or.inr ⟨v, hv, hl, rfl⟩
    · split at h
      · cases h
      · split at h <;> cases h

theorem nextGeneration_some {id id' : Id} (h : id.nextGeneration = some id') :
    id.gen < GEN_MAX ∧ id' = ⟨id.idx, id.gen + 1⟩ := by
  unfold Id.nextGeneration at h
  by_cases hg : id.gen < GEN_MAX
  · simp only [hg, if_true, Option.some.injEq] at h
    exact ⟨hg, h.symm⟩
  · simp [hg] at h

theorem allocLoop_some {g : Nat} {l : List (Nat × Id)} {id' : Id}
    (h : (allocLoop g l).1 = some id') :
    ∃ id0, (g, id0) ∈ l ∧ id0.gen < GEN_MAX ∧ id' = ⟨id0.idx, id0.gen + 1⟩ := by
  induction l with
  | nil => simp [allocLoop] at h
  | cons p rest ih =>
    obtain ⟨g', id⟩ := p
    unfold allocLoop at h
    by_cases hg : g' = g
    · simp only [hg, if_true] at h
      split at h
      · rename_i id1 hnext
        simp only [Option.some.injEq] at h
        obtain ⟨h1, h2⟩ := nextGeneration_some hnext
        exact ⟨id, by simp [hg], h1, by rw [← h, h2]⟩
      · obtain ⟨id0, h0, h1⟩ := ih h
        exact ⟨id0, List.mem_cons_of_mem _ h0, h1⟩
    · simp only [hg, if_false] at h
      obtain ⟨id0, h0, h1⟩ := ih h
      exact ⟨id0, List.mem_cons_of_mem _ h0, h1⟩

theorem allocLoop_sublist (g : Nat) (l : List (Nat × Id)) : (allocLoop g l).2.Sublist l := by
  induction l with
  | nil => simp [allocLoop]
  | cons p rest ih =>
    obtain ⟨g', id⟩ := p
    unfold allocLoop
    by_cases hg : g' = g
    · simp only [hg, if_true]
      split
      · exact List.Sublist.cons _ (List.Sublist.refl _)
      · exact List.Sublist.cons _ ih
    · simp only [hg, if_false]
      exact List.Sublist.cons_cons _ ih

/-- slot indices of the free-list entries -/
def freeIdxs (l : List (Nat × Id)) : List Nat := l.map (fun p => p.2.idx)

theorem mem_freeIdxs {l : List (Nat × Id)} {n : Nat} :
    n ∈ freeIdxs l ↔ ∃ p, p ∈ l ∧ p.2.idx = n := by
  simp [freeIdxs, List.mem_map]

theorem allocLoop_idx_notin {g : Nat} {l : List (Nat × Id)} {id' : Id}
    (hn : (freeIdxs l).Nodup) (h : (allocLoop g l).1 = some id') :
    id'.idx ∉ freeIdxs (allocLoop g l).2 := by
  induction l with
  | nil => simp [allocLoop] at h
  | cons p rest ih =>
    obtain ⟨g', id⟩ := p
    have hn' : id.idx ∉ freeIdxs rest ∧ (freeIdxs rest).Nodup := by
      simpa [freeIdxs, List.nodup_cons] using hn
    unfold allocLoop at h ⊢
    by_cases hg : g' = g
    · simp only [hg, if_true] at h ⊢
      split at h
      · rename_i id1 hnext
        simp only [Option.some.injEq] at h
        obtain ⟨_, h2⟩ := nextGeneration_some hnext
        show ¬ id'.idx ∈ freeIdxs rest
        rw [← h, h2]
        exact hn'.1
      · rename_i hnext
        exact ih hn'.2 h
    · simp only [hg, if_false] at h ⊢
      have h1 := ih hn'.2 h
      obtain ⟨id0, hmem, _, hid⟩ := allocLoop_some h
      intro hc
      have hc' : id'.idx = id.idx ∨ id'.idx ∈ freeIdxs (allocLoop g rest).2 := by
        simpa [freeIdxs, List.mem_cons] using hc
      rcases hc' with hc' | hc'
      · apply hn'.1
        rw [← hc', hid]
        exact mem_freeIdxs.mpr ⟨(g, id0), hmem, rfl⟩
      · exact h1 hc'

theorem allocate_cases {s s2 : State} {cur dur ca g : Nat} {fields : Fields} {id2 : Id}
    (h : allocate s cur dur ca g fields = .ok (s2, id2)) :
    s2.free = (allocLoop g s.free).2 ∧
    ((∃ id0 v0, (g, id0) ∈ s.free ∧ id0.gen < GEN_MAX ∧ id2 = ⟨id0.idx, id0.gen + 1⟩ ∧
        (allocLoop g s.free).1 = some id2 ∧ s.slots[id2.idx]? = some v0 ∧
        s2.slots = s.slots.set id2.idx (newValue id2.gen cur dur ca fields)) ∨
     ((allocLoop g s.free).1 = none ∧ id2 = ⟨s.slots.length, 0⟩ ∧
        s2.slots = s.slots ++ [newValue 0 cur dur ca fields])) := by
  unfold allocate at h
  split at h
  · rename_i id hloop
    split at h
    · cases h
    · rename_i v0 hv0
      simp only [Except.ok.injEq, Prod.mk.injEq] at h
      obtain ⟨hs, hid⟩ := h
      subst hid
      obtain ⟨id0, hmem, hlt, hid⟩ := allocLoop_some hloop
      refine ⟨by rw [← hs], Or.inl ⟨id0, v0, hmem, hlt, hid, hloop, hv0, by rw [← hs]⟩⟩
  · rename_i hloop
    simp only [Except.ok.injEq, Prod.mk.injEq] at h
    obtain ⟨hs, hid⟩ := h
    exact ⟨by rw [← hs], Or.inr ⟨hloop, hid.symm, by rw [← hs]⟩⟩

theorem allocate_error {s : State} {cur dur ca g : Nat} {fields : Fields} {p : Panic}
    (h : allocate s cur dur ca g fields = .error p) :
    p = .badId ∧ ∃ id, (allocLoop g s.free).1 = some id ∧ s.slots[id.idx]? = none := by
  unfold allocate at h
  split at h
  · rename_i id hloop
    split at h
    · rename_i hv; cases h; exact ⟨rfl, id, hloop, hv⟩
    · cases h
  · cases h

theorem deleteEntity_cases {s s' : State} {cur g : Nat} {id : Id}
    (h : deleteEntity s cur g id = .ok s') :
    ∃ v r, s.slots[id.idx]? = some v ∧ v.updatedAt = some r ∧ r ≠ cur ∧
      s' = ⟨s.slots.set id.idx { v with updatedAt := none, memos := [] }, s.free ++ [(g, id)]⟩ := by
  unfold deleteEntity at h
  split at h
  · cases h
  · rename_i v hv
    split at h
    · cases h
    · rename_i r hr
      by_cases hc : r = cur
      · simp [hc] at h
      · simp only [hc, if_false, Except.ok.injEq] at h
        exact ⟨v, r, hv, hr, hc, h.symm⟩

theorem readField_cases {s s' : State} {cur idx : Nat} (h : readField s cur idx = .ok s') :
    ∃ v r, s.slots[idx]? = some v ∧ v.updatedAt = some r ∧
      s' = ⟨s.slots.set idx { v with updatedAt := some cur }, s.free⟩ := by
  unfold readField at h
  split at h
  · cases h
  · rename_i v hv
    split at h
    · cases h
    · rename_i r hr
      simp only [Except.ok.injEq] at h
      exact ⟨v, r, hv, hr, h.symm⟩

theorem addMemo_cases {s s' : State} {idx payload : Nat} (h : addMemo s idx payload = .ok s') :
    ∃ v r, s.slots[idx]? = some v ∧ v.updatedAt = some r ∧
      s' = ⟨s.slots.set idx { v with memos := ⟨payload, v.gen⟩ :: v.memos }, s.free⟩ := by
  unfold addMemo at h
  split at h
  · cases h
  · rename_i v hv
    split at h
    · cases h
    · rename_i r hr
      simp only [Except.ok.injEq] at h
      exact ⟨v, r, hv, hr, h.symm⟩

/-! ### newStruct: exact case analysis -/

/-- the identity map after the `reuse` lookup of `new_struct` -/
def nsM1 (hash : Nat → Nat) (f : Frame) (g : Nat) (fields : Fields) : List Entry :=
  IdentityMap.markActive f.idmap (newIdentity hash f g fields)

theorem newStruct_cases {hash : Nat → Nat} {cur dur ca g : Nat} {fields : Fields} {f : Frame}
    {s : State} {out : NewStruct} (h : newStruct hash cur dur ca g fields f s = .ok out) :
    out.identity = newIdentity hash f g fields ∧
    out.frame.disamb = (DisambiguatorMap.disambiguate f.disamb (g, hash fields.idv)).1 ∧
    ( -- A: hit, already updated (read-locked) in this revision: nothing is touched
      (∃ id v, IdentityMap.find f.idmap (newIdentity hash f g fields) = some id ∧
          s.slots[id.idx]? = some v ∧ v.updatedAt = some cur ∧
          out.frame.idmap = nsM1 hash f g fields ∧ out.state = s ∧ out.id = id)
    ∨ -- B: hit, generation exhausted: the old slot is leaked, a new one allocated
      (∃ id v last s2 id2, IdentityMap.find f.idmap (newIdentity hash f g fields) = some id ∧
          s.slots[id.idx]? = some v ∧ v.updatedAt = some last ∧ last ≠ cur ∧ GEN_MAX ≤ id.gen ∧
          allocate s cur dur ca g fields = .ok (s2, id2) ∧
          out.frame.idmap
            = IdentityMap.insertEntry (nsM1 hash f g fields) (newIdentity hash f g fields) id2 true ∧
          out.state = s2 ∧ out.id = id2)
    ∨ -- C: hit, updated in place
      (∃ id v last, IdentityMap.find f.idmap (newIdentity hash f g fields) = some id ∧
          s.slots[id.idx]? = some v ∧ v.updatedAt = some last ∧ last ≠ cur ∧ id.gen < GEN_MAX ∧
          out.state = ⟨s.slots.set id.idx (updatedValue v cur dur ca id fields), s.free⟩ ∧
          (((updateFields ca v.revs v.fields fields).identityChanged = false ∧ out.id = id ∧
              out.frame.idmap = nsM1 hash f g fields) ∨
           ((updateFields ca v.revs v.fields fields).identityChanged = true ∧
              out.id = ⟨id.idx, id.gen + 1⟩ ∧
              out.frame.idmap = IdentityMap.insertEntry (nsM1 hash f g fields)
                (newIdentity hash f g fields) ⟨id.idx, id.gen + 1⟩ true)))
    ∨ -- D: miss
      (IdentityMap.find f.idmap (newIdentity hash f g fields) = none ∧
        ∃ s2 id2, allocate s cur dur ca g fields = .ok (s2, id2) ∧
          out.frame.idmap
            = IdentityMap.insertEntry (nsM1 hash f g fields) (newIdentity hash f g fields) id2 true ∧
          out.state = s2 ∧ out.id = id2)) := by
  unfold newStruct at h
  simp only [IdentityMap.reuse] at h
  split at h
  · rename_i id hfind
    split at h
    · cases h
    · rename_i s1 id1 hupd
      obtain ⟨v, last, hv, hl, hcase⟩ := update_cases hupd
      rcases hcase with ⟨h1, h2⟩ | ⟨h1, _, h2⟩ | ⟨h1, hlt, h2⟩
      · -- A
        simp only [Prod.mk.injEq, Option.some.injEq] at h2
        obtain ⟨hs, hid⟩ := h2
        subst hs; subst hid
        simp only [ne_eq, not_true_eq_false, if_false, Except.ok.injEq] at h
        subst h
        exact ⟨rfl, rfl, Or.inl ⟨id1, v, hfind, hv, by rw [hl, h1], rfl, rfl, rfl⟩⟩
      · simp at h2
      · -- C
        simp only [Prod.mk.injEq, Option.some.injEq] at h2
        obtain ⟨hs, hid⟩ := h2
        cases hch : (updateFields ca v.revs v.fields fields).identityChanged
        · simp only [hch, Bool.false_eq_true, if_false] at hid
          subst hid
          simp only [ne_eq, not_true_eq_false, if_false, Except.ok.injEq] at h
          subst h
          exact ⟨rfl, rfl, Or.inr (Or.inr (Or.inl ⟨id1, v, last, hfind, hv, hl, h1, hlt, hs,
            Or.inl ⟨rfl, rfl, rfl⟩⟩))⟩
        · simp only [hch, if_true] at hid
          have hne : id1 ≠ id := by
            intro heq
            have := congrArg Id.gen heq
            rw [hid] at this
            simp at this
          simp only [ne_eq, hne, not_false_eq_true, if_true, Except.ok.injEq] at h
          subst h
          exact ⟨rfl, rfl, Or.inr (Or.inr (Or.inl ⟨id, v, last, hfind, hv, hl, h1, hlt, hs,
            Or.inr ⟨rfl, hid, by rw [hid]⟩⟩))⟩
    · rename_i s1 hupd
      obtain ⟨v, last, hv, hl, hcase⟩ := update_cases hupd
      rcases hcase with ⟨_, h2⟩ | ⟨h1, hge, h2⟩ | ⟨_, _, h2⟩
      · simp at h2
      · simp only [Prod.mk.injEq, and_true] at h2
        subst h2
        split at h
        · cases h
        · rename_i s2 id2 halloc
          simp only [Except.ok.injEq] at h
          subst h
          exact ⟨rfl, rfl, Or.inr (Or.inl ⟨id, v, last, s2, id2, hfind, hv, hl, h1, hge, halloc,
            rfl, rfl, rfl⟩)⟩
      · simp at h2
  · rename_i hfind
    split at h
    · cases h
    · rename_i s2 id2 halloc
      simp only [Except.ok.injEq] at h
      subst h
      exact ⟨rfl, rfl, Or.inr (Or.inr (Or.inr ⟨hfind, s2, id2, halloc, rfl, rfl, rfl⟩))⟩

end SalsaVerif.Proofs.Structs
