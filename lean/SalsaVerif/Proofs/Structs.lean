/-
  Helper lemmas and invariants for the tracked-struct model (`Model/Structs.lean`).
  The property theorems `c06_*` are in `Props/C06.lean`; the lemmas `c07s_*` at the end of this
  file are re-exported by `Props/C07.lean`.
-/
import SalsaVerif.Model.Structs

namespace SalsaVerif.Proofs.Structs
open SalsaVerif.Model.Structs

/-! ### DisambiguatorMap -/

theorem dget_set (d : List ((Nat × Nat) × Nat)) (key : Nat × Nat) (v : Nat) (key' : Nat × Nat) :
    DisambiguatorMap.get (DisambiguatorMap.set d key v) key'
      = if key = key' then v else DisambiguatorMap.get d key' := by
  induction d with
  | nil => simp [DisambiguatorMap.set, DisambiguatorMap.get]
  | cons p rest ih =>
    obtain ⟨k, v'⟩ := p
    by_cases hk : k = key
    · subst hk
      simp only [DisambiguatorMap.set, DisambiguatorMap.get, if_true]
      by_cases hk' : k = key' <;> simp [hk']
    · by_cases hk' : k = key'
      · subst hk'
        simp [DisambiguatorMap.set, DisambiguatorMap.get, hk, Ne.symm hk]
      · simp [DisambiguatorMap.set, DisambiguatorMap.get, hk, hk', ih]

/-- the key of the disambiguator map used by a creation -/
def keyOf (hash : Nat → Nat) (c : Creation) : Nat × Nat := (c.ingr, hash c.fields.idv)

/-- number of creations in `cs` with disambiguator key `key` -/
def countKey (hash : Nat → Nat) (key : Nat × Nat) : List Creation → Nat
  | [] => 0
  | c :: rest => (if keyOf hash c = key then 1 else 0) + countKey hash key rest


/-! ### IdentityMap -/

theorem find_markActive (m : List Entry) (key key' : Identity) :
    IdentityMap.find (IdentityMap.markActive m key) key' = IdentityMap.find m key' := by
  induction m with
  | nil => rfl
  | cons e rest ih =>
    by_cases hk : e.identity = key
    · simp [IdentityMap.markActive, IdentityMap.find, hk]
    · simp [IdentityMap.markActive, IdentityMap.find, hk, ih]

theorem find_insertEntry (m : List Entry) (key : Identity) (id : Id) (a : Bool) (key' : Identity) :
    IdentityMap.find (IdentityMap.insertEntry m key id a) key'
      = if key = key' then some id else IdentityMap.find m key' := by
  induction m with
  | nil => simp [IdentityMap.insertEntry, IdentityMap.find]
  | cons e rest ih =>
    by_cases hk : e.identity = key
    · simp only [IdentityMap.insertEntry, hk, if_true, IdentityMap.find]
      by_cases hk' : key = key' <;> simp [hk']
    · simp only [IdentityMap.insertEntry, hk, if_false, IdentityMap.find, ih]
      by_cases hk' : e.identity = key'
      · have : ¬ key = key' := fun h => hk (h ▸ hk')
        simp [hk', this]
      · simp [hk']

theorem ids_markActive (m : List Entry) (key : Identity) :
    (IdentityMap.markActive m key).map (fun e => e.id) = m.map (fun e => e.id) := by
  induction m with
  | nil => rfl
  | cons e rest ih =>
    by_cases hk : e.identity = key
    · simp [IdentityMap.markActive, hk]
    · simp [IdentityMap.markActive, hk, ih]

theorem mem_markActive {m : List Entry} {key : Identity} {e : Entry}
    (h : e ∈ IdentityMap.markActive m key) :
    ∃ e0, e0 ∈ m ∧ e.identity = e0.identity ∧ e.id = e0.id ∧ (e.active = e0.active ∨ e.identity = key) := by
  induction m with
  | nil => simp [IdentityMap.markActive] at h
  | cons e1 rest ih =>
    by_cases hk : e1.identity = key
    · simp only [IdentityMap.markActive, hk, if_true, List.mem_cons] at h
      rcases h with h | h
      · exact ⟨e1, List.mem_cons_self, by simp [h, hk], by simp [h], Or.inr (by simp [h])⟩
      · exact ⟨e, List.mem_cons_of_mem _ h, rfl, rfl, Or.inl rfl⟩
    · simp only [IdentityMap.markActive, hk, if_false, List.mem_cons] at h
      rcases h with h | h
      · exact ⟨e1, List.mem_cons_self, by simp [h], by simp [h], Or.inl (by simp [h])⟩
      · obtain ⟨e0, h0, h1⟩ := ih h
        exact ⟨e0, List.mem_cons_of_mem _ h0, h1⟩

theorem mem_insertEntry {m : List Entry} {key : Identity} {id : Id} {a : Bool} {e : Entry}
    (h : e ∈ IdentityMap.insertEntry m key id a) : e = ⟨key, id, a⟩ ∨ e ∈ m := by
  induction m with
  | nil => simp [IdentityMap.insertEntry] at h; exact Or.inl h
  | cons e1 rest ih =>
    by_cases hk : e1.identity = key
    · simp only [IdentityMap.insertEntry, hk, if_true, List.mem_cons] at h
      rcases h with h | h
      · exact Or.inl h
      · exact Or.inr (List.mem_cons_of_mem _ h)
    · simp only [IdentityMap.insertEntry, hk, if_false, List.mem_cons] at h
      rcases h with h | h
      · exact Or.inr (by simp [h])
      · rcases ih h with h1 | h1
        · exact Or.inl h1
        · exact Or.inr (List.mem_cons_of_mem _ h1)

/-- slot indices of the entries of an identity map, in entry order -/
def idxs (m : List Entry) : List Nat := m.map (fun e => e.id.idx)

theorem idxs_markActive (m : List Entry) (key : Identity) :
    idxs (IdentityMap.markActive m key) = idxs m := by
  induction m with
  | nil => rfl
  | cons e rest ih =>
    by_cases hk : e.identity = key
    · simp [IdentityMap.markActive, hk, idxs]
    · simp only [IdentityMap.markActive, hk, if_false]
      show e.id.idx :: idxs (IdentityMap.markActive rest key) = e.id.idx :: idxs rest
      rw [ih]

theorem find_some_mem {m : List Entry} {key : Identity} {id : Id}
    (h : IdentityMap.find m key = some id) : ∃ e, e ∈ m ∧ e.identity = key ∧ e.id = id := by
  induction m with
  | nil => simp [IdentityMap.find] at h
  | cons e rest ih =>
    by_cases hk : e.identity = key
    · simp [IdentityMap.find, hk] at h
      exact ⟨e, List.mem_cons_self, hk, h⟩
    · simp [IdentityMap.find, hk] at h
      obtain ⟨e0, h0, h1⟩ := ih h
      exact ⟨e0, List.mem_cons_of_mem _ h0, h1⟩

theorem find_none_not_mem {m : List Entry} {key : Identity}
    (h : IdentityMap.find m key = none) : ∀ e, e ∈ m → e.identity ≠ key := by
  induction m with
  | nil => intro e he; simp at he
  | cons e rest ih =>
    by_cases hk : e.identity = key
    · simp [IdentityMap.find, hk] at h
    · simp [IdentityMap.find, hk] at h
      intro e0 he0
      rcases List.mem_cons.mp he0 with h1 | h1
      · rw [h1]; exact hk
      · exact ih h e0 h1

theorem mem_idxs {m : List Entry} {n : Nat} : n ∈ idxs m ↔ ∃ e, e ∈ m ∧ e.id.idx = n := by
  simp [idxs, List.mem_map]

theorem find_idx_mem {m : List Entry} {key : Identity} {id : Id}
    (h : IdentityMap.find m key = some id) : id.idx ∈ idxs m := by
  obtain ⟨e, he, _, hid⟩ := find_some_mem h
  exact mem_idxs.mpr ⟨e, he, by rw [hid]⟩

theorem find_idx_ne {m : List Entry} {k1 k2 : Identity} {a b : Id} (hn : (idxs m).Nodup)
    (h1 : IdentityMap.find m k1 = some a) (h2 : IdentityMap.find m k2 = some b) (hk : k1 ≠ k2) :
    a.idx ≠ b.idx := by
  induction m with
  | nil => simp [IdentityMap.find] at h1
  | cons e rest ih =>
    have hn' : e.id.idx ∉ idxs rest ∧ (idxs rest).Nodup := by
      simpa [idxs, List.nodup_cons] using hn
    by_cases hk1 : e.identity = k1
    · have hk2 : ¬ e.identity = k2 := fun h => hk (hk1 ▸ h)
      simp [IdentityMap.find, hk1] at h1
      simp [IdentityMap.find, hk2] at h2
      have := find_idx_mem h2
      intro heq
      apply hn'.1
      rw [h1, heq]; exact this
    · simp [IdentityMap.find, hk1] at h1
      by_cases hk2 : e.identity = k2
      · simp [IdentityMap.find, hk2] at h2
        have := find_idx_mem h1
        intro heq
        apply hn'.1
        rw [h2, ← heq]; exact this
      · simp [IdentityMap.find, hk2] at h2
        exact ih hn'.2 h1 h2

theorem mem_idxs_insertEntry {m : List Entry} {key : Identity} {id : Id} {a : Bool} {n : Nat}
    (h : n ∈ idxs (IdentityMap.insertEntry m key id a)) : n = id.idx ∨ n ∈ idxs m := by
  obtain ⟨e, he, hn⟩ := mem_idxs.mp h
  rcases mem_insertEntry he with h1 | h1
  · left; rw [← hn, h1]
  · right; exact mem_idxs.mpr ⟨e, h1, hn⟩

theorem insertEntry_idxs_fresh {m : List Entry} {key : Identity} {id : Id} {a : Bool}
    (hn : (idxs m).Nodup) (hf : id.idx ∉ idxs m) :
    (idxs (IdentityMap.insertEntry m key id a)).Nodup := by
  induction m with
  | nil => simp [IdentityMap.insertEntry, idxs]
  | cons e rest ih =>
    have hn' : e.id.idx ∉ idxs rest ∧ (idxs rest).Nodup := by
      simpa [idxs, List.nodup_cons] using hn
    have hf' : ¬ id.idx = e.id.idx ∧ id.idx ∉ idxs rest := by
      simpa [idxs, List.mem_cons] using hf
    by_cases hk : e.identity = key
    · simp only [IdentityMap.insertEntry, hk, if_true]
      show (id.idx :: idxs rest).Nodup
      exact List.nodup_cons.mpr ⟨hf'.2, hn'.2⟩
    · simp only [IdentityMap.insertEntry, hk, if_false]
      show (e.id.idx :: idxs (IdentityMap.insertEntry rest key id a)).Nodup
      refine List.nodup_cons.mpr ⟨?_, ih hn'.2 hf'.2⟩
      intro hmem
      rcases mem_idxs_insertEntry hmem with h1 | h1
      · exact hf'.1 h1.symm
      · exact hn'.1 h1

theorem insertEntry_idxs_same {m : List Entry} {key : Identity} {id old : Id} {a : Bool}
    (hfind : IdentityMap.find m key = some old) (hidx : old.idx = id.idx) :
    idxs (IdentityMap.insertEntry m key id a) = idxs m := by
  induction m with
  | nil => simp [IdentityMap.find] at hfind
  | cons e rest ih =>
    by_cases hk : e.identity = key
    · simp [IdentityMap.find, hk] at hfind
      simp only [IdentityMap.insertEntry, hk, if_true]
      show id.idx :: idxs rest = e.id.idx :: idxs rest
      rw [hfind, hidx]
    · simp [IdentityMap.find, hk] at hfind
      simp only [IdentityMap.insertEntry, hk, if_false]
      show e.id.idx :: idxs (IdentityMap.insertEntry rest key id a) = e.id.idx :: idxs rest
      rw [ih hfind]

/-! ### update / allocate / deleteEntity: exact case analyses -/

theorem update_cases {s : State} {cur dur ca : Nat} {id : Id} {fields : Fields}
    {r : State × Option Id} (h : update s cur dur ca id fields = .ok r) :
    ∃ v last, s.slots[id.idx]? = some v ∧ v.updatedAt = some last ∧
      ((last = cur ∧ r = (s, some id)) ∨
       (last ≠ cur ∧ GEN_MAX ≤ id.gen ∧ r = (s, none)) ∨
       (last ≠ cur ∧ id.gen < GEN_MAX ∧
         r = (⟨s.slots.set id.idx (updatedValue v cur dur ca id fields), s.free⟩,
              some (if (updateFields ca v.revs v.fields fields).identityChanged
                    then ⟨id.idx, id.gen + 1⟩ else id)))) := by
  unfold update at h
  split at h
  · cases h
  · rename_i v hv
    split at h
    · cases h
    · rename_i last hl
      refine ⟨v, last, hv, hl, ?_⟩
      by_cases h1 : last = cur
      · simp only [h1, if_true, Except.ok.injEq] at h
        exact Or.inl ⟨h1, h.symm⟩
      · simp only [h1, if_false] at h
        by_cases h2 : GEN_MAX ≤ id.gen
        · simp only [h2, if_true, Except.ok.injEq] at h
          exact Or.inr (Or.inl ⟨h1, h2, h.symm⟩)
        · simp only [h2, if_false, Except.ok.injEq] at h
          exact Or.inr (Or.inr ⟨h1, Nat.lt_of_not_le h2, h.symm⟩)

theorem update_error {s : State} {cur dur ca : Nat} {id : Id} {fields : Fields} {p : Panic}
    (h : update s cur dur ca id fields = .error p) :
    (s.slots[id.idx]? = none ∧ p = .badId) ∨
    (∃ v, s.slots[id.idx]? = some v ∧ v.updatedAt = none ∧ p = .updateWriteLocked) := by
  unfold update at h
  split at h
  · rename_i hv
    cases h; exact Or.inl ⟨hv, rfl⟩
  · rename_i v hv
    split at h
    · rename_i hl
      cases h; exact Or.inr ⟨v, hv, hl, rfl⟩
    · split at h
      · cases h
      · split at h <;> cases h

theorem nextGeneration_some {id id' : Id} (h : id.nextGeneration = some id') :
    id.gen < GEN_MAX ∧ id' = ⟨id.idx, id.gen + 1⟩ := by
  unfold Id.nextGeneration at h
  by_cases hg : id.gen < GEN_MAX
  · simp only [hg, if_true, Option.some.injEq] at h
    exact ⟨hg, h.symm⟩
  · simp [hg] at h

theorem allocLoop_some {g : Nat} {l : List (Nat × Id)} {id' : Id}
    (h : (allocLoop g l).1 = some id') :
    ∃ id0, (g, id0) ∈ l ∧ id0.gen < GEN_MAX ∧ id' = ⟨id0.idx, id0.gen + 1⟩ := by
  induction l with
  | nil => simp [allocLoop] at h
  | cons p rest ih =>
    obtain ⟨g', id⟩ := p
    unfold allocLoop at h
    by_cases hg : g' = g
    · simp only [hg, if_true] at h
      split at h
      · rename_i id1 hnext
        simp only [Option.some.injEq] at h
        obtain ⟨h1, h2⟩ := nextGeneration_some hnext
        exact ⟨id, by simp [hg], h1, by rw [← h, h2]⟩
      · obtain ⟨id0, h0, h1⟩ := ih h
        exact ⟨id0, List.mem_cons_of_mem _ h0, h1⟩
    · simp only [hg, if_false] at h
      obtain ⟨id0, h0, h1⟩ := ih h
      exact ⟨id0, List.mem_cons_of_mem _ h0, h1⟩

theorem allocLoop_sublist (g : Nat) (l : List (Nat × Id)) : (allocLoop g l).2.Sublist l := by
  induction l with
  | nil => simp [allocLoop]
  | cons p rest ih =>
    obtain ⟨g', id⟩ := p
    unfold allocLoop
    by_cases hg : g' = g
    · simp only [hg, if_true]
      split
      · exact List.Sublist.cons _ (List.Sublist.refl _)
      · exact List.Sublist.cons _ ih
    · simp only [hg, if_false]
      exact List.Sublist.cons_cons _ ih

/-- slot indices of the free-list entries -/
def freeIdxs (l : List (Nat × Id)) : List Nat := l.map (fun p => p.2.idx)

theorem mem_freeIdxs {l : List (Nat × Id)} {n : Nat} :
    n ∈ freeIdxs l ↔ ∃ p, p ∈ l ∧ p.2.idx = n := by
  simp [freeIdxs, List.mem_map]

theorem allocLoop_idx_notin {g : Nat} {l : List (Nat × Id)} {id' : Id}
    (hn : (freeIdxs l).Nodup) (h : (allocLoop g l).1 = some id') :
    id'.idx ∉ freeIdxs (allocLoop g l).2 := by
  induction l with
  | nil => simp [allocLoop] at h
  | cons p rest ih =>
    obtain ⟨g', id⟩ := p
    have hn' : id.idx ∉ freeIdxs rest ∧ (freeIdxs rest).Nodup := by
      simpa [freeIdxs, List.nodup_cons] using hn
    unfold allocLoop at h ⊢
    by_cases hg : g' = g
    · simp only [hg, if_true] at h ⊢
      split at h
      · rename_i id1 hnext
        simp only [Option.some.injEq] at h
        obtain ⟨_, h2⟩ := nextGeneration_some hnext
        show ¬ id'.idx ∈ freeIdxs rest
        rw [← h, h2]
        exact hn'.1
      · rename_i hnext
        exact ih hn'.2 h
    · simp only [hg, if_false] at h ⊢
      have h1 := ih hn'.2 h
      obtain ⟨id0, hmem, _, hid⟩ := allocLoop_some h
      intro hc
      have hc' : id'.idx = id.idx ∨ id'.idx ∈ freeIdxs (allocLoop g rest).2 := by
        simpa [freeIdxs, List.mem_cons] using hc
      rcases hc' with hc' | hc'
      · apply hn'.1
        rw [← hc', hid]
        exact mem_freeIdxs.mpr ⟨(g, id0), hmem, rfl⟩
      · exact h1 hc'

theorem allocate_cases {s s2 : State} {cur dur ca g : Nat} {fields : Fields} {id2 : Id}
    (h : allocate s cur dur ca g fields = .ok (s2, id2)) :
    s2.free = (allocLoop g s.free).2 ∧
    ((∃ id0 v0, (g, id0) ∈ s.free ∧ id0.gen < GEN_MAX ∧ id2 = ⟨id0.idx, id0.gen + 1⟩ ∧
        (allocLoop g s.free).1 = some id2 ∧ s.slots[id2.idx]? = some v0 ∧
        s2.slots = s.slots.set id2.idx (newValue id2.gen cur dur ca fields)) ∨
     ((allocLoop g s.free).1 = none ∧ id2 = ⟨s.slots.length, 0⟩ ∧
        s2.slots = s.slots ++ [newValue 0 cur dur ca fields])) := by
  unfold allocate at h
  split at h
  · rename_i id hloop
    split at h
    · cases h
    · rename_i v0 hv0
      simp only [Except.ok.injEq, Prod.mk.injEq] at h
      obtain ⟨hs, hid⟩ := h
      subst hid
      obtain ⟨id0, hmem, hlt, hid⟩ := allocLoop_some hloop
      refine ⟨by rw [← hs], Or.inl ⟨id0, v0, hmem, hlt, hid, hloop, hv0, by rw [← hs]⟩⟩
  · rename_i hloop
    simp only [Except.ok.injEq, Prod.mk.injEq] at h
    obtain ⟨hs, hid⟩ := h
    exact ⟨by rw [← hs], Or.inr ⟨hloop, hid.symm, by rw [← hs]⟩⟩

theorem allocate_error {s : State} {cur dur ca g : Nat} {fields : Fields} {p : Panic}
    (h : allocate s cur dur ca g fields = .error p) :
    p = .badId ∧ ∃ id, (allocLoop g s.free).1 = some id ∧ s.slots[id.idx]? = none := by
  unfold allocate at h
  split at h
  · rename_i id hloop
    split at h
    · rename_i hv; cases h; exact ⟨rfl, id, hloop, hv⟩
    · cases h
  · cases h

theorem deleteEntity_cases {s s' : State} {cur g : Nat} {id : Id}
    (h : deleteEntity s cur g id = .ok s') :
    ∃ v r, s.slots[id.idx]? = some v ∧ v.updatedAt = some r ∧ r ≠ cur ∧
      s' = ⟨s.slots.set id.idx { v with updatedAt := none, memos := [] }, s.free ++ [(g, id)]⟩ := by
  unfold deleteEntity at h
  split at h
  · cases h
  · rename_i v hv
    split at h
    · cases h
    · rename_i r hr
      by_cases hc : r = cur
      · simp [hc] at h
      · simp only [hc, if_false, Except.ok.injEq] at h
        exact ⟨v, r, hv, hr, hc, h.symm⟩

theorem readField_cases {s s' : State} {cur idx : Nat} (h : readField s cur idx = .ok s') :
    ∃ v r, s.slots[idx]? = some v ∧ v.updatedAt = some r ∧
      s' = ⟨s.slots.set idx { v with updatedAt := some cur }, s.free⟩ := by
  unfold readField at h
  split at h
  · cases h
  · rename_i v hv
    split at h
    · cases h
    · rename_i r hr
      simp only [Except.ok.injEq] at h
      exact ⟨v, r, hv, hr, h.symm⟩

theorem addMemo_cases {s s' : State} {idx payload : Nat} (h : addMemo s idx payload = .ok s') :
    ∃ v r, s.slots[idx]? = some v ∧ v.updatedAt = some r ∧
      s' = ⟨s.slots.set idx { v with memos := ⟨payload, v.gen⟩ :: v.memos }, s.free⟩ := by
  unfold addMemo at h
  split at h
  · cases h
  · rename_i v hv
    split at h
    · cases h
    · rename_i r hr
      simp only [Except.ok.injEq] at h
      exact ⟨v, r, hv, hr, h.symm⟩

/-! ### newStruct: exact case analysis -/

/-- the identity map after the `reuse` lookup of `new_struct` -/
def nsM1 (hash : Nat → Nat) (f : Frame) (g : Nat) (fields : Fields) : List Entry :=
  IdentityMap.markActive f.idmap (newIdentity hash f g fields)

theorem newStruct_cases {hash : Nat → Nat} {cur dur ca g : Nat} {fields : Fields} {f : Frame}
    {s : State} {out : NewStruct} (h : newStruct hash cur dur ca g fields f s = .ok out) :
    out.identity = newIdentity hash f g fields ∧
    out.frame.disamb = (DisambiguatorMap.disambiguate f.disamb (g, hash fields.idv)).1 ∧
    ( -- A: hit, already updated (read-locked) in this revision: nothing is touched
      (∃ id v, IdentityMap.find f.idmap (newIdentity hash f g fields) = some id ∧
          s.slots[id.idx]? = some v ∧ v.updatedAt = some cur ∧
          out.frame.idmap = nsM1 hash f g fields ∧ out.state = s ∧ out.id = id)
    ∨ -- B: hit, generation exhausted: the old slot is leaked, a new one allocated
      (∃ id v last s2 id2, IdentityMap.find f.idmap (newIdentity hash f g fields) = some id ∧
          s.slots[id.idx]? = some v ∧ v.updatedAt = some last ∧ last ≠ cur ∧ GEN_MAX ≤ id.gen ∧
          allocate s cur dur ca g fields = .ok (s2, id2) ∧
          out.frame.idmap
            = IdentityMap.insertEntry (nsM1 hash f g fields) (newIdentity hash f g fields) id2 true ∧
          out.state = s2 ∧ out.id = id2)
    ∨ -- C: hit, updated in place
      (∃ id v last, IdentityMap.find f.idmap (newIdentity hash f g fields) = some id ∧
          s.slots[id.idx]? = some v ∧ v.updatedAt = some last ∧ last ≠ cur ∧ id.gen < GEN_MAX ∧
          out.state = ⟨s.slots.set id.idx (updatedValue v cur dur ca id fields), s.free⟩ ∧
          (((updateFields ca v.revs v.fields fields).identityChanged = false ∧ out.id = id ∧
              out.frame.idmap = nsM1 hash f g fields) ∨
           ((updateFields ca v.revs v.fields fields).identityChanged = true ∧
              out.id = ⟨id.idx, id.gen + 1⟩ ∧
              out.frame.idmap = IdentityMap.insertEntry (nsM1 hash f g fields)
                (newIdentity hash f g fields) ⟨id.idx, id.gen + 1⟩ true)))
    ∨ -- D: miss
      (IdentityMap.find f.idmap (newIdentity hash f g fields) = none ∧
        ∃ s2 id2, allocate s cur dur ca g fields = .ok (s2, id2) ∧
          out.frame.idmap
            = IdentityMap.insertEntry (nsM1 hash f g fields) (newIdentity hash f g fields) id2 true ∧
          out.state = s2 ∧ out.id = id2)) := by
  unfold newStruct at h
  simp only [IdentityMap.reuse] at h
  split at h
  · rename_i id hfind
    split at h
    · cases h
    · rename_i s1 id1 hupd
      obtain ⟨v, last, hv, hl, hcase⟩ := update_cases hupd
      rcases hcase with ⟨h1, h2⟩ | ⟨h1, _, h2⟩ | ⟨h1, hlt, h2⟩
      · -- A
        simp only [Prod.mk.injEq, Option.some.injEq] at h2
        obtain ⟨hs, hid⟩ := h2
        subst hs; subst hid
        simp only [ne_eq, not_true_eq_false, if_false, Except.ok.injEq] at h
        subst h
        exact ⟨rfl, rfl, Or.inl ⟨id1, v, hfind, hv, by rw [hl, h1], rfl, rfl, rfl⟩⟩
      · simp at h2
      · -- C
        simp only [Prod.mk.injEq, Option.some.injEq] at h2
        obtain ⟨hs, hid⟩ := h2
        cases hch : (updateFields ca v.revs v.fields fields).identityChanged
        · simp only [hch, Bool.false_eq_true, if_false] at hid
          subst hid
          simp only [ne_eq, not_true_eq_false, if_false, Except.ok.injEq] at h
          subst h
          exact ⟨rfl, rfl, Or.inr (Or.inr (Or.inl ⟨id1, v, last, hfind, hv, hl, h1, hlt, hs,
            Or.inl ⟨hch, rfl, rfl⟩⟩))⟩
        · simp only [hch, if_true] at hid
          have hne : id1 ≠ id := by
            intro heq
            have := congrArg Id.gen heq
            rw [hid] at this
            simp at this
          simp only [ne_eq, hne, not_false_eq_true, if_true, Except.ok.injEq] at h
          subst h
          exact ⟨rfl, rfl, Or.inr (Or.inr (Or.inl ⟨id, v, last, hfind, hv, hl, h1, hlt, hs,
            Or.inr ⟨hch, hid, by rw [hid]; rfl⟩⟩))⟩
    · rename_i s1 hupd
      obtain ⟨v, last, hv, hl, hcase⟩ := update_cases hupd
      rcases hcase with ⟨_, h2⟩ | ⟨h1, hge, h2⟩ | ⟨_, _, h2⟩
      · simp at h2
      · simp only [Prod.mk.injEq, and_true] at h2
        subst h2
        split at h
        · cases h
        · rename_i s2 id2 halloc
          simp only [Except.ok.injEq] at h
          subst h
          exact ⟨rfl, rfl, Or.inr (Or.inl ⟨id, v, last, s2, id2, hfind, hv, hl, h1, hge, halloc,
            rfl, rfl, rfl⟩)⟩
      · simp at h2
  · rename_i hfind
    split at h
    · cases h
    · rename_i s2 id2 halloc
      simp only [Except.ok.injEq] at h
      subst h
      exact ⟨rfl, rfl, Or.inr (Or.inr (Or.inr ⟨hfind, s2, id2, halloc, rfl, rfl, rfl⟩))⟩

/-! ### runCreations and disambiguators -/

theorem runCreations_cons {hash : Nat → Nat} {cur : Nat} {c : Creation} {rest : List Creation}
    {f : Frame} {s : State} {r : Frame × State × List (Identity × Id)}
    (h : runCreations hash cur (c :: rest) f s = .ok r) :
    ∃ out f' s' rs, newStruct hash cur c.dur c.changedAt c.ingr c.fields f s = .ok out ∧
      runCreations hash cur rest out.frame out.state = .ok (f', s', rs) ∧
      r = (f', s', (out.identity, out.id) :: rs) := by
  unfold runCreations at h
  split at h
  · cases h
  · rename_i out hout
    split at h
    · cases h
    · rename_i f' s' rs hrest
      simp only [Except.ok.injEq] at h
      exact ⟨out, f', s', rs, hout, hrest, h.symm⟩

theorem newStruct_disamb {hash : Nat → Nat} {cur dur ca g : Nat} {fields : Fields} {f : Frame}
    {s : State} {out : NewStruct} (h : newStruct hash cur dur ca g fields f s = .ok out) :
    out.identity = ⟨g, hash fields.idv, DisambiguatorMap.get f.disamb (g, hash fields.idv)⟩ ∧
    ∀ key', DisambiguatorMap.get out.frame.disamb key'
      = if (g, hash fields.idv) = key' then DisambiguatorMap.get f.disamb (g, hash fields.idv) + 1
        else DisambiguatorMap.get f.disamb key' := by
  obtain ⟨h1, h2, _⟩ := newStruct_cases h
  refine ⟨by rw [h1]; rfl, ?_⟩
  intro key'
  rw [h2]
  exact dget_set _ _ _ _

theorem runCreations_length {hash : Nat → Nat} {cur : Nat} {cs : List Creation} {f f' : Frame}
    {s s' : State} {rs : List (Identity × Id)}
    (h : runCreations hash cur cs f s = .ok (f', s', rs)) : rs.length = cs.length := by
  induction cs generalizing f s f' s' rs with
  | nil =>
    simp only [runCreations, Except.ok.injEq, Prod.mk.injEq] at h
    obtain ⟨_, _, h3⟩ := h
    subst h3
    rfl
  | cons c rest ih =>
    obtain ⟨out, f1, s1, rs1, _, hrest, hr⟩ := runCreations_cons h
    simp only [Prod.mk.injEq] at hr
    rw [hr.2.2, List.length_cons, List.length_cons, ih hrest]

/-- the identity the `j`-th creation is registered under: its disambiguator is the value of the
    frame's disambiguator map at the start plus the number of EARLIER creations with the same
    (ingredient, hash). -/
theorem runCreations_disamb {hash : Nat → Nat} {cur : Nat} {cs : List Creation} {f f' : Frame}
    {s s' : State} {rs : List (Identity × Id)}
    (h : runCreations hash cur cs f s = .ok (f', s', rs)) :
    ∀ j c, cs[j]? = some c → ∃ id, rs[j]? = some
      ((⟨c.ingr, hash c.fields.idv,
        DisambiguatorMap.get f.disamb (keyOf hash c) + countKey hash (keyOf hash c) (cs.take j)⟩
          : Identity), id) := by
  induction cs generalizing f s f' s' rs with
  | nil => intro j c hc; simp at hc
  | cons c0 rest ih =>
    obtain ⟨out, f1, s1, rs1, hns, hrest, hr⟩ := runCreations_cons h
    simp only [Prod.mk.injEq] at hr
    obtain ⟨hid, hget⟩ := newStruct_disamb hns
    intro j c hc
    cases j with
    | zero =>
      simp only [List.getElem?_cons_zero, Option.some.injEq] at hc
      subst hc
      refine ⟨out.id, ?_⟩
      rw [hr.2.2, hid]
      simp [keyOf, countKey]
    | succ j =>
      simp only [List.getElem?_cons_succ] at hc
      obtain ⟨id, hid'⟩ := ih hrest j c hc
      refine ⟨id, ?_⟩
      rw [hr.2.2, List.getElem?_cons_succ, hid', hget]
      simp only [List.take_succ_cons, countKey, keyOf]
      by_cases hk : (c0.ingr, hash c0.fields.idv) = (c.ingr, hash c.fields.idv)
      · simp only [hk, if_true]
        congr 3
        omega
      · simp only [hk, if_false]
        congr 3
        omega

/-! ### state predicates -/

/-- slot `k` exists and is not deleted / write-locked -/
def Live (s : State) (k : Nat) : Prop := ∃ v, s.slots[k]? = some v ∧ v.updatedAt ≠ none

/-- `id` is a valid handle: its slot is live and carries the handle's generation -/
def Owns (s : State) (id : Id) : Prop :=
  ∃ v, s.slots[id.idx]? = some v ∧ v.updatedAt ≠ none ∧ v.gen = id.gen

/-- `id` denotes a deleted slot of generation `id.gen` with an empty memo table -/
def DeadAt (s : State) (id : Id) : Prop :=
  ∃ v, s.slots[id.idx]? = some v ∧ v.updatedAt = none ∧ v.gen = id.gen ∧ v.memos = []

/-- every free-list entry denotes a deleted slot of the entry's generation with no memos -/
def FreeOK (s : State) : Prop := ∀ p, p ∈ s.free → DeadAt s p.2

instance (s : State) (k : Nat) : Decidable (Live s k) :=
  match h : s.slots[k]? with
  | some v =>
    if h2 : v.updatedAt ≠ none then isTrue ⟨v, h, h2⟩
    else isFalse (by rintro ⟨v', h1, h3⟩; rw [h] at h1; cases h1; exact h2 h3)
  | none => isFalse (by rintro ⟨v', h1, _⟩; rw [h] at h1; cases h1)

instance (s : State) (id : Id) : Decidable (Owns s id) :=
  match h : s.slots[id.idx]? with
  | some v =>
    if h2 : v.updatedAt ≠ none ∧ v.gen = id.gen then isTrue ⟨v, h, h2.1, h2.2⟩
    else isFalse (by rintro ⟨v', h1, h3⟩; rw [h] at h1; cases h1; exact h2 h3)
  | none => isFalse (by rintro ⟨v', h1, _⟩; rw [h] at h1; cases h1)

instance (s : State) (id : Id) : Decidable (DeadAt s id) :=
  match h : s.slots[id.idx]? with
  | some v =>
    if h2 : v.updatedAt = none ∧ v.gen = id.gen ∧ v.memos = [] then isTrue ⟨v, h, h2⟩
    else isFalse (by rintro ⟨v', h1, h3⟩; rw [h] at h1; cases h1; exact h2 h3)
  | none => isFalse (by rintro ⟨v', h1, _⟩; rw [h] at h1; cases h1)

instance (s : State) : Decidable (FreeOK s) := by unfold FreeOK; infer_instance

def FreeNodup (s : State) : Prop := (freeIdxs s.free).Nodup

instance (s : State) : Decidable (FreeNodup s) := by unfold FreeNodup; infer_instance

/-- every memo stored in a slot was inserted under the slot's current generation -/
def MemoGen (s : State) : Prop :=
  ∀ (k : Nat) (v : Slot), s.slots[k]? = some v → ∀ m : Memo, m ∈ v.memos → m.gen = v.gen

theorem Owns.live {s : State} {id : Id} (h : Owns s id) : Live s id.idx := by
  obtain ⟨v, h1, h2, _⟩ := h
  exact ⟨v, h1, h2⟩

theorem free_not_live {s : State} (hF : FreeOK s) {p : Nat × Id} (hp : p ∈ s.free) :
    ¬ Live s p.2.idx := by
  obtain ⟨v, h1, h2, _⟩ := hF p hp
  rintro ⟨v', h1', h2'⟩
  rw [h1] at h1'
  cases h1'
  exact h2' h2

theorem getElem?_set_self' {α : Type} {l : List α} {k : Nat} {v v0 : α} (h : l[k]? = some v0) :
    (l.set k v)[k]? = some v := by
  have hk : k < l.length := by
    rcases Nat.lt_or_ge k l.length with h1 | h1
    · exact h1
    · rw [List.getElem?_eq_none h1] at h; cases h
  exact List.getElem?_set_self hk

/-- the slots of `s'` are those of `s` except that slot `k` now holds `v'` -/
def Touch (s s' : State) (k : Nat) (v' : Slot) : Prop :=
  (∀ j, j ≠ k → s'.slots[j]? = s.slots[j]?) ∧ s'.slots[k]? = some v'

theorem touch_set {s : State} {k : Nat} {v0 v' : Slot} {fr : List (Nat × Id)}
    (h : s.slots[k]? = some v0) : Touch s ⟨s.slots.set k v', fr⟩ k v' := by
  refine ⟨?_, getElem?_set_self' h⟩
  intro j hj
  exact List.getElem?_set_ne (Ne.symm hj)

theorem touch_append {s : State} {v' : Slot} {fr : List (Nat × Id)} :
    Touch s ⟨s.slots ++ [v'], fr⟩ s.slots.length v' := by
  refine ⟨?_, ?_⟩
  · intro j hj
    show (s.slots ++ [v'])[j]? = s.slots[j]?
    rcases Nat.lt_or_ge j s.slots.length with h1 | h1
    · exact List.getElem?_append_left h1
    · have h2 : s.slots.length < j := Nat.lt_of_le_of_ne h1 (Ne.symm hj)
      rw [List.getElem?_eq_none h1, List.getElem?_eq_none]
      simp only [List.length_append, List.length_cons, List.length_nil]
      omega
  · show (s.slots ++ [v'])[s.slots.length]? = some v'
    rw [List.getElem?_append_right (Nat.le_refl _)]
    simp

theorem Touch.live_other {s s' : State} {k : Nat} {v' : Slot} (h : Touch s s' k v') {j : Nat}
    (hj : j ≠ k) : Live s' j ↔ Live s j := by
  unfold Live
  rw [h.1 j hj]

theorem Touch.owns_other {s s' : State} {k : Nat} {v' : Slot} (h : Touch s s' k v') {id : Id}
    (hj : id.idx ≠ k) : Owns s' id ↔ Owns s id := by
  unfold Owns
  rw [h.1 _ hj]

/-- `MemoGen` is preserved when the touched slot's memos all carry its generation -/
theorem Touch.memoGen {s s' : State} {k : Nat} {v' : Slot} (h : Touch s s' k v')
    (hM : MemoGen s) (hv : ∀ m, m ∈ v'.memos → m.gen = v'.gen) : MemoGen s' := by
  intro j v hjv m hm
  by_cases hj : j = k
  · subst hj
    rw [h.2] at hjv
    cases hjv
    exact hv m hm
  · rw [h.1 j hj] at hjv
    exact hM j v hjv m hm

/-- `FreeOK` is preserved when the touched slot is not on the free list -/
theorem Touch.freeOK {s s' : State} {k : Nat} {v' : Slot} (h : Touch s s' k v')
    (hF : FreeOK s) (hsub : ∀ p, p ∈ s'.free → p ∈ s.free ∧ p.2.idx ≠ k) : FreeOK s' := by
  intro p hp
  obtain ⟨hp1, hp2⟩ := hsub p hp
  unfold DeadAt
  rw [h.1 _ hp2]
  exact hF p hp1

/-! ### allocate -/

theorem allocate_spec {s s2 : State} {cur dur ca g : Nat} {fields : Fields} {id2 : Id}
    (h : allocate s cur dur ca g fields = .ok (s2, id2)) (hF : FreeOK s) (hN : FreeNodup s) :
    ¬ Live s id2.idx ∧ Touch s s2 id2.idx (newValue id2.gen cur dur ca fields) ∧
    FreeOK s2 ∧ FreeNodup s2 ∧ (∀ p, p ∈ s2.free → p ∈ s.free) := by
  obtain ⟨hfree, hcase⟩ := allocate_cases h
  have hsub : ∀ p, p ∈ s2.free → p ∈ s.free := by
    intro p hp
    rw [hfree] at hp
    exact (allocLoop_sublist g s.free).mem hp
  have hN2 : FreeNodup s2 := by
    unfold FreeNodup
    rw [hfree]
    exact List.Nodup.sublist ((allocLoop_sublist g s.free).map _) hN
  rcases hcase with ⟨id0, v0, hmem, _, hid, hloop, hv0, hslots⟩ | ⟨_, hid, hslots⟩
  · have hnl : ¬ Live s id2.idx := by
      have := free_not_live hF hmem
      rw [hid]; exact this
    have ht : Touch s s2 id2.idx (newValue id2.gen cur dur ca fields) := by
      have := touch_set (v' := newValue id2.gen cur dur ca fields) (fr := s2.free) hv0
      rw [← hslots] at this
      exact this
    refine ⟨hnl, ht, ?_, hN2, hsub⟩
    apply ht.freeOK hF
    intro p hp
    refine ⟨hsub p hp, ?_⟩
    intro heq
    have hnot := allocLoop_idx_notin hN hloop
    apply hnot
    rw [hfree] at hp
    exact mem_freeIdxs.mpr ⟨p, hp, heq⟩
  · have hnl : ¬ Live s id2.idx := by
      rintro ⟨v, hv, _⟩
      rw [hid] at hv
      simp at hv
    have ht : Touch s s2 id2.idx (newValue id2.gen cur dur ca fields) := by
      have := touch_append (s := s) (v' := newValue 0 cur dur ca fields) (fr := s2.free)
      rw [← hslots] at this
      rw [hid]
      exact this
    refine ⟨hnl, ht, ?_, hN2, hsub⟩
    apply ht.freeOK hF
    intro p hp
    refine ⟨hsub p hp, ?_⟩
    intro heq
    obtain ⟨v, hv, _⟩ := hF p (hsub p hp)
    rw [heq, hid] at hv
    simp at hv

/-! ### sharper identity-map lemmas (need: slot indices of the entries pairwise distinct) -/

theorem mem_idx_eq_find {m : List Entry} {key : Identity} {id : Id} {e0 : Entry}
    (hn : (idxs m).Nodup) (hfind : IdentityMap.find m key = some id) (he : e0 ∈ m)
    (hidx : e0.id.idx = id.idx) : e0.id = id ∧ e0.identity = key := by
  induction m with
  | nil => simp at he
  | cons e rest ih =>
    have hn' : e.id.idx ∉ idxs rest ∧ (idxs rest).Nodup := by
      simpa [idxs, List.nodup_cons] using hn
    by_cases hk : e.identity = key
    · simp [IdentityMap.find, hk] at hfind
      rcases List.mem_cons.mp he with h1 | h1
      · rw [h1]; exact ⟨hfind, hk⟩
      · exfalso
        apply hn'.1
        rw [hfind, ← hidx]
        exact mem_idxs.mpr ⟨e0, h1, rfl⟩
    · simp [IdentityMap.find, hk] at hfind
      rcases List.mem_cons.mp he with h1 | h1
      · exfalso
        apply hn'.1
        rw [← h1, hidx]
        exact find_idx_mem hfind
      · exact ih hn'.2 hfind h1

theorem mem_insertEntry_of_find {m : List Entry} {key : Identity} {id old : Id} {a : Bool}
    {e : Entry} (hn : (idxs m).Nodup) (hfind : IdentityMap.find m key = some old)
    (h : e ∈ IdentityMap.insertEntry m key id a) :
    e = ⟨key, id, a⟩ ∨ (e ∈ m ∧ e.id.idx ≠ old.idx) := by
  induction m with
  | nil => simp [IdentityMap.find] at hfind
  | cons e1 rest ih =>
    have hn' : e1.id.idx ∉ idxs rest ∧ (idxs rest).Nodup := by
      simpa [idxs, List.nodup_cons] using hn
    by_cases hk : e1.identity = key
    · simp [IdentityMap.find, hk] at hfind
      simp only [IdentityMap.insertEntry, hk, if_true, List.mem_cons] at h
      rcases h with h | h
      · exact Or.inl h
      · refine Or.inr ⟨List.mem_cons_of_mem _ h, ?_⟩
        intro heq
        apply hn'.1
        rw [hfind, ← heq]
        exact mem_idxs.mpr ⟨e, h, rfl⟩
    · simp [IdentityMap.find, hk] at hfind
      simp only [IdentityMap.insertEntry, hk, if_false, List.mem_cons] at h
      rcases h with h | h
      · refine Or.inr ⟨by simp [h], ?_⟩
        intro heq
        apply hn'.1
        rw [← h, heq]
        exact find_idx_mem hfind
      · rcases ih hn'.2 hfind h with h1 | ⟨h1, h2⟩
        · exact Or.inl h1
        · exact Or.inr ⟨List.mem_cons_of_mem _ h1, h2⟩

theorem mem_markActive_of_ne {m : List Entry} {key : Identity} {e : Entry} (he : e ∈ m)
    (hne : e.identity ≠ key) : e ∈ IdentityMap.markActive m key := by
  induction m with
  | nil => simp at he
  | cons e1 rest ih =>
    by_cases hk : e1.identity = key
    · simp only [IdentityMap.markActive, hk, if_true, List.mem_cons]
      rcases List.mem_cons.mp he with h1 | h1
      · exact absurd (h1 ▸ hk) hne
      · exact Or.inr h1
    · simp only [IdentityMap.markActive, hk, if_false, List.mem_cons]
      rcases List.mem_cons.mp he with h1 | h1
      · exact Or.inl h1
      · exact Or.inr (ih h1)

theorem mem_insertEntry_of_ne {m : List Entry} {key : Identity} {id : Id} {a : Bool} {e : Entry}
    (he : e ∈ m) (hne : e.identity ≠ key) : e ∈ IdentityMap.insertEntry m key id a := by
  induction m with
  | nil => simp at he
  | cons e1 rest ih =>
    by_cases hk : e1.identity = key
    · simp only [IdentityMap.insertEntry, hk, if_true, List.mem_cons]
      rcases List.mem_cons.mp he with h1 | h1
      · exact absurd (h1 ▸ hk) hne
      · exact Or.inr h1
    · simp only [IdentityMap.insertEntry, hk, if_false, List.mem_cons]
      rcases List.mem_cons.mp he with h1 | h1
      · exact Or.inl h1
      · exact Or.inr (ih h1)

/-! ### newStruct preserves the frame-level invariants -/

theorem updatedValue_gen_eq {v : Slot} {cur dur ca : Nat} {id : Id} {fields : Fields} :
    (updatedValue v cur dur ca id fields).gen
      = if (updateFields ca v.revs v.fields fields).identityChanged then id.gen + 1 else v.gen := rfl

theorem updatedValue_memos_eq {v : Slot} {cur dur ca : Nat} {id : Id} {fields : Fields} :
    (updatedValue v cur dur ca id fields).memos
      = if (updateFields ca v.revs v.fields fields).identityChanged then [] else v.memos := rfl

theorem updatedValue_updatedAt {v : Slot} {cur dur ca : Nat} {id : Id} {fields : Fields} :
    (updatedValue v cur dur ca id fields).updatedAt = some cur := rfl

theorem newStruct_memoGen {hash : Nat → Nat} {cur dur ca g : Nat} {fields : Fields} {f : Frame}
    {s : State} {out : NewStruct} (h : newStruct hash cur dur ca g fields f s = .ok out)
    (hM : MemoGen s) : MemoGen out.state := by
  have halloc : ∀ s2 id2, allocate s cur dur ca g fields = .ok (s2, id2) → MemoGen s2 := by
    intro s2 id2 ha
    obtain ⟨_, hcase⟩ := allocate_cases ha
    rcases hcase with ⟨id0, v0, _, _, _, _, hv0, hslots⟩ | ⟨_, hid, hslots⟩
    · have ht := touch_set (v' := newValue id2.gen cur dur ca fields) (fr := s2.free) hv0
      rw [← hslots] at ht
      exact ht.memoGen hM (by intro m hm; simp [newValue] at hm)
    · have ht := touch_append (s := s) (v' := newValue 0 cur dur ca fields) (fr := s2.free)
      rw [← hslots] at ht
      exact ht.memoGen hM (by intro m hm; simp [newValue] at hm)
  obtain ⟨_, _, hcase⟩ := newStruct_cases h
  rcases hcase with ⟨id, v, _, _, _, _, hs, _⟩ | ⟨id, v, last, s2, id2, _, _, _, _, _, ha, _, hs, _⟩ |
    ⟨id, v, last, _, hv, _, _, _, hs, _⟩ | ⟨_, s2, id2, ha, _, hs, _⟩
  · rw [hs]; exact hM
  · rw [hs]; exact halloc s2 id2 ha
  · rw [hs]
    apply (touch_set hv).memoGen hM
    intro m hm
    rw [updatedValue_memos_eq] at hm
    rw [updatedValue_gen_eq]
    cases hch : (updateFields ca v.revs v.fields fields).identityChanged
    · rw [hch] at hm
      simp only [Bool.false_eq_true, if_false] at hm ⊢
      exact hM _ v hv m hm
    · rw [hch] at hm
      simp at hm
  · rw [hs]; exact halloc s2 id2 ha

/-- what `newStruct` guarantees for the frame it runs in and for everybody else -/
structure NSInv (f : Frame) (s : State) (out : NewStruct) : Prop where
  freeOK : FreeOK out.state
  freeNodup : FreeNodup out.state
  owns : ∀ e, e ∈ out.frame.idmap → Owns out.state e.id
  nodup : (idxs out.frame.idmap).Nodup
  sub : ∀ n, n ∈ idxs out.frame.idmap → n ∈ idxs f.idmap ∨ ¬ Live s n
  others : ∀ k, k ∉ idxs f.idmap → Live s k → out.state.slots[k]? = s.slots[k]?
  freeSub : ∀ p, p ∈ out.state.free → p ∈ s.free
  ownsOut : Owns out.state out.id

theorem newStruct_inv {hash : Nat → Nat} {cur dur ca g : Nat} {fields : Fields} {f : Frame}
    {s : State} {out : NewStruct} (h : newStruct hash cur dur ca g fields f s = .ok out)
    (hF : FreeOK s) (hN : FreeNodup s) (hown : ∀ e, e ∈ f.idmap → Owns s e.id)
    (hnd : (idxs f.idmap).Nodup) : NSInv f s out := by
  have hm1 : idxs (nsM1 hash f g fields) = idxs f.idmap := idxs_markActive _ _
  have hm1own : ∀ e, e ∈ nsM1 hash f g fields → ∃ e0, e0 ∈ f.idmap ∧ e.id = e0.id := by
    intro e he
    obtain ⟨e0, h0, _, h2, _⟩ := mem_markActive he
    exact ⟨e0, h0, h2⟩
  -- the two allocating cases
  have halloc : ∀ s2 id2, allocate s cur dur ca g fields = .ok (s2, id2) →
      out.frame.idmap
        = IdentityMap.insertEntry (nsM1 hash f g fields) (newIdentity hash f g fields) id2 true →
      out.state = s2 → out.id = id2 → NSInv f s out := by
    intro s2 id2 ha hmap hs hid
    obtain ⟨hnl, ht, hF2, hN2, hsub⟩ := allocate_spec ha hF hN
    have hfresh : id2.idx ∉ idxs f.idmap := by
      intro hmem
      obtain ⟨e, he, heq⟩ := mem_idxs.mp hmem
      exact hnl (heq ▸ (hown e he).live)
    have hO2 : Owns s2 id2 := ⟨_, ht.2, by simp [newValue], by simp [newValue]⟩
    refine ⟨hs ▸ hF2, hs ▸ hN2, ?_, ?_, ?_, ?_, hs ▸ hsub, by rw [hs, hid]; exact hO2⟩
    · intro e he
      rw [hmap] at he
      rw [hs]
      rcases mem_insertEntry he with h1 | h1
      · rw [h1]; exact hO2
      · obtain ⟨e0, h0, heq⟩ := hm1own e h1
        rw [heq]
        have ho := hown e0 h0
        have hne : e0.id.idx ≠ id2.idx := fun hc => hnl (hc ▸ ho.live)
        exact (ht.owns_other hne).mpr ho
    · rw [hmap]
      exact insertEntry_idxs_fresh (hm1 ▸ hnd) (hm1 ▸ hfresh)
    · intro n hn
      rw [hmap] at hn
      rcases mem_idxs_insertEntry hn with h1 | h1
      · right; rw [h1]; exact hnl
      · left; rw [← hm1]; exact h1
    · intro k _ hlive
      rw [hs]
      exact ht.1 k (fun hc => hnl (hc ▸ hlive))
  obtain ⟨_, _, hcase⟩ := newStruct_cases h
  rcases hcase with ⟨id, v, hfind, hv, hu, hmap, hs, hid⟩ |
    ⟨id, v, last, s2, id2, _, _, _, _, _, ha, hmap, hs, hid⟩ |
    ⟨id, v, last, hfind, hv, hl, _, _, hs, hch⟩ | ⟨_, s2, id2, ha, hmap, hs, hid⟩
  · -- A
    have hfm := find_some_mem hfind
    obtain ⟨e1, he1, _, hid1⟩ := hfm
    refine ⟨hs ▸ hF, hs ▸ hN, ?_, by rw [hmap, hm1]; exact hnd, ?_, ?_, by rw [hs]; exact fun p hp => hp, ?_⟩
    · intro e he
      rw [hmap] at he
      obtain ⟨e0, h0, heq⟩ := hm1own e he
      rw [hs, heq]; exact hown e0 h0
    · intro n hn
      rw [hmap, hm1] at hn
      exact Or.inl hn
    · intro k _ _; rw [hs]
    · rw [hs, hid, ← hid1]; exact hown e1 he1
  · exact halloc s2 id2 ha hmap hs hid
  · -- C
    have hfm := find_some_mem hfind
    obtain ⟨e1, he1, _, hid1⟩ := hfm
    have ho1 : Owns s id := hid1 ▸ hown e1 he1
    have hlive : Live s id.idx := ho1.live
    have ht : Touch s out.state id.idx (updatedValue v cur dur ca id fields) := by
      rw [hs]; exact touch_set hv
    have hfree : out.state.free = s.free := by rw [hs]
    have hgen : v.gen = id.gen := by
      obtain ⟨v', hv', _, hg⟩ := ho1
      rw [hv] at hv'; cases hv'; exact hg
    have hF' : FreeOK out.state := by
      apply ht.freeOK hF
      intro p hp
      rw [hfree] at hp
      exact ⟨hp, fun hc => free_not_live hF hp (hc ▸ hlive)⟩
    have hidx : id.idx ∈ idxs f.idmap := find_idx_mem hfind
    have hoth : ∀ k, k ∉ idxs f.idmap → Live s k → out.state.slots[k]? = s.slots[k]? := by
      intro k hk _
      exact ht.1 k (fun hc => hk (hc ▸ hidx))
    have holdown : ∀ e0, e0 ∈ f.idmap → e0.id.idx ≠ id.idx → Owns out.state e0.id :=
      fun e0 h0 hne => (ht.owns_other hne).mpr (hown e0 h0)
    rcases hch with ⟨hc, hid, hmap⟩ | ⟨hc, hid, hmap⟩
    · have hO : Owns out.state id :=
        ⟨_, ht.2, by simp [updatedValue_updatedAt], by rw [updatedValue_gen_eq, hc]; simpa using hgen⟩
      refine ⟨hF', by unfold FreeNodup; rw [hfree]; exact hN, ?_, by rw [hmap, hm1]; exact hnd, ?_,
        hoth, by rw [hfree]; exact fun p hp => hp, hid ▸ hO⟩
      · intro e he
        rw [hmap] at he
        obtain ⟨e0, h0, heq⟩ := hm1own e he
        rw [heq]
        by_cases hi : e0.id.idx = id.idx
        · rw [(mem_idx_eq_find hnd hfind h0 hi).1]; exact hO
        · exact holdown e0 h0 hi
      · intro n hn
        rw [hmap, hm1] at hn
        exact Or.inl hn
    · have hO : Owns out.state ⟨id.idx, id.gen + 1⟩ :=
        ⟨_, ht.2, by simp [updatedValue_updatedAt], by rw [updatedValue_gen_eq, hc]; simp⟩
      have hfind1 : IdentityMap.find (nsM1 hash f g fields) (newIdentity hash f g fields) = some id := by
        unfold nsM1; rw [find_markActive]; exact hfind
      have hsame : idxs out.frame.idmap = idxs f.idmap := by
        rw [hmap, insertEntry_idxs_same (id := ⟨id.idx, id.gen + 1⟩) hfind1 rfl, hm1]
      refine ⟨hF', by unfold FreeNodup; rw [hfree]; exact hN, ?_, by rw [hsame]; exact hnd, ?_,
        hoth, by rw [hfree]; exact fun p hp => hp, hid ▸ hO⟩
      · intro e he
        rw [hmap] at he
        rcases mem_insertEntry_of_find (hm1 ▸ hnd) hfind1 he with h1 | ⟨h1, h2⟩
        · rw [h1]; exact hO
        · obtain ⟨e0, h0, heq⟩ := hm1own e h1
          rw [heq]
          exact holdown e0 h0 (heq ▸ h2)
      · intro n hn
        rw [hsame] at hn
        exact Or.inl hn
  · exact halloc s2 id2 ha hmap hs hid

/-! ### deleteEntity / deleteAll -/

/-- the slot left behind by `delete_entity` -/
def deadValue (v : Slot) : Slot := { v with updatedAt := none, memos := [] }

theorem deleteEntity_spec {s s' : State} {cur g : Nat} {id : Id}
    (h : deleteEntity s cur g id = .ok s') :
    ∃ v r, s.slots[id.idx]? = some v ∧ v.updatedAt = some r ∧ r ≠ cur ∧
      Touch s s' id.idx (deadValue v) ∧ s'.free = s.free ++ [(g, id)] := by
  obtain ⟨v, r, hv, hr, hne, hs⟩ := deleteEntity_cases h
  refine ⟨v, r, hv, hr, hne, ?_, by rw [hs]⟩
  rw [hs]
  exact touch_set hv

/-- slot indices of a list of (identity, id) pairs -/
def pairIdxs (l : List (Identity × Id)) : List Nat := l.map (fun x => x.2.idx)

theorem mem_pairIdxs {l : List (Identity × Id)} {n : Nat} :
    n ∈ pairIdxs l ↔ ∃ x, x ∈ l ∧ x.2.idx = n := by
  simp [pairIdxs, List.mem_map]

theorem deleteAll_cons {s s' : State} {cur : Nat} {x : Identity × Id} {rest : List (Identity × Id)}
    (h : deleteAll s cur (x :: rest) = .ok s') :
    ∃ s1, deleteEntity s cur x.1.ingr x.2 = .ok s1 ∧ deleteAll s1 cur rest = .ok s' := by
  obtain ⟨identity, id⟩ := x
  unfold deleteAll at h
  split at h
  · cases h
  · rename_i s1 h1
    exact ⟨s1, h1, h⟩

theorem deleteAll_memoGen {s s' : State} {cur : Nat} {l : List (Identity × Id)}
    (h : deleteAll s cur l = .ok s') (hM : MemoGen s) : MemoGen s' := by
  induction l generalizing s with
  | nil => simp only [deleteAll, Except.ok.injEq] at h; exact h ▸ hM
  | cons x rest ih =>
    obtain ⟨s1, h1, h2⟩ := deleteAll_cons h
    obtain ⟨v, r, _, _, _, ht, _⟩ := deleteEntity_spec h1
    exact ih h2 (ht.memoGen hM (by intro m hm; simp [deadValue] at hm))

structure DeleteAllSpec (s s' : State) (l : List (Identity × Id)) : Prop where
  freeOK : FreeOK s'
  freeNodup : FreeNodup s'
  free : s'.free = s.free ++ l.map (fun x => (x.1.ingr, x.2))
  others : ∀ k, k ∉ pairIdxs l → s'.slots[k]? = s.slots[k]?
  dead : ∀ x, x ∈ l → ∃ v, s.slots[x.2.idx]? = some v ∧ s'.slots[x.2.idx]? = some (deadValue v)

theorem deleteAll_spec {s s' : State} {cur : Nat} {l : List (Identity × Id)}
    (h : deleteAll s cur l = .ok s') (hF : FreeOK s) (hN : FreeNodup s)
    (hown : ∀ x, x ∈ l → Owns s x.2) (hnd : (pairIdxs l).Nodup) : DeleteAllSpec s s' l := by
  induction l generalizing s with
  | nil =>
    simp only [deleteAll, Except.ok.injEq] at h
    subst h
    exact ⟨hF, hN, by simp, fun _ _ => rfl, by intro x hx; simp at hx⟩
  | cons x rest ih =>
    obtain ⟨s1, h1, h2⟩ := deleteAll_cons h
    obtain ⟨v, r, hv, hr, _, ht, hfree⟩ := deleteEntity_spec h1
    have hnd' : x.2.idx ∉ pairIdxs rest ∧ (pairIdxs rest).Nodup := by
      simpa [pairIdxs, List.nodup_cons] using hnd
    have hox : Owns s x.2 := hown x List.mem_cons_self
    have hgen : v.gen = x.2.gen := by
      obtain ⟨v', hv', _, hg⟩ := hox
      rw [hv] at hv'; cases hv'; exact hg
    have hnotfree : x.2.idx ∉ freeIdxs s.free := by
      intro hmem
      obtain ⟨p, hp, hpi⟩ := mem_freeIdxs.mp hmem
      exact free_not_live hF hp (hpi ▸ hox.live)
    have hF1 : FreeOK s1 := by
      intro p hp
      rw [hfree] at hp
      rcases List.mem_append.mp hp with hp | hp
      · have hne : p.2.idx ≠ x.2.idx := fun hc => hnotfree (mem_freeIdxs.mpr ⟨p, hp, hc⟩)
        unfold DeadAt
        rw [ht.1 _ hne]
        exact hF p hp
      · simp only [List.mem_singleton] at hp
        subst hp
        exact ⟨deadValue v, ht.2, rfl, hgen, rfl⟩
    have hN1 : FreeNodup s1 := by
      unfold FreeNodup
      rw [hfree]
      simp only [freeIdxs, List.map_append, List.map_cons, List.map_nil]
      rw [List.nodup_append]
      refine ⟨hN, by simp, ?_⟩
      intro a ha b hb
      simp only [List.mem_singleton] at hb
      subst hb
      exact fun hc => hnotfree (hc ▸ ha)
    have hown1 : ∀ y, y ∈ rest → Owns s1 y.2 := by
      intro y hy
      have hne : y.2.idx ≠ x.2.idx := fun hc => hnd'.1 (mem_pairIdxs.mpr ⟨y, hy, hc⟩)
      exact (ht.owns_other hne).mpr (hown y (List.mem_cons_of_mem _ hy))
    have IH := ih h2 hF1 hN1 hown1 hnd'.2
    refine ⟨IH.freeOK, IH.freeNodup, ?_, ?_, ?_⟩
    · rw [IH.free, hfree]; simp
    · intro k hk
      have hk' : ¬ k = x.2.idx ∧ k ∉ pairIdxs rest := by
        simpa [pairIdxs, List.mem_cons] using hk
      rw [IH.others k hk'.2]
      exact ht.1 k hk'.1
    · intro y hy
      rcases List.mem_cons.mp hy with hy | hy
      · subst hy
        refine ⟨v, hv, ?_⟩
        rw [IH.others _ hnd'.1]
        exact ht.2
      · have hne : y.2.idx ≠ x.2.idx := fun hc => hnd'.1 (mem_pairIdxs.mpr ⟨y, hy, hc⟩)
        obtain ⟨v', hv', hd'⟩ := IH.dead y hy
        rw [ht.1 _ hne] at hv'
        exact ⟨v', hv', hd'⟩

/-! ### sortStale is a permutation -/

theorem insertSorted_perm (a : Identity × Id) (l : List (Identity × Id)) :
    (insertSorted a l).Perm (a :: l) := by
  induction l with
  | nil => exact List.Perm.refl _
  | cons b rest ih =>
    unfold insertSorted
    by_cases h : staleLe a b = true
    · simp only [h, if_true]; exact List.Perm.refl _
    · simp only [h]
      exact (List.Perm.cons b ih).trans (List.Perm.swap a b rest)

theorem sortStale_perm (l : List (Identity × Id)) : (sortStale l).Perm l := by
  induction l with
  | nil => exact List.Perm.refl _
  | cons a rest ih =>
    unfold sortStale
    exact (insertSorted_perm a _).trans (List.Perm.cons a ih)

/-! ### drain -/

theorem nodup_map_inj {α β : Type} {f : α → β} {l : List α} (h : (l.map f).Nodup) {a b : α}
    (ha : a ∈ l) (hb : b ∈ l) (hf : f a = f b) : a = b := by
  induction l with
  | nil => simp at ha
  | cons c rest ih =>
    have h' : f c ∉ rest.map f ∧ (rest.map f).Nodup := by
      simpa [List.nodup_cons] using h
    rcases List.mem_cons.mp ha with ha | ha <;> rcases List.mem_cons.mp hb with hb | hb
    · rw [ha, hb]
    · exfalso; apply h'.1; rw [← ha, hf]; exact List.mem_map_of_mem hb
    · exfalso; apply h'.1; rw [← hb, ← hf]; exact List.mem_map_of_mem ha
    · exact ih h'.2 ha hb

theorem mem_drain_active {m : List Entry} {x : Identity × Id} :
    x ∈ (IdentityMap.drain m).1 ↔ ∃ e, e ∈ m ∧ e.active = true ∧ e.pair = x := by
  simp [IdentityMap.drain, List.mem_map, List.mem_filter, and_assoc]

theorem mem_drain_stale {m : List Entry} {x : Identity × Id} :
    x ∈ (IdentityMap.drain m).2 ↔ ∃ e, e ∈ m ∧ e.active = false ∧ e.pair = x := by
  unfold IdentityMap.drain
  rw [(sortStale_perm _).mem_iff]
  simp [List.mem_map, List.mem_filter, and_assoc]

theorem drain_active_nodup {m : List Entry} (h : (idxs m).Nodup) :
    (pairIdxs (IdentityMap.drain m).1).Nodup := by
  unfold IdentityMap.drain pairIdxs
  simp only [List.map_map]
  exact List.Nodup.sublist ((List.filter_sublist (l := m)).map _) h

theorem drain_stale_nodup {m : List Entry} (h : (idxs m).Nodup) :
    (pairIdxs (IdentityMap.drain m).2).Nodup := by
  unfold IdentityMap.drain pairIdxs
  simp only
  rw [((sortStale_perm _).map _).nodup_iff]
  simp only [List.map_map]
  exact List.Nodup.sublist ((List.filter_sublist (l := m)).map _) h

theorem drain_disjoint {m : List Entry} (h : (idxs m).Nodup) {x y : Identity × Id}
    (hx : x ∈ (IdentityMap.drain m).1) (hy : y ∈ (IdentityMap.drain m).2) : x.2.idx ≠ y.2.idx := by
  obtain ⟨e1, he1, ha1, hp1⟩ := mem_drain_active.mp hx
  obtain ⟨e2, he2, ha2, hp2⟩ := mem_drain_stale.mp hy
  intro hc
  have : e1 = e2 := nodup_map_inj (f := fun e : Entry => e.id.idx) h he1 he2 (by
    rw [← hp1, ← hp2] at hc; exact hc)
  rw [this, ha2] at ha1
  cases ha1

/-! ### seed -/

theorem mem_seed {m : List Entry} {a : List (Identity × Id)} {e : Entry}
    (h : e ∈ IdentityMap.seed m a) : e ∈ m ∨ (e.pair ∈ a ∧ e.active = false) := by
  induction a generalizing m with
  | nil => exact Or.inl h
  | cons x rest ih =>
    obtain ⟨key, id⟩ := x
    simp only [IdentityMap.seed] at h
    rcases ih h with h1 | h1
    · rcases mem_insertEntry h1 with h2 | h2
      · right; rw [h2]; exact ⟨List.mem_cons_self, rfl⟩
      · exact Or.inl h2
    · exact Or.inr ⟨List.mem_cons_of_mem _ h1.1, h1.2⟩

theorem seed_idxs_nodup {m : List Entry} {a : List (Identity × Id)}
    (h : (idxs m ++ pairIdxs a).Nodup) : (idxs (IdentityMap.seed m a)).Nodup := by
  induction a generalizing m with
  | nil => simpa [pairIdxs, IdentityMap.seed] using h
  | cons x rest ih =>
    obtain ⟨key, id⟩ := x
    simp only [IdentityMap.seed]
    apply ih
    rw [List.nodup_append] at h ⊢
    obtain ⟨h1, h2, h3⟩ := h
    have h2' : id.idx ∉ pairIdxs rest ∧ (pairIdxs rest).Nodup := by
      simpa [pairIdxs, List.nodup_cons] using h2
    have hfresh : id.idx ∉ idxs m := by
      intro hc
      exact h3 _ hc _ (by simp [pairIdxs]) rfl
    refine ⟨insertEntry_idxs_fresh h1 hfresh, h2'.2, ?_⟩
    intro n hn b hb
    rcases mem_idxs_insertEntry hn with h4 | h4
    · rw [h4]; intro hc; exact h2'.1 (hc ▸ hb)
    · exact h3 n h4 b (by simp only [pairIdxs, List.map_cons, List.mem_cons]; exact Or.inr hb)

/-! ### the invariant of the multi-creator world -/

/-- the handles a creator holds: the ids in its memo (`idle`) or in its frame (`running`) -/
def ctxIds : Ctx → List Id
  | .idle a => a.map (fun x => x.2)
  | .running f => f.idmap.map (fun e => e.id)

def ctxIdxs : Ctx → List Nat
  | .idle a => pairIdxs a
  | .running f => idxs f.idmap

/-- slot indices of all handles held by any creator, creator by creator -/
def ownedIdxs (w : World) : List Nat := w.ctxs.flatMap ctxIdxs

theorem mem_ctxIdxs {c : Ctx} {n : Nat} : n ∈ ctxIdxs c ↔ ∃ id, id ∈ ctxIds c ∧ id.idx = n := by
  cases c with
  | idle a =>
    simp only [ctxIdxs, ctxIds, pairIdxs, List.mem_map]
    constructor
    · rintro ⟨x, hx, hn⟩; exact ⟨x.2, ⟨x, hx, rfl⟩, hn⟩
    · rintro ⟨id, ⟨x, hx, hid⟩, hn⟩; exact ⟨x, hx, hid ▸ hn⟩
  | running f =>
    simp only [ctxIdxs, ctxIds, idxs, List.mem_map]
    constructor
    · rintro ⟨e, he, hn⟩; exact ⟨e.id, ⟨e, he, rfl⟩, hn⟩
    · rintro ⟨id, ⟨e, he, hid⟩, hn⟩; exact ⟨e, he, hid ▸ hn⟩

structure WInv (w : World) : Prop where
  owns : ∀ c, c ∈ w.ctxs → ∀ id, id ∈ (ctxIds c) → Owns w.st id
  distinct : (ownedIdxs w).Nodup
  freeOK : FreeOK w.st
  freeNodup : FreeNodup w.st
  memoGen : MemoGen w.st

theorem set_split {α : Type} {l : List α} {q : Nat} {c c' : α} (h : l[q]? = some c) :
    ∃ l1 l2, l = l1 ++ c :: l2 ∧ l.set q c' = l1 ++ c' :: l2 := by
  obtain ⟨hq, hc⟩ := List.getElem?_eq_some_iff.mp h
  refine ⟨l.take q, l.drop (q + 1), ?_, ?_⟩
  · rw [← hc, List.getElem_cons_drop hq, List.take_append_drop]
  · rw [List.set_eq_take_append_cons_drop, if_pos hq]

theorem nodup_replace_mid {A X X' B : List Nat} (h : (A ++ X ++ B).Nodup) (hX' : X'.Nodup)
    (hsub : ∀ n, n ∈ X' → n ∈ X ∨ (n ∉ A ∧ n ∉ B)) : (A ++ X' ++ B).Nodup := by
  rw [List.nodup_append, List.nodup_append] at h ⊢
  obtain ⟨⟨hA, hX, hAX⟩, hB, hAXB⟩ := h
  refine ⟨⟨hA, hX', ?_⟩, hB, ?_⟩
  · intro a ha b hb
    rcases hsub b hb with h1 | h1
    · exact hAX a ha b h1
    · intro hc; exact h1.1 (hc ▸ ha)
  · intro a ha b hb
    rcases List.mem_append.mp ha with ha | ha
    · exact hAXB a (List.mem_append_left _ ha) b hb
    · rcases hsub a ha with h1 | h1
      · exact hAXB a (List.mem_append_right _ h1) b hb
      · intro hc; exact h1.2 (hc ▸ hb)

/-- replacing creator `q`'s handles (and possibly the state) preserves the invariant -/
theorem inv_replace {w : World} {q : Nat} {c c' : Ctx} {s' : State} (hI : WInv w)
    (hq : w.ctxs[q]? = some c) (hF : FreeOK s') (hN : FreeNodup s') (hM : MemoGen s')
    (hown' : ∀ id, id ∈ (ctxIds c') → Owns s' id) (hnd : (ctxIdxs c').Nodup)
    (hsub : ∀ n, n ∈ (ctxIdxs c') → n ∈ (ctxIdxs c) ∨ ¬ Live w.st n)
    (hoth : ∀ id, Owns w.st id → id.idx ∉ (ctxIdxs c) → Owns s' id) :
    WInv ⟨s', w.ctxs.set q c'⟩ := by
  obtain ⟨l1, l2, hl, hset⟩ := set_split (c' := c') hq
  have hdist : (l1.flatMap ctxIdxs ++ (ctxIdxs c) ++ l2.flatMap ctxIdxs).Nodup := by
    have := hI.distinct
    unfold ownedIdxs at this
    rw [hl] at this
    simpa [List.flatMap_append, List.flatMap_cons, List.append_assoc] using this
  have hlive1 : ∀ n, n ∈ l1.flatMap ctxIdxs → Live w.st n ∧ n ∉ (ctxIdxs c) := by
    intro n hn
    obtain ⟨c0, hc0, hn0⟩ := List.mem_flatMap.mp hn
    obtain ⟨id, hid, hidx⟩ := mem_ctxIdxs.mp hn0
    refine ⟨hidx ▸ (hI.owns c0 (by rw [hl]; simp [hc0]) id hid).live, ?_⟩
    rw [List.nodup_append, List.nodup_append] at hdist
    intro hc
    exact hdist.1.2.2 n hn n hc rfl
  have hlive2 : ∀ n, n ∈ l2.flatMap ctxIdxs → Live w.st n ∧ n ∉ (ctxIdxs c) := by
    intro n hn
    obtain ⟨c0, hc0, hn0⟩ := List.mem_flatMap.mp hn
    obtain ⟨id, hid, hidx⟩ := mem_ctxIdxs.mp hn0
    refine ⟨hidx ▸ (hI.owns c0 (by rw [hl]; simp [hc0]) id hid).live, ?_⟩
    rw [List.nodup_append] at hdist
    intro hc
    exact hdist.2.2 n (List.mem_append_right _ hc) n hn rfl
  refine ⟨?_, ?_, hF, hN, hM⟩
  · intro c0 hc0 id hid
    simp only [hset, List.mem_append, List.mem_cons] at hc0
    rcases hc0 with hc0 | hc0 | hc0
    · have hn : id.idx ∈ l1.flatMap ctxIdxs :=
        List.mem_flatMap.mpr ⟨c0, hc0, mem_ctxIdxs.mpr ⟨id, hid, rfl⟩⟩
      exact hoth id (hI.owns c0 (by rw [hl]; simp [hc0]) id hid) (hlive1 _ hn).2
    · rw [hc0] at hid; exact hown' id hid
    · have hn : id.idx ∈ l2.flatMap ctxIdxs :=
        List.mem_flatMap.mpr ⟨c0, hc0, mem_ctxIdxs.mpr ⟨id, hid, rfl⟩⟩
      exact hoth id (hI.owns c0 (by rw [hl]; simp [hc0]) id hid) (hlive2 _ hn).2
  · show (List.flatMap ctxIdxs (w.ctxs.set q c')).Nodup
    rw [hset]
    have : List.flatMap ctxIdxs (l1 ++ c' :: l2)
        = l1.flatMap ctxIdxs ++ (ctxIdxs c') ++ l2.flatMap ctxIdxs := by
      simp [List.flatMap_append, List.flatMap_cons, List.append_assoc]
    rw [this]
    apply nodup_replace_mid hdist hnd
    intro n hn
    rcases hsub n hn with h1 | h1
    · exact Or.inl h1
    · exact Or.inr ⟨fun hc => h1 (hlive1 n hc).1, fun hc => h1 (hlive2 n hc).1⟩

/-- a state change that keeps every valid handle valid preserves the invariant -/
theorem inv_state {w : World} {s' : State} (hI : WInv w) (hF : FreeOK s') (hN : FreeNodup s')
    (hM : MemoGen s') (hoth : ∀ id, Owns w.st id → Owns s' id) : WInv ⟨s', w.ctxs⟩ :=
  ⟨fun c hc id hid => hoth id (hI.owns c hc id hid), hI.distinct, hF, hN, hM⟩

theorem ctx_nodup {w : World} {q : Nat} {c : Ctx} (hI : WInv w) (hq : w.ctxs[q]? = some c) :
    (ctxIdxs c).Nodup := by
  obtain ⟨l1, l2, hl, _⟩ := set_split (c' := c) hq
  have := hI.distinct
  unfold ownedIdxs at this
  rw [hl] at this
  simp only [List.flatMap_append, List.flatMap_cons] at this
  rw [List.nodup_append] at this
  have h2 := this.2.1
  rw [List.nodup_append] at h2
  exact h2.1

theorem ctx_owns {w : World} {q : Nat} {c : Ctx} (hI : WInv w) (hq : w.ctxs[q]? = some c) :
    ∀ id, id ∈ ctxIds c → Owns w.st id :=
  hI.owns c (List.mem_of_getElem? hq)

theorem owns_of_slot_eq {s s' : State} {id : Id} (h : s'.slots[id.idx]? = s.slots[id.idx]?)
    (ho : Owns s id) : Owns s' id := by
  unfold Owns at ho ⊢
  rw [h]; exact ho

theorem winv_empty : WInv World.empty := by
  refine ⟨?_, ?_, ?_, ?_, ?_⟩
  · intro c hc; simp [World.empty] at hc
  · simp [ownedIdxs, World.empty]
  · intro p hp; simp [World.empty, State.empty] at hp
  · simp [FreeNodup, freeIdxs, World.empty, State.empty]
  · intro k v hv; simp [World.empty, State.empty] at hv

/-- a live slot is rewritten keeping its generation and liveness (read, memo insert) -/
theorem touch_live_inv {w : World} {s' : State} {k : Nat} {v v' : Slot} (hI : WInv w)
    (hv : w.st.slots[k]? = some v) (hlive : v.updatedAt ≠ none) (ht : Touch w.st s' k v')
    (hfree : s'.free = w.st.free) (hu : v'.updatedAt ≠ none) (hg : v'.gen = v.gen)
    (hm : ∀ m, m ∈ v'.memos → m.gen = v'.gen) : WInv ⟨s', w.ctxs⟩ := by
  have hL : Live w.st k := ⟨v, hv, hlive⟩
  apply inv_state hI
  · apply ht.freeOK hI.freeOK
    intro p hp
    rw [hfree] at hp
    exact ⟨hp, fun hc => free_not_live hI.freeOK hp (hc ▸ hL)⟩
  · unfold FreeNodup; rw [hfree]; exact hI.freeNodup
  · exact ht.memoGen hI.memoGen hm
  · intro id ho
    by_cases hk : id.idx = k
    · obtain ⟨v0, hv0, _, hg0⟩ := ho
      rw [hk, hv] at hv0
      cases hv0
      exact ⟨v', hk ▸ ht.2, hu, hg.trans hg0⟩
    · exact (ht.owns_other hk).mpr ho

theorem step_inv {hash : Nat → Nat} {w w' : World} {op : Op} (hI : WInv w)
    (h : step hash w op = .ok w') : WInv w' := by
  cases op with
  | spawn =>
    simp only [step, Except.ok.injEq] at h
    subst h
    refine ⟨?_, ?_, hI.freeOK, hI.freeNodup, hI.memoGen⟩
    · intro c hc id hid
      rcases List.mem_append.mp hc with hc | hc
      · exact hI.owns c hc id hid
      · simp only [List.mem_singleton] at hc
        subst hc
        simp [ctxIds] at hid
    · have := hI.distinct
      simpa [ownedIdxs, List.flatMap_append, ctxIdxs, pairIdxs] using this
  | «begin» q =>
    simp only [step] at h
    split at h
    · rename_i a hq
      simp only [Except.ok.injEq] at h
      subst h
      have hnd := ctx_nodup hI hq
      have hown := ctx_owns hI hq
      apply inv_replace hI hq hI.freeOK hI.freeNodup hI.memoGen
      · intro id hid
        simp only [ctxIds, List.mem_map, Frame.seed] at hid
        obtain ⟨e, he, heid⟩ := hid
        rcases mem_seed he with h1 | ⟨h1, _⟩
        · simp at h1
        · apply hown
          simp only [ctxIds, List.mem_map]
          exact ⟨e.pair, h1, heid⟩
      · simp only [ctxIdxs, Frame.seed]
        apply seed_idxs_nodup
        simpa [idxs, ctxIdxs] using hnd
      · intro n hn
        left
        simp only [ctxIdxs, Frame.seed] at hn ⊢
        obtain ⟨e, he, hen⟩ := mem_idxs.mp hn
        rcases mem_seed he with h1 | ⟨h1, _⟩
        · simp at h1
        · exact mem_pairIdxs.mpr ⟨e.pair, h1, hen⟩
      · intro id ho _; exact ho
    · cases h
  | new q cur dur ca g fields =>
    simp only [step] at h
    split at h
    · rename_i f hq
      split at h
      · cases h
      · rename_i out hns
        simp only [Except.ok.injEq] at h
        subst h
        have hnd := ctx_nodup hI hq
        have hown := ctx_owns hI hq
        have hN := newStruct_inv hns hI.freeOK hI.freeNodup
          (by intro e he; apply hown; simp only [ctxIds, List.mem_map]; exact ⟨e, he, rfl⟩) hnd
        apply inv_replace hI hq hN.freeOK hN.freeNodup (newStruct_memoGen hns hI.memoGen)
        · intro id hid
          simp only [ctxIds, List.mem_map] at hid
          obtain ⟨e, he, heid⟩ := hid
          exact heid ▸ hN.owns e he
        · exact hN.nodup
        · exact hN.sub
        · intro id ho hni
          exact owns_of_slot_eq (hN.others id.idx hni ho.live) ho
    · cases h
  | finish q cur =>
    simp only [step] at h
    split at h
    · rename_i f hq
      split at h
      · cases h
      · rename_i s2 hdel
        simp only [Except.ok.injEq] at h
        subst h
        have hnd : (idxs f.idmap).Nodup := ctx_nodup hI hq
        have hown := ctx_owns hI hq
        have hownE : ∀ e, e ∈ f.idmap → Owns w.st e.id := by
          intro e he; apply hown; simp only [ctxIds, List.mem_map]; exact ⟨e, he, rfl⟩
        have hstale_idx : ∀ n, n ∈ pairIdxs (IdentityMap.drain f.idmap).2 → n ∈ idxs f.idmap := by
          intro n hn
          obtain ⟨x, hx, hxn⟩ := mem_pairIdxs.mp hn
          obtain ⟨e, he, _, hp⟩ := mem_drain_stale.mp hx
          exact mem_idxs.mpr ⟨e, he, by rw [← hxn, ← hp]; rfl⟩
        have hS := deleteAll_spec hdel hI.freeOK hI.freeNodup (by
          intro x hx
          obtain ⟨e, he, _, hp⟩ := mem_drain_stale.mp hx
          rw [← hp]; exact hownE e he) (drain_stale_nodup hnd)
        apply inv_replace hI hq hS.freeOK hS.freeNodup (deleteAll_memoGen hdel hI.memoGen)
        · intro id hid
          simp only [ctxIds, List.mem_map] at hid
          obtain ⟨x, hx, hxid⟩ := hid
          obtain ⟨e, he, _, hp⟩ := mem_drain_active.mp hx
          have ho : Owns w.st id := by rw [← hxid, ← hp]; exact hownE e he
          apply owns_of_slot_eq _ ho
          apply hS.others
          intro hmem
          obtain ⟨y, hy, hyn⟩ := mem_pairIdxs.mp hmem
          exact drain_disjoint hnd hx hy (by rw [hxid, hyn])
        · exact drain_active_nodup hnd
        · intro n hn
          left
          obtain ⟨x, hx, hxn⟩ := mem_pairIdxs.mp hn
          obtain ⟨e, he, _, hp⟩ := mem_drain_active.mp hx
          exact mem_idxs.mpr ⟨e, he, by rw [← hxn, ← hp]; rfl⟩
        · intro id ho hni
          apply owns_of_slot_eq _ ho
          apply hS.others
          exact fun hmem => hni (hstale_idx _ hmem)
    · cases h
  | discard q cur =>
    simp only [step] at h
    split at h
    · rename_i a hq
      split at h
      · cases h
      · rename_i s2 hdel
        simp only [Except.ok.injEq] at h
        subst h
        have hnd : (pairIdxs a).Nodup := ctx_nodup hI hq
        have hown := ctx_owns hI hq
        have hS := deleteAll_spec hdel hI.freeOK hI.freeNodup (by
          intro x hx; apply hown; simp only [ctxIds, List.mem_map]; exact ⟨x, hx, rfl⟩) hnd
        apply inv_replace hI hq hS.freeOK hS.freeNodup (deleteAll_memoGen hdel hI.memoGen)
        · intro id hid; simp [ctxIds] at hid
        · simp [ctxIdxs, pairIdxs]
        · intro n hn; simp [ctxIdxs, pairIdxs] at hn
        · intro id ho hni
          exact owns_of_slot_eq (hS.others _ hni) ho
    · cases h
  | read cur idx =>
    simp only [step] at h
    split at h
    · cases h
    · rename_i s2 hrd
      simp only [Except.ok.injEq] at h
      subst h
      obtain ⟨v, r, hv, hr, hs⟩ := readField_cases hrd
      subst hs
      exact touch_live_inv hI hv (by rw [hr]; simp) (touch_set hv) rfl (by simp) rfl
        (fun m hm => hI.memoGen idx v hv m hm)
  | addMemo idx payload =>
    simp only [step] at h
    split at h
    · cases h
    · rename_i s2 hrd
      simp only [Except.ok.injEq] at h
      subst h
      obtain ⟨v, r, hv, hr, hs⟩ := addMemo_cases hrd
      subst hs
      refine touch_live_inv hI hv (by rw [hr]; simp) (touch_set hv) rfl (by rw [hr]; simp) rfl ?_
      intro m hm
      simp only [List.mem_cons] at hm
      rcases hm with hm | hm
      · rw [hm]
      · exact hI.memoGen idx v hv m hm

theorem runOps_inv {hash : Nat → Nat} {w w' : World} {ops : List Op} (hI : WInv w)
    (h : runOps hash w ops = .ok w') : WInv w' := by
  induction ops generalizing w with
  | nil => simp only [runOps, Except.ok.injEq] at h; exact h ▸ hI
  | cons op rest ih =>
    unfold runOps at h
    split at h
    · cases h
    · rename_i w1 h1
      exact ih (step_inv hI h1) h

theorem flatMap_nodup_cross {α : Type} {f : α → List Nat} {l : List α}
    (h : (l.flatMap f).Nodup) {i j : Nat} {a b : α} (hi : l[i]? = some a) (hj : l[j]? = some b)
    (hij : i ≠ j) {x : Nat} (hx : x ∈ f a) : x ∉ f b := by
  induction l generalizing i j with
  | nil => simp at hi
  | cons c rest ih =>
    simp only [List.flatMap_cons] at h
    rw [List.nodup_append] at h
    obtain ⟨_, h2, h3⟩ := h
    cases i with
    | zero =>
      cases j with
      | zero => exact absurd rfl hij
      | succ j =>
        simp only [List.getElem?_cons_zero, Option.some.injEq] at hi
        simp only [List.getElem?_cons_succ] at hj
        subst hi
        intro hxb
        exact h3 x hx x (List.mem_flatMap.mpr ⟨b, List.mem_of_getElem? hj, hxb⟩) rfl
    | succ i =>
      simp only [List.getElem?_cons_succ] at hi
      cases j with
      | zero =>
        simp only [List.getElem?_cons_zero, Option.some.injEq] at hj
        subst hj
        intro hxb
        exact h3 x hxb x (List.mem_flatMap.mpr ⟨a, List.mem_of_getElem? hi, hx⟩) rfl
      | succ j =>
        simp only [List.getElem?_cons_succ] at hj
        exact ih h2 hi hj (fun hc => hij (by rw [hc]))

/-- handles of different creators never share a slot -/
theorem winv_cross {w : World} (hI : WInv w) {q1 q2 : Nat} {c1 c2 : Ctx}
    (h1 : w.ctxs[q1]? = some c1) (h2 : w.ctxs[q2]? = some c2) (hne : q1 ≠ q2) {n : Nat}
    (hn : n ∈ ctxIdxs c1) : n ∉ ctxIdxs c2 :=
  flatMap_nodup_cross hI.distinct h1 h2 hne hn

/-- a live handle is never on the free list -/
theorem winv_not_free {w : World} (hI : WInv w) {c : Ctx} (hc : c ∈ w.ctxs) {id : Id}
    (hid : id ∈ ctxIds c) : id.idx ∉ freeIdxs w.st.free := by
  intro hmem
  obtain ⟨p, hp, hpi⟩ := mem_freeIdxs.mp hmem
  exact free_not_live hI.freeOK hp (hpi ▸ (hI.owns c hc id hid).live)

/-! ### entries that are not re-created stay untouched (towards `c06_dropped`) -/

theorem newStruct_idmap {hash : Nat → Nat} {cur dur ca g : Nat} {fields : Fields} {f : Frame}
    {s : State} {out : NewStruct} (h : newStruct hash cur dur ca g fields f s = .ok out) :
    out.frame.idmap = IdentityMap.markActive f.idmap out.identity ∨
    ∃ id', out.frame.idmap
      = IdentityMap.insertEntry (IdentityMap.markActive f.idmap out.identity) out.identity id' true := by
  obtain ⟨hI, _, hcase⟩ := newStruct_cases h
  rw [hI]
  rcases hcase with ⟨id, v, _, _, _, hmap, _, _⟩ | ⟨id, v, last, s2, id2, _, _, _, _, _, _, hmap, _, _⟩ |
    ⟨id, v, last, _, _, _, _, _, _, hch⟩ | ⟨_, s2, id2, _, hmap, _, _⟩
  · exact Or.inl hmap
  · exact Or.inr ⟨id2, hmap⟩
  · rcases hch with ⟨_, _, hmap⟩ | ⟨_, _, hmap⟩
    · exact Or.inl hmap
    · exact Or.inr ⟨_, hmap⟩
  · exact Or.inr ⟨id2, hmap⟩

theorem newStruct_keeps_entry {hash : Nat → Nat} {cur dur ca g : Nat} {fields : Fields} {f : Frame}
    {s : State} {out : NewStruct} (h : newStruct hash cur dur ca g fields f s = .ok out)
    {e : Entry} (he : e ∈ f.idmap) (hne : e.identity ≠ out.identity) : e ∈ out.frame.idmap := by
  rcases newStruct_idmap h with hm | ⟨id', hm⟩
  · rw [hm]; exact mem_markActive_of_ne he hne
  · rw [hm]; exact mem_insertEntry_of_ne (mem_markActive_of_ne he hne) hne

theorem newStruct_keeps_inactive {hash : Nat → Nat} {cur dur ca g : Nat} {fields : Fields}
    {f : Frame} {s : State} {out : NewStruct}
    (h : newStruct hash cur dur ca g fields f s = .ok out) {I : Identity}
    (hin : ∀ e, e ∈ f.idmap → e.identity = I → e.active = false) (hne : I ≠ out.identity) :
    ∀ e, e ∈ out.frame.idmap → e.identity = I → e.active = false := by
  have hm1 : ∀ e, e ∈ IdentityMap.markActive f.idmap out.identity → e.identity = I →
      e.active = false := by
    intro e he hI
    obtain ⟨e0, h0, h1, _, h3⟩ := mem_markActive he
    rcases h3 with h3 | h3
    · rw [h3]; exact hin e0 h0 (h1 ▸ hI)
    · exact absurd (hI.symm.trans h3) hne
  intro e he hI
  rcases newStruct_idmap h with hm | ⟨id', hm⟩
  · rw [hm] at he; exact hm1 e he hI
  · rw [hm] at he
    rcases mem_insertEntry he with h1 | h1
    · rw [h1] at hI; exact absurd hI.symm hne
    · exact hm1 e h1 hI

theorem runCreations_keeps {hash : Nat → Nat} {cur : Nat} {cs : List Creation} {f f' : Frame}
    {s s' : State} {rs : List (Identity × Id)}
    (h : runCreations hash cur cs f s = .ok (f', s', rs)) {e : Entry} (he : e ∈ f.idmap)
    (hne : ∀ r, r ∈ rs → r.1 ≠ e.identity)
    (hin : ∀ e', e' ∈ f.idmap → e'.identity = e.identity → e'.active = false) :
    e ∈ f'.idmap ∧ ∀ e', e' ∈ f'.idmap → e'.identity = e.identity → e'.active = false := by
  induction cs generalizing f s rs with
  | nil =>
    simp only [runCreations, Except.ok.injEq, Prod.mk.injEq] at h
    obtain ⟨h1, _, _⟩ := h
    subst h1
    exact ⟨he, hin⟩
  | cons c rest ih =>
    obtain ⟨out, f1, s1, rs1, hns, hrest, hr⟩ := runCreations_cons h
    simp only [Prod.mk.injEq] at hr
    obtain ⟨hr1, hr2, hr3⟩ := hr
    subst hr1
    subst hr2
    have hne0 : out.identity ≠ e.identity := hne (out.identity, out.id) (by rw [hr3]; simp)
    apply ih hrest (newStruct_keeps_entry hns he (Ne.symm hne0))
    · intro r hr; exact hne r (by rw [hr3]; exact List.mem_cons_of_mem _ hr)
    · exact newStruct_keeps_inactive hns hin (Ne.symm hne0)

theorem deleteAll_keeps_dead {s s' : State} {cur : Nat} {l : List (Identity × Id)}
    (h : deleteAll s cur l = .ok s') {k : Nat} {v : Slot} (hv : s.slots[k]? = some v)
    (hd : v.updatedAt = none) : s'.slots[k]? = some v := by
  induction l generalizing s with
  | nil => simp only [deleteAll, Except.ok.injEq] at h; exact h ▸ hv
  | cons x rest ih =>
    obtain ⟨s1, h1, h2⟩ := deleteAll_cons h
    obtain ⟨v1, r, hv1, hr, _, ht, _⟩ := deleteEntity_spec h1
    have hne : k ≠ x.2.idx := by
      intro hc
      rw [hc, hv1] at hv
      cases hv
      rw [hd] at hr; cases hr
    apply ih h2
    rw [ht.1 k hne]; exact hv

theorem deleteAll_free {s s' : State} {cur : Nat} {l : List (Identity × Id)}
    (h : deleteAll s cur l = .ok s') : s'.free = s.free ++ l.map (fun x => (x.1.ingr, x.2)) := by
  induction l generalizing s with
  | nil => simp only [deleteAll, Except.ok.injEq] at h; subst h; simp
  | cons x rest ih =>
    obtain ⟨s1, h1, h2⟩ := deleteAll_cons h
    obtain ⟨_, _, _, _, _, _, hf⟩ := deleteEntity_spec h1
    rw [ih h2, hf]; simp

theorem deleteAll_dead {s s' : State} {cur : Nat} {l : List (Identity × Id)}
    (h : deleteAll s cur l = .ok s') {x : Identity × Id} (hx : x ∈ l) :
    ∃ v, s'.slots[x.2.idx]? = some v ∧ v.updatedAt = none ∧ v.memos = [] := by
  induction l generalizing s with
  | nil => simp at hx
  | cons y rest ih =>
    obtain ⟨s1, h1, h2⟩ := deleteAll_cons h
    rcases List.mem_cons.mp hx with hx | hx
    · subst hx
      obtain ⟨v1, _, _, _, _, ht, _⟩ := deleteEntity_spec h1
      exact ⟨deadValue v1, deleteAll_keeps_dead h2 ht.2 rfl, rfl, rfl⟩
    · exact ih h2 hx

theorem runExecution_cases {hash : Nat → Nat} {cur : Nat} {prev : List (Identity × Id)}
    {cs : List Creation} {s : State} {out : ExecOut}
    (h : runExecution hash cur prev cs s = .ok out) :
    ∃ f1 s1, runCreations hash cur cs (Frame.seed prev) s = .ok (f1, s1, out.created) ∧
      deleteAll s1 cur (IdentityMap.drain f1.idmap).2 = .ok out.state ∧
      out.active = (IdentityMap.drain f1.idmap).1 ∧ out.stale = (IdentityMap.drain f1.idmap).2 := by
  unfold runExecution at h
  split at h
  · cases h
  · rename_i f1 s1 rs hrun
    split at h
    · cases h
    · rename_i s2 hdel
      simp only [Except.ok.injEq] at h
      subst h
      exact ⟨f1, s1, hrun, hdel, rfl, rfl⟩

/-- exact characterisation of the results of `deleteEntity` -/
theorem deleteEntity_error_iff {s : State} {cur g : Nat} {id : Id} {p : Panic} :
    deleteEntity s cur g id = .error p ↔
      (s.slots[id.idx]? = none ∧ p = .badId) ∨
      (∃ v, s.slots[id.idx]? = some v ∧ v.updatedAt = none ∧ p = .deleteWriteLocked) ∨
      (∃ v, s.slots[id.idx]? = some v ∧ v.updatedAt = some cur ∧ p = .deleteReadLocked) := by
  unfold deleteEntity
  cases hv : s.slots[id.idx]? with
  | none => simp [eq_comm]
  | some v =>
    cases hu : v.updatedAt with
    | none => simp [hu, eq_comm]
    | some r =>
      by_cases hr : r = cur
      · simp [hu, hr, eq_comm]
      · simp [hu, hr]

/-! ### re-creation under the same identity (towards `c06_same_id`, `c06_memos_kept`) -/

/-- invariant of one executing frame against the table -/
structure FInv (f : Frame) (s : State) : Prop where
  freeOK : FreeOK s
  freeNodup : FreeNodup s
  owns : ∀ e, e ∈ f.idmap → Owns s e.id
  nodup : (idxs f.idmap).Nodup

theorem newStruct_finv {hash : Nat → Nat} {cur dur ca g : Nat} {fields : Fields} {f : Frame}
    {s : State} {out : NewStruct} (h : newStruct hash cur dur ca g fields f s = .ok out)
    (hI : FInv f s) : FInv out.frame out.state :=
  let hN := newStruct_inv h hI.freeOK hI.freeNodup hI.owns hI.nodup
  ⟨hN.freeOK, hN.freeNodup, hN.owns, hN.nodup⟩

theorem finv_seed {prev : List (Identity × Id)} {s : State} (hF : FreeOK s) (hN : FreeNodup s)
    (hown : ∀ x, x ∈ prev → Owns s x.2) (hnd : (pairIdxs prev).Nodup) :
    FInv (Frame.seed prev) s := by
  refine ⟨hF, hN, ?_, ?_⟩
  · intro e he
    rcases mem_seed he with h1 | ⟨h1, _⟩
    · simp at h1
    · exact hown e.pair h1
  · apply seed_idxs_nodup
    simpa [idxs] using hnd

theorem updateField_same (x : Nat) : updateField x x = (x, false) := by simp [updateField]

theorem updateTracked_fields (ca : Nat) (revs old new : List Nat) :
    (updateTracked ca revs old new).2 = new := by
  induction new generalizing revs old with
  | nil => cases revs <;> cases old <;> simp [updateTracked]
  | cons n ns ih =>
    cases revs with
    | nil => simp [updateTracked]
    | cons r rs =>
      cases old with
      | nil => simp [updateTracked]
      | cons o os =>
        simp only [updateTracked, ih]
        by_cases h : o = n
        · simp [updateField, h]
        · simp [updateField, h]

/-- a tracked field whose value did not change keeps its revision; a changed one gets the
    creator's `changed_at` -/
theorem updateTracked_revs (ca : Nat) (revs old new : List Nat) (i : Nat) (rv o n : Nat)
    (hr : revs[i]? = some rv) (ho : old[i]? = some o) (hn : new[i]? = some n) :
    (updateTracked ca revs old new).1[i]? = some (if o = n then rv else ca) := by
  induction i generalizing revs old new with
  | zero =>
    cases revs with
    | nil => simp at hr
    | cons r rs =>
      cases old with
      | nil => simp at ho
      | cons o' os =>
        cases new with
        | nil => simp at hn
        | cons n' ns =>
          simp only [List.getElem?_cons_zero, Option.some.injEq] at hr ho hn
          subst hr; subst ho; subst hn
          by_cases h : o' = n' <;> simp [updateTracked, updateField, h]
  | succ i ih =>
    cases revs with
    | nil => simp at hr
    | cons r rs =>
      cases old with
      | nil => simp at ho
      | cons o' os =>
        cases new with
        | nil => simp at hn
        | cons n' ns =>
          simp only [List.getElem?_cons_succ] at hr ho hn
          simp only [updateTracked, List.getElem?_cons_succ]
          exact ih rs os ns hr ho hn

theorem updateFields_fields (ca : Nat) (revs : List Nat) (old new : Fields) :
    (updateFields ca revs old new).fields = new := by
  unfold updateFields
  simp only [updateTracked_fields]
  by_cases h : old.idv = new.idv
  · simp [updateField, h]
  · simp [updateField, h]

theorem updateFields_changed (ca : Nat) (revs : List Nat) (old new : Fields) :
    (updateFields ca revs old new).identityChanged = decide (old.idv ≠ new.idv) := by
  unfold updateFields
  by_cases h : old.idv = new.idv
  · simp [updateField, h]
  · simp [updateField, h]

/-- S1: the creation hits an entry whose slot holds the same identity value and is either already
    touched in this revision or has a generation to spare: same id, memos kept. -/
theorem newStruct_hit_same {hash : Nat → Nat} {cur dur ca g : Nat} {fields : Fields} {f : Frame}
    {s : State} {out : NewStruct} (h : newStruct hash cur dur ca g fields f s = .ok out)
    {id : Id} {v : Slot} {r : Nat}
    (hfind : IdentityMap.find f.idmap out.identity = some id) (hv : s.slots[id.idx]? = some v)
    (hu : v.updatedAt = some r) (hgen : r = cur ∨ id.gen < GEN_MAX)
    (hidv : v.fields.idv = fields.idv) :
    out.id = id ∧
    out.state.slots[id.idx]? = some (if r = cur then v else updatedValue v cur dur ca id fields) ∧
    (updateFields ca v.revs v.fields fields).identityChanged = false := by
  have hch : (updateFields ca v.revs v.fields fields).identityChanged = false := by
    rw [updateFields_changed]; simp [hidv]
  obtain ⟨hI, _, hcase⟩ := newStruct_cases h
  rw [hI] at hfind
  rcases hcase with ⟨id', v', hfind', hv', hu', _, hs, hid⟩ |
    ⟨id', v', last, s2, id2, hfind', hv', hu', hne, hge, _⟩ |
    ⟨id', v', last, hfind', hv', hu', hne, _, hs, hc⟩ | ⟨hfind', _⟩
  · rw [hfind] at hfind'; cases hfind'
    rw [hv] at hv'; cases hv'
    rw [hu] at hu'; cases hu'
    exact ⟨hid, by rw [hs]; simp [hv], hch⟩
  · rw [hfind] at hfind'; cases hfind'
    rw [hv] at hv'; cases hv'
    rw [hu] at hu'; cases hu'
    rcases hgen with h1 | h1
    · exact absurd h1 hne
    · exact absurd hge (Nat.not_le_of_lt h1)
  · rw [hfind] at hfind'; cases hfind'
    rw [hv] at hv'; cases hv'
    rw [hu] at hu'; cases hu'
    rcases hc with ⟨_, hid, _⟩ | ⟨hc1, _, _⟩
    · refine ⟨hid, ?_, hch⟩
      rw [hs]
      simp only [hne, if_false]
      exact getElem?_set_self' hv
    · rw [hch] at hc1; cases hc1
  · rw [hfind] at hfind'; cases hfind'

theorem newStruct_find_self {hash : Nat → Nat} {cur dur ca g : Nat} {fields : Fields} {f : Frame}
    {s : State} {out : NewStruct} (h : newStruct hash cur dur ca g fields f s = .ok out) :
    IdentityMap.find out.frame.idmap out.identity = some out.id := by
  obtain ⟨hI, _, hcase⟩ := newStruct_cases h
  rw [hI]
  rcases hcase with ⟨id, v, hfind, _, _, hmap, _, hid⟩ |
    ⟨id, v, last, s2, id2, _, _, _, _, _, _, hmap, _, hid⟩ |
    ⟨id, v, last, hfind, _, _, _, _, _, hc⟩ | ⟨_, s2, id2, _, hmap, _, hid⟩
  · rw [hmap, hid]; unfold nsM1; rw [find_markActive]; exact hfind
  · rw [hmap, hid, find_insertEntry]; simp
  · rcases hc with ⟨_, hid, hmap⟩ | ⟨_, hid, hmap⟩
    · rw [hmap, hid]; unfold nsM1; rw [find_markActive]; exact hfind
    · rw [hmap, hid, find_insertEntry]; simp
  · rw [hmap, hid, find_insertEntry]; simp

/-- S2: a creation does not disturb the entry and the slot of any OTHER identity -/
theorem newStruct_other {hash : Nat → Nat} {cur dur ca g : Nat} {fields : Fields} {f : Frame}
    {s : State} {out : NewStruct} (h : newStruct hash cur dur ca g fields f s = .ok out)
    (hI : FInv f s) {I' : Identity} {id' : Id} (hne : I' ≠ out.identity)
    (hfind : IdentityMap.find f.idmap I' = some id') :
    IdentityMap.find out.frame.idmap I' = some id' ∧
    out.state.slots[id'.idx]? = s.slots[id'.idx]? := by
  constructor
  · rcases newStruct_idmap h with hm | ⟨idn, hm⟩
    · rw [hm, find_markActive]; exact hfind
    · rw [hm, find_insertEntry, if_neg (Ne.symm hne), find_markActive]; exact hfind
  · obtain ⟨e, he, _, heid⟩ := find_some_mem hfind
    have hlive : Live s id'.idx := heid ▸ (hI.owns e he).live
    have halloc : ∀ s2 id2, allocate s cur dur ca g fields = .ok (s2, id2) →
        s2.slots[id'.idx]? = s.slots[id'.idx]? := by
      intro s2 id2 ha
      obtain ⟨hnl, ht, _⟩ := allocate_spec ha hI.freeOK hI.freeNodup
      exact ht.1 _ (fun hc => hnl (hc ▸ hlive))
    obtain ⟨hIo, _, hcase⟩ := newStruct_cases h
    rw [hIo] at hne
    rcases hcase with ⟨id, v, _, _, _, _, hs, _⟩ | ⟨id, v, last, s2, id2, _, _, _, _, _, ha, _, hs, _⟩ |
      ⟨id, v, last, hfind0, hv, _, _, _, hs, _⟩ | ⟨_, s2, id2, ha, _, hs, _⟩
    · rw [hs]
    · rw [hs]; exact halloc s2 id2 ha
    · rw [hs]
      have := find_idx_ne hI.nodup hfind hfind0 hne
      exact List.getElem?_set_ne (Ne.symm this)
    · rw [hs]; exact halloc s2 id2 ha

theorem runCreations_finv {hash : Nat → Nat} {cur : Nat} {cs : List Creation} {f f' : Frame}
    {s s' : State} {rs : List (Identity × Id)}
    (h : runCreations hash cur cs f s = .ok (f', s', rs)) (hI : FInv f s) : FInv f' s' := by
  induction cs generalizing f s rs with
  | nil =>
    simp only [runCreations, Except.ok.injEq, Prod.mk.injEq] at h
    obtain ⟨h1, h2, _⟩ := h
    subst h1; subst h2; exact hI
  | cons c rest ih =>
    obtain ⟨out, f1, s1, rs1, hns, hrest, hr⟩ := runCreations_cons h
    simp only [Prod.mk.injEq] at hr
    obtain ⟨hr1, hr2, _⟩ := hr
    subst hr1; subst hr2
    exact ih hrest (newStruct_finv hns hI)

theorem runCreations_other {hash : Nat → Nat} {cur : Nat} {cs : List Creation} {f f' : Frame}
    {s s' : State} {rs : List (Identity × Id)}
    (h : runCreations hash cur cs f s = .ok (f', s', rs)) (hI : FInv f s) {I' : Identity} {id' : Id}
    (hne : ∀ r, r ∈ rs → r.1 ≠ I') (hfind : IdentityMap.find f.idmap I' = some id') :
    IdentityMap.find f'.idmap I' = some id' ∧ s'.slots[id'.idx]? = s.slots[id'.idx]? := by
  induction cs generalizing f s rs with
  | nil =>
    simp only [runCreations, Except.ok.injEq, Prod.mk.injEq] at h
    obtain ⟨h1, h2, _⟩ := h
    subst h1; subst h2; exact ⟨hfind, rfl⟩
  | cons c rest ih =>
    obtain ⟨out, f1, s1, rs1, hns, hrest, hr⟩ := runCreations_cons h
    simp only [Prod.mk.injEq] at hr
    obtain ⟨hr1, hr2, hr3⟩ := hr
    subst hr1; subst hr2
    have hne0 : I' ≠ out.identity := Ne.symm (hne (out.identity, out.id) (by rw [hr3]; simp))
    obtain ⟨hf1, hs1⟩ := newStruct_other hns hI hne0 hfind
    obtain ⟨hf2, hs2⟩ := ih hrest (newStruct_finv hns hI)
      (fun r hr => hne r (by rw [hr3]; exact List.mem_cons_of_mem _ hr)) hf1
    exact ⟨hf2, hs2.trans hs1⟩

/-- identities registered later in the same execution have a disambiguator at least the current
    counter of their key -/
theorem runCreations_disamb_ge {hash : Nat → Nat} {cur : Nat} {cs : List Creation} {f f' : Frame}
    {s s' : State} {rs : List (Identity × Id)}
    (h : runCreations hash cur cs f s = .ok (f', s', rs)) :
    ∀ r, r ∈ rs → DisambiguatorMap.get f.disamb (r.1.ingr, r.1.hash) ≤ r.1.disamb := by
  induction cs generalizing f s rs with
  | nil =>
    simp only [runCreations, Except.ok.injEq, Prod.mk.injEq] at h
    obtain ⟨_, _, h3⟩ := h
    subst h3
    intro r hr; simp at hr
  | cons c rest ih =>
    obtain ⟨out, f1, s1, rs1, hns, hrest, hr⟩ := runCreations_cons h
    simp only [Prod.mk.injEq] at hr
    obtain ⟨hr1, hr2, hr3⟩ := hr
    subst hr1; subst hr2
    obtain ⟨hid, hget⟩ := newStruct_disamb hns
    intro r hrm
    rw [hr3] at hrm
    rcases List.mem_cons.mp hrm with h1 | h1
    · rw [h1]; simp only; rw [hid]; exact Nat.le_refl _
    · have := ih hrest r h1
      rw [hget] at this
      by_cases hk : (c.ingr, hash c.fields.idv) = (r.1.ingr, r.1.hash)
      · rw [if_pos hk, hk] at this; omega
      · rw [if_neg hk] at this; exact this

/-- the identities registered in one execution are pairwise distinct -/
theorem runCreations_head_ne {hash : Nat → Nat} {cur : Nat} {c : Creation} {rest : List Creation}
    {f : Frame} {s : State} {out : NewStruct} {f' : Frame} {s' : State} {rs : List (Identity × Id)}
    (hns : newStruct hash cur c.dur c.changedAt c.ingr c.fields f s = .ok out)
    (hrest : runCreations hash cur rest out.frame out.state = .ok (f', s', rs)) :
    ∀ r, r ∈ rs → r.1 ≠ out.identity := by
  intro r hr heq
  have hge := runCreations_disamb_ge hrest r hr
  obtain ⟨hid, hget⟩ := newStruct_disamb hns
  rw [hget, heq, hid] at hge
  simp only [if_true] at hge
  omega

theorem runCreations_same_id {hash : Nat → Nat} {cur : Nat} {cs : List Creation} {f f' : Frame}
    {s s' : State} {rs : List (Identity × Id)}
    (h : runCreations hash cur cs f s = .ok (f', s', rs)) (hI : FInv f s)
    {j : Nat} {c : Creation} {I : Identity} {idj id : Id} {v : Slot} {r : Nat}
    (hc : cs[j]? = some c) (hr : rs[j]? = some (I, idj))
    (hfind : IdentityMap.find f.idmap I = some id) (hv : s.slots[id.idx]? = some v)
    (hu : v.updatedAt = some r) (hgen : r = cur ∨ id.gen < GEN_MAX)
    (hidv : v.fields.idv = c.fields.idv) :
    idj = id ∧
    s'.slots[id.idx]?
      = some (if r = cur then v else updatedValue v cur c.dur c.changedAt id c.fields) ∧
    IdentityMap.find f'.idmap I = some id := by
  induction cs generalizing f s rs j with
  | nil => simp at hc
  | cons c0 rest ih =>
    obtain ⟨out, f1, s1, rs1, hns, hrest, hrr⟩ := runCreations_cons h
    simp only [Prod.mk.injEq] at hrr
    obtain ⟨hr1, hr2, hr3⟩ := hrr
    subst hr1; subst hr2; subst hr3
    have hhead := runCreations_head_ne hns hrest
    have hI1 := newStruct_finv hns hI
    cases j with
    | zero =>
      simp only [List.getElem?_cons_zero, Option.some.injEq, Prod.mk.injEq] at hc hr
      subst hc
      obtain ⟨hrI, hrid⟩ := hr
      subst hrI
      obtain ⟨h1, h2, _⟩ := newStruct_hit_same hns hfind hv hu hgen hidv
      have hself := newStruct_find_self hns
      rw [h1] at hself
      obtain ⟨h3, h4⟩ := runCreations_other hrest hI1 hhead hself
      exact ⟨hrid ▸ h1, h4.trans h2, h3⟩
    | succ j =>
      simp only [List.getElem?_cons_succ] at hc hr
      have hne : I ≠ out.identity := hhead (I, idj) (List.mem_of_getElem? hr)
      obtain ⟨h1, h2⟩ := newStruct_other hns hI hne hfind
      exact ih hrest hI1 hc hr h1 (h2 ▸ hv)

theorem deleteAll_keeps_cur {s s' : State} {cur : Nat} {l : List (Identity × Id)}
    (h : deleteAll s cur l = .ok s') {k : Nat} {v : Slot} (hv : s.slots[k]? = some v)
    (hd : v.updatedAt = some cur) : s'.slots[k]? = some v := by
  induction l generalizing s with
  | nil => simp only [deleteAll, Except.ok.injEq] at h; exact h ▸ hv
  | cons x rest ih =>
    obtain ⟨s1, h1, h2⟩ := deleteAll_cons h
    obtain ⟨v1, r, hv1, hr, hne', ht, _⟩ := deleteEntity_spec h1
    have hne : k ≠ x.2.idx := by
      intro hc
      rw [hc, hv1] at hv
      cases hv
      rw [hd] at hr; cases hr
      exact hne' rfl
    apply ih h2
    rw [ht.1 k hne]; exact hv

/-- the execution-level statement behind `c06_same_id` and `c06_memos_kept` -/
theorem runExecution_same_id {hash : Nat → Nat} {cur : Nat} {prev : List (Identity × Id)}
    {cs : List Creation} {s : State} {out : ExecOut}
    (h : runExecution hash cur prev cs s = .ok out)
    (hF : FreeOK s) (hN : FreeNodup s) (hown : ∀ x, x ∈ prev → Owns s x.2)
    (hnd : (pairIdxs prev).Nodup)
    {j : Nat} {c : Creation} {I : Identity} {idj id : Id} {v : Slot} {r : Nat}
    (hc : cs[j]? = some c) (hr : out.created[j]? = some (I, idj))
    (hfind : IdentityMap.find (Frame.seed prev).idmap I = some id)
    (hv : s.slots[id.idx]? = some v) (hu : v.updatedAt = some r)
    (hgen : r = cur ∨ id.gen < GEN_MAX) (hidv : v.fields.idv = c.fields.idv) :
    idj = id ∧ (I, id) ∈ out.active ∧
    out.state.slots[id.idx]?
      = some (if r = cur then v else updatedValue v cur c.dur c.changedAt id c.fields) := by
  obtain ⟨f1, s1, hrun, hdel, hact, _⟩ := runExecution_cases h
  have hI := finv_seed hF hN hown hnd
  obtain ⟨h1, h2, h3⟩ := runCreations_same_id hrun hI hc hr hfind hv hu hgen hidv
  have hcur : (if r = cur then v else updatedValue v cur c.dur c.changedAt id c.fields).updatedAt
      = some cur := by
    by_cases hrc : r = cur
    · simp only [hrc, if_true]; rw [hu, hrc]
    · simp only [hrc, if_false]; rfl
  have h4 := deleteAll_keeps_cur hdel h2 hcur
  refine ⟨h1, ?_, h4⟩
  -- the entry is active: otherwise it would be stale and `deleteEntity` would have panicked
  obtain ⟨e, he, heI, heid⟩ := find_some_mem h3
  rw [hact]
  cases ha : e.active with
  | true => exact mem_drain_active.mpr ⟨e, he, ha, by rw [← heI, ← heid]; rfl⟩
  | false =>
    exfalso
    have hst : (I, id) ∈ (IdentityMap.drain f1.idmap).2 :=
      mem_drain_stale.mpr ⟨e, he, ha, by rw [← heI, ← heid]; rfl⟩
    obtain ⟨v', hv', hd', _⟩ := deleteAll_dead hdel hst
    rw [h4] at hv'
    cases hv'
    rw [hcur] at hd'
    cases hd'

/-- the identity hash recorded for a handle is the hash of the identity value stored in its slot -/
def HashAt (hash : Nat → Nat) (s : State) (x : Identity × Id) : Prop :=
  ∃ v, s.slots[x.2.idx]? = some v ∧ hash v.fields.idv = x.1.hash

instance (hash : Nat → Nat) (s : State) (x : Identity × Id) : Decidable (HashAt hash s x) :=
  match h : s.slots[x.2.idx]? with
  | some v =>
    if h2 : hash v.fields.idv = x.1.hash then isTrue ⟨v, h, h2⟩
    else isFalse (by rintro ⟨v', h1, h3⟩; rw [h] at h1; cases h1; exact h2 h3)
  | none => isFalse (by rintro ⟨v', h1, _⟩; rw [h] at h1; cases h1)

theorem find_seed_mem {prev : List (Identity × Id)} {I : Identity} {id : Id}
    (h : IdentityMap.find (Frame.seed prev).idmap I = some id) : (I, id) ∈ prev := by
  obtain ⟨e, he, heI, heid⟩ := find_some_mem h
  rcases mem_seed he with h1 | ⟨h1, _⟩
  · simp at h1
  · rw [← heI, ← heid]; exact h1

/-- what `update` leaves in a slot whose identity value did not change -/
theorem updatedValue_same {v : Slot} {cur dur ca : Nat} {id : Id} {fields : Fields}
    (hidv : v.fields.idv = fields.idv) :
    (updatedValue v cur dur ca id fields).memos = v.memos ∧
    (updatedValue v cur dur ca id fields).gen = v.gen ∧
    (updatedValue v cur dur ca id fields).updatedAt = some cur ∧
    (updatedValue v cur dur ca id fields).fields = fields ∧
    (updatedValue v cur dur ca id fields).dur = dur ∧
    (dur < v.dur → (updatedValue v cur dur ca id fields).revs = newRevisions ca fields) ∧
    (¬ dur < v.dur → ∀ (i rv o n : Nat), v.revs[i]? = some rv → v.fields.tracked[i]? = some o →
        fields.tracked[i]? = some n →
        (updatedValue v cur dur ca id fields).revs[i]? = some (if o = n then rv else ca)) := by
  have hch : (updateFields ca v.revs v.fields fields).identityChanged = false := by
    rw [updateFields_changed]; simp [hidv]
  refine ⟨?_, ?_, rfl, ?_, rfl, ?_, ?_⟩
  · rw [updatedValue_memos_eq, hch]; simp
  · rw [updatedValue_gen_eq, hch]; simp
  · exact updateFields_fields _ _ _ _
  · intro hd
    simp [updatedValue, hd]
  · intro hd i rv o n h1 h2 h3
    simp only [updatedValue, hd, if_false]
    exact updateTracked_revs ca v.revs v.fields.tracked fields.tracked i rv o n h1 h2 h3

/-! ### C07 (tracked-struct part): lemmas `c07s_*`, re-exported by `Props/C07.lean` -/

/-- `c07s_clear_on_bump` (frame level): whenever `newStruct` changes the generation recorded in a
    slot — free-list reuse in `allocate`, or the identity-field-changed branch of `update` — the
    slot is the one of the returned id, carries the returned id's generation, its memo table is
    empty and its fields are exactly the new fields.  Under the frame invariant the new generation
    is the old one plus one. -/
theorem c07s_clear_on_bump {hash : Nat → Nat} {cur dur ca g : Nat} {fields : Fields} {f : Frame}
    {s : State} {out : NewStruct} (h : newStruct hash cur dur ca g fields f s = .ok out)
    {k : Nat} {v v' : Slot} (hv : s.slots[k]? = some v) (hv' : out.state.slots[k]? = some v')
    (hgen : v'.gen ≠ v.gen) :
    v'.memos = [] ∧ v'.fields = fields ∧ k = out.id.idx ∧ v'.gen = out.id.gen ∧
    v'.updatedAt = some cur ∧ (FInv f s → v'.gen = v.gen + 1) := by
  have hk : k < s.slots.length := by
    rcases Nat.lt_or_ge k s.slots.length with h1 | h1
    · exact h1
    · rw [List.getElem?_eq_none h1] at hv; cases hv
  have halloc : ∀ s2 id2, allocate s cur dur ca g fields = .ok (s2, id2) → out.state = s2 →
      out.id = id2 →
      v'.memos = [] ∧ v'.fields = fields ∧ k = out.id.idx ∧ v'.gen = out.id.gen ∧
      v'.updatedAt = some cur ∧ (FInv f s → v'.gen = v.gen + 1) := by
    intro s2 id2 ha hs hid
    obtain ⟨_, hcase⟩ := allocate_cases ha
    rw [hs] at hv'
    rcases hcase with ⟨id0, v0, hmem, _, hid2, _, hv0, hslots⟩ | ⟨_, _, hslots⟩
    · rw [hslots] at hv'
      by_cases hki : id2.idx = k
      · rw [hki] at hv0
        rw [← hki, getElem?_set_self' (hki ▸ hv0)] at hv'
        cases hv'
        refine ⟨rfl, rfl, by rw [hid, hki], by rw [hid]; rfl, rfl, ?_⟩
        intro hI
        obtain ⟨vd, hvd, _, hgd, _⟩ := hI.freeOK _ hmem
        have : id0.idx = k := by rw [← hki, hid2]
        rw [show ((g, id0) : Nat × Id).2.idx = k from this, hv] at hvd
        cases hvd
        show id2.gen = v.gen + 1
        rw [hid2, hgd]
      · rw [List.getElem?_set_ne hki, hv] at hv'
        cases hv'; exact absurd rfl hgen
    · rw [hslots, List.getElem?_append_left hk, hv] at hv'
      cases hv'; exact absurd rfl hgen
  obtain ⟨_, _, hcase⟩ := newStruct_cases h
  rcases hcase with ⟨id, v0, _, _, _, _, hs, _⟩ | ⟨id, v0, last, s2, id2, _, _, _, _, _, ha, _, hs, hid⟩ |
    ⟨id, v0, last, hfind, hv0, _, _, _, hs, hc⟩ | ⟨_, s2, id2, ha, _, hs, hid⟩
  · rw [hs, hv] at hv'; cases hv'; exact absurd rfl hgen
  · exact halloc s2 id2 ha hs hid
  · rw [hs] at hv'
    by_cases hki : id.idx = k
    · rw [← hki, getElem?_set_self' hv0] at hv'
      cases hv'
      rw [← hki, hv0] at hv
      cases hv
      rw [updatedValue_gen_eq] at hgen
      rcases hc with ⟨hc1, _, _⟩ | ⟨hc1, hid, _⟩
      · rw [hc1] at hgen; exact absurd rfl hgen
      · refine ⟨by rw [updatedValue_memos_eq, hc1]; rfl, updateFields_fields _ _ _ _,
          by rw [hid]; exact hki.symm,
          by rw [updatedValue_gen_eq, hc1, hid]; rfl, rfl, ?_⟩
        intro hI
        obtain ⟨e, he, _, heid⟩ := find_some_mem hfind
        obtain ⟨ve, hve, _, hge⟩ := hI.owns e he
        rw [heid, hv0] at hve
        cases hve
        rw [updatedValue_gen_eq, hc1, hge, heid]; rfl
    · rw [List.getElem?_set_ne hki, hv] at hv'
      cases hv'; exact absurd rfl hgen
  · exact halloc s2 id2 ha hs hid

theorem deleteAll_gen {s s' : State} {cur : Nat} {l : List (Identity × Id)}
    (h : deleteAll s cur l = .ok s') {k : Nat} {v : Slot} (hv : s.slots[k]? = some v) :
    ∃ v', s'.slots[k]? = some v' ∧ v'.gen = v.gen ∧ v'.fields = v.fields := by
  induction l generalizing s v with
  | nil => simp only [deleteAll, Except.ok.injEq] at h; exact ⟨v, h ▸ hv, rfl, rfl⟩
  | cons x rest ih =>
    obtain ⟨s1, h1, h2⟩ := deleteAll_cons h
    obtain ⟨v1, r, hv1, _, _, ht, _⟩ := deleteEntity_spec h1
    by_cases hk : k = x.2.idx
    · rw [hk, hv1] at hv
      cases hv
      obtain ⟨v', hv', hg, hf⟩ := ih h2 (hk ▸ ht.2)
      exact ⟨v', hv', hg, hf⟩
    · exact ih h2 (by rw [ht.1 k hk]; exact hv)

/-- `c07s_clear_on_bump` (world level): the only op that changes the generation recorded in an
    existing slot is `new`; it then leaves the slot with an empty memo table, the new fields,
    stamped with the current revision, and — in a state satisfying the invariant — with the old
    generation plus one.  All other ops keep every slot's generation. -/
theorem c07s_clear_on_bump_step {hash : Nat → Nat} {w w' : World} {op : Op}
    (h : step hash w op = .ok w') {k : Nat} {v v' : Slot} (hv : w.st.slots[k]? = some v)
    (hv' : w'.st.slots[k]? = some v') (hgen : v'.gen ≠ v.gen) :
    ∃ q cur dur ca g fields, op = .new q cur dur ca g fields ∧ v'.memos = [] ∧
      v'.fields = fields ∧ v'.updatedAt = some cur ∧ (WInv w → v'.gen = v.gen + 1) := by
  cases op with
  | spawn =>
    simp only [step, Except.ok.injEq] at h
    subst h
    rw [hv] at hv'; cases hv'; exact absurd rfl hgen
  | «begin» q =>
    simp only [step] at h
    split at h
    · simp only [Except.ok.injEq] at h
      subst h
      rw [hv] at hv'; cases hv'; exact absurd rfl hgen
    · cases h
  | new q cur dur ca g fields =>
    simp only [step] at h
    split at h
    · rename_i f hq
      split at h
      · cases h
      · rename_i out hns
        simp only [Except.ok.injEq] at h
        subst h
        obtain ⟨h1, h2, _, _, h5, h6⟩ := c07s_clear_on_bump hns hv hv' hgen
        refine ⟨q, cur, dur, ca, g, fields, rfl, h1, h2, h5, ?_⟩
        intro hI
        apply h6
        exact ⟨hI.freeOK, hI.freeNodup,
          fun e he => ctx_owns hI hq e.id (by simp only [ctxIds, List.mem_map]; exact ⟨e, he, rfl⟩),
          ctx_nodup hI hq⟩
    · cases h
  | finish q cur =>
    simp only [step] at h
    split at h
    · split at h
      · cases h
      · rename_i s2 hdel
        simp only [Except.ok.injEq] at h
        subst h
        obtain ⟨v2, hv2, hg, _⟩ := deleteAll_gen hdel hv
        rw [hv2] at hv'; cases hv'; exact absurd hg hgen
    · cases h
  | discard q cur =>
    simp only [step] at h
    split at h
    · split at h
      · cases h
      · rename_i s2 hdel
        simp only [Except.ok.injEq] at h
        subst h
        obtain ⟨v2, hv2, hg, _⟩ := deleteAll_gen hdel hv
        rw [hv2] at hv'; cases hv'; exact absurd hg hgen
    · cases h
  | read cur idx =>
    simp only [step] at h
    split at h
    · cases h
    · rename_i s2 hrd
      simp only [Except.ok.injEq] at h
      subst h
      obtain ⟨v0, r, hv0, _, hs⟩ := readField_cases hrd
      subst hs
      by_cases hk : idx = k
      · subst hk
        rw [hv] at hv0; cases hv0
        simp only [getElem?_set_self' hv, Option.some.injEq] at hv'
        subst hv'
        exact absurd rfl hgen
      · simp only [List.getElem?_set_ne hk] at hv'
        rw [hv] at hv'; cases hv'; exact absurd rfl hgen
  | addMemo idx payload =>
    simp only [step] at h
    split at h
    · cases h
    · rename_i s2 hrd
      simp only [Except.ok.injEq] at h
      subst h
      obtain ⟨v0, r, hv0, _, hs⟩ := addMemo_cases hrd
      subst hs
      by_cases hk : idx = k
      · subst hk
        rw [hv] at hv0; cases hv0
        simp only [getElem?_set_self' hv, Option.some.injEq] at hv'
        subst hv'
        exact absurd rfl hgen
      · simp only [List.getElem?_set_ne hk] at hv'
        rw [hv] at hv'; cases hv'; exact absurd rfl hgen

/-- `c07s_memo_gen`: in every state reachable from the empty world, every memo stored in a slot
    carries (was inserted under) the slot's current generation. -/
theorem c07s_memo_gen {hash : Nat → Nat} {ops : List Op} {w : World}
    (h : runOps hash World.empty ops = .ok w) :
    ∀ (k : Nat) (v : Slot), w.st.slots[k]? = some v → ∀ m : Memo, m ∈ v.memos → m.gen = v.gen :=
  (runOps_inv winv_empty h).memoGen

/-- … and the generation recorded in a live slot is the generation of every handle a creator
    holds for it (so "the slot's current generation" is the generation of the valid handles). -/
theorem c07s_handle_gen {hash : Nat → Nat} {ops : List Op} {w : World}
    (h : runOps hash World.empty ops = .ok w) {c : Ctx} (hc : c ∈ w.ctxs) {id : Id}
    (hid : id ∈ ctxIds c) :
    ∃ v, w.st.slots[id.idx]? = some v ∧ v.updatedAt ≠ none ∧ v.gen = id.gen :=
  (runOps_inv winv_empty h).owns c hc id hid

/-- `c07s_no_delete_in_rev` (a): a struct whose slot was created / updated / read in revision `r`
    (`updatedAt = some r`) cannot be deleted in `r`: `delete_entity` panics ("cannot delete
    read-locked id"); the model returns the error and no successor state.  (In Rust the
    `updated_at.swap(None)` has already happened when the panic is raised: after a caught unwind
    the slot is left as in `deleteEntityUnwound`, write-locked and NOT on the free list.) -/
theorem c07s_no_delete_in_rev {s : State} {r g : Nat} {id : Id} {v : Slot}
    (hv : s.slots[id.idx]? = some v) (hu : v.updatedAt = some r) :
    deleteEntity s r g id = .error .deleteReadLocked := by
  simp [deleteEntity, hv, hu]

/-- (a') consequently a diff (`deleteAll`) over a list containing such a struct does not succeed -/
theorem c07s_no_delete_in_rev_all {s : State} {r : Nat} {l : List (Identity × Id)}
    {x : Identity × Id} {v : Slot} (hx : x ∈ l) (hv : s.slots[x.2.idx]? = some v)
    (hu : v.updatedAt = some r) : ∀ s', deleteAll s r l ≠ .ok s' := by
  intro s' h
  obtain ⟨v', hv', hd, _⟩ := deleteAll_dead h hx
  rw [deleteAll_keeps_cur h hv hu] at hv'
  cases hv'
  rw [hu] at hd; cases hd

/-- (b) creation / update / re-validation by `newStruct` in revision `cur` stamps the slot of the
    returned id with `cur` -/
theorem c07s_new_stamps {hash : Nat → Nat} {cur dur ca g : Nat} {fields : Fields} {f : Frame}
    {s : State} {out : NewStruct} (h : newStruct hash cur dur ca g fields f s = .ok out) :
    ∃ v, out.state.slots[out.id.idx]? = some v ∧ v.updatedAt = some cur := by
  have halloc : ∀ s2 id2, allocate s cur dur ca g fields = .ok (s2, id2) →
      ∃ v, s2.slots[id2.idx]? = some v ∧ v.updatedAt = some cur := by
    intro s2 id2 ha
    obtain ⟨_, hcase⟩ := allocate_cases ha
    rcases hcase with ⟨id0, v0, _, _, _, _, hv0, hslots⟩ | ⟨_, hid, hslots⟩
    · exact ⟨_, by rw [hslots]; exact getElem?_set_self' hv0, rfl⟩
    · refine ⟨newValue 0 cur dur ca fields, ?_, rfl⟩
      rw [hslots, hid]
      simp
  obtain ⟨_, _, hcase⟩ := newStruct_cases h
  rcases hcase with ⟨id, v, _, hv, hu, _, hs, hid⟩ | ⟨id, v, last, s2, id2, _, _, _, _, _, ha, _, hs, hid⟩ |
    ⟨id, v, last, _, hv, _, _, _, hs, hc⟩ | ⟨_, s2, id2, ha, _, hs, hid⟩
  · exact ⟨v, by rw [hs, hid]; exact hv, hu⟩
  · rw [hs, hid]; exact halloc s2 id2 ha
  · have hidx : out.id.idx = id.idx := by
      rcases hc with ⟨_, hid, _⟩ | ⟨_, hid, _⟩ <;> rw [hid]
    exact ⟨_, by rw [hs, hidx]; exact getElem?_set_self' hv, rfl⟩
  · rw [hs, hid]; exact halloc s2 id2 ha

/-- (b') a field read in revision `cur` stamps the slot with `cur` -/
theorem c07s_read_stamps {s s' : State} {cur idx : Nat} (h : readField s cur idx = .ok s') :
    ∃ v, s'.slots[idx]? = some v ∧ v.updatedAt = some cur := by
  obtain ⟨v, r, hv, _, hs⟩ := readField_cases h
  exact ⟨_, by rw [hs]; exact getElem?_set_self' hv, rfl⟩

/-- (c) a slot stamped with the current revision is frozen for `newStruct` in that revision: it is
    neither updated (the `updated_at == cur` early return), nor re-allocated (it is not on the
    free list), so in particular its generation is not bumped and its memos are kept. -/
theorem c07s_frozen_in_rev {hash : Nat → Nat} {cur dur ca g : Nat} {fields : Fields} {f : Frame}
    {s : State} {out : NewStruct} (h : newStruct hash cur dur ca g fields f s = .ok out)
    (hF : FreeOK s) {k : Nat} {v : Slot} (hv : s.slots[k]? = some v)
    (hu : v.updatedAt = some cur) : out.state.slots[k]? = some v := by
  have hk : k < s.slots.length := by
    rcases Nat.lt_or_ge k s.slots.length with h1 | h1
    · exact h1
    · rw [List.getElem?_eq_none h1] at hv; cases hv
  have halloc : ∀ s2 id2, allocate s cur dur ca g fields = .ok (s2, id2) →
      s2.slots[k]? = some v := by
    intro s2 id2 ha
    obtain ⟨_, hcase⟩ := allocate_cases ha
    rcases hcase with ⟨id0, v0, hmem, _, hid2, _, _, hslots⟩ | ⟨_, _, hslots⟩
    · have hne : id2.idx ≠ k := by
        intro hc
        obtain ⟨vd, hvd, hdd, _⟩ := hF _ hmem
        have : id0.idx = k := by rw [← hc, hid2]
        rw [show ((g, id0) : Nat × Id).2.idx = k from this, hv] at hvd
        cases hvd
        rw [hu] at hdd; cases hdd
      rw [hslots, List.getElem?_set_ne hne]; exact hv
    · rw [hslots, List.getElem?_append_left hk]; exact hv
  obtain ⟨_, _, hcase⟩ := newStruct_cases h
  rcases hcase with ⟨id, v0, _, _, _, _, hs, _⟩ | ⟨id, v0, last, s2, id2, _, _, _, _, _, ha, _, hs, _⟩ |
    ⟨id, v0, last, _, hv0, hl, hne, _, hs, _⟩ | ⟨_, s2, id2, ha, _, hs, _⟩
  · rw [hs]; exact hv
  · rw [hs]; exact halloc s2 id2 ha
  · have hki : id.idx ≠ k := by
      intro hc
      rw [hc, hv] at hv0
      cases hv0
      rw [hu] at hl; cases hl
      exact hne rfl
    rw [hs]
    show (s.slots.set id.idx _)[k]? = some v
    rw [List.getElem?_set_ne hki]; exact hv
  · rw [hs]; exact halloc s2 id2 ha

/-- (d) a slot stamped with any revision is not on the free list (state satisfying `FreeOK`) -/
theorem c07s_stamped_not_free {s : State} (hF : FreeOK s) {k : Nat} {v : Slot} {r : Nat}
    (hv : s.slots[k]? = some v) (hu : v.updatedAt = some r) : k ∉ freeIdxs s.free := by
  intro hmem
  obtain ⟨p, hp, hpk⟩ := mem_freeIdxs.mp hmem
  exact free_not_live hF hp (hpk ▸ ⟨v, hv, by rw [hu]; simp⟩)

/-- (e) world level: in a reachable world, no op running in revision `r` changes a slot that is
    stamped with `r`, except `read r` (idempotent re-stamp) and `addMemo` (memo insertion);
    `finish`/`discard` in `r` whose diff contains the struct panic. -/
theorem c07s_frozen_step {hash : Nat → Nat} {w w' : World} (hI : WInv w) {k : Nat} {v : Slot}
    {r : Nat} (hv : w.st.slots[k]? = some v) (hu : v.updatedAt = some r) :
    (∀ q dur ca g fields, step hash w (.new q r dur ca g fields) = .ok w' →
        w'.st.slots[k]? = some v) ∧
    (∀ q, step hash w (.finish q r) = .ok w' → w'.st.slots[k]? = some v) ∧
    (∀ q, step hash w (.discard q r) = .ok w' → w'.st.slots[k]? = some v) ∧
    (∀ idx, step hash w (.read r idx) = .ok w' → w'.st.slots[k]? = some v) := by
  refine ⟨?_, ?_, ?_, ?_⟩
  · intro q dur ca g fields h
    simp only [step] at h
    split at h
    · split at h
      · cases h
      · rename_i out hns
        simp only [Except.ok.injEq] at h
        subst h
        exact c07s_frozen_in_rev hns hI.freeOK hv hu
    · cases h
  · intro q h
    simp only [step] at h
    split at h
    · split at h
      · cases h
      · rename_i s2 hdel
        simp only [Except.ok.injEq] at h
        subst h
        exact deleteAll_keeps_cur hdel hv hu
    · cases h
  · intro q h
    simp only [step] at h
    split at h
    · split at h
      · cases h
      · rename_i s2 hdel
        simp only [Except.ok.injEq] at h
        subst h
        exact deleteAll_keeps_cur hdel hv hu
    · cases h
  · intro idx h
    simp only [step] at h
    split at h
    · cases h
    · rename_i s2 hrd
      simp only [Except.ok.injEq] at h
      subst h
      obtain ⟨v0, r0, hv0, _, hs⟩ := readField_cases hrd
      subst hs
      by_cases hk : idx = k
      · subst hk
        rw [hv] at hv0; cases hv0
        show (w.st.slots.set idx _)[idx]? = some v
        rw [getElem?_set_self' hv]
        congr 1
        cases v
        simp only at hu
        simp [hu]
      · show (w.st.slots.set idx _)[k]? = some v
        rw [List.getElem?_set_ne hk]; exact hv

/-! ### hash consistency: the recorded identity hash is the hash of the stored identity value -/

theorem newStruct_hashOK {hash : Nat → Nat} {cur dur ca g : Nat} {fields : Fields} {f : Frame}
    {s : State} {out : NewStruct} (h : newStruct hash cur dur ca g fields f s = .ok out)
    (hI : FInv f s) (hH : ∀ e, e ∈ f.idmap → HashAt hash s e.pair) :
    ∀ e, e ∈ out.frame.idmap → HashAt hash out.state e.pair := by
  have hm1own : ∀ e, e ∈ nsM1 hash f g fields →
      ∃ e0, e0 ∈ f.idmap ∧ e.identity = e0.identity ∧ e.id = e0.id := by
    intro e he
    obtain ⟨e0, h0, h1, h2, _⟩ := mem_markActive he
    exact ⟨e0, h0, h1, h2⟩
  have hpair : ∀ e e0 : Entry, e.identity = e0.identity → e.id = e0.id → e.pair = e0.pair := by
    intro e e0 h1 h2; simp [Entry.pair, h1, h2]
  have hIhash : (newIdentity hash f g fields).hash = hash fields.idv := rfl
  have halloc : ∀ s2 id2, allocate s cur dur ca g fields = .ok (s2, id2) →
      out.frame.idmap
        = IdentityMap.insertEntry (nsM1 hash f g fields) (newIdentity hash f g fields) id2 true →
      out.state = s2 → ∀ e, e ∈ out.frame.idmap → HashAt hash out.state e.pair := by
    intro s2 id2 ha hmap hs e he
    obtain ⟨hnl, ht, _⟩ := allocate_spec ha hI.freeOK hI.freeNodup
    rw [hmap] at he
    rw [hs]
    rcases mem_insertEntry he with h1 | h1
    · rw [h1]
      exact ⟨_, ht.2, by simp [newValue, Entry.pair, hIhash]⟩
    · obtain ⟨e0, h0, hi0, hd0⟩ := hm1own e h1
      rw [hpair e e0 hi0 hd0]
      have hne : e0.id.idx ≠ id2.idx := fun hc => hnl (hc ▸ (hI.owns e0 h0).live)
      obtain ⟨v, hv, hh⟩ := hH e0 h0
      exact ⟨v, (ht.1 _ hne).trans hv, hh⟩
  obtain ⟨_, _, hcase⟩ := newStruct_cases h
  rcases hcase with ⟨id, v, hfind, hv, hu, hmap, hs, hid⟩ |
    ⟨id, v, last, s2, id2, _, _, _, _, _, ha, hmap, hs, hid⟩ |
    ⟨id, v, last, hfind, hv, hl, _, _, hs, hch⟩ | ⟨_, s2, id2, ha, hmap, hs, hid⟩
  · intro e he
    rw [hmap] at he
    obtain ⟨e0, h0, hi0, hd0⟩ := hm1own e he
    rw [hs, hpair e e0 hi0 hd0]; exact hH e0 h0
  · exact halloc s2 id2 ha hmap hs
  · have ht : Touch s out.state id.idx (updatedValue v cur dur ca id fields) := by
      rw [hs]; exact touch_set hv
    have hnewslot : hash (updatedValue v cur dur ca id fields).fields.idv
        = (newIdentity hash f g fields).hash := by
      show hash (updateFields ca v.revs v.fields fields).fields.idv = _
      rw [updateFields_fields]; rfl
    have hold : ∀ e0, e0 ∈ f.idmap → e0.id.idx ≠ id.idx → HashAt hash out.state e0.pair := by
      intro e0 h0 hne
      obtain ⟨v0, hv0, hh⟩ := hH e0 h0
      exact ⟨v0, (ht.1 _ hne).trans hv0, hh⟩
    rcases hch with ⟨_, hid, hmap⟩ | ⟨_, hid, hmap⟩
    · intro e he
      rw [hmap] at he
      obtain ⟨e0, h0, hi0, hd0⟩ := hm1own e he
      rw [hpair e e0 hi0 hd0]
      by_cases hi : e0.id.idx = id.idx
      · obtain ⟨hx, hy⟩ := mem_idx_eq_find hI.nodup hfind h0 hi
        refine ⟨_, by rw [show e0.pair.2.idx = id.idx from hi]; exact ht.2, ?_⟩
        rw [hnewslot]; simp [Entry.pair, hy]
      · exact hold e0 h0 hi
    · have hfind1 : IdentityMap.find (nsM1 hash f g fields) (newIdentity hash f g fields)
          = some id := by
        unfold nsM1; rw [find_markActive]; exact hfind
      have hm1 : idxs (nsM1 hash f g fields) = idxs f.idmap := idxs_markActive _ _
      intro e he
      rw [hmap] at he
      rcases mem_insertEntry_of_find (hm1 ▸ hI.nodup) hfind1 he with h1 | ⟨h1, h2⟩
      · rw [h1]
        exact ⟨_, ht.2, hnewslot⟩
      · obtain ⟨e0, h0, hi0, hd0⟩ := hm1own e h1
        rw [hpair e e0 hi0 hd0]
        exact hold e0 h0 (hd0 ▸ h2)
  · exact halloc s2 id2 ha hmap hs

/-- the (identity, id) pairs a creator holds -/
def ctxPairs : Ctx → List (Identity × Id)
  | .idle a => a
  | .running f => f.idmap.map Entry.pair

theorem ctxIds_eq (c : Ctx) : ctxIds c = (ctxPairs c).map (fun x => x.2) := by
  cases c with
  | idle a => rfl
  | running f => simp [ctxIds, ctxPairs, List.map_map, Entry.pair]

theorem ctxIdxs_eq (c : Ctx) : ctxIdxs c = pairIdxs (ctxPairs c) := by
  cases c with
  | idle a => rfl
  | running f => simp [ctxIdxs, ctxPairs, pairIdxs, idxs, List.map_map, Entry.pair]

/-- hash consistency of every handle of every creator -/
def WHash (hash : Nat → Nat) (w : World) : Prop :=
  ∀ c, c ∈ w.ctxs → ∀ x, x ∈ ctxPairs c → HashAt hash w.st x

theorem whash_replace {hash : Nat → Nat} {w : World} {q : Nat} {c c' : Ctx} {s' : State}
    (hI : WInv w) (hH : WHash hash w) (hq : w.ctxs[q]? = some c)
    (hown' : ∀ x, x ∈ ctxPairs c' → HashAt hash s' x)
    (hoth : ∀ k, k ∉ ctxIdxs c → Live w.st k → s'.slots[k]? = w.st.slots[k]?) :
    WHash hash ⟨s', w.ctxs.set q c'⟩ := by
  intro c0 hc0 x hx
  obtain ⟨i, hi⟩ := List.mem_iff_getElem?.mp hc0
  simp only [List.getElem?_set] at hi
  by_cases hqi : q = i
  · rw [if_pos hqi] at hi
    split at hi
    · cases hi; exact hown' x hx
    · cases hi
  · rw [if_neg hqi] at hi
    have hc0' : c0 ∈ w.ctxs := List.mem_of_getElem? hi
    have hxi : x.2.idx ∈ ctxIdxs c0 := by
      rw [ctxIdxs_eq]; exact mem_pairIdxs.mpr ⟨x, hx, rfl⟩
    have hnot : x.2.idx ∉ ctxIdxs c := winv_cross hI hi hq (Ne.symm hqi) hxi
    have hlive : Live w.st x.2.idx := by
      apply Owns.live (id := x.2)
      apply hI.owns c0 hc0'
      rw [ctxIds_eq]; exact List.mem_map.mpr ⟨x, hx, rfl⟩
    obtain ⟨v, hv, hh⟩ := hH c0 hc0' x hx
    exact ⟨v, by rw [hoth _ hnot hlive]; exact hv, hh⟩

theorem whash_touch {hash : Nat → Nat} {w : World} {s' : State} {k : Nat} {v v' : Slot}
    (hH : WHash hash w) (hv : w.st.slots[k]? = some v) (ht : Touch w.st s' k v')
    (hf : v'.fields = v.fields) : WHash hash ⟨s', w.ctxs⟩ := by
  intro c hc x hx
  obtain ⟨v0, hv0, hh⟩ := hH c hc x hx
  by_cases hk : x.2.idx = k
  · rw [hk, hv] at hv0
    cases hv0
    exact ⟨v', by rw [hk]; exact ht.2, by rw [hf]; exact hh⟩
  · exact ⟨v0, by rw [ht.1 _ hk]; exact hv0, hh⟩

theorem step_hash {hash : Nat → Nat} {w w' : World} {op : Op} (hI : WInv w) (hH : WHash hash w)
    (h : step hash w op = .ok w') : WHash hash w' := by
  cases op with
  | spawn =>
    simp only [step, Except.ok.injEq] at h
    subst h
    intro c hc x hx
    rcases List.mem_append.mp hc with hc | hc
    · exact hH c hc x hx
    · simp only [List.mem_singleton] at hc
      subst hc
      simp [ctxPairs] at hx
  | «begin» q =>
    simp only [step] at h
    split at h
    · rename_i a hq
      simp only [Except.ok.injEq] at h
      subst h
      apply whash_replace hI hH hq
      · intro x hx
        simp only [ctxPairs, Frame.seed, List.mem_map] at hx
        obtain ⟨e, he, hex⟩ := hx
        rcases mem_seed he with h1 | ⟨h1, _⟩
        · simp at h1
        · exact hex ▸ hH _ (List.mem_of_getElem? hq) e.pair h1
      · intro k _ _; rfl
    · cases h
  | new q cur dur ca g fields =>
    simp only [step] at h
    split at h
    · rename_i f hq
      split at h
      · cases h
      · rename_i out hns
        simp only [Except.ok.injEq] at h
        subst h
        have hF : FInv f w.st := ⟨hI.freeOK, hI.freeNodup,
          fun e he => ctx_owns hI hq e.id (by simp only [ctxIds, List.mem_map]; exact ⟨e, he, rfl⟩),
          ctx_nodup hI hq⟩
        have hN := newStruct_inv hns hF.freeOK hF.freeNodup hF.owns hF.nodup
        apply whash_replace hI hH hq
        · intro x hx
          simp only [ctxPairs, List.mem_map] at hx
          obtain ⟨e, he, hex⟩ := hx
          rw [← hex]
          apply newStruct_hashOK hns hF _ e he
          intro e0 he0
          exact hH _ (List.mem_of_getElem? hq) e0.pair (by
            simp only [ctxPairs, List.mem_map]; exact ⟨e0, he0, rfl⟩)
        · exact hN.others
    · cases h
  | finish q cur =>
    simp only [step] at h
    split at h
    · rename_i f hq
      split at h
      · cases h
      · rename_i s2 hdel
        simp only [Except.ok.injEq] at h
        subst h
        have hnd : (idxs f.idmap).Nodup := ctx_nodup hI hq
        have hownE : ∀ e, e ∈ f.idmap → Owns w.st e.id := fun e he =>
          ctx_owns hI hq e.id (by simp only [ctxIds, List.mem_map]; exact ⟨e, he, rfl⟩)
        have hstale_idx : ∀ n, n ∈ pairIdxs (IdentityMap.drain f.idmap).2 → n ∈ idxs f.idmap := by
          intro n hn
          obtain ⟨x, hx, hxn⟩ := mem_pairIdxs.mp hn
          obtain ⟨e, he, _, hp⟩ := mem_drain_stale.mp hx
          exact mem_idxs.mpr ⟨e, he, by rw [← hxn, ← hp]; rfl⟩
        have hS := deleteAll_spec hdel hI.freeOK hI.freeNodup (by
          intro x hx
          obtain ⟨e, he, _, hp⟩ := mem_drain_stale.mp hx
          rw [← hp]; exact hownE e he) (drain_stale_nodup hnd)
        apply whash_replace hI hH hq
        · intro x hx
          simp only [ctxPairs] at hx
          obtain ⟨e, he, _, hp⟩ := mem_drain_active.mp hx
          obtain ⟨v, hv, hh⟩ := hH _ (List.mem_of_getElem? hq) e.pair (by
            simp only [ctxPairs, List.mem_map]; exact ⟨e, he, rfl⟩)
          rw [← hp]
          refine ⟨v, ?_, hh⟩
          rw [hS.others]
          · exact hv
          · intro hmem
            obtain ⟨y, hy, hyn⟩ := mem_pairIdxs.mp hmem
            exact drain_disjoint hnd hx hy (by rw [← hp, hyn])
        · intro k hk _
          exact hS.others k (fun hmem => hk (hstale_idx k hmem))
    · cases h
  | discard q cur =>
    simp only [step] at h
    split at h
    · rename_i a hq
      split at h
      · cases h
      · rename_i s2 hdel
        simp only [Except.ok.injEq] at h
        subst h
        have hS := deleteAll_spec hdel hI.freeOK hI.freeNodup (by
          intro x hx
          exact ctx_owns hI hq x.2 (by simp only [ctxIds, List.mem_map]; exact ⟨x, hx, rfl⟩))
          (ctx_nodup hI hq)
        apply whash_replace hI hH hq
        · intro x hx; simp [ctxPairs] at hx
        · intro k hk _; exact hS.others k hk
    · cases h
  | read cur idx =>
    simp only [step] at h
    split at h
    · cases h
    · rename_i s2 hrd
      simp only [Except.ok.injEq] at h
      subst h
      obtain ⟨v, r, hv, _, hs⟩ := readField_cases hrd
      subst hs
      exact whash_touch hH hv (touch_set hv) rfl
  | addMemo idx payload =>
    simp only [step] at h
    split at h
    · cases h
    · rename_i s2 hrd
      simp only [Except.ok.injEq] at h
      subst h
      obtain ⟨v, r, hv, _, hs⟩ := addMemo_cases hrd
      subst hs
      exact whash_touch hH hv (touch_set hv) rfl

theorem runOps_hash {hash : Nat → Nat} {w w' : World} {ops : List Op} (hI : WInv w)
    (hH : WHash hash w) (h : runOps hash w ops = .ok w') : WHash hash w' := by
  induction ops generalizing w with
  | nil => simp only [runOps, Except.ok.injEq] at h; exact h ▸ hH
  | cons op rest ih =>
    unfold runOps at h
    split at h
    · cases h
    · rename_i w1 h1
      exact ih (step_inv hI h1) (step_hash hI hH h1) h

theorem whash_empty (hash : Nat → Nat) : WHash hash World.empty := by
  intro c hc; simp [World.empty] at hc

/-! ### the identity map is a function: keys are pairwise distinct -/

def keys (m : List Entry) : List Identity := m.map (fun e => e.identity)

theorem keys_markActive (m : List Entry) (key : Identity) :
    keys (IdentityMap.markActive m key) = keys m := by
  induction m with
  | nil => rfl
  | cons e rest ih =>
    by_cases hk : e.identity = key
    · simp [IdentityMap.markActive, hk, keys]
    · simp only [IdentityMap.markActive, hk, if_false]
      show e.identity :: keys (IdentityMap.markActive rest key) = e.identity :: keys rest
      rw [ih]

theorem mem_keys_insertEntry {m : List Entry} {key : Identity} {id : Id} {a : Bool} {k : Identity}
    (h : k ∈ keys (IdentityMap.insertEntry m key id a)) : k = key ∨ k ∈ keys m := by
  simp only [keys, List.mem_map] at h ⊢
  obtain ⟨e, he, hek⟩ := h
  rcases mem_insertEntry he with h1 | h1
  · left; rw [← hek, h1]
  · right; exact ⟨e, h1, hek⟩

theorem keys_insertEntry_nodup {m : List Entry} {key : Identity} {id : Id} {a : Bool}
    (h : (keys m).Nodup) : (keys (IdentityMap.insertEntry m key id a)).Nodup := by
  induction m with
  | nil => simp [IdentityMap.insertEntry, keys]
  | cons e rest ih =>
    have h' : e.identity ∉ keys rest ∧ (keys rest).Nodup := by
      simpa [keys, List.nodup_cons] using h
    by_cases hk : e.identity = key
    · simp only [IdentityMap.insertEntry, hk, if_true]
      show (key :: keys rest).Nodup
      exact List.nodup_cons.mpr ⟨hk ▸ h'.1, h'.2⟩
    · simp only [IdentityMap.insertEntry, hk, if_false]
      show (e.identity :: keys (IdentityMap.insertEntry rest key id a)).Nodup
      refine List.nodup_cons.mpr ⟨?_, ih h'.2⟩
      intro hmem
      rcases mem_keys_insertEntry hmem with h1 | h1
      · exact hk h1
      · exact h'.1 h1

theorem keys_seed_nodup {m : List Entry} {a : List (Identity × Id)} (h : (keys m).Nodup) :
    (keys (IdentityMap.seed m a)).Nodup := by
  induction a generalizing m with
  | nil => exact h
  | cons x rest ih =>
    obtain ⟨key, id⟩ := x
    simp only [IdentityMap.seed]
    exact ih (keys_insertEntry_nodup h)

theorem newStruct_keys_nodup {hash : Nat → Nat} {cur dur ca g : Nat} {fields : Fields} {f : Frame}
    {s : State} {out : NewStruct} (h : newStruct hash cur dur ca g fields f s = .ok out)
    (hk : (keys f.idmap).Nodup) : (keys out.frame.idmap).Nodup := by
  rcases newStruct_idmap h with hm | ⟨id', hm⟩
  · rw [hm, keys_markActive]; exact hk
  · rw [hm]; exact keys_insertEntry_nodup (by rw [keys_markActive]; exact hk)

theorem runCreations_keys_nodup {hash : Nat → Nat} {cur : Nat} {cs : List Creation} {f f' : Frame}
    {s s' : State} {rs : List (Identity × Id)}
    (h : runCreations hash cur cs f s = .ok (f', s', rs)) (hk : (keys f.idmap).Nodup) :
    (keys f'.idmap).Nodup := by
  induction cs generalizing f s rs with
  | nil =>
    simp only [runCreations, Except.ok.injEq, Prod.mk.injEq] at h
    obtain ⟨h1, _, _⟩ := h
    subst h1; exact hk
  | cons c rest ih =>
    obtain ⟨out, f1, s1, rs1, hns, hrest, hr⟩ := runCreations_cons h
    simp only [Prod.mk.injEq] at hr
    obtain ⟨hr1, hr2, _⟩ := hr
    subst hr1; subst hr2
    exact ih hrest (newStruct_keys_nodup hns hk)

theorem drain_active_keys_nodup {m : List Entry} (h : (keys m).Nodup) :
    ((IdentityMap.drain m).1.map (fun x => x.1)).Nodup := by
  unfold IdentityMap.drain
  simp only [List.map_map]
  exact List.Nodup.sublist ((List.filter_sublist (l := m)).map _) h

theorem find_seed_not_mem {m : List Entry} {a : List (Identity × Id)} {I : Identity}
    (h : I ∉ a.map (fun x => x.1)) :
    IdentityMap.find (IdentityMap.seed m a) I = IdentityMap.find m I := by
  induction a generalizing m with
  | nil => rfl
  | cons x rest ih =>
    obtain ⟨key, id⟩ := x
    have h' : ¬ I = key ∧ I ∉ rest.map (fun x => x.1) := by
      simpa [List.mem_cons] using h
    simp only [IdentityMap.seed]
    rw [ih h'.2, find_insertEntry, if_neg (fun hc => h'.1 hc.symm)]

/-- seeding from a list with pairwise distinct identities records exactly the list -/
theorem find_seed_of_mem {m : List Entry} {a : List (Identity × Id)} {I : Identity} {id : Id}
    (hk : (a.map (fun x => x.1)).Nodup) (h : (I, id) ∈ a) :
    IdentityMap.find (IdentityMap.seed m a) I = some id := by
  induction a generalizing m with
  | nil => simp at h
  | cons x rest ih =>
    obtain ⟨key, id0⟩ := x
    have hk' : key ∉ rest.map (fun x => x.1) ∧ (rest.map (fun x => x.1)).Nodup := by
      simpa [List.nodup_cons] using hk
    simp only [IdentityMap.seed]
    rcases List.mem_cons.mp h with h1 | h1
    · simp only [Prod.mk.injEq] at h1
      obtain ⟨h2, h3⟩ := h1
      subst h2; subst h3
      rw [find_seed_not_mem hk'.1, find_insertEntry, if_pos rfl]
    · exact ih hk'.2 h1

/-- every struct created by an execution is in the new memo's id list, under the identity it was
    registered with, and seeding the next execution from that list finds it again -/
theorem runExecution_created_active {hash : Nat → Nat} {cur : Nat} {prev : List (Identity × Id)}
    {cs : List Creation} {s : State} {out : ExecOut}
    (h : runExecution hash cur prev cs s = .ok out)
    (hF : FreeOK s) (hN : FreeNodup s) (hown : ∀ x, x ∈ prev → Owns s x.2)
    (hnd : (pairIdxs prev).Nodup) :
    (out.active.map (fun x => x.1)).Nodup ∧
    ∀ x, x ∈ out.created → x ∈ out.active ∧
      IdentityMap.find (Frame.seed out.active).idmap x.1 = some x.2 := by
  obtain ⟨f1, s1, hrun, hdel, hact, _⟩ := runExecution_cases h
  have hI := finv_seed hF hN hown hnd
  have hkeys : (keys f1.idmap).Nodup :=
    runCreations_keys_nodup hrun (keys_seed_nodup (m := []) (by simp [keys]))
  have hand : (out.active.map (fun x => x.1)).Nodup := by
    rw [hact]; exact drain_active_keys_nodup hkeys
  refine ⟨hand, ?_⟩
  -- generalised over the remaining creations
  have key : ∀ (cs : List Creation) (f : Frame) (s0 : State) (rs : List (Identity × Id)),
      runCreations hash cur cs f s0 = .ok (f1, s1, rs) → FInv f s0 →
      ∀ x, x ∈ rs → IdentityMap.find f1.idmap x.1 = some x.2 ∧
        ∃ v, s1.slots[x.2.idx]? = some v ∧ v.updatedAt = some cur := by
    intro cs
    induction cs with
    | nil =>
      intro f s0 rs hr _ x hx
      simp only [runCreations, Except.ok.injEq, Prod.mk.injEq] at hr
      obtain ⟨_, _, h3⟩ := hr
      subst h3; simp at hx
    | cons c rest ih =>
      intro f s0 rs hr hI0 x hx
      obtain ⟨o, f2, s2, rs2, hns, hrest, hrr⟩ := runCreations_cons hr
      simp only [Prod.mk.injEq] at hrr
      obtain ⟨hr1, hr2, hr3⟩ := hrr
      subst hr1; subst hr2; subst hr3
      have hI1 := newStruct_finv hns hI0
      rcases List.mem_cons.mp hx with h1 | h1
      · subst h1
        obtain ⟨a1, a2⟩ := runCreations_other hrest hI1 (runCreations_head_ne hns hrest)
          (newStruct_find_self hns)
        obtain ⟨v, hv, hu⟩ := c07s_new_stamps hns
        exact ⟨a1, v, a2.trans hv, hu⟩
      · exact ih o.frame o.state rs2 hrest hI1 x h1
  intro x hx
  obtain ⟨hfind, v, hv, hu⟩ := key cs _ s out.created hrun hI x hx
  have hmem : x ∈ out.active := by
    obtain ⟨e, he, heI, heid⟩ := find_some_mem hfind
    rw [hact]
    cases ha : e.active with
    | true => exact mem_drain_active.mpr ⟨e, he, ha, by simp [Entry.pair, heI, heid]⟩
    | false =>
      exfalso
      have hst : x ∈ (IdentityMap.drain f1.idmap).2 :=
        mem_drain_stale.mpr ⟨e, he, ha, by simp [Entry.pair, heI, heid]⟩
      exact c07s_no_delete_in_rev_all hst hv hu _ hdel
  exact ⟨hmem, find_seed_of_mem hand hmem⟩

theorem runCreations_hashOK {hash : Nat → Nat} {cur : Nat} {cs : List Creation} {f f' : Frame}
    {s s' : State} {rs : List (Identity × Id)}
    (h : runCreations hash cur cs f s = .ok (f', s', rs)) (hI : FInv f s)
    (hH : ∀ e, e ∈ f.idmap → HashAt hash s e.pair) :
    ∀ e, e ∈ f'.idmap → HashAt hash s' e.pair := by
  induction cs generalizing f s rs with
  | nil =>
    simp only [runCreations, Except.ok.injEq, Prod.mk.injEq] at h
    obtain ⟨h1, h2, _⟩ := h
    subst h1; subst h2; exact hH
  | cons c rest ih =>
    obtain ⟨out, f1, s1, rs1, hns, hrest, hr⟩ := runCreations_cons h
    simp only [Prod.mk.injEq] at hr
    obtain ⟨hr1, hr2, _⟩ := hr
    subst hr1; subst hr2
    exact ih hrest (newStruct_finv hns hI) (newStruct_hashOK hns hI hH)

/-- the consistency conditions assumed by `c06_same_id` hold again after the execution, for the
    new memo's id list -/
theorem runExecution_post {hash : Nat → Nat} {cur : Nat} {prev : List (Identity × Id)}
    {cs : List Creation} {s : State} {out : ExecOut}
    (h : runExecution hash cur prev cs s = .ok out)
    (hF : FreeOK s) (hN : FreeNodup s) (hown : ∀ x, x ∈ prev → Owns s x.2)
    (hnd : (pairIdxs prev).Nodup) (hhash : ∀ x, x ∈ prev → HashAt hash s x) :
    FreeOK out.state ∧ FreeNodup out.state ∧ (∀ x, x ∈ out.active → Owns out.state x.2) ∧
    (pairIdxs out.active).Nodup ∧ (∀ x, x ∈ out.active → HashAt hash out.state x) := by
  obtain ⟨f1, s1, hrun, hdel, hact, _⟩ := runExecution_cases h
  have hI := finv_seed hF hN hown hnd
  have hI1 := runCreations_finv hrun hI
  have hH1 := runCreations_hashOK hrun hI (by
    intro e he
    rcases mem_seed he with h1 | ⟨h1, _⟩
    · simp at h1
    · exact hhash e.pair h1)
  have hS := deleteAll_spec hdel hI1.freeOK hI1.freeNodup (by
    intro x hx
    obtain ⟨e, he, _, hp⟩ := mem_drain_stale.mp hx
    rw [← hp]; exact hI1.owns e he) (drain_stale_nodup hI1.nodup)
  have hsame : ∀ x, x ∈ (IdentityMap.drain f1.idmap).1 →
      out.state.slots[x.2.idx]? = s1.slots[x.2.idx]? := by
    intro x hx
    apply hS.others
    intro hmem
    obtain ⟨y, hy, hyn⟩ := mem_pairIdxs.mp hmem
    exact drain_disjoint hI1.nodup hx hy hyn.symm
  refine ⟨hS.freeOK, hS.freeNodup, ?_, by rw [hact]; exact drain_active_nodup hI1.nodup, ?_⟩
  · intro x hx
    rw [hact] at hx
    obtain ⟨e, he, _, hp⟩ := mem_drain_active.mp hx
    apply owns_of_slot_eq (hsame x hx)
    rw [← hp]; exact hI1.owns e he
  · intro x hx
    rw [hact] at hx
    obtain ⟨e, he, _, hp⟩ := mem_drain_active.mp hx
    obtain ⟨v, hv, hh⟩ := hH1 e he
    rw [hp] at hv hh
    exact ⟨v, (hsame x hx).trans hv, hh⟩

/-! ### an uninterrupted `begin; new…; finish` of the world is `runExecution` -/

theorem set_same {α : Type} {l : List α} {q : Nat} {a : α} (h : l[q]? = some a) : l.set q a = l := by
  apply List.ext_getElem?
  intro i
  rw [List.getElem?_set]
  by_cases hqi : q = i
  · subst hqi
    obtain ⟨hq, _⟩ := List.getElem?_eq_some_iff.mp h
    simp only [if_true, hq]
    exact h.symm
  · simp [hqi]

theorem runOps_append {hash : Nat → Nat} {w w1 : World} {a b : List Op}
    (h : runOps hash w a = .ok w1) : runOps hash w (a ++ b) = runOps hash w1 b := by
  induction a generalizing w with
  | nil => simp only [runOps, Except.ok.injEq] at h; subst h; rfl
  | cons op rest ih =>
    simp only [List.cons_append]
    unfold runOps at h
    split at h
    · cases h
    · rename_i w2 h2
      rw [runOps, h2]
      exact ih h

/-- the op of creator `q` for one creation -/
def newOp (q cur : Nat) (c : Creation) : Op := .new q cur c.dur c.changedAt c.ingr c.fields

theorem runOps_news {hash : Nat → Nat} {cur q : Nat} {cs : List Creation} {f f' : Frame}
    {w : World} {s' : State} {rs : List (Identity × Id)}
    (hq : w.ctxs[q]? = some (Ctx.running f))
    (h : runCreations hash cur cs f w.st = .ok (f', s', rs)) :
    runOps hash w (cs.map (newOp q cur)) = .ok ⟨s', w.ctxs.set q (Ctx.running f')⟩ := by
  induction cs generalizing w f rs with
  | nil =>
    simp only [runCreations, Except.ok.injEq, Prod.mk.injEq] at h
    obtain ⟨h1, h2, _⟩ := h
    subst h1; subst h2
    simp only [List.map_nil, runOps, set_same hq]
  | cons c rest ih =>
    obtain ⟨out, f1, s1, rs1, hns, hrest, hr⟩ := runCreations_cons h
    simp only [Prod.mk.injEq] at hr
    obtain ⟨hr1, hr2, _⟩ := hr
    subst hr1; subst hr2
    obtain ⟨hql, _⟩ := List.getElem?_eq_some_iff.mp hq
    have hstep : step hash w (newOp q cur c)
        = .ok ⟨out.state, w.ctxs.set q (Ctx.running out.frame)⟩ := by
      simp only [newOp, step, hq, hns]
    simp only [List.map_cons, runOps, hstep]
    have := ih (w := ⟨out.state, w.ctxs.set q (Ctx.running out.frame)⟩) (f := out.frame)
      (by simp [List.getElem?_set_self hql]) hrest
    rw [this]
    simp [List.set_set]

/-- `runExecution` is exactly the world's `begin q; new q …; finish q` run without interleaving -/
theorem world_exec {hash : Nat → Nat} {cur q : Nat} {prev : List (Identity × Id)}
    {cs : List Creation} {w : World} {out : ExecOut}
    (hq : w.ctxs[q]? = some (Ctx.idle prev))
    (h : runExecution hash cur prev cs w.st = .ok out) :
    runOps hash w (Op.begin q :: (cs.map (newOp q cur) ++ [Op.finish q cur]))
      = .ok ⟨out.state, w.ctxs.set q (Ctx.idle out.active)⟩ := by
  obtain ⟨f1, s1, hrun, hdel, hact, _⟩ := runExecution_cases h
  obtain ⟨hql, _⟩ := List.getElem?_eq_some_iff.mp hq
  have hbegin : step hash w (Op.begin q)
      = .ok ⟨w.st, w.ctxs.set q (Ctx.running (Frame.seed prev))⟩ := by
    simp only [step, hq]
  have hq1 : (w.ctxs.set q (Ctx.running (Frame.seed prev)))[q]?
      = some (Ctx.running (Frame.seed prev)) := by simp [List.getElem?_set_self hql]
  have hnews := runOps_news (w := ⟨w.st, w.ctxs.set q (Ctx.running (Frame.seed prev))⟩) hq1 hrun
  simp only [runOps, hbegin]
  rw [runOps_append hnews]
  simp only [List.set_set, runOps, step, List.getElem?_set_self hql, hdel, hact]

/-! ### converse of `FreeOK`: a deleted slot is on the free list unless its generation is exhausted -/

/-- every deleted slot (`updatedAt = none`) is on the free list with its current generation,
    unless it was leaked because its generation is exhausted -/
def DeadOnFree (s : State) : Prop :=
  ∀ (k : Nat) (v : Slot), s.slots[k]? = some v → v.updatedAt = none →
    (∃ g, (g, (⟨k, v.gen⟩ : Id)) ∈ s.free) ∨ GEN_MAX ≤ v.gen

theorem allocLoop_mem {g : Nat} {l : List (Nat × Id)} {p : Nat × Id} (hp : p ∈ l) :
    p ∈ (allocLoop g l).2 ∨ GEN_MAX ≤ p.2.gen ∨
    (allocLoop g l).1 = some ⟨p.2.idx, p.2.gen + 1⟩ := by
  induction l with
  | nil => simp at hp
  | cons x rest ih =>
    obtain ⟨g', id⟩ := x
    unfold allocLoop
    by_cases hg : g' = g
    · simp only [hg, if_true]
      cases hnext : id.nextGeneration with
      | some id' =>
        simp only
        obtain ⟨_, hid'⟩ := nextGeneration_some hnext
        rcases List.mem_cons.mp hp with h1 | h1
        · right; right; rw [h1, hid']
        · left; exact h1
      | none =>
        simp only
        rcases List.mem_cons.mp hp with h1 | h1
        · right; left
          rw [h1]
          unfold Id.nextGeneration at hnext
          by_cases hlt : id.gen < GEN_MAX
          · simp [hlt] at hnext
          · exact Nat.le_of_not_lt hlt
        · exact ih h1
    · simp only [hg, if_false]
      rcases List.mem_cons.mp hp with h1 | h1
      · left; rw [h1]; exact List.mem_cons_self
      · rcases ih h1 with h2 | h2 | h2
        · left; exact List.mem_cons_of_mem _ h2
        · right; left; exact h2
        · right; right; exact h2

theorem newStruct_deadOnFree {hash : Nat → Nat} {cur dur ca g : Nat} {fields : Fields} {f : Frame}
    {s : State} {out : NewStruct} (h : newStruct hash cur dur ca g fields f s = .ok out)
    (hD : DeadOnFree s) : DeadOnFree out.state := by
  have halloc : ∀ s2 id2, allocate s cur dur ca g fields = .ok (s2, id2) → DeadOnFree s2 := by
    intro s2 id2 ha k v hv hu
    obtain ⟨hfree, hcase⟩ := allocate_cases ha
    have hsame : k ≠ id2.idx → s.slots[k]? = some v := by
      intro hne
      rcases hcase with ⟨_, _, _, _, _, _, _, hslots⟩ | ⟨_, hid, hslots⟩
      · rw [hslots, List.getElem?_set_ne (Ne.symm hne)] at hv; exact hv
      · rw [hslots] at hv
        rcases Nat.lt_or_ge k s.slots.length with h1 | h1
        · rw [List.getElem?_append_left h1] at hv; exact hv
        · have hgt : s.slots.length < k := by
            rw [hid] at hne; exact Nat.lt_of_le_of_ne h1 (Ne.symm hne)
          rw [List.getElem?_eq_none (by simp; omega)] at hv; cases hv
    have hne : k ≠ id2.idx := by
      intro hc
      rcases hcase with ⟨_, v0, _, _, _, _, hv0, hslots⟩ | ⟨_, hid, hslots⟩
      · rw [hslots, hc, getElem?_set_self' hv0] at hv
        cases hv; cases hu
      · rw [hslots, hc, hid] at hv
        simp at hv
        rw [← hv] at hu; cases hu
    rcases hD k v (hsame hne) hu with ⟨g0, hmem⟩ | hge
    · rcases allocLoop_mem (g := g) hmem with h1 | h1 | h1
      · left; exact ⟨g0, by rw [hfree]; exact h1⟩
      · right; exact h1
      · exfalso
        rcases hcase with ⟨_, _, _, _, _, hloop, _, _⟩ | ⟨hloop, _, _⟩
        · rw [hloop] at h1
          simp only [Option.some.injEq] at h1
          exact hne (by rw [h1])
        · rw [hloop] at h1; cases h1
    · right; exact hge
  obtain ⟨_, _, hcase⟩ := newStruct_cases h
  rcases hcase with ⟨id, v0, _, _, _, _, hs, _⟩ | ⟨id, v0, last, s2, id2, _, _, _, _, _, ha, _, hs, _⟩ |
    ⟨id, v0, last, _, hv0, _, _, _, hs, _⟩ | ⟨_, s2, id2, ha, _, hs, _⟩
  · rw [hs]; exact hD
  · rw [hs]; exact halloc s2 id2 ha
  · rw [hs]
    intro k v hv hu
    by_cases hk : id.idx = k
    · subst hk
      simp only [getElem?_set_self' hv0, Option.some.injEq] at hv
      subst hv
      cases hu
    · simp only [List.getElem?_set_ne hk] at hv
      exact hD k v hv hu
  · rw [hs]; exact halloc s2 id2 ha

theorem deleteAll_deadOnFree {s s' : State} {cur : Nat} {l : List (Identity × Id)}
    (h : deleteAll s cur l = .ok s') (hF : FreeOK s) (hN : FreeNodup s)
    (hown : ∀ x, x ∈ l → Owns s x.2) (hnd : (pairIdxs l).Nodup) (hD : DeadOnFree s) :
    DeadOnFree s' := by
  have hS := deleteAll_spec h hF hN hown hnd
  intro k v hv hu
  by_cases hk : k ∈ pairIdxs l
  · obtain ⟨x, hx, hxk⟩ := mem_pairIdxs.mp hk
    obtain ⟨v0, hv0, hd0⟩ := hS.dead x hx
    obtain ⟨v1, hv1, _, hg1⟩ := hown x hx
    rw [hv0] at hv1; cases hv1
    rw [hxk, hv] at hd0
    cases hd0
    left
    refine ⟨x.1.ingr, ?_⟩
    rw [hS.free]
    apply List.mem_append_right
    apply List.mem_map.mpr
    refine ⟨x, hx, ?_⟩
    have : x.2 = ⟨k, (deadValue v0).gen⟩ := by
      cases hx2 : x.2 with
      | mk i gn =>
        rw [hx2] at hxk hg1
        simp only at hxk hg1
        simp [deadValue, hxk, hg1]
    rw [this]
  · rw [hS.others k hk] at hv
    rcases hD k v hv hu with ⟨g0, hmem⟩ | hge
    · left; exact ⟨g0, by rw [hS.free]; exact List.mem_append_left _ hmem⟩
    · right; exact hge

theorem step_deadOnFree {hash : Nat → Nat} {w w' : World} {op : Op} (hI : WInv w)
    (hD : DeadOnFree w.st) (h : step hash w op = .ok w') : DeadOnFree w'.st := by
  cases op with
  | spawn => simp only [step, Except.ok.injEq] at h; subst h; exact hD
  | «begin» q =>
    simp only [step] at h
    split at h
    · simp only [Except.ok.injEq] at h; subst h; exact hD
    · cases h
  | new q cur dur ca g fields =>
    simp only [step] at h
    split at h
    · split at h
      · cases h
      · rename_i out hns
        simp only [Except.ok.injEq] at h
        subst h
        exact newStruct_deadOnFree hns hD
    · cases h
  | finish q cur =>
    simp only [step] at h
    split at h
    · rename_i f hq
      split at h
      · cases h
      · rename_i s2 hdel
        simp only [Except.ok.injEq] at h
        subst h
        have hnd : (idxs f.idmap).Nodup := ctx_nodup hI hq
        exact deleteAll_deadOnFree hdel hI.freeOK hI.freeNodup (by
          intro x hx
          obtain ⟨e, he, _, hp⟩ := mem_drain_stale.mp hx
          rw [← hp]
          exact ctx_owns hI hq e.id (by simp only [ctxIds, List.mem_map]; exact ⟨e, he, rfl⟩))
          (drain_stale_nodup hnd) hD
    · cases h
  | discard q cur =>
    simp only [step] at h
    split at h
    · rename_i a hq
      split at h
      · cases h
      · rename_i s2 hdel
        simp only [Except.ok.injEq] at h
        subst h
        exact deleteAll_deadOnFree hdel hI.freeOK hI.freeNodup (by
          intro x hx
          exact ctx_owns hI hq x.2 (by simp only [ctxIds, List.mem_map]; exact ⟨x, hx, rfl⟩))
          (ctx_nodup hI hq) hD
    · cases h
  | read cur idx =>
    simp only [step] at h
    split at h
    · cases h
    · rename_i s2 hrd
      simp only [Except.ok.injEq] at h
      subst h
      obtain ⟨v0, r, hv0, _, hs⟩ := readField_cases hrd
      subst hs
      intro k v hv hu
      by_cases hk : idx = k
      · subst hk
        simp only [getElem?_set_self' hv0, Option.some.injEq] at hv
        subst hv; cases hu
      · simp only [List.getElem?_set_ne hk] at hv
        exact hD k v hv hu
  | addMemo idx payload =>
    simp only [step] at h
    split at h
    · cases h
    · rename_i s2 hrd
      simp only [Except.ok.injEq] at h
      subst h
      obtain ⟨v0, r, hv0, hr0, hs⟩ := addMemo_cases hrd
      subst hs
      intro k v hv hu
      by_cases hk : idx = k
      · subst hk
        simp only [getElem?_set_self' hv0, Option.some.injEq] at hv
        subst hv
        simp only at hu
        rw [hr0] at hu; cases hu
      · simp only [List.getElem?_set_ne hk] at hv
        exact hD k v hv hu

theorem runOps_deadOnFree {hash : Nat → Nat} {w w' : World} {ops : List Op} (hI : WInv w)
    (hD : DeadOnFree w.st) (h : runOps hash w ops = .ok w') : DeadOnFree w'.st := by
  induction ops generalizing w with
  | nil => simp only [runOps, Except.ok.injEq] at h; exact h ▸ hD
  | cons op rest ih =>
    unfold runOps at h
    split at h
    · cases h
    · rename_i w1 h1
      exact ih (step_inv hI h1) (step_deadOnFree hI hD h1) h

theorem deadOnFree_empty : DeadOnFree World.empty.st := by
  intro k v hv; simp [World.empty, State.empty] at hv

/-- what a CAUGHT `delete_entity` panic leaves behind (`updated_at.swap(None)` precedes the check):
    the slot is write-locked for ever — every later read, update or delete of it panics — its memos
    are NOT cleared and it is NOT on the free list (the slot is leaked). -/
theorem c07s_delete_unwound {s : State} {id : Id} {v : Slot} (hv : s.slots[id.idx]? = some v) :
    (deleteEntityUnwound s id).slots[id.idx]? = some { v with updatedAt := none } ∧
    (deleteEntityUnwound s id).free = s.free ∧
    (∀ cur g, deleteEntity (deleteEntityUnwound s id) cur g id = .error .deleteWriteLocked) ∧
    (∀ cur, readField (deleteEntityUnwound s id) cur id.idx = .error .readWriteLocked) := by
  have h1 : (deleteEntityUnwound s id).slots[id.idx]? = some { v with updatedAt := none } := by
    simp only [deleteEntityUnwound, hv]
    exact getElem?_set_self' hv
  refine ⟨h1, by simp only [deleteEntityUnwound, hv], ?_, ?_⟩
  · intro cur g; simp [deleteEntity, h1]
  · intro cur; simp [readField, h1]

/-! ### the stale list handed to `diff_outputs` is sorted by (ingredient, index, generation) -/

theorem staleLe_total (a b : Identity × Id) : staleLe a b = false → staleLe b a = true := by
  simp only [staleLe, Bool.or_eq_false_iff, Bool.and_eq_false_iff, Bool.or_eq_true,
    Bool.and_eq_true, decide_eq_true_eq, decide_eq_false_iff_not]
  omega

theorem staleLe_trans (a b c : Identity × Id) :
    staleLe a b = true → staleLe b c = true → staleLe a c = true := by
  simp only [staleLe, Bool.or_eq_true, Bool.and_eq_true, decide_eq_true_eq]
  omega

theorem insertSorted_sorted (a : Identity × Id) (l : List (Identity × Id))
    (h : l.Pairwise (fun x y => staleLe x y = true)) :
    (insertSorted a l).Pairwise (fun x y => staleLe x y = true) := by
  induction l with
  | nil => simp [insertSorted]
  | cons b rest ih =>
    rw [List.pairwise_cons] at h
    unfold insertSorted
    cases hle : staleLe a b with
    | true =>
      simp only [if_true]
      refine List.pairwise_cons.mpr ⟨?_, List.pairwise_cons.mpr h⟩
      intro x hx
      rcases List.mem_cons.mp hx with h1 | h1
      · rw [h1]; exact hle
      · exact staleLe_trans a b x hle (h.1 x h1)
    | false =>
      simp only [Bool.false_eq_true, if_false]
      refine List.pairwise_cons.mpr ⟨?_, ih h.2⟩
      intro x hx
      rcases List.mem_cons.mp ((insertSorted_perm a rest).mem_iff.mp hx) with h1 | h1
      · rw [h1]; exact staleLe_total a b hle
      · exact h.1 x h1

theorem sortStale_sorted (l : List (Identity × Id)) :
    (sortStale l).Pairwise (fun x y => staleLe x y = true) := by
  induction l with
  | nil => simp [sortStale]
  | cons a rest ih => unfold sortStale; exact insertSorted_sorted a _ ih

theorem drain_stale_sorted (m : List Entry) :
    (IdentityMap.drain m).2.Pairwise (fun x y => staleLe x y = true) := sortStale_sorted _

end SalsaVerif.Proofs.Structs
