/-
  Helper lemmas for Props/C07–C09: invariants of the interner shard (Model/Intern.lean).
  Core Lean only.
-/
import SalsaVerif.Model.Intern

namespace SalsaVerif.Proofs.Intern
open SalsaVerif.Model.Intern

/-! ### table lookup -/

theorem slot?_id {sh : Shard} {i : Nat} {v : Slot} (h : sh.slot? i = some v) : v.id = i := by
  have := List.find?_some h
  simpa using this

theorem find_map_set (l : List Slot) (w : Slot) (i : Nat) :
    (l.map (fun u => if u.id == w.id then w else u)).find? (fun v => v.id == i) =
      if i = w.id then (l.find? (fun v => v.id == i)).map (fun _ => w)
      else l.find? (fun v => v.id == i) := by
  induction l with
  | nil => simp
  | cons u l ih =>
    simp only [List.map_cons, List.find?_cons]
    by_cases h1 : u.id = w.id <;> by_cases h2 : i = w.id <;> grind

theorem slot?_setSlot (sh : Shard) (w : Slot) (i : Nat) :
    (sh.setSlot w).slot? i = if i = w.id then (sh.slot? i).map (fun _ => w) else sh.slot? i := by
  unfold Shard.setSlot Shard.slot?
  exact find_map_set sh.slots w i

theorem slot?_lru (sh : Shard) (l : List Nat) (i : Nat) :
    ({ sh with lru := l } : Shard).slot? i = sh.slot? i := rfl

theorem slot?_append (sh : Shard) (w : Slot) (km : List (Nat × Nat)) (l : List Nat) (i : Nat) :
    (⟨sh.slots ++ [w], km, l⟩ : Shard).slot? i =
      (sh.slot? i).or (if w.id = i then some w else none) := by
  unfold Shard.slot?
  simp only [List.find?_append, List.find?_cons, List.find?_nil]
  by_cases h : w.id = i
  · simp [h]
  · have : (w.id == i) = false := by simpa using h
    simp [this, h]

/-! ### key map -/

theorem lookup_some_mem {l : List (Nat × Nat)} {k i : Nat} (h : l.lookup k = some i) :
    (k, i) ∈ l := by
  induction l with
  | nil => simp [List.lookup] at h
  | cons a t ih =>
    obtain ⟨a1, a2⟩ := a
    rw [List.lookup_cons] at h
    by_cases e : k = a1
    · subst e
      simp at h
      subst h
      exact List.mem_cons_self
    · have : (k == a1) = false := by simpa using e
      rw [this] at h
      exact List.mem_cons_of_mem _ (ih h)

theorem lookup_none_not_mem {l : List (Nat × Nat)} {k : Nat} (h : l.lookup k = none) :
    ∀ i, (k, i) ∉ l := by
  induction l with
  | nil => simp
  | cons a t ih =>
    obtain ⟨a1, a2⟩ := a
    rw [List.lookup_cons] at h
    by_cases e : k = a1
    · subst e; simp at h
    · have : (k == a1) = false := by simpa using e
      rw [this] at h
      intro i hi
      rcases List.mem_cons.mp hi with hh | hh
      · injection hh with h1 _; exact e h1
      · exact ih h i hh

theorem lookup_none_not_mem_keys {l : List (Nat × Nat)} {k : Nat} (h : l.lookup k = none) :
    k ∉ l.map (·.1) := by
  intro hm
  obtain ⟨⟨a, b⟩, hab, e⟩ := List.mem_map.mp hm
  simp only at e
  subst e
  exact lookup_none_not_mem h b hab

theorem lookup_of_mem_nodup {l : List (Nat × Nat)} {k i : Nat} (hn : (l.map (·.1)).Nodup)
    (h : (k, i) ∈ l) : l.lookup k = some i := by
  induction l with
  | nil => simp at h
  | cons a t ih =>
    obtain ⟨a1, a2⟩ := a
    rw [List.map_cons, List.nodup_cons] at hn
    rw [List.lookup_cons]
    rcases List.mem_cons.mp h with hh | hh
    · injection hh with h1 h2
      subst h1; subst h2
      simp
    · by_cases e : k = a1
      · subst e
        exact absurd (List.mem_map.mpr ⟨(k, i), hh, rfl⟩) hn.1
      · have : (k == a1) = false := by simpa using e
        rw [this]
        exact ih hn.2 hh

theorem nodup_of_keys_nodup {l : List (Nat × Nat)} (hn : (l.map (·.1)).Nodup) : l.Nodup := by
  induction l with
  | nil => simp
  | cons a t ih =>
    rw [List.map_cons, List.nodup_cons] at hn
    rw [List.nodup_cons]
    exact ⟨fun h => hn.1 (List.mem_map.mpr ⟨a, h, rfl⟩), ih hn.2⟩

theorem keys_nodup_erase {l : List (Nat × Nat)} (p : Nat × Nat) (hn : (l.map (·.1)).Nodup) :
    ((l.erase p).map (·.1)).Nodup :=
  List.Nodup.sublist (List.Sublist.map _ List.erase_sublist) hn

theorem isReusable_iff (rev : Option Nat) (d : Nat) :
    isReusable rev d = true ↔ rev.isSome = true ∧ d = 0 := by
  simp [isReusable, LOW]

/-! ### the shard invariant -/

/-- Key map = bijection between live field values and slots; the LRU list holds exactly the
    reusable slots (except leaked ones at the maximal generation), no duplicates; every memo was
    inserted under the current generation. -/
structure ShardInv (rev : Option Nat) (sh : Shard) : Prop where
  key_nodup : (sh.keyMap.map (·.1)).Nodup
  key_iff : ∀ f i, (f, i) ∈ sh.keyMap ↔ ∃ v, sh.slot? i = some v ∧ v.fields = f
  lru_nodup : sh.lru.Nodup
  lru_reusable : ∀ i ∈ sh.lru, ∃ v, sh.slot? i = some v ∧ isReusable rev v.durability = true
  lru_complete : ∀ i v, sh.slot? i = some v → isReusable rev v.durability = true →
    v.generation < GEN_MAX → i ∈ sh.lru
  memo_gen : ∀ i v, sh.slot? i = some v → ∀ m ∈ v.memos, m = v.generation

theorem inv_empty (rev : Option Nat) : ShardInv rev Shard.empty := by
  refine ⟨by simp [Shard.empty], ?_, by simp [Shard.empty], by simp [Shard.empty], ?_, ?_⟩
  · intro f i; simp [Shard.empty, Shard.slot?]
  · intro i v h; simp [Shard.empty, Shard.slot?] at h
  · intro i v h; simp [Shard.empty, Shard.slot?] at h

/-- Two different slots hold different values. -/
theorem fields_injective {rev : Option Nat} {sh : Shard} (inv : ShardInv rev sh) {i j : Nat}
    {v w : Slot} (hv : sh.slot? i = some v) (hw : sh.slot? j = some w)
    (hf : v.fields = w.fields) : i = j := by
  have h1 : (v.fields, i) ∈ sh.keyMap := (inv.key_iff _ _).mpr ⟨v, hv, rfl⟩
  have h2 : (v.fields, j) ∈ sh.keyMap := (inv.key_iff _ _).mpr ⟨w, hw, hf.symm⟩
  have e1 := lookup_of_mem_nodup inv.key_nodup h1
  have e2 := lookup_of_mem_nodup inv.key_nodup h2
  rw [e1] at e2
  injection e2

/-- In-place modification of a slot that keeps id and fields, with a new LRU list. -/
theorem inv_modify {rev : Option Nat} {sh : Shard} (inv : ShardInv rev sh) (v w : Slot)
    (L : List Nat)
    (hv : sh.slot? w.id = some v) (hf : w.fields = v.fields)
    (hL : L.Nodup) (hLo : ∀ i, i ≠ w.id → (i ∈ L ↔ i ∈ sh.lru))
    (hL1 : w.id ∈ L → isReusable rev w.durability = true)
    (hL2 : isReusable rev w.durability = true → w.generation < GEN_MAX → w.id ∈ L)
    (hm : ∀ m ∈ w.memos, m = w.generation) :
    ShardInv rev { (sh.setSlot w) with lru := L } := by
  have hs : ∀ i, ({ (sh.setSlot w) with lru := L } : Shard).slot? i =
      if i = w.id then some w else sh.slot? i := by
    intro i
    rw [slot?_lru, slot?_setSlot]
    by_cases h : i = w.id
    · subst h; simp [hv]
    · simp [h]
  refine ⟨inv.key_nodup, ?_, hL, ?_, ?_, ?_⟩
  · intro f i
    show (f, i) ∈ sh.keyMap ↔ _
    rw [inv.key_iff, hs]
    by_cases h : i = w.id
    · subst h
      simp only [if_true, hv]
      constructor
      · rintro ⟨u, hu, e⟩
        injection hu with hu
        subst hu
        exact ⟨w, rfl, hf.trans e⟩
      · rintro ⟨u, hu, e⟩
        injection hu with hu
        subst hu
        exact ⟨v, rfl, hf.symm.trans e⟩
    · simp only [if_neg h]
  · intro i hi
    rw [hs]
    by_cases h : i = w.id
    · subst h
      exact ⟨w, by simp, hL1 hi⟩
    · simp only [if_neg h]
      exact inv.lru_reusable i ((hLo i h).mp hi)
  · intro i u hu hr hg
    rw [hs] at hu
    by_cases h : i = w.id
    · subst h
      simp only [if_true] at hu
      injection hu with hu
      subst hu
      exact hL2 hr hg
    · simp only [if_neg h] at hu
      exact (hLo i h).mpr (inv.lru_complete i u hu hr hg)
  · intro i u hu
    rw [hs] at hu
    by_cases h : i = w.id
    · subst h
      simp only [if_true] at hu
      injection hu with hu
      subst hu
      exact hm
    · simp only [if_neg h] at hu
      exact inv.memo_gen i u hu

/-! ### hit -/

theorem internHit_slot? (rev : Option Nat) (cur d : Nat) (q : Bool) (sh : Shard) (v : Slot)
    (hv : sh.slot? v.id = some v) (i : Nat) :
    (internHit rev cur d q sh v).1.slot? i =
      if i = v.id then
        some { v with lastInternedAt := if v.lastInternedAt < cur then cur else v.lastInternedAt,
                      durability := if q then max v.durability d else v.durability }
      else sh.slot? i := by
  simp only [internHit, slot?_lru, slot?_setSlot, decide_eq_true_eq]
  by_cases h : i = v.id
  · subst h; simp [hv]
  · simp [h]

theorem internHit_keyMap (rev : Option Nat) (cur d : Nat) (q : Bool) (sh : Shard) (v : Slot) :
    (internHit rev cur d q sh v).1.keyMap = sh.keyMap := rfl

theorem internHit_out (rev : Option Nat) (cur d : Nat) (q : Bool) (sh : Shard) (v : Slot) :
    (internHit rev cur d q sh v).2 = ⟨.hit, v.id, v.generation⟩ := rfl

theorem hit_lru_facts (lru : List Nat) (id : Nat) (A B : Bool) (hnd : lru.Nodup) :
    (if B then (if A then id :: lru.erase id else lru).erase id
      else (if A then id :: lru.erase id else lru)).Nodup ∧
    (∀ i, i ≠ id → (i ∈ (if B then (if A then id :: lru.erase id else lru).erase id
      else (if A then id :: lru.erase id else lru)) ↔ i ∈ lru)) ∧
    (id ∈ (if B then (if A then id :: lru.erase id else lru).erase id
      else (if A then id :: lru.erase id else lru)) ↔ (B = false ∧ (A = true ∨ id ∈ lru))) := by
  have h1 : (id :: lru.erase id).Nodup :=
    List.nodup_cons.mpr ⟨fun h => ((List.Nodup.mem_erase_iff hnd).mp h).1 rfl, hnd.erase _⟩
  have h2 : id ∉ lru.erase id := fun h => ((List.Nodup.mem_erase_iff hnd).mp h).1 rfl
  cases A <;> cases B
  · simp [hnd]
  · refine ⟨by simpa using hnd.erase _, ?_, ?_⟩
    · intro i hi; simp [List.mem_erase_of_ne hi]
    · simp [h2]
  · refine ⟨by simpa using h1, ?_, ?_⟩
    · intro i hi; simp [List.mem_erase_of_ne hi, hi]
    · simp
  · refine ⟨by simpa using hnd.erase _, ?_, ?_⟩
    · intro i hi; simp [List.mem_erase_of_ne hi]
    · simp [h2]

theorem inv_hit {rev : Option Nat} {sh : Shard} (inv : ShardInv rev sh) (cur d : Nat) (q : Bool)
    (v : Slot) (hv : sh.slot? v.id = some v) :
    ShardInv rev (internHit rev cur d q sh v).1 := by
  have hnd := inv.lru_nodup
  have hin : isReusable rev v.durability = true → v.generation < GEN_MAX → v.id ∈ sh.lru :=
    inv.lru_complete v.id v hv
  have hre : v.id ∈ sh.lru → isReusable rev v.durability = true := by
    intro h
    obtain ⟨u, hu, hr⟩ := inv.lru_reusable _ h
    rw [hv] at hu; injection hu with hu; subst hu; exact hr
  obtain ⟨F1, F2, F3⟩ := hit_lru_facts sh.lru v.id
    (decide (v.lastInternedAt < cur) && isReusable rev v.durability)
    (q && isReusable rev v.durability &&
      !isReusable rev (if q then max v.durability d else v.durability)) hnd
  -- how the durabilities relate
  have hdur : isReusable rev (if q then max v.durability d else v.durability) = true →
      isReusable rev v.durability = true := by
    simp only [isReusable_iff]
    rintro ⟨h1, h2⟩
    refine ⟨h1, ?_⟩
    cases q
    · simpa using h2
    · simp only [if_true] at h2; omega
  unfold internHit
  simp only
  apply inv_modify inv v
  · exact hv
  · rfl
  · exact F1
  · exact F2
  · intro hmem
    have := F3.mp hmem
    obtain ⟨hB, hA⟩ := this
    have hr0 : isReusable rev v.durability = true := by
      rcases hA with hA | hA
      · simp only [Bool.and_eq_true] at hA; exact hA.2
      · exact hre hA
    show isReusable rev (if q = true then max v.durability d else v.durability) = true
    cases q
    · simpa using hr0
    · simp only [hr0, Bool.true_and, Bool.not_eq_eq_eq_not, Bool.not_false] at hB
      simpa using hB
  · intro hr hg
    have hr' : isReusable rev (if q = true then max v.durability d else v.durability) = true := hr
    refine F3.mpr ⟨?_, Or.inr (hin (hdur hr') hg)⟩
    simp [hr']
  · intro m hm
    exact inv.memo_gen v.id v hv m hm

/-! ### cold -/

theorem internCold_slot? (rev : Option Nat) (cur d : Nat) (q : Bool) (key fresh : Nat) (sh : Shard)
    (i : Nat) :
    (internCold rev cur d q key fresh sh).1.slot? i =
      (sh.slot? i).or (if fresh = i then
        some ⟨fresh, key, 0, newLastInternedAt cur q, newDurability d q, []⟩ else none) := by
  simp only [internCold]
  rw [slot?_append]

theorem inv_cold {rev : Option Nat} {sh : Shard} (inv : ShardInv rev sh) (cur d : Nat) (q : Bool)
    (key fresh : Nat) (hfresh : sh.slot? fresh = none) (hkey : sh.keyMap.lookup key = none) :
    ShardInv rev (internCold rev cur d q key fresh sh).1 := by
  have hs : ∀ i, (internCold rev cur d q key fresh sh).1.slot? i =
      if i = fresh then some ⟨fresh, key, 0, newLastInternedAt cur q, newDurability d q, []⟩
      else sh.slot? i := by
    intro i
    rw [internCold_slot?]
    by_cases h : i = fresh
    · subst h; simp [hfresh]
    · have h' : ¬ fresh = i := fun e => h e.symm
      simp [h, h']
  have hfl : fresh ∉ sh.lru := by
    intro h
    obtain ⟨u, hu, _⟩ := inv.lru_reusable _ h
    rw [hfresh] at hu; cases hu
  refine ⟨?_, ?_, ?_, ?_, ?_, ?_⟩
  · show (((key, fresh) :: sh.keyMap).map (·.1)).Nodup
    rw [List.map_cons, List.nodup_cons]
    exact ⟨lookup_none_not_mem_keys hkey, inv.key_nodup⟩
  · intro f i
    show (f, i) ∈ (key, fresh) :: sh.keyMap ↔ _
    rw [hs, List.mem_cons, inv.key_iff]
    by_cases h : i = fresh
    · subst h
      simp only [if_true, hfresh]
      constructor
      · rintro (e | ⟨u, hu, _⟩)
        · injection e with e1 _
          exact ⟨_, rfl, e1.symm⟩
        · cases hu
      · rintro ⟨u, hu, e⟩
        injection hu with hu
        subst hu
        left
        simp only at e
        rw [e]
    · simp only [if_neg h]
      constructor
      · rintro (e | h')
        · injection e with _ e2; exact absurd e2 h
        · exact h'
      · intro h'; exact Or.inr h'
  · show (if isReusable rev (newDurability d q) = true then fresh :: sh.lru else sh.lru).Nodup
    split
    · exact List.nodup_cons.mpr ⟨hfl, inv.lru_nodup⟩
    · exact inv.lru_nodup
  · intro i hi
    have hi' : i ∈ (if isReusable rev (newDurability d q) = true then fresh :: sh.lru else sh.lru) := hi
    rw [hs]
    by_cases h : i = fresh
    · subst h
      simp only [if_true]
      split at hi'
      · rename_i hr; exact ⟨_, rfl, hr⟩
      · exact absurd hi' hfl
    · simp only [if_neg h]
      split at hi'
      · rcases List.mem_cons.mp hi' with e | e
        · exact absurd e h
        · exact inv.lru_reusable i e
      · exact inv.lru_reusable i hi'
  · intro i u hu hr hg
    show i ∈ (if isReusable rev (newDurability d q) = true then fresh :: sh.lru else sh.lru)
    rw [hs] at hu
    by_cases h : i = fresh
    · subst h
      simp only [if_true] at hu
      injection hu with hu
      subst hu
      simp only at hr
      rw [if_pos hr]
      exact List.mem_cons_self
    · simp only [if_neg h] at hu
      have := inv.lru_complete i u hu hr hg
      split
      · exact List.mem_cons_of_mem _ this
      · exact this
  · intro i u hu
    rw [hs] at hu
    by_cases h : i = fresh
    · subst h
      simp only [if_true] at hu
      injection hu with hu
      subst hu
      simp
    · simp only [if_neg h] at hu
      exact inv.memo_gen i u hu

/-! ### the LRU scan -/

theorem scan_spec (q : RevisionQueue) (sh : Shard) (l : List Nat) :
    ∀ r o, scanLru q sh l = some (r, o) →
      (∃ pre, l = pre ++ r ∧ ∀ i ∈ pre, ∃ w, sh.slot? i = some w ∧ ¬ w.generation < GEN_MAX) ∧
      (∀ v, o = some v → sh.slot? v.id = some v ∧ q.isStale v.lastInternedAt = true ∧
        v.generation < GEN_MAX ∧ ∃ rest, r = v.id :: rest) ∧
      (o = none → ∀ i rest, r = i :: rest →
        ∃ w, sh.slot? i = some w ∧ q.isStale w.lastInternedAt = false) := by
  induction l with
  | nil =>
    intro r o h
    simp only [scanLru, Option.some.injEq, Prod.mk.injEq] at h
    obtain ⟨rfl, rfl⟩ := h
    exact ⟨⟨[], rfl, by simp⟩, by simp, by simp⟩
  | cons id rest ih =>
    intro r o h
    unfold scanLru at h
    cases hs : sh.slot? id with
    | none => rw [hs] at h; cases h
    | some w =>
      rw [hs] at h
      simp only at h
      have hwid := slot?_id hs
      by_cases h1 : (!q.isStale w.lastInternedAt) = true
      · rw [if_pos h1] at h
        simp only [Option.some.injEq, Prod.mk.injEq] at h
        obtain ⟨rfl, rfl⟩ := h
        refine ⟨⟨[], rfl, by simp⟩, by simp, ?_⟩
        intro _ i rest' e
        injection e with e1 _
        subst e1
        exact ⟨w, hs, by simpa using h1⟩
      · rw [if_neg h1] at h
        by_cases h2 : w.generation < GEN_MAX
        · rw [if_pos h2] at h
          simp only [Option.some.injEq, Prod.mk.injEq] at h
          obtain ⟨rfl, rfl⟩ := h
          refine ⟨⟨[], rfl, by simp⟩, ?_, by simp⟩
          intro v hv
          injection hv with hv
          subst hv
          exact ⟨hwid ▸ hs, by simpa using h1, h2, rest, by rw [hwid]⟩
        · rw [if_neg h2] at h
          obtain ⟨⟨pre, hpre, hall⟩, hb, hc⟩ := ih r o h
          refine ⟨⟨id :: pre, by rw [hpre]; rfl, ?_⟩, hb, hc⟩
          intro i hi
          rcases List.mem_cons.mp hi with e | e
          · subst e; exact ⟨w, hs, h2⟩
          · exact hall i e

theorem scan_some (q : RevisionQueue) (sh : Shard) (l : List Nat)
    (h : ∀ i ∈ l, ∃ w, sh.slot? i = some w) : ∃ r, scanLru q sh l = some r := by
  induction l with
  | nil => exact ⟨_, rfl⟩
  | cons id rest ih =>
    obtain ⟨w, hw⟩ := h id List.mem_cons_self
    unfold scanLru
    rw [hw]
    simp only
    split
    · exact ⟨_, rfl⟩
    · split
      · exact ⟨_, rfl⟩
      · exact ih (fun i hi => h i (List.mem_cons_of_mem _ hi))

/-- Unlinking the leaked (maximal generation) entries found by the scan keeps the invariant. -/
theorem inv_scan {rev : Option Nat} {sh : Shard} (inv : ShardInv rev sh) (q : RevisionQueue)
    (r : List Nat) (o : Option Slot) (h : scanLru q sh sh.lru.reverse = some (r, o)) :
    ShardInv rev { sh with lru := r.reverse } ∧ (∀ i, i ∈ r.reverse → i ∈ sh.lru) := by
  obtain ⟨⟨pre, hpre, hall⟩, _, _⟩ := scan_spec q sh _ r o h
  have hl : sh.lru = r.reverse ++ pre.reverse := by
    have := congrArg List.reverse hpre
    simpa using this
  have hsub : ∀ i, i ∈ r.reverse → i ∈ sh.lru := by
    intro i hi; rw [hl]; exact List.mem_append_left _ hi
  refine ⟨⟨inv.key_nodup, inv.key_iff, ?_, ?_, ?_, inv.memo_gen⟩, hsub⟩
  · have := inv.lru_nodup
    rw [hl] at this
    exact (List.nodup_append.mp this).1
  · intro i hi
    exact inv.lru_reusable i (hsub i hi)
  · intro i v hv hr hg
    have := inv.lru_complete i v hv hr hg
    rw [hl] at this
    rcases List.mem_append.mp this with h' | h'
    · exact h'
    · obtain ⟨w, hw, hng⟩ := hall i (List.mem_reverse.mp h')
      have hw' : sh.slot? i = some w := hw
      have hv' : sh.slot? i = some v := hv
      rw [hv'] at hw'
      injection hw' with hw'
      subst hw'
      exact absurd hg hng

/-! ### reuse -/

theorem internReuse_some {rev : Option Nat} {sh : Shard} (inv : ShardInv rev sh) (cur d : Nat)
    (q : Bool) (key : Nat) (v : Slot) (hv : sh.slot? v.id = some v) :
    internReuse rev cur d q key sh v =
      some ({ slots := (sh.setSlot ⟨v.id, key, v.generation + 1, newLastInternedAt cur q,
                  newDurability d q, []⟩).slots,
              keyMap := (key, v.id) :: sh.keyMap.erase (v.fields, v.id),
              lru := if isReusable rev (newDurability d q) then v.id :: sh.lru.erase v.id
                     else sh.lru.erase v.id },
            ⟨.reuse, v.id, v.generation + 1⟩) := by
  have : (v.fields, v.id) ∈ sh.keyMap := (inv.key_iff _ _).mpr ⟨v, hv, rfl⟩
  unfold internReuse
  rw [if_pos this]

theorem inv_reuse {rev : Option Nat} {sh : Shard} (inv : ShardInv rev sh) (cur d : Nat)
    (q : Bool) (key : Nat) (v : Slot) (hv : sh.slot? v.id = some v)
    (hkey : sh.keyMap.lookup key = none) (r : Shard × Outcome)
    (h : internReuse rev cur d q key sh v = some r) : ShardInv rev r.1 := by
  rw [internReuse_some inv cur d q key v hv] at h
  injection h with h
  subst h
  simp only
  have hs : ∀ i, (⟨(sh.setSlot ⟨v.id, key, v.generation + 1, newLastInternedAt cur q,
        newDurability d q, []⟩).slots, (key, v.id) :: sh.keyMap.erase (v.fields, v.id),
        if isReusable rev (newDurability d q) then v.id :: sh.lru.erase v.id
        else sh.lru.erase v.id⟩ : Shard).slot? i =
      if i = v.id then some ⟨v.id, key, v.generation + 1, newLastInternedAt cur q,
        newDurability d q, []⟩ else sh.slot? i := by
    intro i
    have := slot?_setSlot sh ⟨v.id, key, v.generation + 1, newLastInternedAt cur q,
        newDurability d q, []⟩ i
    simp only at this
    show (sh.setSlot _).slot? i = _
    rw [this]
    by_cases hi : i = v.id
    · subst hi; simp [hv]
    · simp [hi]
  have hkn := nodup_of_keys_nodup inv.key_nodup
  have hnd := inv.lru_nodup
  refine ⟨?_, ?_, ?_, ?_, ?_, ?_⟩
  · show (((key, v.id) :: sh.keyMap.erase (v.fields, v.id)).map (·.1)).Nodup
    rw [List.map_cons, List.nodup_cons]
    refine ⟨?_, keys_nodup_erase _ inv.key_nodup⟩
    intro hm
    apply lookup_none_not_mem_keys hkey
    exact (List.Sublist.map _ List.erase_sublist).subset hm
  · intro f i
    show (f, i) ∈ (key, v.id) :: sh.keyMap.erase (v.fields, v.id) ↔ _
    rw [hs, List.mem_cons, List.Nodup.mem_erase_iff hkn, inv.key_iff]
    by_cases hi : i = v.id
    · subst hi
      simp only [if_true, hv]
      constructor
      · rintro (e | ⟨hne, u, hu, e⟩)
        · injection e with e1 _
          exact ⟨_, rfl, e1.symm⟩
        · injection hu with hu
          subst hu
          exact absurd (by rw [e]) hne
      · rintro ⟨u, hu, e⟩
        injection hu with hu
        subst hu
        left
        simp only at e
        rw [e]
    · simp only [if_neg hi]
      constructor
      · rintro (e | ⟨_, h'⟩)
        · injection e with _ e2; exact absurd e2 hi
        · exact h'
      · intro h'
        right
        refine ⟨?_, h'⟩
        intro e
        injection e with _ e2
        exact hi e2
  · show (if isReusable rev (newDurability d q) = true then v.id :: sh.lru.erase v.id
          else sh.lru.erase v.id).Nodup
    split
    · exact List.nodup_cons.mpr
        ⟨fun h => ((List.Nodup.mem_erase_iff hnd).mp h).1 rfl, hnd.erase _⟩
    · exact hnd.erase _
  · intro i hi
    have hi' : i ∈ (if isReusable rev (newDurability d q) = true then v.id :: sh.lru.erase v.id
          else sh.lru.erase v.id) := hi
    rw [hs]
    by_cases h : i = v.id
    · subst h
      simp only [if_true]
      split at hi'
      · rename_i hr; exact ⟨_, rfl, hr⟩
      · exact absurd rfl ((List.Nodup.mem_erase_iff hnd).mp hi').1
    · simp only [if_neg h]
      have : i ∈ sh.lru := by
        split at hi'
        · rcases List.mem_cons.mp hi' with e | e
          · exact absurd e h
          · exact ((List.Nodup.mem_erase_iff hnd).mp e).2
        · exact ((List.Nodup.mem_erase_iff hnd).mp hi').2
      exact inv.lru_reusable i this
  · intro i u hu hr hg
    show i ∈ (if isReusable rev (newDurability d q) = true then v.id :: sh.lru.erase v.id
          else sh.lru.erase v.id)
    rw [hs] at hu
    by_cases h : i = v.id
    · subst h
      simp only [if_true] at hu
      injection hu with hu
      subst hu
      simp only at hr
      rw [if_pos hr]
      exact List.mem_cons_self
    · simp only [if_neg h] at hu
      have := inv.lru_complete i u hu hr hg
      have h' : i ∈ sh.lru.erase v.id := (List.Nodup.mem_erase_iff hnd).mpr ⟨h, this⟩
      split
      · exact List.mem_cons_of_mem _ h'
      · exact h'
  · intro i u hu
    rw [hs] at hu
    by_cases h : i = v.id
    · subst h
      simp only [if_true] at hu
      injection hu with hu
      subst hu
      simp
    · simp only [if_neg h] at hu
      exact inv.memo_gen i u hu

end SalsaVerif.Proofs.Intern
