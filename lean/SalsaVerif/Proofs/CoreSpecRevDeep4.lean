/-
  CoreSpec, histories with writes: deep verification of a node, part 4.  The single steps of the
  walk (`Walk`, Proofs/CoreSpecRevDeep3.lean):
    * `Walk.handle`     : the creator of a struct read is valid and its struct exists (the handle
                          came from an earlier query read, which is current);
    * `Walk.add`        : a checked read is current (at the memo's level; at the tie's level when it
                          lies before the `create` and `r` is not busy yet);
    * `Walk.checkUnrec` : an unrecorded read (NEVER_CHANGE dependency);
    * `Walk.checkRec`   : a recorded read, `maybe_changed_after` of the dependency;
    * `Walk.validate`   : the recorded output edge, `mark_validated_output`.
  `validateOutput_ok` (Proofs/CoreSpecRevShallow.lean) enters as the hypothesis `ValidateOutputOk`
  and is discharged in the last part.  Core Lean only.
-/
import SalsaVerif.Proofs.CoreSpecRevDeep3

namespace SalsaVerif.Proofs.CoreSpec
open SalsaVerif.Model.CoreSpec

/-! ### local copies (Proofs/CoreSpecRevShallow.lean has the unprimed versions) -/

theorem replay_sp_keep' (self : Nat) (idOf : Nat → Nat) : ∀ b (obs : List Obs) ts sp R v,
    replayR self idOf b obs ts sp = some R → sp = some v → R.sp = some v := by
  intro b
  induction b with
  | ret x =>
    intro obs ts sp R v h hs
    cases obs with
    | nil =>
      simp only [replayR, Option.some.injEq] at h
      subst h; exact hs
    | cons _ _ => simp [replayR] at h
  | read d k ih =>
    intro obs ts sp R v h hs
    cases obs with
    | nil => simp [replayR] at h
    | cons o rest =>
      simp only [replayR] at h
      split at h
      · exact ih _ rest ts sp R v h hs
      · simp at h
  | ident c k ih =>
    intro obs ts sp R v h hs
    simp only [replayR] at h
    exact ih _ obs ts sp R v h hs
  | create idk x k ih =>
    intro obs ts sp R v h hs
    cases ts with
    | some t => simp [replayR] at h
    | none =>
      simp only [replayR] at h
      exact ih _ obs _ sp R v h hs
  | specify c x k _ =>
    intro obs ts sp R v h hs
    cases obs with
    | nil => simp [replayR] at h
    | cons o rest =>
      simp only [replayR] at h
      split at h
      · rename_i hc
        rw [hs] at hc
        exact absurd hc.2.2.1 (by simp)
      · simp at h

/-- a replay that consumes an output edge specifies -/
theorem replay_out_sp' (self : Nat) (idOf : Nat → Nat) : ∀ b (obs : List Obs) ts sp R,
    replayR self idOf b obs ts sp = some R → (∃ o, o ∈ obs ∧ o.out = true) → R.sp ≠ none := by
  intro b
  induction b with
  | ret x =>
    intro obs ts sp R h ho
    cases obs with
    | nil => obtain ⟨o, hm, _⟩ := ho; cases hm
    | cons _ _ => simp [replayR] at h
  | read d k ih =>
    intro obs ts sp R h ho
    cases obs with
    | nil => simp [replayR] at h
    | cons o rest =>
      simp only [replayR] at h
      split at h
      · rename_i hc
        obtain ⟨o', hm, hout⟩ := ho
        rcases List.mem_cons.mp hm with e | hm'
        · subst e; rw [hc.1] at hout; cases hout
        · exact ih _ rest ts sp R h ⟨o', hm', hout⟩
      · simp at h
  | ident c k ih =>
    intro obs ts sp R h ho
    simp only [replayR] at h
    exact ih _ obs ts sp R h ho
  | create idk x k ih =>
    intro obs ts sp R h ho
    cases ts with
    | some t => simp [replayR] at h
    | none =>
      simp only [replayR] at h
      exact ih _ obs _ sp R h ho
  | specify c x k _ =>
    intro obs ts sp R h _
    cases obs with
    | nil => simp [replayR] at h
    | cons o rest =>
      simp only [replayR] at h
      split at h
      · rw [replay_sp_keep' self idOf k rest ts (some x) R x h rfl]
        exact fun e => by cases e
      · simp at h

/-- a replay that specifies consumed an output edge -/
theorem replay_sp_out' (self : Nat) (idOf : Nat → Nat) : ∀ b (obs : List Obs) ts sp R w,
    replayR self idOf b obs ts sp = some R → sp = none → R.sp = some w → ∃ o, o ∈ obs ∧ o.out = true := by
  intro b
  induction b with
  | ret x =>
    intro obs ts sp R w h hs hw
    cases obs with
    | nil =>
      simp only [replayR, Option.some.injEq] at h
      subst h
      simp only at hw
      rw [hs] at hw; cases hw
    | cons _ _ => simp [replayR] at h
  | read d k ih =>
    intro obs ts sp R w h hs hw
    cases obs with
    | nil => simp [replayR] at h
    | cons o rest =>
      simp only [replayR] at h
      split at h
      · obtain ⟨o', hm, hout⟩ := ih _ rest ts sp R w h hs hw
        exact ⟨o', List.mem_cons_of_mem _ hm, hout⟩
      · simp at h
  | ident c k ih =>
    intro obs ts sp R w h hs hw
    simp only [replayR] at h
    exact ih _ obs ts sp R w h hs hw
  | create idk x k ih =>
    intro obs ts sp R w h hs hw
    cases ts with
    | some t => simp [replayR] at h
    | none =>
      simp only [replayR] at h
      exact ih _ obs _ sp R w h hs hw
  | specify c x k _ =>
    intro obs ts sp R w h _ _
    cases obs with
    | nil => simp [replayR] at h
    | cons o rest =>
      simp only [replayR] at h
      split at h
      · rename_i hc
        exact ⟨o, List.mem_cons_self, hc.2.2.2.1⟩
      · simp at h

/-- the statement of `validateOutput_ok` (Proofs/CoreSpecRevShallow.lean) -/
def ValidateOutputOk (P : Prog) (idOf : Nat → Nat) : Prop :=
  ∀ (s : State) (q : Nat) (A : Memo), Inv P idOf s → s.smemos q = some A → A.origin = some q →
    (memoSok s q → ∃ mc R w, s.memos q = some mc ∧
      replayR q idOf (P.node q) mc.obs none none = some R ∧ R.sp = some w) →
    Inv P idOf (markValidatedOutput s q q) ∧
    (markValidatedOutput s q q).memos = s.memos ∧ (markValidatedOutput s q q).cur = s.cur ∧
    (markValidatedOutput s q q).lch = s.lch ∧ (markValidatedOutput s q q).inp = s.inp ∧
    (markValidatedOutput s q q).wlog = s.wlog ∧ (markValidatedOutput s q q).panic = s.panic ∧
    (∀ c, c ≠ q → (markValidatedOutput s q q).slots c = s.slots c ∧
      (markValidatedOutput s q q).smemos c = s.smemos c) ∧
    (markValidatedOutput s q q).smemos q = some { A with va := s.cur } ∧
    (∃ sl, s.slots q = some sl ∧ (markValidatedOutput s q q).slots q = some { sl with upd := s.cur })

/-! ### the fixed data of a walk -/

structure WalkCtx (P : Prog) (idOf : Nat → Nat) (r : Nat) (s : State) (m : Memo) (R : SemRes) : Prop where
  hP : Wf2 P idOf
  hI : Inv P idOf s
  hm : s.memos r = some m
  hns : ¬ SOK s m
  hR : replayR r idOf (P.node r) m.obs none none = some R
  tie : TieOk s r m R (preOf idOf (P.node r) m.obs)

/-- what the check of one read establishes -/
def Checked (t : State) (m : Memo) (o : Obs) : Prop :=
  sokDep t o.dep ∧ (o.recd = true → hotDep t o.dep) ∧
  ∃ x, depInfo t o.dep = some x ∧
    ((o.recd = true ∧ x.ca ≤ m.va) ∨ (o.recd = false ∧ x.val = o.val ∧ 3 ≤ x.dur))

section Steps
variable {P : Prog} {idOf : Nat → Nat} {r : Nat} {s : State} {m : Memo} {R : SemRes} {done : List Obs} {t : State}

theorem dv_mem_of_split {o : Obs} {rest : List Obs} (hs : m.obs = done ++ o :: rest) : o ∈ m.obs := by
  rw [hs]; simp

/-- the creator of a struct read: its handle was carried by an earlier query read, which is current -/
theorem Walk.handle (C : WalkCtx P idOf r s m R) (w : Walk P idOf r s m R done t) {o : Obs} {rest : List Obs}
    (hs : m.obs = done ++ o :: rest) (hout : o.out = false) {c : Nat}
    (hd : o.dep = .field c ∨ o.dep = .spec c) : c < r ∧ memoSok t c ∧ ∃ sl, t.slots c = some sl := by
  have ok := w.inv.node r m w.mem
  have hlt : c < r := by
    have := ok.rank o (dv_mem_of_split hs) hout
    rcases hd with e | e <;> rw [e] at this <;> exact this
  have hd' : HdOk (fun _ => False) (done ++ o :: rest) := by rw [← hs]; exact ok.hd
  rcases hd_split c done _ o rest hd' hout hd with h | ⟨o', q', ho', hout', hd1, hv⟩
  · exact h.elim
  · have g := w.green o' ho' hout'
    obtain ⟨x, hx, hval, _, _⟩ := g.info
    have hsk := g.sok
    rw [hd1] at hx hsk
    obtain ⟨m2, hm2, hs2⟩ := hsk
    simp only [depInfo, hm2, Option.map_some, Option.some.injEq] at hx
    have hh : m2.value.h = some c := by
      have : m2.value = o'.val := by rw [← hval, ← hx]
      rw [this]; exact hv
    obtain ⟨_, hc, hsl⟩ := handle_ok C.hP w.inv hm2 hs2 hh
    exact ⟨hlt, hc, hsl⟩

/-- a checked read is current -/
theorem Walk.add (C : WalkCtx P idOf r s m R) (w : Walk P idOf r s m R done t) {o : Obs} (ho : o ∈ m.obs)
    (hout : o.out = false) (ck : Checked t m o) : Walk P idOf r s m R (done ++ [o]) t := by
  have nok := w.inv.node r m w.mem
  have ok := nok.obs
  obtain ⟨hsok, hhot, x, hx, hcase⟩ := ck
  have hval : x.val = o.val ∧ m.dur ≤ x.dur ∧ (o.recd = false → 3 ≤ x.dur) := by
    rcases hcase with ⟨hr, hca⟩ | ⟨_, hv, h3⟩
    · obtain ⟨a, b⟩ := ok.i2 o ho hout x hx hca
      exact ⟨a, b, fun h => by rw [hr] at h; cases h⟩
    · exact ⟨hv, Nat.le_trans ok.dur3 h3, fun _ => h3⟩
  have hc : x.ca ≤ m.va ∨ 3 ≤ x.dur := by
    rcases hcase with ⟨_, hca⟩ | ⟨_, _, h3⟩
    · exact Or.inl hca
    · exact Or.inr h3
  refine w.snoc hout ⟨hsok, hhot, x, hx, hval.1, hval.2.1, hval.2.2⟩ ⟨x, hx, hc⟩ ?_
  intro hnb hp
  obtain ⟨R', hR', _, _, _, htie⟩ := nok.rep
  rw [C.hR] at hR'; cases hR'
  have := tie_level w.inv w.mem (htie hnb).1 hp hx hc
  rw [w.lvl] at this
  exact ⟨hsok, hhot, x, hx, hval.1, this, hval.2.2⟩

/-- an unrecorded read: the dependency is NEVER_CHANGE -/
theorem Walk.checkUnrec (C : WalkCtx P idOf r s m R) (w : Walk P idOf r s m R done t) {o : Obs}
    {rest : List Obs} (hs : m.obs = done ++ o :: rest) (hout : o.out = false) (hrec : o.recd = false) :
    Checked t m o := by
  have ho := dv_mem_of_split hs
  have nok := w.inv.node r m w.mem
  have hcr : ∀ c, (o.dep = .field c ∨ o.dep = .spec c) → memoSok t c :=
    fun c hdc => (w.handle C hs hout hdc).2.1
  have hex : ∃ x, depInfo t o.dep = some x := by
    cases hd : o.dep with
    | inp i => exact ⟨_, rfl⟩
    | qry q' =>
      obtain ⟨m', hm', _⟩ := nok.obs.i5q o q' ho hout hd
      exact ⟨⟨m'.value, m'.ca, m'.dur⟩, by simp [depInfo, hm']⟩
    | field c =>
      obtain ⟨_, _, sl, hsl⟩ := w.handle C hs hout (Or.inl hd)
      exact ⟨⟨⟨sl.v, none⟩, sl.fca, sl.dur⟩, by simp [depInfo, hsl]⟩
    | spec c =>
      obtain ⟨_, _, sl, hsl⟩ := w.handle C hs hout (Or.inr hd)
      cases hsm : t.smemos c with
      | none => exact (wit3_absurd' w.inv ((nok.obs.i6 o ho hout hrec).deadsm c sl hd hsl hsm)).elim
      | some sm => exact ⟨⟨sm.value, sm.ca, sm.dur⟩, by simp [depInfo, hsm]⟩
  obtain ⟨x, hx⟩ := hex
  obtain ⟨hv, h3⟩ := i6_plain' w.inv nok.obs o ho hout hrec x hx
  unfold Checked
  exact ⟨dv_sokDep_of_never w.inv hx h3 hcr, (fun h => by rw [hrec] at h; cases h), x, hx, Or.inr ⟨hrec, hv, h3⟩⟩

/-- a recorded read: `maybe_changed_after` of the dependency.  Whatever the answer, the walk
    invariant holds afterwards; the answer "unchanged" makes the read checked. -/
theorem Walk.checkRec {mc : McaFn} (C : WalkCtx P idOf r s m R) (hmc : McaSpec P idOf r mc)
    (hms : SpecMcaOk P idOf (mcaSpec P.spec)) (w : Walk P idOf r s m R done t) {o : Obs} {rest : List Obs}
    (hs : m.obs = done ++ o :: rest) (hout : o.out = false) (hrec : o.recd = true)
    (hpn : (depChanged mc P.spec t o.dep m.va).1.panic = none) :
    Walk P idOf r s m R done (depChanged mc P.spec t o.dep m.va).1 ∧
    ((depChanged mc P.spec t o.dep m.va).2 = false → Checked (depChanged mc P.spec t o.dep m.va).1 m o) := by
  have ho := dv_mem_of_split hs
  have nok := w.inv.node r m w.mem
  unfold Checked
  cases hd : o.dep with
  | inp i =>
    simp only [depChanged]
    refine ⟨w, fun h => ⟨trivial, fun _ => trivial, _, rfl, Or.inl ⟨hrec, ?_⟩⟩⟩
    exact Nat.le_of_not_gt (of_decide_eq_false h)
  | qry q =>
    rw [hd] at hpn
    simp only [depChanged] at hpn ⊢
    have hq : q < r := by
      have := nok.rank o ho hout
      rw [hd] at this; exact this
    obtain ⟨a1, a2, a3, a4⟩ := hmc t q m.va hq w.inv w.nb hpn
    refine ⟨w.nested a1 a2 a3, fun h => ?_⟩
    obtain ⟨m', hm', hva, hca⟩ := a4 h
    have hva' : m'.va = (mc t q m.va).1.cur := by rw [hva, a3.cur]
    exact ⟨⟨m', hm', Or.inl hva'⟩, fun _ => ⟨m', hm', hva'⟩, ⟨m'.value, m'.ca, m'.dur⟩,
      by simp [depInfo, hm'], Or.inl ⟨hrec, hca⟩⟩
  | field c =>
    obtain ⟨_, hc, sl, hsl⟩ := w.handle C hs hout (Or.inl hd)
    simp only [depChanged, hsl]
    refine ⟨w, fun h => ⟨⟨hc, by rw [hsl]; simp⟩, fun _ => ⟨hc, sl, hsl⟩, ⟨⟨sl.v, none⟩, sl.fca, sl.dur⟩,
      by simp [depInfo, hsl], Or.inl ⟨hrec, ?_⟩⟩⟩
    exact Nat.le_of_not_gt (of_decide_eq_false h)
  | spec c =>
    obtain ⟨hlt, hc, sl, hsl⟩ := w.handle C hs hout (Or.inr hd)
    rw [hd] at hpn
    simp only [depChanged, hsl] at hpn ⊢
    obtain ⟨a1, a2, a3, a4, a5⟩ := hms t c m.va w.inv hc ⟨sl, hsl⟩ hpn
    have hnb : NB (mcaSpec P.spec t c m.va).1 r := fun c' hc' hb => w.nb c' hc' (a4 c' hb)
    refine ⟨w.nested a1 hnb (a2.weaken hlt), fun h => ?_⟩
    obtain ⟨sm, hsm, hva, hca⟩ := a5 h
    have hva' : sm.va = (mcaSpec P.spec t c m.va).1.cur := by rw [hva, a2.cur]
    exact ⟨⟨a2.memoSok hc, sm, hsm, Or.inl hva'⟩, fun _ => ⟨a2.memoSok hc, sm, hsm, hva'⟩,
      ⟨sm.value, sm.ca, sm.dur⟩, by simp [depInfo, hsm], Or.inl ⟨hrec, hca⟩⟩

/-! ### the output edge -/

theorem dv_memoSok_congr {a b : State} (hm : b.memos = a.memos) (hc : b.cur = a.cur) (hl : b.lch = a.lch) (c : Nat) :
    memoSok b c ↔ memoSok a c := by
  simp only [memoSok, SOK, lc, hm, hc, hl]

/-- the frame of `mark_validated_output` for the own output of `r` while the memo of `r` fails the
    shallow test -/
theorem ext_validate {a b : State} {r : Nat} (hns : ¬ memoSok a r) (hm : b.memos = a.memos) (hc : b.cur = a.cur)
    (hl : b.lch = a.lch) (hi : b.inp = a.inp) (hw : b.wlog = a.wlog)
    (hoth : ∀ c, c ≠ r → b.slots c = a.slots c ∧ b.smemos c = a.smemos c) : Ext a b (r + 1) := by
  refine ⟨hc, hl, hi, hw, fun q _ => by rw [hm], ?_, ?_, ?_, ?_, ?_, ?_, ?_, ?_, ?_⟩
  · intro q hq; exact (hoth q (by omega)).1
  · intro q hq; exact (hoth q (by omega)).2
  · intro q m0 hm0 _; rw [hm]; exact hm0
  · intro q m0 hm0 _; exact ⟨m0, by rw [hm]; exact hm0, Or.inl rfl⟩
  · intro q m0 hm0; exact ⟨m0, by rw [hm]; exact hm0, Nat.le_refl _⟩
  · intro c sl hcs hsl
    have hne : c ≠ r := fun e => hns (e ▸ hcs)
    exact ⟨sl, by rw [(hoth c hne).1]; exact hsl, SlotEq.refl sl⟩
  · intro c hcs hn
    have hne : c ≠ r := fun e => hns (e ▸ hcs)
    rw [(hoth c hne).1]; exact hn
  · intro c sm hcs hsm _
    have hne : c ≠ r := fun e => hns (e ▸ hcs)
    rw [(hoth c hne).2]; exact hsm
  · intro c sm hcs hsm _
    have hne : c ≠ r := fun e => hns (e ▸ hcs)
    exact ⟨sm, by rw [(hoth c hne).2]; exact hsm, Or.inl rfl⟩

/-- the recorded output edge: `mark_validated_output` read-locks the struct of `r` and validates the
    `Assigned` memo; `r` is busy from now on -/
theorem Walk.validate (C : WalkCtx P idOf r s m R) (VO : ValidateOutputOk P idOf)
    (w : Walk P idOf r s m R done t) {o : Obs} {rest : List Obs} (hs : m.obs = done ++ o :: rest)
    (hout : o.out = true) :
    Walk P idOf r s m R (done ++ [o]) (markValidatedOutput t r r) := by
  have ho := dv_mem_of_split hs
  have hnsok := w.notSok C.hns
  -- the replay specifies and creates
  have hsp := replay_out_sp' r idOf _ _ none none R C.hR ⟨o, ho, hout⟩
  obtain ⟨w0, hw0⟩ : ∃ w0, R.sp = some w0 := by
    cases h : R.sp with
    | none => exact absurd h hsp
    | some w0 => exact ⟨w0, rfl⟩
  have hts := replay_sp_ts r idOf _ _ none none R C.hR (fun h => absurd rfl h) w0 hw0
  -- the `Assigned` memo
  have htie := C.tie
  unfold TieOk at htie
  obtain ⟨A0, hA0, hor0⟩ : ∃ A0, s.smemos r = some A0 ∧ A0.origin = some r := by
    cases h : R.ts with
    | none => exact absurd h hts
    | some kv =>
      obtain ⟨k, v⟩ := kv
      rw [h] at htie
      obtain ⟨sl0, _, _, _, _, h5⟩ := htie
      rw [hw0] at h5
      obtain ⟨A0, hA0, hor0, _⟩ := h5
      exact ⟨A0, hA0, hor0⟩
  obtain ⟨A', hA', hver⟩ := w.smS A0 hA0
  have hor' : A'.origin = some r := by rw [(verEq_fields' hver).2.2.2.2.2.1]; exact hor0
  obtain ⟨v1, v2, v3, v4, v5, v6, _, v8, v9, sl, hsl, hsl'⟩ :=
    VO t r A' w.inv hA' hor' (fun h => absurd h hnsok)
  generalize markValidatedOutput t r r = t' at v1 v2 v3 v4 v5 v6 v8 v9 hsl'
  have hext : Ext t t' (r + 1) := ext_validate hnsok v2 v3 v4 v5 v6 v8
  have hpost := preOf_prefix idOf (P.node r) m.obs
  refine ⟨v1, ?_, w.ext.trans hext, by rw [v2]; exact w.mem, ?_, ?_, ?_, ?_, ?_, ?_, ?_, ?_, ?_⟩
  · -- nobody below `r` becomes busy
    intro c hc hb
    obtain ⟨slc, h1, h2, h3⟩ := hb
    rw [(v8 c (by omega)).1] at h1
    rw [v3] at h2
    exact w.nb c hc ⟨slc, h1, h2, fun h => h3 ((dv_memoSok_congr v2 v3 v4 c).mpr h)⟩
  · intro sl0 hsl0
    obtain ⟨sl1, h1, e1⟩ := w.slS sl0 hsl0
    rw [hsl] at h1; cases h1
    exact ⟨_, hsl', e1.trans ⟨rfl, rfl, rfl, rfl, rfl⟩⟩
  · intro hn
    rw [w.slN hn] at hsl; cases hsl
  · intro A hA
    rw [hA0] at hA; cases hA
    refine ⟨_, v9, hver.trans (Or.inr ?_)⟩
    rw [w.ext.cur]
  · intro hn
    rw [hA0] at hn; cases hn
  · intro o' ho' hout'
    rcases List.mem_append.mp ho' with h | h
    · exact (w.green o' h hout').ext hext
    · simp only [List.mem_singleton] at h; subst h; rw [hout] at hout'; cases hout'
  · intro o' ho' hout'
    rcases List.mem_append.mp ho' with h | h
    · obtain ⟨x, hx, hc⟩ := w.stamp o' h hout'
      exact ⟨x, (dv_sokDep_info_ext hext (w.green o' h hout').sok hx).2, hc⟩
    · simp only [List.mem_singleton] at h; subst h; rw [hout] at hout'; cases hout'
  · intro o' ho' hp
    rcases List.mem_append.mp ho' with h | h
    · exact (w.pgreen o' h hp).ext hext
    · simp only [List.mem_singleton] at h; subst h
      have := preOf_nonout r idOf _ _ none none R C.hR o' hp
      rw [hout] at this; cases this
  · intro _
    obtain ⟨post, hpo⟩ := hpost
    refine ⟨hsp, fun p hp => List.mem_append_left _ ?_, ?_⟩
    · exact pre_sub_done (hs.symm.trans hpo) hout (preOf_nonout r idOf _ _ none none R C.hR) p hp
    · intro A hA
      rw [v9] at hA; cases hA
      rw [v3]
  · intro o' _ _ _
    exact ⟨_, _, v9, by rw [v3], hsl', by rw [v3]⟩

end Steps

end SalsaVerif.Proofs.CoreSpec
