/-
  CoreSpec, histories with writes: `execute` of a node, part 0 — small tools.
    * relabelling the `recd` flags (`finalObs`) changes neither the replay, nor the prefix, nor the
      handle discipline;
    * `HdOk` of an appended list (`held`, `hdOk_append`);
    * the chain lemma `handle_chain` (a handle carried by a valid memo: the creator's memo is valid,
      at least as durable and still carries the handle);
    * the witness transfer `wit_transfer` (ordw/i5 + g4);
    * bounds of `depInfo`.
  Core Lean only.
-/
import SalsaVerif.Proofs.CoreSpecRevSpecs
import SalsaVerif.Proofs.CoreSpecRevFresh
import SalsaVerif.Proofs.CoreSpecRevBump

namespace SalsaVerif.Proofs.CoreSpec
namespace X
open SalsaVerif.Model.CoreSpec

/-- no logged write has level 3 -/
theorem wit3 {P idOf s} (hI : Inv P idOf s) {L lo hi} (hL : 3 ≤ L) (h : Wit s L lo hi) : False := by
  obtain ⟨w, d, hw, hd, _, _⟩ := h
  have := hI.wlog3 w d hw
  omega

theorem specOk_bounds {P idOf s c sm} (ok : SpecOk P idOf s c sm) :
    sm.ca ≤ sm.va ∧ sm.va ≤ s.cur ∧ 1 ≤ sm.va ∧ sm.dur ≤ 3 := by
  cases ho : sm.origin with
  | none =>
    have h := (ok.derived ho).1
    exact ⟨h.ca_va, h.va_cur, h.va1, h.dur3⟩
  | some k =>
    obtain ⟨_, _, a, b, c, d⟩ := ok.assigned k ho
    exact ⟨a, b, c, d⟩

/-- stamps and durabilities of existing dependencies are bounded -/
theorem depInfo_bounds {P idOf s d x} (hI : Inv P idOf s) (h : depInfo s d = some x) :
    x.ca ≤ s.cur ∧ x.dur ≤ 3 ∨ (∃ i, d = .inp i) ∧ x.ca ≤ s.cur := by
  cases d with
  | inp i =>
    simp only [depInfo, Option.some.injEq] at h; subst h
    exact Or.inr ⟨⟨i, rfl⟩, hI.inp_le i⟩
  | qry q =>
    cases hm : s.memos q with
    | none => simp [depInfo, hm] at h
    | some m =>
      simp only [depInfo, hm, Option.map_some, Option.some.injEq] at h; subst h
      have ok := (hI.node q m hm).obs
      exact Or.inl ⟨Nat.le_trans ok.ca_va ok.va_cur, ok.dur3⟩
  | field c =>
    cases hm : s.slots c with
    | none => simp [depInfo, hm] at h
    | some sl =>
      simp only [depInfo, hm, Option.map_some, Option.some.injEq] at h; subst h
      obtain ⟨a, _, _, b⟩ := hI.slot c sl hm
      exact Or.inl ⟨a, b⟩
  | spec c =>
    cases hm : s.smemos c with
    | none => simp [depInfo, hm] at h
    | some sm =>
      simp only [depInfo, hm, Option.map_some, Option.some.injEq] at h; subst h
      obtain ⟨a, b, _, d⟩ := specOk_bounds (hI.smemo c sm hm)
      exact Or.inl ⟨Nat.le_trans a b, d⟩

theorem depInfo_ca_le {P idOf s d x} (hI : Inv P idOf s) (h : depInfo s d = some x) : x.ca ≤ s.cur := by
  rcases depInfo_bounds hI h with a | a
  · exact a.1
  · exact a.2

/-! ### relabelling `recd` -/

/-- a relabelling of reads that keeps dependency, value and the output flag -/
def Relab (g : Obs → Obs) : Prop := ∀ o, (g o).dep = o.dep ∧ (g o).val = o.val ∧ (g o).out = o.out

theorem replayR_map {g : Obs → Obs} (hg : Relab g) (self : Nat) (idOf : Nat → Nat) :
    ∀ b (l : List Obs) ts sp, replayR self idOf b (l.map g) ts sp = replayR self idOf b l ts sp := by
  intro b
  induction b with
  | ret v => intro l ts sp; cases l <;> simp [replayR]
  | read d k ih =>
    intro l ts sp
    cases l with
    | nil => simp [replayR]
    | cons o rest =>
      obtain ⟨a, b', c⟩ := hg o
      simp only [List.map_cons, replayR, a, b', c, ih]
  | ident c k ih => intro l ts sp; simp only [replayR, ih]
  | create idk v k ih =>
    intro l ts sp
    cases ts with
    | none => simp only [replayR, ih]
    | some t => simp only [replayR]
  | specify c v k ih =>
    intro l ts sp
    cases l with
    | nil => simp [replayR]
    | cons o rest =>
      obtain ⟨a, b', c'⟩ := hg o
      simp only [List.map_cons, replayR, a, b', c', ih]

theorem preOf_map {g : Obs → Obs} (hg : Relab g) (idOf : Nat → Nat) :
    ∀ b (l : List Obs), preOf idOf b (l.map g) = (preOf idOf b l).map g := by
  intro b
  induction b with
  | ret v => intro l; simp [preOf]
  | read d k ih =>
    intro l
    cases l with
    | nil => simp [preOf]
    | cons o rest =>
      obtain ⟨_, b', _⟩ := hg o
      simp only [List.map_cons, preOf, b', ih]
  | ident c k ih => intro l; simp only [preOf, ih]
  | create idk v k _ => intro l; simp [preOf]
  | specify c v k _ => intro l; simp [preOf]

theorem hdOk_map {g : Obs → Obs} (hg : Relab g) : ∀ (l : List Obs) (H : Nat → Prop), HdOk H (l.map g) ↔ HdOk H l := by
  intro l
  induction l with
  | nil => intro H; simp [HdOk]
  | cons o rest ih =>
    intro H
    obtain ⟨a, b, c⟩ := hg o
    simp only [List.map_cons, HdOk, a, b, c]
    split
    · exact ih H
    · cases o.dep with
      | inp i => exact ih H
      | qry q => exact ih _
      | field c => exact and_congr Iff.rfl (ih H)
      | spec c => exact and_congr Iff.rfl (ih H)

def unrec (o : Obs) : Obs := { o with recd := false }

theorem relab_unrec : Relab unrec := fun _ => ⟨rfl, rfl, rfl⟩
theorem relab_id : Relab id := fun _ => ⟨rfl, rfl, rfl⟩

theorem finalObs_eq (d : Nat) (l : List Obs) : finalObs d l = l.map (if d = 3 then unrec else id) := by
  unfold finalObs
  split
  · rfl
  · simp

theorem relab_final (d : Nat) : Relab (if d = 3 then unrec else id) := by
  split
  · exact relab_unrec
  · exact relab_id

theorem replayR_final (d self idOf b l ts sp) :
    replayR self idOf b (finalObs d l) ts sp = replayR self idOf b l ts sp := by
  rw [finalObs_eq]; exact replayR_map (relab_final d) self idOf b l ts sp

theorem preOf_final (d idOf b l) : preOf idOf b (finalObs d l) = finalObs d (preOf idOf b l) := by
  rw [finalObs_eq, finalObs_eq]; exact preOf_map (relab_final d) idOf b l

theorem hdOk_final (d l H) : HdOk H (finalObs d l) ↔ HdOk H l := by
  rw [finalObs_eq]; exact hdOk_map (relab_final d) l H

/-- a read of the final list comes from a read of the frame's list: same dependency, value and
    output flag; the `recd` flag is kept unless the durability is NEVER_CHANGE -/
theorem mem_final {d : Nat} {l : List Obs} {o' : Obs} (h : o' ∈ finalObs d l) :
    ∃ o, o ∈ l ∧ o'.dep = o.dep ∧ o'.val = o.val ∧ o'.out = o.out ∧
      ((d ≠ 3 ∧ o' = o) ∨ (d = 3 ∧ o'.recd = false)) := by
  unfold finalObs at h
  by_cases hd : d = 3
  · simp only [hd, if_true, List.mem_map] at h
    obtain ⟨o, ho, e⟩ := h
    subst e
    exact ⟨o, ho, rfl, rfl, rfl, Or.inr ⟨hd, rfl⟩⟩
  · simp only [hd, if_false] at h
    exact ⟨o', h, rfl, rfl, rfl, Or.inl ⟨hd, rfl⟩⟩

theorem final_mem {d : Nat} {l : List Obs} {o : Obs} (h : o ∈ l) :
    ∃ o', o' ∈ finalObs d l ∧ o'.dep = o.dep ∧ o'.val = o.val ∧ o'.out = o.out := by
  rw [finalObs_eq]
  obtain ⟨a, b, c⟩ := relab_final d o
  exact ⟨_, List.mem_map.mpr ⟨o, h, rfl⟩, a, b, c⟩

/-! ### the handle discipline of an appended list -/

/-- the handles held after the reads `l` (starting with `H`) -/
def held : (Nat → Prop) → List Obs → Nat → Prop
  | H, [] => H
  | H, o :: rest =>
    if o.out = true then held H rest
    else match o.dep with
      | .qry _ => held (fun c => H c ∨ o.val.h = some c) rest
      | _ => held H rest

theorem hdOk_append : ∀ (l : List Obs) (H : Nat → Prop) (l' : List Obs),
    HdOk H (l ++ l') ↔ HdOk H l ∧ HdOk (held H l) l' := by
  intro l
  induction l with
  | nil => intro H l'; simp [HdOk, held]
  | cons o rest ih =>
    intro H l'
    simp only [List.cons_append, HdOk, held]
    split
    · exact ih H l'
    · cases o.dep with
      | inp i => exact ih H l'
      | qry q => exact ih _ l'
      | field c => simp only [ih H l', and_assoc]
      | spec c => simp only [ih H l', and_assoc]

/-- a handle received from a query read of the list is held afterwards -/
theorem held_of_src : ∀ (l : List Obs) (H : Nat → Prop) (c : Nat),
    (H c ∨ ∃ o q', o ∈ l ∧ o.out = false ∧ o.dep = .qry q' ∧ o.val.h = some c) → held H l c := by
  intro l
  induction l with
  | nil =>
    intro H c h
    rcases h with h | ⟨o, _, ho, _⟩
    · exact h
    · cases ho
  | cons o rest ih =>
    intro H c h
    simp only [held]
    by_cases hout : o.out = true
    · simp only [hout, if_true]
      apply ih
      rcases h with h | ⟨o', q', ho', a, b, c'⟩
      · exact Or.inl h
      · rcases List.mem_cons.mp ho' with e | e
        · subst e; rw [hout] at a; cases a
        · exact Or.inr ⟨o', q', e, a, b, c'⟩
    · simp only [hout]
      have step : ∀ H', (∀ c, H c → H' c) →
          (∀ q', o.dep = .qry q' → o.val.h = some c → H' c) → held H' rest c := by
        intro H' hHH hq
        apply ih
        rcases h with h | ⟨o', q', ho', a, b, c'⟩
        · exact Or.inl (hHH c h)
        · rcases List.mem_cons.mp ho' with e | e
          · subst e; exact Or.inl (hq q' b c')
          · exact Or.inr ⟨o', q', e, a, b, c'⟩
      cases hd : o.dep with
      | inp i => exact step H (fun _ h => h) (fun q' e => by rw [hd] at e; cases e)
      | qry q => exact step _ (fun _ h => Or.inl h) (fun _ _ e => Or.inr e)
      | field c1 => exact step H (fun _ h => h) (fun q' e => by rw [hd] at e; cases e)
      | spec c1 => exact step H (fun _ h => h) (fun q' e => by rw [hd] at e; cases e)

/-- appending one read -/
theorem hdOk_snoc {l : List Obs} {H : Nat → Prop} {o : Obs} (h : HdOk H l)
    (ho : o.out = true ∨ (∃ i, o.dep = .inp i) ∨ (∃ q, o.dep = .qry q) ∨
      ∃ c, (o.dep = .field c ∨ o.dep = .spec c) ∧
        (H c ∨ ∃ o' q', o' ∈ l ∧ o'.out = false ∧ o'.dep = .qry q' ∧ o'.val.h = some c)) :
    HdOk H (l ++ [o]) := by
  rw [hdOk_append]
  refine ⟨h, ?_⟩
  simp only [HdOk]
  by_cases hout : o.out = true
  · simp [hout]
  · simp only [hout]
    rcases ho with ho | ⟨i, ho⟩ | ⟨q, ho⟩ | ⟨c, ho, hs⟩
    · exact absurd ho hout
    · simp [ho]
    · simp [ho]
    · rcases ho with ho | ho
      · simp only [ho]; exact ⟨held_of_src l H c hs, trivial⟩
      · simp only [ho]; exact ⟨held_of_src l H c hs, trivial⟩

/-! ### the chain of a handle -/

/-- the creator's memo of a handle carried by the value of a memo that passes the shallow test:
    it passes the test, is at least as durable, and its value carries the handle -/
theorem handle_chain {P idOf s} (hI : Inv P idOf s) : ∀ q m, s.memos q = some m → SOK s m → ∀ c, m.value.h = some c →
    ∃ mc, s.memos c = some mc ∧ SOK s mc ∧ m.dur ≤ mc.dur ∧ mc.value.h = some c := by
  intro q
  induction q using Nat.strongRecOn with
  | ind q ih =>
    intro m hm hs c hc
    rcases (hI.node q m hm).hsrc c hc with ⟨h, _⟩ | ⟨o, q', ho, hout, hd, hv⟩
    · subst h; exact ⟨m, hm, hs, Nat.le_refl _, hc⟩
    · obtain ⟨hlt, m2, hm2, hs2, hval, hdur⟩ := qry_read_info hI hm hs o q' ho hout hd
      obtain ⟨mc, hmc, hsc, hd2, hh⟩ := ih q' hlt m2 hm2 hs2 c (by rw [hval]; exact hv)
      exact ⟨mc, hmc, hsc, Nat.le_trans hdur hd2, hh⟩

/-! ### the witness transfer -/

/-- A relevant write of level `≥ L ≥ m.dur` that is after the owner's `deepAt` is after the owner's
    `verified_at` (G4). -/
theorem wit_transfer {s : State} {m : Memo} {L Lw lo hi : Nat} (ok : ObsOk s m) (hL : m.dur ≤ L) (hLw : L ≤ Lw)
    (W : Wit s Lw lo hi)
    (hdeep : ∀ w d, (w, d) ∈ s.wlog → Lw ≤ d → lo < w → m.deepAt < w) : Wit s L m.va hi := by
  obtain ⟨w, d, hw, hd, hlo, hhi⟩ := W
  have h1 := hdeep w d hw hd hlo
  have h2 := ok.g4 w d hw (Nat.le_trans hL (Nat.le_trans hLw hd))
  refine ⟨w, d, hw, Nat.le_trans hLw hd, ?_, hhi⟩
  apply Nat.lt_of_not_le
  intro hle
  exact h2 ⟨h1, hle⟩

/-- the same with the bound `m.deepAt ≤ lo` (I5) -/
theorem wit_transfer_le {s : State} {m : Memo} {L Lw lo hi : Nat} (ok : ObsOk s m) (hL : m.dur ≤ L) (hLw : L ≤ Lw)
    (W : Wit s Lw lo hi) (hdeep : m.deepAt ≤ lo) : Wit s L m.va hi :=
  wit_transfer ok hL hLw W (fun _ _ _ _ h => Nat.lt_of_le_of_lt hdeep h)

end X
end SalsaVerif.Proofs.CoreSpec
