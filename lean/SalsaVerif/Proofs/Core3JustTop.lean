/-
  Core3 engine (stage S3, invariant `InvE`): the trace relation `Tr3` of `refreshStep`, `fetchStep`,
  `mcaStep`, the engine of every rank and `fetch`.  Part 3.  Core Lean only.
-/
import SalsaVerif.Proofs.Core3JustRun

namespace SalsaVerif.Proofs.Core3E
open SalsaVerif.Model.Core3 SalsaVerif.Proofs.Core3

/-- the edge walk of a tracked memo that failed the shallow test -/
theorem deep_step_tr {P r mc} (hmc : McaSpecE P r mc) (hmt : McaTr3 P r mc) {s : State} {m : Memo}
    (hI : InvE P s) (hm : s.memos r = some m) :
    Tr3 P s (deepEdges mc m.obs s m.va).1 ∧
    ((deepEdges mc m.obs s m.va).2 = false → ∃ o, o ∈ m.obs ∧ o.recd = true ∧
      EdgeCh (deepEdges mc m.obs s m.va).1 (deepEdges mc m.obs s m.va).1 m.va o.dep) := by
  have mok := hI.memo r m hm
  have hpre : ∀ o q', o ∈ m.obs → o.dep = .qry q' → q' < r ∧ ∃ m', s.memos q' = some m' := by
    intro o q' ho hd
    obtain ⟨h1, m', h2, _⟩ := mok.i5 o q' ho hd
    exact ⟨h1, m', h2⟩
  have hcell : ∀ o c, o ∈ m.obs → o.dep = .cell c → o.recd = false :=
    fun o c ho hd => (mok.cellobs o c ho hd).2.1
  exact deep_tr3 hmc hmt m.obs s m.va hI hpre hcell

theorem refreshStep_tr3 {P r fe mc} (hP : Wf P) (hfe : FetchSpecE P r fe) (hmc : McaSpecE P r mc)
    (hft : FetchTr3 P r fe) (hmt : McaTr3 P r mc) (s : State) (hI : InvE P s) :
    Tr3 P s (refreshStep fe mc P s r).1 := by
  unfold refreshStep
  cases hm : s.memos r with
  | none =>
    simp only
    exact tr_execute3 hP hfe hft s none hI hm (by intro o h; cases h) (Or.inl hm)
  | some m =>
    have mok := hI.memo r m hm
    cases hval : m.value with
    | none =>
      simp only [hval]
      exact tr_execute3 hP hfe hft s (some m) hI hm (by intro o h _; cases h; exact hval)
        (Or.inr ⟨m, hm, Or.inl hval⟩)
    | some v =>
      simp only [hval]
      by_cases hv : m.va = s.cur
      · simp only [hv, if_true]; exact Tr3.refl P s
      · simp only [hv, if_false]
        by_cases hsh : lc s m.dur ≤ m.va
        · simp only [hsh, if_true, markVerified_eq]
          exact tr_mark hm hv mok.va_cur rfl rfl rfl rfl rfl rfl rfl
        · simp only [hsh, if_false]
          have hns : ¬ SOK s m := fun h => h.elim hv hsh
          unfold deepVerify
          cases hu : m.untracked with
          | true =>
            simp only [if_true, Bool.false_eq_true, if_false]
            exact tr_execute3 hP hfe hft s (some m) hI hm (by intro o h hs; cases h; exact absurd hs hns)
              (Or.inr ⟨m, hm, Or.inr ⟨hv, hsh, Or.inl hu⟩⟩)
          | false =>
            simp only [Bool.false_eq_true, if_false]
            obtain ⟨d1, d2, d3, _⟩ := deep_step hP hmc hI hm hu hns
            obtain ⟨dt, df⟩ := deep_step_tr hmc hmt hI hm
            generalize deepEdges mc m.obs s m.va = t at d1 d2 d3 dt df
            have hv1 : m.va ≠ t.1.cur := by rw [d2.cur]; exact hv
            cases hres : t.2 with
            | true =>
              simp only [if_true, markDeepVerified_eq]
              exact dt.trans (tr_mark d3 hv1 (by rw [d2.cur]; exact mok.va_cur) rfl rfl rfl rfl rfl rfl rfl)
            | false =>
              simp only [Bool.false_eq_true, if_false]
              have hns' : ¬ SOK t.1 m := fun h => hns ((d2.sok m).mp h)
              obtain ⟨o, ho, hr, hc⟩ := df hres
              have hj : Just3 t.1 t.1 r :=
                Or.inr ⟨m, d3, Or.inr ⟨hv1, by rw [d2.lc]; exact hsh, Or.inr ⟨o, ho, hr, hc⟩⟩⟩
              exact dt.trans (tr_execute3 hP hfe hft t.1 (some m) d1 d3
                (by intro o h hs; cases h; exact absurd hs hns') hj)

theorem fetchStep_tr3 {P r fe mc} (hP : Wf P) (hfe : FetchSpecE P r fe) (hmc : McaSpecE P r mc)
    (hft : FetchTr3 P r fe) (hmt : McaTr3 P r mc) (s : State) (hI : InvE P s) :
    Tr3 P s (fetchStep fe mc P s r).1 :=
  tr_recordUse r (refreshStep_tr3 hP hfe hmc hft hmt s hI)

/-- the answer of `maybe_changed_after` after a re-execution -/
theorem mca_of_exec_tr {P r s t rev} {x : State × Res} (h : StepOk P r t x) (hc : t.cur = s.cur)
    (htr : Tr3 P s x.1) :
    Tr3 P s (recordUseFor P x.1 r) ∧
    (decide (x.2.ca > rev) = true → EdgeCh (recordUseFor P x.1 r) (recordUseFor P x.1 r) rev (.qry r)) := by
  obtain ⟨_, b, _, m, d1, d2, _, _, d5, _⟩ := h
  refine ⟨tr_recordUse r htr, fun hd => ?_⟩
  have hcur : (recordUseFor P x.1 r).cur = x.1.cur := by unfold recordUseFor; split <;> rfl
  exact .stamp (by simp only [recordUse_memos]; exact d1) (by rw [hcur, d2, b.cur])
    (by rw [d5]; exact of_decide_eq_true hd)

theorem mcaStep_tr3 {P r fe mc} (hP : Wf P) (hfe : FetchSpecE P r fe) (hmc : McaSpecE P r mc)
    (hft : FetchTr3 P r fe) (hmt : McaTr3 P r mc) (s : State) (rev : Nat) (hI : InvE P s)
    (hex : ∃ m, s.memos r = some m) :
    Tr3 P s (mcaStep fe mc P s r rev).1 ∧
    ((mcaStep fe mc P s r rev).2 = true →
      EdgeCh (mcaStep fe mc P s r rev).1 (mcaStep fe mc P s r rev).1 rev (.qry r)) := by
  obtain ⟨m, hm⟩ := hex
  have mok := hI.memo r m hm
  unfold mcaStep
  simp only [hm]
  by_cases hv : m.va = s.cur
  · simp only [hv, if_true]
    exact ⟨Tr3.refl P s, fun h => .stamp hm hv (of_decide_eq_true h)⟩
  · simp only [hv, if_false]
    by_cases hsh : lc s m.dur ≤ m.va
    · simp only [hsh, if_true]
      refine ⟨by rw [markVerified_eq]; exact tr_mark hm hv mok.va_cur rfl rfl rfl rfl rfl rfl rfl, fun h => ?_⟩
      exact .stamp (m' := { m with va := s.cur }) (by rw [markVerified_eq]; exact setMemo_same _ _ _) rfl
        (of_decide_eq_true h)
    · simp only [hsh, if_false]
      have hns : ¬ SOK s m := fun h => h.elim hv hsh
      unfold deepVerify
      cases hu : m.untracked with
      | true =>
        simp only [if_true, Bool.false_eq_true, if_false]
        cases hval : m.value with
        | none => have := mok.evt hval; rw [hu] at this; cases this
        | some v =>
          simp only
          have hok := execute_ok hP hfe s (some m) hI hm (by intro o h hs; cases h; exact absurd hs hns)
          have htr := tr_execute3 hP hfe hft s (some m) hI hm
            (by intro o h hs; cases h; exact absurd hs hns) (Or.inr ⟨m, hm, Or.inr ⟨hv, hsh, Or.inl hu⟩⟩)
          exact mca_of_exec_tr hok rfl htr
      | false =>
        simp only [Bool.false_eq_true, if_false]
        obtain ⟨d1, d2, d3, _⟩ := deep_step hP hmc hI hm hu hns
        obtain ⟨dt, df⟩ := deep_step_tr hmc hmt hI hm
        generalize deepEdges mc m.obs s m.va = t at d1 d2 d3 dt df
        have hv1 : m.va ≠ t.1.cur := by rw [d2.cur]; exact hv
        have hsh1 : ¬ lc t.1 m.dur ≤ m.va := by rw [d2.lc]; exact hsh
        cases hres : t.2 with
        | true =>
          simp only [if_true]
          refine ⟨?_, fun h => ?_⟩
          · rw [markDeepVerified_eq]
            exact dt.trans (tr_mark d3 hv1 (by rw [d2.cur]; exact mok.va_cur) rfl rfl rfl rfl rfl rfl rfl)
          · exact .stamp (m' := { m with va := t.1.cur, deepAt := t.1.cur })
              (by rw [markDeepVerified_eq]; exact setMemo_same _ _ _) rfl (of_decide_eq_true h)
        | false =>
          simp only [Bool.false_eq_true, if_false]
          obtain ⟨o, ho, hr, hc⟩ := df hres
          cases hval : m.value with
          | none =>
            simp only
            exact ⟨dt, fun _ => .evicted d3 hval
              (Nat.lt_of_le_of_ne (by rw [d2.cur]; exact mok.va_cur) hv1) (Nat.lt_of_not_le hsh1) ho hr hc⟩
          | some v =>
            simp only
            have hns' : ¬ SOK t.1 m := fun h => hns ((d2.sok m).mp h)
            have hj : Just3 t.1 t.1 r := Or.inr ⟨m, d3, Or.inr ⟨hv1, hsh1, Or.inr ⟨o, ho, hr, hc⟩⟩⟩
            have hok := execute_ok hP hfe t.1 (some m) d1 d3 (by intro o h hs; cases h; exact absurd hs hns')
            have htr := tr_execute3 hP hfe hft t.1 (some m) d1 d3
              (by intro o h hs; cases h; exact absurd hs hns') hj
            exact mca_of_exec_tr hok d2.cur (dt.trans htr)

theorem eng_tr3 {P} (hP : Wf P) : ∀ r, FetchTr3 P r (eng P r).1 ∧ McaTr3 P r (eng P r).2 := by
  intro r
  induction r with
  | zero => exact ⟨⟨by intro s q h; omega⟩, ⟨by intro s q rev h; omega⟩⟩
  | succ r ih =>
    obtain ⟨hft, hmt⟩ := ih
    obtain ⟨hfe, hmc⟩ := eng_ok hP r
    constructor
    · constructor
      intro s q hq hI
      simp only [eng]
      by_cases hlt : q < r
      · simp only [hlt, if_true]; exact hft.tr s q hlt hI
      · have : q = r := by omega
        subst this
        simp only [Nat.lt_irrefl, if_false, if_true]
        exact fetchStep_tr3 hP hfe hmc hft hmt s hI
    · constructor
      intro s q rev hq hI hex
      simp only [eng]
      by_cases hlt : q < r
      · simp only [hlt, if_true]; exact hmt.tr s q rev hlt hI hex
      · have : q = r := by omega
        subst this
        simp only [Nat.lt_irrefl, if_false, if_true]
        exact mcaStep_tr3 hP hfe hmc hft hmt s rev hI hex

theorem fetch_tr3 {P} (hP : Wf P) (s : State) (q : Nat) (hI : InvE P s) : Tr3 P s (fetch P s q).1 :=
  (eng_tr3 hP (q + 1)).1.tr s q (Nat.lt_succ_self q) hI

/-- `maybe_changed_after` asked directly -/
theorem mca_tr3 {P} (hP : Wf P) (s : State) (q rev : Nat) (hI : InvE P s) (hex : ∃ m, s.memos q = some m) :
    Tr3 P s ((eng P (q + 1)).2 s q rev).1 ∧
    (((eng P (q + 1)).2 s q rev).2 = true →
      EdgeCh ((eng P (q + 1)).2 s q rev).1 ((eng P (q + 1)).2 s q rev).1 rev (.qry q)) :=
  (eng_tr3 hP (q + 1)).2.tr s q rev (Nat.lt_succ_self q) hI hex

end SalsaVerif.Proofs.Core3E
