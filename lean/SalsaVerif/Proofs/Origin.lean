/-
  Lemmas about the hand model of `OriginAndExtra` (`Model/Origin.lean`).
-/
import SalsaVerif.Model.Origin
import SalsaVerif.Proofs.Edge

namespace SalsaVerif.Proofs.Origin
open SalsaVerif.Gen.Edge SalsaVerif.Model.Origin SalsaVerif.Proofs.Edge

theorem push_some {α} (b : Builder α) (x : α) (h : b.items.length < b.length) :
    b.push x = some ⟨b.length, b.items ++ [x]⟩ := by
  simp [Builder.push, h]

theorem extend_some {α} : ∀ (xs : List α) (b : Builder α), b.items.length + xs.length ≤ b.length →
    b.extend xs = some ⟨b.length, b.items ++ xs⟩
  | [], b, _ => by simp [Builder.extend]
  | x :: xs, b, h => by
    have hlt : b.items.length < b.length := by simp at h; omega
    rw [Builder.extend, push_some b x hlt]
    have := extend_some xs ⟨b.length, b.items ++ [x]⟩ (by simp at h ⊢; omega)
    simpa using this

theorem finish_some {α} (b : Builder α) (h : b.items.length = b.length) : b.finish = some b.items := by
  simp [Builder.finish, h]

/-- Specification of the packed→wide allocation loop: it never trips an assertion, the stored
    slice decodes to exactly the edges given, and the layout is packed iff every edge is packable. -/
theorem allocLoop_spec (len : Nat) : ∀ (es : List QueryEdge) (b : Builder PackedQueryEdge),
    b.length = len → b.items.length + es.length = len →
    ∃ lay sl, allocLoop len es b = some (lay, sl) ∧
      sl.iter = b.items.map PackedQueryEdge.edge ++ es ∧
      ((lay = QueryEdgeLayout_Packed ∧ (∃ ps, sl = .packed ps ∧ ps.length = len) ∧
          ∀ e, e ∈ es → (PackedQueryEdge.new e).isSome = true) ∨
       (lay = QueryEdgeLayout_Wide ∧ (∃ ws, sl = .wide ws ∧ ws.length = len) ∧
          ∃ e, e ∈ es ∧ PackedQueryEdge.new e = none))
  | [], b, hl, hn => by
    refine ⟨QueryEdgeLayout_Packed, .packed b.items, ?_, ?_, ?_⟩
    · simp [allocLoop, finish_some b (by simpa [hl] using hn)]
    · simp [EdgeSlice.iter]
    · left; exact ⟨rfl, ⟨b.items, rfl, by simpa using hn⟩, by simp⟩
  | e :: rest, b, hl, hn => by
    cases hnew : PackedQueryEdge.new e with
    | some p =>
      have hlt : b.items.length < b.length := by simp at hn; omega
      obtain ⟨lay, sl, h1, h2, h3⟩ := allocLoop_spec len rest ⟨b.length, b.items ++ [p]⟩ hl
        (by simp at hn ⊢; omega)
      refine ⟨lay, sl, ?_, ?_, ?_⟩
      · simp [allocLoop, hnew, push_some b p hlt, h1]
      · simp [h2, edge_new hnew]
      · rcases h3 with ⟨a, b', c⟩ | ⟨a, b', e', he', c⟩
        · left; refine ⟨a, b', ?_⟩
          intro e'' he''
          rcases List.mem_cons.mp he'' with rfl | h
          · simp [hnew]
          · exact c _ h
        · right; exact ⟨a, b', e', List.mem_cons_of_mem _ he', c⟩
    | none =>
      have h1 := extend_some (b.items.map PackedQueryEdge.edge) (Builder.allocate (α := QueryEdge) len)
        (by simp [Builder.allocate] at hn ⊢; omega)
      simp only [Builder.allocate, List.nil_append] at h1
      have h2 := push_some (⟨len, b.items.map PackedQueryEdge.edge⟩ : Builder QueryEdge) e
        (by simp at hn ⊢; omega)
      have h3 := extend_some rest (⟨len, b.items.map PackedQueryEdge.edge ++ [e]⟩ : Builder QueryEdge)
        (by simp at hn ⊢; omega)
      have h4 := finish_some (⟨len, b.items.map PackedQueryEdge.edge ++ [e] ++ rest⟩ : Builder QueryEdge)
        (by simp at hn ⊢; omega)
      refine ⟨QueryEdgeLayout_Wide, .wide (b.items.map PackedQueryEdge.edge ++ [e] ++ rest), ?_, ?_, ?_⟩
      · simp only [allocLoop, hnew, Builder.allocate, h1, h2, h3, h4, Option.map_some]
      · simp [EdgeSlice.iter]
      · right; exact ⟨rfl, ⟨_, rfl, by simp at hn ⊢; omega⟩, e, by simp, hnew⟩

/-- facts about valid edges produced by the public constructors -/
theorem valid_input_fields {k : DatabaseKeyIndex} (h : ValidKey k) :
    QueryEdge.key (QueryEdge.input k) = k ∧ QueryEdge.kind (QueryEdge.input k) = QueryEdgeKind_Input := by
  obtain ⟨hi, h1, hm, hg⟩ := h
  have hmx : Id.MAX_U32 = 4294967040 := by decide
  rw [hmx] at hm
  have hidx : ((k.key_index.index + 2^32 - 1) % 2^32 + 1) % 2^32 = k.key_index.index := by omega
  constructor
  · simp only [QueryEdge.key, QueryEdge.input, QueryEdge.id, DatabaseKeyIndex.key_index0,
      DatabaseKeyIndex.ingredient_index0, Id.index0, Id.generation0, Id.from_index, Id.with_generation,
      DatabaseKeyIndex.new, with_tag_false hi, hidx]
  · simp [QueryEdge.kind, QueryEdge.input, DatabaseKeyIndex.ingredient_index0, tag_of_untagged hi,
      QueryEdgeKind_Input]

theorem valid_output_fields {k : DatabaseKeyIndex} (h : ValidKey k) :
    QueryEdge.key (QueryEdge.output k) = k ∧ QueryEdge.kind (QueryEdge.output k) = QueryEdgeKind_Output ∧
    PackedQueryEdge.new (QueryEdge.output k) = none := by
  obtain ⟨hi, h1, hm, hg⟩ := h
  have hmx : Id.MAX_U32 = 4294967040 := by decide
  rw [hmx] at hm
  have hidx : ((k.key_index.index + 2^32 - 1) % 2^32 + 1) % 2^32 = k.key_index.index := by omega
  refine ⟨?_, ?_, ?_⟩
  · simp only [QueryEdge.key, QueryEdge.output, QueryEdge.id, DatabaseKeyIndex.key_index0,
      DatabaseKeyIndex.ingredient_index0, Id.index0, Id.generation0, Id.from_index, Id.with_generation,
      DatabaseKeyIndex.new, with_tag_true hi, with_tag_false_of_tagged hi, hidx]
  · simp [QueryEdge.kind, QueryEdge.output, DatabaseKeyIndex.ingredient_index0, with_tag_true hi,
      tag_of_tagged hi, QueryEdgeKind_Output]
  · have : ¬ (PackedQueryEdge.new (QueryEdge.output k)).isSome = true := by
      rw [new_some_iff]
      simp only [QueryEdge.output, DatabaseKeyIndex.ingredient_index0, with_tag_true hi]
      omega
    cases h : PackedQueryEdge.new (QueryEdge.output k) with
    | none => rfl
    | some p => simp [h] at this

end SalsaVerif.Proofs.Origin
