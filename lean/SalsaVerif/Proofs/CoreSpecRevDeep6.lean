/-
  CoreSpec, histories with writes: deep verification of a node, part 6 — the result.

    theorem deepOk (hP : Wf2 P idOf) (r) (mc) (hmc : McaSpec P idOf r mc)
        (hms : SpecMcaOk P idOf (mcaSpec P.spec)) : DeepOk P idOf r mc

  (`DeepOk`, `LocalTie`: Proofs/CoreSpecRevSpecs.lean.)  Two remarks on the statement:
   1. `LocalTie` asks `sokDep` of every read before the `create` and `hotDep` of the recorded ones
      only: an unrecorded read (its dependency is NEVER_CHANGE) is skipped by `deep_verify_edges`,
      so after the walk its memo passes the shallow test but need not be verified in the current
      revision (`CexHot.cex` below: a concrete run of the model).  `sokDep` + the info of a
      dependency are as stable under `Ext` as `hotDep` (`dv_sokDep_info_ext`,
      Proofs/CoreSpecRevDeep1.lean).  The order clause `AOrd` of the `Assigned` memo is not part of
      `LocalTie`: the validation of the output edge sets `A.va := cur` while the creator's memo
      still has its old `verified_at` (same run: `A.va = 2`, `m.va = 1`, relevant write at 2).
   2. `DeepOk` starts with `RelM Sticky mc` (panics stay latched across `maybe_changed_after` of
      smaller ranks): `McaSpec` constrains `mc` only when its result has no panic, so a function
      that panics at one edge and clears the latch at the next satisfies `McaSpec` vacuously and
      ends the walk without panic in an arbitrary state.  The engine satisfies it:
      `(eng_rel primRel_sticky P r).2`.
  Core Lean only.
-/
import SalsaVerif.Proofs.CoreSpecRevDeep5
import SalsaVerif.Proofs.CoreSpecRevShallow

namespace SalsaVerif.Proofs.CoreSpec
open SalsaVerif.Model.CoreSpec

theorem dv_nb_emit {u : State} {k : Nat} (e : Ev) (h : NB u k) : NB (emit u e) k :=
  fun c hc hb => h c hc hb

theorem dv_ext_emit {s u : State} {k : Nat} (e : Ev) (h : Ext s u k) : Ext s (emit u e) k :=
  ⟨h.cur, h.lch, h.inp, h.wlog, h.above_m, h.above_s, h.above_sm, h.hot, h.sok, h.mono, h.slot, h.noslot,
   h.smhot, h.smsok⟩

section Result
variable {P : Prog} {idOf : Nat → Nat} {r : Nat} {s : State} {m : Memo} {R : SemRes} {done : List Obs} {t : State}

/-- the tie of the OLD memo while `r` is busy -/
theorem Walk.oldTie (C : WalkCtx P idOf r s m R) (w : Walk P idOf r s m R done t)
    (hall : ∀ p, p ∈ preOf idOf (P.node r) m.obs → p ∈ done) :
    TieOk t r m R (preOf idOf (P.node r) m.obs) := by
  have htie := C.tie
  unfold TieOk at htie
  refine w.tie C hall m rfl (Nat.le_refl _) ?_ ?_
  · intro sl hsl
    cases hts : R.ts with
    | none =>
      rw [hts] at htie
      rw [w.slN htie.1] at hsl; cases hsl
    | some kv =>
      obtain ⟨k, v⟩ := kv
      rw [hts] at htie
      obtain ⟨sl0, hsl0, _, _, hf, _⟩ := htie
      obtain ⟨sl', hsl', e⟩ := w.slS sl0 hsl0
      rw [hsl] at hsl'; cases hsl'
      rw [e.2.2.2.1]; exact hf
  · intro w0 hsp A hA
    cases hts : R.ts with
    | none => exact absurd hts (replay_sp_ts r idOf _ _ none none R C.hR (fun h => absurd rfl h) w0 hsp)
    | some kv =>
      obtain ⟨k, v⟩ := kv
      rw [hts] at htie
      obtain ⟨sl0, _, _, _, _, h5⟩ := htie
      rw [hsp] at h5
      obtain ⟨A0, hA0, hor, _, hva, _⟩ := h5
      obtain ⟨A', hA', hver⟩ := w.smS A0 hA0
      rw [hA] at hA'; cases hA'
      obtain ⟨_, _, f3, _, _, _, _, f8⟩ := verEq_fields' hver
      have hcur := ((C.hI.smemo r A0 hA0).assigned r hor).2.2.2.1
      rcases hva with h | h
      · left
        rcases f8 with e | e <;> omega
      · right; rw [f3]; exact h

/-- MAIN, relative to `validateOutput_ok` -/
theorem deepOk_of (hP : Wf2 P idOf) (VO : ValidateOutputOk P idOf) (r : Nat) (mc : McaFn)
    (hmc : McaSpec P idOf r mc) (hms : SpecMcaOk P idOf (mcaSpec P.spec)) : DeepOk P idOf r mc := by
  intro hst s m hI hnb hm hns hpn
  have nok := hI.node r m hm
  obtain ⟨R, hR, _, _, _, htie⟩ := nok.rep
  have hnbr : ¬ Busy s r := hnb r (Nat.lt_succ_self r)
  have C : WalkCtx P idOf r s m R := ⟨hP, hI, hm, hns, hR, (htie hnbr).1⟩
  have w0 : Walk P idOf r s m R [] s :=
    ⟨hI, fun c hc => hnb c (Nat.lt_succ_of_lt hc), Ext.refl s _, hm, fun sl h => ⟨sl, h, SlotEq.refl sl⟩, id,
     fun A h => ⟨A, h, VerEq.refl _ _⟩, id, (fun o ho => by cases ho), (fun o ho => by cases ho),
     (fun o ho => by cases ho), fun hb => absurd hb hnbr, (fun o ho => by cases ho)⟩
  obtain ⟨done', w, hdone⟩ := walk_all C hmc hms hst VO m.obs [] s (by simp) w0 hpn
  generalize deepEdges mc P.spec r m.obs s m.va = tf at w hdone hpn
  refine ⟨w.inv, w.nb, w.ext, w.mem, ?_, ?_⟩
  · intro hb
    obtain ⟨_, hall, hAcur⟩ := w.busy hb
    refine ⟨R, hR, w.oldTie C hall, fun _ _ A hA => hAcur A hA, ?_⟩
    intro o ho
    have g := w.pgreen o (hall o ho) ho
    obtain ⟨x, hx, hv, _⟩ := g.info
    obtain ⟨x', hx', hc⟩ := w.stamp o (hall o ho) (preOf_nonout r idOf _ _ none none R hR o ho)
    rw [hx] at hx'; cases hx'
    exact ⟨g.sok, g.hot, x, hx, hv, g.sem hP w.inv, hc⟩
  · intro hres _
    have e := hdone hres
    subst e
    have hinv := inv_restamp w.inv w.mem (nodeOk_restamped C w)
    rw [markDeepVerified_eq]
    exact ⟨inv_emit' hinv _, dv_nb_emit _ (nb_restamp w.nb), dv_ext_emit _ (ext_restamp hI hm hns w.ext)⟩

end Result

theorem validateOutputOk (P : Prog) (idOf : Nat → Nat) : ValidateOutputOk P idOf :=
  fun _ _ _ hI hA ho htie => validateOutput_ok hI hA ho htie

/-- MAIN: deep verification of node `r` whose memo fails the shallow test -/
theorem deepOk {P : Prog} {idOf : Nat → Nat} (hP : Wf2 P idOf) (r : Nat) (mc : McaFn)
    (hmc : McaSpec P idOf r mc) (hms : SpecMcaOk P idOf (mcaSpec P.spec)) : DeepOk P idOf r mc :=
  deepOk_of hP (validateOutputOk P idOf) r mc hmc hms

/-- for the engine the stickiness premise of `DeepOk` holds -/
example (P : Prog) (r : Nat) : RelM Sticky (eng P r).2 := (eng_rel primRel_sticky P r).2

/-! ### an unrecorded read before the `create` is not verified in the current revision after the walk

  Node 0 is constant (NEVER_CHANGE).  Node 1 reads node 0 (unrecorded), reads input 0, creates its
  struct and specifies.  `get 1`, then a write to ANOTHER input of level 0, then the deep
  verification of node 1: the edge on input 0 is unchanged, the output edge is validated (node 1 is
  busy now), the result is "unchanged" — and the memo of node 0 was never touched: `hotDep` fails
  for the first read before the `create`, which is why `LocalTie` asks `hotDep` of recorded reads
  only.  (The hypotheses of `DeepOk` on this run: a memo that fails the shallow test, no panic.) -/
namespace CexHot

def P : Prog where
  node q := if q = 0 then .ret ⟨5, none⟩ else
    .read (.qry 0) fun _ => .read (.inp 0) fun x => .create 0 x.n fun h => .specify 1 2 (.ret h)
  spec _ _ := .ret ⟨0, none⟩

def s2 : State := write (getOp P (init fun _ => ⟨7, 0, 0⟩) 1).1 1 9 none
def o0 : Obs := ⟨.qry 0, ⟨5, none⟩, false, false⟩
def obs1 : List Obs := [o0, ⟨.inp 0, ⟨7, none⟩, true, false⟩, ⟨.spec 1, ⟨2, none⟩, true, true⟩]
def tf : State × Bool := deepEdges (eng P 1).2 P.spec 1 obs1 s2 1

theorem h_memo : (s2.memos 1).map (fun m => (m.obs, m.va, m.dur)) = some (obs1, 1, 0) := by decide
theorem h_res : tf.2 = true ∧ tf.1.panic = none ∧ tf.1.cur = 2 := by decide
theorem h_slot : (tf.1.slots 1).map (·.upd) = some 2 := by decide
theorem h_m0 : (tf.1.memos 0).map (·.va) = some 1 := by decide
theorem h_m1 : (tf.1.memos 1).map (fun m => (m.va, m.dur)) = some (1, 0) := by decide
theorem h_lc : lc tf.1 0 = 2 := by decide
theorem h_pre : o0 ∈ preOf (fun _ => 0) (P.node 1) obs1 := by decide

theorem cex : ∀ m, s2.memos 1 = some m →
    ¬ SOK s2 m ∧ deepEdges (eng P 1).2 P.spec 1 m.obs s2 m.va = tf ∧ tf.2 = true ∧ tf.1.panic = none ∧
    Busy tf.1 1 ∧ o0 ∈ preOf (fun _ => 0) (P.node 1) m.obs ∧ ¬ hotDep tf.1 o0.dep := by
  intro m hm
  have h := h_memo
  rw [hm] at h
  simp only [Option.map_some, Option.some.injEq, Prod.mk.injEq] at h
  obtain ⟨hobs, hva, hdur⟩ := h
  have hcur := h_res.2.2
  refine ⟨?_, by rw [hobs, hva]; rfl, h_res.1, h_res.2.1, ?_, by rw [hobs]; exact h_pre, ?_⟩
  · rintro (e | e)
    · rw [hva] at e; exact absurd e (by decide)
    · rw [hva, hdur] at e; exact absurd e (by decide)
  · have hs := h_slot
    cases hsl : tf.1.slots 1 with
    | none => rw [hsl] at hs; cases hs
    | some sl =>
      rw [hsl] at hs
      simp only [Option.map_some, Option.some.injEq] at hs
      refine ⟨sl, hsl, by rw [hs, hcur], ?_⟩
      rintro ⟨m', hm', hsok⟩
      have h1 := h_m1
      rw [hm'] at h1
      simp only [Option.map_some, Option.some.injEq, Prod.mk.injEq] at h1
      rcases hsok with e | e
      · omega
      · rw [h1.2, h_lc] at e; omega
  · rintro ⟨m0, hm0, hv0⟩
    have h0 := h_m0
    rw [hm0] at h0
    simp only [Option.map_some, Option.some.injEq] at h0
    omega

end CexHot

end SalsaVerif.Proofs.CoreSpec
