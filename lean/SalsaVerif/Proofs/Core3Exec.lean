/-
  Core3 engine (stage S3a): `deep_ok`, `execute_ok`.  Core Lean only.
-/
import SalsaVerif.Proofs.Core3Run

namespace SalsaVerif.Proofs.Core3
open SalsaVerif.Model.Core3

theorem deep_ok {P r mc} (hmc : McaSpec P r mc) : ∀ obs s rev, Inv P s →
    (∀ o q', o ∈ obs → o.dep = .qry q' → q' < r ∧ ∃ m, s.memos q' = some m) →
    (∀ o c, o ∈ obs → o.dep = .cell c → o.recd = false) →
    Inv P (deepEdges mc obs s rev).1 ∧ Ext s (deepEdges mc obs s rev).1 r ∧
    ((deepEdges mc obs s rev).2 = true → ∀ o, o ∈ obs → o.recd = true →
        hot (deepEdges mc obs s rev).1 o.dep ∧
        ∃ x, depInfo (deepEdges mc obs s rev).1 o.dep = some x ∧ x.ca ≤ rev) ∧
    ((deepEdges mc obs s rev).2 = false → ∃ pre o post x, obs = pre ++ o :: post ∧ o.recd = true ∧
        (∀ o', o' ∈ pre → o'.recd = true → hot (deepEdges mc obs s rev).1 o'.dep ∧
            ∃ x', depInfo (deepEdges mc obs s rev).1 o'.dep = some x' ∧ x'.ca ≤ rev) ∧
        hot (deepEdges mc obs s rev).1 o.dep ∧ depInfo (deepEdges mc obs s rev).1 o.dep = some x ∧
        rev < x.ca) := by
  intro obs
  induction obs with
  | nil =>
    intro s rev hI _ _
    simp only [deepEdges]
    exact ⟨hI, Ext.refl s r, by simp, by simp⟩
  | cons o rest ih =>
    intro s rev hI hpre hcell
    have hcell_rest : ∀ o' c, o' ∈ rest → o'.dep = .cell c → o'.recd = false :=
      fun o' c hm hd => hcell o' c (by simp [hm]) hd
    have hpre_rest : ∀ o' q', o' ∈ rest → o'.dep = .qry q' → q' < r ∧ ∃ m, s.memos q' = some m :=
      fun o' q' hm hd => hpre o' q' (by simp [hm]) hd
    simp only [deepEdges]
    by_cases hrec : o.recd = true
    · simp only [hrec, if_true]
      have first : Inv P (depChanged mc s o.dep rev).1 ∧ Ext s (depChanged mc s o.dep rev).1 r ∧
          hot (depChanged mc s o.dep rev).1 o.dep ∧
          ∃ x, depInfo (depChanged mc s o.dep rev).1 o.dep = some x ∧
            (depChanged mc s o.dep rev).2 = decide (x.ca > rev) := by
        cases hd : o.dep with
        | cell c => have := hcell o c (by simp) hd; rw [hrec] at this; cases this
        | inp i =>
          simp only [depChanged]
          exact ⟨hI, Ext.refl s r, trivial, _, rfl, rfl⟩
        | qry q =>
          simp only [depChanged]
          obtain ⟨hq, hm⟩ := hpre o q (by simp) hd
          obtain ⟨a1, a2, m, a3, a4, a5⟩ := hmc.ok s q rev hq hI hm
          exact ⟨a1, a2, ⟨m, a3, by rw [a4, a2.cur]⟩, ⟨m.gval, m.ca, m.dur⟩, by simp [depInfo, a3], a5⟩
      obtain ⟨f1, f2, f3, x, f4, f5⟩ := first
      by_cases hch : (depChanged mc s o.dep rev).2 = true
      · simp only [hch, if_true]
        refine ⟨f1, f2, by simp, ?_⟩
        intro _
        refine ⟨[], o, rest, x, by simp, hrec, by simp, f3, f4, ?_⟩
        rw [f5] at hch
        exact of_decide_eq_true hch
      · have hch' : (depChanged mc s o.dep rev).2 = false := by
          cases h : (depChanged mc s o.dep rev).2 <;> simp_all
        simp only [hch']
        have hpre' : ∀ o' q', o' ∈ rest → o'.dep = .qry q' →
            q' < r ∧ ∃ m, (depChanged mc s o.dep rev).1.memos q' = some m := by
          intro o' q' hm hd
          obtain ⟨hq, m, hmm⟩ := hpre_rest o' q' hm hd
          obtain ⟨m', hm', _⟩ := f2.mono q' m hmm
          exact ⟨hq, m', hm'⟩
        obtain ⟨i1, i2, i3, i4⟩ := ih (depChanged mc s o.dep rev).1 rev f1 hpre' hcell_rest
        have hcle : x.ca ≤ rev := by
          rw [f5] at hch'
          exact Nat.le_of_not_gt (of_decide_eq_false hch')
        refine ⟨i1, Ext.trans f2 i2, ?_, ?_⟩
        · intro ht o' hm hr'
          simp only [List.mem_cons] at hm
          rcases hm with hm | hm
          · subst hm
            exact ⟨hot_ext i2 f3, x, depInfo_hot_ext i2 f3 f4, hcle⟩
          · exact i3 ht o' hm hr'
        · intro hf
          obtain ⟨pre, o2, post, x2, j1, j1r, j2, j3, j4, j5⟩ := i4 hf
          refine ⟨o :: pre, o2, post, x2, by simp [j1], j1r, ?_, j3, j4, j5⟩
          intro o' hm hr'
          simp only [List.mem_cons] at hm
          rcases hm with hm | hm
          · subst hm
            exact ⟨hot_ext i2 f3, x, depInfo_hot_ext i2 f3 f4, hcle⟩
          · exact j2 o' hm hr'
    · have hrec' : o.recd = false := by cases h : o.recd <;> simp_all
      simp only [hrec', Bool.false_eq_true, if_false]
      obtain ⟨i1, i2, i3, i4⟩ := ih s rev hI hpre_rest hcell_rest
      refine ⟨i1, i2, ?_, ?_⟩
      · intro ht o' hm hr'
        simp only [List.mem_cons] at hm
        rcases hm with hm | hm
        · subst hm; rw [hrec'] at hr'; cases hr'
        · exact i3 ht o' hm hr'
      · intro hf
        obtain ⟨pre, o2, post, x2, j1, j1r, j2, j3, j4, j5⟩ := i4 hf
        refine ⟨o :: pre, o2, post, x2, by simp [j1], j1r, ?_, j3, j4, j5⟩
        intro o' hm hr'
        simp only [List.mem_cons] at hm
        rcases hm with hm | hm
        · subst hm; rw [hrec'] at hr'; cases hr'
        · exact j2 o' hm hr'

theorem sok_of_never {P s m} (hI : Inv P s) (h3 : 3 ≤ m.dur) (hva : 1 ≤ m.va) : SOK s m := by
  right; rw [hI.lc_never m.dur h3]; exact hva

theorem frInv0 {P s} (hI : Inv P s) : FrInv s frame0 := by
  refine ⟨hI.cur1, ?_, ?_, ?_⟩
  · intro h; simp [frame0] at h
  · intro o c h; simp [frame0] at h
  · intro h; simp [frame0] at h

theorem sokB_iff (s : State) (m : Memo) : sokB s m = true ↔ SOK s m := by
  simp [sokB, SOK]

theorem canBackdate_iff (kd : Kind) (o : Memo) (v : Nat) (f : Frame) :
    canBackdate kd o v f = true ↔ kd ≠ .noeq ∧ o.value = some v ∧ o.dur ≤ f.dur := by
  simp [canBackdate, and_assoc]

/-- the memo installed by `execute`, as a function of the result of the body -/
def execMemo (P : Prog) (r : Nat) (old : Option Memo) (r0 : State × Frame × Nat) : Memo :=
  newMemo r0.2.2 r0.1.cur (backdateCa (P.kind r) old r0.2.2 r0.2.1) r0.2.1 (deepAtOf r0.1 old)

theorem execute_eq (fe : FetchFn) (P : Prog) (s : State) (r : Nat) (old : Option Memo) :
    execute fe P s r old =
      (setMemo (runBody fe (P.body r) (emit s (.exec r)) frame0).1 r
          (execMemo P r old (runBody fe (P.body r) (emit s (.exec r)) frame0)),
       ⟨(runBody fe (P.body r) (emit s (.exec r)) frame0).2.2,
        backdateCa (P.kind r) old (runBody fe (P.body r) (emit s (.exec r)) frame0).2.2
          (runBody fe (P.body r) (emit s (.exec r)) frame0).2.1,
        (runBody fe (P.body r) (emit s (.exec r)) frame0).2.1.dur⟩) := rfl

/-- `MemoOk` of the freshly executed memo (any stamp `ca ≤ cur`, `deepAt = cur`) -/
theorem memoOk_new {P r} {t : State} {F : Frame} {v ca : Nat} {new : List Obs}
    (hI : Inv P t) (fi : FrInv t F) (hca : ca ≤ t.cur) (hdur : F.dur ≤ 3) (hobs : F.obs = new)
    (hrep : replay (P.body r) (obsPairs new) = some v)
    (hfacts : ∀ o, o ∈ new → hot t o.dep ∧ ObsFact t F o ∧ (∀ q', o.dep = .qry q' → q' < r)) :
    MemoOk P (setMemo t r (newMemo v t.cur ca F t.cur)) r (newMemo v t.cur ca F t.cur) := by
  have hnr : ∀ o, o ∈ new → o.dep ≠ .qry r := by
    intro o hm hd
    have := (hfacts o hm).2.2 r hd
    omega
  have hinfo : ∀ o, o ∈ new → ∀ x, depInfo (setMemo t r (newMemo v t.cur ca F t.cur)) o.dep = some x →
      depInfo t o.dep = some x ∧ x.val = o.val ∧ x.ca ≤ F.ca ∧ F.dur ≤ x.dur ∧ (o.recd = false → 3 ≤ x.dur) := by
    intro o hm x hx
    rw [depInfo_setMemo_other _ _ _ (hnr o hm)] at hx
    rcases (hfacts o hm).2.1 with ⟨c, hc⟩ | ⟨x0, h0, h1, h2, h3, h4⟩
    · rw [hc] at hx; simp [depInfo] at hx
    · rw [h0] at hx; cases hx; exact ⟨h0, h1, h2, h3, h4⟩
  simp only [newMemo]
  refine ⟨hca, Nat.le_refl _, hI.cur1, Nat.le_refl _, hdur, rfl, by simp only; rw [hobs]; exact hrep,
    fun h => (fi.unt h).1, ?_, fi.hasc, ?_, ?_, Or.inl (hI.lc_le _), ?_, ?_, ?_, ?_⟩
  · intro o c ho hd
    obtain ⟨a, b, c'⟩ := fi.cellu o c ho hd
    exact ⟨a, b, fun _ => c'⟩
  · intro o hm x hx _
    simp only at hm; rw [hobs] at hm
    obtain ⟨_, h1, _, h3, _⟩ := hinfo o hm x hx
    exact ⟨h1, h3⟩
  · intro _ o hm
    simp only at hm; rw [hobs] at hm
    refine ⟨?_, ?_⟩
    · intro x hx
      obtain ⟨_, _, h2, _⟩ := hinfo o hm x hx
      exact Nat.le_trans h2 fi.ca_le
    · rw [sokDep_setMemo_other _ _ _ (hnr o hm)]
      have hh := (hfacts o hm).1
      cases hd : o.dep with
      | cell c => trivial
      | inp i => trivial
      | qry q' =>
        rw [hd] at hh
        obtain ⟨m2, hm2, hv2⟩ := hh
        exact ⟨m2, hm2, Or.inl hv2⟩
  · intro o q' hm hd
    simp only at hm; rw [hobs] at hm
    obtain ⟨hh, _, hlt⟩ := hfacts o hm
    rw [hd] at hh
    obtain ⟨m2, hm2, hv2⟩ := hh
    have hne : q' ≠ r := by have := hlt q' hd; omega
    exact ⟨hlt q' hd, m2, by rw [setMemo_other _ _ _ hne]; exact hm2, fun _ => by simp only; rw [hv2]; exact Nat.le_refl _⟩
  · intro o hm hrec x hx
    simp only at hm; rw [hobs] at hm
    obtain ⟨_, h1, _, _, h4⟩ := hinfo o hm x hx
    exact ⟨h1, h4 hrec⟩
  · intro w d _ _ h
    simp only at h
    exact absurd h.1 (Nat.not_lt.mpr h.2)
  · intro o hm x hx
    simp only at hm; rw [hobs] at hm
    obtain ⟨_, _, h2, _⟩ := hinfo o hm x hx
    left; exact Nat.le_trans h2 fi.ca_le

/-- observers of a key that is re-executed after failing the shallow test -/
theorem hobs_exec {P r} {t : State} {old : Option Memo} {v : Nat} {F : Frame} (kd : Kind)
    (hI : Inv P t) (hmr : t.memos r = old) (hnsok : ∀ o, old = some o → ¬ SOK t o)
    (hback : ∀ o, old = some o → ∃ w d, (w, d) ∈ t.wlog ∧ o.dur ≤ d ∧ o.va < w ∧ w ≤ F.ca) :
    ∀ p mp o, p ≠ r → t.memos p = some mp → o ∈ mp.obs → o.dep = .qry r →
      (backdateCa kd old v F ≤ mp.va → v = o.val ∧ mp.dur ≤ F.dur) ∧
      (SOK t mp → backdateCa kd old v F ≤ mp.va) ∧
      (o.recd = false → v = o.val ∧ 3 ≤ F.dur) ∧
      (backdateCa kd old v F ≤ mp.va ∨
        ∃ w d, (w, d) ∈ t.wlog ∧ mp.dur ≤ d ∧ mp.va < w ∧ w ≤ backdateCa kd old v F) := by
  intro p mp o hpr hmp ho hdq
  have ok := hI.memo p mp hmp
  obtain ⟨_, mo, hmo, hdeep⟩ := ok.i5 o r ho hdq
  rw [hmr] at hmo
  subst hmo
  have hinfo : depInfo t o.dep = some ⟨mo.gval, mo.ca, mo.dur⟩ := by rw [hdq]; simp [depInfo, hmr]
  have mook := hI.memo r mo hmr
  by_cases hbd : canBackdate kd mo v F = true
  · -- backdated: value and stamp unchanged
    obtain ⟨_, hval, hdur⟩ := (canBackdate_iff kd mo v F).mp hbd
    have hvg : v = mo.gval := by rw [mook.hasval] at hval; exact (Option.some.inj hval).symm
    have hca' : backdateCa kd (some mo) v F = mo.ca := by simp only [backdateCa, hbd, if_true]
    rw [hca']
    have := hobs_same (q := r) (mo := mo) hI hmr { mo with gval := v, dur := F.dur } hvg rfl hdur
      p mp o hpr hmp ho hdq
    exact this
  · have hca' : backdateCa kd (some mo) v F = F.ca := by simp only [backdateCa, hbd]; rfl
    rw [hca']
    have hns : ¬ SOK t mo := hnsok mo rfl
    have hnsmp : ¬ SOK t mp := by
      intro h
      have := (ok.i3 h o ho).2
      rw [hdq] at this
      obtain ⟨m2, hm2, hs2⟩ := this
      rw [hmr] at hm2; cases hm2
      exact hns hs2
    have hrec : o.recd = true := by
      cases hr : o.recd with
      | true => rfl
      | false =>
        have := (ok.i6 o ho hr _ hinfo).2
        exact absurd (sok_of_never hI this mook.va1) hns
    have hdeep' := hdeep hrec
    obtain ⟨w, d, hw, hd, hlt, hle⟩ := hback mo rfl
    have key : ∀ (_ : mo.ca ≤ mp.va), mp.va < w := by
      intro hle2
      have hdur := (ok.i2 o ho _ hinfo hle2).2
      apply Nat.lt_of_not_le
      intro hwle
      exact ok.g4 w d hw (Nat.le_trans hdur hd) ⟨Nat.lt_of_le_of_lt hdeep' hlt, hwle⟩
    have hgt : mp.va < F.ca := by
      by_cases hle2 : mo.ca ≤ mp.va
      · exact Nat.lt_of_lt_of_le (key hle2) hle
      · have h1 : mp.va < mo.ca := Nat.lt_of_not_le hle2
        exact Nat.lt_of_lt_of_le (Nat.lt_of_lt_of_le (Nat.lt_of_lt_of_le h1 mook.ca_va) (Nat.le_of_lt hlt)) hle
    refine ⟨?_, ?_, ?_, ?_⟩
    · intro h; exact absurd h (Nat.not_le.mpr hgt)
    · intro h; exact absurd h hnsmp
    · intro h; rw [hrec] at h; cases h
    right
    by_cases hle2 : mo.ca ≤ mp.va
    · exact ⟨w, d, hw, Nat.le_trans (ok.i2 o ho _ hinfo hle2).2 hd, key hle2, hle⟩
    · rcases ok.i10 o ho _ hinfo with h | ⟨w2, d2, a, b, c, e⟩
      · exact absurd h hle2
      · exact ⟨w2, d2, a, b, c, Nat.le_trans e (Nat.le_trans mook.ca_va (Nat.le_trans (Nat.le_of_lt hlt) hle))⟩

theorem ext_install {P s t r m'} (hI : Inv P s) (h : Ext s t r)
    (hstale : ∀ m, s.memos r = some m → m.va ≠ s.cur) (hva : m'.va = s.cur)
    (hca : ∀ m, s.memos r = some m → m.ca ≤ m'.ca) : Ext s (setMemo t r m') (r + 1) := by
  refine ⟨by simp [h.cur], by simp [h.lch], by simp [h.inp], by simp [h.cells], by simp [h.wlog], ?_, ?_, ?_, ?_⟩
  · intro q hq
    have hne : q ≠ r := by omega
    rw [setMemo_other _ _ _ hne]; exact h.above q (by omega)
  · intro q m0 hm0 hv0
    by_cases hqr : q = r
    · subst hqr; exact absurd hv0 (hstale m0 hm0)
    · rw [setMemo_other _ _ _ hqr]; exact h.stable q m0 hm0 hv0
  · intro q m0 hm0
    by_cases hqr : q = r
    · subst hqr
      exact ⟨m', setMemo_same _ _ _, by rw [hva]; exact (hI.memo q m0 hm0).va_cur, hca m0 hm0⟩
    · rw [setMemo_other _ _ _ hqr]; exact h.mono q m0 hm0
  · intro q
    by_cases hqr : q = r
    · subst hqr; exact Or.inr ⟨m', setMemo_same _ _ _, hva⟩
    · rw [setMemo_other _ _ _ hqr]; exact h.touched q

theorem execute_ok {P r fe} (hP : Wf P) (hfe : FetchSpec P r fe) (s : State) (old : Option Memo)
    (hI : Inv P s) (hold : s.memos r = old)
    (hstale : ∀ m, s.memos r = some m → m.va ≠ s.cur)
    (hnsok : ∀ o, old = some o → ¬ SOK s o)
    (hback : ∀ o, old = some o → ∃ w d, (w, d) ∈ s.wlog ∧ o.dur ≤ d ∧ o.va < w ∧
        w ≤ (runBody fe (P.body r) (emit s (.exec r)) frame0).2.1.ca) :
    Inv P (execute fe P s r old).1 ∧ Ext s (execute fe P s r old).1 (r + 1) ∧
    (execute fe P s r old).2.val = sem P s.inp s.cells r ∧
    ∃ m, (execute fe P s r old).1.memos r = some m ∧ m.va = s.cur ∧
      m.gval = (execute fe P s r old).2.val ∧ m.ca = (execute fe P s r old).2.ca ∧
      m.dur = (execute fe P s r old).2.dur := by
  have hrun := run_ok hfe (P.body r) (hP r) (emit s (.exec r)) frame0 (inv_emit _ hI) (frInv0 (inv_emit _ hI))
  rw [execute_eq]
  generalize runBody fe (P.body r) (emit s (.exec r)) frame0 = r0 at hrun hback
  obtain ⟨k1, k2, k3, _, k5d, kfi, new, k6, k7, k8⟩ := hrun
  replace k2 : Ext s r0.1 r := Ext.trans (ext_emit s _ r) k2
  replace k3 : r0.2.2 = evalB (semDep P s.inp s.cells) (P.body r) := k3
  simp only [frame0, List.nil_append] at k6 k5d
  have hmr : r0.1.memos r = old := by rw [k2.above r (Nat.le_refl r)]; exact hold
  have hnsok' : ∀ o, old = some o → ¬ SOK r0.1 o := by
    intro o ho h
    apply hnsok o ho
    rcases h with h | h
    · left; rw [h, k2.cur]
    · right; rw [← k2.lc]; exact h
  have hdeep : deepAtOf r0.1 old = r0.1.cur := by
    cases old with
    | none => rfl
    | some o =>
      have : sokB r0.1 o = false := by
        cases hb : sokB r0.1 o with
        | false => rfl
        | true => exact absurd ((sokB_iff _ _).mp hb) (hnsok' o rfl)
      simp only [deepAtOf, this]; rfl
  have hca_le : backdateCa (P.kind r) old r0.2.2 r0.2.1 ≤ r0.1.cur := by
    cases old with
    | none => exact kfi.ca_le
    | some o =>
      simp only [backdateCa]
      split
      · have := hI.memo r o hold
        rw [k2.cur]; exact Nat.le_trans this.ca_va this.va_cur
      · exact kfi.ca_le
  simp only [execMemo, hdeep]
  have hok := memoOk_new (P := P) (r := r) (v := r0.2.2) k1 kfi hca_le k5d k6 k7 k8
  have hback' : ∀ o, old = some o → ∃ w d, (w, d) ∈ r0.1.wlog ∧ o.dur ≤ d ∧ o.va < w ∧ w ≤ r0.2.1.ca := by
    intro o ho
    obtain ⟨w, d, a, b, c, e⟩ := hback o ho
    exact ⟨w, d, by rw [k2.wlog]; exact a, b, c, e⟩
  have hobs := hobs_exec (v := r0.2.2) (F := r0.2.1) (P.kind r) k1 hmr hnsok' hback'
  have hinv := inv_setMemo (q := r) k1 hok rfl hobs
  refine ⟨hinv, ?_, by show r0.2.2 = _; rw [k3, sem_unfold P s.inp s.cells hP r], ?_⟩
  · apply ext_install hI k2 hstale k2.cur
    intro m hm
    have hom : old = some m := by rw [← hold]; exact hm
    have mok := hI.memo r m hm
    show m.ca ≤ backdateCa (P.kind r) old r0.2.2 r0.2.1
    rw [hom]
    simp only [backdateCa]
    split
    · exact Nat.le_refl _
    · obtain ⟨w, d, _, _, hlt, hle⟩ := hback m hom
      exact Nat.le_trans mok.ca_va (Nat.le_trans (Nat.le_of_lt hlt) hle)
  · exact ⟨_, setMemo_same _ _ _, k2.cur, rfl, rfl, rfl⟩

end SalsaVerif.Proofs.Core3
