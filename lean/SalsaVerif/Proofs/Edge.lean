/-
  Lemmas about the *generated* edge encoders (`Gen/Edge.lean`): packing round trip, tag bit.
-/
import SalsaVerif.Gen.Edge
import SalsaVerif.Proofs.Bits

namespace SalsaVerif.Proofs.Edge
open SalsaVerif.Gen.Edge SalsaVerif.Bits

theorem new_some_iff (e : QueryEdge) :
    (PackedQueryEdge.new e).isSome = true ↔ e.ingredient ≤ 4095 ∧ e.generation ≤ 1048575 := by
  simp only [PackedQueryEdge.new, IngredientIndex.as_u32, PackedQueryEdge.INGREDIENT_MASK,
    PackedQueryEdge.GENERATION_MASK]
  by_cases h1 : e.ingredient > 4095 <;> by_cases h2 : e.generation > 1048575 <;> simp [h1, h2] <;> omega

theorem new_eq_some {e : QueryEdge} {p : PackedQueryEdge} (h : PackedQueryEdge.new e = some p) :
    e.ingredient ≤ 4095 ∧ e.generation ≤ 1048575 ∧
    p = ⟨e.index, e.generation ||| (e.ingredient <<< 20) % 2^32⟩ := by
  simp only [PackedQueryEdge.new, IngredientIndex.as_u32, PackedQueryEdge.INGREDIENT_MASK,
    PackedQueryEdge.GENERATION_MASK, PackedQueryEdge.INGREDIENT_SHIFT] at h
  by_cases h1 : e.ingredient > 4095 <;> by_cases h2 : e.generation > 1048575 <;> simp [h1, h2] at h
  exact ⟨by omega, by omega, h.symm⟩

/-- unpack ∘ pack = id on every packable edge (all 32-bit values, not samples) -/
theorem edge_new {e : QueryEdge} {p : PackedQueryEdge} (h : PackedQueryEdge.new e = some p) :
    PackedQueryEdge.edge p = e := by
  obtain ⟨hi, hg, rfl⟩ := new_eq_some h
  have hi' : e.ingredient < 2^12 := by omega
  have hg' : e.generation < 2^20 := by omega
  have hs : (e.ingredient <<< 20) % 2^32 = e.ingredient <<< 20 :=
    Nat.mod_eq_of_lt (shl_lt (n := 32) (k := 20) (by simpa using hi') (by omega))
  simp only [PackedQueryEdge.edge, PackedQueryEdge.GENERATION_MASK, PackedQueryEdge.INGREDIENT_SHIFT, hs]
  have hm : (1048575 : Nat) = 2^20 - 1 := by decide
  rw [hm, or_shl_and_mask _ _ _ hg', or_shl_shr _ _ _ hg']

theorem with_tag_false {x : Nat} (h : x ≤ IngredientIndex.MAX_INDEX) :
    IngredientIndex.with_tag x false = x := by
  simp only [IngredientIndex.MAX_INDEX] at h
  simp only [IngredientIndex.with_tag, IngredientIndex.MAX_INDEX]
  have hm : (2147483647 : Nat) = 2^31 - 1 := by decide
  rw [hm, and_mask_of_lt (by omega)]
  simp

theorem with_tag_true {x : Nat} (h : x ≤ IngredientIndex.MAX_INDEX) :
    IngredientIndex.with_tag x true = 2^31 + x := by
  simp only [IngredientIndex.MAX_INDEX] at h
  simp only [IngredientIndex.with_tag, IngredientIndex.MAX_INDEX]
  have hm : (2147483647 : Nat) = 2^31 - 1 := by decide
  rw [hm, and_mask_of_lt (by omega)]
  simp only [if_true]
  have h1 : ((1 : Nat) <<< 31) % 2^32 = 1 <<< 31 := by decide
  rw [h1, or_shl_eq_add x 1 31 (by omega)]
  try omega

/-- clearing the tag of a tagged index gives the index back -/
theorem with_tag_false_of_tagged {x : Nat} (h : x ≤ IngredientIndex.MAX_INDEX) :
    IngredientIndex.with_tag (2^31 + x) false = x := by
  simp only [IngredientIndex.MAX_INDEX] at h
  simp only [IngredientIndex.with_tag, IngredientIndex.MAX_INDEX]
  have hm : (2147483647 : Nat) = 2^31 - 1 := by decide
  rw [hm, Nat.and_two_pow_sub_one_eq_mod]
  have : (2^31 + x) % 2^31 = x := by omega
  rw [this]; simp

theorem tag_mask : (2^32 - 1 - IngredientIndex.MAX_INDEX : Nat) = 2^31 := by decide

theorem tag_of_untagged {x : Nat} (h : x ≤ IngredientIndex.MAX_INDEX) : IngredientIndex.tag x = false := by
  have hx : x < 2^31 := by simp only [IngredientIndex.MAX_INDEX] at h; omega
  unfold IngredientIndex.tag
  rw [decide_eq_false_iff_not, tag_mask]
  intro hne; apply hne
  apply Nat.eq_of_testBit_eq
  intro i
  rw [Nat.testBit_and, Nat.testBit_two_pow, Nat.zero_testBit]
  by_cases hi : 31 = i
  · subst hi; simp [Nat.testBit_lt_two_pow hx]
  · simp [hi]

theorem tag_of_tagged {x : Nat} (h : x ≤ IngredientIndex.MAX_INDEX) : IngredientIndex.tag (2^31 + x) = true := by
  have hx : x < 2^31 := by simp only [IngredientIndex.MAX_INDEX] at h; omega
  unfold IngredientIndex.tag
  rw [decide_eq_true_iff, tag_mask]
  intro h0
  have h1 : ((2^31 + x) &&& 2^31).testBit 31 = true := by
    rw [Nat.testBit_and, Nat.testBit_two_pow, Nat.testBit_two_pow_add_eq]
    simp [Nat.testBit_lt_two_pow hx]
  rw [h0, Nat.zero_testBit] at h1
  exact absurd h1 (by simp)

theorem index0_from_index {i : Nat} (h : i < Id.MAX_U32) : Id.index0 (Id.from_index i) = i := by
  have hm : Id.MAX_U32 = 4294967040 := by decide
  rw [hm] at h
  simp only [Id.index0, Id.from_index]
  omega

end SalsaVerif.Proofs.Edge
