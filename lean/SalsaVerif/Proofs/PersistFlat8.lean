/-
  C26 with flattening: histories.  `InvF pers P s` — the invariant `J` for some ghost history —
  holds initially and is preserved by requests, writes, synthetic writes and snapshots, for
  arbitrary `pers`; every request returns the from-scratch value.  Core Lean only.
-/
import SalsaVerif.Proofs.PersistFlat7h

namespace SalsaVerif.Proofs.PersistFlat
open SalsaVerif.Model.Core SalsaVerif.Model.Persist SalsaVerif.Proofs.Core SalsaVerif.Proofs.Persist

/-- the engine invariant of a persistence build with flattening: `J` (PersistFlat2.lean) for some
    ghost input history and some revision of the last restore, and every edge is recorded -/
def InvF (pers : Nat → Bool) (P : Nat → Body) (s : State) : Prop :=
  ∃ H R0, J pers P H R0 s ∧ AllRec s

theorem init_invF (pers : Nat → Bool) (P : Nat → Body) (inp : Nat → Inp) : InvF pers P (init inp) := by
  refine ⟨fun _ => (init inp).inp, 1, ⟨⟨Nat.le_refl _, ?_, ?_, ?_, ?_, fun _ => Nat.le_refl _, fun _ => Nat.le_refl _⟩,
    ⟨fun _ _ _ _ => rfl, fun _ _ _ _ _ h => absurd rfl h, fun ρ i h1 _ => h1⟩, Nat.le_refl _, ?_⟩, ?_⟩
  · intro d; simp only [lc, init]; split <;> exact Nat.le_refl _
  · intro d; simp only [lc, init]; split <;> exact Nat.le_refl _
  · intro d; simp only [lc, init]; split <;> split <;> exact Nat.le_refl _
  · intro d hd; simp only [lc, init]; have : d ≠ 0 := by omega
    simp [this]
  · intro q m h; simp [init] at h
  · intro q m h; simp [init] at h

theorem stepP_invF {pers P} (hP : Wf P) (s : State) (op : POp) (h : InvF pers P s) :
    InvF pers P (stepP pers P s op) := by
  obtain ⟨H, R0, hJ, hA⟩ := h
  cases op with
  | get q =>
    obtain ⟨a, b, _⟩ := fetch_soundJ hP s q hJ hA
    exact ⟨H, R0, a, b⟩
  | set i v nd =>
    obtain ⟨b, hb⟩ := write_bump s i v nd
    exact ⟨_, R0, bump_J hb hJ, write_rec i v nd hA⟩
  | synth d =>
    obtain ⟨b, hb⟩ := synth_bump s d
    exact ⟨_, R0, bump_J hb hJ, synth_rec d hA⟩
  | snapshot => exact ⟨H, s.cur, restore_J hP hJ hA, restore_snapshot_rec pers hA⟩

theorem foldlP_invF {pers P} (hP : Wf P) : ∀ (ops : List POp) (s : State), InvF pers P s →
    InvF pers P (ops.foldl (stepP pers P) s) := by
  intro ops
  induction ops with
  | nil => intro s h; exact h
  | cons op rest ih => intro s h; exact ih _ (stepP_invF hP s op h)

theorem runP_invF {pers P} (hP : Wf P) (inp : Nat → Inp) (ops : List POp) : InvF pers P (runP pers P inp ops) :=
  foldlP_invF hP ops _ (init_invF pers P inp)

theorem fetch_soundF {pers P} (hP : Wf P) (s : State) (q : Nat) (h : InvF pers P s) :
    InvF pers P (fetchP P s q).1 ∧ (fetchP P s q).2.val = sem P s.inp q ∧
    (fetchP P s q).1.cur = s.cur ∧ (fetchP P s q).1.inp = s.inp := by
  obtain ⟨H, R0, hJ, hA⟩ := h
  obtain ⟨a, b, c, d, e⟩ := fetch_soundJ hP s q hJ hA
  exact ⟨⟨H, R0, a, b⟩, c, d, e⟩

theorem outputsP_refF {pers P} (hP : Wf P) : ∀ (ops : List POp) (s : State), InvF pers P s →
    outputsP pers P s ops = refOutputsP P (envOf s.inp) ops := by
  intro ops
  induction ops with
  | nil => intro s _; rfl
  | cons op rest ih =>
    intro s hI
    cases op with
    | get q =>
      obtain ⟨a1, a2, _, a4⟩ := fetch_soundF hP s q hI
      simp only [outputsP, refOutputsP]
      rw [ih _ a1, a4, a2]
      congr 1
      exact sem_ext P s.inp (refInp (envOf s.inp)) (fun i => rfl) q
    | set i v nd =>
      simp only [outputsP, refOutputsP]
      have h := stepP_invF hP s (.set i v nd) hI
      simp only [stepP] at h
      rw [ih _ h, envOf_write]
    | synth d =>
      simp only [outputsP, refOutputsP]
      have h := stepP_invF hP s (.synth d) hI
      simp only [stepP] at h
      rw [ih _ h, envOf_synth]
    | snapshot =>
      simp only [outputsP, refOutputsP]
      have h := stepP_invF hP s .snapshot hI
      simp only [stepP] at h
      rw [ih _ h]
      rfl

end SalsaVerif.Proofs.PersistFlat
