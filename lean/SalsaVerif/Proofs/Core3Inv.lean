/-
  Core3 engine (stage S3a: S2 + no_eq + untracked cells; LRU present in the model but no value is
  ever evicted under the invariant — see `Inv.hasval`): well-formedness, replay, the invariant `Inv`, the frame relation `Ext`,
  and the memo-installation lemma `inv_setMemo` (DESIGN.md §3, Appendix A.2).  Core Lean only.
-/
import SalsaVerif.Model.Core3

namespace SalsaVerif.Proofs.Core3
open SalsaVerif.Model.Core3

inductive WfB (r : Nat) : Body → Prop
  | ret (v) : WfB r (.ret v)
  | read (d k) : (∀ q', d = .qry q' → q' < r) → (∀ v, WfB r (k v)) → WfB r (.read d k)

def Wf (P : Prog) : Prop := ∀ q, WfB q (P.body q)

def semDep (P : Prog) (inp : Nat → Inp) (cells : Nat → Nat) : Dep → Nat
  | .inp i => (inp i).val
  | .qry q => sem P inp cells q
  | .cell c => cells c

theorem semAt_stable (P inp cells) : ∀ r q, q < r → semAt P inp cells r q = sem P inp cells q := by
  intro r
  induction r with
  | zero => intro q h; omega
  | succ r ih =>
    intro q h
    by_cases hq : q < r
    · have := ih q hq
      simp only [semAt, hq, if_true]
      exact this
    · have : q = r := by omega
      subst this
      rfl

theorem evalB_congr (f g : Dep → Nat) (r : Nat) : ∀ b, WfB r b →
    (∀ i, f (.inp i) = g (.inp i)) → (∀ q, q < r → f (.qry q) = g (.qry q)) →
    (∀ c, f (.cell c) = g (.cell c)) → evalB f b = evalB g b := by
  intro b h
  induction h with
  | ret v => intros; rfl
  | read d k hd _ ih =>
    intro h1 h2 h3
    simp only [evalB]
    have : f d = g d := by
      cases d with
      | inp i => exact h1 i
      | qry q => exact h2 q (hd q rfl)
      | cell c => exact h3 c
    rw [this]; exact ih _ h1 h2 h3

theorem sem_unfold (P inp cells) (hP : Wf P) (q : Nat) :
    sem P inp cells q = evalB (semDep P inp cells) (P.body q) := by
  unfold sem
  simp only [semAt, Nat.lt_irrefl, if_false, if_true]
  apply evalB_congr _ _ q (P.body q) (hP q)
  · intro i; rfl
  · intro q' hq'; exact semAt_stable P inp cells q q' hq'
  · intro c; rfl

def replay : Body → List (Dep × Nat) → Option Nat
  | .ret v, [] => some v
  | .ret _, _ :: _ => none
  | .read _ _, [] => none
  | .read d k, (d', v) :: rest => if d = d' then replay (k v) rest else none

theorem replay_sem (f : Dep → Nat) : ∀ b obs v, replay b obs = some v →
    (∀ d x, (d, x) ∈ obs → f d = x) → evalB f b = v := by
  intro b
  induction b with
  | ret v0 =>
    intro obs v h _
    cases obs with
    | nil => simp [replay] at h; simp [evalB, h]
    | cons _ _ => simp [replay] at h
  | read d k ih =>
    intro obs v h hobs
    cases obs with
    | nil => simp [replay] at h
    | cons hd rest =>
      obtain ⟨d', x⟩ := hd
      simp only [replay] at h
      split at h
      · rename_i hdd
        subst hdd
        have hx : f d = x := hobs d x (by simp)
        simp only [evalB, hx]
        exact ih x rest v h (fun d2 x2 hm => hobs d2 x2 (by simp [hm]))
      · simp at h

def obsPairs (l : List Obs) : List (Dep × Nat) := l.map fun o => (o.dep, o.val)

def depInfo (s : State) : Dep → Option Res
  | .inp i => some ⟨(s.inp i).val, (s.inp i).ca, (s.inp i).dur⟩
  | .qry q => (s.memos q).map fun m => ⟨m.gval, m.ca, m.dur⟩
  | .cell _ => none

def SOK (s : State) (m : Memo) : Prop := m.va = s.cur ∨ lc s m.dur ≤ m.va

def sokDep (s : State) : Dep → Prop
  | .inp _ => True
  | .qry q => ∃ m, s.memos q = some m ∧ SOK s m
  | .cell _ => True

def hot (s : State) : Dep → Prop
  | .inp _ => True
  | .qry q => ∃ m, s.memos q = some m ∧ m.va = s.cur
  | .cell _ => True

structure MemoOk (P : Prog) (s : State) (q : Nat) (m : Memo) : Prop where
  ca_va : m.ca ≤ m.va
  va_cur : m.va ≤ s.cur
  va1 : 1 ≤ m.va
  deep_va : m.deepAt ≤ m.va
  dur3 : m.dur ≤ 3
  hasval : m.value = some m.gval
  rep : replay (P.body q) (obsPairs m.obs) = some m.gval
  g6 : m.untracked = true → m.dur = 0
  cellobs : ∀ o c, o ∈ m.obs → o.dep = .cell c →
    m.untracked = true ∧ o.recd = false ∧ (m.va = s.cur → s.cells c = o.val)
  hascell : m.untracked = true → ∃ o c, o ∈ m.obs ∧ o.dep = .cell c
  i2 : ∀ o, o ∈ m.obs → ∀ r, depInfo s o.dep = some r → r.ca ≤ m.va → r.val = o.val ∧ m.dur ≤ r.dur
  i3 : SOK s m → ∀ o, o ∈ m.obs → (∀ r, depInfo s o.dep = some r → r.ca ≤ m.va) ∧ sokDep s o.dep
  i4 : lc s m.dur ≤ m.deepAt ∨ m.va < lc s m.dur
  i5 : ∀ o q', o ∈ m.obs → o.dep = .qry q' →
        q' < q ∧ ∃ m', s.memos q' = some m' ∧ (o.recd = true → m.deepAt ≤ m'.va)
  i6 : ∀ o, o ∈ m.obs → o.recd = false → ∀ r, depInfo s o.dep = some r → r.val = o.val ∧ 3 ≤ r.dur
  g4 : ∀ w d, (w, d) ∈ s.wlog → m.dur ≤ d → ¬ (m.deepAt < w ∧ w ≤ m.va)
  i10 : ∀ o, o ∈ m.obs → ∀ r, depInfo s o.dep = some r →
        r.ca ≤ m.va ∨ ∃ w d, (w, d) ∈ s.wlog ∧ m.dur ≤ d ∧ m.va < w ∧ w ≤ r.ca

structure Inv (P : Prog) (s : State) : Prop where
  cur1 : 1 ≤ s.cur
  lc_le : ∀ d, lc s d ≤ s.cur
  lc_ge1 : ∀ d, 1 ≤ lc s d
  lc_anti : ∀ d, lc s (d + 1) ≤ lc s d
  lc_never : ∀ d, 3 ≤ d → lc s d = 1
  inp_le : ∀ i, (s.inp i).ca ≤ s.cur
  inp_ge1 : ∀ i, 1 ≤ (s.inp i).ca
  wlog_lc : ∀ w d, (w, d) ∈ s.wlog → ∀ k, k ≤ d → w ≤ lc s k
  bumps : ∀ w, 1 < w → w ≤ s.cur → (w, 0) ∈ s.wlog
  lruempty : s.lru.set = []
  memo : ∀ q m, s.memos q = some m → MemoOk P s q m

theorem lc_mono {P s} (hI : Inv P s) : ∀ d d', d ≤ d' → lc s d' ≤ lc s d := by
  intro d d' h
  induction h with
  | refl => exact Nat.le_refl _
  | step _ ih => exact Nat.le_trans (hI.lc_anti _) ih

structure Ext (s t : State) (r : Nat) : Prop where
  cur : t.cur = s.cur
  lch : t.lch = s.lch
  inp : t.inp = s.inp
  cells : t.cells = s.cells
  wlog : t.wlog = s.wlog
  above : ∀ q, r ≤ q → t.memos q = s.memos q
  stable : ∀ q m, s.memos q = some m → m.va = s.cur → t.memos q = some m
  mono : ∀ q m, s.memos q = some m → ∃ m', t.memos q = some m' ∧ m.va ≤ m'.va ∧ m.ca ≤ m'.ca
  /-- a memo is either left alone or (re)verified in the current revision -/
  touched : ∀ q, t.memos q = s.memos q ∨ ∃ m', t.memos q = some m' ∧ m'.va = s.cur

theorem Ext.refl (s r) : Ext s s r :=
  ⟨rfl, rfl, rfl, rfl, rfl, fun _ _ => rfl, fun _ _ h _ => h, fun _ m h => ⟨m, h, Nat.le_refl _, Nat.le_refl _⟩,
   fun _ => Or.inl rfl⟩

theorem Ext.trans {s t u r} (h1 : Ext s t r) (h2 : Ext t u r) : Ext s u r := by
  refine ⟨h2.cur.trans h1.cur, h2.lch.trans h1.lch, h2.inp.trans h1.inp, h2.cells.trans h1.cells, h2.wlog.trans h1.wlog, ?_, ?_, ?_, ?_⟩
  · intro q hq; rw [h2.above q hq, h1.above q hq]
  · intro q m hm hv
    have := h1.stable q m hm hv
    exact h2.stable q m this (by rw [hv, h1.cur])
  · intro q m hm
    obtain ⟨m1, hm1, a1, b1⟩ := h1.mono q m hm
    obtain ⟨m2, hm2, a2, b2⟩ := h2.mono q m1 hm1
    exact ⟨m2, hm2, Nat.le_trans a1 a2, Nat.le_trans b1 b2⟩
  · intro q
    rcases h2.touched q with e2 | ⟨m', hm', hv'⟩
    · rcases h1.touched q with e1 | ⟨m', hm', hv'⟩
      · exact Or.inl (e2.trans e1)
      · exact Or.inr ⟨m', by rw [e2]; exact hm', hv'⟩
    · exact Or.inr ⟨m', hm', by rw [hv', h1.cur]⟩

theorem Ext.weaken {s t r r'} (h : Ext s t r) (hr : r ≤ r') : Ext s t r' :=
  ⟨h.cur, h.lch, h.inp, h.cells, h.wlog, fun q hq => h.above q (Nat.le_trans hr hq), h.stable, h.mono, h.touched⟩

theorem Ext.lc {s t r} (h : Ext s t r) (d : Nat) : lc t d = lc s d := by
  simp [SalsaVerif.Model.Core3.lc, h.cur, h.lch]

theorem hot_ext {s t r d} (h : Ext s t r) (hd : hot s d) : hot t d := by
  cases d with
  | cell c => trivial
  | inp i => trivial
  | qry q =>
    obtain ⟨m, hm, hv⟩ := hd
    exact ⟨m, h.stable q m hm hv, by rw [hv, h.cur]⟩

theorem depInfo_hot_ext {s t r d x} (h : Ext s t r) (hd : hot s d) (hi : depInfo s d = some x) :
    depInfo t d = some x := by
  cases d with
  | cell c => simp [depInfo] at hi
  | inp i => simp only [depInfo] at *; rw [h.inp]; exact hi
  | qry q =>
    obtain ⟨m, hm, hv⟩ := hd
    have := h.stable q m hm hv
    simp only [depInfo, hm, this] at *
    exact hi

@[simp] theorem setMemo_cur (s q m) : (setMemo s q m).cur = s.cur := rfl
@[simp] theorem setMemo_lch (s q m) : (setMemo s q m).lch = s.lch := rfl
@[simp] theorem setMemo_inp (s q m) : (setMemo s q m).inp = s.inp := rfl
@[simp] theorem setMemo_wlog (s q m) : (setMemo s q m).wlog = s.wlog := rfl
@[simp] theorem setMemo_cells (s q m) : (setMemo s q m).cells = s.cells := rfl
@[simp] theorem setMemo_lru (s q m) : (setMemo s q m).lru = s.lru := rfl
@[simp] theorem setMemo_lc (s q m d) : lc (setMemo s q m) d = lc s d := rfl
@[simp] theorem setMemo_same (s q m) : (setMemo s q m).memos q = some m := by simp [setMemo]
theorem setMemo_other (s q m) {p} (h : p ≠ q) : (setMemo s q m).memos p = s.memos p := by simp [setMemo, h]

theorem depInfo_setMemo_other (s q m) {d} (h : d ≠ .qry q) : depInfo (setMemo s q m) d = depInfo s d := by
  cases d with
  | cell c => rfl
  | inp i => rfl
  | qry p =>
    have : p ≠ q := fun e => h (by rw [e])
    simp [depInfo, setMemo_other s q m this]

theorem sokDep_setMemo_other (s q m) {d} (h : d ≠ .qry q) : sokDep (setMemo s q m) d ↔ sokDep s d := by
  cases d with
  | cell c => simp [sokDep]
  | inp i => simp [sokDep]
  | qry p =>
    have : p ≠ q := fun e => h (by rw [e])
    simp [sokDep, setMemo_other s q m this, SOK]

/-! ### the event trace is ghost: nothing depends on it -/

@[simp] theorem emit_cur (s e) : (emit s e).cur = s.cur := rfl
@[simp] theorem emit_lch (s e) : (emit s e).lch = s.lch := rfl
@[simp] theorem emit_inp (s e) : (emit s e).inp = s.inp := rfl
@[simp] theorem emit_memos (s e) : (emit s e).memos = s.memos := rfl
@[simp] theorem emit_wlog (s e) : (emit s e).wlog = s.wlog := rfl
@[simp] theorem emit_cells (s e) : (emit s e).cells = s.cells := rfl
@[simp] theorem emit_lru (s e) : (emit s e).lru = s.lru := rfl
@[simp] theorem emit_lc (s e d) : lc (emit s e) d = lc s d := rfl
@[simp] theorem emit_trace (s e) : (emit s e).trace = s.trace ++ [e] := rfl
@[simp] theorem setMemo_trace (s q m) : (setMemo s q m).trace = s.trace := rfl
theorem setMemo_emit (s e q m) : setMemo (emit s e) q m = emit (setMemo s q m) e := rfl

@[simp] theorem depInfo_emit (s e d) : depInfo (emit s e) d = depInfo s d := by cases d <;> rfl
theorem hot_emit (s e d) : hot (emit s e) d ↔ hot s d := by cases d <;> exact Iff.rfl
theorem sokDep_emit (s e d) : sokDep (emit s e) d ↔ sokDep s d := by cases d <;> exact Iff.rfl

theorem memoOk_emit {P s q m} (e : Ev) (ok : MemoOk P s q m) : MemoOk P (emit s e) q m :=
  ⟨ok.ca_va, ok.va_cur, ok.va1, ok.deep_va, ok.dur3, ok.hasval, ok.rep, ok.g6, ok.cellobs, ok.hascell,
   fun o ho r hi => ok.i2 o ho r (by rw [← depInfo_emit s e]; exact hi),
   fun hs o ho => ⟨fun r hi => (ok.i3 hs o ho).1 r (by rw [← depInfo_emit s e]; exact hi),
                   (sokDep_emit s e _).mpr (ok.i3 hs o ho).2⟩,
   ok.i4, ok.i5,
   fun o ho hr r hi => ok.i6 o ho hr r (by rw [← depInfo_emit s e]; exact hi),
   ok.g4,
   fun o ho r hi => ok.i10 o ho r (by rw [← depInfo_emit s e]; exact hi)⟩

theorem inv_emit {P s} (e : Ev) (h : Inv P s) : Inv P (emit s e) :=
  ⟨h.cur1, h.lc_le, h.lc_ge1, h.lc_anti, h.lc_never, h.inp_le, h.inp_ge1, h.wlog_lc, h.bumps, h.lruempty,
   fun q m hm => memoOk_emit e (h.memo q m hm)⟩

theorem Ext.emit {s t r} (h : Ext s t r) (e : Ev) : Ext s (Model.Core3.emit t e) r :=
  ⟨h.cur, h.lch, h.inp, h.cells, h.wlog, h.above, h.stable, h.mono, h.touched⟩

theorem ext_emit (s e r) : Ext s (emit s e) r := (Ext.refl s r).emit e

theorem SOK_setMemo (s q m' mp) : SOK (setMemo s q m') mp ↔ SOK s mp := Iff.rfl

theorem inv_setMemo {P s q m'} (hI : Inv P s) (hok : MemoOk P (setMemo s q m') q m')
    (hva : m'.va = s.cur)
    (hobs : ∀ p mp o, p ≠ q → s.memos p = some mp → o ∈ mp.obs → o.dep = .qry q →
        (m'.ca ≤ mp.va → m'.gval = o.val ∧ mp.dur ≤ m'.dur) ∧
        (SOK s mp → m'.ca ≤ mp.va) ∧
        (o.recd = false → m'.gval = o.val ∧ 3 ≤ m'.dur) ∧
        (m'.ca ≤ mp.va ∨ ∃ w d, (w, d) ∈ s.wlog ∧ mp.dur ≤ d ∧ mp.va < w ∧ w ≤ m'.ca)) :
    Inv P (setMemo s q m') := by
  refine ⟨hI.cur1, hI.lc_le, hI.lc_ge1, hI.lc_anti, hI.lc_never, hI.inp_le, hI.inp_ge1, hI.wlog_lc,
    hI.bumps, hI.lruempty, ?_⟩
  intro p mp hmp
  by_cases hpq : p = q
  · subst hpq
    rw [setMemo_same] at hmp
    have e : mp = m' := (Option.some.inj hmp).symm
    rw [e]; exact hok
  · rw [setMemo_other s q m' hpq] at hmp
    have old := hI.memo p mp hmp
    refine ⟨old.ca_va, old.va_cur, old.va1, old.deep_va, old.dur3, old.hasval, old.rep, old.g6,
      old.cellobs, old.hascell, ?_, ?_, old.i4, ?_, ?_, old.g4, ?_⟩
    · -- i2
      intro o ho r hinfo hc
      by_cases hdq : o.dep = .qry q
      · rw [hdq] at hinfo
        simp [depInfo] at hinfo
        subst hinfo
        exact (hobs p mp o hpq hmp ho hdq).1 hc
      · rw [depInfo_setMemo_other s q m' hdq] at hinfo
        exact old.i2 o ho r hinfo hc
    · -- i3
      intro hs o ho
      have hs' : SOK s mp := hs
      by_cases hdq : o.dep = .qry q
      · refine ⟨?_, ?_⟩
        · intro r hinfo
          rw [hdq] at hinfo
          simp [depInfo] at hinfo
          subst hinfo
          exact (hobs p mp o hpq hmp ho hdq).2.1 hs'
        · rw [hdq]
          exact ⟨m', setMemo_same _ _ _, Or.inl hva⟩
      · obtain ⟨a, b⟩ := old.i3 hs' o ho
        refine ⟨?_, (sokDep_setMemo_other s q m' hdq).mpr b⟩
        intro r hinfo
        rw [depInfo_setMemo_other s q m' hdq] at hinfo
        exact a r hinfo
    · -- i5
      intro o q' ho hd
      obtain ⟨hlt, m2, hm2, hrec⟩ := old.i5 o q' ho hd
      refine ⟨hlt, ?_⟩
      by_cases hq' : q' = q
      · subst hq'
        refine ⟨m', setMemo_same _ _ _, ?_⟩
        intro _
        rw [hva]; exact Nat.le_trans old.deep_va old.va_cur
      · exact ⟨m2, by rw [setMemo_other s q m' hq']; exact hm2, hrec⟩
    · -- i6
      intro o ho hr r hinfo
      by_cases hdq : o.dep = .qry q
      · rw [hdq] at hinfo
        simp [depInfo] at hinfo
        subst hinfo
        exact (hobs p mp o hpq hmp ho hdq).2.2.1 hr
      · rw [depInfo_setMemo_other s q m' hdq] at hinfo
        exact old.i6 o ho hr r hinfo
    · -- i10
      intro o ho r hinfo
      by_cases hdq : o.dep = .qry q
      · rw [hdq] at hinfo
        simp [depInfo] at hinfo
        subst hinfo
        exact (hobs p mp o hpq hmp ho hdq).2.2.2
      · rw [depInfo_setMemo_other s q m' hdq] at hinfo
        exact old.i10 o ho r hinfo

/-- observers are unaffected when value and stamp stay and the durability does not drop -/
theorem hobs_same {P s q mo} (hI : Inv P s) (hmo : s.memos q = some mo) (m' : Memo)
    (hv : m'.gval = mo.gval) (hc : m'.ca = mo.ca) (hd : mo.dur ≤ m'.dur) :
    ∀ p mp o, p ≠ q → s.memos p = some mp → o ∈ mp.obs → o.dep = .qry q →
        (m'.ca ≤ mp.va → m'.gval = o.val ∧ mp.dur ≤ m'.dur) ∧
        (SOK s mp → m'.ca ≤ mp.va) ∧
        (o.recd = false → m'.gval = o.val ∧ 3 ≤ m'.dur) ∧
        (m'.ca ≤ mp.va ∨ ∃ w d, (w, d) ∈ s.wlog ∧ mp.dur ≤ d ∧ mp.va < w ∧ w ≤ m'.ca) := by
  intro p mp o _ hmp ho hdq
  have ok := hI.memo p mp hmp
  have hinfo : depInfo s o.dep = some ⟨mo.gval, mo.ca, mo.dur⟩ := by rw [hdq]; simp [depInfo, hmo]
  refine ⟨?_, ?_, ?_, ?_⟩
  · intro h
    rw [hc] at h
    obtain ⟨a, b⟩ := ok.i2 o ho _ hinfo h
    exact ⟨by rw [hv]; exact a, Nat.le_trans b hd⟩
  · intro hs
    rw [hc]; exact (ok.i3 hs o ho).1 _ hinfo
  · intro hr
    obtain ⟨a, b⟩ := ok.i6 o ho hr _ hinfo
    exact ⟨by rw [hv]; exact a, Nat.le_trans b hd⟩
  · rw [hc]; exact ok.i10 o ho _ hinfo

end SalsaVerif.Proofs.Core3
