/-
  C26 with flattening (arbitrary `pers`) — the invariant change, in short.

  The S2 invariant `Inv` (Proofs/CoreInv.lean) is *pairwise and operational*: clause I1 (`rep`) says
  that the recorded reads replay the body, I2/I10 relate a reader to each recorded edge.  After
  `snapshot` the edges of a persisted memo are flattened leaves and the memos in between are gone,
  so I1 is false, and the key step of the S2 proof ("re-execution reads the first changed edge,
  hence the new `changed_at` exceeds every reader's `verified_at`") is false as well: between the
  memo and a changed leaf there may be a persisted function that is re-executed and backdated.

  The replacement is *semantic and temporal*: a ghost input history `H : revision → inputs`
  (`V ρ q = sem P (H ρ) q`) and, for every memo `m` of `q` with anchor `a = m.va`:
    PC   for every `q'` semantically reachable from `q` under `H a` whose memo has `ca ≤ a`:
         `V a q' = value` and `m.dur ≤ dur`      (value unchanged since `ca`, *at anchors only*:
         on a whole interval it is false because of backdating, A→B→A);
    J3   `m.dur ≤` durability of every input leaf reached under `H a`;
    J4   those leaves are constant on `[deepAt, va]` (shallow verification);
    J5   `m.ca ≤` the bound over the frontier "inputs reached through non-persisted functions,
         first persisted functions reached" (what a fresh execution can report);
    J6   Covers: if no input edge that is a leaf under `H a`, and no function edge, has a stamp
         after `a` (or the memo was verified after the last restore) the edges cut every
         evaluation path under `H a`; a stale memo flattened with the current edges of a
         re-executed dependency fails the premise and is re-executed before it is used;
    J6c  a memo verified after the last restore has, recursively through the memos of its function
         edges, edge lists that cut (`CutC`);
    J7/J8/J16 the shape of the edge list, `deepAt ≤ va` of the edges' memos, what SOK implies,
         persisted functions reached have memos.
  Nothing of this mentions the order of the edges, so it survives flattening; the proof that a
  re-executed query keeps/bumps `changed_at` correctly compares the evaluation under `H ρ` and
  under the current inputs dependency by dependency (no recorded reads needed).
  All clauses were checked on 100 000 random histories (scratch tester /verif/work/c26inv.lean)
  before being proved.

  This file: evaluation traces (`sdeps`), reachability, leaves, cuts.  Core Lean only.
-/
import SalsaVerif.Proofs.PersistRec

namespace SalsaVerif.Proofs.PersistFlat
open SalsaVerif.Model.Core SalsaVerif.Model.Persist SalsaVerif.Proofs.Core SalsaVerif.Proofs.Persist

/-- the reads of a body when every read `d` returns `f d` -/
def depsB (f : Dep → Nat) : Body → List Dep
  | .ret _ => []
  | .read d k => d :: depsB f (k (f d))

/-- the direct dependencies of `q` when evaluated from scratch over `inp` -/
def sdeps (P : Nat → Body) (inp : Nat → Inp) (q : Nat) : List Dep := depsB (semDep P inp) (P q)

theorem depsB_congr (f g : Dep → Nat) : ∀ b, (∀ d, d ∈ depsB f b → f d = g d) →
    depsB g b = depsB f b ∧ evalB g b = evalB f b := by
  intro b
  induction b with
  | ret v => intro _; exact ⟨rfl, rfl⟩
  | read d k ih =>
    intro h
    have hd : f d = g d := h d (by simp [depsB])
    simp only [depsB, evalB]
    rw [← hd]
    obtain ⟨a, b⟩ := ih (f d) (fun d' hd' => h d' (by simp [depsB, hd']))
    exact ⟨by rw [a], b⟩

theorem depsB_lt {r : Nat} (f : Dep → Nat) : ∀ b, WfB r b → ∀ q', Dep.qry q' ∈ depsB f b → q' < r := by
  intro b hb
  induction hb with
  | ret v => intro q' h; simp [depsB] at h
  | read d k hd _ ih =>
    intro q' h
    simp only [depsB, List.mem_cons] at h
    rcases h with h | h
    · exact hd q' h.symm
    · exact ih (f d) q' h

theorem sdeps_lt {P} (hP : Wf P) {inp q k} (h : Dep.qry k ∈ sdeps P inp q) : k < q :=
  depsB_lt _ (P q) (hP q) k h

/-- if every direct dependency has the same value under both inputs, the evaluation is the same -/
theorem eval_same {P} (hP : Wf P) {inp1 inp2 : Nat → Inp} {q : Nat}
    (h : ∀ d, d ∈ sdeps P inp1 q → semDep P inp1 d = semDep P inp2 d) :
    sdeps P inp2 q = sdeps P inp1 q ∧ sem P inp2 q = sem P inp1 q := by
  obtain ⟨a, b⟩ := depsB_congr (semDep P inp1) (semDep P inp2) (P q) h
  exact ⟨a, by rw [sem_unfold P inp2 hP q, sem_unfold P inp1 hP q]; exact b⟩

/-- `q'` is reached when `q` is evaluated from scratch over `inp` -/
inductive Reach (P : Nat → Body) (inp : Nat → Inp) : Nat → Nat → Prop
  | refl (q) : Reach P inp q q
  | step {q k q'} : Dep.qry k ∈ sdeps P inp q → Reach P inp k q' → Reach P inp q q'

theorem Reach.trans {P inp a b c} (h1 : Reach P inp a b) (h2 : Reach P inp b c) : Reach P inp a c := by
  induction h1 with
  | refl _ => exact h2
  | step hd _ ih => exact Reach.step hd (ih h2)

theorem Reach.le {P inp} (hP : Wf P) {a b} (h : Reach P inp a b) : b ≤ a := by
  induction h with
  | refl _ => exact Nat.le_refl _
  | step hd _ ih => exact Nat.le_trans ih (Nat.le_of_lt (sdeps_lt hP hd))

/-- input `i` is read (transitively) when `q` is evaluated over `inp` -/
def Leaf (P : Nat → Body) (inp : Nat → Inp) (q i : Nat) : Prop :=
  ∃ k, Reach P inp q k ∧ Dep.inp i ∈ sdeps P inp k

theorem Leaf.of_reach {P inp q k i} (h : Reach P inp q k) (hl : Leaf P inp k i) : Leaf P inp q i := by
  obtain ⟨k', a, b⟩ := hl
  exact ⟨k', h.trans a, b⟩

/-- the two inputs give the same value to every input leaf of `q` (as evaluated over `inp1`) -/
def AgreeOn (P : Nat → Body) (inp1 inp2 : Nat → Inp) (q : Nat) : Prop :=
  ∀ i, Leaf P inp1 q i → (inp1 i).val = (inp2 i).val

theorem AgreeOn.down {P inp1 inp2 q k} (h : AgreeOn P inp1 inp2 q) (hr : Reach P inp1 q k) :
    AgreeOn P inp1 inp2 k := fun i hi => h i (hi.of_reach hr)

/-- same leaves, same evaluation (value and direct dependencies) -/
theorem subtree_same {P} (hP : Wf P) {inp1 inp2 : Nat → Inp} : ∀ q, AgreeOn P inp1 inp2 q →
    sem P inp2 q = sem P inp1 q ∧ sdeps P inp2 q = sdeps P inp1 q := by
  intro q
  induction q using Nat.strongRecOn with
  | _ q ih =>
    intro h
    have := eval_same hP (inp1 := inp1) (inp2 := inp2) (q := q) (by
      intro d hd
      cases d with
      | inp i => exact h i ⟨q, Reach.refl q, hd⟩
      | qry k =>
        have hk := sdeps_lt hP hd
        exact ((ih k hk (h.down (Reach.step hd (Reach.refl k)))).1).symm)
    exact ⟨this.2, this.1⟩

theorem reach_same {P} (hP : Wf P) {inp1 inp2 : Nat → Inp} {q k} (h : AgreeOn P inp1 inp2 q) :
    Reach P inp1 q k ↔ Reach P inp2 q k := by
  constructor
  · intro hr
    induction hr with
    | refl _ => exact Reach.refl _
    | step hd _ ih =>
      refine Reach.step ?_ (ih (h.down (Reach.step hd (Reach.refl _))))
      rw [(subtree_same hP _ h).2]; exact hd
  · intro hr
    induction hr with
    | refl _ => exact Reach.refl _
    | step hd _ ih =>
      rw [(subtree_same hP _ h).2] at hd
      exact Reach.step hd (ih (h.down (Reach.step hd (Reach.refl _))))

theorem leaf_same {P} (hP : Wf P) {inp1 inp2 : Nat → Inp} {q i} (h : AgreeOn P inp1 inp2 q) :
    Leaf P inp1 q i ↔ Leaf P inp2 q i := by
  constructor
  · rintro ⟨k, a, b⟩
    exact ⟨k, (reach_same hP h).mp a, by rw [(subtree_same hP k (h.down a)).2]; exact b⟩
  · rintro ⟨k, a, b⟩
    have a' := (reach_same hP h).mpr a
    exact ⟨k, a', by rw [(subtree_same hP k (h.down a')).2] at b; exact b⟩

theorem AgreeOn.symm {P} (hP : Wf P) {inp1 inp2 : Nat → Inp} {q} (h : AgreeOn P inp1 inp2 q) :
    AgreeOn P inp2 inp1 q := fun i hi => (h i ((leaf_same hP h).mpr hi)).symm

/-! ### cuts: the nodes of the evaluation of `q` above the edge list `od` -/

/-- `k` is reached from `q` by a path none of whose steps enters a function listed in `od` -/
inductive Above (P : Nat → Body) (inp : Nat → Inp) (od : List Dep) (q : Nat) : Nat → Prop
  | refl : Above P inp od q q
  | step {k k'} : Above P inp od q k → Dep.qry k' ∈ sdeps P inp k → Dep.qry k' ∉ od → Above P inp od q k'

theorem Above.reach {P inp od q k} (h : Above P inp od q k) : Reach P inp q k := by
  induction h with
  | refl => exact Reach.refl q
  | step _ hd _ ih => exact ih.trans (Reach.step hd (Reach.refl _))

/-- every input read above the cut is listed -/
def Cut (P : Nat → Body) (inp : Nat → Inp) (od : List Dep) (q : Nat) : Prop :=
  ∀ k, Above P inp od q k → ∀ i, Dep.inp i ∈ sdeps P inp k → Dep.inp i ∈ od

/-- listed inputs and listed (reached) functions keep their values ⇒ everything above the cut
    evaluates in the same way -/
theorem cut_same {P} (hP : Wf P) {inp1 inp2 : Nat → Inp} {od : List Dep} {q : Nat}
    (hc : Cut P inp1 od q)
    (hi : ∀ i, Dep.inp i ∈ od → (inp1 i).val = (inp2 i).val)
    (hf : ∀ p, Dep.qry p ∈ od → Reach P inp1 q p → sem P inp1 p = sem P inp2 p) :
    ∀ k, Above P inp1 od q k → sem P inp2 k = sem P inp1 k ∧ sdeps P inp2 k = sdeps P inp1 k := by
  intro k
  induction k using Nat.strongRecOn with
  | _ k ih =>
    intro hk
    have := eval_same hP (inp1 := inp1) (inp2 := inp2) (q := k) (by
      intro d hd
      cases d with
      | inp i => exact hi i (hc k hk i hd)
      | qry k' =>
        by_cases hin : Dep.qry k' ∈ od
        · exact hf k' hin (hk.reach.trans (Reach.step hd (Reach.refl _)))
        · exact ((ih k' (sdeps_lt hP hd) (Above.step hk hd hin)).1).symm)
    exact ⟨this.2, this.1⟩

theorem above_same {P} {inp1 inp2 : Nat → Inp} {od : List Dep} {q : Nat}
    (hs : ∀ k, Above P inp1 od q k → sdeps P inp2 k = sdeps P inp1 k) {k : Nat} :
    Above P inp2 od q k → Above P inp1 od q k := by
  intro h
  induction h with
  | refl => exact Above.refl
  | step _ hd hn ih => rw [hs _ ih] at hd; exact Above.step ih hd hn

theorem cut_transfer {P} {inp1 inp2 : Nat → Inp} {od : List Dep} {q : Nat}
    (hc : Cut P inp1 od q)
    (hs : ∀ k, Above P inp1 od q k → sdeps P inp2 k = sdeps P inp1 k) : Cut P inp2 od q := by
  intro k hk i hi
  have hk1 := above_same hs hk
  rw [hs k hk1] at hi
  exact hc k hk1 i hi

end SalsaVerif.Proofs.PersistFlat
