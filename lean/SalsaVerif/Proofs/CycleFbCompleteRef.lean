/-
  Consequences of soundness (`DbOkF`) + completeness (`DbOkC`) for the finalised memos of a
  fallback program: the memoised values are determined by the program and the inputs alone
  (`dbOk_unique`), and — for well-formed programs — they are the values of the executable
  reference `fbReference` (`dbOk_fbReference`).  Core Lean only.
-/
import SalsaVerif.Proofs.CycleFbCompleteLoop

namespace SalsaVerif.Proofs.Cycle
open SalsaVerif.Model.Cycle

section
variable (P : Prog) (env : Nat → Nat)

/-- every node that lies on a cycle of the input-determined call graph recovers with
    `cycle_result` (no `panic` node on a cycle). -/
def CycFb : Prop := ∀ x, Reach P env x x → IsFb P x

variable {P env}

/-- gate-free programs: the Boolean reachability does not depend on the assignment. -/
theorem reach_noGate (hG : P.NoGate) (ρ ρ' : Nat → Nat) :
    ∀ (k a b : Nat), reach P env ρ k a b = reach P env ρ' k a b := by
  intro k
  induction k with
  | zero => intro a b; rfl
  | succ k ih =>
    intro a b
    simp only [reach]
    rw [callees_noGate env ρ ρ' _ (noGate_node hG a)]
    congr 1
    funext c
    rw [ih c b]

theorem onCycle_noGate (hG : P.NoGate) (ρ ρ' : Nat → Nat) (i : Nat) :
    onCycle P env ρ i = onCycle P env ρ' i := reach_noGate hG ρ ρ' _ i i

/-- the value of a memo in a justified and complete database. -/
theorem dbOk_value {final : List (Nat × Nat)} (hF : DbOkF P env final) (hC : DbOkC P env final)
    {x w : Nat} (hx : final.lookup x = some w) :
    (Reach P env x x → IsFb P x → w = fallbackValue P x) ∧
    (¬ Reach P env x x →
      w = evalExpr env (fun c => (final.lookup c).getD 0) (P.node x).body ∧
      ∀ c ∈ callees env ρ0 (P.node x).body, (final.lookup c).isSome = true) := by
  refine ⟨hC.fb x w hx, ?_⟩
  intro hnr
  refine ⟨?_, hC.closed x w hx⟩
  rcases hF x w hx with h | h
  · exact absurd h.1 hnr
  · exact EvalRel.exact (ρ := fun c => (final.lookup c).getD 0)
      (fun c u hu => by simp [hu]) h

theorem dbOk_unique_aux (hG : P.NoGate) (hcf : CycFb P env) {f1 f2 : List (Nat × Nat)}
    (hF1 : DbOkF P env f1) (hC1 : DbOkC P env f1) (hF2 : DbOkF P env f2)
    (hC2 : DbOkC P env f2) :
    ∀ (k x w1 w2 : Nat), ¬ Deep (P := P) (env := env) k x → f1.lookup x = some w1 →
      f2.lookup x = some w2 → w1 = w2 := by
  intro k
  induction k with
  | zero => intro x _ _ hd; exact absurd (Deep.zero x) hd
  | succ k ih =>
    intro x w1 w2 hd h1 h2
    by_cases hr : Reach P env x x
    · rw [(dbOk_value hF1 hC1 h1).1 hr (hcf x hr), (dbOk_value hF2 hC2 h2).1 hr (hcf x hr)]
    · obtain ⟨e1, c1⟩ := (dbOk_value hF1 hC1 h1).2 hr
      obtain ⟨e2, c2⟩ := (dbOk_value hF2 hC2 h2).2 hr
      rw [e1, e2]
      apply evalExpr_congr
      intro c hc
      rw [callees_noGate env _ ρ0 _ (noGate_node hG x)] at hc
      have hdc : ¬ Deep (P := P) (env := env) k c := fun h => hd (Deep.succ hr hc h)
      cases hl1 : f1.lookup c with
      | none => have := c1 c hc; rw [hl1] at this; cases this
      | some u1 =>
        cases hl2 : f2.lookup c with
        | none => have := c2 c hc; rw [hl2] at this; cases this
        | some u2 =>
          show (some u1).getD 0 = (some u2).getD 0
          rw [ih c u1 u2 hdc hl1 hl2]

/-- **two justified and complete databases agree wherever both have a memo.** -/
theorem dbOk_unique (hG : P.NoGate) (hcf : CycFb P env) {f1 f2 : List (Nat × Nat)}
    (hF1 : DbOkF P env f1) (hC1 : DbOkC P env f1) (hF2 : DbOkF P env f2)
    (hC2 : DbOkC P env f2) {x w1 w2 : Nat} (h1 : f1.lookup x = some w1)
    (h2 : f2.lookup x = some w2) : w1 = w2 := by
  refine dbOk_unique_aux hG hcf hF1 hC1 hF2 hC2 (P.n + 1) x w1 w2 ?_ h1 h2
  intro hd
  have := hd.bound
  omega

theorem dbOk_fbRef (hW : P.Wf) (hG : P.NoGate) (hcf : CycFb P env) {f : List (Nat × Nat)}
    (hF : DbOkF P env f) (hC : DbOkC P env f) :
    ∀ (k x w : Nat), ¬ Deep (P := P) (env := env) k x → f.lookup x = some w →
      fbRef P env k x = w := by
  intro k
  induction k with
  | zero => intro x _ hd; exact absurd (Deep.zero x) hd
  | succ k ih =>
    intro x w hd hx
    simp only [fbRef]
    rw [onCycle_noGate hG (fbRef P env k) ρ0 x]
    split
    · rename_i hon
      have hr : Reach P env x x := onCycle_sound P env x hon
      exact ((dbOk_value hF hC hx).1 hr (hcf x hr)).symm
    · rename_i hon
      have hr : ¬ Reach P env x x := fun h => hon ((onCycle_iff hW x).mpr h)
      obtain ⟨e1, c1⟩ := (dbOk_value hF hC hx).2 hr
      rw [e1]
      apply evalExpr_congr
      intro c hc
      rw [callees_noGate env _ ρ0 _ (noGate_node hG x)] at hc
      have hdc : ¬ Deep (P := P) (env := env) k c := fun h => hd (Deep.succ hr hc h)
      cases hl : f.lookup c with
      | none => have := c1 c hc; rw [hl] at this; cases this
      | some u =>
        show fbRef P env k c = (some u).getD 0
        exact ih c u hdc hl

/-- **every memo of a justified and complete database is the value of the executable
    reference** (`fallback` iff on a cycle, else the body over the reference). -/
theorem dbOk_fbReference (hW : P.Wf) (hG : P.NoGate) (hcf : CycFb P env) {f : List (Nat × Nat)}
    (hF : DbOkF P env f) (hC : DbOkC P env f) {x w : Nat} (hx : f.lookup x = some w) :
    fbReference P env x = w := by
  refine dbOk_fbRef hW hG hcf hF hC (P.n + 1) x w ?_ hx
  intro hd
  have := hd.bound
  omega

end

/-! ## a decidable sufficient condition: every node recovers with `cycle_result` -/

/-- every node of the program is a `cycle_result` node. -/
def allFb (P : Prog) : Bool :=
  P.nodes.all (fun nd => match nd.strat with | .fallback _ => true | _ => false)

theorem allFb_isFb {P : Prog} (h : allFb P = true) {x : Nat} (hx : x < P.n) : IsFb P x := by
  unfold allFb at h
  rw [List.all_eq_true] at h
  have hmem : P.node x ∈ P.nodes := by
    unfold Prog.node Prog.n at *
    rw [List.getD_eq_getElem?_getD, List.getElem?_eq_getElem hx]
    exact List.getElem_mem hx
  have := h _ hmem
  unfold IsFb
  cases hs : (P.node x).strat with
  | fallback fv => exact ⟨fv, rfl⟩
  | fixpoint b => rw [hs] at this; cases this
  | panic => rw [hs] at this; cases this

theorem allFb_noFixpoint {P : Prog} (h : allFb P = true) : NoFixpoint P := by
  intro j b hs
  by_cases hj : j < P.n
  · obtain ⟨fv, hfv⟩ := allFb_isFb h hj
    rw [hfv] at hs; cases hs
  · rw [node_out P (Nat.le_of_not_lt hj)] at hs; cases hs

theorem Reach.src_lt {P : Prog} {env : Nat → Nat} {a b : Nat} (h : Reach P env a b) :
    a < P.n := by
  induction h with
  | step hc => exact callee_src_lt hc
  | trans _ _ ih _ => exact ih

theorem allFb_cycFb {P : Prog} (h : allFb P = true) (env : Nat → Nat) : CycFb P env :=
  fun _ hr => allFb_isFb h hr.src_lt

end SalsaVerif.Proofs.Cycle
