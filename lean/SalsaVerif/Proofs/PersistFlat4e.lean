/-
  C26 with flattening: installing a freshly executed memo preserves `J` — part 2, the other memos,
  and the theorem `install_exec`.  Core Lean only.
-/
import SalsaVerif.Proofs.PersistFlat4d

namespace SalsaVerif.Proofs.PersistFlat
open SalsaVerif.Model.Core SalsaVerif.Model.Persist SalsaVerif.Proofs.Core SalsaVerif.Proofs.Persist

theorem memoJ_other_exec {pers P H R0 t q F v q0 m0} (hP : Wf P) (hJ : J pers P H R0 t)
    (hx : ExecCtx P t q F v) (hstale : ∀ mo, t.memos q = some mo → ¬ SOK t mo)
    (hne : q0 ≠ q) (hm0 : t.memos q0 = some m0) :
    MemoJ pers P H R0 (setMemo t q (newMemo v t.cur (backdateCa (t.memos q) v F) F.dur F.obs)) q0 m0 := by
  have h0 := hJ.memo q0 m0 hm0
  generalize hms : newMemo v t.cur (backdateCa (t.memos q) v F) F.dur F.obs = ms
  have hmono : ∀ p mp, t.memos p = some mp → ∃ mp', (setMemo t q ms).memos p = some mp' ∧ mp.ca ≤ mp'.ca := by
    intro p mp hmp
    by_cases hpq : p = q
    · subst hpq
      refine ⟨_, setMemo_same _ _ _, ?_⟩
      rw [← hms]; exact exec_mono hP hJ hx mp hmp
    · exact ⟨mp, by rw [setMemo_other _ _ _ hpq]; exact hmp, Nat.le_refl _⟩
  have hpre_old : (R0 ≤ m0.va ∨ PremL P H (setMemo t q ms) q0 m0) → (R0 ≤ m0.va ∨ PremL P H t q0 m0) := by
    intro hpre
    rcases hpre with hpre | hpre
    · exact Or.inl hpre
    · right
      refine ⟨hpre.1, ?_⟩
      intro k mk hk hmk
      obtain ⟨mk', e1, e2⟩ := hmono k mk hmk
      exact Nat.le_trans e2 (hpre.2 k mk' hk e1)
  refine ⟨h0.ca_va, h0.va_cur, h0.deep1, h0.deep_va, h0.dur3, h0.j3, h0.j4, ?_, ?_, ?_, h0.j7s, ?_, ?_, ?_, h0.r0, ?_⟩
  · exact caBnd_state (s := t) (fun i => Nat.le_refl _) hmono h0.j5
  · intro hpre; exact h0.j6 (hpre_old hpre)
  · -- j7
    intro k hk
    obtain ⟨a, mk, hmk, hd⟩ := h0.j7 k hk
    refine ⟨a, ?_⟩
    by_cases hkq : k = q
    · subst hkq
      refine ⟨ms, setMemo_same _ _ _, ?_⟩
      rw [← hms]
      exact Nat.le_trans hd (hJ.memo k mk hmk).va_cur
    · exact ⟨mk, by rw [setMemo_other _ _ _ hkq]; exact hmk, hd⟩
  · -- j6c
    intro hr
    have hq : CutC P H (setMemo t q ms) q := by
      rw [← hms]
      exact (memoJ_new hP hJ hx).j6c hJ.r0
    exact cutC_setMemo hq q0 (h0.j6c hr)
  · -- j8
    intro hs k hk
    have hs' : SOK t m0 := hs
    obtain ⟨mk, hmk, hsk, hc, hdur⟩ := h0.j8 hs' k hk
    by_cases hkq : k = q
    · subst hkq
      exact absurd hsk (hstale mk hmk)
    · exact ⟨mk, by rw [setMemo_other _ _ _ hkq]; exact hmk, hsk, hc, hdur⟩
  · -- j16
    intro k hr hp
    obtain ⟨mk, hmk⟩ := h0.j16 k hr hp
    obtain ⟨mk', h', _⟩ := hmono k mk hmk
    exact ⟨mk', h'⟩
  · -- pc
    intro k mk hr hmk hc
    by_cases hkq : k = q
    · subst hkq
      rw [setMemo_same] at hmk
      cases hmk
      rw [← hms] at hc ⊢
      simp only [newMemo] at hc ⊢
      rcases backdate_cases (t.memos k) v F with e | ⟨mo, e1, e2, e3, e4⟩
      · rw [e] at hc
        obtain ⟨_, b, c⟩ := exec_same hP hJ hx hm0 hr hc
        exact ⟨by rw [b, hx.val], c⟩
      · rw [e4] at hc
        obtain ⟨a, b⟩ := h0.pc k mo hr e1 hc
        exact ⟨by rw [a, e2], Nat.le_trans b e3⟩
    · rw [setMemo_other _ _ _ hkq] at hmk
      exact h0.pc k mk hr hmk hc

/-- **installing the memo of a fresh execution preserves `J`** -/
theorem install_exec {pers P H R0 t q F v} (hP : Wf P) (hJ : J pers P H R0 t)
    (hx : ExecCtx P t q F v) (hstale : ∀ mo, t.memos q = some mo → ¬ SOK t mo) :
    J pers P H R0 (setMemo t q (newMemo v t.cur (backdateCa (t.memos q) v F) F.dur F.obs)) := by
  refine ⟨base_congr hJ.base rfl rfl rfl, hist_congr hJ.hist rfl rfl rfl, hJ.r0, ?_⟩
  intro q0 m0 hm0
  by_cases hne : q0 = q
  · subst hne
    rw [setMemo_same] at hm0
    cases hm0
    exact memoJ_new hP hJ hx
  · rw [setMemo_other _ _ _ hne] at hm0
    exact memoJ_other_exec hP hJ hx hstale hne hm0

end SalsaVerif.Proofs.PersistFlat
