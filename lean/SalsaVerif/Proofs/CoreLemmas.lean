/-
  Core engine (stage S2): the state-level steps of the proof as stand-alone lemmas (observers of a
  re-executed key, installing a memo, shallow / deep verification) — independent of how the
  engine walks, so that engine variants (Model/CoreP.lean: panics) reuse them.  Core Lean only.
-/
import SalsaVerif.Proofs.CoreTop

namespace SalsaVerif.Proofs.Core
open SalsaVerif.Model.Core

/-- observers of a key that is re-executed after failing the shallow test -/
theorem hobs_exec {P r} {t : State} {old : Option Memo} {v : Nat} {F : Frame}
    (hI : Inv P t) (hmr : t.memos r = old) (hnsok : ∀ o, old = some o → ¬ SOK t o)
    (hback : ∀ o, old = some o → ∃ w d, (w, d) ∈ t.wlog ∧ o.dur ≤ d ∧ o.va < w ∧ w ≤ F.ca) :
    ∀ p mp o, p ≠ r → t.memos p = some mp → o ∈ mp.obs → o.dep = .qry r →
      (backdateCa old v F ≤ mp.va → v = o.val ∧ mp.dur ≤ F.dur) ∧
      (SOK t mp → backdateCa old v F ≤ mp.va) ∧
      (o.recd = false → v = o.val ∧ 3 ≤ F.dur) ∧
      (backdateCa old v F ≤ mp.va ∨
        ∃ w d, (w, d) ∈ t.wlog ∧ mp.dur ≤ d ∧ mp.va < w ∧ w ≤ backdateCa old v F) := by
  intro p mp o hpr hmp ho hdq
  have ok := hI.memo p mp hmp
  obtain ⟨_, mo, hmo, hdeep⟩ := ok.i5 o r ho hdq
  rw [hmr] at hmo
  subst hmo
  have hinfo : depInfo t o.dep = some ⟨mo.value, mo.ca, mo.dur⟩ := by rw [hdq]; simp [depInfo, hmr]
  have mook := hI.memo r mo hmr
  by_cases hbd : mo.value = v ∧ mo.dur ≤ F.dur
  · -- backdated: value and stamp unchanged
    have hca' : backdateCa (some mo) v F = mo.ca := by simp only [backdateCa, hbd, and_self, if_true]
    rw [hca']
    have := hobs_same (q := r) (mo := mo) hI hmr { mo with value := v, dur := F.dur } hbd.1.symm rfl hbd.2
      p mp o hpr hmp ho hdq
    exact this
  · have hca' : backdateCa (some mo) v F = F.ca := by simp only [backdateCa, hbd, if_false]
    rw [hca']
    have hns : ¬ SOK t mo := hnsok mo rfl
    have hnsmp : ¬ SOK t mp := by
      intro h
      have := (ok.i3 h o ho).2
      rw [hdq] at this
      obtain ⟨m2, hm2, hs2⟩ := this
      rw [hmr] at hm2; cases hm2
      exact hns hs2
    have hrec : o.recd = true := by
      cases hr : o.recd with
      | true => rfl
      | false =>
        have := (ok.i6 o ho hr _ hinfo).2
        exact absurd (sok_of_never hI this mook.va1) hns
    have hdeep' := hdeep hrec
    obtain ⟨w, d, hw, hd, hlt, hle⟩ := hback mo rfl
    have key : ∀ (_ : mo.ca ≤ mp.va), mp.va < w := by
      intro hle2
      have hdur := (ok.i2 o ho _ hinfo hle2).2
      apply Nat.lt_of_not_le
      intro hwle
      exact ok.g4 w d hw (Nat.le_trans hdur hd) ⟨Nat.lt_of_le_of_lt hdeep' hlt, hwle⟩
    have hgt : mp.va < F.ca := by
      by_cases hle2 : mo.ca ≤ mp.va
      · exact Nat.lt_of_lt_of_le (key hle2) hle
      · have h1 : mp.va < mo.ca := Nat.lt_of_not_le hle2
        exact Nat.lt_of_lt_of_le (Nat.lt_of_lt_of_le (Nat.lt_of_lt_of_le h1 mook.ca_va) (Nat.le_of_lt hlt)) hle
    refine ⟨?_, ?_, ?_, ?_⟩
    · intro h; exact absurd h (Nat.not_le.mpr hgt)
    · intro h; exact absurd h hnsmp
    · intro h; rw [hrec] at h; cases h
    right
    by_cases hle2 : mo.ca ≤ mp.va
    · exact ⟨w, d, hw, Nat.le_trans (ok.i2 o ho _ hinfo hle2).2 hd, key hle2, hle⟩
    · rcases ok.i10 o ho _ hinfo with h | ⟨w2, d2, a, b, c, e⟩
      · exact absurd h hle2
      · exact ⟨w2, d2, a, b, c, Nat.le_trans e (Nat.le_trans mook.ca_va (Nat.le_trans (Nat.le_of_lt hlt) hle))⟩

theorem ext_install {P s t r m'} (hI : Inv P s) (h : Ext s t r)
    (hstale : ∀ m, s.memos r = some m → m.va ≠ s.cur) (hva : m'.va = s.cur)
    (hca : ∀ m, s.memos r = some m → m.ca ≤ m'.ca)
    (hbd : ∀ m, s.memos r = some m → m'.value = m.value → m.dur ≤ m'.dur → m'.ca = m.ca) :
    Ext s (setMemo t r m') (r + 1) := by
  refine ⟨by simp [h.cur], by simp [h.lch], by simp [h.inp], by simp [h.wlog], ?_, ?_, ?_, ?_, ?_⟩
  · intro q hq
    have hne : q ≠ r := by omega
    rw [setMemo_other _ _ _ hne]; exact h.above q (by omega)
  · intro q m0 hm0 hv0
    by_cases hqr : q = r
    · subst hqr; exact absurd hv0 (hstale m0 hm0)
    · rw [setMemo_other _ _ _ hqr]; exact h.stable q m0 hm0 hv0
  · intro q m0 hm0
    by_cases hqr : q = r
    · subst hqr
      exact ⟨m', setMemo_same _ _ _, by rw [hva]; exact (hI.memo q m0 hm0).va_cur, hca m0 hm0⟩
    · rw [setMemo_other _ _ _ hqr]; exact h.mono q m0 hm0
  · intro q
    by_cases hqr : q = r
    · subst hqr; exact Or.inr ⟨m', setMemo_same _ _ _, hva⟩
    · rw [setMemo_other _ _ _ hqr]; exact h.touched q
  · intro q m0 m1 hm0 hm1 hv1 hd1
    by_cases hqr : q = r
    · subst hqr
      rw [setMemo_same] at hm1
      have e : m1 = m' := (Option.some.inj hm1).symm
      rw [e] at hv1 hd1 ⊢
      exact hbd m0 hm0 hv1 hd1
    · rw [setMemo_other _ _ _ hqr] at hm1; exact h.bd q m0 m1 hm0 hm1 hv1 hd1

/-- shallow verification by durability (`HigherDurability`) -/
theorem inv_markShallow {P s r m} (hI : Inv P s) (hm : s.memos r = some m) (hv : m.va ≠ s.cur)
    (hsh : lc s m.dur ≤ m.va) : Inv P (setMemo s r { m with va := s.cur }) := by
  have mok := hI.memo r m hm
  have hsok : SOK s m := Or.inr hsh
  have hdeep : lc s m.dur ≤ m.deepAt := by
    rcases mok.i4 with h | h
    · exact h
    · exact absurd hsh (Nat.not_le.mpr h)
  have hok : MemoOk P (setMemo s r { m with va := s.cur }) r { m with va := s.cur } := by
    refine ⟨Nat.le_trans mok.ca_va mok.va_cur, Nat.le_refl _, hI.cur1,
      Nat.le_trans mok.deep_va mok.va_cur, mok.dur3, mok.rep,
      ?_, ?_, Or.inl hdeep, ?_, ?_, ?_, ?_⟩
    · intro o ho x hinfo _
      rw [depInfo_setMemo_other _ _ _ (obs_ne_self hI hm ho)] at hinfo
      exact mok.i2 o ho x hinfo ((mok.i3 hsok o ho).1 x hinfo)
    · intro _ o ho
      obtain ⟨a, b⟩ := mok.i3 hsok o ho
      refine ⟨?_, (sokDep_setMemo_other _ _ _ (obs_ne_self hI hm ho)).mpr b⟩
      intro x hinfo
      rw [depInfo_setMemo_other _ _ _ (obs_ne_self hI hm ho)] at hinfo
      exact Nat.le_trans (a x hinfo) mok.va_cur
    · intro o q' ho hd
      obtain ⟨hlt, m2, hm2, hr⟩ := mok.i5 o q' ho hd
      have hne : q' ≠ r := by omega
      exact ⟨hlt, m2, by rw [setMemo_other _ _ _ hne]; exact hm2, hr⟩
    · intro o ho hr x hinfo
      rw [depInfo_setMemo_other _ _ _ (obs_ne_self hI hm ho)] at hinfo
      exact mok.i6 o ho hr x hinfo
    · intro w d hw hd h
      have h1 := hI.wlog_lc w d hw m.dur hd
      exact absurd (Nat.le_trans h1 hdeep) (Nat.not_le.mpr h.1)
    · intro o ho x hinfo
      rw [depInfo_setMemo_other _ _ _ (obs_ne_self hI hm ho)] at hinfo
      left
      exact Nat.le_trans ((mok.i3 hsok o ho).1 x hinfo) mok.va_cur
  have hobs := hobs_same (q := r) (mo := m) hI hm { m with va := s.cur } rfl rfl (Nat.le_refl _)
  exact inv_setMemo (q := r) (m' := { m with va := s.cur }) hI hok rfl hobs

/-- successful deep verification of a tracked memo -/
theorem inv_markDeep {P t r m} (hI : Inv P t) (hm : t.memos r = some m)
    (facts : ∀ o, o ∈ m.obs → o.recd = true →
      hot t o.dep ∧ ∃ x, depInfo t o.dep = some x ∧ x.ca ≤ m.va) :
    Inv P (setMemo t r { m with va := t.cur, deepAt := t.cur }) := by
  have mok := hI.memo r m hm
  have hall : ∀ o, o ∈ m.obs → ∀ x, depInfo t o.dep = some x →
      x.val = o.val ∧ m.dur ≤ x.dur ∧ sokDep t o.dep := by
    intro o ho x hinfo
    cases hr : o.recd with
    | true =>
      obtain ⟨hh, x', hi', hc'⟩ := facts o ho hr
      rw [hinfo] at hi'; cases hi'
      obtain ⟨a, b⟩ := mok.i2 o ho x hinfo hc'
      exact ⟨a, b, sokDep_of_hot hh⟩
    | false =>
      obtain ⟨a, b⟩ := mok.i6 o ho hr x hinfo
      exact ⟨a, Nat.le_trans mok.dur3 b, sokDep_of_never hI hinfo b⟩
  have hok : MemoOk P (setMemo t r { m with va := t.cur, deepAt := t.cur }) r
      { m with va := t.cur, deepAt := t.cur } := by
    refine ⟨Nat.le_trans mok.ca_va mok.va_cur, Nat.le_refl _, hI.cur1, Nat.le_refl _, mok.dur3,
      mok.rep, ?_, ?_, Or.inl (hI.lc_le _), ?_, ?_, ?_, ?_⟩
    · intro o ho x hinfo _
      rw [depInfo_setMemo_other _ _ _ (obs_ne_self hI hm ho)] at hinfo
      exact ⟨(hall o ho x hinfo).1, (hall o ho x hinfo).2.1⟩
    · intro _ o ho
      refine ⟨?_, ?_⟩
      · intro x hinfo
        rw [depInfo_setMemo_other _ _ _ (obs_ne_self hI hm ho)] at hinfo
        exact depInfo_ca_le hI hinfo
      · rw [sokDep_setMemo_other _ _ _ (obs_ne_self hI hm ho)]
        obtain ⟨x, hx⟩ := depInfo_exists hI hm ho
        exact (hall o ho x hx).2.2
    · intro o q' ho hd
      obtain ⟨hlt, m2, hm2, _⟩ := mok.i5 o q' ho hd
      have hne : q' ≠ r := by omega
      refine ⟨hlt, m2, by rw [setMemo_other _ _ _ hne]; exact hm2, ?_⟩
      intro hr
      obtain ⟨hh, _⟩ := facts o ho hr
      rw [hd] at hh
      obtain ⟨m3, hm3, hv3⟩ := hh
      rw [hm2] at hm3; cases hm3
      show t.cur ≤ m2.va
      rw [hv3]; exact Nat.le_refl _
    · intro o ho hr x hinfo
      rw [depInfo_setMemo_other _ _ _ (obs_ne_self hI hm ho)] at hinfo
      exact mok.i6 o ho hr x hinfo
    · intro w d _ _ h
      exact absurd h.1 (Nat.not_lt.mpr h.2)
    · intro o ho x hinfo
      rw [depInfo_setMemo_other _ _ _ (obs_ne_self hI hm ho)] at hinfo
      left; exact depInfo_ca_le hI hinfo
  have hobs := hobs_same (q := r) (mo := m) hI hm { m with va := t.cur, deepAt := t.cur }
    rfl rfl (Nat.le_refl _)
  exact inv_setMemo (q := r) (m' := { m with va := t.cur, deepAt := t.cur }) hI hok rfl hobs


/-- `MemoOk` of a freshly executed memo (any stamp `ca ≤ cur`, `deepAt = cur`) -/
theorem memoOk_new {P r} {t : State} {F : Frame} {v ca : Nat}
    (hI : Inv P t) (hFca : F.ca ≤ t.cur) (hca : ca ≤ t.cur) (hdur : F.dur ≤ 3)
    (hrep : replay (P r) (obsPairs F.obs) = some v)
    (hfacts : ∀ o, o ∈ F.obs → hot t o.dep ∧
      (∃ x, depInfo t o.dep = some x ∧ x.val = o.val ∧ x.ca ≤ F.ca ∧ F.dur ≤ x.dur ∧
        (o.recd = false → 3 ≤ x.dur)) ∧ (∀ q', o.dep = .qry q' → q' < r)) :
    MemoOk P (setMemo t r (newMemo v t.cur ca F.dur F.obs)) r (newMemo v t.cur ca F.dur F.obs) := by
  have hnr : ∀ o, o ∈ F.obs → o.dep ≠ .qry r := by
    intro o hm hd
    have := (hfacts o hm).2.2 r hd
    omega
  have hinfo : ∀ o, o ∈ F.obs → ∀ x, depInfo (setMemo t r (newMemo v t.cur ca F.dur F.obs)) o.dep = some x →
      x.val = o.val ∧ x.ca ≤ F.ca ∧ F.dur ≤ x.dur ∧ (o.recd = false → 3 ≤ x.dur) := by
    intro o hm x hx
    rw [depInfo_setMemo_other _ _ _ (hnr o hm)] at hx
    obtain ⟨x0, h0, h1, h2, h3, h4⟩ := (hfacts o hm).2.1
    rw [h0] at hx; cases hx; exact ⟨h1, h2, h3, h4⟩
  simp only [newMemo]
  refine ⟨hca, Nat.le_refl _, hI.cur1, Nat.le_refl _, hdur, hrep, ?_, ?_, Or.inl (hI.lc_le _), ?_, ?_, ?_, ?_⟩
  · intro o hm x hx _
    obtain ⟨h1, _, h3, _⟩ := hinfo o hm x hx
    exact ⟨h1, h3⟩
  · intro _ o hm
    refine ⟨?_, ?_⟩
    · intro x hx
      obtain ⟨_, h2, _⟩ := hinfo o hm x hx
      exact Nat.le_trans h2 hFca
    · rw [sokDep_setMemo_other _ _ _ (hnr o hm)]
      have hh := (hfacts o hm).1
      cases hd : o.dep with
      | inp i => trivial
      | qry q' =>
        rw [hd] at hh
        obtain ⟨m2, hm2, hv2⟩ := hh
        exact ⟨m2, hm2, Or.inl hv2⟩
  · intro o q' hm hd
    obtain ⟨hh, _, hlt⟩ := hfacts o hm
    rw [hd] at hh
    obtain ⟨m2, hm2, hv2⟩ := hh
    have hne : q' ≠ r := by have := hlt q' hd; omega
    exact ⟨hlt q' hd, m2, by rw [setMemo_other _ _ _ hne]; exact hm2, fun _ => by simp only; rw [hv2]; exact Nat.le_refl _⟩
  · intro o hm hrec x hx
    obtain ⟨h1, _, _, h4⟩ := hinfo o hm x hx
    exact ⟨h1, h4 hrec⟩
  · intro w d _ _ h
    simp only at h
    exact absurd h.1 (Nat.not_lt.mpr h.2)
  · intro o hm x hx
    obtain ⟨_, h2, _⟩ := hinfo o hm x hx
    left; exact Nat.le_trans h2 hFca

end SalsaVerif.Proofs.Core
