/-
  The engine of a `persistence` build (Model/Persist.lean: `engP`, every read records an edge)
  preserves the invariant `Inv` of Proofs/CoreInv.lean and returns from-scratch values.

  The invariant, the frame relation `Ext`, the specification records `FetchSpec` / `McaSpec`, the
  state-level lemmas (`inv_setMemo`, `hobs_same`, `deep_ok`, `readDep_ok`, `bump_inv`, …) are the
  ones of the stage-S2 development and are imported; only the lemmas that walk the engine
  (`run_ok`, `run_prefix`, `execute_ok`, `fetchStep_ok`, `eng_ok`, `fetch_sound`) are re-proved here
  for the `P` variants — the proofs are those of Proofs/Core{Run,Exec,Fetch,Top}.lean with
  `pushP` in place of `Frame.push` (clause I6 about unrecorded reads becomes vacuous).
  Core Lean only.
-/
import SalsaVerif.Model.Persist
import SalsaVerif.Proofs.CoreTop

namespace SalsaVerif.Proofs.Persist
open SalsaVerif.Model.Core SalsaVerif.Model.Persist SalsaVerif.Proofs.Core

theorem run_okP {P r fe} (hfe : FetchSpec P r fe) : ∀ b, WfB r b → ∀ s f, Inv P s → f.ca ≤ s.cur →
    Inv P (runBodyP fe b s f).1 ∧ Ext s (runBodyP fe b s f).1 r ∧
    (runBodyP fe b s f).2.2 = evalB (semDep P s.inp) b ∧
    f.ca ≤ (runBodyP fe b s f).2.1.ca ∧ (runBodyP fe b s f).2.1.ca ≤ s.cur ∧
    (runBodyP fe b s f).2.1.dur ≤ f.dur ∧
    ∃ new, (runBodyP fe b s f).2.1.obs = f.obs ++ new ∧
      replay b (obsPairs new) = some (runBodyP fe b s f).2.2 ∧
      ∀ o, o ∈ new → hot (runBodyP fe b s f).1 o.dep ∧
        (∃ x, depInfo (runBodyP fe b s f).1 o.dep = some x ∧ x.val = o.val ∧
          x.ca ≤ (runBodyP fe b s f).2.1.ca ∧ (runBodyP fe b s f).2.1.dur ≤ x.dur ∧
          (o.recd = false → 3 ≤ x.dur)) ∧
        (∀ q', o.dep = .qry q' → q' < r) := by
  intro b hb
  induction hb with
  | ret v =>
    intro s f hI hf
    simp only [runBodyP]
    exact ⟨hI, Ext.refl s r, rfl, Nat.le_refl _, hf, Nat.le_refl _, [], by simp, by simp [replay, obsPairs], by simp⟩
  | read d k hd _ ih =>
    intro s f hI hf
    simp only [runBodyP]
    obtain ⟨g1, g2, g3, g4, g5, g6⟩ := readDep_ok hfe (s := s) (d := d) hI hd
    generalize hrd : readDep fe s d = rd at g1 g2 g3 g4 g5 g6
    have hf' : (pushP f d rd.2).ca ≤ rd.1.cur := by
      simp only [pushP]; rw [g2.cur]; exact Nat.max_le.mpr ⟨hf, g6⟩
    obtain ⟨h1, h2, h3, h4, h5, h5d, new, h6, h7, h8⟩ := ih rd.2.val rd.1 (pushP f d rd.2) g1 hf'
    refine ⟨h1, Ext.trans g2 h2, ?_, ?_, by rw [← g2.cur]; exact h5, ?_,
      ⟨d, rd.2.val, true⟩ :: new, ?_, ?_, ?_⟩
    · rw [h3, g2.inp]; simp only [evalB, g3]
    · exact Nat.le_trans (by simp only [pushP]; exact Nat.le_max_left _ _) h4
    · exact Nat.le_trans h5d (by simp only [pushP]; exact Nat.min_le_left _ _)
    · rw [h6]; simp [pushP]
    · simp only [obsPairs, List.map_cons, replay, if_true]
      exact h7
    · intro o hm
      simp only [List.mem_cons] at hm
      rcases hm with hm | hm
      · subst hm
        simp only
        refine ⟨hot_ext h2 g4, ⟨rd.2, depInfo_hot_ext h2 g4 g5, rfl, ?_, ?_, ?_⟩, hd⟩
        · exact Nat.le_trans (by simp only [pushP]; exact Nat.le_max_right _ _) h4
        · exact Nat.le_trans h5d (by simp only [pushP]; exact Nat.min_le_right _ _)
        · intro hrec
          cases hrec
      · exact h8 o hm

theorem run_prefixP {P r fe} (hfe : FetchSpec P r fe) : ∀ pre b s f o post x,
    WfB r b → Inv P s → f.ca ≤ s.cur →
    (replay b (obsPairs (pre ++ o :: post))).isSome →
    (∀ o', o' ∈ pre → semDep P s.inp o'.dep = o'.val) →
    hot s o.dep → depInfo s o.dep = some x →
    x.ca ≤ (runBodyP fe b s f).2.1.ca := by
  intro pre
  induction pre with
  | nil =>
    intro b s f o post x hb hI hf hrep _ hh hi
    cases hb with
    | ret v => simp [replay, obsPairs] at hrep
    | read d0 k hd hk =>
      simp only [List.nil_append, obsPairs, List.map_cons, replay] at hrep
      split at hrep
      · rename_i hdd
        subst hdd
        simp only [runBodyP]
        rw [readDep_hot hfe hh hi hd]
        have hc : x.ca ≤ s.cur := by
          have := (readDep_ok hfe (s := s) (d := o.dep) hI hd).2.2.2.2.2
          rw [readDep_hot hfe hh hi hd] at this
          exact this
        have hf' : (pushP f o.dep x).ca ≤ s.cur := by
          simp only [pushP]; exact Nat.max_le.mpr ⟨hf, hc⟩
        have := (run_okP hfe (k x.val) (hk x.val) s (pushP f o.dep x) hI hf').2.2.2.1
        exact Nat.le_trans (by simp only [pushP]; exact Nat.le_max_right _ _) this
      · simp at hrep
  | cons o1 pre ih =>
    intro b s f o post x hb hI hf hrep hpre hh hi
    cases hb with
    | ret v => simp [replay, obsPairs] at hrep
    | read d0 k hd hk =>
      simp only [List.cons_append, obsPairs, List.map_cons, replay] at hrep
      split at hrep
      · rename_i hdd
        subst hdd
        simp only [runBodyP]
        obtain ⟨g1, g2, g3, _, _, g6⟩ := readDep_ok hfe (s := s) (d := o1.dep) hI hd
        generalize hrd : readDep fe s o1.dep = rd at g1 g2 g3 g6
        have hval : rd.2.val = o1.val := by rw [g3]; exact hpre o1 (by simp)
        rw [hval]
        have hf' : (pushP f o1.dep rd.2).ca ≤ rd.1.cur := by
          simp only [pushP]; rw [g2.cur]; exact Nat.max_le.mpr ⟨hf, g6⟩
        exact ih (k o1.val) rd.1 (pushP f o1.dep rd.2) o post x (hk o1.val) g1 hf'
          (by simpa [obsPairs] using hrep)
          (fun o' hm => by rw [g2.inp]; exact hpre o' (by simp [hm]))
          (hot_ext g2 hh) (depInfo_hot_ext g2 hh hi)
      · simp at hrep

theorem execute_okP {P r fe} (hP : Wf P) (hfe : FetchSpec P r fe) (s : State) (old : Option Memo)
    (hI : Inv P s) (hold : s.memos r = old)
    (hstale : ∀ m, s.memos r = some m → m.va ≠ s.cur)
    (hnsok : ∀ o, old = some o → ¬ SOK s o)
    (hback : ∀ o, old = some o → ∃ w d, (w, d) ∈ s.wlog ∧ o.dur ≤ d ∧ o.va < w ∧
        w ≤ (runBodyP fe (P r) (emit s (.exec r)) frame0).2.1.ca) :
    Inv P (executeP fe P s r old).1 ∧ Ext s (executeP fe P s r old).1 (r + 1) ∧
    (executeP fe P s r old).2.val = sem P s.inp r ∧
    ∃ m, (executeP fe P s r old).1.memos r = some m ∧ m.va = s.cur ∧
      m.value = (executeP fe P s r old).2.val ∧ m.ca = (executeP fe P s r old).2.ca ∧
      m.dur = (executeP fe P s r old).2.dur := by
  have hrun := run_okP hfe (P r) (hP r) (emit s (.exec r)) frame0 (inv_emit _ hI) hI.cur1
  generalize hr0 : runBodyP fe (P r) (emit s (.exec r)) frame0 = r0 at hrun hback
  obtain ⟨k1, k2, k3, _, k5, k5d, new, k6, k7, k8⟩ := hrun
  replace k2 : Ext s r0.1 r := Ext.trans (ext_emit s _ r) k2
  replace k3 : r0.2.2 = evalB (semDep P s.inp) (P r) := k3
  replace k5 : r0.2.1.ca ≤ s.cur := k5
  simp only [frame0, List.nil_append] at k6 k5d
  have hexec : executeP fe P s r old =
      (setMemo r0.1 r (newMemo r0.2.2 r0.1.cur (backdateCa old r0.2.2 r0.2.1) r0.2.1.dur r0.2.1.obs),
       ⟨r0.2.2, backdateCa old r0.2.2 r0.2.1, r0.2.1.dur⟩) := by
    simp only [executeP, hr0]
  rw [hexec]
  generalize hca : backdateCa old r0.2.2 r0.2.1 = ca
  have hmr : r0.1.memos r = old := by rw [k2.above r (Nat.le_refl r)]; exact hold
  -- facts about the stamp
  have hca_le : ca ≤ r0.1.cur := by
    rw [← hca, k2.cur]
    cases old with
    | none => exact k5
    | some o =>
      simp only [backdateCa]
      split
      · have := hI.memo r o hold
        exact Nat.le_trans this.ca_va this.va_cur
      · exact k5
  have hnr : ∀ o, o ∈ new → o.dep ≠ .qry r := by
    intro o hm hd
    have := (k8 o hm).2.2 r hd
    omega
  have hok : MemoOk P (setMemo r0.1 r (newMemo r0.2.2 r0.1.cur ca r0.2.1.dur r0.2.1.obs)) r
      (newMemo r0.2.2 r0.1.cur ca r0.2.1.dur r0.2.1.obs) := by
    simp only [newMemo]
    refine ⟨hca_le, Nat.le_refl _, by simp only; rw [k2.cur]; exact hI.cur1, Nat.le_refl _, k5d,
      by simp only; rw [k6]; exact k7, ?_, ?_, ?_, ?_, ?_, ?_, ?_⟩
    · -- i2
      intro o hm x hinfo _
      simp only at hm; rw [k6] at hm
      rw [depInfo_setMemo_other _ _ _ (hnr o hm)] at hinfo
      obtain ⟨_, ⟨x0, h0, hv0, _, hd0, _⟩, _⟩ := k8 o hm
      rw [h0] at hinfo; cases hinfo
      exact ⟨hv0, hd0⟩
    · -- i3
      intro _ o hm
      simp only at hm; rw [k6] at hm
      obtain ⟨hh, ⟨x0, h0, _, hc0, _, _⟩, _⟩ := k8 o hm
      refine ⟨?_, ?_⟩
      · intro x hinfo
        rw [depInfo_setMemo_other _ _ _ (hnr o hm)] at hinfo
        rw [h0] at hinfo; cases hinfo
        exact Nat.le_trans hc0 (by rw [k2.cur]; exact k5)
      · rw [sokDep_setMemo_other _ _ _ (hnr o hm)]
        cases hd : o.dep with
        | inp i => trivial
        | qry q' =>
          rw [hd] at hh
          obtain ⟨m2, hm2, hv2⟩ := hh
          exact ⟨m2, hm2, Or.inl hv2⟩
    · -- i4
      left; simp only [setMemo_lc]; exact k1.lc_le _
    · -- i5
      intro o q' hm hd
      simp only at hm; rw [k6] at hm
      obtain ⟨hh, _, hlt⟩ := k8 o hm
      rw [hd] at hh
      obtain ⟨m2, hm2, hv2⟩ := hh
      have hne : q' ≠ r := by have := hlt q' hd; omega
      exact ⟨hlt q' hd, m2, by rw [setMemo_other _ _ _ hne]; exact hm2, fun _ => by simp only; rw [hv2]; exact Nat.le_refl _⟩
    · -- i6
      intro o hm hrec x hinfo
      simp only at hm; rw [k6] at hm
      rw [depInfo_setMemo_other _ _ _ (hnr o hm)] at hinfo
      obtain ⟨_, ⟨x0, h0, hv0, _, _, h3⟩, _⟩ := k8 o hm
      rw [h0] at hinfo; cases hinfo
      exact ⟨hv0, h3 hrec⟩
    · -- g4
      intro w d _ _ h
      simp only at h
      exact absurd h.1 (Nat.not_lt.mpr h.2)
    · -- i10
      intro o hm x hinfo
      simp only at hm; rw [k6] at hm
      rw [depInfo_setMemo_other _ _ _ (hnr o hm)] at hinfo
      obtain ⟨_, ⟨x0, h0, _, hc0, _, _⟩, _⟩ := k8 o hm
      rw [h0] at hinfo; cases hinfo
      left; exact Nat.le_trans hc0 (by rw [k2.cur]; exact k5)
  -- observers
  have hobs : ∀ p mp o, p ≠ r → r0.1.memos p = some mp → o ∈ mp.obs → o.dep = .qry r →
      (ca ≤ mp.va → r0.2.2 = o.val ∧ mp.dur ≤ r0.2.1.dur) ∧
      (SOK r0.1 mp → ca ≤ mp.va) ∧
      (o.recd = false → r0.2.2 = o.val ∧ 3 ≤ r0.2.1.dur) ∧
      (ca ≤ mp.va ∨ ∃ w d, (w, d) ∈ r0.1.wlog ∧ mp.dur ≤ d ∧ mp.va < w ∧ w ≤ ca) := by
    intro p mp o hpr hmp ho hdq
    have ok := k1.memo p mp hmp
    obtain ⟨_, mo, hmo, hdeep⟩ := ok.i5 o r ho hdq
    rw [hmr] at hmo
    subst hmo
    have hinfo : depInfo r0.1 o.dep = some ⟨mo.value, mo.ca, mo.dur⟩ := by rw [hdq]; simp [depInfo, hmr]
    have mook := k1.memo r mo hmr
    by_cases hbd : mo.value = r0.2.2 ∧ mo.dur ≤ r0.2.1.dur
    · -- backdated: value and stamp unchanged
      have hca' : ca = mo.ca := by rw [← hca]; simp only [backdateCa, hbd, and_self, if_true]
      have := hobs_same (q := r) (mo := mo) k1 hmr (newMemo r0.2.2 r0.1.cur ca r0.2.1.dur r0.2.1.obs)
        hbd.1.symm hca' hbd.2 p mp o hpr hmp ho hdq
      exact this
    · -- not backdated
      have hca' : ca = r0.2.1.ca := by rw [← hca]; simp only [backdateCa, hbd, if_false]
      have hns : ¬ SOK r0.1 mo := by
        intro h
        apply hnsok mo rfl
        cases h with
        | inl h => left; rw [h, k2.cur]
        | inr h => right; rw [← k2.lc]; exact h
      have hnsmp : ¬ SOK r0.1 mp := by
        intro h
        have := (ok.i3 h o ho).2
        rw [hdq] at this
        obtain ⟨m2, hm2, hs2⟩ := this
        rw [hmr] at hm2; cases hm2
        exact hns hs2
      have hrec : o.recd = true := by
        cases hr : o.recd with
        | true => rfl
        | false =>
          have := (ok.i6 o ho hr _ hinfo).2
          exact absurd (sok_of_never k1 this mook.va1) hns
      have hdeep' := hdeep hrec
      obtain ⟨w, d, hw, hd, hlt, hle⟩ := hback mo rfl
      rw [← k2.wlog] at hw
      -- the new stamp exceeds the observer's verification
      have key : ∀ (_ : mo.ca ≤ mp.va), mp.va < w := by
        intro hle2
        have hdur := (ok.i2 o ho _ hinfo hle2).2
        apply Nat.lt_of_not_le
        intro hwle
        exact ok.g4 w d hw (Nat.le_trans hdur hd) ⟨Nat.lt_of_le_of_lt hdeep' hlt, hwle⟩
      have hgt : mp.va < ca := by
        rw [hca']
        by_cases hle2 : mo.ca ≤ mp.va
        · exact Nat.lt_of_lt_of_le (key hle2) hle
        · have h1 : mp.va < mo.ca := Nat.lt_of_not_le hle2
          exact Nat.lt_of_lt_of_le (Nat.lt_of_lt_of_le (Nat.lt_of_lt_of_le h1 mook.ca_va) (Nat.le_of_lt hlt)) hle
      refine ⟨?_, ?_, ?_, ?_⟩
      · intro h; exact absurd h (Nat.not_le.mpr hgt)
      · intro h; exact absurd h hnsmp
      · intro h; rw [hrec] at h; cases h
      right
      by_cases hle2 : mo.ca ≤ mp.va
      · exact ⟨w, d, hw, Nat.le_trans (ok.i2 o ho _ hinfo hle2).2 hd, key hle2, by rw [hca']; exact hle⟩
      · rcases ok.i10 o ho _ hinfo with h | ⟨w2, d2, a, b, c, e⟩
        · exact absurd h hle2
        · refine ⟨w2, d2, a, b, c, ?_⟩
          rw [hca']
          exact Nat.le_trans e (Nat.le_trans mook.ca_va (Nat.le_trans (Nat.le_of_lt hlt) hle))
  have hinv := inv_setMemo (q := r) (m' := newMemo r0.2.2 r0.1.cur ca r0.2.1.dur r0.2.1.obs) k1 hok rfl hobs
  refine ⟨hinv, ?_, by simp only; rw [k3, sem_unfold P s.inp hP r], ?_⟩
  · refine ⟨by simp [k2.cur], by simp [k2.lch], by simp [k2.inp], by simp [k2.wlog], ?_, ?_, ?_, ?_, ?_⟩
    · intro q hq
      have hne : q ≠ r := by omega
      rw [setMemo_other _ _ _ hne]; exact k2.above q (by omega)
    · intro q m hm hv
      by_cases hqr : q = r
      · subst hqr; exact absurd hv (hstale m hm)
      · rw [setMemo_other _ _ _ hqr]; exact k2.stable q m hm hv
    · intro q m hm
      by_cases hqr : q = r
      · subst hqr
        have mok := hI.memo q m hm
        refine ⟨_, setMemo_same _ _ _, ?_, ?_⟩
        · show m.va ≤ r0.1.cur
          rw [k2.cur]; exact mok.va_cur
        · show m.ca ≤ ca
          have hom : old = some m := by rw [← hold]; exact hm
          rw [← hca, hom]
          simp only [backdateCa]
          split
          · exact Nat.le_refl _
          · obtain ⟨w, d, _, _, hlt, hle⟩ := hback m hom
            exact Nat.le_trans mok.ca_va (Nat.le_trans (Nat.le_of_lt hlt) hle)
      · rw [setMemo_other _ _ _ hqr]; exact k2.mono q m hm
    · intro q
      by_cases hqr : q = r
      · subst hqr; exact Or.inr ⟨_, setMemo_same _ _ _, k2.cur⟩
      · rw [setMemo_other _ _ _ hqr]; exact k2.touched q
    · intro q m m' hm hm' hv hd
      by_cases hqr : q = r
      · subst hqr
        rw [setMemo_same] at hm'
        have e : m' = newMemo r0.2.2 r0.1.cur ca r0.2.1.dur r0.2.1.obs := (Option.some.inj hm').symm
        subst e
        have hom : old = some m := by rw [← hold]; exact hm
        simp only [newMemo] at hv hd ⊢
        rw [← hca, hom]
        simp only [backdateCa]
        rw [if_pos ⟨hv.symm, hd⟩]
      · rw [setMemo_other _ _ _ hqr] at hm'; exact k2.bd q m m' hm hm' hv hd
  · exact ⟨_, setMemo_same _ _ _, by show r0.1.cur = s.cur; exact k2.cur, rfl, rfl, rfl⟩

theorem fetchStep_okP {P r fe mc} (hP : Wf P) (hfe : FetchSpec P r fe) (hmc : McaSpec P r mc)
    (s : State) (hI : Inv P s) :
    Inv P (fetchStepP fe mc P s r).1 ∧ Ext s (fetchStepP fe mc P s r).1 (r + 1) ∧
    (fetchStepP fe mc P s r).2.val = sem P s.inp r ∧
    ∃ m, (fetchStepP fe mc P s r).1.memos r = some m ∧ m.va = s.cur ∧
      m.value = (fetchStepP fe mc P s r).2.val ∧ m.ca = (fetchStepP fe mc P s r).2.ca ∧
      m.dur = (fetchStepP fe mc P s r).2.dur := by
  unfold fetchStepP
  cases hm : s.memos r with
  | none =>
    simp only
    exact execute_okP hP hfe s none hI hm (by intro m h; rw [hm] at h; cases h)
      (by intro o h; cases h) (by intro o h; cases h)
  | some m =>
    simp only
    have mok := hI.memo r m hm
    by_cases hv : m.va = s.cur
    · simp only [hv, if_true]
      exact ⟨hI, Ext.refl s _, fresh_of_sok hP hI r m hm (Or.inl hv), m, hm, hv, rfl, rfl, rfl⟩
    · simp only [hv, if_false]
      by_cases hsh : lc s m.dur ≤ m.va
      · -- shallow verification by durability
        simp only [hsh, if_true, markVerified_eq]
        have hsok : SOK s m := Or.inr hsh
        have hdeep : lc s m.dur ≤ m.deepAt := by
          rcases mok.i4 with h | h
          · exact h
          · exact absurd hsh (Nat.not_le.mpr h)
        have hok : MemoOk P (setMemo s r { m with va := s.cur }) r { m with va := s.cur } := by
          refine ⟨Nat.le_trans mok.ca_va mok.va_cur, Nat.le_refl _, hI.cur1,
            Nat.le_trans mok.deep_va mok.va_cur, mok.dur3, mok.rep, ?_, ?_, Or.inl hdeep, ?_, ?_, ?_, ?_⟩
          · intro o ho x hinfo _
            rw [depInfo_setMemo_other _ _ _ (obs_ne_self hI hm ho)] at hinfo
            exact mok.i2 o ho x hinfo ((mok.i3 hsok o ho).1 x hinfo)
          · intro _ o ho
            obtain ⟨a, b⟩ := mok.i3 hsok o ho
            refine ⟨?_, (sokDep_setMemo_other _ _ _ (obs_ne_self hI hm ho)).mpr b⟩
            intro x hinfo
            rw [depInfo_setMemo_other _ _ _ (obs_ne_self hI hm ho)] at hinfo
            exact Nat.le_trans (a x hinfo) mok.va_cur
          · intro o q' ho hd
            obtain ⟨hlt, m2, hm2, hr⟩ := mok.i5 o q' ho hd
            have hne : q' ≠ r := by omega
            exact ⟨hlt, m2, by rw [setMemo_other _ _ _ hne]; exact hm2, hr⟩
          · intro o ho hr x hinfo
            rw [depInfo_setMemo_other _ _ _ (obs_ne_self hI hm ho)] at hinfo
            exact mok.i6 o ho hr x hinfo
          · intro w d hw hd h
            have h1 := hI.wlog_lc w d hw m.dur hd
            exact absurd (Nat.le_trans h1 hdeep) (Nat.not_le.mpr h.1)
          · intro o ho x hinfo
            rw [depInfo_setMemo_other _ _ _ (obs_ne_self hI hm ho)] at hinfo
            left
            exact Nat.le_trans ((mok.i3 hsok o ho).1 x hinfo) mok.va_cur
        have hobs := hobs_same (q := r) (mo := m) hI hm { m with va := s.cur } rfl rfl (Nat.le_refl _)
        have hinv := inv_setMemo (q := r) (m' := { m with va := s.cur }) hI hok rfl hobs
        exact ⟨inv_emit _ hinv, (ext_setMemo (m' := { m with va := s.cur }) hI hm hv (Ext.refl s r) rfl rfl).emit _,
          fresh_of_sok hP hI r m hm hsok, _, setMemo_same _ _ _, rfl, rfl, rfl, rfl⟩
      · simp only [hsh, if_false]
        have hpre : ∀ o q', o ∈ m.obs → o.dep = .qry q' → q' < r ∧ ∃ m', s.memos q' = some m' := by
          intro o q' ho hd
          obtain ⟨h1, m', h2, _⟩ := mok.i5 o q' ho hd
          exact ⟨h1, m', h2⟩
        obtain ⟨d1, d2, d3, d4⟩ := deep_ok hmc m.obs s m.va hI hpre
        generalize hs1 : deepEdges mc m.obs s m.va = t at d1 d2 d3 d4
        have hm1 : t.1.memos r = some m := by rw [d2.above r (Nat.le_refl r)]; exact hm
        have mok1 := d1.memo r m hm1
        cases hres : t.2 with
        | true =>
          simp only [if_true, markDeepVerified_eq]
          have facts := d3 hres
          -- every observation is stored with its recorded value, and is shallow-ok
          have hall : ∀ o, o ∈ m.obs → ∀ x, depInfo t.1 o.dep = some x →
              x.val = o.val ∧ m.dur ≤ x.dur ∧ sokDep t.1 o.dep := by
            intro o ho x hinfo
            cases hr : o.recd with
            | true =>
              obtain ⟨hh, x', hi', hc'⟩ := facts o ho hr
              rw [hinfo] at hi'; cases hi'
              obtain ⟨a, b⟩ := mok1.i2 o ho x hinfo hc'
              exact ⟨a, b, sokDep_of_hot hh⟩
            | false =>
              obtain ⟨a, b⟩ := mok1.i6 o ho hr x hinfo
              exact ⟨a, Nat.le_trans mok1.dur3 b, sokDep_of_never d1 hinfo b⟩
          have hok : MemoOk P (setMemo t.1 r { m with va := t.1.cur, deepAt := t.1.cur }) r
              { m with va := t.1.cur, deepAt := t.1.cur } := by
            refine ⟨Nat.le_trans mok1.ca_va mok1.va_cur, Nat.le_refl _, d1.cur1, Nat.le_refl _, mok1.dur3,
              mok1.rep, ?_, ?_, Or.inl (d1.lc_le _), ?_, ?_, ?_, ?_⟩
            · intro o ho x hinfo _
              rw [depInfo_setMemo_other _ _ _ (obs_ne_self d1 hm1 ho)] at hinfo
              exact ⟨(hall o ho x hinfo).1, (hall o ho x hinfo).2.1⟩
            · intro _ o ho
              refine ⟨?_, ?_⟩
              · intro x hinfo
                rw [depInfo_setMemo_other _ _ _ (obs_ne_self d1 hm1 ho)] at hinfo
                exact depInfo_ca_le d1 hinfo
              · rw [sokDep_setMemo_other _ _ _ (obs_ne_self d1 hm1 ho)]
                obtain ⟨x, hx⟩ := depInfo_exists d1 hm1 ho
                exact (hall o ho x hx).2.2
            · intro o q' ho hd
              obtain ⟨hlt, m2, hm2, _⟩ := mok1.i5 o q' ho hd
              have hne : q' ≠ r := by omega
              refine ⟨hlt, m2, by rw [setMemo_other _ _ _ hne]; exact hm2, ?_⟩
              intro hr
              obtain ⟨hh, _⟩ := facts o ho hr
              rw [hd] at hh
              obtain ⟨m3, hm3, hv3⟩ := hh
              rw [hm2] at hm3; cases hm3
              show t.1.cur ≤ m2.va
              rw [hv3]; exact Nat.le_refl _
            · intro o ho hr x hinfo
              rw [depInfo_setMemo_other _ _ _ (obs_ne_self d1 hm1 ho)] at hinfo
              exact mok1.i6 o ho hr x hinfo
            · intro w d _ _ h
              exact absurd h.1 (Nat.not_lt.mpr h.2)
            · intro o ho x hinfo
              rw [depInfo_setMemo_other _ _ _ (obs_ne_self d1 hm1 ho)] at hinfo
              left; exact depInfo_ca_le d1 hinfo
          have hobs := hobs_same (q := r) (mo := m) d1 hm1 { m with va := t.1.cur, deepAt := t.1.cur }
            rfl rfl (Nat.le_refl _)
          have hinv := inv_setMemo (q := r) (m' := { m with va := t.1.cur, deepAt := t.1.cur }) d1 hok rfl hobs
          have hval : m.value = sem P s.inp r := by
            have := fresh_of_sok hP hinv r _ (setMemo_same _ _ _) (Or.inl rfl)
            simpa [d2.inp] using this
          exact ⟨inv_emit _ hinv, (ext_setMemo (m' := { m with va := t.1.cur, deepAt := t.1.cur }) hI hm hv d2 d2.cur rfl).emit _, hval, _,
            setMemo_same _ _ _, d2.cur, rfl, rfl, rfl⟩
        | false =>
          simp only [Bool.false_eq_true, if_false]
          obtain ⟨pre, o, post, x, e1, e1r, e2, e3, e4, e5⟩ := d4 hres
          have hstale : ∀ m0, t.1.memos r = some m0 → m0.va ≠ t.1.cur := by
            intro m0 h0; rw [hm1] at h0; cases h0; rw [d2.cur]; exact hv
          have hnsok : ∀ o', some m = some o' → ¬ SOK t.1 o' := by
            intro o' ho' h
            cases ho'
            rcases h with h | h
            · rw [d2.cur] at h; exact hv h
            · rw [d2.lc] at h; exact hsh h
          have hoin : o ∈ m.obs := by rw [e1]; simp
          have hback : ∀ o', some m = some o' → ∃ w d, (w, d) ∈ t.1.wlog ∧ o'.dur ≤ d ∧ o'.va < w ∧
              w ≤ (runBodyP fe (P r) (emit t.1 (.exec r)) frame0).2.1.ca := by
            intro o' ho'
            cases ho'
            have hrep : (replay (P r) (obsPairs (pre ++ o :: post))).isSome := by
              rw [← e1, mok1.rep]; rfl
            have hpre' : ∀ o', o' ∈ pre → semDep P t.1.inp o'.dep = o'.val := by
              intro o' ho'
              have hin : o' ∈ m.obs := by rw [e1]; simp [ho']
              obtain ⟨x', hx'⟩ := depInfo_exists d1 hm1 hin
              cases hr : o'.recd with
              | true =>
                obtain ⟨hh, x2, hi2, hc2⟩ := e2 o' ho' hr
                rw [hx'] at hi2; cases hi2
                rw [semDep_of_stored hP d1 hx' (sokDep_of_hot hh)]
                exact (mok1.i2 o' hin x' hx' hc2).1
              | false =>
                obtain ⟨a, b⟩ := mok1.i6 o' hin hr x' hx'
                rw [semDep_of_stored hP d1 hx' (sokDep_of_never d1 hx' b)]
                exact a
            have hle := run_prefixP hfe pre (P r) (emit t.1 (.exec r)) frame0 o post x (hP r) (inv_emit _ d1)
              (by show 1 ≤ t.1.cur; rw [d2.cur]; exact hI.cur1) hrep hpre' ((hot_emit _ _ _).mpr e3)
              (by rw [depInfo_emit]; exact e4)
            rcases mok1.i10 o hoin x e4 with h | ⟨w, d, a, b, c, e⟩
            · exact absurd e5 (Nat.not_lt.mpr h)
            · exact ⟨w, d, a, b, c, Nat.le_trans e hle⟩
          obtain ⟨x1, x2, x3, x4⟩ := execute_okP hP hfe t.1 (some m) d1 hm1 hstale hnsok hback
          refine ⟨x1, ?_, by rw [x3, d2.inp], ?_⟩
          · exact Ext.trans (d2.weaken (Nat.le_succ r)) x2
          · obtain ⟨m2, y1, y2, y3, y4, y5⟩ := x4
            exact ⟨m2, y1, by rw [y2, d2.cur], y3, y4, y5⟩

theorem eng_okP {P} (hP : Wf P) : ∀ r, FetchSpec P r (engP P r).1 ∧ McaSpec P r (engP P r).2 := by
  intro r
  induction r with
  | zero =>
    exact ⟨⟨by intro s q h; omega, by intro s q m h; omega⟩, ⟨by intro s q rev h; omega⟩⟩
  | succ r ih =>
    obtain ⟨hfe, hmc⟩ := ih
    have hstep := fun s hI => fetchStep_okP hP hfe hmc s hI
    constructor
    · constructor
      · intro s q hq hI
        simp only [engP]
        by_cases hlt : q < r
        · simp only [hlt, if_true]
          obtain ⟨a1, a2, a3, a4⟩ := hfe.ok s q hlt hI
          exact ⟨a1, a2.weaken (Nat.le_succ r), a3, a4⟩
        · have : q = r := by omega
          subst this
          simp only [Nat.lt_irrefl, if_false, if_true]
          exact hstep s hI
      · intro s q m hq hm hv
        simp only [engP]
        by_cases hlt : q < r
        · simp only [hlt, if_true]; exact hfe.hot s q m hlt hm hv
        · have : q = r := by omega
          subst this
          simp only [Nat.lt_irrefl, if_false, if_true, fetchStepP, hm, hv]
    · constructor
      intro s q rev hq hI hex
      simp only [engP]
      by_cases hlt : q < r
      · simp only [hlt, if_true]
        obtain ⟨a1, a2, a3⟩ := hmc.ok s q rev hlt hI hex
        exact ⟨a1, a2.weaken (Nat.le_succ r), a3⟩
      · have : q = r := by omega
        subst this
        simp only [Nat.lt_irrefl, if_false, if_true]
        obtain ⟨m0, hm0⟩ := hex
        simp only [mcaStepP, hm0]
        obtain ⟨b1, b2, _, m, b4, b5, _, b7, _⟩ := hstep s hI
        exact ⟨b1, b2, m, b4, b5, by rw [b7]⟩

theorem fetch_soundP {P} (hP : Wf P) (s : State) (q : Nat) (hI : Inv P s) :
    Inv P (fetchP P s q).1 ∧ (fetchP P s q).2.val = sem P s.inp q ∧
    (fetchP P s q).1.cur = s.cur ∧ (fetchP P s q).1.inp = s.inp := by
  obtain ⟨a1, a2, a3, _⟩ := (eng_okP hP (q + 1)).1.ok s q (Nat.lt_succ_self q) hI
  exact ⟨a1, a3, a2.cur, a2.inp⟩

end SalsaVerif.Proofs.Persist
