/-
  Top level of the chain / termination proof: the provisional values of consecutive passes of an
  outermost head ascend (`loop_chain`), and no request ends in `tooManyIterations` when
  `8·n < 200` (`eval_noTM`).  Core Lean only.
-/
import SalsaVerif.Proofs.CycleChainTerm

namespace SalsaVerif.Proofs.Cycle
open SalsaVerif.Model.Cycle SalsaVerif.Gen.Stamp

/-! ## the ascending chain -/

section
variable (P : Prog) (env : Nat → Nat) (read : Nat → St → Res Fetched) (j : Nat) (rest : List Nat)

/-- one non-converged pass of the head loop of `j` as the outermost head: from the state `s` at
    the start of the pass to the state `s'` at the start of the next one. -/
def PassStep (s s' : St) : Prop :=
  ∃ v hs s1 last, evalM env read (P.node j).body s = .ok (v, hs, s1) ∧
    s1.prov.lookup j = some last ∧ belowOf s1 = false ∧
    converged (cache1Of s1 j (cycleFn P j last v)) s1.prov = false ∧
    s' = stIter s1 j (cycleFn P j last v)

/-- `PassStep` is exactly the iterating branch of `executeMaybeIterate`. -/
theorem passStep_unfold (s s' : St) (fuel stamp stamp' : Nat)
    (h : PassStep P env read j s s')
    (hi : IterationStamp.increment_iteration stamp = some stamp') :
    executeMaybeIterate P env read j (fuel + 1) stamp s
      = executeMaybeIterate P env read j fuel stamp' s' := by
  obtain ⟨v, hs, s1, last, hev, hl, hb, hc, heq⟩ := h
  rw [heq]
  exact emi_iter P env read j fuel stamp s hev hl hb hc hi

theorem passStep_next (hR : ReadSpec P env read) (hS : ReadSim P env read) (hNF : NoFallback P)
    (hG : P.NoGate) (l0 e r0 : St) (vl lastl : Nat) (hP : PrevPass P env read j rest l0 e r0 vl lastl)
    (s' : St) (hstep : PassStep P env read j r0 s') :
    (∃ r1 v', PrevPass P env read j rest r0 r1 s' v' (cycleFn P j lastl vl)) ∧
    (∀ c w, r0.prov.lookup c = some w → ∃ w', s'.prov.lookup c = some w' ∧ le w w') := by
  obtain ⟨v, hs, s1, last, hev, hl, _, _, heq⟩ := hstep
  obtain ⟨v', r1, hN⟩ := pass_next P env read j rest hR hS hNF hG l0 e r0 vl lastl hP
  obtain ⟨hs', hevr⟩ := hN.run
  rw [hev] at hevr
  injection hevr with hevr; injection hevr with e1 hevr; injection hevr with e2 e3
  subst e1; subst e3
  have hlast : last = cycleFn P j lastl vl := by
    have := hN.last1
    rw [hl] at this; injection this
  subst hlast
  rw [heq]
  exact ⟨⟨s1, v, hN.next⟩, hN.chain⟩

/-- a sequence of pass-start states of the head loop of an outermost head: `σ 0` is the state in
    which `j` starts its first pass (no cycle head is known); `σ (i+1)` is the start of the pass
    after the non-converged pass `i`. -/
structure PassSeq (σ : Nat → St) (T : Nat) : Prop where
  inv0 : Inv P env (σ 0)
  st0 : (σ 0).stack = j :: rest
  prov0 : (σ 0).prov = []
  step : ∀ i, i < T → PassStep P env read j (σ i) (σ (i + 1))

theorem loop_prev (hR : ReadSpec P env read) (hH : ReadRH P env read)
    (hS : ReadSim P env read) (hNF : NoFallback P) (hG : P.NoGate) (σ : Nat → St) (T : Nat)
    (hσ : PassSeq P env read j rest σ T) :
    ∀ t, t < T → ∃ e vl lastl, PrevPass P env read j rest (σ t) e (σ (t + 1)) vl lastl := by
  obtain ⟨hI, hst, hp0, hstep⟩ := hσ
  have hc0 : (σ 0).cache = [] := by
    apply (hI.empty ?_).1
    intro ⟨k, _, hp⟩
    rw [hp0] at hp; cases hp
  intro t
  induction t with
  | zero =>
    intro h
    obtain ⟨v, hs, s1, last, hev, hl, hb, _, heq⟩ := hstep 0 h
    rw [heq]
    exact ⟨s1, v, last,
      pass_first P env read j rest hR hH hNF (σ 0) s1 v last hs hI hst hp0 hc0 hev hl hb⟩
  | succ t ih =>
    intro h
    obtain ⟨e, vl, lastl, hP⟩ := ih (by omega)
    obtain ⟨⟨r1, v', hP'⟩, _⟩ :=
      passStep_next P env read j rest hR hS hNF hG _ e _ vl lastl hP _ (hstep (t + 1) h)
    exact ⟨_, _, _, hP'⟩

/-- **the chain.**  Every provisional value of pass `t` is below the provisional value of the
    same head in pass `t+1` (in particular every head of pass `t` is still a head in pass
    `t+1`). -/
theorem loop_chain (hR : ReadSpec P env read) (hH : ReadRH P env read)
    (hS : ReadSim P env read) (hNF : NoFallback P) (hG : P.NoGate) (σ : Nat → St) (T : Nat)
    (hσ : PassSeq P env read j rest σ T) :
    ∀ t, t < T → ∀ c w, (σ t).prov.lookup c = some w →
      ∃ w', (σ (t + 1)).prov.lookup c = some w' ∧ le w w' := by
  intro t ht c w hw
  cases t with
  | zero => rw [hσ.prov0] at hw; cases hw
  | succ t =>
    obtain ⟨e, vl, lastl, hP⟩ := loop_prev P env read j rest hR hH hS hNF hG σ T hσ t (by omega)
    exact (passStep_next P env read j rest hR hS hNF hG _ e _ vl lastl hP _
      (hσ.step (t + 1) ht)).2 c w hw

/-- **after the first pass no pass fails.**  The body of pass `t+1` evaluates successfully,
    creates no cycle head, and its value is above the value of pass `t`. -/
theorem loop_pass_total (hR : ReadSpec P env read) (hH : ReadRH P env read)
    (hS : ReadSim P env read) (hNF : NoFallback P) (hG : P.NoGate) (σ : Nat → St) (T : Nat)
    (hσ : PassSeq P env read j rest σ T) (t : Nat) (ht : t < T) :
    ∃ v hs s1 v' hs' s1', evalM env read (P.node j).body (σ t) = .ok (v, hs, s1) ∧
      evalM env read (P.node j).body (σ (t + 1)) = .ok (v', hs', s1') ∧
      s1'.prov = (σ (t + 1)).prov ∧ le v v' ∧
      (∀ c w, cval s1 c = some w → ∃ w', cval s1' c = some w' ∧ le w w') ∧
      (∀ c, cval s1 c = none → cval s1' c = none) := by
  obtain ⟨e, vl, lastl, hP⟩ := loop_prev P env read j rest hR hH hS hNF hG σ T hσ t ht
  obtain ⟨v', r1, hN⟩ := pass_next P env read j rest hR hS hNF hG _ e _ vl lastl hP
  obtain ⟨hsl, hevl⟩ := hP.run
  obtain ⟨hs', hevr⟩ := hN.run
  obtain ⟨_, hste, _, _⟩ := evalM_spec P env hR _ _ vl hsl e hP.invL hevl
  have hje : cval e j = none := by
    have hjm : j ∈ e.stack := by rw [hste, hP.stL]; exact List.mem_cons_self
    exact cval_none_iff.mpr (hP.invE.stackFresh j hjm).1
  have hjr : cval r1 j = none := by
    have hjm : j ∈ r1.stack := by rw [hN.st1]; exact List.mem_cons_self
    exact cval_none_iff.mpr (hN.inv1.stackFresh j hjm).1
  refine ⟨vl, hsl, e, v', hs', r1, hevl, hevr, hN.provSame, hN.valLe, ?_, ?_⟩
  · intro c w hw
    have hcj : c ≠ j := by intro h; subst h; rw [hje] at hw; cases hw
    have := hN.valsLe c w (by rw [cv1_ne e j _ hcj]; exact hw)
    rw [cv1_ne r1 j _ hcj] at this
    exact this
  · intro c hc
    by_cases hcj : c = j
    · subst hcj; exact hjr
    · have := hN.valsNone c (by rw [cv1_ne e j _ hcj]; exact hc)
      rw [cv1_ne r1 j _ hcj] at this
      exact this

end

/-! ## no request ends in `tooManyIterations` -/

def NoTM {α : Type} (r : Res α) : Prop := ∀ err, r = .error err → err.cls ≠ .tooManyIterations

section
variable (P : Prog) (env : Nat → Nat)

def ReadNoTM (read : Nat → St → Res Fetched) : Prop := ∀ c s, Inv P env s → NoTM (read c s)

def ExecNoTM (exec : Nat → St → Res Fetched) : Prop :=
  ∀ j s, Inv P env s → j ∉ s.stack → s.final.lookup j = none → s.cache.lookup j = none →
    NoTM (exec j s)

theorem evalM_noTM {read : Nat → St → Res Fetched} (hR : ReadSpec P env read)
    (hT : ReadNoTM P env read) :
    ∀ (ex : Expr) (s : St), Inv P env s → NoTM (evalM env read ex s) := by
  intro ex
  induction ex with
  | const c => intro s _ err h; simp [evalM] at h
  | input i => intro s _ err h; simp [evalM] at h
  | call k =>
    intro s hI err h
    simp only [evalM] at h
    cases hr : read k s with
    | error e' => rw [hr] at h; injection h with h; subst h; exact hT k s hI _ hr
    | ok res => obtain ⟨w, hs1, s1⟩ := res; rw [hr] at h; cases h
  | union a b iha ihb =>
    intro s hI err h
    simp only [evalM] at h
    cases ha : evalM env read a s with
    | error e' => rw [ha] at h; injection h with h; subst h; exact iha s hI _ ha
    | ok res =>
      obtain ⟨x, h1, s1⟩ := res
      rw [ha] at h
      simp only at h
      obtain ⟨hI1, _, _, _⟩ := evalM_spec P env hR a s x h1 s1 hI ha
      cases hb : evalM env read b s1 with
      | error e' => rw [hb] at h; injection h with h; subst h; exact ihb s1 hI1 _ hb
      | ok res2 => obtain ⟨y, h2, s2⟩ := res2; rw [hb] at h; cases h
  | inter a b iha ihb =>
    intro s hI err h
    simp only [evalM] at h
    cases ha : evalM env read a s with
    | error e' => rw [ha] at h; injection h with h; subst h; exact iha s hI _ ha
    | ok res =>
      obtain ⟨x, h1, s1⟩ := res
      rw [ha] at h
      simp only at h
      obtain ⟨hI1, _, _, _⟩ := evalM_spec P env hR a s x h1 s1 hI ha
      cases hb : evalM env read b s1 with
      | error e' => rw [hb] at h; injection h with h; subst h; exact ihb s1 hI1 _ hb
      | ok res2 => obtain ⟨y, h2, s2⟩ := res2; rw [hb] at h; cases h
  | ite i a b iha ihb =>
    intro s hI err h
    simp only [evalM] at h
    split at h
    · exact iha s hI err h
    · exact ihb s hI err h
  | gate g a ihg iha =>
    intro s hI err h
    simp only [evalM] at h
    cases hg : evalM env read g s with
    | error e' => rw [hg] at h; injection h with h; subst h; exact ihg s hI _ hg
    | ok res =>
      obtain ⟨x, h1, s1⟩ := res
      rw [hg] at h
      simp only at h
      obtain ⟨hI1, _, _, _⟩ := evalM_spec P env hR g s x h1 s1 hI hg
      split at h
      · cases ha : evalM env read a s1 with
        | error e' => rw [ha] at h; injection h with h; subst h; exact iha s1 hI1 _ ha
        | ok res2 => obtain ⟨y, h2, s2⟩ := res2; rw [ha] at h; cases h
      · cases h

theorem fetch_noTM {exec : Nat → St → Res Fetched} (hX : ExecNoTM P env exec) :
    ReadNoTM P env (fetch P exec) := by
  intro c s hI err h
  cases hp : s.poisoned.contains c with
  | true =>
    rw [fetch_poisoned P exec c s hp] at h
    injection h with h; subst h
    intro hc; cases hc
  | false =>
    cases hf : s.final.lookup c with
    | some w => rw [fetch_final P exec c s hp hf] at h; cases h
    | none =>
      cases hst : s.stack.contains c with
      | true =>
        rw [fetch_stack P exec c s hp hf hst] at h
        by_cases hstrat : (P.node c).strat = .panic
        · unfold fetchColdCycle at h
          rw [hstrat] at h
          injection h with h; subst h
          intro hc; cases hc
        · cases hl : s.prov.lookup c with
          | some w => rw [fetchColdCycle_some P c s hstrat hl] at h; cases h
          | none => rw [fetchColdCycle_none P c s hstrat hl] at h; cases h
      | false =>
        cases hc : s.cache.lookup c with
        | some en => rw [fetch_cache P exec c s hp hf hst hc] at h; cases h
        | none =>
          rw [fetch_exec P exec c s hp hf hst hc] at h
          exact hX c s hI (by simpa using hst) hf hc err h

theorem execute_noTM (hNF : NoFallback P) (hG : P.NoGate) (hn : 8 * P.n < 200) :
    ∀ d, ExecNoTM P env (execute P env d) := by
  intro d
  induction d with
  | zero =>
    intro j s _ _ _ _ err h
    simp only [execute] at h
    injection h with h; subst h
    intro hc; cases hc
  | succ d ih =>
    intro j s hI hj hf hc err h
    unfold execute at h
    have hXd := execute_spec P env hNF d
    have hR := fetch_spec P env hNF hXd
    have hH := fetch_RH P env (execute_RH P env hNF hG d)
    have hS := fetch_sim P env hNF hXd (execute_RH P env hNF hG d) (execute_sim P env hNF hG d)
    have hIp := inv_push P env hI hj hf hc
    have h' : executeMaybeIterate P env (fetch P (execute P env d)) j (MAX_ITERATIONS + 1)
        (IterationStamp.initial 0) { s with stack := j :: s.stack } = .error err := h
    clear h
    cases hev : evalM env (fetch P (execute P env d)) (P.node j).body
        { s with stack := j :: s.stack } with
    | error e' =>
      rw [emi_body_error P env _ j _ _ _ hev] at h'
      injection h' with h'; subst h'
      exact evalM_noTM P env hR (fetch_noTM P env ih) _ _ hIp _ hev
    | ok res =>
      obtain ⟨v1, hs1, s1⟩ := res
      obtain ⟨hI1, hst1, hE1, hrel⟩ := evalM_spec P env hR _ _ v1 hs1 s1 hIp hev
      cases hl : s1.prov.lookup j with
      | none =>
        cases hb : belowOf s1 with
        | true => rw [emi_part P env _ j _ _ _ hev hl hb] at h'; cases h'
        | false => rw [emi_final P env _ j _ _ _ hev hl hb] at h'; cases h'
      | some last =>
        cases hb : belowOf s1 with
        | true => rw [emi_nested P env _ j _ _ _ hev hl hb] at h'; cases h'
        | false =>
          cases hcv : converged (cache1Of s1 j (cycleFn P j last v1)) s1.prov with
          | true => rw [emi_conv P env _ j _ _ _ hev hl hb hcv] at h'; cases h'
          | false =>
            have hi : IterationStamp.increment_iteration (IterationStamp.initial 0) = some 1 := by
              decide
            rw [emi_iter P env _ j _ _ _ hev hl hb hcv hi] at h'
            have hE : Ext s s1 := ⟨hE1.poisoned, hE1.final, hE1.prov, hE1.cache⟩
            have hno : ¬ HeadOn s := by
              apply not_headOn_of_not_below hE hst1
              unfold belowOf at hb
              rw [hb]; exact fun h => nomatch h
            obtain ⟨hc0, hp0⟩ := hI.empty hno
            have hP := pass_first P env _ j s.stack hR hH hNF _ s1 v1 last hs1 hIp rfl hp0 hc0
              hev hl hb
            have hit : IterationStamp.iteration 1 = 1 := by decide
            obtain ⟨v, hs, s', hok⟩ := loop_ok P env _ j s.stack hR hS hNF hG hn MAX_ITERATIONS 1
              _ _ _ _ _ hP (by decide) (by decide) (by rw [hit]; omega)
            rw [hok] at h'; cases h'

/-- **no `tooManyIterations`.**  A request against a database with correct memos, for a gate-free
    program without fallback nodes whose lattice height `8·n` is below `MAX_ITERATIONS`. -/
theorem eval_noTM (hNF : NoFallback P) (hG : P.NoGate) (hn : 8 * P.n < 200) {final : List (Nat × Nat)}
    (hdb : DbOk P env final) (poisoned : List Nat) (j : Nat) (e : Panic)
    (h : eval P env final poisoned j = .error e) : e.cls ≠ .tooManyIterations := by
  unfold eval at h
  cases hf : fetch P (execute P env (P.n + 1)) j (St.init final poisoned) with
  | ok res => obtain ⟨v, hs, s⟩ := res; rw [hf] at h; cases h
  | error e' =>
    rw [hf] at h
    injection h with h; subst h
    exact fetch_noTM P env (execute_noTM P env hNF hG hn (P.n + 1)) j _
      (inv_init P env hdb poisoned) _ hf

end

end SalsaVerif.Proofs.Cycle
