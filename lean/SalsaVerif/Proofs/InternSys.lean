/-
  Helper lemmas for Props/C07–C09: what one `intern` step does to a shard (`ShardStep`), the
  invariant of reachable interner states (`Inv`) and its preservation.  Core Lean only.
-/
import SalsaVerif.Model.Intern
import SalsaVerif.Proofs.Intern

namespace SalsaVerif.Proofs.Intern
open SalsaVerif.Model.Intern

/-! ### one shard step, characterised -/

/-- Everything later proofs need to know about `internShard … sh = some (sh', o)`. -/
structure ShardStep (rev : Option Nat) (q : RevisionQueue) (cur d : Nat) (inq : Bool)
    (key fresh : Nat) (sh sh' : Shard) (o : Outcome) : Prop where
  inv' : ShardInv rev sh'
  frame : ∀ i, i ≠ o.id → sh'.slot? i = sh.slot? i
  cases :
    (o.kind = .hit ∧ ∃ v, sh.slot? o.id = some v ∧ v.fields = key ∧ o.generation = v.generation ∧
      sh'.slot? o.id = some
        { v with lastInternedAt := if v.lastInternedAt < cur then cur else v.lastInternedAt,
                 durability := if inq then max v.durability d else v.durability }) ∨
    (o.kind = .new ∧ o.id = fresh ∧ o.generation = 0 ∧ sh.keyMap.lookup key = none ∧
      sh'.slot? fresh =
        some ⟨fresh, key, 0, newLastInternedAt cur inq, newDurability d inq, []⟩) ∨
    (o.kind = .reuse ∧ ∃ v, sh.slot? o.id = some v ∧ o.id ∈ sh.lru ∧ q.isPrimed = true ∧
      q.isStale v.lastInternedAt = true ∧ v.generation < GEN_MAX ∧
      o.generation = v.generation + 1 ∧ sh.keyMap.lookup key = none ∧
      sh'.slot? o.id =
        some ⟨o.id, key, v.generation + 1, newLastInternedAt cur inq, newDurability d inq, []⟩)

theorem cold_step {rev : Option Nat} {sh : Shard} (inv : ShardInv rev sh) (q : RevisionQueue)
    (cur d : Nat) (inq : Bool) (key fresh : Nat) (hfresh : sh.slot? fresh = none)
    (hkey : sh.keyMap.lookup key = none) (sh0 : Shard)
    (h0 : ∀ i, sh.slot? i = sh0.slot? i) (hk0 : sh0.keyMap = sh.keyMap) :
    ShardStep rev q cur d inq key fresh sh0
      (internCold rev cur d inq key fresh sh).1 (internCold rev cur d inq key fresh sh).2 := by
  have hs : ∀ i, (internCold rev cur d inq key fresh sh).1.slot? i =
      if i = fresh then some ⟨fresh, key, 0, newLastInternedAt cur inq, newDurability d inq, []⟩
      else sh.slot? i := by
    intro i
    rw [internCold_slot?]
    by_cases h : i = fresh
    · subst h; simp [hfresh]
    · have h' : ¬ fresh = i := fun e => h e.symm
      simp [h, h']
  refine ⟨inv_cold inv cur d inq key fresh hfresh hkey, ?_, Or.inr (Or.inl ?_)⟩
  · intro i hi
    have hi' : i ≠ fresh := hi
    rw [hs, if_neg hi', h0]
  · refine ⟨rfl, rfl, rfl, hk0 ▸ hkey, ?_⟩
    rw [hs, if_pos rfl]

theorem internShard_step {rev : Option Nat} {sh : Shard} (inv : ShardInv rev sh)
    (q : RevisionQueue) (cur d : Nat) (inq : Bool) (key fresh : Nat)
    (hfresh : sh.slot? fresh = none) :
    ∃ sh' o, internShard rev q cur d inq key fresh sh = some (sh', o) ∧
      ShardStep rev q cur d inq key fresh sh sh' o := by
  unfold internShard
  cases hk : sh.keyMap.lookup key with
  | some id =>
    simp only
    obtain ⟨v, hv, hvf⟩ := (inv.key_iff key id).mp (lookup_some_mem hk)
    rw [hv]
    simp only
    have hid := slot?_id hv
    subst hid
    refine ⟨(internHit rev cur d inq sh v).1, (internHit rev cur d inq sh v).2, rfl,
      inv_hit inv cur d inq v hv, ?_, Or.inl ⟨rfl, v, hv, hvf, rfl, ?_⟩⟩
    · intro i hi
      have hi' : i ≠ v.id := hi
      rw [internHit_slot? rev cur d inq sh v hv, if_neg hi']
    · show (internHit rev cur d inq sh v).1.slot? v.id = _
      rw [internHit_slot? rev cur d inq sh v hv, if_pos rfl]
  | none =>
    simp only
    by_cases hp : (!q.isPrimed) = true
    · rw [if_pos hp]
      exact ⟨_, _, rfl, cold_step inv q cur d inq key fresh hfresh hk sh (fun _ => rfl) rfl⟩
    · rw [if_neg hp]
      have hp' : q.isPrimed = true := by simpa using hp
      obtain ⟨⟨r, o⟩, hsc⟩ := scan_some q sh sh.lru.reverse (by
        intro i hi
        obtain ⟨w, hw, _⟩ := inv.lru_reusable i (List.mem_reverse.mp hi)
        exact ⟨w, hw⟩)
      rw [hsc]
      obtain ⟨inv1, hsub⟩ := inv_scan inv q r o hsc
      obtain ⟨_, hsome, _⟩ := scan_spec q sh _ r o hsc
      cases o with
      | none =>
        simp only
        exact ⟨_, _, rfl, cold_step inv1 q cur d inq key fresh hfresh hk sh (fun _ => rfl) rfl⟩
      | some v =>
        simp only
        obtain ⟨hv, hst, hg, rest, hr⟩ := hsome v rfl
        have hv1 : ({ sh with lru := r.reverse } : Shard).slot? v.id = some v := hv
        have hmem : v.id ∈ sh.lru := hsub _ (by rw [hr]; simp)
        rw [internReuse_some inv1 cur d inq key v hv1]
        have hs : ∀ i, (⟨(({ sh with lru := r.reverse } : Shard).setSlot ⟨v.id, key,
              v.generation + 1, newLastInternedAt cur inq, newDurability d inq, []⟩).slots,
            (key, v.id) :: ({ sh with lru := r.reverse } : Shard).keyMap.erase (v.fields, v.id),
            if isReusable rev (newDurability d inq) then
              v.id :: ({ sh with lru := r.reverse } : Shard).lru.erase v.id
            else ({ sh with lru := r.reverse } : Shard).lru.erase v.id⟩ : Shard).slot? i =
            if i = v.id then some ⟨v.id, key, v.generation + 1, newLastInternedAt cur inq,
              newDurability d inq, []⟩ else sh.slot? i := by
          intro i
          have := slot?_setSlot sh ⟨v.id, key, v.generation + 1, newLastInternedAt cur inq,
            newDurability d inq, []⟩ i
          simp only at this
          show (sh.setSlot _).slot? i = _
          rw [this]
          by_cases hi : i = v.id
          · subst hi; simp [hv]
          · simp [hi]
        refine ⟨_, _, rfl, ?_, ?_, Or.inr (Or.inr ⟨rfl, v, hv, hmem, hp', hst, hg, rfl, hk, ?_⟩)⟩
        · exact inv_reuse inv1 cur d inq key v hv1 hk _ (internReuse_some inv1 cur d inq key v hv1)
        · intro i hi
          have hi' : i ≠ v.id := hi
          rw [hs, if_neg hi']
        · rw [hs]; simp

/-! ### record -/

theorem record_some {q : RevisionQueue} (h : q.revisions ≠ []) (r : Nat) :
    ∃ q', q.record r = some q' ∧ q'.revisions ≠ [] ∧
      (∀ x ∈ q'.revisions, x ∈ q.revisions ∨ x = r) ∧
      (∀ x, q'.revisions.head? = some x → r ≤ x) := by
  unfold RevisionQueue.record
  cases hq : q.revisions with
  | nil => exact absurd hq h
  | cons a t =>
    simp only
    by_cases hge : a ≥ r
    · rw [if_pos hge]
      refine ⟨q, rfl, h, fun x hx => Or.inl (hq ▸ hx), ?_⟩
      intro x hx
      rw [hq] at hx
      simp at hx
      omega
    · rw [if_neg hge]
      refine ⟨_, rfl, by simp, ?_, ?_⟩
      · intro x hx
        rcases List.mem_cons.mp hx with e | e
        · exact Or.inr e
        · exact Or.inl (List.dropLast_subset _ e)
      · intro x hx
        simp at hx
        omega

theorem recordIfMortal_some {rev : Option Nat} {q : RevisionQueue}
    (h : rev.isSome = true → q.revisions ≠ []) (r : Nat) :
    ∃ q', recordIfMortal rev q r = some q' ∧ (rev.isSome = true → q'.revisions ≠ []) ∧
      (∀ x ∈ q'.revisions, x ∈ q.revisions ∨ x = r) := by
  unfold recordIfMortal
  by_cases hr : rev.isSome = true
  · rw [if_pos hr]
    obtain ⟨q', h1, h2, h3, _⟩ := record_some (h hr) r
    exact ⟨q', h1, fun _ => h2, h3⟩
  · rw [if_neg hr]
    exact ⟨q, rfl, h, fun x hx => Or.inl hx⟩

/-- A stale revision is older than the oldest queue entry, hence older than every bound of the
    queue entries. -/
theorem stale_lt {q : RevisionQueue} {x c : Nat} (h : q.isStale x = true)
    (hle : ∀ r ∈ q.revisions, r ≤ c) : x < c ∧ ∃ oldest, q.revisions.getLast? = some oldest ∧
      x < oldest ∧ oldest ≠ R1 := by
  unfold RevisionQueue.isStale at h
  cases hl : q.revisions.getLast? with
  | none => rw [hl] at h; simp at h
  | some o =>
    rw [hl] at h
    simp only at h
    by_cases ho : o = R1
    · rw [if_pos ho] at h; cases h
    · rw [if_neg ho] at h
      have hx : x < o := by simpa using h
      have := hle o (List.mem_of_getLast? hl)
      exact ⟨by omega, o, rfl, hx, ho⟩

/-! ### the invariant of reachable states -/

structure Inv (s : Sys) : Prop where
  shard : ShardInv s.it.revisions s.it.shard
  fresh : ∀ i v, s.it.shard.slot? i = some v → i < s.it.nextId
  qne : s.it.revisions.isSome = true → s.it.queue.revisions ≠ []
  qle : ∀ r ∈ s.it.queue.revisions, r ≤ s.cur

theorem inv_init (rev : Option Nat) (h : rev ≠ some 0) : Inv (Sys.init rev) := by
  refine ⟨inv_empty rev, ?_, ?_, ?_⟩
  · intro i v hv; simp [Sys.init, Interner.new, Shard.empty, Shard.slot?] at hv
  · intro hs
    cases rev with
    | none => cases hs
    | some n =>
      have : n ≠ 0 := fun e => h (by rw [e])
      obtain ⟨k, rfl⟩ : ∃ k, n = k + 1 := ⟨n - 1, by omega⟩
      simp [Sys.init, Interner.new, RevisionQueue.new, List.replicate_succ]
  · intro r hr
    cases rev with
    | none => simp [Sys.init, Interner.new, RevisionQueue.new] at hr
    | some n =>
      simp only [Sys.init, Interner.new, RevisionQueue.new, List.mem_replicate] at hr
      rw [hr.2]; exact Nat.le_refl _

/-- Full description of an `intern` step on a state satisfying the invariant. -/
theorem intern_step {s : Sys} (inv : Inv s) (d : Nat) (inq : Bool) (x : Nat) :
    ∃ q' sh' o,
      recordIfMortal s.it.revisions s.it.queue s.cur = some q' ∧
      s.it.intern s.cur d inq x =
        some ({ s.it with queue := q', shard := sh',
                          nextId := if o.kind = .new then s.it.nextId + 1 else s.it.nextId }, o) ∧
      ShardStep s.it.revisions q' s.cur d inq x s.it.nextId s.it.shard sh' o ∧
      (s.it.revisions.isSome = true → q'.revisions ≠ []) ∧
      (∀ r ∈ q'.revisions, r ≤ s.cur) := by
  obtain ⟨q', hq, hne, hmem⟩ := recordIfMortal_some inv.qne s.cur
  have hfresh : s.it.shard.slot? s.it.nextId = none := by
    cases h : s.it.shard.slot? s.it.nextId with
    | none => rfl
    | some v => exact absurd (inv.fresh _ v h) (Nat.lt_irrefl _)
  obtain ⟨sh', o, hstep, hs⟩ :=
    internShard_step inv.shard q' s.cur d inq x s.it.nextId hfresh
  refine ⟨q', sh', o, hq, ?_, hs, hne, ?_⟩
  · unfold Interner.intern
    rw [hq]
    simp only
    rw [hstep]
  · intro r hr
    rcases hmem r hr with h | h
    · exact inv.qle r h
    · omega

theorem inv_intern {s : Sys} (inv : Inv s) (d : Nat) (inq : Bool) (x : Nat) (it' : Interner)
    (o : Outcome) (h : s.it.intern s.cur d inq x = some (it', o)) : Inv { s with it := it' } := by
  obtain ⟨q', sh', o', _, hi, hs, hne, hle⟩ := intern_step inv d inq x
  rw [hi] at h
  injection h with h
  injection h with h1 h2
  subst h1
  subst h2
  refine ⟨hs.inv', ?_, hne, hle⟩
  intro i v hv
  have hv' : sh'.slot? i = some v := hv
  show i < (if o'.kind = .new then s.it.nextId + 1 else s.it.nextId)
  by_cases hio : i = o'.id
  · rcases hs.cases with ⟨hk, w, hw, _⟩ | ⟨hk, hid, _⟩ | ⟨hk, w, hw, _⟩
    · have := inv.fresh _ w (hio ▸ hw)
      split <;> omega
    · rw [if_pos hk]; omega
    · have := inv.fresh _ w (hio ▸ hw)
      split <;> omega
  · rw [hs.frame i hio] at hv'
    have := inv.fresh i v hv'
    split <;> omega

theorem mca_step {s : Sys} (inv : Inv s) (id g : Nat) (it' : Interner) (c : Bool)
    (h : s.it.maybeChangedAfter id g s.cur = some (it', c)) :
    ∃ q' v, recordIfMortal s.it.revisions s.it.queue s.cur = some q' ∧
      s.it.shard.slot? id = some v ∧ c = decide (v.generation > g) ∧
      it' = (if v.generation > g then { s.it with queue := q' }
             else { s.it with queue := q',
                              shard := s.it.shard.setSlot { v with lastInternedAt := s.cur } }) ∧
      (s.it.revisions.isSome = true → q'.revisions ≠ []) ∧
      (∀ r ∈ q'.revisions, r ≤ s.cur) := by
  obtain ⟨q', hq, hne, hmem⟩ := recordIfMortal_some inv.qne s.cur
  unfold Interner.maybeChangedAfter at h
  rw [hq] at h
  simp only at h
  cases hv : s.it.shard.slot? id with
  | none => rw [hv] at h; cases h
  | some v =>
    rw [hv] at h
    simp only at h
    have hle : ∀ r ∈ q'.revisions, r ≤ s.cur := by
      intro r hr
      rcases hmem r hr with h' | h'
      · exact inv.qle r h'
      · omega
    refine ⟨q', v, hq, rfl, ?_, ?_, hne, hle⟩
    · by_cases hg : v.generation > g
      · rw [if_pos hg] at h; injection h with h; injection h with _ h2; simp [hg, ← h2]
      · rw [if_neg hg] at h; injection h with h; injection h with _ h2; simp [hg, ← h2]
    · by_cases hg : v.generation > g
      · rw [if_pos hg] at h ⊢; injection h with h; injection h with h1 _; exact h1.symm
      · rw [if_neg hg] at h ⊢; injection h with h; injection h with h1 _; exact h1.symm

/-- `setSlot` of a slot with unchanged id, fields, durability, generation and memos. -/
theorem inv_touch {rev : Option Nat} {sh : Shard} (inv : ShardInv rev sh) (v w : Slot)
    (hv : sh.slot? v.id = some v) (hid : w.id = v.id) (hf : w.fields = v.fields)
    (hd : w.durability = v.durability) (hg : w.generation = v.generation)
    (hm : ∀ m ∈ w.memos, m = w.generation) : ShardInv rev (sh.setSlot w) := by
  have hv' : sh.slot? w.id = some v := hid ▸ hv
  have := inv_modify inv v w sh.lru hv' hf inv.lru_nodup (fun _ _ => Iff.rfl) ?_ ?_ hm
  · exact this
  · intro hmem
    obtain ⟨u, hu, hr⟩ := inv.lru_reusable _ hmem
    rw [hv'] at hu; injection hu with hu; subst hu
    rw [hd]; exact hr
  · intro hr hgm
    rw [hd] at hr; rw [hg] at hgm
    exact inv.lru_complete _ v hv' hr hgm

theorem slot?_touch {sh : Shard} (v w : Slot) (hv : sh.slot? v.id = some v) (hid : w.id = v.id)
    (i : Nat) : (sh.setSlot w).slot? i = if i = v.id then some w else sh.slot? i := by
  rw [slot?_setSlot, hid]
  by_cases h : i = v.id
  · subst h; simp [hv]
  · simp [h]

theorem inv_step {s s' : Sys} {op : Op} {r : Ret} (inv : Inv s)
    (h : stepSys s op = some (s', r)) : Inv s' := by
  cases op with
  | newRev =>
    simp only [stepSys, Option.some.injEq, Prod.mk.injEq] at h
    obtain ⟨rfl, _⟩ := h
    exact ⟨inv.shard, inv.fresh, inv.qne, fun r hr => Nat.le_succ_of_le (inv.qle r hr)⟩
  | intern d q x =>
    simp only [stepSys] at h
    cases hi : s.it.intern s.cur d q x with
    | none => rw [hi] at h; cases h
    | some p =>
      rw [hi] at h
      simp only [Option.some.injEq, Prod.mk.injEq] at h
      obtain ⟨rfl, _⟩ := h
      exact inv_intern inv d q x p.1 p.2 hi
  | mca id g =>
    simp only [stepSys] at h
    cases hi : s.it.maybeChangedAfter id g s.cur with
    | none => rw [hi] at h; cases h
    | some p =>
      rw [hi] at h
      simp only [Option.some.injEq, Prod.mk.injEq] at h
      obtain ⟨rfl, _⟩ := h
      obtain ⟨q', v, _, hv, _, hit, hne, hle⟩ := mca_step inv id g p.1 p.2 hi
      have hid := slot?_id hv
      subst hid
      by_cases hg : v.generation > g
      · rw [if_pos hg] at hit
        rw [hit]
        exact ⟨inv.shard, inv.fresh, hne, hle⟩
      · rw [if_neg hg] at hit
        rw [hit]
        refine ⟨inv_touch inv.shard v _ hv rfl rfl rfl rfl (inv.shard.memo_gen _ v hv), ?_, hne, hle⟩
        intro i u hu
        have hu' : (s.it.shard.setSlot { v with lastInternedAt := s.cur }).slot? i = some u := hu
        rw [slot?_touch v { v with lastInternedAt := s.cur } hv rfl] at hu'
        by_cases hi' : i = v.id
        · rw [hi']; exact inv.fresh _ v hv
        · rw [if_neg hi'] at hu'; exact inv.fresh i u hu'
  | addMemo id =>
    simp only [stepSys, Interner.addMemo] at h
    cases hv : s.it.shard.slot? id with
    | none => rw [hv] at h; cases h
    | some v =>
      rw [hv] at h
      simp only [Option.some.injEq, Prod.mk.injEq] at h
      obtain ⟨rfl, _⟩ := h
      have hid := slot?_id hv
      subst hid
      refine ⟨inv_touch inv.shard v _ hv rfl rfl rfl rfl ?_, ?_, inv.qne, inv.qle⟩
      · intro m hm
        rcases List.mem_cons.mp hm with e | e
        · exact e
        · exact inv.shard.memo_gen _ v hv m e
      · intro i u hu
        have hu' : (s.it.shard.setSlot { v with memos := v.generation :: v.memos }).slot? i
            = some u := hu
        rw [slot?_touch v { v with memos := v.generation :: v.memos } hv rfl] at hu'
        by_cases hi' : i = v.id
        · rw [hi']; exact inv.fresh _ v hv
        · rw [if_neg hi'] at hu'; exact inv.fresh i u hu'

theorem inv_run {s s' : Sys} {ops : List Op} {log : List Ev} (inv : Inv s)
    (h : runSys s ops = some (s', log)) : Inv s' := by
  induction ops generalizing s log with
  | nil =>
    simp only [runSys, Option.some.injEq, Prod.mk.injEq] at h
    exact h.1 ▸ inv
  | cons op ops ih =>
    simp only [runSys] at h
    cases hs : stepSys s op with
    | none => rw [hs] at h; cases h
    | some p =>
      rw [hs] at h
      simp only at h
      cases hr : runSys p.1 ops with
      | none => rw [hr] at h; cases h
      | some p' =>
        rw [hr] at h
        simp only [Option.some.injEq, Prod.mk.injEq] at h
        obtain ⟨rfl, _⟩ := h
        exact ih (inv_step inv (by rw [hs])) hr

end SalsaVerif.Proofs.Intern
