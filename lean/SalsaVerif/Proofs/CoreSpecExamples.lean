/-
  CoreSpec: the concrete programs used by the non-vacuity examples of Props/C10.  Core Lean only.
-/
import SalsaVerif.Model.CoreSpec

namespace SalsaVerif.Proofs.CoreSpec
open SalsaVerif.Model.CoreSpec

/-- creator `q0 = + (mk c0 i0 i1 c3) i2`, reader `q1 = sp q0`; body of `spec` = `i3` -/
def esA : List Expr :=
  [.add (.mk 0 (.inp 0) (.inp 1) (.const 3)) (.inp 2), .sp (.qry 0)]
def PA : Prog := progOf esA (.inp 3)
def inpA : Nat → Inp := fun i => if i = 1 then ⟨1, 1, 0⟩ else if i = 3 then ⟨2, 1, 0⟩ else ⟨0, 1, 0⟩

/-- Body-level programs: a creator, a foreign `specify`, a double `specify`, "computed wins" -/
def PB : Prog where
  node q :=
    match q with
    | 0 => .create 0 7 fun h => .ret h                                   -- a creator
    | 1 => .read (.qry 0) fun _ => .specify 0 5 (.ret ⟨0, none⟩)          -- specifies a foreign struct
    | 2 => .create 0 1 fun h => .specify 2 4 (.specify 2 4 (.ret h))      -- specifies twice
    | 3 => .create 0 1 fun h => .read (.spec 3) fun x =>                   -- computes, then specifies
             .specify 3 9 (.read (.spec 3) fun y => .ret ⟨10 * x.n + y.n, h.h⟩)
    | _ => .ret ⟨0, none⟩
  spec _ v := .ret ⟨v + 1, none⟩

def panicOf (r : Except Panic (State × Val)) : Option Panic :=
  match r with
  | .error p => some p
  | .ok _ => none


end SalsaVerif.Proofs.CoreSpec
