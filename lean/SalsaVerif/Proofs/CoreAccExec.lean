/-
  CoreAcc engine (adapted copy of CoreExec.lean): `discardEdges` lemmas, `execute_ok` and small
  facts used by `fetchStep_ok`.  Core Lean only.
-/
import SalsaVerif.Proofs.CoreAccRun

namespace SalsaVerif.Proofs.CoreAcc
open SalsaVerif.Model.CoreAcc

theorem discard_pairs (d : Nat) (a : Bool) (l : List Obs) : obsPairs (discardEdges d a l) = obsPairs l := by
  unfold discardEdges
  split
  · simp [obsPairs, List.map_map, Function.comp_def]
  · rfl

/-- `discard_edges_if_never_change` only drops edges that were not needed: to NEVER_CHANGE
    dependencies without accumulated values -/
theorem discard_readOk {r t} {f : Frame} {l : List Obs} (h : ∀ o, o ∈ l → ReadOk r t f o) :
    ∀ o, o ∈ discardEdges f.dur f.accIn l → ReadOk r t f o := by
  unfold discardEdges
  split
  · rename_i hc
    intro o ho
    simp only [List.mem_map] at ho
    obtain ⟨o0, ho0, he⟩ := ho
    subst he
    obtain ⟨hh, ⟨x, h0, hv, hca, hd, _, hfa⟩, hlt⟩ := h o0 ho0
    refine ⟨hh, ⟨x, h0, hv, hca, hd, ?_, hfa⟩, hlt⟩
    intro _
    exact ⟨by rw [← hc.1]; exact hd, hfa hc.2⟩
  · exact h

theorem execute_ok {P r fe} (hP : Wf P) (hfe : FetchSpec P r fe) (s : State) (old : Option Memo)
    (hI : Inv P s) (hold : s.memos r = old)
    (hstale : ∀ m, s.memos r = some m → m.va ≠ s.cur)
    (hnsok : ∀ o, old = some o → ¬ SOK s o)
    (hback : ∀ o, old = some o → ∃ w d, (w, d) ∈ s.wlog ∧ o.dur ≤ d ∧ o.va < w ∧
        w ≤ (runBody fe (P r) (emit s (.exec r)) frame0).2.1.ca) :
    Inv P (execute fe P s r old).1 ∧ Ext s (execute fe P s r old).1 (r + 1) ∧
    (execute fe P s r old).2.val = sem P s.inp r ∧
    ∃ m, (execute fe P s r old).1.memos r = some m ∧ m.va = s.cur ∧
      m.res = (execute fe P s r old).2 := by
  have hrun := run_ok hfe (P r) (hP r) (emit s (.exec r)) frame0 (inv_emit _ hI) hI.cur1
  generalize hr0 : runBody fe (P r) (emit s (.exec r)) frame0 = r0 at hrun hback
  obtain ⟨k1, k2, k3, _, k5, k5d, _, new, k6, k7, k7a, k8⟩ := hrun
  replace k2 : Ext s r0.1 r := Ext.trans (ext_emit s _ r) k2
  replace k3 : r0.2.2 = evalB (semDep P s.inp) (P r) := k3
  replace k5 : r0.2.1.ca ≤ s.cur := k5
  simp only [frame0, List.nil_append] at k6 k5d k7a
  generalize hobs' : discardEdges r0.2.1.dur r0.2.1.accIn r0.2.1.obs = obs'
  have k8' : ∀ o, o ∈ obs' → ReadOk r r0.1 r0.2.1 o := by
    rw [← hobs', k6]; exact discard_readOk k8
  have k7' : replay (P r) (obsPairs obs') = some r0.2.2 := by
    rw [← hobs', discard_pairs, k6]; exact k7
  have k7a' : replayAcc (P r) (obsPairs obs') = r0.2.1.acc := by
    rw [← hobs', discard_pairs, k6, k7a]
  have hexec : execute fe P s r old =
      (setMemo r0.1 r (newMemo r0.2.2 r0.1.cur (backdateCa old r0.2.2 r0.2.1) r0.2.1.dur obs' r0.2.1.acc r0.2.1.accIn),
       (newMemo r0.2.2 r0.1.cur (backdateCa old r0.2.2 r0.2.1) r0.2.1.dur obs' r0.2.1.acc r0.2.1.accIn).res) := by
    simp only [execute, hr0, hobs']
  rw [hexec]
  generalize hca : backdateCa old r0.2.2 r0.2.1 = ca
  have hmr : r0.1.memos r = old := by rw [k2.above r (Nat.le_refl r)]; exact hold
  -- facts about the stamp
  have hca_le : ca ≤ r0.1.cur := by
    rw [← hca, k2.cur]
    cases old with
    | none => exact k5
    | some o =>
      simp only [backdateCa]
      split
      · have := hI.memo r o hold
        exact Nat.le_trans this.ca_va this.va_cur
      · exact k5
  have hnr : ∀ o, o ∈ obs' → o.dep ≠ .qry r := by
    intro o hm hd
    have := (k8' o hm).below r hd
    omega
  generalize hM : newMemo r0.2.2 r0.1.cur ca r0.2.1.dur obs' r0.2.1.acc r0.2.1.accIn = M
  have hMv : M.value = r0.2.2 := by rw [← hM]; rfl
  have hMva : M.va = r0.1.cur := by rw [← hM]; rfl
  have hMca : M.ca = ca := by rw [← hM]; rfl
  have hMdur : M.dur = r0.2.1.dur := by rw [← hM]; rfl
  have hMdeep : M.deepAt = r0.1.cur := by rw [← hM]; rfl
  have hMobs : M.obs = obs' := by rw [← hM]; rfl
  have hMacc : M.acc = r0.2.1.acc := by rw [← hM]; rfl
  have hMaccIn : M.accIn = r0.2.1.accIn := by rw [← hM]; rfl
  have hok : MemoOk P (setMemo r0.1 r M) r M := by
    refine ⟨by rw [hMca, hMva]; exact hca_le, by rw [hMva]; exact Nat.le_refl _,
      by rw [hMva, k2.cur]; exact hI.cur1, by rw [hMdeep, hMva]; exact Nat.le_refl _, by rw [hMdur]; exact k5d,
      by rw [hMobs, hMv]; exact k7', by rw [hMobs, hMacc]; exact k7a', ?_, ?_, ?_, ?_, ?_, ?_, ?_, ?_, ?_⟩
    · -- i2
      intro o hm x hinfo _
      rw [hMobs] at hm
      rw [depInfo_setMemo_other _ _ _ (hnr o hm)] at hinfo
      obtain ⟨_, ⟨x0, h0, hv0, _, hd0, _⟩, _⟩ := k8' o hm
      rw [h0] at hinfo; cases hinfo
      exact ⟨hv0, by rw [hMdur]; exact hd0⟩
    · -- i3
      intro _ o hm
      rw [hMobs] at hm
      obtain ⟨hh, ⟨x0, h0, _, hc0, _, _⟩, _⟩ := k8' o hm
      refine ⟨?_, ?_⟩
      · intro x hinfo
        rw [depInfo_setMemo_other _ _ _ (hnr o hm)] at hinfo
        rw [h0] at hinfo; cases hinfo
        rw [hMva]
        exact Nat.le_trans hc0 (by rw [k2.cur]; exact k5)
      · rw [sokDep_setMemo_other _ _ _ (hnr o hm)]
        cases hd : o.dep with
        | inp i => trivial
        | qry q' =>
          rw [hd] at hh
          obtain ⟨m2, hm2, hv2⟩ := hh
          exact ⟨m2, hm2, Or.inl hv2⟩
    · -- i4
      left; rw [hMdeep]; simp only [setMemo_lc]; exact k1.lc_le _
    · -- i5
      intro o q' hm hd
      rw [hMobs] at hm
      obtain ⟨hh, _, hlt⟩ := k8' o hm
      rw [hd] at hh
      obtain ⟨m2, hm2, hv2⟩ := hh
      have hne : q' ≠ r := by have := hlt q' hd; omega
      exact ⟨hlt q' hd, m2, by rw [setMemo_other _ _ _ hne]; exact hm2,
        fun _ => by rw [hMdeep, hv2]; exact Nat.le_refl _⟩
    · -- i6
      intro o hm hrec x hinfo
      rw [hMobs] at hm
      rw [depInfo_setMemo_other _ _ _ (hnr o hm)] at hinfo
      obtain ⟨_, ⟨x0, h0, hv0, _, _, h3, _⟩, _⟩ := k8' o hm
      rw [h0] at hinfo; cases hinfo
      exact ⟨hv0, (h3 hrec).1⟩
    · -- g4
      intro w d _ _ h
      rw [hMdeep, hMva] at h
      exact absurd h.1 (Nat.not_lt.mpr h.2)
    · -- i10
      intro o hm x hinfo
      rw [hMobs] at hm
      rw [depInfo_setMemo_other _ _ _ (hnr o hm)] at hinfo
      obtain ⟨_, ⟨x0, h0, _, hc0, _, _⟩, _⟩ := k8' o hm
      rw [h0] at hinfo; cases hinfo
      left; rw [hMva]; exact Nat.le_trans hc0 (by rw [k2.cur]; exact k5)
    · -- a2
      intro _ ha o hm x hinfo
      rw [hMobs] at hm
      rw [depInfo_setMemo_other _ _ _ (hnr o hm)] at hinfo
      obtain ⟨_, ⟨x0, h0, _, _, _, _, hfa⟩, _⟩ := k8' o hm
      rw [h0] at hinfo; cases hinfo
      exact hfa (by rw [← hMaccIn]; exact ha)
    · -- a3
      intro o hm hrec x hinfo
      rw [hMobs] at hm
      rw [depInfo_setMemo_other _ _ _ (hnr o hm)] at hinfo
      obtain ⟨_, ⟨x0, h0, _, _, _, h3, _⟩, _⟩ := k8' o hm
      rw [h0] at hinfo; cases hinfo
      exact (h3 hrec).2
  -- observers
  have hobs : ∀ p mp o, p ≠ r → r0.1.memos p = some mp → o ∈ mp.obs → o.dep = .qry r →
      ObsNeeds r0.1 M mp o := by
    intro p mp o hpr hmp ho hdq
    have ok := k1.memo p mp hmp
    obtain ⟨_, mo, hmo, hdeep⟩ := ok.i5 o r ho hdq
    rw [hmr] at hmo
    subst hmo
    have hinfo : depInfo r0.1 o.dep = some mo.res := by rw [hdq]; simp [depInfo, hmr]
    have mook := k1.memo r mo hmr
    have hns : ¬ SOK r0.1 mo := by
      intro h
      apply hnsok mo rfl
      cases h with
      | inl h => left; rw [h, k2.cur]
      | inr h => right; rw [← k2.lc]; exact h
    by_cases hbd : mo.value = r0.2.2 ∧ mo.dur ≤ r0.2.1.dur
    · -- backdated: value and stamp unchanged
      have hca' : ca = mo.ca := by rw [← hca]; simp only [backdateCa, hbd, and_self, if_true]
      exact hobs_same (q := r) (mo := mo) k1 hmr M (by rw [hMv]; exact hbd.1.symm) (by rw [hMca]; exact hca')
        (by rw [hMdur]; exact hbd.2) (Or.inr hns) p mp o hpr hmp ho hdq
    · -- not backdated
      have hca' : ca = r0.2.1.ca := by rw [← hca]; simp only [backdateCa, hbd, if_false]
      have hnsmp : ¬ SOK r0.1 mp := by
        intro h
        have := (ok.i3 h o ho).2
        rw [hdq] at this
        obtain ⟨m2, hm2, hs2⟩ := this
        rw [hmr] at hm2; cases hm2
        exact hns hs2
      have hrec : o.recd = true := by
        cases hr : o.recd with
        | true => rfl
        | false =>
          have := (ok.i6 o ho hr _ hinfo).2
          exact absurd (sok_of_never k1 this mook.va1) hns
      have hdeep' := hdeep hrec
      obtain ⟨w, d, hw, hd, hlt, hle⟩ := hback mo rfl
      rw [← k2.wlog] at hw
      -- the new stamp exceeds the observer's verification
      have key : ∀ (_ : mo.ca ≤ mp.va), mp.va < w := by
        intro hle2
        have hdur := (ok.i2 o ho _ hinfo hle2).2
        apply Nat.lt_of_not_le
        intro hwle
        exact ok.g4 w d hw (Nat.le_trans hdur hd) ⟨Nat.lt_of_le_of_lt hdeep' hlt, hwle⟩
      have hgt : mp.va < ca := by
        rw [hca']
        by_cases hle2 : mo.ca ≤ mp.va
        · exact Nat.lt_of_lt_of_le (key hle2) hle
        · have h1 : mp.va < mo.ca := Nat.lt_of_not_le hle2
          exact Nat.lt_of_lt_of_le (Nat.lt_of_lt_of_le (Nat.lt_of_lt_of_le h1 mook.ca_va) (Nat.le_of_lt hlt)) hle
      refine ⟨?_, ?_, ?_, ?_, ?_⟩
      · intro h; rw [hMca] at h; exact absurd h (Nat.not_le.mpr hgt)
      · intro h; exact absurd h hnsmp
      · intro h; rw [hrec] at h; cases h
      · right
        rw [hMca]
        by_cases hle2 : mo.ca ≤ mp.va
        · exact ⟨w, d, hw, Nat.le_trans (ok.i2 o ho _ hinfo hle2).2 hd, key hle2, by rw [hca']; exact hle⟩
        · rcases ok.i10 o ho _ hinfo with h | ⟨w2, d2, a, b, c, e⟩
          · exact absurd h hle2
          · refine ⟨w2, d2, a, b, c, ?_⟩
            rw [hca']
            exact Nat.le_trans e (Nat.le_trans mook.ca_va (Nat.le_trans (Nat.le_of_lt hlt) hle))
      · intro h; exact absurd h hnsmp
  have hinv := inv_setMemo (q := r) (m' := M) k1 hok hMva hobs
  refine ⟨hinv, ?_, by rw [← hM]; show r0.2.2 = _; rw [k3, sem_unfold P s.inp hP r], ?_⟩
  · refine ⟨by simp [k2.cur], by simp [k2.lch], by simp [k2.inp], by simp [k2.wlog], ?_, ?_, ?_, ?_, ?_⟩
    · intro q hq
      have hne : q ≠ r := by omega
      rw [setMemo_other _ _ _ hne]; exact k2.above q (by omega)
    · intro q m hm hv
      by_cases hqr : q = r
      · subst hqr; exact absurd hv (hstale m hm)
      · rw [setMemo_other _ _ _ hqr]; exact k2.stable q m hm hv
    · intro q m hm
      by_cases hqr : q = r
      · subst hqr
        have mok := hI.memo q m hm
        refine ⟨_, setMemo_same _ _ _, ?_, ?_⟩
        · rw [hMva, k2.cur]; exact mok.va_cur
        · rw [hMca]
          have hom : old = some m := by rw [← hold]; exact hm
          rw [← hca, hom]
          simp only [backdateCa]
          split
          · exact Nat.le_refl _
          · obtain ⟨w, d, _, _, hlt, hle⟩ := hback m hom
            exact Nat.le_trans mok.ca_va (Nat.le_trans (Nat.le_of_lt hlt) hle)
      · rw [setMemo_other _ _ _ hqr]; exact k2.mono q m hm
    · intro q
      by_cases hqr : q = r
      · subst hqr; exact Or.inr ⟨_, setMemo_same _ _ _, by rw [hMva]; exact k2.cur⟩
      · rw [setMemo_other _ _ _ hqr]; exact k2.touched q
    · intro q m m' hm hm' hv hd
      by_cases hqr : q = r
      · subst hqr
        rw [setMemo_same] at hm'
        have e : m' = M := (Option.some.inj hm').symm
        subst e
        have hom : old = some m := by rw [← hold]; exact hm
        rw [hMv] at hv; rw [hMdur] at hd
        rw [hMca, ← hca, hom]
        simp only [backdateCa]
        rw [if_pos ⟨hv.symm, hd⟩]
      · rw [setMemo_other _ _ _ hqr] at hm'; exact k2.bd q m m' hm hm' hv hd
  · exact ⟨_, setMemo_same _ _ _, by rw [hMva]; exact k2.cur, rfl⟩

theorem depInfo_ca_le {P s d x} (hI : Inv P s) (h : depInfo s d = some x) : x.ca ≤ s.cur := by
  cases d with
  | inp i => simp only [depInfo, Option.some.injEq] at h; subst h; exact hI.inp_le i
  | qry q =>
    cases hm : s.memos q with
    | none => simp [depInfo, hm] at h
    | some m =>
      simp only [depInfo, hm, Option.map, Option.some.injEq] at h
      subst h
      have := hI.memo q m hm
      exact Nat.le_trans this.ca_va this.va_cur

/-- the recorded value of an observation is the current semantic value, provided the dependency
    is stored with that value and passes the shallow test -/
theorem semDep_of_stored {P s d x} (hP : Wf P) (hI : Inv P s) (hi : depInfo s d = some x)
    (hs : sokDep s d) : semDep P s.inp d = x.val := by
  cases d with
  | inp i => simp only [depInfo, Option.some.injEq] at hi; subst hi; rfl
  | qry q =>
    obtain ⟨m, hm, hsok⟩ := hs
    simp only [depInfo, hm, Option.map, Option.some.injEq] at hi
    subst hi
    simp only [semDep]
    exact (fresh_of_sok hP hI q m hm hsok).symm

theorem sokDep_of_hot {s d} (h : hot s d) : sokDep s d := by
  cases d with
  | inp i => trivial
  | qry q => obtain ⟨m, hm, hv⟩ := h; exact ⟨m, hm, Or.inl hv⟩

theorem sokDep_of_never {P s d x} (hI : Inv P s) (hi : depInfo s d = some x) (h3 : 3 ≤ x.dur) : sokDep s d := by
  cases d with
  | inp i => trivial
  | qry q =>
    cases hm : s.memos q with
    | none => simp [depInfo, hm] at hi
    | some m =>
      simp only [depInfo, hm, Option.map, Option.some.injEq] at hi
      subst hi
      exact ⟨m, hm, sok_of_never hI h3 (hI.memo q m hm).va1⟩

theorem depInfo_exists {P s q m o} (hI : Inv P s) (hm : s.memos q = some m) (ho : o ∈ m.obs) :
    ∃ x, depInfo s o.dep = some x := by
  cases hd : o.dep with
  | inp i => exact ⟨_, rfl⟩
  | qry q' =>
    obtain ⟨_, m2, hm2, _⟩ := (hI.memo q m hm).i5 o q' ho hd
    exact ⟨m2.res, by simp [depInfo, hm2]⟩

theorem obs_ne_self {P s q m o} (hI : Inv P s) (hm : s.memos q = some m) (ho : o ∈ m.obs) : o.dep ≠ .qry q := by
  intro hd
  have := ((hI.memo q m hm).i5 o q ho hd).1
  omega

end SalsaVerif.Proofs.CoreAcc
