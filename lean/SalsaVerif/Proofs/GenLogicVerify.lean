/-
  Glue between the GENERATED decision logic (`Gen/Logic*.lean`, regenerated from /repo on every
  run) and the hand-written engine models: how a model state is viewed as the abstract input of a
  generated decision (`…In` builders) and the model steps re-assembled from generated decisions
  (`…G`).  `Props/GenLogic.lean` proves the re-assembled steps equal to the model's own.
  Core Lean only.
-/
import SalsaVerif.Gen.LogicVerify
import SalsaVerif.Model.Core
import SalsaVerif.Model.Core3
import SalsaVerif.Model.CoreAcc
import SalsaVerif.Model.CoreSpec

namespace SalsaVerif.Proofs.GenLogic
open SalsaVerif.Gen.LogicVerify
open SalsaVerif.Model

/-! ## the abstract inputs of the cycle-free, `specify`-free models -/

/-- no cycles (no cycle heads, nothing provisional), no `Assigned` origin -/
def plainBackdateIn (oldDur newDur : Nat) (valueEqual : Bool) (oldCa newCa : Nat) : BackdateIn :=
  { newCycleHeadsEmpty := true, oldMayBeProvisional := false, newDurability := newDur,
    oldDurability := oldDur, oldValueEqual := valueEqual, oldAssigned := false,
    newAssigned := false, oldChangedAt := oldCa, newChangedAt := newCa, currentRevision := 0,
    oldWasCycleParticipant := false }

/-- a final memo of a cycle-free program: `may_be_provisional()` is false, hence
    `validate_may_be_provisional` answers true (`genlogic_validate_final`) -/
def plainMemoIn (va cur : Nat) (lc : Nat → Nat) (dur ca : Nat) (hasValue : Bool) : MemoIn :=
  { verifiedAt := va, currentRevision := cur, lastChangedRevision := lc, durability := dur,
    changedAt := ca, mayBeProvisional := false, validateMayBeProvisional := true,
    hasValue := hasValue, wasCycleParticipant := false }

/-- the abstract input of `CoreSpec.backdate` (`specify`: `Assigned` origins; values carry the
    generation of the struct they point to) -/
def specBackdateIn (o : CoreSpec.Memo) (newAssigned : Bool) (v : CoreSpec.Val) (hg : Option Nat)
    (fca fdur cur : Nat) : BackdateIn :=
  { newCycleHeadsEmpty := true, oldMayBeProvisional := false, newDurability := fdur,
    oldDurability := o.dur, oldValueEqual := decide (o.value = v ∧ o.hgen = hg),
    oldAssigned := o.origin.isSome, newAssigned := newAssigned, oldChangedAt := o.ca,
    newChangedAt := fca, currentRevision := cur, oldWasCycleParticipant := false }

/-! ## Core -/
namespace Core
open SalsaVerif.Model.Core

def memoIn (s : State) (m : Memo) : MemoIn := plainMemoIn m.va s.cur (lc s) m.dur m.ca true

/-- `update_shallow` -/
def updateShallow (s : State) (q : Nat) (m : Memo) (u : Nat) : State :=
  if update_shallow_marks u then markVerified s q m else s

/-- `deep_verify_memo` (origin `Derived`) -/
def deepVerifyG (mc : McaFn) (s : State) (m : Memo) : State × Bool :=
  if deep_is_provisional (memoIn s m) || deep_panic_participant (memoIn s m) true then (s, false)
  else deepEdges mc m.obs s (deep_edge_revision_of (memoIn s m))

/-- `refresh_memo`: `fetch_hot`, else `fetch_cold` (`verify_memo`, `execute`) -/
def fetchStepG (fe : FetchFn) (mc : McaFn) (P : Nat → Body) (s : State) (q : Nat) : State × Res :=
  match s.memos q with
  | none => execute fe P s q none
  | some m =>
    let x := memoIn s m
    let u := shallow_verify_memo x
    if fetch_hot_applies x u then (updateShallow s q m u, ⟨m.value, m.ca, m.dur⟩)
    else if verify_shallow_applies x u then (updateShallow s q m u, ⟨m.value, m.ca, m.dur⟩)
    else
      let r := deepVerifyG mc s m
      if fetch_cold_reuses x r.2 then (markDeepVerified r.1 q m, ⟨m.value, m.ca, m.dur⟩)
      else execute fe P r.1 q (some m)

/-- `maybe_changed_after`: `_hot`, else `_cold` (`verify_memo`, re-execution) -/
def mcaStepG (fe : FetchFn) (mc : McaFn) (P : Nat → Body) (s : State) (q : Nat) (rev : Nat) : State × Bool :=
  match s.memos q with
  | none => (s, true)
  | some m =>
    let x := memoIn s m
    let u := shallow_verify_memo x
    if hot_applies x u then (updateShallow s q m u, hot_changed x rev)
    else if verify_shallow_applies x u then (updateShallow s q m u, cold_verified_changed x rev)
    else
      let r := deepVerifyG mc s m
      if r.2 then (markDeepVerified r.1 q m, cold_verified_changed x rev)
      else if cold_may_reexecute x then
        if cold_evicted x then (r.1, true)
        else
          let e := execute fe P r.1 q (some m)
          (e.1, reexecuted_changed (plainMemoIn e.1.cur e.1.cur (lc e.1) e.2.dur e.2.ca true) rev)
      else (r.1, true)

end Core

/-! ## Core3 (untracked reads, `no_eq`, LRU eviction) -/
namespace Core3
open SalsaVerif.Model.Core3

def memoIn (s : State) (m : Memo) : MemoIn := plainMemoIn m.va s.cur (lc s) m.dur m.ca m.value.isSome

def updateShallow (s : State) (q : Nat) (m : Memo) (u : Nat) : State :=
  if update_shallow_marks u then markVerified s q m else s

/-- `deep_verify_memo`: the generated pre-checks, then the `match self.origin()` of the model -/
def deepVerifyG (mc : McaFn) (s : State) (m : Memo) : State × Bool :=
  if deep_is_provisional (memoIn s m) || deep_panic_participant (memoIn s m) true then (s, false)
  else if m.untracked then (s, false)
  else deepEdges mc m.obs s (deep_edge_revision_of (memoIn s m))

def refreshStepG (fe : FetchFn) (mc : McaFn) (P : Prog) (s : State) (q : Nat) : State × Res :=
  match s.memos q with
  | none => execute fe P s q none
  | some m =>
    match m.value with
    | none => execute fe P s q (some m)      -- `memo.value.as_ref()?`, `old_memo.value.is_some() && …`
    | some v =>
      let x := memoIn s m
      let u := shallow_verify_memo x
      if fetch_hot_applies x u then (updateShallow s q m u, ⟨v, m.ca, m.dur⟩)
      else if verify_shallow_applies x u then (updateShallow s q m u, ⟨v, m.ca, m.dur⟩)
      else
        let r := deepVerifyG mc s m
        if fetch_cold_reuses x r.2 then (markDeepVerified r.1 q m, ⟨v, m.ca, m.dur⟩)
        else execute fe P r.1 q (some m)

def mcaStepG (fe : FetchFn) (mc : McaFn) (P : Prog) (s : State) (q : Nat) (rev : Nat) : State × Bool :=
  match s.memos q with
  | none => (s, true)
  | some m =>
    let x := memoIn s m
    let u := shallow_verify_memo x
    if hot_applies x u then (updateShallow s q m u, hot_changed x rev)
    else if verify_shallow_applies x u then (updateShallow s q m u, cold_verified_changed x rev)
    else
      let r := deepVerifyG mc s m
      if r.2 then (markDeepVerified r.1 q m, cold_verified_changed x rev)
      else if cold_may_reexecute x then
        if cold_evicted x then (r.1, true)
        else
          let e := execute fe P r.1 q (some m)
          (recordUseFor P e.1 q,
           reexecuted_changed (plainMemoIn e.1.cur e.1.cur (lc e.1) e.2.dur e.2.ca true) rev)
      else (r.1, true)

end Core3

end SalsaVerif.Proofs.GenLogic
