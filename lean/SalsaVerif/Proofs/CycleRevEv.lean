/-
  Iteration bound for the revision-aware cycle model: every `WillIterateCycle` event a request
  emits announces an iteration ≤ MAX_ITERATIONS (for ALL programs, `add` and fallback included,
  and all states).  Part 1: the invariant and the functions below the engine.  Core Lean only.
-/
import SalsaVerif.Proofs.CycleRevLe

namespace SalsaVerif.Proofs.CycleRev
open SalsaVerif.Model
open SalsaVerif.Model.CycleRev
open SalsaVerif.Gen.Stamp

/-- every iteration announced so far is within the bound. -/
def EvOK (s : St) : Prop := ∀ q k, Ev.iterate q k ∈ s.evs → k ≤ MAX_ITERATIONS

def GoodE {α : Type} (r : Res (α × St)) : Prop :=
  match r with
  | .ok (_, s) => EvOK s
  | .error p => EvOK p.st

def GoodES (r : Res St) : Prop :=
  match r with
  | .ok s => EvOK s
  | .error p => EvOK p.st

def GoodEC (r : Res Completed) : Prop :=
  match r with
  | .ok (_, _, s) => EvOK s
  | .error p => EvOK p.st

theorem E_of_same {s s' : St} (h : EvOK s) (he : s'.evs = s.evs) : EvOK s' := by
  intro q k hk; rw [he] at hk; exact h q k hk

theorem E_emit {s : St} (h : EvOK s) (e : Ev) (he : ∀ q k, e = .iterate q k → k ≤ MAX_ITERATIONS) :
    EvOK (emit s e) := by
  intro q k hk
  simp only [emit, List.mem_cons] at hk
  rcases hk with hk | hk
  · exact he q k hk.symm
  · exact h q k hk

@[simp] theorem setSync_evs (s : St) (k : Nat) (y : Sync) : (setSync s k y).evs = s.evs := rfl
@[simp] theorem eraseSync_evs (s : St) (k : Nat) : (eraseSync s k).evs = s.evs := rfl
@[simp] theorem pushQuery_evs (s : St) (c : Nat) : (pushQuery s c).evs = s.evs := rfl
@[simp] theorem popQuery_evs (s : St) : (popQuery s).evs = s.evs := rfl
@[simp] theorem setMemo_evs (s : St) (c : Nat) (m : Memo) : (setMemo s c m).evs = s.evs := rfl
@[simp] theorem modMemo_evs (s : St) (c : Nat) (f : Memo → Memo) : (modMemo s c f).evs = s.evs := by
  unfold modMemo; frame_tac
@[simp] theorem modTop_evs (s : St) (f : Frame → Frame) : (modTop s f).evs = s.evs := by
  unfold modTop; frame_tac
@[simp] theorem seedFrame_evs (s : St) (o : Option Memo) : (seedFrame s o).evs = s.evs := by
  unfold seedFrame; frame_tac
@[simp] theorem readInput_evs (s : St) (k : Nat) : (readInput s k).2.evs = s.evs := by
  unfold readInput; simp
@[simp] theorem tryClaim_evs (s : St) (k : Nat) (a : Bool) : (tryClaim s k a).2.evs = s.evs := by
  unfold tryClaim; frame_tac
@[simp] theorem peekClaim_evs (s : St) (k : Nat) : (peekClaim s k).2.evs = s.evs := by
  unfold peekClaim; frame_tac
@[simp] theorem release_evs (s : St) (k : Nat) (y : Sync) : (release s k y).evs = s.evs := by
  unfold release; frame_tac
@[simp] theorem releaseDefault_evs (s : St) (k : Nat) : (releaseDefault s k).evs = s.evs := by
  unfold releaseDefault; frame_tac
@[simp] theorem releaseSelf_evs (s : St) (k : Nat) : (releaseSelf s k).evs = s.evs := by
  unfold releaseSelf; frame_tac
@[simp] theorem poison_evs (s : St) (c : Nat) : (poison c s).evs = s.evs := rfl
@[simp] theorem setIterationCount_evs (s : St) (k it : Nat) : (setIterationCount s k it).evs = s.evs := by
  unfold setIterationCount; simp
@[simp] theorem validateProvisional_evs (s : St) (c : Nat) (m : Memo) :
    (validateProvisional s c m).2.evs = s.evs := by
  unfold validateProvisional; simp only; split <;> simp

theorem dropClaim_evs {s s' : St} {k : Nat} {md : Mode} (h : dropClaim s k md = some s') :
    s'.evs = s.evs := by
  cases md with
  | default => simp [dropClaim] at h; subst h; simp
  | selfOnly => simp [dropClaim] at h; subst h; simp
  | transferTo o =>
    simp only [dropClaim] at h
    unfold transfer at h
    split at h
    · cases h; rfl
    · cases h

theorem E_popQuery {s : St} (h : EvOK s) : EvOK (popQuery s) := E_of_same h rfl
theorem E_releaseDefault {s : St} (h : EvOK s) (c : Nat) : EvOK (releaseDefault s c) :=
  E_of_same h (by simp)
theorem E_poison {s : St} (h : EvOK s) (c : Nat) : EvOK (poison c s) := E_of_same h rfl

theorem E_markAsVerified {s : St} (h : EvOK s) (c : Nat) : EvOK (markAsVerified s c) := by
  unfold markAsVerified
  have h1 : EvOK (emit s (.valid c)) := E_emit h (.valid c) (fun _ _ he => by cases he)
  exact E_of_same h1 (by simp)

theorem E_updateShallow {s : St} (h : EvOK s) (c : Nat) (su : Shallow) : EvOK (updateShallow s c su) := by
  cases su <;> simp only [updateShallow]
  · exact h
  · exact E_markAsVerified h c
  · exact h

theorem E_foldl_final {s : St} (h : EvOK s) (hs : List Head) :
    EvOK (hs.foldl (fun s h => modMemo s h.key (fun m => { m with final := true })) s) := by
  induction hs generalizing s with
  | nil => exact h
  | cons a rest ih => exact ih (E_of_same h (by simp))

theorem E_foldl_setIter {s : St} (h : EvOK s) (hs : List Head) (it : Nat) :
    EvOK (hs.foldl (fun s h => setIterationCount s h.key it) s) := by
  induction hs generalizing s with
  | nil => exact h
  | cons a rest ih => exact ih (E_of_same h (by simp))

theorem goodE_sameIterationHeads (m : Memo) (hs : List Head) {s : St} (h : EvOK s) :
    GoodE (sameIterationHeads m hs s) := by
  induction hs generalizing s with
  | nil => exact h
  | cons a rest ih =>
    unfold sameIterationHeads
    have hp : EvOK (peekClaim s a.key).2 := E_of_same h (by simp)
    generalize peekClaim s a.key = pc at hp
    obtain ⟨pc1, s1⟩ := pc
    simp only
    split
    · exact hp
    · split
      · exact hp
      · split <;> exact hp
      · split
        · exact hp
        · exact ih hp
      · split
        · exact hp
        · exact ih hp

theorem goodE_validateMayBeProvisional {s : St} (h : EvOK s) (c : Nat) (m : Memo) :
    GoodE (validateMayBeProvisional s c m) := by
  unfold validateMayBeProvisional
  split
  · exact h
  · split
    · exact h
    · have hv : EvOK (validateProvisional s c m).2 := E_of_same h (by simp)
      generalize validateProvisional s c m = r at hv
      obtain ⟨ok1, s1⟩ := r
      simp only
      split
      · exact hv
      · unfold validateSameIteration
        split
        · exact hv
        · simp only
          split
          · exact hv
          · exact goodE_sameIterationHeads m _ hv

theorem goodES_reportTrackedRead {s : St} (h : EvOK s) (c : Nat) (m : Memo) :
    GoodES (reportTrackedRead s c m) := by
  unfold reportTrackedRead
  split
  · exact h
  · split
    · exact h
    · exact E_of_same h rfl

theorem E_outerPeek (hs : List Head) {s : St} (h : EvOK s) : EvOK (outerPeek hs s).2 := by
  induction hs generalizing s with
  | nil => exact h
  | cons a rest ih =>
    unfold outerPeek
    have hp : EvOK (peekClaim s a.key).2 := E_of_same h (by simp)
    generalize peekClaim s a.key = pc at hp
    obtain ⟨pc1, s1⟩ := pc
    simp only
    split
    · exact hp
    · exact ih hp

theorem E_outerCycle {s : St} (h : EvOK s) (hs : List Head) (c : Nat) : EvOK (outerCycle s hs c).2 := by
  unfold outerCycle
  split
  · exact h
  · exact E_outerPeek _ h

theorem goodE_onPanic {α : Type} {r : Res (α × St)} (f : St → St)
    (hf : ∀ s, EvOK s → EvOK (f s)) (h : GoodE r) : GoodE (onPanic f r) := by
  cases r with
  | error p => exact hf _ h
  | ok a => exact h

theorem goodEC_onPanic {r : Res Completed} (f : St → St)
    (hf : ∀ s, EvOK s → EvOK (f s)) (h : GoodEC r) : GoodEC (onPanic f r) := by
  cases r with
  | error p => exact hf _ h
  | ok a => exact h

theorem goodES_onPanic {r : Res St} (f : St → St)
    (hf : ∀ s, EvOK s → EvOK (f s)) (h : GoodES r) : GoodES (onPanic f r) := by
  cases r with
  | error p => exact hf _ h
  | ok a => exact h

theorem goodE_evalM (fetch : Nat → St → Res (Nat × St)) (hf : ∀ j s, EvOK s → GoodE (fetch j s)) :
    ∀ (e : Expr) s, EvOK s → GoodE (evalM fetch e s) := by
  intro e
  induction e with
  | const c => intro s h; exact h
  | input k => intro s h; exact E_of_same h (by simp)
  | call j =>
    intro s h
    have := hf j s h
    unfold evalM
    cases hr : fetch j s with
    | error p => rw [hr] at this; exact this
    | ok r => obtain ⟨v, s1⟩ := r; rw [hr] at this; exact this
  | union a b iha ihb =>
    intro s h
    have ha := iha s h
    unfold evalM
    cases hr : evalM fetch a s with
    | error p => rw [hr] at ha; exact ha
    | ok r =>
      obtain ⟨x, s1⟩ := r
      rw [hr] at ha
      have hb := ihb s1 ha
      simp only
      cases hr2 : evalM fetch b s1 with
      | error p => rw [hr2] at hb; exact hb
      | ok r2 => obtain ⟨y, s2⟩ := r2; rw [hr2] at hb; exact hb
  | inter a b iha ihb =>
    intro s h
    have ha := iha s h
    unfold evalM
    cases hr : evalM fetch a s with
    | error p => rw [hr] at ha; exact ha
    | ok r =>
      obtain ⟨x, s1⟩ := r
      rw [hr] at ha
      have hb := ihb s1 ha
      simp only
      cases hr2 : evalM fetch b s1 with
      | error p => rw [hr2] at hb; exact hb
      | ok r2 => obtain ⟨y, s2⟩ := r2; rw [hr2] at hb; exact hb
  | add a b iha ihb =>
    intro s h
    have ha := iha s h
    unfold evalM
    cases hr : evalM fetch a s with
    | error p => rw [hr] at ha; exact ha
    | ok r =>
      obtain ⟨x, s1⟩ := r
      rw [hr] at ha
      have hb := ihb s1 ha
      simp only
      cases hr2 : evalM fetch b s1 with
      | error p => rw [hr2] at hb; exact hb
      | ok r2 => obtain ⟨y, s2⟩ := r2; rw [hr2] at hb; exact hb
  | gate c a ihc iha =>
    intro s h
    have hc := ihc s h
    unfold evalM
    cases hr : evalM fetch c s with
    | error p => rw [hr] at hc; exact hc
    | ok r =>
      obtain ⟨x, s1⟩ := r
      rw [hr] at hc
      simp only
      split
      · exact iha s1 hc
      · exact hc
  | ite k a b iha ihb =>
    intro s h
    unfold evalM
    have hg : EvOK (readInput s k).2 := E_of_same h (by simp)
    generalize readInput s k = r at hg
    obtain ⟨v, s1⟩ := r
    simp only at hg ⊢
    split
    · exact iha s1 hg
    · exact ihb s1 hg

end SalsaVerif.Proofs.CycleRev
