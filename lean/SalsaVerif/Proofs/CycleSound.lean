/-
  Soundness of the engine model for programs without `FallbackImmediate` nodes:
  every finalised value is the least fixpoint (core Lean only).
-/
import SalsaVerif.Proofs.Cycle

namespace SalsaVerif.Proofs.Cycle
open SalsaVerif.Model.Cycle

section
variable (P : Prog) (env : Nat → Nat)

/-- the state after `j` completed as a provisional memo. -/
def stCached (s1 : St) (j v' : Nat) (hs' : List Nat) : St :=
  { s1 with stack := s1.stack.tail, cache := (j, ⟨v', hs'⟩) :: substCache j hs' s1.cache }

/-- the state after `j` completed as a final memo. -/
def stFinal (s1 : St) (j v : Nat) : St :=
  { s1 with stack := s1.stack.tail, final := (j, v) :: s1.final }

theorem below_iff (s : St) :
    s.stack.tail.any (isHead s.prov) = true ↔ ∃ k ∈ s.stack.tail, isHead s.prov k = true := by
  simp [List.any_eq_true]

theorem cval_cons_self (s : St) (j v' : Nat) (hs' : List Nat) :
    cval (stCached s j v' hs') j = some v' := by
  simp [cval, stCached]

theorem cval_cons_subst_ne (s : St) (j v' : Nat) (hs' : List Nat) {c : Nat} (h : c ≠ j) :
    cval (stCached s j v' hs') c = cval s c := by
  unfold cval stCached
  show (((j, (⟨v', hs'⟩ : Entry)) :: substCache j hs' s.cache).lookup c).map (·.val) = _
  rw [lookup_cons_ne _ _ h, lookup_substCache]

/-- a query completes while a head is active below it: it becomes a provisional memo. -/
theorem complete_cached (s1 : St) (j : Nat) (rest : List Nat) (v0 v' : Nat) (hs' : List Nat)
    (hI : Inv P env s1) (hst : s1.stack = j :: rest)
    (hbelow : s1.stack.tail.any (isHead s1.prov) = true)
    (hev : EvalRel env (Avail s1) (P.node j).body v0) (h1 : le v0 v')
    (h2 : le v' (lfp P env j)) :
    Inv P env (stCached s1 j v' hs') ∧ Ext s1 (stCached s1 j v' hs') ∧
    Avail (stCached s1 j v' hs') j v' := by
  have hjm : j ∈ s1.stack := by rw [hst]; exact List.mem_cons_self
  obtain ⟨hjc, hjf⟩ := hI.stackFresh j hjm
  have hnd := hI.nodup
  rw [hst] at hnd
  obtain ⟨hjr, hndr⟩ := List.nodup_cons.mp hnd
  have htail : s1.stack.tail = rest := by rw [hst]; rfl
  have hE : Ext s1 (stCached s1 j v' hs') := by
    refine ⟨rfl, fun _ _ h => h, fun _ _ h => h, ?_⟩
    intro c w hw
    have hcj : c ≠ j := by
      intro e; subst e
      simp [cval, hjc] at hw
    rw [cval_cons_subst_ne s1 j v' hs' hcj]; exact hw
  refine ⟨?_, hE, Or.inr (Or.inr (cval_cons_self s1 j v' hs'))⟩
  refine ⟨?_, ?_, ?_, ?_, hI.finalOk, hI.finalClosed, hI.provLe, ?_, ?_⟩
  · show s1.stack.tail.Nodup
    rw [htail]; exact hndr
  · intro x hx
    have hx' : x ∈ rest := by rw [← htail]; exact hx
    have hxj : x ≠ j := by intro e; subst e; exact hjr hx'
    have hxm : x ∈ s1.stack := by rw [hst]; exact List.mem_cons_of_mem _ hx'
    obtain ⟨hxc, hxf⟩ := hI.stackFresh x hxm
    refine ⟨?_, hxf⟩
    show ((j, (⟨v', hs'⟩ : Entry)) :: substCache j hs' s1.cache).lookup x = none
    rw [lookup_cons_ne _ _ hxj]
    exact (lookup_substCache_none j hs' s1.cache x).mpr hxc
  · intro x hx
    by_cases hxj : x = j
    · subst hxj; exact hjf
    · apply hI.cacheNotFinal x
      intro hn
      apply hx
      show ((j, (⟨v', hs'⟩ : Entry)) :: substCache j hs' s1.cache).lookup x = none
      rw [lookup_cons_ne _ _ hxj]
      exact (lookup_substCache_none j hs' s1.cache x).mpr hn
  · intro hno
    exfalso
    apply hno
    obtain ⟨k, hk, hp⟩ := (below_iff s1).mp hbelow
    exact ⟨k, hk, hp⟩
  · intro c w hw
    by_cases hcj : c = j
    · subst hcj
      rw [cval_cons_self] at hw
      injection hw with hw; subst hw; exact h2
    · rw [cval_cons_subst_ne s1 j v' hs' hcj] at hw
      exact hI.cacheLe c w hw
  · intro x w hw
    by_cases hxj : x = j
    · subst hxj
      rw [cval_cons_self] at hw
      injection hw with hw; subst hw
      exact ⟨v0, EvalRel.mono (fun c w hw => Avail.mono hE hw) hev, h1⟩
    · rw [cval_cons_subst_ne s1 j v' hs' hxj] at hw
      obtain ⟨v0', hv0, hle⟩ := hI.just x w hw
      exact ⟨v0', EvalRel.mono (fun c w hw => Avail.mono hE hw) hv0, hle⟩

/-- a query completes with no head active anywhere: it is final. -/
theorem complete_final (s1 : St) (j : Nat) (rest : List Nat) (v : Nat)
    (hI : Inv P env s1) (hst : s1.stack = j :: rest)
    (hbelow : s1.stack.tail.any (isHead s1.prov) = false)
    (hself : s1.prov.lookup j = none)
    (hev : EvalRel env (Avail s1) (P.node j).body v) :
    Inv P env (stFinal s1 j v) ∧ Ext s1 (stFinal s1 j v) ∧ Avail (stFinal s1 j v) j v := by
  have hjm : j ∈ s1.stack := by rw [hst]; exact List.mem_cons_self
  obtain ⟨hjc, hjf⟩ := hI.stackFresh j hjm
  have hnd := hI.nodup
  rw [hst] at hnd
  obtain ⟨hjr, hndr⟩ := List.nodup_cons.mp hnd
  have htail : s1.stack.tail = rest := by rw [hst]; rfl
  have hno : ¬ HeadOn s1 := by
    intro ⟨k, hk, hp⟩
    rw [hst] at hk
    cases hk with
    | head => simp [isHead, hself] at hp
    | tail _ hk =>
      have : s1.stack.tail.any (isHead s1.prov) = true :=
        (below_iff s1).mpr ⟨k, by rw [htail]; exact hk, hp⟩
      rw [hbelow] at this; cases this
  obtain ⟨hc0, hp0⟩ := hI.empty hno
  have hAv : ∀ c w, Avail s1 c w → s1.final.lookup c = some w := by
    intro c w hw
    rcases hw with hw | hw | hw
    · exact hw
    · rw [hp0] at hw; cases hw
    · simp [cval, hc0] at hw
  have hE : Ext s1 (stFinal s1 j v) := by
    refine ⟨rfl, ?_, fun _ _ h => h, fun _ _ h => h⟩
    intro c w hw
    have hcj : c ≠ j := by intro e; subst e; rw [hjf] at hw; cases hw
    show ((j, v) :: s1.final).lookup c = some w
    rw [lookup_cons_ne _ _ hcj]; exact hw
  have hv : v = lfp P env j := by
    rw [← lfp_step]
    exact EvalRel.exact (fun c w hw => hI.finalOk c w (hAv c w hw)) hev
  refine ⟨?_, hE, Or.inl (lookup_cons_self _ _ _)⟩
  refine ⟨?_, ?_, ?_, ?_, ?_, ?_, ?_, ?_, ?_⟩
  · show s1.stack.tail.Nodup
    rw [htail]; exact hndr
  · intro x hx
    have hx' : x ∈ rest := by rw [← htail]; exact hx
    have hxj : x ≠ j := by intro e; subst e; exact hjr hx'
    have hxm : x ∈ s1.stack := by rw [hst]; exact List.mem_cons_of_mem _ hx'
    obtain ⟨hxc, hxf⟩ := hI.stackFresh x hxm
    refine ⟨hxc, ?_⟩
    show ((j, v) :: s1.final).lookup x = none
    rw [lookup_cons_ne _ _ hxj]; exact hxf
  · intro x hx
    exfalso; apply hx
    show s1.cache.lookup x = none
    rw [hc0]; rfl
  · intro _; exact ⟨hc0, hp0⟩
  · intro c w hw
    have hw' : ((j, v) :: s1.final).lookup c = some w := hw
    by_cases hcj : c = j
    · subst hcj
      rw [lookup_cons_self] at hw'
      injection hw' with hw'; subst hw'; exact hv
    · rw [lookup_cons_ne _ _ hcj] at hw'
      exact hI.finalOk c w hw'
  · intro x w hw c hc
    have hw' : ((j, v) :: s1.final).lookup x = some w := hw
    show (((j, v) :: s1.final).lookup c).isSome = true
    have old : (s1.final.lookup c).isSome = true := by
      by_cases hxj : x = j
      · subst hxj
        obtain ⟨w', hw'⟩ := EvalRel.answered_exact (ρ := lfp P env)
          (fun c w hw => hI.finalOk c w (hAv c w hw)) hev c hc
        rw [hAv c w' hw']; rfl
      · rw [lookup_cons_ne _ _ hxj] at hw'
        exact hI.finalClosed x w hw' c hc
    by_cases hcj : c = j
    · subst hcj; rw [lookup_cons_self]; rfl
    · rw [lookup_cons_ne _ _ hcj]; exact old
  · intro c w hw
    have hw' : s1.prov.lookup c = some w := hw
    rw [hp0] at hw'; cases hw'
  · intro c w hw
    have hw' : cval s1 c = some w := hw
    simp [cval, hc0] at hw'
  · intro c w hw
    have hw' : cval s1 c = some w := hw
    simp [cval, hc0] at hw'

/-- the memo table of the iteration that just ended, including the head itself. -/
def cache1Of (s1 : St) (j new : Nat) : List (Nat × Entry) := (j, ⟨new, []⟩) :: s1.cache

/-- the state after the outermost head `j` converged. -/
def stConv (s1 : St) (j new : Nat) : St :=
  { s1 with stack := s1.stack.tail, prov := [], cache := [],
            final := (cache1Of s1 j new).map (fun p => (p.1, p.2.val)) ++ s1.final }

/-- the state in which the outermost head `j` starts its next iteration. -/
def stIter (s1 : St) (j new : Nat) : St :=
  { s1 with prov := updateProv (cache1Of s1 j new) s1.prov, cache := [], iters := s1.iters + 1 }

/-- values of the iteration that just ended. -/
def cv1 (s1 : St) (j new : Nat) (c : Nat) : Option Nat :=
  ((cache1Of s1 j new).lookup c).map (·.val)

theorem cv1_self (s1 : St) (j new : Nat) : cv1 s1 j new j = some new := by
  simp [cv1, cache1Of]

theorem cv1_ne (s1 : St) (j new : Nat) {c : Nat} (h : c ≠ j) : cv1 s1 j new c = cval s1 c := by
  unfold cv1 cache1Of cval
  rw [lookup_cons_ne _ _ h]

theorem converged_spec {cache1 : List (Nat × Entry)} {prov : List (Nat × Nat)}
    (h : converged cache1 prov = true) (c w : Nat) (hw : prov.lookup c = some w) :
    (cache1.lookup c).map (·.val) = some w := by
  unfold converged at h
  rw [List.all_eq_true] at h
  have := h (c, w) (lookup_mem hw)
  simp only [beq_iff_eq] at this
  rw [this]; exact hw

theorem stConv_final (s1 : St) (j new c : Nat) :
    (stConv s1 j new).final.lookup c = (cv1 s1 j new c).or (s1.final.lookup c) := by
  show ((cache1Of s1 j new).map (fun p => (p.1, p.2.val)) ++ s1.final).lookup c = _
  rw [lookup_append, lookup_map_val]; rfl

section conv
variable (s1 : St) (j : Nat) (rest : List Nat) (v new : Nat)
  (hI : Inv P env s1) (hst : s1.stack = j :: rest)
  (hev : EvalRel env (Avail s1) (P.node j).body v) (h1 : le v new)
  (h2 : le new (lfp P env j))

include hI hst in
theorem cv1_final_none (c w : Nat) (h : s1.final.lookup c = some w) : cv1 s1 j new c = none := by
  have hjm : j ∈ s1.stack := by rw [hst]; exact List.mem_cons_self
  obtain ⟨_, hjf⟩ := hI.stackFresh j hjm
  have hcj : c ≠ j := by intro e; subst e; rw [hjf] at h; cases h
  rw [cv1_ne s1 j new hcj]
  unfold cval
  cases hl : s1.cache.lookup c with
  | none => rfl
  | some e =>
    have := hI.cacheNotFinal c (by rw [hl]; exact fun h => nomatch h)
    rw [this] at h; cases h

include hI h2 in
theorem cv1_le (c w : Nat) (h : cv1 s1 j new c = some w) : le w (lfp P env c) := by
  by_cases hcj : c = j
  · subst hcj; rw [cv1_self] at h; injection h with h; subst h; exact h2
  · rw [cv1_ne s1 j new hcj] at h; exact hI.cacheLe c w h

include hI hev h1 in
theorem cv1_just (x w : Nat) (h : cv1 s1 j new x = some w) :
    ∃ v0, EvalRel env (Avail s1) (P.node x).body v0 ∧ le v0 w := by
  by_cases hxj : x = j
  · subst hxj; rw [cv1_self] at h; injection h with h; subst h; exact ⟨v, hev, h1⟩
  · rw [cv1_ne s1 j new hxj] at h; exact hI.just x w h

include hI hst in
theorem avail_conv (hconv : converged (cache1Of s1 j new) s1.prov = true) (c w : Nat)
    (h : Avail s1 c w) : (stConv s1 j new).final.lookup c = some w := by
  rw [stConv_final]
  rcases h with h | h | h
  · rw [cv1_final_none P env s1 j rest new hI hst c w h]; exact h
  · have : cv1 s1 j new c = some w := converged_spec hconv c w h
    rw [this]; rfl
  · have hjm : j ∈ s1.stack := by rw [hst]; exact List.mem_cons_self
    obtain ⟨hjc, _⟩ := hI.stackFresh j hjm
    have hcj : c ≠ j := by intro e; subst e; simp [cval, hjc] at h
    rw [cv1_ne s1 j new hcj, h]; rfl

include hI hst hev h1 h2 in
/-- at convergence every value that becomes final is the least fixpoint. -/
theorem conv_final_ok (hconv : converged (cache1Of s1 j new) s1.prov = true) (c w : Nat)
    (h : (stConv s1 j new).final.lookup c = some w) : w = lfp P env c := by
  let F : Nat → Option Nat := fun c => (stConv s1 j new).final.lookup c
  have hF : ∀ c, F c = (cv1 s1 j new c).or (s1.final.lookup c) := stConv_final s1 j new
  have hd := avail_conv P env s1 j rest new hI hst hconv
  -- upper bound
  have hup : ∀ c w, F c = some w → le w (lfp P env c) := by
    intro c w hw
    rw [hF] at hw
    cases hc : cv1 s1 j new c with
    | some w' =>
      rw [hc] at hw
      injection hw with hw; subst hw
      exact cv1_le P env s1 j new hI h2 c w' hc
    | none =>
      rw [hc] at hw
      rw [hI.finalOk c w hw]; exact le_refl _
  -- lower bound by Kleene induction on the closed set of final nodes
  have hlow : ∀ x, (F x).isSome = true → le (lfp P env x) ((F x).getD 0) := by
    apply lfp_le_of_post P env (fun x => (F x).isSome = true) (fun x => (F x).getD 0)
    · intro x hx c hc
      cases hcx : cv1 s1 j new x with
      | some wx =>
        obtain ⟨v0, hv0, _⟩ := cv1_just P env s1 j v new hI hev h1 x wx hcx
        obtain ⟨w', hw'⟩ := EvalRel.answered_exact (ρ := fun x => (F x).getD 0)
          (fun c w hw => by show w = (F c).getD 0; rw [show F c = some w from hd c w hw]; rfl)
          hv0 c hc
        show (F c).isSome = true
        rw [show F c = some w' from hd c w' hw']; rfl
      | none =>
        have hx' := hx
        rw [hF, hcx] at hx'
        cases hfx : s1.final.lookup x with
        | none => rw [hfx] at hx'; cases hx'
        | some wx =>
          have hcl : callees env (lfp P env) (P.node x).body
              = callees env (fun x => (F x).getD 0) (P.node x).body := by
            apply callees_congr
            intro c' hc'
            have := hI.finalClosed x wx hfx c' hc'
            cases hfc : s1.final.lookup c' with
            | none => rw [hfc] at this; cases this
            | some wc =>
              show lfp P env c' = (F c').getD 0
              rw [show F c' = some wc from hd c' wc (Or.inl hfc)]
              exact (hI.finalOk c' wc hfc).symm
          have := hI.finalClosed x wx hfx c (by rw [hcl]; exact hc)
          cases hfc : s1.final.lookup c with
          | none => rw [hfc] at this; cases this
          | some wc =>
            show (F c).isSome = true
            rw [show F c = some wc from hd c wc (Or.inl hfc)]; rfl
    · intro x hx
      cases hcx : cv1 s1 j new x with
      | some wx =>
        obtain ⟨v0, hv0, hle⟩ := cv1_just P env s1 j v new hI hev h1 x wx hcx
        have hFx : F x = some wx := by rw [hF, hcx]; rfl
        show le (evalExpr env (fun x => (F x).getD 0) (P.node x).body) ((F x).getD 0)
        rw [hFx]
        refine le_trans (EvalRel.lower (ρ := fun x => (F x).getD 0) ?_ hv0) hle
        intro c w hw
        show le ((F c).getD 0) w
        rw [show F c = some w from hd c w hw]; exact le_refl _
      | none =>
        have hx' := hx
        rw [hF, hcx] at hx'
        cases hfx : s1.final.lookup x with
        | none => rw [hfx] at hx'; cases hx'
        | some wx =>
          have hFx : F x = some wx := by rw [hF, hcx]; exact hfx
          show le (evalExpr env (fun x => (F x).getD 0) (P.node x).body) ((F x).getD 0)
          rw [hFx]
          have hwx := hI.finalOk x wx hfx
          have : evalExpr env (fun x => (F x).getD 0) (P.node x).body
              = evalExpr env (lfp P env) (P.node x).body := by
            symm
            apply evalExpr_congr
            intro c hc
            have := hI.finalClosed x wx hfx c hc
            cases hfc : s1.final.lookup c with
            | none => rw [hfc] at this; cases this
            | some wc =>
              show lfp P env c = (F c).getD 0
              rw [show F c = some wc from hd c wc (Or.inl hfc)]
              exact (hI.finalOk c wc hfc).symm
          rw [this, lfp_step, hwx]
          exact le_refl _
  have hs : (F c).isSome = true := by show ((stConv s1 j new).final.lookup c).isSome = true; rw [h]; rfl
  have h3 := hlow c hs
  have h4 := hup c w h
  have : (F c).getD 0 = w := by show ((stConv s1 j new).final.lookup c).getD 0 = w; rw [h]; rfl
  rw [this] at h3
  exact le_antisymm h4 h3

include hI hst hev h1 h2 in
/-- the outermost head converged: every memo of the iteration is finalised. -/
theorem complete_converged (hconv : converged (cache1Of s1 j new) s1.prov = true) :
    Inv P env (stConv s1 j new) ∧
    (∀ c w, s1.final.lookup c = some w → (stConv s1 j new).final.lookup c = some w) ∧
    Avail (stConv s1 j new) j new := by
  have hjm : j ∈ s1.stack := by rw [hst]; exact List.mem_cons_self
  obtain ⟨hjc, hjf⟩ := hI.stackFresh j hjm
  have hnd := hI.nodup
  rw [hst] at hnd
  obtain ⟨hjr, hndr⟩ := List.nodup_cons.mp hnd
  have htail : s1.stack.tail = rest := by rw [hst]; rfl
  have hd := avail_conv P env s1 j rest new hI hst hconv
  have hok := conv_final_ok P env s1 j rest v new hI hst hev h1 h2 hconv
  refine ⟨?_, fun c w h => hd c w (Or.inl h), Or.inl ?_⟩
  · refine ⟨?_, ?_, ?_, ?_, hok, ?_, ?_, ?_, ?_⟩
    · show s1.stack.tail.Nodup
      rw [htail]; exact hndr
    · intro x hx
      have hx' : x ∈ rest := by rw [← htail]; exact hx
      have hxj : x ≠ j := by intro e; subst e; exact hjr hx'
      have hxm : x ∈ s1.stack := by rw [hst]; exact List.mem_cons_of_mem _ hx'
      obtain ⟨hxc, hxf⟩ := hI.stackFresh x hxm
      refine ⟨rfl, ?_⟩
      rw [stConv_final, cv1_ne s1 j new hxj]
      simp [cval, hxc, hxf]
    · intro x hx; exact absurd rfl hx
    · intro _; exact ⟨rfl, rfl⟩
    · intro x w hw c hc
      rw [stConv_final] at hw
      cases hcx : cv1 s1 j new x with
      | some wx =>
        obtain ⟨v0, hv0, _⟩ := cv1_just P env s1 j v new hI hev h1 x wx hcx
        obtain ⟨w', hw'⟩ := EvalRel.answered_exact (ρ := lfp P env)
          (fun c w hw => hok c w (hd c w hw)) hv0 c hc
        rw [hd c w' hw']; rfl
      | none =>
        rw [hcx] at hw
        have hw' : s1.final.lookup x = some w := hw
        have := hI.finalClosed x w hw' c hc
        cases hfc : s1.final.lookup c with
        | none => rw [hfc] at this; cases this
        | some wc => rw [hd c wc (Or.inl hfc)]; rfl
    · intro c w hw; cases hw
    · intro c w hw; simp [cval, stConv] at hw
    · intro c w hw; simp [cval, stConv] at hw
  · rw [stConv_final, cv1_self]; rfl

include hI hst h2 in
/-- the outermost head did not converge: the state in which it iterates again is fine. -/
theorem iterate_inv (hself : (s1.prov.lookup j).isSome = true) :
    Inv P env (stIter s1 j new) := by
  have hjm : j ∈ s1.stack := by rw [hst]; exact List.mem_cons_self
  have hmem : ∀ c w, (c, w) ∈ updateProv (cache1Of s1 j new) s1.prov →
      cv1 s1 j new c = some w := by
    intro c w hm
    unfold updateProv at hm
    rw [List.mem_filterMap] at hm
    obtain ⟨p, _, hp⟩ := hm
    cases hl : (cache1Of s1 j new).lookup p.1 with
    | none => rw [hl] at hp; cases hp
    | some e =>
      rw [hl] at hp
      simp only [Option.map_some, Option.some.injEq, Prod.mk.injEq] at hp
      obtain ⟨e1, e2⟩ := hp
      subst e1; subst e2
      simp [cv1, hl]
  refine ⟨hI.nodup, ?_, ?_, ?_, hI.finalOk, hI.finalClosed, ?_, ?_, ?_⟩
  · intro x hx
    exact ⟨rfl, (hI.stackFresh x hx).2⟩
  · intro x hx; exact absurd rfl hx
  · intro hno
    exfalso; apply hno
    refine ⟨j, hjm, ?_⟩
    cases hl : s1.prov.lookup j with
    | none => rw [hl] at hself; cases hself
    | some last =>
      have : (j, new) ∈ updateProv (cache1Of s1 j new) s1.prov := by
        unfold updateProv
        rw [List.mem_filterMap]
        refine ⟨(j, last), lookup_mem hl, ?_⟩
        simp [cache1Of]
      exact lookup_isSome_of_mem this
  · intro c w hw
    have hw' : (updateProv (cache1Of s1 j new) s1.prov).lookup c = some w := hw
    exact cv1_le P env s1 j new hI h2 c w (hmem c w (lookup_mem hw'))
  · intro c w hw; simp [cval, stIter] at hw
  · intro c w hw; simp [cval, stIter] at hw

end conv

theorem isHead_stIter (s1 : St) (j new : Nat) (hself : (s1.prov.lookup j).isSome = true) :
    isHead (stIter s1 j new).prov j = true := by
  cases hl : s1.prov.lookup j with
  | none => rw [hl] at hself; cases hself
  | some last =>
    have : (j, new) ∈ updateProv (cache1Of s1 j new) s1.prov := by
      unfold updateProv
      rw [List.mem_filterMap]
      refine ⟨(j, last), lookup_mem hl, ?_⟩
      simp [cache1Of]
    exact lookup_isSome_of_mem this

theorem not_headOn_of_not_below {s0 s1 : St} {j : Nat} (hE : Ext s0 s1)
    (hst : s1.stack = j :: s0.stack) (hb : ¬ s1.stack.tail.any (isHead s1.prov) = true) :
    ¬ HeadOn s0 := by
  intro ⟨k, hk, hp⟩
  apply hb
  rw [below_iff]
  exact ⟨k, by rw [hst]; exact hk, isHead_mono hE hp⟩

theorem ext_of_empty {s0 s' : St} (hp : s'.poisoned = s0.poisoned)
    (hf : ∀ c w, s0.final.lookup c = some w → s'.final.lookup c = some w)
    (hc : s0.cache = []) (hpr : s0.prov = []) : Ext s0 s' := by
  refine ⟨hp, hf, ?_, ?_⟩
  · intro c w hw; rw [hpr] at hw; cases hw
  · intro c w hw; simp [cval, hc] at hw

/-- the head loop (`execute_maybe_iterate`) preserves the invariant. -/
theorem loop_spec (hNF : NoFallback P) {read : Nat → St → Res Fetched}
    (hR : ReadSpec P env read) (j : Nat) (s0 : St)
    (hs0 : ¬ HeadOn s0 → s0.cache = [] ∧ s0.prov = []) :
    ∀ (fuel stamp : Nat) (s : St) (v : Nat) (hs : List Nat) (s' : St),
      Inv P env s → s.stack = j :: s0.stack → Ext s0 s →
      executeMaybeIterate P env read j fuel stamp s = .ok (v, hs, s') →
      Inv P env s' ∧ s'.stack = s0.stack ∧ Ext s0 s' ∧ Avail s' j v := by
  intro fuel
  induction fuel with
  | zero => intro stamp s v hs s' _ _ _ h; simp [executeMaybeIterate] at h
  | succ fuel ih =>
    intro stamp s v hs s' hI hst hE0 h
    unfold executeMaybeIterate at h
    cases hev : evalM env read (P.node j).body s with
    | error e => rw [hev] at h; cases h
    | ok r =>
      obtain ⟨v1, hs1, s1⟩ := r
      rw [hev] at h
      simp only at h
      obtain ⟨hI1, hst1, hE1, hrel⟩ := evalM_spec P env hR _ s v1 hs1 s1 hI hev
      have hst1' : s1.stack = j :: s0.stack := hst1.trans hst
      have htail : s1.stack.tail = s0.stack := by rw [hst1']; rfl
      have hE01 : Ext s0 s1 := hE0.trans hE1
      have hv1 : le v1 (lfp P env j) := by
        rw [← lfp_step]
        exact EvalRel.upper (fun c w hw => hI1.avail_le P env hw) hrel
      cases hl : s1.prov.lookup j with
      | none =>
        rw [hl] at h
        simp only at h
        split at h
        · rename_i hb
          have hvv : (if (hs1.filter (fun k => k != j)).isEmpty = true then v1
              else participantValue P j v1) = v1 := by
            split
            · rfl
            · exact participantValue_id hNF j v1
          rw [hvv] at h
          injection h with h; injection h with e1 h; injection h with e2 e3
          subst e1; subst e3
          obtain ⟨hI', hE', hA'⟩ := complete_cached P env s1 j s0.stack v1 v1
            (hs1.filter (fun k => k != j)) hI1 hst1' hb hrel (le_refl _) hv1
          exact ⟨hI', htail, hE01.trans hE', hA'⟩
        · rename_i hb
          injection h with h; injection h with e1 h; injection h with e2 e3
          subst e1; subst e3
          have hX : s1.stack.tail.any (isHead s1.prov) = false := by
            cases hx : s1.stack.tail.any (isHead s1.prov) with
            | true => exact absurd hx hb
            | false => rfl
          obtain ⟨hI', hE', hA'⟩ := complete_final P env s1 j s0.stack v1 hI1 hst1' hX hl hrel
          exact ⟨hI', htail, hE01.trans hE', hA'⟩
      | some last =>
        rw [hl] at h
        simp only at h
        have hlast : le last (lfp P env j) := hI1.provLe j last hl
        obtain ⟨hb1, hb2⟩ := cycleFn_bounds hNF j last v1
        have hnew : le (cycleFn P j last v1) (lfp P env j) := hb2 _ hv1 hlast
        split at h
        · rename_i hb
          injection h with h; injection h with e1 h; injection h with e2 e3
          subst e1; subst e3
          obtain ⟨hI', hE', hA'⟩ := complete_cached P env s1 j s0.stack v1 (cycleFn P j last v1)
            (hs1.filter (fun k => k != j)) hI1 hst1' hb hrel hb1 hnew
          exact ⟨hI', htail, hE01.trans hE', hA'⟩
        · rename_i hb
          have hno : ¬ HeadOn s0 := not_headOn_of_not_below hE01 hst1' hb
          obtain ⟨hc0, hp0⟩ := hs0 hno
          split at h
          · rename_i hconv
            injection h with h; injection h with e1 h; injection h with e2 e3
            subst e1; subst e3
            obtain ⟨hI', hF', hA'⟩ := complete_converged P env s1 j s0.stack v1
              (cycleFn P j last v1) hI1 hst1' hrel hb1 hnew hconv
            refine ⟨hI', htail, ?_, hA'⟩
            exact ext_of_empty hE01.poisoned (fun c w hw => hF' c w (hE01.final c w hw)) hc0 hp0
          · rename_i hconv
            cases hinc : SalsaVerif.Gen.Stamp.IterationStamp.increment_iteration stamp with
            | none => rw [hinc] at h; cases h
            | some stamp' =>
              rw [hinc] at h
              simp only at h
              have hI2 : Inv P env (stIter s1 j (cycleFn P j last v1)) :=
                iterate_inv P env s1 j s0.stack (cycleFn P j last v1) hI1 hst1' hnew
                  (by rw [hl]; rfl)
              have hE2 : Ext s0 (stIter s1 j (cycleFn P j last v1)) :=
                ext_of_empty hE01.poisoned (fun c w hw => hE01.final c w hw) hc0 hp0
              exact ih stamp' _ v hs s' hI2 hst1' hE2 h

theorem inv_push {s : St} {j : Nat} (hI : Inv P env s) (hj : j ∉ s.stack)
    (hf : s.final.lookup j = none) (hc : s.cache.lookup j = none) :
    Inv P env { s with stack := j :: s.stack } := by
  refine ⟨List.nodup_cons.mpr ⟨hj, hI.nodup⟩, ?_, hI.cacheNotFinal, ?_, hI.finalOk,
    hI.finalClosed, hI.provLe, hI.cacheLe, hI.just⟩
  · intro x hx
    cases hx with
    | head => exact ⟨hc, hf⟩
    | tail _ hx => exact hI.stackFresh x hx
  · intro hno
    apply hI.empty
    intro ⟨k, hk, hp⟩
    exact hno ⟨k, List.mem_cons_of_mem _ hk, hp⟩

theorem execute_spec (hNF : NoFallback P) : ∀ d, ExecSpec P env (execute P env d) := by
  intro d
  induction d with
  | zero => intro j s v hs s' _ _ _ _ h; simp [execute] at h
  | succ d ih =>
    intro j s v hs s' hI hj hf hc h
    unfold execute at h
    exact loop_spec P env hNF (fetch_spec P env hNF ih) j s hI.empty loopFuel _ _ v hs s'
      (inv_push P env hI hj hf hc) rfl ⟨rfl, fun _ _ h => h, fun _ _ h => h, fun _ _ h => h⟩ h

/-- a database between requests: every memo is the least fixpoint, and the memoised set is
    closed under callees. -/
structure DbOk (final : List (Nat × Nat)) : Prop where
  ok : ∀ c v, final.lookup c = some v → v = lfp P env c
  closed : ∀ x v, final.lookup x = some v →
    ∀ c ∈ callees env (lfp P env) (P.node x).body, (final.lookup c).isSome = true

theorem inv_init {final : List (Nat × Nat)} (h : DbOk P env final) (poisoned : List Nat) :
    Inv P env (St.init final poisoned) := by
  refine ⟨List.nodup_nil, ?_, ?_, ?_, h.ok, h.closed, ?_, ?_, ?_⟩
  · intro x hx; cases hx
  · intro x hx; exact absurd rfl hx
  · intro _; exact ⟨rfl, rfl⟩
  · intro c v hv; cases hv
  · intro c v hv; simp [cval, St.init] at hv
  · intro c v hv; simp [cval, St.init] at hv

/-- soundness of a top-level request. -/
theorem eval_sound (hNF : NoFallback P) {final : List (Nat × Nat)} (hdb : DbOk P env final)
    (poisoned : List Nat) (j v : Nat) (s : St)
    (h : eval P env final poisoned j = .ok (v, s)) :
    v = lfp P env j ∧ s.final.lookup j = some v ∧ DbOk P env s.final ∧
    s.stack = [] ∧ s.prov = [] ∧ s.cache = [] ∧ s.poisoned = poisoned ∧
    (∀ c w, final.lookup c = some w → s.final.lookup c = some w) := by
  unfold eval at h
  cases hf : fetch P (execute P env (P.n + 1)) j (St.init final poisoned) with
  | error e => rw [hf] at h; cases h
  | ok r =>
    obtain ⟨v1, hs1, s1⟩ := r
    rw [hf] at h
    injection h with h; injection h with e1 e2
    subst e1; subst e2
    obtain ⟨hI, hst, hE, hA⟩ :=
      fetch_spec P env hNF (execute_spec P env hNF (P.n + 1)) j _ v1 hs1 s1
        (inv_init P env hdb poisoned) hf
    have hst' : s1.stack = [] := hst
    have hno : ¬ HeadOn s1 := by
      intro ⟨k, hk, _⟩; rw [hst'] at hk; cases hk
    obtain ⟨hc0, hp0⟩ := hI.empty hno
    have hfin : s1.final.lookup j = some v1 := by
      rcases hA with hA | hA | hA
      · exact hA
      · rw [hp0] at hA; cases hA
      · simp [cval, hc0] at hA
    exact ⟨hI.finalOk j v1 hfin, hfin, ⟨hI.finalOk, hI.finalClosed⟩, hst', hp0, hc0,
      hE.poisoned, hE.final⟩

theorem dbOk_nil : DbOk P env [] :=
  ⟨fun _ _ h => (nomatch h), fun _ _ h => (nomatch h)⟩


end

/-- the database after any history of requests in one revision. -/
def gets (P : Prog) (env : Nat → Nat) : Db → List Nat → Db
  | db, [] => db
  | db, j :: js => gets P env (db.get P env j).2 js

theorem dbOk_get (P : Prog) (env : Nat → Nat) (hNF : NoFallback P) (db : Db)
    (hdb : DbOk P env db.final) (j : Nat) : DbOk P env (db.get P env j).2.final := by
  unfold Db.get
  cases he : eval P env db.final db.poisoned j with
  | error e => exact hdb
  | ok r =>
    obtain ⟨v, s⟩ := r
    exact (eval_sound P env hNF hdb db.poisoned j v s he).2.2.1

theorem dbOk_gets (P : Prog) (env : Nat → Nat) (hNF : NoFallback P) (js : List Nat) :
    ∀ db : Db, DbOk P env db.final → DbOk P env (gets P env db js).final := by
  induction js with
  | nil => intro db h; exact h
  | cons j js ih => intro db h; exact ih _ (dbOk_get P env hNF db h j)

end SalsaVerif.Proofs.Cycle
