/-
  CoreSpec, histories with writes: a revision bump (`write`, `synth`) preserves the invariant `Inv`
  (Proofs/CoreSpecRevInv.lean) when nobody is busy, and nobody is busy afterwards; `init`
  establishes it.

  Structure (as Proofs/Core3EvictTop.lean `BumpE` / `bump_inv`): `BumpS s s' b` abstracts what a
  bump of level `b` does to the environment; `bump_inv` proves the invariant once for the abstract
  bump; `write_bump` / `synth_bump` instantiate it.

  The one argument that is not in the template: `ksok` for a read of `field c` / `spec c`.  The
  observer's memo passes the shallow test after the bump, so the level of the write is below its
  durability; the creator's memo must pass it as well, but the durability of the STRUCT says
  nothing about the durability of the creator's memo.  The handle discipline does: the observer
  received the handle `c` from a query read, whose memo received it from ..., down to the creator;
  along that chain durabilities only grow (`handle_dur`).  Core Lean only.
-/
import SalsaVerif.Proofs.CoreSpecRevInv

namespace SalsaVerif.Proofs.CoreSpec
open SalsaVerif.Model.CoreSpec

/-- Abstract "new revision with a change of level `b`": accepted input writes (b = previous
    durability), synthetic writes (b = their durability), rejected NEVER_CHANGE writes and
    synthetic writes of level ≥ 3 (b = 0). -/
structure BumpS (s s' : State) (b : Nat) : Prop where
  b3 : b < 3
  cur : s'.cur = s.cur + 1
  lc : ∀ k, lc s' k = if k ≤ b then s.cur + 1 else lc s k
  memos : s'.memos = s.memos
  slots : s'.slots = s.slots
  smemos : s'.smemos = s.smemos
  panic : s'.panic = s.panic
  wl_old : ∀ e, e ∈ s.wlog → e ∈ s'.wlog
  wl_new : (s.cur + 1, b) ∈ s'.wlog
  wl_inv : ∀ w d, (w, d) ∈ s'.wlog → (w, d) ∈ s.wlog ∨ (w = s.cur + 1 ∧ d ≤ b)
  inp : ∀ j, s'.inp j = s.inp j ∨ ((s'.inp j).ca = s.cur + 1 ∧ (s.inp j).dur ≤ b)
  wl_zero : (s.cur + 1, 0) ∈ s'.wlog

theorem wit_bump {s s' b k lo hi} (h : BumpS s s' b) (w : Wit s k lo hi) : Wit s' k lo hi := by
  obtain ⟨w0, d, a, bb, c, e⟩ := w
  exact ⟨w0, d, h.wl_old _ a, bb, c, e⟩

/-- info of a dependency in the new state vs the old one -/
theorem depInfo_bump {P idOf s s' b} (hb : BumpS s s' b) (hI : Inv P idOf s) (d : Dep) (x : Res)
    (hx : depInfo s' d = some x) :
    depInfo s d = some x ∨
    (x.ca = s.cur + 1 ∧ ∃ x0, depInfo s d = some x0 ∧ x0.dur ≤ b ∧ x0.ca ≤ s.cur) := by
  cases d with
  | qry q => left; simpa [depInfo, hb.memos] using hx
  | field c => left; simpa [depInfo, hb.slots] using hx
  | spec c => left; simpa [depInfo, hb.smemos] using hx
  | inp j =>
    simp only [depInfo, Option.some.injEq] at hx
    rcases hb.inp j with h | h
    · left; rw [h] at hx; simp only [depInfo]; rw [hx]
    · right
      refine ⟨by rw [← hx]; exact h.1, ⟨⟨(s.inp j).val, none⟩, (s.inp j).ca, (s.inp j).dur⟩, rfl, h.2, hI.inp_le j⟩

/-- an old info is still there, or was rewritten (inputs of durability ≤ b only) -/
theorem depInfo_bump_old {s s' b} (hb : BumpS s s' b) (d : Dep) (x : Res)
    (hx : depInfo s d = some x) : depInfo s' d = some x ∨ x.dur ≤ b := by
  cases d with
  | qry q => left; simpa [depInfo, hb.memos] using hx
  | field c => left; simpa [depInfo, hb.slots] using hx
  | spec c => left; simpa [depInfo, hb.smemos] using hx
  | inp j =>
    simp only [depInfo, Option.some.injEq] at hx
    rcases hb.inp j with h | h
    · left; simp only [depInfo]; rw [h, hx]
    · right; rw [← hx]; exact h.2

theorem lc_bump_ge {P idOf s s' b} (hb : BumpS s s' b) (hI : Inv P idOf s) (k : Nat) : lc s k ≤ lc s' k := by
  rw [hb.lc k]; split
  · exact Nat.le_trans (hI.lc_le k) (Nat.le_succ _)
  · exact Nat.le_refl _

/-- a memo that still passes the shallow test was not affected by the bump -/
theorem sok_bump_old {s s' b m} (hb : BumpS s s' b) (hva : m.va ≤ s.cur) (h : SOK s' m) :
    b < m.dur ∧ SOK s m := by
  rcases h with h | h
  · rw [hb.cur] at h; omega
  · rw [hb.lc m.dur] at h
    by_cases hk : m.dur ≤ b
    · simp only [hk, if_true] at h; omega
    · simp only [hk, if_false] at h
      exact ⟨Nat.lt_of_not_le hk, Or.inr h⟩

/-- a memo above the level of the write that passed the shallow test still does -/
theorem sok_bump_new {P idOf s s' b m} (hb : BumpS s s' b) (hI : Inv P idOf s) (hk : b < m.dur)
    (h : SOK s m) : SOK s' m := by
  right
  rw [hb.lc m.dur]
  have : ¬ m.dur ≤ b := by omega
  simp only [this, if_false]
  rcases h with h | h
  · rw [h]; exact hI.lc_le _
  · exact h

/-- the observer clause at level `L` (`ObsAt.iv`, any level) survives the bump -/
theorem iv_bump {P idOf s s' b} (hb : BumpS s s' b) (hI : Inv P idOf s) (L va : Nat) (hva : va ≤ s.cur)
    (d : Dep) (v : Val)
    (old : ∀ x, depInfo s d = some x → (x.val = v ∧ L ≤ x.dur) ∨ Wit s L va x.ca)
    (x : Res) (hx : depInfo s' d = some x) : (x.val = v ∧ L ≤ x.dur) ∨ Wit s' L va x.ca := by
  rcases depInfo_bump hb hI d x hx with h | ⟨h1, x0, h0, hd0, hc0⟩
  · rcases old x h with h2 | h2
    · exact Or.inl h2
    · exact Or.inr (wit_bump hb h2)
  · right
    rcases old x0 h0 with ⟨_, hdur⟩ | h2
    · exact ⟨s.cur + 1, b, hb.wl_new, Nat.le_trans hdur hd0, Nat.lt_succ_of_le hva, by rw [h1]; exact Nat.le_refl _⟩
    · exact (wit_bump hb h2).mono (by rw [h1]; exact Nat.le_succ_of_le hc0)

/-- the observer clause of one read survives the bump, at any level -/
theorem obsAt_bump {P idOf s s' b va L o} (hb : BumpS s s' b) (hI : Inv P idOf s) (h : ObsAt s va L o)
    (hva : va ≤ s.cur) : ObsAt s' va L o := by
  refine ⟨fun x hx => iv_bump hb hI L va hva o.dep o.val h.iv x hx, ?_, ?_⟩
  · intro c mc hd hs hm
    rw [hb.slots] at hs; rw [hb.memos] at hm
    exact wit_bump hb (h.dead c mc hd hs hm)
  · intro c sl hd hs hm
    rw [hb.slots] at hs; rw [hb.smemos] at hm
    exact wit_bump hb (h.deadsm c sl hd hs hm)

/-- the struct clauses of one read survive the bump, at any level (`va ≤ s.cur` is not needed:
    memos are unchanged and the log only grows; kept for symmetry with `obsAt_bump`) -/
theorem structAt_bump {s s' b va L o} (hb : BumpS s s' b) (h : StructAt s va L o)
    (_hva : va ≤ s.cur) : StructAt s' va L o := by
  refine ⟨?_, ?_⟩
  · intro c mc hd hm
    rw [hb.memos] at hm
    exact (h.odur c mc hd hm).imp id (wit_bump hb)
  · intro c mc hd hm
    rw [hb.memos] at hm
    exact (h.hexp c mc hd hm).imp id (wit_bump hb)

theorem preAt_bump {P idOf s s' b va L pre} (hb : BumpS s s' b) (hI : Inv P idOf s) (h : PreAt s va L pre)
    (hva : va ≤ s.cur) : PreAt s' va L pre :=
  fun o ho => ⟨obsAt_bump hb hI (h o ho).1 hva, structAt_bump hb (h o ho).2 hva⟩

/-- `ObsOk` survives the bump -/
theorem obsOk_bump {P idOf s s' b m} (hb : BumpS s s' b) (hI : Inv P idOf s) (ok : ObsOk s m) : ObsOk s' m := by
  have hva_lt : m.va < s.cur + 1 := Nat.lt_succ_of_le ok.va_cur
  refine ⟨ok.ca_va, by rw [hb.cur]; exact Nat.le_succ_of_le ok.va_cur, ok.va1, ok.deep_va, ok.deep1,
    ok.dur3, ?_, ?_, ?_, ?_, ?_, ?_, ?_, ?_⟩
  · -- iv
    intro o ho hout
    exact obsAt_bump hb hI (ok.iv o ho hout) ok.va_cur
  · -- kaca
    intro hs o ho hout
    obtain ⟨hbm, hs0⟩ := sok_bump_old hb ok.va_cur hs
    obtain ⟨x0, h0, hc0⟩ := ok.kaca hs0 o ho hout
    rcases depInfo_bump_old hb o.dep x0 h0 with h | h
    · exact ⟨x0, h, hc0⟩
    · have := (ok.i2 o ho hout x0 h0 (Nat.le_trans hc0 ok.deep_va)).2
      omega
  · -- i4
    rw [hb.lc m.dur]
    by_cases hk : m.dur ≤ b
    · simp only [hk, if_true]; right; exact hva_lt
    · simp only [hk, if_false]; exact ok.i4
  · -- i5q
    intro o q' ho hout hd
    rw [hb.memos]; exact ok.i5q o q' ho hout hd
  · -- i5s
    intro o c sm ho hout hd hr hsm
    rw [hb.smemos] at hsm; exact ok.i5s o c sm ho hout hd hr hsm
  · -- ordw
    intro o c mc ho hout hd hmc w d hw hdur hlt
    rw [hb.memos] at hmc
    rcases hb.wl_inv w d hw with h' | ⟨h1, _⟩
    · exact ok.ordw o c mc ho hout hd hmc w d h' hdur hlt
    · have := ok.deep_va; omega
  · -- i6
    intro o ho hout hr
    exact obsAt_bump hb hI (ok.i6 o ho hout hr) ok.va_cur
  · -- g4
    intro w d hw hd h
    rcases hb.wl_inv w d hw with h' | ⟨h1, _⟩
    · exact ok.g4 w d h' hd h
    · omega

/-! ### handles: along the chain of query reads that carried a handle, durabilities grow -/

/-- a read of `field c` / `spec c` is preceded by a query read whose value carries the handle -/
theorem hd_src (c : Nat) : ∀ (obs : List Obs) (H : Nat → Prop), HdOk H obs → ∀ o, o ∈ obs → o.out = false →
    (o.dep = .field c ∨ o.dep = .spec c) →
    H c ∨ ∃ o' q', o' ∈ obs ∧ o'.out = false ∧ o'.dep = .qry q' ∧ o'.val.h = some c := by
  intro obs
  induction obs with
  | nil => intro H _ o ho; cases ho
  | cons o1 rest ih =>
    intro H hd o ho hout hdep
    have lift : (∃ o' q', o' ∈ rest ∧ o'.out = false ∧ o'.dep = .qry q' ∧ o'.val.h = some c) →
        ∃ o' q', o' ∈ o1 :: rest ∧ o'.out = false ∧ o'.dep = .qry q' ∧ o'.val.h = some c := by
      rintro ⟨o', q', a, r⟩
      exact ⟨o', q', List.mem_cons_of_mem _ a, r⟩
    unfold HdOk at hd
    by_cases h1 : o1.out = true
    · simp only [h1, if_true] at hd
      rcases List.mem_cons.mp ho with h | h
      · subst h; rw [h1] at hout; cases hout
      · rcases ih H hd o h hout hdep with r | r
        · exact Or.inl r
        · exact Or.inr (lift r)
    · have h1f : o1.out = false := by cases h : o1.out <;> simp_all
      simp only [h1] at hd
      cases hd1 : o1.dep with
      | inp j =>
        rw [hd1] at hd
        rcases List.mem_cons.mp ho with h | h
        · subst h; rw [hd1] at hdep; rcases hdep with h | h <;> cases h
        · rcases ih H hd o h hout hdep with r | r
          · exact Or.inl r
          · exact Or.inr (lift r)
      | qry q1 =>
        rw [hd1] at hd
        rcases List.mem_cons.mp ho with h | h
        · subst h; rw [hd1] at hdep; rcases hdep with h | h <;> cases h
        · rcases ih _ hd o h hout hdep with (r | r) | r
          · exact Or.inl r
          · exact Or.inr ⟨o1, q1, List.mem_cons_self, h1f, hd1, r⟩
          · exact Or.inr (lift r)
      | field c1 =>
        rw [hd1] at hd
        rcases List.mem_cons.mp ho with h | h
        · subst h; rw [hd1] at hdep
          rcases hdep with h | h
          · cases h; exact Or.inl hd.1
          · cases h
        · rcases ih H hd.2 o h hout hdep with r | r
          · exact Or.inl r
          · exact Or.inr (lift r)
      | spec c1 =>
        rw [hd1] at hd
        rcases List.mem_cons.mp ho with h | h
        · subst h; rw [hd1] at hdep
          rcases hdep with h | h
          · cases h
          · cases h; exact Or.inl hd.1
        · rcases ih H hd.2 o h hout hdep with r | r
          · exact Or.inl r
          · exact Or.inr (lift r)

/-- a query read of a memo that passes the shallow test: the read memo passes it, has the recorded
    value and at least the reader's durability -/
theorem qry_read_info {P idOf s q m} (hI : Inv P idOf s) (hm : s.memos q = some m) (hs : SOK s m)
    (o : Obs) (q' : Nat) (ho : o ∈ m.obs) (hout : o.out = false) (hd : o.dep = .qry q') :
    q' < q ∧ ∃ m2, s.memos q' = some m2 ∧ SOK s m2 ∧ m2.value = o.val ∧ m.dur ≤ m2.dur := by
  have ok := hI.node q m hm
  have hr := ok.rank o ho hout
  rw [hd] at hr
  have hk := ok.ksok hs o ho hout
  rw [hd] at hk
  obtain ⟨m2, hm2, hs2⟩ := hk
  obtain ⟨x, hx, hc⟩ := ok.obs.kaca hs o ho hout
  have h2 := ok.obs.i2 o ho hout x hx (Nat.le_trans hc ok.obs.deep_va)
  rw [hd] at hx
  simp only [depInfo, hm2, Option.map_some, Option.some.injEq] at hx
  subst hx
  exact ⟨hr, m2, hm2, hs2, h2.1, h2.2⟩

/-- the creator's memo of a handle carried by the value of a memo that passes the shallow test -/
theorem handle_dur {P idOf s} (hI : Inv P idOf s) : ∀ q m, s.memos q = some m → SOK s m → ∀ c, m.value.h = some c →
    ∃ mc, s.memos c = some mc ∧ SOK s mc ∧ m.dur ≤ mc.dur := by
  intro q
  induction q using Nat.strongRecOn with
  | ind q ih =>
    intro m hm hs c hc
    rcases (hI.node q m hm).hsrc c hc with ⟨h, _⟩ | ⟨o, q', ho, hout, hd, hv⟩
    · subst h; exact ⟨m, hm, hs, Nat.le_refl _⟩
    · obtain ⟨hlt, m2, hm2, hs2, hval, hdur⟩ := qry_read_info hI hm hs o q' ho hout hd
      obtain ⟨mc, hmc, hsc, hd2⟩ := ih q' hlt m2 hm2 hs2 c (by rw [hval]; exact hv)
      exact ⟨mc, hmc, hsc, Nat.le_trans hdur hd2⟩

/-- the creator's memo of a struct read by a memo that passes the shallow test -/
theorem read_handle_dur {P idOf s q m} (hI : Inv P idOf s) (hm : s.memos q = some m) (hs : SOK s m)
    (o : Obs) (c : Nat) (ho : o ∈ m.obs) (hout : o.out = false) (hd : o.dep = .field c ∨ o.dep = .spec c) :
    ∃ mc, s.memos c = some mc ∧ SOK s mc ∧ m.dur ≤ mc.dur := by
  rcases hd_src c m.obs _ (hI.node q m hm).hd o ho hout hd with h | ⟨o', q', ho', hout', hd', hv⟩
  · exact h.elim
  · obtain ⟨_, m2, hm2, hs2, hval, hdur⟩ := qry_read_info hI hm hs o' q' ho' hout' hd'
    obtain ⟨mc, hmc, hsc, hd2⟩ := handle_dur hI q' m2 hm2 hs2 c (by rw [hval]; exact hv)
    exact ⟨mc, hmc, hsc, Nat.le_trans hdur hd2⟩

/-! ### the invariant across the abstract bump -/

theorem not_busy_bump {P idOf s s' b} (hb : BumpS s s' b) (hI : Inv P idOf s) (c : Nat) : ¬ Busy s' c := by
  rintro ⟨sl, hsl, hu, _⟩
  rw [hb.slots] at hsl
  have := (hI.slot c sl hsl).2.2.1
  rw [hb.cur] at hu
  omega

/-- `memoSok` of the creator of a struct read by a memo that passes the shallow test after the bump -/
theorem memoSok_bump {P idOf s s' b q m} (hb : BumpS s s' b) (hI : Inv P idOf s) (hm : s.memos q = some m)
    (hbm : b < m.dur) (hs : SOK s m) (o : Obs) (c : Nat) (ho : o ∈ m.obs) (hout : o.out = false)
    (hd : o.dep = .field c ∨ o.dep = .spec c) : memoSok s' c := by
  obtain ⟨mc, hmc, hsc, hdur⟩ := read_handle_dur hI hm hs o c ho hout hd
  exact ⟨mc, by rw [hb.memos]; exact hmc, sok_bump_new hb hI (Nat.lt_of_lt_of_le hbm hdur) hsc⟩

theorem specOk_va {P idOf s c sm} (ok : SpecOk P idOf s c sm) : sm.va ≤ s.cur := by
  cases ho : sm.origin with
  | none => exact (ok.derived ho).1.va_cur
  | some k => exact (ok.assigned k ho).2.2.2.1

/-- the order clause of the `Assigned` memo: the new log entries are after every `verified_at` -/
theorem aOrd_bump {P idOf s s' b q m R} (hb : BumpS s s' b) (hI : Inv P idOf s) (h : AOrd s q m R) :
    AOrd s' q m R := by
  intro w0 hw0 A hA w' d hw hd hlt
  rw [hb.smemos] at hA
  rcases hb.wl_inv w' d hw with h' | ⟨hw', _⟩
  · exact h w0 hw0 A hA w' d h' hd hlt
  · have := specOk_va (hI.smemo q A hA)
    omega

theorem spTie_bump {P idOf s s' b q m sl pre} (hb : BumpS s s' b) (hI : Inv P idOf s) (hva : m.va ≤ s.cur) :
    ∀ sp, SpTie s q m sl pre sp → SpTie s' q m sl pre sp := by
  intro sp h
  cases sp with
  | some w =>
    obtain ⟨A, hA, h1, h2, h3, h4, h5, h6, h7⟩ := h
    exact ⟨A, by rw [hb.smemos]; exact hA, h1, h2, h3, h4, h5, preAt_bump hb hI h6 hva, h7⟩
  | none =>
    obtain ⟨h1, h2⟩ := h
    refine ⟨?_, preAt_bump hb hI h2 hva⟩
    intro A hA ho
    rw [hb.smemos] at hA
    exact wit_bump hb (h1 A hA ho)

theorem tieOk_bump {P idOf s s' b q m R pre} (hb : BumpS s s' b) (hI : Inv P idOf s) (hva : m.va ≤ s.cur)
    (h : TieOk s q m R pre) : TieOk s' q m R pre := by
  unfold TieOk at h ⊢
  cases hts : R.ts with
  | none =>
    rw [hts] at h
    simp only at h ⊢
    rw [hb.slots, hb.smemos]; exact h
  | some kv =>
    obtain ⟨k, v⟩ := kv
    rw [hts] at h
    simp only at h ⊢
    obtain ⟨sl, h1, h2, h3, h4, h5⟩ := h
    exact ⟨sl, by rw [hb.slots]; exact h1, h2, h3, h4, spTie_bump hb hI hva _ h5⟩

theorem nodeOk_bump {P idOf s s' b q m} (hb : BumpS s s' b) (hI : Inv P idOf s) (hnb : ∀ c, ¬ Busy s c)
    (hm : s.memos q = some m) : NodeOk P idOf s' q m := by
  have ok := hI.node q m hm
  refine ⟨obsOk_bump hb hI ok.obs, ok.origin, ?_, ok.rank, ?_, ?_, ok.hd, ?_, ok.hsrc, ok.outedge, ok.never, ?_, ok.shape⟩
  rotate_right
  · -- m4
    rcases ok.m4 with h | ⟨o, ho, hout, h⟩
    · exact Or.inl h
    · refine Or.inr ⟨o, ho, hout, ?_⟩
      intro x hx
      rcases depInfo_bump hb hI o.dep x hx with h' | ⟨hca, _⟩
      · exact h x h'
      · rw [hca]; have := ok.obs.ca_va; have := ok.obs.va_cur; omega
  · -- ksok
    intro hs o ho hout
    obtain ⟨hbm, hs0⟩ := sok_bump_old hb ok.obs.va_cur hs
    have hk := ok.ksok hs0 o ho hout
    obtain ⟨x0, h0, hc0⟩ := ok.obs.kaca hs0 o ho hout
    have hdur := (ok.obs.i2 o ho hout x0 h0 (Nat.le_trans hc0 ok.obs.deep_va)).2
    cases hd : o.dep with
    | inp j => trivial
    | qry q' =>
      rw [hd] at hk h0
      obtain ⟨m2, hm2, hs2⟩ := hk
      simp only [depInfo, hm2, Option.map_some, Option.some.injEq] at h0
      subst h0
      exact ⟨m2, by rw [hb.memos]; exact hm2, sok_bump_new hb hI (Nat.lt_of_lt_of_le hbm hdur) hs2⟩
    | field c =>
      rw [hd] at hk
      exact ⟨memoSok_bump hb hI hm hbm hs0 o c ho hout (Or.inl hd), by rw [hb.slots]; exact hk.2⟩
    | spec c =>
      rw [hd] at hk h0
      obtain ⟨_, sm, hsm, hss⟩ := hk
      simp only [depInfo, hsm, Option.map_some, Option.some.injEq] at h0
      subst h0
      exact ⟨memoSok_bump hb hI hm hbm hs0 o c ho hout (Or.inr hd),
        sm, by rw [hb.smemos]; exact hsm, sok_bump_new hb hI (Nat.lt_of_lt_of_le hbm hdur) hss⟩
  · -- sobs
    intro o ho hout
    exact structAt_bump hb (ok.sobs o ho hout) ok.obs.va_cur
  · -- hmemo
    intro o c ho hout hd
    rw [hb.memos]; exact ok.hmemo o c ho hout hd
  · -- rep
    obtain ⟨R, h1, h2, h3, h4, h5⟩ := ok.rep
    exact ⟨R, h1, h2, h3, h4, fun _ => ⟨tieOk_bump hb hI ok.obs.va_cur (h5 (hnb q)).1,
      aOrd_bump hb hI (h5 (hnb q)).2⟩⟩

theorem specOk_bump {P idOf s s' b c sm} (hb : BumpS s s' b) (hI : Inv P idOf s)
    (ok : SpecOk P idOf s c sm) : SpecOk P idOf s' c sm := by
  refine ⟨?_, ?_, ok.noh, ok.hgen, ok.dshape⟩
  · intro ho
    obtain ⟨h1, h2⟩ := ok.derived ho
    exact ⟨obsOk_bump hb hI h1, h2⟩
  · intro k hk
    obtain ⟨h1, h2, h3, h4, h5, h6⟩ := ok.assigned k hk
    exact ⟨h1, h2, h3, by rw [hb.cur]; exact Nat.le_succ_of_le h4, h5, h6⟩

theorem bump_inv {P idOf s s' b} (hb : BumpS s s' b) (hI : Inv P idOf s) (hnb : ∀ c, ¬ Busy s c) :
    Inv P idOf s' ∧ ∀ c, ¬ Busy s' c := by
  refine ⟨?_, not_busy_bump hb hI⟩
  have hlc_ge := lc_bump_ge hb hI
  refine ⟨by rw [hb.panic]; exact hI.pn, by rw [hb.cur]; exact Nat.le_succ_of_le hI.cur1,
    ?_, ?_, ?_, ?_, ?_, ?_, ?_, ?_, ?_, ?_, ?_, ?_, ?_, ?_, ?_⟩
  · intro d; rw [hb.lc d, hb.cur]; split
    · exact Nat.le_refl _
    · exact Nat.le_trans (hI.lc_le d) (Nat.le_succ _)
  · intro d; exact Nat.le_trans (hI.lc_ge1 d) (hlc_ge d)
  · intro d
    rw [hb.lc (d + 1), hb.lc d]
    by_cases h1 : d + 1 ≤ b
    · have h2 : d ≤ b := by omega
      simp [h1, h2]
    · by_cases h2 : d ≤ b
      · simp only [h1, h2, if_false, if_true]
        exact Nat.le_trans (hI.lc_le _) (Nat.le_succ _)
      · simp only [h1, h2, if_false]; exact hI.lc_anti d
  · intro d hd
    rw [hb.lc d]
    have : ¬ d ≤ b := by have := hb.b3; omega
    simp only [this, if_false]; exact hI.lc_never d hd
  · intro j
    rcases hb.inp j with h | h
    · rw [h, hb.cur]; exact Nat.le_trans (hI.inp_le j) (Nat.le_succ _)
    · rw [h.1, hb.cur]; exact Nat.le_refl _
  · intro j
    rcases hb.inp j with h | h
    · rw [h]; exact hI.inp_ge1 j
    · rw [h.1]; exact Nat.succ_le_succ (Nat.zero_le _)
  · intro w d hw k hk
    rcases hb.wl_inv w d hw with h | ⟨h1, h2⟩
    · exact Nat.le_trans (hI.wlog_lc w d h k hk) (hlc_ge k)
    · rw [hb.lc k, h1]
      have : k ≤ b := Nat.le_trans hk h2
      simp [this]
  · intro w d hw
    rcases hb.wl_inv w d hw with h | ⟨_, h2⟩
    · exact hI.wlog3 w d h
    · exact Nat.lt_of_le_of_lt h2 hb.b3
  · intro w h1 h2
    rw [hb.cur] at h2
    by_cases hw : w = s.cur + 1
    · rw [hw]; exact hb.wl_zero
    · exact hb.wl_old _ (hI.bumps w h1 (by omega))
  · intro q m hm
    rw [hb.memos] at hm
    exact nodeOk_bump hb hI hnb hm
  · intro q hq _
    rw [hb.memos] at hq
    rw [hb.slots, hb.smemos]
    exact hI.nonode q hq (hnb q)
  · intro c sm hsm
    rw [hb.smemos] at hsm
    exact specOk_bump hb hI (hI.smemo c sm hsm)
  · intro c sm hsm
    rw [hb.smemos] at hsm; rw [hb.slots]
    exact hI.smslot c sm hsm
  · intro c sl hsl
    rw [hb.slots] at hsl
    obtain ⟨h1, h2, h3, h4⟩ := hI.slot c sl hsl
    rw [hb.cur]
    exact ⟨Nat.le_succ_of_le h1, h2, Nat.le_succ_of_le h3, h4⟩
  · intro c sm hsm hva
    rw [hb.smemos] at hsm
    have := specOk_va (hI.smemo c sm hsm)
    rw [hb.cur] at hva
    omega

/-! ### `write`, `synth`, `init` -/

theorem write_bump (s : State) (i v : Nat) (nd : Option Nat) : ∃ b, BumpS s (write s i v nd) b := by
  unfold write
  by_cases hd : (s.inp i).dur ≥ 3
  · refine ⟨0, by omega, ?_, ?_, ?_, ?_, ?_, ?_, ?_, ?_, ?_, ?_, ?_⟩
    · simp [hd]
    · intro k
      simp only [hd, if_true, lc]
      by_cases hk : k = 0
      · simp [hk]
      · have : ¬ k ≤ 0 := by omega
        simp [hk, this]
    · simp [hd]
    · simp [hd]
    · simp [hd]
    · simp [hd]
    · intro x he; simp [hd, he]
    · simp [hd]
    · intro w d h'
      simp only [hd, if_true, List.mem_cons] at h'
      rcases h' with h' | h'
      · right; obtain ⟨a, b⟩ := Prod.mk.inj h'; subst a; subst b; exact ⟨rfl, Nat.le_refl _⟩
      · exact Or.inl h'
    · intro j; left; simp [hd]
    · simp [hd]
  · have hlt : (s.inp i).dur < 3 := by omega
    refine ⟨(s.inp i).dur, hlt, ?_, ?_, ?_, ?_, ?_, ?_, ?_, ?_, ?_, ?_, ?_⟩
    · simp [hd]
    · intro k
      simp only [hd, if_false, lc]
      by_cases hk : k = 0
      · subst hk; simp
      · simp [hk]
    · simp [hd]
    · simp [hd]
    · simp [hd]
    · simp [hd]
    · intro x he; simp [hd, he]
    · simp [hd]
    · intro w d h'
      simp only [hd, if_false, List.mem_cons] at h'
      rcases h' with h' | h' | h'
      · right; obtain ⟨a, b⟩ := Prod.mk.inj h'; subst a; subst b; exact ⟨rfl, Nat.le_refl _⟩
      · right; obtain ⟨a, b⟩ := Prod.mk.inj h'; subst a; subst b; exact ⟨rfl, Nat.zero_le _⟩
      · exact Or.inl h'
    · intro j
      by_cases hj : j = i
      · subst hj; right; simp [hd]
      · left; simp [hd, hj]
    · simp [hd]

theorem synth_bump (s : State) (d : Nat) : ∃ b, BumpS s (synth s d) b := by
  unfold synth
  by_cases hd : d ≥ 3
  · refine ⟨0, by omega, ?_, ?_, ?_, ?_, ?_, ?_, ?_, ?_, ?_, ?_, ?_⟩
    · simp [hd]
    · intro k
      simp only [hd, if_true, lc]
      by_cases hk : k = 0
      · simp [hk]
      · have : ¬ k ≤ 0 := by omega
        simp [hk, this]
    · simp [hd]
    · simp [hd]
    · simp [hd]
    · simp [hd]
    · intro x he; simp [hd, he]
    · simp [hd]
    · intro w d' h'
      simp only [hd, if_true, List.mem_cons] at h'
      rcases h' with h' | h'
      · right; obtain ⟨a, b⟩ := Prod.mk.inj h'; subst a; subst b; exact ⟨rfl, Nat.le_refl _⟩
      · exact Or.inl h'
    · intro j; left; simp [hd]
    · simp [hd]
  · have hlt : d < 3 := by omega
    refine ⟨d, hlt, ?_, ?_, ?_, ?_, ?_, ?_, ?_, ?_, ?_, ?_, ?_⟩
    · simp [hd]
    · intro k
      simp only [hd, if_false, lc]
      by_cases hk : k = 0
      · subst hk; simp
      · simp [hk]
    · simp [hd]
    · simp [hd]
    · simp [hd]
    · simp [hd]
    · intro x he; simp [hd, he]
    · simp [hd]
    · intro w d' h'
      simp only [hd, if_false, List.mem_cons] at h'
      rcases h' with h' | h' | h'
      · right; obtain ⟨a, b⟩ := Prod.mk.inj h'; subst a; subst b; exact ⟨rfl, Nat.le_refl _⟩
      · right; obtain ⟨a, b⟩ := Prod.mk.inj h'; subst a; subst b; exact ⟨rfl, Nat.zero_le _⟩
      · exact Or.inl h'
    · intro j; left; simp [hd]
    · simp [hd]

/-- an input write preserves the invariant (nobody busy before; nobody busy after) -/
theorem write_inv {P : Prog} {idOf : Nat → Nat} {s : State} (hI : Inv P idOf s) (hnb : ∀ c, ¬ Busy s c)
    (i v : Nat) (nd : Option Nat) :
    Inv P idOf (write s i v nd) ∧ (∀ c, ¬ Busy (write s i v nd) c) := by
  obtain ⟨b, hb⟩ := write_bump s i v nd
  exact bump_inv hb hI hnb

/-- a synthetic write preserves the invariant -/
theorem synth_inv {P : Prog} {idOf : Nat → Nat} {s : State} (hI : Inv P idOf s) (hnb : ∀ c, ¬ Busy s c) (d : Nat) :
    Inv P idOf (synth s d) ∧ (∀ c, ¬ Busy (synth s d) c) := by
  obtain ⟨b, hb⟩ := synth_bump s d
  exact bump_inv hb hI hnb

theorem init_inv (P : Prog) (idOf : Nat → Nat) (inp : Nat → Inp) :
    Inv P idOf (init inp) ∧ (∀ c, ¬ Busy (init inp) c) := by
  refine ⟨⟨rfl, Nat.le_refl _, ?_, ?_, ?_, ?_, fun _ => Nat.le_refl _, fun _ => Nat.le_refl _, ?_, ?_, ?_,
    ?_, ?_, ?_, ?_, ?_, ?_⟩, ?_⟩
  · intro d; simp only [lc, init]; split <;> exact Nat.le_refl _
  · intro d; simp only [lc, init]; split <;> exact Nat.le_refl _
  · intro d; simp only [lc, init]; split <;> split <;> exact Nat.le_refl _
  · intro d hd; simp only [lc, init]; have : d ≠ 0 := by omega
    simp [this]
  · intro w d h; simp [init] at h
  · intro w d h; simp [init] at h
  · intro w h1 h2; simp only [init] at h2; omega
  · intro q m h; simp [init] at h
  · intro q _ _; exact ⟨rfl, rfl⟩
  · intro c sm h; simp [init] at h
  · intro c sm h; simp [init] at h
  · intro c sl h; simp [init] at h
  · intro c sm h; simp [init] at h
  · rintro c ⟨sl, h, _⟩; simp [init] at h

/-! ### non-vacuity: the hypotheses hold in the initial state and after writes of every kind -/

example (P : Prog) (idOf : Nat → Nat) :
    let s0 := init fun i => ⟨i, 0, i % 4⟩
    let s1 := write s0 1 7 (some 2)
    let s2 := synth s1 1
    let s3 := write s2 3 9 none
    Inv P idOf s3 ∧ (∀ c, ¬ Busy s3 c) ∧ s3.cur = 4 ∧ (s3.inp 1).dur = 2 ∧ (s3.inp 3).val = 3 ∧ lc s3 1 = 3 := by
  intro s0 s1 s2 s3
  obtain ⟨h0, n0⟩ := init_inv P idOf fun i => ⟨i, 0, i % 4⟩
  obtain ⟨h1, n1⟩ := write_inv h0 n0 1 7 (some 2)
  obtain ⟨h2, n2⟩ := synth_inv h1 n1 1
  obtain ⟨h3, n3⟩ := write_inv h2 n2 3 9 none
  exact ⟨h3, n3, by decide, by decide, by decide, by decide⟩

end SalsaVerif.Proofs.CoreSpec
