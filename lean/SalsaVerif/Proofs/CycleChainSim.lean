/-
  The simulation between two consecutive passes of the head loop of an outermost head.

  `Sim e l r`: `l` is a state of pass `t`, `r` the corresponding state of pass `t+1`, `e` the
  state at the END of the body of pass `t` (so `Ext l e`: `l` only grows into `e`).  Same stack;
  `r.final = e.final` (nothing becomes final during pass `t+1`); the provisional memos have the
  same keys with pointwise larger values on the right; provisional values of heads are larger on
  the right; every head known at the end of pass `t` is known to `r` from the start.

  GATE-FREE programs only: with value-controlled gates pass `t+1` can reach nodes pass `t` never
  reached, create new (nested) cycle heads that restart from ∅, and values can DROP from one pass
  to the next (`Props/C12.lean: c12_chain_fails_with_gates`).

  Main lemma (`fetch_sim`/`evalM_sim`/`execute_sim`): whatever pass `t` does successfully, pass
  `t+1` does successfully too, with a larger value, preserving `Sim`, and without ever
  creating a cycle head (`r'.prov = r.prov`).  The only asymmetric case — the left pass
  executes a node the right pass finds final — is closed by soundness (`v ≤ lfp = v'`).
  Core Lean only.
-/
import SalsaVerif.Proofs.CycleChainB

namespace SalsaVerif.Proofs.Cycle
open SalsaVerif.Model.Cycle

structure Sim (e l r : St) : Prop where
  stack : l.stack = r.stack
  poisoned : l.poisoned = r.poisoned
  fin : ∀ c, r.final.lookup c = e.final.lookup c
  cacheNone : ∀ c, cval l c = none → cval r c = none
  cacheLe : ∀ c w, cval l c = some w → ∃ w', cval r c = some w' ∧ le w w'
  provLe : ∀ c w, l.prov.lookup c = some w → ∃ w', r.prov.lookup c = some w' ∧ le w w'
  heads : ∀ c, isHead e.prov c = true → isHead r.prov c = true

theorem cval_none_iff {s : St} {c : Nat} : cval s c = none ↔ s.cache.lookup c = none := by
  unfold cval
  cases s.cache.lookup c <;> simp

theorem cval_some_lookup {s : St} {c w : Nat} (h : cval s c = some w) :
    ∃ en, s.cache.lookup c = some en ∧ en.val = w := by
  unfold cval at h
  cases hl : s.cache.lookup c with
  | none => rw [hl] at h; cases h
  | some en => rw [hl] at h; injection h with h; exact ⟨en, rfl, h⟩

theorem cycleFn_mono (P : Prog) (j : Nat) {last last' v v' : Nat} (h1 : le last last')
    (h2 : le v v') : le (cycleFn P j last v) (cycleFn P j last' v') := by
  unfold cycleFn
  cases (P.node j).strat with
  | fallback fv => exact le_refl _
  | panic => exact h2
  | fixpoint b =>
    cases b with
    | false => exact h2
    | true => exact or_mono h2 h1

theorem Sim.push {e l r : St} (h : Sim e l r) (c : Nat) :
    Sim e { l with stack := c :: l.stack } { r with stack := c :: r.stack } :=
  ⟨by show c :: l.stack = c :: r.stack; rw [h.stack], h.poisoned, h.fin, h.cacheNone, h.cacheLe,
    h.provLe, h.heads⟩

theorem Sim.cached {e l1 r1 : St} (h : Sim e l1 r1) (c : Nat) {v v' : Nat} (hs hs' : List Nat)
    (hle : le v v') : Sim e (stCached l1 c v hs) (stCached r1 c v' hs') := by
  refine ⟨?_, h.poisoned, h.fin, ?_, ?_, h.provLe, h.heads⟩
  · show l1.stack.tail = r1.stack.tail
    rw [h.stack]
  · intro k hk
    by_cases hkc : k = c
    · subst hkc; rw [cval_cons_self] at hk; cases hk
    · rw [cval_cons_subst_ne l1 c v hs hkc] at hk
      rw [cval_cons_subst_ne r1 c v' hs' hkc]
      exact h.cacheNone k hk
  · intro k w hk
    by_cases hkc : k = c
    · subst hkc
      rw [cval_cons_self] at hk
      injection hk with hk; subst hk
      exact ⟨v', cval_cons_self r1 k v' hs', hle⟩
    · rw [cval_cons_subst_ne l1 c v hs hkc] at hk
      rw [cval_cons_subst_ne r1 c v' hs' hkc]
      exact h.cacheLe k w hk

theorem Sim.below {e l1 r1 : St} (h : Sim e l1 r1) (hb : belowOf l1 = true) :
    belowOf r1 = true := by
  unfold belowOf at hb ⊢
  obtain ⟨k, hk, hp⟩ := (below_iff l1).mp hb
  obtain ⟨w, hw⟩ := isHead_iff.mp hp
  obtain ⟨w', hw', _⟩ := h.provLe k w hw
  exact (below_iff r1).mpr ⟨k, by rw [← h.stack]; exact hk, isHead_iff.mpr ⟨w', hw'⟩⟩

section
variable (P : Prog) (env : Nat → Nat)

theorem ext_stCached {s1 : St} {j : Nat} (rest : List Nat) (v' : Nat) (hs' : List Nat)
    (hI : Inv P env s1) (hst : s1.stack = j :: rest) : Ext s1 (stCached s1 j v' hs') := by
  have hjm : j ∈ s1.stack := by rw [hst]; exact List.mem_cons_self
  obtain ⟨hjc, _⟩ := hI.stackFresh j hjm
  refine ⟨rfl, fun _ _ h => h, fun _ _ h => h, ?_⟩
  intro c w hw
  have hcj : c ≠ j := by
    intro e; subst e
    simp [cval, hjc] at hw
  rw [cval_cons_subst_ne s1 j v' hs' hcj]; exact hw

/-- what a fetch of pass `t+1` does, given what the fetch of pass `t` did. -/
def ReadSim (read : Nat → St → Res Fetched) : Prop :=
  ∀ e l r c v hs l', Inv P env l → Inv P env r → Inv P env e → Sim e l r → Ext l' e →
    read c l = .ok (v, hs, l') →
    ∃ v' hs' r', read c r = .ok (v', hs', r') ∧ Sim e l' r' ∧ le v v' ∧ r'.prov = r.prov

def ExecSim (exec : Nat → St → Res Fetched) : Prop :=
  ∀ e l r c v hs l', Inv P env l → Inv P env r → Inv P env e → Sim e l r → Ext l' e →
    c ∉ l.stack → l.final.lookup c = none → l.cache.lookup c = none →
    r.final.lookup c = none →
    exec c l = .ok (v, hs, l') →
    ∃ v' hs' r', exec c r = .ok (v', hs', r') ∧ Sim e l' r' ∧ le v v' ∧ r'.prov = r.prov

theorem evalM_sim {read : Nat → St → Res Fetched} (hR : ReadSpec P env read)
    (hS : ReadSim P env read) :
    ∀ (ex : Expr), ex.noGate = true → ∀ (e l r : St) (v : Nat) (hs : List Nat) (l' : St),
      Inv P env l → Inv P env r → Inv P env e → Sim e l r → Ext l' e →
      evalM env read ex l = .ok (v, hs, l') →
      ∃ v' hs' r', evalM env read ex r = .ok (v', hs', r') ∧ Sim e l' r' ∧ le v v' ∧
        r'.prov = r.prov := by
  intro ex
  induction ex with
  | const c =>
    intro _ e l r v hs l' _ _ _ hSim _ h
    simp only [evalM] at h
    injection h with h; injection h with h1 h; injection h with h2 h3
    subst h1; subst h3
    exact ⟨_, [], r, rfl, hSim, le_refl _, rfl⟩
  | input i =>
    intro _ e l r v hs l' _ _ _ hSim _ h
    simp only [evalM] at h
    injection h with h; injection h with h1 h; injection h with h2 h3
    subst h1; subst h3
    exact ⟨_, [], r, rfl, hSim, le_refl _, rfl⟩
  | call j =>
    intro _ e l r v hs l' hIl hIr hIe hSim hEe h
    simp only [evalM] at h
    cases hr : read j l with
    | error err => rw [hr] at h; cases h
    | ok res =>
      obtain ⟨w, hs1, l1⟩ := res
      rw [hr] at h
      injection h with h; injection h with h1 h; injection h with h2 h3
      subst h1; subst h3
      obtain ⟨w', hs', r', hr', hS', hle, hp⟩ := hS e l r j w hs1 l1 hIl hIr hIe hSim hEe hr
      refine ⟨w' % 256, hs', r', ?_, hS', mod_mono hle, hp⟩
      simp only [evalM, hr']
  | union a b iha ihb =>
    intro hng e l r v hs l' hIl hIr hIe hSim hEe h
    simp only [Expr.noGate, Bool.and_eq_true] at hng
    have iha := iha hng.1
    have ihb := ihb hng.2
    simp only [evalM] at h
    cases ha : evalM env read a l with
    | error err => rw [ha] at h; cases h
    | ok res =>
      obtain ⟨x, h1, l1⟩ := res
      rw [ha] at h
      simp only at h
      cases hb : evalM env read b l1 with
      | error err => rw [hb] at h; cases h
      | ok res2 =>
        obtain ⟨y, h2, l2⟩ := res2
        rw [hb] at h
        injection h with h; injection h with e1 h; injection h with e2 e3
        subst e1; subst e3
        obtain ⟨hIl1, _, _, _⟩ := evalM_spec P env hR a l x h1 l1 hIl ha
        obtain ⟨_, _, hE12, _⟩ := evalM_spec P env hR b l1 y h2 l2 hIl1 hb
        obtain ⟨x', h1', r1, hra, hS1, hlex, hp1⟩ :=
          iha e l r x h1 l1 hIl hIr hIe hSim (hE12.trans hEe) ha
        obtain ⟨hIr1, _, _, _⟩ := evalM_spec P env hR a r x' h1' r1 hIr hra
        obtain ⟨y', h2', r2, hrb, hS2, hley, hp2⟩ :=
          ihb e l1 r1 y h2 l2 hIl1 hIr1 hIe hS1 hEe hb
        refine ⟨x' ||| y', h1' ++ h2', r2, ?_, hS2, or_mono hlex hley, hp2.trans hp1⟩
        simp only [evalM, hra, hrb]
  | inter a b iha ihb =>
    intro hng e l r v hs l' hIl hIr hIe hSim hEe h
    simp only [Expr.noGate, Bool.and_eq_true] at hng
    have iha := iha hng.1
    have ihb := ihb hng.2
    simp only [evalM] at h
    cases ha : evalM env read a l with
    | error err => rw [ha] at h; cases h
    | ok res =>
      obtain ⟨x, h1, l1⟩ := res
      rw [ha] at h
      simp only at h
      cases hb : evalM env read b l1 with
      | error err => rw [hb] at h; cases h
      | ok res2 =>
        obtain ⟨y, h2, l2⟩ := res2
        rw [hb] at h
        injection h with h; injection h with e1 h; injection h with e2 e3
        subst e1; subst e3
        obtain ⟨hIl1, _, _, _⟩ := evalM_spec P env hR a l x h1 l1 hIl ha
        obtain ⟨_, _, hE12, _⟩ := evalM_spec P env hR b l1 y h2 l2 hIl1 hb
        obtain ⟨x', h1', r1, hra, hS1, hlex, hp1⟩ :=
          iha e l r x h1 l1 hIl hIr hIe hSim (hE12.trans hEe) ha
        obtain ⟨hIr1, _, _, _⟩ := evalM_spec P env hR a r x' h1' r1 hIr hra
        obtain ⟨y', h2', r2, hrb, hS2, hley, hp2⟩ :=
          ihb e l1 r1 y h2 l2 hIl1 hIr1 hIe hS1 hEe hb
        refine ⟨x' &&& y', h1' ++ h2', r2, ?_, hS2, and_mono hlex hley, hp2.trans hp1⟩
        simp only [evalM, hra, hrb]
  | ite i a b iha ihb =>
    intro hng e l r v hs l' hIl hIr hIe hSim hEe h
    simp only [Expr.noGate, Bool.and_eq_true] at hng
    simp only [evalM] at h ⊢
    split at h
    · rename_i hc; rw [if_pos hc]; exact iha hng.1 e l r v hs l' hIl hIr hIe hSim hEe h
    · rename_i hc; rw [if_neg hc]; exact ihb hng.2 e l r v hs l' hIl hIr hIe hSim hEe h
  | gate g a _ _ => intro hng; simp [Expr.noGate] at hng

end

end SalsaVerif.Proofs.Cycle
