/-
  Iteration bound for the revision-aware cycle model, part 2: verification, the iteration loop,
  fetch / maybe_changed_after, the engine, requests.  Core Lean only.
-/
import SalsaVerif.Proofs.CycleRevEv

namespace SalsaVerif.Proofs.CycleRev
open SalsaVerif.Model
open SalsaVerif.Model.CycleRev
open SalsaVerif.Gen.Stamp

structure EngGoodE (sub : Eng) : Prop where
  fetch : ∀ c s, EvOK s → GoodE (sub.fetch c s)
  mca : ∀ c rev s, EvOK s → GoodE (sub.mca c rev s)

theorem goodE_deepVerifyEdges {sub : Eng} (hs : EngGoodE sub) (va : Nat) (es : List Edge) :
    ∀ s, EvOK s → GoodE (deepVerifyEdges sub va es s) := by
  induction es with
  | nil => intro s h; exact h
  | cons e rest ih =>
    intro s h
    cases e with
    | inp k =>
      unfold deepVerifyEdges
      split
      · exact h
      · exact ih s h
    | qry q =>
      unfold deepVerifyEdges
      have := hs.mca q va s h
      cases hr : sub.mca q va s with
      | error p => rw [hr] at this; exact this
      | ok r =>
        obtain ⟨ch, s1⟩ := r
        rw [hr] at this
        simp only
        split
        · exact this
        · exact ih s1 this

theorem goodE_deepVerifyMemo (P : Prog) {sub : Eng} (hs : EngGoodE sub) (c : Nat) (m : Memo)
    {s : St} (h : EvOK s) : GoodE (deepVerifyMemo P sub c m s) := by
  unfold deepVerifyMemo
  split
  · exact h
  · split
    · exact h
    · have := goodE_deepVerifyEdges hs m.va m.edges s h
      cases hr : deepVerifyEdges sub m.va m.edges s with
      | error p => rw [hr] at this; exact this
      | ok r =>
        obtain ⟨u, s1⟩ := r
        rw [hr] at this
        simp only
        show EvOK _
        split
        · exact E_markAsVerified this c
        · exact this

theorem goodE_verifyMemo (P : Prog) {sub : Eng} (hs : EngGoodE sub) (c : Nat) (m : Memo)
    {s : St} (h : EvOK s) : GoodE (verifyMemo P sub c m s) := by
  unfold verifyMemo
  simp only
  split
  · have := goodE_validateMayBeProvisional h c m
    cases hr : validateMayBeProvisional s c m with
    | error p => rw [hr] at this; exact this
    | ok r =>
      obtain ⟨ok1, s1⟩ := r
      rw [hr] at this
      simp only
      split
      · exact E_updateShallow this c _
      · exact goodE_deepVerifyMemo P hs c m this
  · exact goodE_deepVerifyMemo P hs c m h

theorem incr_le {it it' : Nat} {s : St} (h : incr it s = .ok it') :
    IterationStamp.iteration it' ≤ MAX_ITERATIONS := by
  unfold incr at h
  split at h
  · rename_i x hx
    cases h
    unfold IterationStamp.increment_iteration at hx
    simp only at hx
    split at hx
    · rename_i hle
      cases hx
      simpa using hle
    · cases hx
  · cases h

theorem incr_err' {it : Nat} {s : St} {p : Panic} (h : incr it s = .error p) : p.st = s := by
  unfold incr at h
  split at h
  · cases h
  · cases h; rfl

theorem goodEC_iterateLoop (P : Prog) {sub : Eng} (hs : EngGoodE sub) (c : Nat) :
    ∀ (fuel : Nat) (lastProv : Option Memo) (iteration : Nat) (optOld : Option Memo) (s : St),
      EvOK s → GoodEC (iterateLoop P sub c fuel lastProv iteration optOld s) := by
  intro fuel
  induction fuel with
  | zero => intro _ _ _ s h; exact h
  | succ fuel ih =>
    intro lastProv iteration optOld s h
    unfold iterateLoop
    have h1 : EvOK (seedFrame (pushQuery s c) (lastProv.or optOld)) := E_of_same h (by simp)
    generalize seedFrame (pushQuery s c) (lastProv.or optOld) = s1 at h1
    have he := goodE_onPanic popQuery (fun _ => E_popQuery)
      (goodE_evalM sub.fetch hs.fetch (P.node c).body s1 h1)
    simp only
    cases hr : onPanic popQuery (evalM sub.fetch (P.node c).body s1) with
    | error p => rw [hr] at he; exact he
    | ok r =>
      obtain ⟨v, s2⟩ := r
      rw [hr] at he
      simp only
      have hs2 : EvOK s2 := he
      have hs3 : ∀ heads, EvOK (outerCycle s2 heads c).2 := fun _ => E_outerCycle hs2 _ _
      cases hfb : isFallback P c with
      | false =>
        simp only [Bool.false_eq_true, if_false, Bool.false_or]
        split
        · exact hs2
        · split
          · split
            · rename_i p hp
              split at hp
              · cases hp
              · show EvOK p.st; rw [incr_err' hp]; exact E_popQuery hs2
            · exact E_popQuery hs2
          · split
            · exact E_popQuery hs2
            · rename_i maxIter dos heads hcoll
              split
              · split
                · exact E_popQuery (hs3 heads)
                · split
                  · rename_i p hp; show EvOK p.st; rw [incr_err' hp]; exact E_popQuery (hs3 heads)
                  · exact E_popQuery (hs3 heads)
              · split
                · exact E_popQuery (hs3 heads)
                · split
                  · exact E_popQuery (hs3 heads)
                  · split
                    · exact E_popQuery (hs3 heads)
                    · split
                      · exact E_popQuery (hs3 heads)
                      · split
                        · exact E_foldl_final (E_popQuery (hs3 heads)) _
                        · split
                          · rename_i p hp
                            show EvOK p.st
                            rw [incr_err' hp]; exact E_popQuery (hs3 heads)
                          · rename_i it' hit
                            apply ih
                            have h5 : EvOK (emit (popQuery (outerCycle s2 heads c).2)
                                (.iterate c (IterationStamp.iteration it'))) :=
                              E_emit (E_popQuery (hs3 heads)) _
                                (fun q k hq => by cases hq; exact incr_le hit)
                            exact E_of_same (E_foldl_setIter h5 ((live heads).filter (fun h => h.key != c)) it') rfl
      | true =>
        simp only [if_true, Bool.true_or, Bool.true_and]
        split
        · exact hs2
        · split
          · split
            · rename_i p hp
              split at hp
              · cases hp
              · show EvOK p.st; rw [incr_err' hp]; exact E_popQuery hs2
            · exact E_popQuery hs2
          · split
            · exact E_popQuery hs2
            · rename_i maxIter dos heads hcoll
              split
              · split
                · exact E_popQuery (hs3 heads)
                · split
                  · rename_i p hp; show EvOK p.st; rw [incr_err' hp]; exact E_popQuery (hs3 heads)
                  · exact E_popQuery (hs3 heads)
              · split
                · exact E_popQuery (hs3 heads)
                · split
                  · exact E_popQuery (hs3 heads)
                  · split
                    · exact E_popQuery (hs3 heads)
                    · split
                      · exact E_popQuery (hs3 heads)
                      · split
                        · exact E_foldl_final (E_popQuery (hs3 heads)) _
                        · split
                          · rename_i p hp
                            show EvOK p.st
                            rw [incr_err' hp]; exact E_popQuery (hs3 heads)
                          · rename_i it' hit
                            apply ih
                            have h5 : EvOK (emit (popQuery (outerCycle s2 heads c).2)
                                (.iterate c (IterationStamp.iteration it'))) :=
                              E_emit (E_popQuery (hs3 heads)) _
                                (fun q k hq => by cases hq; exact incr_le hit)
                            exact E_of_same (E_foldl_setIter h5 ((live heads).filter (fun h => h.key != c)) it') rfl

theorem goodEC_executeMaybeIterate (P : Prog) {sub : Eng} (hs : EngGoodE sub) (c : Nat)
    (old : Option Memo) {s : St} (h : EvOK s) : GoodEC (executeMaybeIterate P sub c old s) := by
  unfold executeMaybeIterate
  simp only
  split
  · rename_i p hp
    split at hp
    · split at hp
      · split at hp
        · cases hp; exact h
        · cases hp
      · cases hp
    · cases hp
  · exact goodEC_onPanic _ (fun _ hg => E_poison hg c) (goodEC_iterateLoop P hs c _ _ _ _ _ h)

theorem goodEC_executeQuery (P : Prog) {sub : Eng} (hs : EngGoodE sub) (c : Nat) (old : Option Memo)
    (mode0 : Mode) {s0 : St} (h0 : EvOK s0) : GoodEC (executeQuery P sub c old mode0 s0) := by
  unfold executeQuery
  split
  · have h1 : EvOK (seedFrame (pushQuery s0 c) old) := E_of_same h0 (by simp)
    generalize seedFrame (pushQuery s0 c) old = s1 at h1
    have he := goodE_onPanic popQuery (fun _ => E_popQuery)
      (goodE_evalM sub.fetch hs.fetch (P.node c).body s1 h1)
    simp only
    cases hr : onPanic popQuery (evalM sub.fetch (P.node c).body s1) with
    | error p => rw [hr] at he; exact he
    | ok r =>
      obtain ⟨v, s2⟩ := r
      rw [hr] at he
      simp only
      split
      · exact he
      · exact E_popQuery he
  · exact goodEC_executeMaybeIterate P hs c old h0

theorem goodES_finishExecute (c : Nat) (old : Option Memo) (cq : Memo) (mode : Mode) {s1 : St}
    (h : EvOK s1) : GoodES (finishExecute c old cq mode s1) := by
  unfold finishExecute
  split
  · exact h
  · simp only
    split
    · exact E_of_same h (by simp)
    · rename_i s3 hd; exact E_of_same h (by rw [dropClaim_evs hd]; simp)

theorem goodES_execute (P : Prog) {sub : Eng} (hs : EngGoodE sub) (c : Nat) (old : Option Memo)
    (mode0 : Mode) {s : St} (h : EvOK s) : GoodES (execute P sub c old mode0 s) := by
  unfold execute
  have h0 : EvOK (emit s (.exec c)) := E_emit h (.exec c) (fun _ _ he => by cases he)
  have hq := goodEC_executeQuery P hs c old mode0 h0
  cases hr : executeQuery P sub c old mode0 (emit s (.exec c)) with
  | error p => rw [hr] at hq; exact hq
  | ok r =>
    obtain ⟨cq, mode, s1⟩ := r
    rw [hr] at hq
    exact goodES_finishExecute c old cq mode hq

theorem goodES_fetchColdCycle (P : Prog) (c : Nat) {s : St} (h : EvOK s) :
    GoodES (fetchColdCycle P c s) := by
  unfold fetchColdCycle
  split
  · exact h
  · simp only
    split
    · exact E_of_same h rfl
    · split
      · exact h
      · split
        · exact E_of_same h rfl
        · exact E_of_same h rfl

theorem goodES_fetchColdClaimed (P : Prog) {sub : Eng} (hs : EngGoodE sub) (c : Nat) (mode0 : Mode)
    {s1 : St} (h1 : EvOK s1) : GoodES (fetchColdClaimed P sub c mode0 s1) := by
  unfold fetchColdClaimed
  have hver : GoodE (verifyOld P sub c (memoOf s1 c) s1) := by
    unfold verifyOld
    split
    · split
      · exact goodE_verifyMemo P hs c _ h1
      · exact h1
    · exact h1
  simp only
  cases hr : verifyOld P sub c (memoOf s1 c) s1 with
  | error p => rw [hr] at hver; exact hver
  | ok r =>
    obtain ⟨b, s2⟩ := r
    rw [hr] at hver
    cases b with
    | true =>
      simp only
      split
      · exact hver
      · rename_i s3 hd; exact E_of_same hver (dropClaim_evs hd)
    | false => exact goodES_execute P hs c _ _ hver

theorem goodES_refreshMemo (P : Prog) {sub : Eng} (hs : EngGoodE sub) (c : Nat) {s : St}
    (h : EvOK s) : GoodES (refreshMemo P sub c s) := by
  unfold refreshMemo
  split
  · rename_i s1 hh
    unfold fetchHot at hh
    split at hh
    · simp only at hh
      split at hh
      · cases hh; exact E_updateShallow h c _
      · cases hh
    · cases hh
  · unfold fetchCold
    have h1 : EvOK (tryClaim s c true).2 := E_of_same h (by simp)
    generalize tryClaim s c true = r at h1
    obtain ⟨cl, s1⟩ := r
    simp only at h1 ⊢
    split
    · exact goodES_fetchColdCycle P c h1
    · exact goodES_onPanic _ (fun _ hg => E_releaseDefault hg c)
        (goodES_fetchColdClaimed P hs c _ h1)

theorem goodE_fetchStep (P : Prog) {sub : Eng} (hs : EngGoodE sub) (c : Nat) {s : St}
    (h : EvOK s) : GoodE (fetchStep P sub c s) := by
  unfold fetchStep
  have href := goodES_refreshMemo P hs c h
  cases hr : refreshMemo P sub c s with
  | error p => rw [hr] at href; exact href
  | ok s1 =>
    rw [hr] at href
    simp only
    split
    · exact href
    · rename_i m hm
      split
      · exact href
      · have hrt := goodES_reportTrackedRead href c m
        cases hrr : reportTrackedRead s1 c m with
        | error p => rw [hrr] at hrt; exact hrt
        | ok s2 => rw [hrr] at hrt; exact hrt

theorem goodE_mcaStep (P : Prog) {sub : Eng} (hs : EngGoodE sub) (c rev : Nat) {s : St}
    (h : EvOK s) : GoodE (mcaStep P sub c rev s) := by
  unfold mcaStep
  split
  · exact h
  · rename_i m hm
    simp only
    split
    · exact E_updateShallow h c _
    · have h1 : EvOK (tryClaim s c false).2 := E_of_same h (by simp)
      generalize tryClaim s c false = r at h1
      obtain ⟨cl, s1⟩ := r
      simp only at h1 ⊢
      split
      · split
        · exact h1
        · exact h1
      · apply goodE_onPanic _ (fun _ hg => E_releaseDefault hg c)
        have hv := goodE_verifyMemo P hs c m h1
        cases hr : verifyMemo P sub c m s1 with
        | error p => rw [hr] at hv; exact hv
        | ok r =>
          obtain ⟨b, s2⟩ := r
          rw [hr] at hv
          cases b with
          | true => exact E_releaseDefault hv c
          | false =>
            simp only
            split
            · split
              · exact E_releaseDefault hv c
              · have he := goodES_execute P hs c (some m) .default hv
                cases hre : execute P sub c (some m) .default s2 with
                | error p => rw [hre] at he; exact he
                | ok s3 =>
                  rw [hre] at he
                  simp only
                  split
                  · exact he
                  · exact he
            · exact E_releaseDefault hv c

theorem engGoodE (P : Prog) : ∀ d, EngGoodE (eng P d) := by
  intro d
  induction d with
  | zero => exact ⟨fun _ _ h => h, fun _ _ _ h => h⟩
  | succ d ih =>
    exact ⟨fun c s h => goodE_fetchStep P ih c h, fun c rev s h => goodE_mcaStep P ih c rev h⟩

/-- every `WillIterateCycle` event of a request, from ANY state, is within the bound. -/
theorem get_iterate_bounded (P : Prog) (s : St) (c : Nat) :
    ∀ q k, Ev.iterate q k ∈ (CycleRev.get P s c).2.evs → k ≤ MAX_ITERATIONS := by
  unfold CycleRev.get
  have h0 : EvOK { s with evs := [] } := fun _ _ hk => by cases hk
  have := (engGoodE P (P.n + 2)).fetch c _ h0
  cases hr : (eng P (P.n + 2)).fetch c { s with evs := [] } with
  | error p => rw [hr] at this; exact this
  | ok r => obtain ⟨v, s'⟩ := r; rw [hr] at this; exact this

end SalsaVerif.Proofs.CycleRev
