/-
  CoreSpec, histories with writes: `execute` of a node, part 11 — the memo installed at the end
  (`function/execute.rs` after the body returned): its own clauses (`obsOk_new`, `nodeOk_new`).
  Core Lean only.
-/
import SalsaVerif.Proofs.CoreSpecRevRun3

namespace SalsaVerif.Proofs.CoreSpec
namespace X
open SalsaVerif.Model.CoreSpec

/-- the memo `installNode` builds from the frame `f`, the value `v` and the stamp `ca` -/
def newMemo (t1 : State) (f : Frame) (v : Val) (ca : Nat) : Memo :=
  { value := v, hgen := hgenOf t1 v, va := t1.cur, ca := ca, dur := f.dur, deepAt := t1.cur,
    origin := none, ts := f.ts, obs := finalObs f.dur f.obs }

/-- the observer clause of a read of the frame, at every level below the durability of the
    dependency, in a state that differs from `t1` in the records of `r` only -/
theorem new_obsAt {P idOf r t1 t2 f} {o o0 : Obs} {L : Nat} (U : Upd r t1 t2) (hI : Inv P idOf t1)
    (a : RdOk P r t1 f o0) (hd : o.dep = o0.dep) (hv : o.val = o0.val)
    (hL : ∀ x, depInfo t1 o0.dep = some x → L ≤ x.dur) : ObsAt t2 t1.cur L o := by
  have hn : ¬ atR r o.dep := by rw [hd]; exact below_not_atR a.below
  apply U.obsAt_off hn
  obtain ⟨x0, hx0, hxv, _⟩ := a.info
  have hhot := a.hot
  refine ⟨?_, ?_, ?_⟩
  · intro x hx
    rw [hd, hx0] at hx
    cases hx
    exact Or.inl ⟨by rw [hv]; exact hxv, hL x0 hx0⟩
  · intro c mc hdc hs _
    exfalso
    rw [hd] at hdc
    rcases hdc with e | e
    · rw [e] at hhot
      obtain ⟨_, sl, hsl⟩ := hhot
      rw [hs] at hsl; cases hsl
    · rw [e] at hhot
      obtain ⟨_, sm, hsm, _⟩ := hhot
      obtain ⟨sl, hsl⟩ := hI.smslot c sm hsm
      rw [hs] at hsl; cases hsl
  · intro c sl hdc _ hn'
    exfalso
    rw [hd] at hdc
    rw [hdc] at hhot
    obtain ⟨_, sm, hsm, _⟩ := hhot
    rw [hn'] at hsm; cases hsm

theorem obsOk_new {P idOf r t1 t2 f} (v : Val) {ca : Nat} (U : Upd r t1 t2) (hI : Inv P idOf t1)
    (fi : FrOk P r t1 f) (hca : ca ≤ f.ca) : ObsOk t2 (newMemo t1 f v ca) := by
  have hcur : t2.cur = t1.cur := U.cur
  -- a read of the final list
  have rd : ∀ o, o ∈ finalObs f.dur f.obs → o.out = false →
      ∃ o0, o0 ∈ f.obs ∧ o.dep = o0.dep ∧ o.val = o0.val ∧ RdOk P r t1 f o0 ∧
        ((f.dur ≠ 3 ∧ o = o0) ∨ (f.dur = 3 ∧ o.recd = false)) := by
    intro o ho hout
    obtain ⟨o0, h0, e1, e2, e3, e4⟩ := mem_final ho
    exact ⟨o0, h0, e1, e2, fi.rd o0 h0 (by rw [← e3]; exact hout), e4⟩
  refine ⟨Nat.le_trans hca fi.ca_le, by rw [hcur]; exact Nat.le_refl _, hI.cur1, Nat.le_refl _, hI.cur1, fi.dur3,
    ?_, ?_, ?_, ?_, ?_, ?_, ?_, ?_⟩
  · intro o ho hout
    obtain ⟨o0, _, e1, e2, a, _⟩ := rd o ho hout
    refine new_obsAt U hI a e1 e2 ?_
    intro x hx
    obtain ⟨x0, hx0, _, _, hd, _⟩ := a.info
    rw [hx0] at hx; cases hx; exact hd
  · intro _ o ho hout
    obtain ⟨o0, _, e1, _, a, _⟩ := rd o ho hout
    obtain ⟨x0, hx0, _⟩ := a.info
    refine ⟨x0, ?_, depInfo_ca_le hI hx0⟩
    rw [U.depInfo_off (by rw [e1]; exact below_not_atR a.below), e1]; exact hx0
  · left; rw [U.lcEq]; exact hI.lc_le _
  · intro o q' ho hout hd
    obtain ⟨o0, _, e1, _, a, _⟩ := rd o ho hout
    have hb := a.below
    have hh := a.hot
    rw [← e1, hd] at hb hh
    obtain ⟨m, hm, hva⟩ := hh
    have hne : q' ≠ r := by simp only [depBelow] at hb; omega
    exact ⟨m, by rw [U.memos q' hne]; exact hm, fun _ => by rw [hva]; exact Nat.le_refl _⟩
  · intro o c sm ho hout hd _ hsm
    obtain ⟨o0, _, e1, _, a, _⟩ := rd o ho hout
    have hb := a.below
    have hh := a.hot
    rw [← e1, hd] at hb hh
    obtain ⟨_, sm', hsm', hva⟩ := hh
    have hne : c ≠ r := by simp only [depBelow] at hb; omega
    rw [U.smemos c hne, hsm'] at hsm
    have e := Option.some.inj hsm
    show t1.cur ≤ sm.va
    rw [← e, hva]; exact Nat.le_refl _
  · intro o c mc ho hout hd hmc w d hw hdur hlt
    exfalso
    obtain ⟨o0, _, e1, _, a, _⟩ := rd o ho hout
    have hb := a.below
    have hh := a.hot
    rw [← e1] at hb hh
    have hne : c ≠ r := by
      rcases hd with e | e <;> rw [e] at hb <;> simp only [depBelow] at hb <;> omega
    rw [U.memos c hne] at hmc
    rw [U.wlog] at hw
    have hc : memoSok t1 c := by
      rcases hd with e | e
      · rw [e] at hh; exact hh.1
      · rw [e] at hh; exact hh.1
    obtain ⟨m, hm, hs⟩ := hc
    rw [hmc] at hm; cases hm
    rcases hs with hs | hs
    · have h1 := hI.wlog_lc w d hw 0 (Nat.zero_le _)
      have h2 : lc t1 0 = t1.cur := by simp [Model.CoreSpec.lc]
      omega
    · have h1 := hI.wlog_lc w d hw mc.dur hdur
      omega
  · intro o ho hout hr
    obtain ⟨o0, _, e1, e2, a, e4⟩ := rd o ho hout
    refine new_obsAt U hI a e1 e2 ?_
    intro x hx
    obtain ⟨x0, hx0, _, _, hd, hrec⟩ := a.info
    have ex : x0 = x := Option.some.inj (hx0.symm.trans hx)
    rw [← ex]
    rcases e4 with ⟨_, e⟩ | ⟨e, _⟩
    · rw [e, hrec] at hr
      have : ¬ (x0.dur ≠ 3) := of_decide_eq_false hr
      have h3 : x0.dur = 3 := Decidable.of_not_not this
      omega
    · omega
  · intro w d _ _ h
    exact absurd h.1 (Nat.not_lt.mpr h.2)

/-- the creator of a handle received from a recorded query read: its memo is valid, at least as
    durable as the memo read, and still carries the handle -/
theorem src_chain {P idOf r t1 f} {o' : Obs} {q' c : Nat} (hI : Inv P idOf t1) (fi : FrOk P r t1 f)
    (ho' : o' ∈ f.obs) (hout' : o'.out = false) (hd' : o'.dep = .qry q') (hh : o'.val.h = some c) :
    ∃ m2 mc, t1.memos q' = some m2 ∧ depInfo t1 o'.dep = some ⟨m2.value, m2.ca, m2.dur⟩ ∧
      t1.memos c = some mc ∧ m2.dur ≤ mc.dur ∧ mc.value.h = some c := by
  have a := fi.rd o' ho' hout'
  have hhot := a.hot
  obtain ⟨x, hx, hv, _⟩ := a.info
  rw [hd'] at hhot hx
  obtain ⟨m2, hm2, hva⟩ := hhot
  simp only [depInfo, hm2, Option.map_some, Option.some.injEq] at hx
  have hmv : m2.value = o'.val := by rw [← hv, ← hx]
  obtain ⟨mc, h1, _, h3, h4⟩ := handle_chain hI q' m2 hm2 (Or.inl hva) c (by rw [hmv]; exact hh)
  exact ⟨m2, mc, hm2, by rw [hd']; simp [depInfo, hm2], h1, h3, h4⟩

theorem nodeOk_new {P idOf r t1 t2 f} {v : Val} {ca : Nat} {Rn : SemRes} (hP : Wf2 P idOf) (U : Upd r t1 t2)
    (hI : Inv P idOf t1) (fi : FrOk P r t1 f) (hca : ca ≤ f.ca)
    (hrep : replayR r idOf (P.node r) f.obs none none = some Rn) (hval : Rn.val = v)
    (hts : f.ts.isSome = Rn.ts.isSome) (hkid : ∀ k v', Rn.ts = some (k, v') → k = idOf r)
    (htie : TieOk t2 r (newMemo t1 f v ca) Rn (preOf idOf (P.node r) (finalObs f.dur f.obs)))
    (hsrc : ∀ c, v.h = some c → (c = r ∧ f.ts.isSome = true) ∨
      ∃ o q', o ∈ f.obs ∧ o.out = false ∧ o.dep = .qry q' ∧ o.val.h = some c) :
    NodeOk P idOf t2 r (newMemo t1 f v ca) := by
  have rd : ∀ o, o ∈ finalObs f.dur f.obs → o.out = false →
      ∃ o0, o0 ∈ f.obs ∧ o0.out = false ∧ o.dep = o0.dep ∧ o.val = o0.val ∧ RdOk P r t1 f o0 := by
    intro o ho hout
    obtain ⟨o0, h0, e1, e2, e3, _⟩ := mem_final ho
    have h3 : o0.out = false := by rw [← e3]; exact hout
    exact ⟨o0, h0, h3, e1, e2, fi.rd o0 h0 h3⟩
  refine ⟨obsOk_new v U hI fi hca, rfl, ?_, ?_, ?_, ?_, (hdOk_final _ _ _).mpr fi.hd, ?_, ?_, ?_, ?_, ?_, ?_⟩
  · -- ksok
    intro _ o ho hout
    obtain ⟨o0, _, _, e1, _, a⟩ := rd o ho hout
    rw [U.sokDep_off (by rw [e1]; exact below_not_atR a.below), e1]
    exact sokDep_of_hot a.hot
  · -- rank
    intro o ho hout
    obtain ⟨o0, _, _, e1, _, a⟩ := rd o ho hout
    rw [e1]; exact a.below
  · -- sobs
    intro o ho hout
    obtain ⟨o0, h0, hout0, e1, _, a⟩ := rd o ho hout
    have key : ∀ c mc, (o.dep = .field c ∨ o.dep = .spec c) → t2.memos c = some mc →
        f.dur ≤ mc.dur ∧ mc.value.h = some c := by
      intro c mc hd hmc
      rw [e1] at hd
      rcases hd_src c f.obs _ fi.hd o0 h0 hout0 hd with hh | ⟨o', q', a1, a2, a3, a4⟩
      · exact hh.elim
      · obtain ⟨m2, mc', b1, b2, b3, b4, b5⟩ := src_chain hI fi a1 a2 a3 a4
        have hb := a.below
        have hne : c ≠ r := by
          rcases hd with e | e <;> rw [e] at hb <;> simp only [depBelow] at hb <;> omega
        rw [U.memos c hne, b3] at hmc
        cases hmc
        obtain ⟨x, hx, _, _, hdx, _⟩ := (fi.rd o' a1 a2).info
        rw [b2] at hx; cases hx
        exact ⟨Nat.le_trans hdx b4, b5⟩
    exact ⟨fun c mc hd hmc => Or.inl (key c mc hd hmc).1, fun c mc hd hmc => Or.inl (key c mc hd hmc).2⟩
  · -- hmemo
    intro o c ho hout hd
    obtain ⟨o0, _, _, e1, _, a⟩ := rd o ho hout
    have hb := a.below
    have hh := a.hot
    rw [← e1] at hb hh
    have hne : c ≠ r := by
      rcases hd with e | e <;> rw [e] at hb <;> simp only [depBelow] at hb <;> omega
    have hc : memoSok t1 c := by
      rcases hd with e | e
      · rw [e] at hh; exact hh.1
      · rw [e] at hh; exact hh.1
    obtain ⟨mc, hmc, _⟩ := hc
    exact ⟨mc, by rw [U.memos c hne]; exact hmc⟩
  · -- rep
    refine ⟨Rn, by simp only [newMemo]; rw [replayR_final]; exact hrep, hval, hts, hkid, fun _ => ⟨htie, ?_⟩⟩
    intro w0 _ A _ w' d hw _ hlt
    exfalso
    rw [U.wlog] at hw
    have h1 := hI.wlog_lc w' d hw 0 (Nat.zero_le _)
    have h2 : lc t1 0 = t1.cur := by simp [Model.CoreSpec.lc]
    have : t1.cur < w' := hlt
    omega
  · -- hsrc
    intro c hc
    rcases hsrc c hc with h | ⟨o, q', h0, h1, h2, h3⟩
    · exact Or.inl h
    · obtain ⟨o', b1, b2, b3, b4⟩ := final_mem (d := f.dur) h0
      exact Or.inr ⟨o', q', b1, by rw [b4]; exact h1, by rw [b2]; exact h2, by rw [b3]; exact h3⟩
  · -- outedge
    intro o ho hout
    obtain ⟨o0, h0, e1, _, e3, e4⟩ := mem_final ho
    obtain ⟨g1, g2⟩ := fi.out o0 h0 (by rw [← e3]; exact hout)
    refine ⟨by rw [e1]; exact g1, ?_⟩
    rcases e4 with ⟨_, e⟩ | ⟨e, _⟩
    · left; rw [e]; exact g2
    · right; exact e
  · -- never
    intro h3 o ho
    obtain ⟨o0, _, _, _, _, e4⟩ := mem_final ho
    rcases e4 with ⟨e, _⟩ | ⟨_, e⟩
    · exact absurd h3 e
    · exact e
  · -- m4
    rcases fi.att with h | ⟨o0, h0, hout0, x, hx, hc⟩
    · exact Or.inl (Nat.le_trans hca h)
    · obtain ⟨o', b1, b2, _, b4⟩ := final_mem (d := f.dur) h0
      refine Or.inr ⟨o', b1, by rw [b4]; exact hout0, ?_⟩
      intro x' hx'
      rw [U.depInfo_off (by rw [b2]; exact below_not_atR (fi.rd o0 h0 hout0).below), b2, hx] at hx'
      cases hx'
      exact Nat.le_trans hca hc
  · -- shape
    intro o ho hout
    obtain ⟨o0, _, _, e1, e2, a⟩ := rd o ho hout
    have hs := a.sem
    rw [e1, e2]
    cases hd : o0.dep with
    | inp i => rw [hd] at hs; simp only; rw [← hs]; rfl
    | qry q =>
      rw [hd] at hs
      simp only
      intro c hc
      rw [← hs] at hc
      exact (sem_handle2 hP t1.inp q c hc).1
    | field c => rw [hd] at hs; simp only; rw [← hs]; rfl
    | spec c => rw [hd] at hs; simp only; rw [← hs]; exact specVal_handleS hP.spec _ _

/-- the reads before the `create` of the new memo carry the observer clauses at the level `fd` of
    the new prefix -/
theorem preAt_new {P idOf r t1 t2 f} {Rn : SemRes} {fd : Nat} (U : Upd r t1 t2) (hI : Inv P idOf t1)
    (fi : FrOk P r t1 f) (hrep : replayR r idOf (P.node r) f.obs none none = some Rn)
    (hb : ∀ o, o ∈ preOf idOf (P.node r) f.obs → ∃ x, depInfo t1 o.dep = some x ∧ fd ≤ x.dur)
    (hs : ∀ o, o ∈ preOf idOf (P.node r) f.obs → ∀ c, (o.dep = .field c ∨ o.dep = .spec c) →
      ∃ o' q', o' ∈ preOf idOf (P.node r) f.obs ∧ o'.out = false ∧ o'.dep = .qry q' ∧ o'.val.h = some c) :
    PreAt t2 t1.cur fd (preOf idOf (P.node r) (finalObs f.dur f.obs)) := by
  intro o ho
  rw [preOf_final] at ho
  obtain ⟨o0, h0, e1, e2, _, _⟩ := mem_final ho
  have hmem := preOf_sublist idOf _ _ o0 h0
  have hout0 := preOf_nonout r idOf _ _ none none Rn hrep o0 h0
  have a := fi.rd o0 hmem hout0
  refine ⟨new_obsAt U hI a e1 e2 ?_, ?_⟩
  · intro x hx
    obtain ⟨x', hx', hd⟩ := hb o0 h0
    rw [hx'] at hx; cases hx; exact hd
  · have key : ∀ c mc, (o.dep = .field c ∨ o.dep = .spec c) → t2.memos c = some mc →
        fd ≤ mc.dur ∧ mc.value.h = some c := by
      intro c mc hd hmc
      rw [e1] at hd
      obtain ⟨o', q', a1, a2, a3, a4⟩ := hs o0 h0 c hd
      have hmem' := preOf_sublist idOf _ _ o' a1
      obtain ⟨m2, mc', b1, b2, b3, b4, b5⟩ := src_chain hI fi hmem' a2 a3 a4
      have hbl := a.below
      have hne : c ≠ r := by
        rcases hd with e | e <;> rw [e] at hbl <;> simp only [depBelow] at hbl <;> omega
      rw [U.memos c hne, b3] at hmc
      cases hmc
      obtain ⟨x, hx, hdx⟩ := hb o' a1
      rw [b2] at hx; cases hx
      exact ⟨Nat.le_trans hdx b4, b5⟩
    exact ⟨fun c mc hd hmc => Or.inl (key c mc hd hmc).1, fun c mc hd hmc => Or.inl (key c mc hd hmc).2⟩

theorem preAt_level {s va L L' pre} (h : PreAt s va L pre) (hl : L' ≤ L) : PreAt s va L' pre :=
  fun o ho => ⟨(h o ho).1.level hl, (h o ho).2.level hl⟩

/-- the tie of the new memo to its struct and `Assigned` memo -/
theorem tie_new {P idOf r NB0 s0 old Ro PL t1 t2 f} {v : Val} {ca : Nat} {ts' : Option (Nat × Nat)}
    {sp' : Option Nat} (U : Upd r t1 t2) (hI : Inv P idOf t1) (fi : FrOk P r t1 f)
    (hrep : replayR r idOf (P.node r) f.obs none none = some ⟨v, ts', sp'⟩)
    (pf : PreFin P idOf r NB0 s0 old Ro PL t1 f v (preOf idOf (P.node r) f.obs) ts' sp')
    (h1 : ts' = none → t2.slots r = none ∧ t2.smemos r = none)
    (h2 : ts' ≠ none → t2.slots r = t1.slots r ∧ t2.smemos r = t1.smemos r) :
    TieOk t2 r (newMemo t1 f v ca) ⟨v, ts', sp'⟩ (preOf idOf (P.node r) (finalObs f.dur f.obs)) := by
  unfold TieOk
  rcases pf with ⟨e, _⟩ | ⟨kv, fd, e, _, _, a4, a5, ⟨sl, s1, s2, s3, _, s5⟩, a7, _, _, a10, a11⟩
  · subst e; exact h1 rfl
  · subst e
    obtain ⟨k, v0⟩ := kv
    obtain ⟨g1, g2⟩ := h2 (fun h => by cases h)
    have hpre := preAt_new (fd := fd) U hI fi hrep a10 a11
    refine ⟨sl, by rw [g1]; exact s1, s2, s3, (hI.slot r sl s1).1, ?_⟩
    cases sp' with
    | some w =>
      obtain ⟨A, hA, b1, b2, b3, b4⟩ := a7
      have hb := specOk_bounds (hI.smemo r A hA)
      refine ⟨A, by rw [g2]; exact hA, b1, b2, Or.inl (by simp only [newMemo]; rw [b3]; exact Nat.le_refl _),
        by simp only [newMemo]; rw [b4]; exact a4, by rw [b4]; exact s5, by rw [b4]; exact hpre, ?_⟩
      exact Nat.le_trans hb.1 hb.2.1
    | none =>
      obtain ⟨b1, b2⟩ := a7
      refine ⟨?_, preAt_level hpre (Nat.max_le.mpr ⟨s5, a4⟩)⟩
      intro A hA ho
      rw [g2, b1] at hA
      exact (U.witIff _ _ _).mpr (b2 A hA ho)

end X
end SalsaVerif.Proofs.CoreSpec
