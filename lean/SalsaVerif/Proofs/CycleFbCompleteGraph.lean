/-
  Graph lemmas for the completeness half of the fallback-cycle argument (core Lean only):
  `Via S a k` (a path from `a` to `k` whose intermediate nodes avoid `S`), path surgery
  (first / last occurrence), completeness of the Boolean `reach` of the model for well-formed
  programs (`reach_complete`), and the bound on chains of nodes that lie on no cycle
  (`Deep.bound`).
-/
import SalsaVerif.Proofs.CycleFb
import SalsaVerif.Proofs.CycleFuel

namespace SalsaVerif.Proofs.Cycle
open SalsaVerif.Model.Cycle

section
variable (P : Prog) (env : Nat → Nat)

/-- `Via S a k`: a non-empty path from `a` to `k` all of whose intermediate nodes are outside
    `S` (the end points are unconstrained). -/
inductive Via (S : List Nat) : Nat → Nat → Prop where
  | step {a c : Nat} : c ∈ callees env ρ0 (P.node a).body → Via S a c
  | cons {a c k : Nat} : c ∈ callees env ρ0 (P.node a).body → c ∉ S → Via S c k → Via S a k

variable {P env}

theorem Via.mono {S S' : List Nat} (hS : ∀ x ∈ S, x ∈ S') {a k : Nat} (h : Via P env S' a k) :
    Via P env S a k := by
  induction h with
  | step hc => exact Via.step hc
  | cons hc hn _ ih => exact Via.cons hc (fun hx => hn (hS _ hx)) ih

theorem Via.reach {S : List Nat} {a k : Nat} (h : Via P env S a k) : Reach P env a k := by
  induction h with
  | step hc => exact Reach.step hc
  | cons hc _ _ ih => exact Reach.trans (Reach.step hc) ih

theorem Via.trans {S : List Nat} {a b c : Nat} (h1 : Via P env S a b) (hb : b ∉ S)
    (h2 : Via P env S b c) : Via P env S a c := by
  induction h1 with
  | step hc => exact Via.cons hc hb h2
  | cons hc hn _ ih => exact Via.cons hc hn (ih hb h2)

theorem Reach.via_nil {a b : Nat} (h : Reach P env a b) : Via P env [] a b := by
  induction h with
  | step hc => exact Via.step hc
  | trans _ _ ih1 ih2 => exact Via.trans ih1 (fun h => nomatch h) ih2

/-- the first node of `S` on a path that ends in `S`. -/
theorem Via.first_active {S : List Nat} {a b : Nat} (h : Via P env [] a b) (hb : b ∈ S) :
    ∃ k ∈ S, Via P env S a k := by
  induction h with
  | step hc => exact ⟨_, hb, Via.step hc⟩
  | @cons a c k hc _ _ ih =>
    by_cases hcS : c ∈ S
    · exact ⟨c, hcS, Via.step hc⟩
    · obtain ⟨k', hk', hv⟩ := ih hb
      exact ⟨k', hk', Via.cons hc hcS hv⟩

theorem Reach.first_active {S : List Nat} {a b : Nat} (h : Reach P env a b) (hb : b ∈ S) :
    ∃ k ∈ S, Via P env S a k :=
  Via.first_active h.via_nil hb

/-- cutting a path at the occurrences of `j`. -/
theorem Via.split {S : List Nat} {a k : Nat} (j : Nat) (h : Via P env S a k) (hk : k ≠ j) :
    Via P env (j :: S) a k ∨ (Via P env (j :: S) a j ∧ Via P env (j :: S) j k) := by
  induction h with
  | step hc => exact Or.inl (Via.step hc)
  | @cons a c k hc hn _ ih =>
    by_cases hcj : c = j
    · subst hcj
      right
      refine ⟨Via.step hc, ?_⟩
      rcases ih hk with h1 | h1
      · exact h1
      · exact h1.2
    · have hn' : c ∉ j :: S := by
        intro hm
        cases hm with
        | head => exact hcj rfl
        | tail _ hm => exact hn hm
      rcases ih hk with h1 | h1
      · exact Or.inl (Via.cons hc hn' h1)
      · exact Or.inr ⟨Via.cons hc hn' h1.1, h1.2⟩

/-- from the last occurrence of the start node on. -/
theorem Via.last {S : List Nat} {j k : Nat} (h : Via P env S j k) (hk : k ≠ j) :
    Via P env (j :: S) j k := by
  rcases h.split j hk with h1 | h1
  · exact h1
  · exact h1.2

/-- up to the first occurrence of the target. -/
theorem Via.first_target {a b : Nat} (h : Via P env [] a b) : Via P env [b] a b := by
  induction h with
  | step hc => exact Via.step hc
  | @cons a c k hc _ _ ih =>
    by_cases hck : c = k
    · subst hck; exact Via.step hc
    · exact Via.cons hc (by simpa using hck) ih

/-! ## completeness of the Boolean `reach` -/

theorem callee_lt (hW : P.Wf) {a c : Nat} (hc : c ∈ callees env ρ0 (P.node a).body) : c < P.n := by
  by_cases ha : a < P.n
  · exact wf_callees P env hW ρ0 ha c hc
  · rw [node_out P (Nat.le_of_not_lt ha)] at hc
    simp [callees] at hc

theorem callee_src_lt {a c : Nat} (hc : c ∈ callees env ρ0 (P.node a).body) : a < P.n := by
  by_cases ha : a < P.n
  · exact ha
  · rw [node_out P (Nat.le_of_not_lt ha)] at hc
    simp [callees] at hc

theorem reach_succ (k a b : Nat) (h : reach P env ρ0 k a b = true) :
    reach P env ρ0 (k + 1) a b = true := by
  induction k generalizing a with
  | zero => simp [reach] at h
  | succ k ih =>
    simp only [reach, List.any_eq_true, Bool.or_eq_true, beq_iff_eq] at h
    obtain ⟨c, hc, h⟩ := h
    rw [reach]
    simp only [List.any_eq_true, Bool.or_eq_true, beq_iff_eq]
    rcases h with h | h
    · exact ⟨c, hc, Or.inl h⟩
    · exact ⟨c, hc, Or.inr (ih c h)⟩

theorem reach_mono {k m : Nat} (hkm : k ≤ m) (a b : Nat) (h : reach P env ρ0 k a b = true) :
    reach P env ρ0 m a b = true := by
  induction m with
  | zero =>
    have : k = 0 := by omega
    subst this; exact h
  | succ m ih =>
    by_cases hk : k = m + 1
    · subst hk; exact h
    · exact reach_succ m a b (ih (by omega))

/-- a path avoiding the duplicate-free set `X` is found with fuel `n - |X| + 1`. -/
theorem via_reach_bound (hW : P.Wf) : ∀ (m : Nat) (X : List Nat) (a b : Nat), X.Nodup →
    (∀ x ∈ X, x < P.n) → P.n - X.length ≤ m → Via P env X a b →
    reach P env ρ0 (m + 1) a b = true := by
  intro m
  induction m with
  | zero =>
    intro X a b hnd hlt hm h
    cases h with
    | step hc =>
      simp only [reach, List.any_eq_true, Bool.or_eq_true, beq_iff_eq]
      exact ⟨b, hc, Or.inl rfl⟩
    | @cons _ c _ hc hn hv =>
      exfalso
      have hcl : c < P.n := callee_lt hW hc
      have h1 : (c :: X).Nodup := List.nodup_cons.mpr ⟨hn, hnd⟩
      have h2 : ∀ x ∈ c :: X, x < P.n := by
        intro x hx
        cases hx with
        | head => exact hcl
        | tail _ hx => exact hlt x hx
      have := nodup_length_le P.n (c :: X) h1 h2
      simp only [List.length_cons] at this
      omega
  | succ m ih =>
    intro X a b hnd hlt hm h
    cases h with
    | step hc =>
      simp only [reach, List.any_eq_true, Bool.or_eq_true, beq_iff_eq]
      exact ⟨b, hc, Or.inl rfl⟩
    | @cons _ c _ hc hn hv =>
      rw [reach]
      simp only [List.any_eq_true, Bool.or_eq_true, beq_iff_eq]
      by_cases hcb : c = b
      · exact ⟨c, hc, Or.inl hcb⟩
      · refine ⟨c, hc, Or.inr ?_⟩
        have hcl : c < P.n := callee_lt hW hc
        have h1 : (c :: X).Nodup := List.nodup_cons.mpr ⟨hn, hnd⟩
        have h2 : ∀ x ∈ c :: X, x < P.n := by
          intro x hx
          cases hx with
          | head => exact hcl
          | tail _ hx => exact hlt x hx
        have h3 := nodup_length_le P.n (c :: X) h1 h2
        simp only [List.length_cons] at h3
        apply ih (c :: X) c b h1 h2
        · simp only [List.length_cons]; omega
        · exact hv.last (fun e => hcb e.symm)

theorem Reach.target_lt (hW : P.Wf) {a b : Nat} (h : Reach P env a b) : b < P.n := by
  induction h with
  | step hc => exact callee_lt hW hc
  | trans _ _ _ ih => exact ih

/-- **completeness of `reach`**: in a well-formed program every path is found with fuel `n`. -/
theorem reach_complete (hW : P.Wf) {a b : Nat} (h : Reach P env a b) :
    reach P env ρ0 P.n a b = true := by
  have hb : b < P.n := h.target_lt hW
  have h1 : Via P env [b] a b := h.via_nil.first_target
  have h2 := via_reach_bound hW (P.n - 1) [b] a b (by simp)
    (by intro x hx; simp only [List.mem_singleton] at hx; subst hx; exact hb)
    (by simp) h1
  have : P.n - 1 + 1 = P.n := by omega
  rw [this] at h2; exact h2

theorem onCycle_iff (hW : P.Wf) (i : Nat) : onCycle P env ρ0 i = true ↔ Reach P env i i :=
  ⟨onCycle_sound P env i, fun h => reach_complete hW h⟩

/-! ## chains of nodes that lie on no cycle -/

/-- `Deep k x`: a path of `k` edges starts at `x` whose first `k` nodes lie on no cycle. -/
inductive Deep : Nat → Nat → Prop where
  | zero (x : Nat) : Deep 0 x
  | succ {k x c : Nat} : ¬ Reach P env x x → c ∈ callees env ρ0 (P.node x).body → Deep k c →
      Deep (k + 1) x

theorem Deep.bound_aux {k x : Nat} (h : Deep (P := P) (env := env) k x) :
    ∀ X : List Nat, X.Nodup → (∀ y ∈ X, y < P.n ∧ Reach P env y x) → k + X.length ≤ P.n := by
  induction h with
  | zero x =>
    intro X hnd hX
    have := nodup_length_le P.n X hnd (fun y hy => (hX y hy).1)
    omega
  | @succ k x c hnc hc _ ih =>
    intro X hnd hX
    have hxX : x ∉ X := fun hm => hnc (hX x hm).2
    have := ih (x :: X) (List.nodup_cons.mpr ⟨hxX, hnd⟩) (by
      intro y hy
      cases hy with
      | head => exact ⟨callee_src_lt hc, Reach.step hc⟩
      | tail _ hy => exact ⟨(hX y hy).1, Reach.trans (hX y hy).2 (Reach.step hc)⟩)
    simp only [List.length_cons] at this
    omega

/-- such a chain has at most `n` edges. -/
theorem Deep.bound {k x : Nat} (h : Deep (P := P) (env := env) k x) : k ≤ P.n := by
  have := h.bound_aux [] List.nodup_nil (fun y hy => nomatch hy)
  simpa using this

end

end SalsaVerif.Proofs.Cycle
