/-
  `make_id` / `split_id` (src/table.rs, translated in Gen/Ids.lean) on the domain the allocator
  uses: `page < MAX_PAGES`, `slot < PAGE_LEN`.  Shared by Props/C23 and Props/C24.
  Core Lean only.
-/
import SalsaVerif.Gen.Ids
import SalsaVerif.Proofs.Bits

namespace SalsaVerif.Proofs.IdsRoundtrip
open SalsaVerif.Gen.Ids

theorem PAGE_LEN_eq : PAGE_LEN = 128 := by decide
theorem PAGE_LEN_MASK_eq : PAGE_LEN_MASK = 2^7 - 1 := by decide
theorem MAX_U32_eq : Id.MAX_U32 = 4294967040 := by decide
theorem MAX_PAGES_eq : MAX_PAGES = 33554430 := by decide

/-- the raw (zero-based) index `make_id` computes is `page * 128 + slot`: no `u32` truncation
    happens on the domain. -/
theorem make_id_index0 (p s : Nat) (hp : p < MAX_PAGES) (hs : s < PAGE_LEN) :
    Id.index0 (make_id p s) = p * 128 + s := by
  rw [MAX_PAGES_eq] at hp
  rw [PAGE_LEN_eq] at hs
  have hs7 : s < 2^7 := by omega
  have h1 : p % 2^32 = p := Nat.mod_eq_of_lt (by omega)
  have h2 : s % 2^32 = s := Nat.mod_eq_of_lt (by omega)
  have h3 : (p <<< 7) % 2^32 = p <<< 7 := by
    apply Nat.mod_eq_of_lt
    rw [Nat.shiftLeft_eq]; omega
  have h4 : (p <<< 7 ||| s) = p * 2^7 + s := by
    rw [Nat.or_comm]; exact SalsaVerif.Bits.or_shl_eq_add s p 7 hs7
  simp only [make_id, Id.from_index, Id.index0, PAGE_LEN_BITS, h1, h2, h3, h4]
  omega

theorem make_id_generation (p s : Nat) : (make_id p s).generation = 0 := rfl

/-- `Id::from_index`'s `debug_assert!(index < Self::MAX_U32)` holds. -/
theorem make_id_lt (p s : Nat) (hp : p < MAX_PAGES) (hs : s < PAGE_LEN) :
    Id.index0 (make_id p s) < Id.MAX_U32 := by
  rw [make_id_index0 p s hp hs, MAX_U32_eq]
  rw [MAX_PAGES_eq] at hp; rw [PAGE_LEN_eq] at hs
  omega

/-- the stored `NonZeroU32` is non-zero and at most `MAX_U32`. -/
theorem make_id_index_range (p s : Nat) (hp : p < MAX_PAGES) (hs : s < PAGE_LEN) :
    1 ≤ (make_id p s).index ∧ (make_id p s).index ≤ Id.MAX_U32 := by
  have h := make_id_lt p s hp hs
  have h0 := make_id_index0 p s hp hs
  rw [MAX_U32_eq] at *
  simp only [Id.index0] at h h0
  rw [MAX_PAGES_eq] at hp; rw [PAGE_LEN_eq] at hs
  have hi : (make_id p s).index = (p * 128 + s + 1) % 2^32 := by
    have hs7 : s < 2^7 := by omega
    have h1 : p % 2^32 = p := Nat.mod_eq_of_lt (by omega)
    have h2 : s % 2^32 = s := Nat.mod_eq_of_lt (by omega)
    have h3 : (p <<< 7) % 2^32 = p <<< 7 := by
      apply Nat.mod_eq_of_lt
      rw [Nat.shiftLeft_eq]; omega
    have h4 : (p <<< 7 ||| s) = p * 2^7 + s := by
      rw [Nat.or_comm]; exact SalsaVerif.Bits.or_shl_eq_add s p 7 hs7
    simp only [make_id, Id.from_index, PAGE_LEN_BITS, h1, h2, h3, h4]
  rw [hi]
  omega

theorem split_id_make_id (p s : Nat) (hp : p < MAX_PAGES) (hs : s < PAGE_LEN) :
    split_id (make_id p s) = (p, s) := by
  have h0 := make_id_index0 p s hp hs
  rw [PAGE_LEN_eq] at hs
  have hs7 : s < 2^7 := by omega
  have e : p * 128 + s = s ||| p <<< 7 := by
    rw [SalsaVerif.Bits.or_shl_eq_add s p 7 hs7]
  simp only [split_id, h0, PAGE_LEN_BITS, PAGE_LEN_MASK_eq, e]
  rw [SalsaVerif.Bits.or_shl_and_mask s p 7 hs7, SalsaVerif.Bits.or_shl_shr s p 7 hs7]

theorem make_id_injective (p s p' s' : Nat) (hp : p < MAX_PAGES) (hs : s < PAGE_LEN)
    (hp' : p' < MAX_PAGES) (hs' : s' < PAGE_LEN) (h : make_id p s = make_id p' s') :
    p = p' ∧ s = s' := by
  have a := split_id_make_id p s hp hs
  have b := split_id_make_id p' s' hp' hs'
  rw [h, b] at a
  exact ⟨(Prod.mk.inj a).1.symm, (Prod.mk.inj a).2.symm⟩

end SalsaVerif.Proofs.IdsRoundtrip
