/-
  Core3 engine (stage S3a): `refreshStep_ok`, `fetchStep_ok`, `mcaStep_ok`.  Core Lean only.
-/
import SalsaVerif.Proofs.Core3Exec

namespace SalsaVerif.Proofs.Core3
open SalsaVerif.Model.Core3

theorem depInfo_ca_le {P s d x} (hI : Inv P s) (h : depInfo s d = some x) : x.ca ≤ s.cur := by
  cases d with
  | cell c => simp [depInfo] at h
  | inp i => simp only [depInfo, Option.some.injEq] at h; subst h; exact hI.inp_le i
  | qry q =>
    cases hm : s.memos q with
    | none => simp [depInfo, hm] at h
    | some m =>
      simp only [depInfo, hm, Option.map, Option.some.injEq] at h
      subst h
      have := hI.memo q m hm
      exact Nat.le_trans this.ca_va this.va_cur

theorem semDep_of_stored {P s d x} (hP : Wf P) (hI : Inv P s) (hi : depInfo s d = some x)
    (hs : sokDep s d) : semDep P s.inp s.cells d = x.val := by
  cases d with
  | cell c => simp [depInfo] at hi
  | inp i => simp only [depInfo, Option.some.injEq] at hi; subst hi; rfl
  | qry q =>
    obtain ⟨m, hm, hsok⟩ := hs
    simp only [depInfo, hm, Option.map, Option.some.injEq] at hi
    subst hi
    simp only [semDep]
    exact (fresh_of_sok hP hI q m hm hsok).symm

theorem sokDep_of_hot {s d} (h : hot s d) : sokDep s d := by
  cases d with
  | cell c => trivial
  | inp i => trivial
  | qry q => obtain ⟨m, hm, hv⟩ := h; exact ⟨m, hm, Or.inl hv⟩

theorem sokDep_of_never {P s d x} (hI : Inv P s) (hi : depInfo s d = some x) (h3 : 3 ≤ x.dur) : sokDep s d := by
  cases d with
  | cell c => trivial
  | inp i => trivial
  | qry q =>
    cases hm : s.memos q with
    | none => simp [depInfo, hm] at hi
    | some m =>
      simp only [depInfo, hm, Option.map, Option.some.injEq] at hi
      subst hi
      exact ⟨m, hm, sok_of_never hI h3 (hI.memo q m hm).va1⟩

/-- a non-cell observation of a stored memo has a stored dependency -/
theorem depInfo_exists {P s q m o} (hI : Inv P s) (hm : s.memos q = some m) (ho : o ∈ m.obs)
    (hnc : ∀ c, o.dep ≠ .cell c) : ∃ x, depInfo s o.dep = some x := by
  cases hd : o.dep with
  | cell c => exact absurd hd (hnc c)
  | inp i => exact ⟨_, rfl⟩
  | qry q' =>
    obtain ⟨_, m2, hm2, _⟩ := (hI.memo q m hm).i5 o q' ho hd
    exact ⟨⟨m2.gval, m2.ca, m2.dur⟩, by simp [depInfo, hm2]⟩

theorem obs_ne_self {P s q m o} (hI : Inv P s) (hm : s.memos q = some m) (ho : o ∈ m.obs) : o.dep ≠ .qry q := by
  intro hd
  have := ((hI.memo q m hm).i5 o q ho hd).1
  omega

theorem markVerified_eq (s q m) :
    markVerified s q m = emit (setMemo s q { m with va := s.cur }) (.valid q) := rfl

theorem markDeepVerified_eq (s q m) :
    markDeepVerified s q m = emit (setMemo s q { m with va := s.cur, deepAt := s.cur }) (.valid q) := rfl

/-- a tracked memo has no cell observation -/
theorem no_cell_of_tracked {P s q m} (ok : MemoOk P s q m) (hu : m.untracked = false) :
    ∀ o, o ∈ m.obs → ∀ c, o.dep ≠ .cell c := by
  intro o ho c hd
  have := (ok.cellobs o c ho hd).1
  rw [hu] at this; cases this

/-- shallow verification by durability (`HigherDurability`) -/
theorem inv_markShallow {P s r m} (hI : Inv P s) (hm : s.memos r = some m) (hv : m.va ≠ s.cur)
    (hsh : lc s m.dur ≤ m.va) : Inv P (setMemo s r { m with va := s.cur }) := by
  have mok := hI.memo r m hm
  have hsok : SOK s m := Or.inr hsh
  have hdeep : lc s m.dur ≤ m.deepAt := by
    rcases mok.i4 with h | h
    · exact h
    · exact absurd hsh (Nat.not_le.mpr h)
  have hnu : m.untracked = false := by
    cases hu : m.untracked with
    | false => rfl
    | true => exact absurd (sok_low hI mok (mok.g6 hu) hsok) hv
  have hnc := no_cell_of_tracked mok hnu
  have hok : MemoOk P (setMemo s r { m with va := s.cur }) r { m with va := s.cur } := by
    refine ⟨Nat.le_trans mok.ca_va mok.va_cur, Nat.le_refl _, hI.cur1,
      Nat.le_trans mok.deep_va mok.va_cur, mok.dur3, mok.hasval, mok.rep, mok.g6, ?_, mok.hascell,
      ?_, ?_, Or.inl hdeep, ?_, ?_, ?_, ?_⟩
    · intro o c ho hd; exact absurd hd (hnc o ho c)
    · intro o ho x hinfo _
      rw [depInfo_setMemo_other _ _ _ (obs_ne_self hI hm ho)] at hinfo
      exact mok.i2 o ho x hinfo ((mok.i3 hsok o ho).1 x hinfo)
    · intro _ o ho
      obtain ⟨a, b⟩ := mok.i3 hsok o ho
      refine ⟨?_, (sokDep_setMemo_other _ _ _ (obs_ne_self hI hm ho)).mpr b⟩
      intro x hinfo
      rw [depInfo_setMemo_other _ _ _ (obs_ne_self hI hm ho)] at hinfo
      exact Nat.le_trans (a x hinfo) mok.va_cur
    · intro o q' ho hd
      obtain ⟨hlt, m2, hm2, hr⟩ := mok.i5 o q' ho hd
      have hne : q' ≠ r := by omega
      exact ⟨hlt, m2, by rw [setMemo_other _ _ _ hne]; exact hm2, hr⟩
    · intro o ho hr x hinfo
      rw [depInfo_setMemo_other _ _ _ (obs_ne_self hI hm ho)] at hinfo
      exact mok.i6 o ho hr x hinfo
    · intro w d hw hd h
      have h1 := hI.wlog_lc w d hw m.dur hd
      exact absurd (Nat.le_trans h1 hdeep) (Nat.not_le.mpr h.1)
    · intro o ho x hinfo
      rw [depInfo_setMemo_other _ _ _ (obs_ne_self hI hm ho)] at hinfo
      left
      exact Nat.le_trans ((mok.i3 hsok o ho).1 x hinfo) mok.va_cur
  have hobs := hobs_same (q := r) (mo := m) hI hm { m with va := s.cur } rfl rfl (Nat.le_refl _)
  exact inv_setMemo (q := r) (m' := { m with va := s.cur }) hI hok rfl hobs

/-- successful deep verification of a tracked memo -/
theorem inv_markDeep {P t r m} (hI : Inv P t) (hm : t.memos r = some m) (hnu : m.untracked = false)
    (facts : ∀ o, o ∈ m.obs → o.recd = true →
      hot t o.dep ∧ ∃ x, depInfo t o.dep = some x ∧ x.ca ≤ m.va) :
    Inv P (setMemo t r { m with va := t.cur, deepAt := t.cur }) := by
  have mok := hI.memo r m hm
  have hnc := no_cell_of_tracked mok hnu
  have hall : ∀ o, o ∈ m.obs → ∀ x, depInfo t o.dep = some x →
      x.val = o.val ∧ m.dur ≤ x.dur ∧ sokDep t o.dep := by
    intro o ho x hinfo
    cases hr : o.recd with
    | true =>
      obtain ⟨hh, x', hi', hc'⟩ := facts o ho hr
      rw [hinfo] at hi'; cases hi'
      obtain ⟨a, b⟩ := mok.i2 o ho x hinfo hc'
      exact ⟨a, b, sokDep_of_hot hh⟩
    | false =>
      obtain ⟨a, b⟩ := mok.i6 o ho hr x hinfo
      exact ⟨a, Nat.le_trans mok.dur3 b, sokDep_of_never hI hinfo b⟩
  have hok : MemoOk P (setMemo t r { m with va := t.cur, deepAt := t.cur }) r
      { m with va := t.cur, deepAt := t.cur } := by
    refine ⟨Nat.le_trans mok.ca_va mok.va_cur, Nat.le_refl _, hI.cur1, Nat.le_refl _, mok.dur3,
      mok.hasval, mok.rep, mok.g6, ?_, mok.hascell, ?_, ?_, Or.inl (hI.lc_le _), ?_, ?_, ?_, ?_⟩
    · intro o c ho hd; exact absurd hd (hnc o ho c)
    · intro o ho x hinfo _
      rw [depInfo_setMemo_other _ _ _ (obs_ne_self hI hm ho)] at hinfo
      exact ⟨(hall o ho x hinfo).1, (hall o ho x hinfo).2.1⟩
    · intro _ o ho
      refine ⟨?_, ?_⟩
      · intro x hinfo
        rw [depInfo_setMemo_other _ _ _ (obs_ne_self hI hm ho)] at hinfo
        exact depInfo_ca_le hI hinfo
      · rw [sokDep_setMemo_other _ _ _ (obs_ne_self hI hm ho)]
        obtain ⟨x, hx⟩ := depInfo_exists hI hm ho (hnc o ho)
        exact (hall o ho x hx).2.2
    · intro o q' ho hd
      obtain ⟨hlt, m2, hm2, _⟩ := mok.i5 o q' ho hd
      have hne : q' ≠ r := by omega
      refine ⟨hlt, m2, by rw [setMemo_other _ _ _ hne]; exact hm2, ?_⟩
      intro hr
      obtain ⟨hh, _⟩ := facts o ho hr
      rw [hd] at hh
      obtain ⟨m3, hm3, hv3⟩ := hh
      rw [hm2] at hm3; cases hm3
      show t.cur ≤ m2.va
      rw [hv3]; exact Nat.le_refl _
    · intro o ho hr x hinfo
      rw [depInfo_setMemo_other _ _ _ (obs_ne_self hI hm ho)] at hinfo
      exact mok.i6 o ho hr x hinfo
    · intro w d _ _ h
      exact absurd h.1 (Nat.not_lt.mpr h.2)
    · intro o ho x hinfo
      rw [depInfo_setMemo_other _ _ _ (obs_ne_self hI hm ho)] at hinfo
      left; exact depInfo_ca_le hI hinfo
  have hobs := hobs_same (q := r) (mo := m) hI hm { m with va := t.cur, deepAt := t.cur }
    rfl rfl (Nat.le_refl _)
  exact inv_setMemo (q := r) (m' := { m with va := t.cur, deepAt := t.cur }) hI hok rfl hobs

theorem first_split {α : Type} (p : α → Prop) : ∀ (l : List α), (∃ o, o ∈ l ∧ p o) →
    ∃ pre o post, l = pre ++ o :: post ∧ p o ∧ ∀ o', o' ∈ pre → ¬ p o' := by
  intro l
  induction l with
  | nil => rintro ⟨o, ho, _⟩; simp at ho
  | cons a rest ih =>
    intro hex
    by_cases ha : p a
    · exact ⟨[], a, rest, rfl, ha, by simp⟩
    · have : ∃ o, o ∈ rest ∧ p o := by
        obtain ⟨o, ho, hp⟩ := hex
        simp only [List.mem_cons] at ho
        rcases ho with ho | ho
        · subst ho; exact absurd hp ha
        · exact ⟨o, ho, hp⟩
      obtain ⟨pre, o, post, e, hp, hpre⟩ := ih this
      refine ⟨a :: pre, o, post, by rw [e]; rfl, hp, ?_⟩
      intro o' ho'
      simp only [List.mem_cons] at ho'
      rcases ho' with ho' | ho'
      · subst ho'; exact ha
      · exact hpre o' ho'

/-- re-execution of a stale untracked memo gets a stamp above the old `verified_at` -/
theorem hback_untracked {P r fe} (hP : Wf P) (hfe : FetchSpec P r fe) (t : State) (m : Memo)
    (hI : Inv P t) (hm : t.memos r = some m) (hu : m.untracked = true) (hv : m.va ≠ t.cur) :
    ∃ w d, (w, d) ∈ t.wlog ∧ m.dur ≤ d ∧ m.va < w ∧
      w ≤ (runBody fe (P.body r) (emit t (.exec r)) frame0).2.1.ca := by
  have mok := hI.memo r m hm
  have hd0 : m.dur = 0 := mok.g6 hu
  have hlt : m.va < t.cur := Nat.lt_of_le_of_ne mok.va_cur hv
  have hw : (m.va + 1, 0) ∈ t.wlog := hI.bumps (m.va + 1) (by have := mok.va1; omega) (by omega)
  suffices h : m.va < (runBody fe (P.body r) (emit t (.exec r)) frame0).2.1.ca from
    ⟨m.va + 1, 0, hw, by omega, by omega, h⟩
  obtain ⟨oc, c, hoc, hdc⟩ := mok.hascell hu
  obtain ⟨pre, o, post, e, hp, hpre⟩ := first_split
    (fun o : Obs => (∃ c, o.dep = .cell c) ∨ semDep P t.inp t.cells o.dep ≠ o.val) m.obs
    ⟨oc, hoc, Or.inl ⟨c, hdc⟩⟩
  have hrep : (replay (P.body r) (obsPairs (pre ++ o :: post))).isSome := by rw [← e, mok.rep]; rfl
  obtain ⟨t', F, a1, a2, _, _, a5, a6, a7, a8⟩ := run_prefix hfe pre (P.body r) (emit t (.exec r)) frame0 o post
    (hP r) (inv_emit _ hI) (frInv0 (inv_emit _ hI)) hrep
    (fun o' ho' => Classical.byContradiction fun hne => hpre o' ho' (Or.inr hne))
  rcases a8 with hc | ⟨x, hx⟩
  · have := a6 hc
    have e1 : F.ca = t.cur := this
    omega
  · obtain ⟨b1, b2⟩ := a7 x hx
    have hne : x.val ≠ o.val := by
      rcases hp with ⟨c', hc'⟩ | hne
      · rw [hc'] at hx; simp [depInfo] at hx
      · rw [b2]; exact hne
    have hm' : t'.memos r = some m := by rw [a2.above r (Nat.le_refl r)]; exact hm
    have mok' := a1.memo r m hm'
    have hoin : o ∈ m.obs := by rw [e]; simp
    have : m.va < x.ca := by
      apply Nat.lt_of_not_le
      intro hle
      exact hne (mok'.i2 o hoin x hx hle).1
    omega

/-- re-execution after a failed deep verification re-reads the first changed edge -/
theorem hback_deep {P r fe} (hP : Wf P) (hfe : FetchSpec P r fe) (t : State) (m : Memo)
    (hI : Inv P t) (hm : t.memos r = some m) (hnu : m.untracked = false)
    (hfail : ∃ pre o post x, m.obs = pre ++ o :: post ∧ o.recd = true ∧
        (∀ o', o' ∈ pre → o'.recd = true → hot t o'.dep ∧
            ∃ x', depInfo t o'.dep = some x' ∧ x'.ca ≤ m.va) ∧
        hot t o.dep ∧ depInfo t o.dep = some x ∧ m.va < x.ca) :
    ∃ w d, (w, d) ∈ t.wlog ∧ m.dur ≤ d ∧ m.va < w ∧
      w ≤ (runBody fe (P.body r) (emit t (.exec r)) frame0).2.1.ca := by
  have mok := hI.memo r m hm
  have hnc := no_cell_of_tracked mok hnu
  obtain ⟨pre, o, post, x, e1, _, e2, e3, e4, e5⟩ := hfail
  have hoin : o ∈ m.obs := by rw [e1]; simp
  have hrep : (replay (P.body r) (obsPairs (pre ++ o :: post))).isSome := by rw [← e1, mok.rep]; rfl
  have hpre' : ∀ o', o' ∈ pre → semDep P t.inp t.cells o'.dep = o'.val := by
    intro o' ho'
    have hin : o' ∈ m.obs := by rw [e1]; simp [ho']
    obtain ⟨x', hx'⟩ := depInfo_exists hI hm hin (hnc o' hin)
    cases hr : o'.recd with
    | true =>
      obtain ⟨hh, x2, hi2, hc2⟩ := e2 o' ho' hr
      rw [hx'] at hi2; cases hi2
      rw [semDep_of_stored hP hI hx' (sokDep_of_hot hh)]
      exact (mok.i2 o' hin x' hx' hc2).1
    | false =>
      obtain ⟨a, b⟩ := mok.i6 o' hin hr x' hx'
      rw [semDep_of_stored hP hI hx' (sokDep_of_never hI hx' b)]
      exact a
  obtain ⟨t', F, _, a2, _, _, a5, _, a7, _⟩ := run_prefix hfe pre (P.body r) (emit t (.exec r)) frame0 o post
    (hP r) (inv_emit _ hI) (frInv0 (inv_emit _ hI)) hrep hpre'
  have hx' : depInfo t' o.dep = some x :=
    depInfo_hot_ext a2 ((hot_emit _ _ _).mpr e3) (by rw [depInfo_emit]; exact e4)
  have hle := Nat.le_trans (a7 x hx').1 a5
  rcases mok.i10 o hoin x e4 with h | ⟨w, d, a, b, c, e⟩
  · exact absurd e5 (Nat.not_lt.mpr h)
  · exact ⟨w, d, a, b, c, Nat.le_trans e hle⟩

/-- what one refresh of key `r` from state `s` achieves -/
def StepOk (P : Prog) (r : Nat) (s : State) (out : State × Res) : Prop :=
  Inv P out.1 ∧ Ext s out.1 (r + 1) ∧ out.2.val = sem P s.inp s.cells r ∧
  ∃ m, out.1.memos r = some m ∧ m.va = s.cur ∧ m.gval = out.2.val ∧ m.ca = out.2.ca ∧ m.dur = out.2.dur

/-- re-execution of a memo that failed verification, from the state `t` reached by the edge walk -/
theorem reexec_ok {P r fe} (hP : Wf P) (hfe : FetchSpec P r fe) (s t : State) (m : Memo)
    (hI : Inv P s) (hm : s.memos r = some m) (hv : m.va ≠ s.cur) (hsh : ¬ lc s m.dur ≤ m.va)
    (d1 : Inv P t) (d2 : Ext s t r)
    (hback : ∃ w d, (w, d) ∈ t.wlog ∧ m.dur ≤ d ∧ m.va < w ∧
      w ≤ (runBody fe (P.body r) (emit t (.exec r)) frame0).2.1.ca) :
    StepOk P r s (execute fe P t r (some m)) := by
  have hm1 : t.memos r = some m := by rw [d2.above r (Nat.le_refl r)]; exact hm
  have hstale : ∀ m0, t.memos r = some m0 → m0.va ≠ t.cur := by
    intro m0 h0; rw [hm1] at h0; cases h0; rw [d2.cur]; exact hv
  have hnsok : ∀ o', some m = some o' → ¬ SOK t o' := by
    intro o' ho' h
    cases ho'
    rcases h with h | h
    · rw [d2.cur] at h; exact hv h
    · rw [d2.lc] at h; exact hsh h
  obtain ⟨x1, x2, x3, m2, y1, y2, y3, y4, y5⟩ := execute_ok hP hfe t (some m) d1 hm1 hstale hnsok
    (by intro o' ho'; cases ho'; exact hback)
  exact ⟨x1, Ext.trans (d2.weaken (Nat.le_succ r)) x2, by rw [x3, d2.inp, d2.cells],
    m2, y1, by rw [y2, d2.cur], y3, y4, y5⟩

theorem refreshStep_ok {P r fe mc} (hP : Wf P) (hfe : FetchSpec P r fe) (hmc : McaSpec P r mc)
    (s : State) (hI : Inv P s) : StepOk P r s (refreshStep fe mc P s r) := by
  unfold refreshStep
  cases hm : s.memos r with
  | none =>
    simp only
    exact execute_ok hP hfe s none hI hm (by intro m h; rw [hm] at h; cases h)
      (by intro o h; cases h) (by intro o h; cases h)
  | some m =>
    have mok := hI.memo r m hm
    simp only [mok.hasval]
    by_cases hv : m.va = s.cur
    · simp only [hv, if_true]
      exact ⟨hI, Ext.refl s _, fresh_of_sok hP hI r m hm (Or.inl hv), m, hm, hv, rfl, rfl, rfl⟩
    · simp only [hv, if_false]
      by_cases hsh : lc s m.dur ≤ m.va
      · simp only [hsh, if_true, markVerified_eq]
        have hinv := inv_markShallow hI hm hv hsh
        refine ⟨inv_emit _ hinv, (ext_install (m' := { m with va := s.cur }) hI (Ext.refl s r) ?_ rfl ?_).emit _,
          fresh_of_sok hP hI r m hm (Or.inr hsh), _, setMemo_same _ _ _, rfl, rfl, rfl, rfl⟩
        · intro m0 h0; rw [hm] at h0; cases h0; exact hv
        · intro m0 h0; rw [hm] at h0; cases h0; exact Nat.le_refl _
      · simp only [hsh, if_false]
        unfold deepVerify
        cases hu : m.untracked with
        | true =>
          simp only [if_true, Bool.false_eq_true, if_false]
          exact reexec_ok hP hfe s s m hI hm hv hsh hI (Ext.refl s r) (hback_untracked hP hfe s m hI hm hu hv)
        | false =>
          simp only [Bool.false_eq_true, if_false]
          have hpre : ∀ o q', o ∈ m.obs → o.dep = .qry q' → q' < r ∧ ∃ m', s.memos q' = some m' := by
            intro o q' ho hd
            obtain ⟨h1, m', h2, _⟩ := mok.i5 o q' ho hd
            exact ⟨h1, m', h2⟩
          have hcell : ∀ o c, o ∈ m.obs → o.dep = .cell c → o.recd = false :=
            fun o c ho hd => (mok.cellobs o c ho hd).2.1
          obtain ⟨d1, d2, d3, d4⟩ := deep_ok hmc m.obs s m.va hI hpre hcell
          generalize deepEdges mc m.obs s m.va = t at d1 d2 d3 d4
          have hm1 : t.1.memos r = some m := by rw [d2.above r (Nat.le_refl r)]; exact hm
          cases hres : t.2 with
          | true =>
            simp only [if_true, markDeepVerified_eq]
            have hinv := inv_markDeep d1 hm1 hu (d3 hres)
            have hval : m.gval = sem P s.inp s.cells r := by
              have := fresh_of_sok hP hinv r _ (setMemo_same _ _ _) (Or.inl rfl)
              simpa [d2.inp, d2.cells] using this
            refine ⟨inv_emit _ hinv,
              (ext_install (m' := { m with va := t.1.cur, deepAt := t.1.cur }) hI d2 ?_ d2.cur ?_).emit _,
              hval, _, setMemo_same _ _ _, d2.cur, rfl, rfl, rfl⟩
            · intro m0 h0; rw [hm] at h0; cases h0; exact hv
            · intro m0 h0; rw [hm] at h0; cases h0; exact Nat.le_refl _
          | false =>
            simp only [Bool.false_eq_true, if_false]
            exact reexec_ok hP hfe s t.1 m hI hm hv hsh d1 d2 (hback_deep hP hfe t.1 m d1 hm1 hu (d4 hres))

end SalsaVerif.Proofs.Core3
