/-
  The simulation between consecutive passes, part 2: `fetch`, the (nested) head loop, `execute`;
  `RH` for the head loop and `execute` (proved together with the simulation: that a loop which
  iterated ends converged rests on it).  Gate-free programs.  Core Lean only.
-/
import SalsaVerif.Proofs.CycleChainLoop

namespace SalsaVerif.Proofs.Cycle
open SalsaVerif.Model.Cycle

section
variable (P : Prog) (env : Nat → Nat)

theorem fetch_sim (hNF : NoFallback P) {exec : Nat → St → Res Fetched}
    (hX : ExecSpec P env exec) (hXH : ExecRH P env exec) (hS : ExecSim P env exec) :
    ReadSim P env (fetch P exec) := by
  intro e l r c v hs l' hIl hIr hIe hSim hEe h
  cases hp : l.poisoned.contains c with
  | true => rw [fetch_poisoned P exec c l hp] at h; cases h
  | false =>
    have hpr : r.poisoned.contains c = false := by rw [← hSim.poisoned]; exact hp
    cases hf : l.final.lookup c with
    | some w =>
      rw [fetch_final P exec c l hp hf] at h
      injection h with h; injection h with e1 h; injection h with e2 e3
      subst e1; subst e3
      have hfr : r.final.lookup c = some w := by rw [hSim.fin]; exact hEe.final c w hf
      exact ⟨w, [], r, fetch_final P exec c r hpr hfr, hSim, le_refl _, rfl⟩
    | none =>
      cases hst : l.stack.contains c with
      | true =>
        have hstr : r.stack.contains c = true := by rw [← hSim.stack]; exact hst
        have hfr : r.final.lookup c = none := (hIr.stackFresh c (by simpa using hstr)).2
        rw [fetch_stack P exec c l hp hf hst] at h
        have hstrat := fetchColdCycle_ok_strat P c l h
        cases hl : l.prov.lookup c with
        | some w =>
          rw [fetchColdCycle_some P c l hstrat hl] at h
          injection h with h; injection h with e1 h; injection h with e2 e3
          subst e1; subst e3
          obtain ⟨w', hw', hle⟩ := hSim.provLe c w hl
          refine ⟨w', [c], r, ?_, hSim, hle, rfl⟩
          rw [fetch_stack P exec c r hpr hfr hstr, fetchColdCycle_some P c r hstrat hw']
        | none =>
          rw [fetchColdCycle_none P c l hstrat hl] at h
          injection h with h; injection h with e1 h; injection h with e2 e3
          subst e1; subst e3
          have hle' : ({ l with prov := (c, cycleInitial P c) :: l.prov } : St).prov.lookup c
              = some (cycleInitial P c) := lookup_cons_self _ _ _
          have hhe : isHead e.prov c = true := isHead_iff.mpr ⟨_, hEe.prov c _ hle'⟩
          obtain ⟨w', hw'⟩ := isHead_iff.mp (hSim.heads c hhe)
          refine ⟨w', [c], r, ?_, ?_, ?_, rfl⟩
          · rw [fetch_stack P exec c r hpr hfr hstr, fetchColdCycle_some P c r hstrat hw']
          · refine ⟨hSim.stack, hSim.poisoned, hSim.fin, hSim.cacheNone, hSim.cacheLe, ?_,
              hSim.heads⟩
            intro k w hk
            have hk' : ((c, cycleInitial P c) :: l.prov).lookup k = some w := hk
            by_cases hkc : k = c
            · subst hkc
              rw [lookup_cons_self] at hk'
              injection hk' with hk'; subst hk'
              rw [cycleInitial_zero hNF]
              exact ⟨w', hw', zero_le _⟩
            · rw [lookup_cons_ne _ _ hkc] at hk'
              exact hSim.provLe k w hk'
          · rw [cycleInitial_zero hNF]; exact zero_le _
      | false =>
        have hstr : r.stack.contains c = false := by rw [← hSim.stack]; exact hst
        cases hc : l.cache.lookup c with
        | some en =>
          rw [fetch_cache P exec c l hp hf hst hc] at h
          injection h with h; injection h with e1 h; injection h with e2 e3
          subst e1; subst e3
          have hcv : cval l c = some en.val := by simp [cval, hc]
          obtain ⟨w', hw', hle⟩ := hSim.cacheLe c en.val hcv
          obtain ⟨en', hen', hval⟩ := cval_some_lookup hw'
          have hfe : e.final.lookup c = none := by
            apply hIe.cacheNotFinal c
            have := hEe.cache c en.val hcv
            intro hn
            rw [cval_none_iff.mpr hn] at this; cases this
          have hfr : r.final.lookup c = none := by rw [hSim.fin]; exact hfe
          refine ⟨en'.val, en'.heads, r, fetch_cache P exec c r hpr hfr hstr hen', hSim, ?_, rfl⟩
          rw [hval]; exact hle
        | none =>
          rw [fetch_exec P exec c l hp hf hst hc] at h
          have hcl : c ∉ l.stack := by simpa using hst
          cases hfr : r.final.lookup c with
          | some w =>
            obtain ⟨hIl', hstl', hEl', hAv⟩ := hX c l v hs l' hIl hcl hf hc h
            obtain ⟨_, hfin⟩ := hXH c l v hs l' hIl hcl hf hc h
            have hcn : cval l' c = none := by
              cases hv : cval l' c with
              | none => rfl
              | some u =>
                have h1 := hEe.cache c u hv
                have h2 : e.final.lookup c = none := by
                  apply hIe.cacheNotFinal c
                  intro hn
                  rw [cval_none_iff.mpr hn] at h1; cases h1
                rw [hSim.fin, h2] at hfr; cases hfr
            obtain ⟨hp0, hc0⟩ := hfin hcn
            have hcv0 : ∀ k, cval l' k = none := by
              intro k; simp [cval, hc0]
            refine ⟨w, [], r, fetch_final P exec c r hpr hfr, ?_, ?_, rfl⟩
            · refine ⟨hstl'.trans hSim.stack, hEl'.poisoned.trans hSim.poisoned, hSim.fin,
                ?_, ?_, ?_, hSim.heads⟩
              · intro k _
                apply hSim.cacheNone k
                cases hv : cval l k with
                | none => rfl
                | some u =>
                  have := hEl'.cache k u hv
                  rw [hcv0 k] at this; cases this
              · intro k u hk; rw [hcv0 k] at hk; cases hk
              · intro k u hk; rw [hp0] at hk; cases hk
            · rw [hIr.finalOk c w hfr]
              exact hIl'.avail_le P env hAv
          | none =>
            have hcr : r.cache.lookup c = none :=
              cval_none_iff.mp (hSim.cacheNone c (cval_none_iff.mpr hc))
            obtain ⟨v', hs', r', hr', hS', hle, hpv⟩ :=
              hS e l r c v hs l' hIl hIr hIe hSim hEe hcl hf hc hfr h
            exact ⟨v', hs', r', by rw [fetch_exec P exec c r hpr hfr hstr hcr]; exact hr',
              hS', hle, hpv⟩

/-- a nested head loop of pass `t` that ended in a provisional memo is mirrored by pass `t+1`. -/
theorem loop_sim (hNF : NoFallback P) (hG : P.NoGate) {read : Nat → St → Res Fetched}
    (hR : ReadSpec P env read) (hH : ReadRH P env read) (hS : ReadSim P env read)
    (c : Nat) (rest : List Nat)
    (fuel stamp fuel' stamp' : Nat) (e l r : St) (v : Nat) (hs : List Nat) (l' : St)
    (hIl : Inv P env l) (hIr : Inv P env r) (hIe : Inv P env e) (hSim : Sim e l r)
    (hEe : Ext l' e) (hst : l.stack = c :: rest) (hfr : r.final.lookup c = none)
    (hemp : (∀ k ∈ rest, isHead l.prov k = false) → l.prov = [] ∧ l.cache = [])
    (h : executeMaybeIterate P env read c (fuel + 1) stamp l = .ok (v, hs, l')) :
    ∃ v' hs' r', executeMaybeIterate P env read c (fuel' + 1) stamp' r = .ok (v', hs', r') ∧
      Sim e l' r' ∧ le v v' ∧ r'.prov = r.prov := by
  have hfl' : l'.final.lookup c = none := by
    cases hq : l'.final.lookup c with
    | none => rfl
    | some u =>
      have := hEe.final c u hq
      rw [hSim.fin, this] at hfr; cases hfr
  cases hev : evalM env read (P.node c).body l with
  | error err => rw [emi_body_error P env read c fuel stamp l hev] at h; cases h
  | ok res =>
    obtain ⟨v1, hs1, l1⟩ := res
    obtain ⟨hIl1, hst1, hE1, hrel⟩ := evalM_spec P env hR _ l v1 hs1 l1 hIl hev
    have hst1' : l1.stack = c :: rest := hst1.trans hst
    have hpv : ∀ x : Nat, (if (hsOf c hs1).isEmpty = true then x else participantValue P c x) = x := by
      intro x; split
      · rfl
      · exact participantValue_id hNF c x
    have hpv' : ∀ (hh : List Nat) (x : Nat),
        (if (hsOf c hh).isEmpty = true then x else participantValue P c x) = x := by
      intro hh x; split
      · rfl
      · exact participantValue_id hNF c x
    -- the right pass, once the left pass is known to end in a provisional memo
    have key : ∀ (w : Nat) (hsl : List Nat), Ext (stCached l1 c w hsl) e →
        belowOf l1 = true →
        ((l1.prov.lookup c = none ∧ w = v1) ∨
          ∃ last, l1.prov.lookup c = some last ∧ w = cycleFn P c last v1) →
        ∃ v' hs' r', executeMaybeIterate P env read c (fuel' + 1) stamp' r
            = .ok (v', hs', r') ∧
          Sim e (stCached l1 c w hsl) r' ∧ le w v' ∧ r'.prov = r.prov := by
      intro w hsl hEc hb hw
      have hE1e : Ext l1 e := (ext_stCached P env rest w hsl hIl1 hst1').trans hEc
      obtain ⟨v1', hs1', r1, hevr, hS1, hle1, hp1⟩ :=
        evalM_sim P env hR hS _ (noGate_node hG c) e l r v1 hs1 l1 hIl hIr hIe hSim hE1e hev
      have hbr := hS1.below hb
      cases hlr : r1.prov.lookup c with
      | none =>
        rcases hw with ⟨hl, hw⟩ | ⟨last, hl, hw⟩
        · subst hw
          refine ⟨_, _, _, emi_part P env read c fuel' stamp' r hevr hlr hbr, ?_, ?_, hp1⟩
          · rw [hpv' hs1' v1']; exact hS1.cached c _ _ hle1
          · rw [hpv' hs1' v1']; exact hle1
        · obtain ⟨w', hw', _⟩ := hS1.provLe c last hl
          rw [hlr] at hw'; cases hw'
      | some last' =>
        refine ⟨_, _, _, emi_nested P env read c fuel' stamp' r hevr hlr hbr, ?_, ?_, hp1⟩
        · apply hS1.cached c
          rcases hw with ⟨hl, hw⟩ | ⟨last, hl, hw⟩
          · subst hw; exact le_trans hle1 (cycleFn_bounds hNF c last' v1').1
          · subst hw
            obtain ⟨w', hw', hle⟩ := hS1.provLe c last hl
            rw [hlr] at hw'; injection hw' with hw'; subst hw'
            exact cycleFn_mono P c hle hle1
        · rcases hw with ⟨hl, hw⟩ | ⟨last, hl, hw⟩
          · subst hw; exact le_trans hle1 (cycleFn_bounds hNF c last' v1').1
          · subst hw
            obtain ⟨w', hw', hle⟩ := hS1.provLe c last hl
            rw [hlr] at hw'; injection hw' with hw'; subst hw'
            exact cycleFn_mono P c hle hle1
    cases hl : l1.prov.lookup c with
    | none =>
      cases hb : belowOf l1 with
      | true =>
        rw [emi_part P env read c fuel stamp l hev hl hb, hpv v1] at h
        injection h with h; injection h with e1 h; injection h with e2 e3
        subst e1; subst e3
        exact key v1 _ hEe hb (Or.inl ⟨hl, rfl⟩)
      | false =>
        rw [emi_final P env read c fuel stamp l hev hl hb] at h
        injection h with h; injection h with e1 h; injection h with e2 e3
        subst e3
        have : ((c, v1) :: l1.final).lookup c = none := hfl'
        rw [lookup_cons_self] at this; cases this
    | some last =>
      cases hb : belowOf l1 with
      | true =>
        rw [emi_nested P env read c fuel stamp l hev hl hb] at h
        injection h with h; injection h with e1 h; injection h with e2 e3
        subst e1; subst e3
        exact key _ _ hEe hb (Or.inr ⟨last, hl, rfl⟩)
      | false =>
        cases hc : converged (cache1Of l1 c (cycleFn P c last v1)) l1.prov with
        | true =>
          rw [emi_conv P env read c fuel stamp l hev hl hb hc] at h
          injection h with h; injection h with e1 h; injection h with e2 e3
          subst e3
          rw [stConv_final, cv1_self] at hfl'; cases hfl'
        | false =>
          cases hi : SalsaVerif.Gen.Stamp.IterationStamp.increment_iteration stamp with
          | none =>
            rw [emi_too P env read c fuel stamp l hev hl hb hc hi] at h
            cases h
          | some stamp2 =>
            rw [emi_iter P env read c fuel stamp l hev hl hb hc hi] at h
            have hnbl : ∀ k ∈ rest, isHead l.prov k = false := by
              intro k hk
              cases hh : isHead l.prov k with
              | false => rfl
              | true =>
                have := (belowOf_false_iff l1 rest c hst1').mp hb k hk
                rw [isHead_mono hE1 hh] at this; cases this
            obtain ⟨hp0, hc0⟩ := hemp hnbl
            have hP := pass_first P env read c rest hR hH hNF l l1 v1 last hs1 hIl hst hp0 hc0
              hev hl hb
            obtain ⟨_, _, hfin⟩ := loop_iter_conv P env read c rest hR hS hNF hG fuel stamp2
              _ _ _ _ _ v hs l' hP h
            rw [hfl'] at hfin; cases hfin

/-- the head loop as `execute` starts it: `RH`, and a loop that does not end in a provisional
    memo ends with no provisional state at all. -/
theorem loop_RH (hNF : NoFallback P) (hG : P.NoGate) {read : Nat → St → Res Fetched}
    (hR : ReadSpec P env read) (hH : ReadRH P env read) (hS : ReadSim P env read)
    (j : Nat) (rest : List Nat)
    (fuel stamp : Nat) (s : St) (v : Nat) (hs : List Nat) (s' : St)
    (hI : Inv P env s) (hst : s.stack = j :: rest)
    (hemp : (∀ k ∈ rest, isHead s.prov k = false) → s.prov = [] ∧ s.cache = [])
    (h : executeMaybeIterate P env read j (fuel + 1) stamp s = .ok (v, hs, s')) :
    RH s s' ∧ (cval s' j = none → s'.prov = [] ∧ s'.cache = []) := by
  cases hev : evalM env read (P.node j).body s with
  | error e => rw [emi_body_error P env read j fuel stamp s hev] at h; cases h
  | ok r =>
    obtain ⟨v1, hs1, s1⟩ := r
    obtain ⟨hI1, hst1, hE1, hrel⟩ := evalM_spec P env hR _ s v1 hs1 s1 hI hev
    have hst1' : s1.stack = j :: rest := hst1.trans hst
    have hRH1 := evalM_RH P env hR hH _ s v1 hs1 s1 hI hev
    cases hl : s1.prov.lookup j with
    | none =>
      cases hb : belowOf s1 with
      | true =>
        rw [emi_part P env read j fuel stamp s hev hl hb] at h
        injection h with h; injection h with e1 h; injection h with e2 e3
        subst e3
        refine ⟨RH_stCached rest _ _ hst1' hRH1, ?_⟩
        intro hn; rw [cval_cons_self] at hn; cases hn
      | false =>
        rw [emi_final P env read j fuel stamp s hev hl hb] at h
        injection h with h; injection h with e1 h; injection h with e2 e3
        subst e3
        have hno : ¬ HeadOn s1 := by
          intro ⟨k, hk, hp⟩
          rw [hst1'] at hk
          cases hk with
          | head => simp [isHead, hl] at hp
          | tail _ hk =>
            have := (belowOf_false_iff s1 rest j hst1').mp hb k hk
            rw [hp] at this; cases this
        obtain ⟨hc0, hp0⟩ := hI1.empty hno
        exact ⟨RH_of_prov_nil hp0, fun _ => ⟨hp0, hc0⟩⟩
    | some last =>
      cases hb : belowOf s1 with
      | true =>
        rw [emi_nested P env read j fuel stamp s hev hl hb] at h
        injection h with h; injection h with e1 h; injection h with e2 e3
        subst e3
        refine ⟨RH_stCached rest _ _ hst1' hRH1, ?_⟩
        intro hn; rw [cval_cons_self] at hn; cases hn
      | false =>
        cases hc : converged (cache1Of s1 j (cycleFn P j last v1)) s1.prov with
        | true =>
          rw [emi_conv P env read j fuel stamp s hev hl hb hc] at h
          injection h with h; injection h with e1 h; injection h with e2 e3
          subst e3
          exact ⟨RH_of_prov_nil rfl, fun _ => ⟨rfl, rfl⟩⟩
        | false =>
          cases hi : SalsaVerif.Gen.Stamp.IterationStamp.increment_iteration stamp with
          | none =>
            rw [emi_too P env read j fuel stamp s hev hl hb hc hi] at h
            cases h
          | some stamp' =>
            rw [emi_iter P env read j fuel stamp s hev hl hb hc hi] at h
            have hnb : ∀ k ∈ rest, isHead s.prov k = false := by
              intro k hk
              cases hh : isHead s.prov k with
              | false => rfl
              | true =>
                have := (belowOf_false_iff s1 rest j hst1').mp hb k hk
                rw [isHead_mono hE1 hh] at this; cases this
            obtain ⟨hp0, hc0⟩ := hemp hnb
            have hP := pass_first P env read j rest hR hH hNF s s1 v1 last hs1 hI hst hp0 hc0
              hev hl hb
            obtain ⟨hp, hc', _⟩ := loop_iter_conv P env read j rest hR hS hNF hG fuel stamp'
              _ _ _ _ _ v hs s' hP h
            exact ⟨RH_of_prov_nil hp, fun _ => ⟨hp, hc'⟩⟩

/-- a state with `j` pushed: if no head is active below `j` there is no provisional state. -/
theorem push_emp {s : St} {j : Nat} (hI : Inv P env s) :
    (∀ k ∈ s.stack, isHead ({ s with stack := j :: s.stack } : St).prov k = false) →
      ({ s with stack := j :: s.stack } : St).prov = [] ∧
      ({ s with stack := j :: s.stack } : St).cache = [] := by
  intro hnb
  have hno : ¬ HeadOn s := by
    intro ⟨k, hk, hp⟩
    have := hnb k hk
    rw [show isHead ({ s with stack := j :: s.stack } : St).prov k = isHead s.prov k from rfl,
      hp] at this
    cases this
  obtain ⟨hc0, hp0⟩ := hI.empty hno
  exact ⟨hp0, hc0⟩

/-- `RH` and the simulation for `execute`, together (induction on the depth fuel). -/
theorem execute_RH_sim (hNF : NoFallback P) (hG : P.NoGate) :
    ∀ d, ExecRH P env (execute P env d) ∧ ExecSim P env (execute P env d) := by
  intro d
  induction d with
  | zero =>
    constructor
    · intro j s v hs s' _ _ _ _ h; simp [execute] at h
    · intro e l r c v hs l' _ _ _ _ _ _ _ _ _ h; simp [execute] at h
  | succ d ih =>
    have hXd := execute_spec P env hNF d
    have hR := fetch_spec P env hNF hXd
    have hH := fetch_RH P env ih.1
    have hS := fetch_sim P env hNF hXd ih.1 ih.2
    constructor
    · intro j s v hs s' hI hj hf hc h
      unfold execute at h
      exact loop_RH P env hNF hG hR hH hS j s.stack SalsaVerif.Gen.Stamp.MAX_ITERATIONS _
        { s with stack := j :: s.stack } v hs s' (inv_push P env hI hj hf hc) rfl
        (push_emp P env hI) h
    · intro e l r c v hs l' hIl hIr hIe hSim hEe hcl hfl hcl' hfr h
      unfold execute at h ⊢
      have hcr : c ∉ r.stack := by rw [← hSim.stack]; exact hcl
      have hcr' : r.cache.lookup c = none :=
        cval_none_iff.mp (hSim.cacheNone c (cval_none_iff.mpr hcl'))
      exact loop_sim P env hNF hG hR hH hS c l.stack
        SalsaVerif.Gen.Stamp.MAX_ITERATIONS _ SalsaVerif.Gen.Stamp.MAX_ITERATIONS _ e
        { l with stack := c :: l.stack } { r with stack := c :: r.stack } v hs l'
        (inv_push P env hIl hcl hfl hcl') (inv_push P env hIr hcr hfr hcr') hIe (hSim.push c) hEe
        rfl hfr (push_emp P env hIl) h

theorem execute_RH (hNF : NoFallback P) (hG : P.NoGate) (d : Nat) :
    ExecRH P env (execute P env d) := (execute_RH_sim P env hNF hG d).1

theorem execute_sim (hNF : NoFallback P) (hG : P.NoGate) (d : Nat) :
    ExecSim P env (execute P env d) := (execute_RH_sim P env hNF hG d).2

end

end SalsaVerif.Proofs.Cycle
