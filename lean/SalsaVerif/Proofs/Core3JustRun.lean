/-
  Core3 engine (stage S3, invariant `InvE`): the trace relation `Tr3` (Proofs/Core3JustTr.lean) holds
  of every piece of the engine.  Part 2: `runBody`, `deepEdges`, `execute`.
  A failed edge walk yields a recorded edge that answered "changed" (`EdgeCh`, read off the state at
  the end of the walk, which is the state right after that answer).  Core Lean only.
-/
import SalsaVerif.Proofs.Core3JustTr

namespace SalsaVerif.Proofs.Core3E
open SalsaVerif.Model.Core3 SalsaVerif.Proofs.Core3

structure FetchTr3 (P : Prog) (r : Nat) (fe : FetchFn) : Prop where
  tr : ∀ s q, q < r → InvE P s → Tr3 P s (fe s q).1

structure McaTr3 (P : Prog) (r : Nat) (mc : McaFn) : Prop where
  tr : ∀ s q rev, q < r → InvE P s → (∃ m, s.memos q = some m) →
    Tr3 P s (mc s q rev).1 ∧
    ((mc s q rev).2 = true → EdgeCh (mc s q rev).1 (mc s q rev).1 rev (.qry q))

theorem run_tr3 {P r fe} (hfe : FetchSpecE P r fe) (hft : FetchTr3 P r fe) : ∀ b, WfB r b →
    ∀ s f, InvE P s → FrInvE s f → Tr3 P s (runBody fe b s f).1 := by
  intro b hb
  induction hb with
  | ret v => intro s f _ _; exact Tr3.refl P s
  | read d k hd hk ih =>
    intro s f hI fi
    simp only [runBody]
    obtain ⟨g1, _, _, _, g5, _⟩ := readDep_ok hfe (s := s) (f := f) (d := d) hI fi hd
    have gt : Tr3 P s (readDep fe s f d).1 := by
      cases d with
      | inp i => exact Tr3.refl P s
      | cell c => exact Tr3.refl P s
      | qry q => exact hft.tr s q (hd q rfl) hI
    generalize readDep fe s f d = rd at g1 g5 gt
    exact gt.trans (ih rd.2.1 rd.1 rd.2.2 g1 g5)

theorem deep_tr3 {P r mc} (hmc : McaSpecE P r mc) (hmt : McaTr3 P r mc) : ∀ obs s rev, InvE P s →
    (∀ o q', o ∈ obs → o.dep = .qry q' → q' < r ∧ ∃ m, s.memos q' = some m) →
    (∀ o c, o ∈ obs → o.dep = .cell c → o.recd = false) →
    Tr3 P s (deepEdges mc obs s rev).1 ∧
    ((deepEdges mc obs s rev).2 = false → ∃ o, o ∈ obs ∧ o.recd = true ∧
      EdgeCh (deepEdges mc obs s rev).1 (deepEdges mc obs s rev).1 rev o.dep) := by
  intro obs
  induction obs with
  | nil =>
    intro s rev _ _ _
    simp only [deepEdges]
    exact ⟨Tr3.refl P s, by simp⟩
  | cons o rest ih =>
    intro s rev hI hpre hcell
    have hcell_rest : ∀ o' c, o' ∈ rest → o'.dep = .cell c → o'.recd = false :=
      fun o' c hm hd => hcell o' c (by simp [hm]) hd
    have hpre_rest : ∀ o' q', o' ∈ rest → o'.dep = .qry q' → q' < r ∧ ∃ m, s.memos q' = some m :=
      fun o' q' hm hd => hpre o' q' (by simp [hm]) hd
    simp only [deepEdges]
    by_cases hrec : o.recd = true
    · simp only [hrec, if_true]
      have first : InvE P (depChanged mc s o.dep rev).1 ∧ ExtE s (depChanged mc s o.dep rev).1 r ∧
          Tr3 P s (depChanged mc s o.dep rev).1 ∧
          ((depChanged mc s o.dep rev).2 = true →
            EdgeCh (depChanged mc s o.dep rev).1 (depChanged mc s o.dep rev).1 rev o.dep) := by
        cases hd : o.dep with
        | cell c => have := hcell o c (by simp) hd; rw [hrec] at this; cases this
        | inp i =>
          simp only [depChanged]
          exact ⟨hI, ExtE.refl s r, Tr3.refl P s, fun h => .inp (of_decide_eq_true h)⟩
        | qry q =>
          simp only [depChanged]
          obtain ⟨hq, hm⟩ := hpre o q (by simp) hd
          obtain ⟨a1, a2, _⟩ := hmc.ok s q rev hq hI hm
          obtain ⟨b1, b2⟩ := hmt.tr s q rev hq hI hm
          exact ⟨a1, a2, b1, b2⟩
      obtain ⟨f1, f2, f3, f4⟩ := first
      by_cases hch : (depChanged mc s o.dep rev).2 = true
      · simp only [hch, if_true]
        exact ⟨f3, fun _ => ⟨o, by simp, hrec, f4 hch⟩⟩
      · have hch' : (depChanged mc s o.dep rev).2 = false := by
          cases h : (depChanged mc s o.dep rev).2 <;> simp_all
        simp only [hch']
        have hpre' : ∀ o' q', o' ∈ rest → o'.dep = .qry q' →
            q' < r ∧ ∃ m, (depChanged mc s o.dep rev).1.memos q' = some m := by
          intro o' q' hm hd
          obtain ⟨hq, m, hmm⟩ := hpre_rest o' q' hm hd
          obtain ⟨m', hm', _⟩ := f2.mono q' m hmm
          exact ⟨hq, m', hm'⟩
        obtain ⟨i1, i2⟩ := ih (depChanged mc s o.dep rev).1 rev f1 hpre' hcell_rest
        refine ⟨f3.trans i1, fun h => ?_⟩
        obtain ⟨o', ho', hr', hc'⟩ := i2 h
        exact ⟨o', by simp [ho'], hr', hc'⟩
    · have hrec' : o.recd = false := by cases h : o.recd <;> simp_all
      simp only [hrec', Bool.false_eq_true, if_false]
      obtain ⟨i1, i2⟩ := ih s rev hI hpre_rest hcell_rest
      refine ⟨i1, fun h => ?_⟩
      obtain ⟨o', ho', hr', hc'⟩ := i2 h
      exact ⟨o', by simp [ho'], hr', hc'⟩

/-- `execute` from a state in which the execution of `r` is justified -/
theorem tr_execute3 {P r fe} (hP : Wf P) (hfe : FetchSpecE P r fe) (hft : FetchTr3 P r fe) (t : State)
    (old : Option Memo) (hI : InvE P t) (hold : t.memos r = old)
    (hval : ∀ o, old = some o → SOK t o → o.value = none) (hj : Just3 t t r) :
    Tr3 P t (execute fe P t r old).1 := by
  have hstep := execute_ok hP hfe t old hI hold hval
  have hI0 := inv_emit (.exec r) hI
  have hrun := run_ok hfe (P.body r) (hP r) (emit t (.exec r)) frame0 hI0 (frInv0 hI0)
  have htr := run_tr3 hfe hft (P.body r) (hP r) (emit t (.exec r)) frame0 hI0 (frInv0 hI0)
  rw [execute_eq] at hstep ⊢
  generalize runBody fe (P.body r) (emit t (.exec r)) frame0 = r0 at hstep hrun htr
  obtain ⟨n1, e1, b⟩ := tr_of_emit _ htr
  obtain ⟨_, k2, _⟩ := hrun
  obtain ⟨_, hx, _, mf, hmf, hmfva, hmfval, _⟩ := hstep
  simp only at hx hmf hmfval
  have hur : r0.1.memos r = t.memos r := k2.above r (Nat.le_refl r)
  have hnm : mf = execMemo P r old r0 := by
    rw [setMemo_same] at hmf; exact (Option.some.inj hmf).symm
  subst hnm
  -- frame facts of the whole step
  have hstab : Stab3 t (setMemo r0.1 r (execMemo P r old r0)) := by
    refine ⟨hx.cur, hx.lch, hx.inp, hx.mono, ?_, ?_⟩
    · intro q
      by_cases hq : q = r
      · subst hq; exact Or.inr ⟨_, setMemo_same _ _ _, hmfva⟩
      · rw [setMemo_other _ _ _ hq]; exact b.stab.touched q
    · intro q m' hm' hn
      by_cases hq : q = r
      · subst hq
        rw [setMemo_same] at hm'; cases hm'
        rw [hmfval] at hn; cases hn
      · rw [setMemo_other _ _ _ hq] at hm'; exact b.stab.evk q m' hm' hn
  -- from the end of the body to the installed memo
  have hs2 : Stab3 r0.1 (setMemo r0.1 r (execMemo P r old r0)) := by
    refine ⟨rfl, rfl, rfl, ?_, ?_, ?_⟩
    · intro q m hm
      by_cases hq : q = r
      · subst hq
        rw [hur] at hm
        obtain ⟨m', hm', a, c⟩ := hx.mono q m hm
        exact ⟨m', hm', a, c⟩
      · exact ⟨m, by rw [setMemo_other _ _ _ hq]; exact hm, Nat.le_refl _, Nat.le_refl _⟩
    · intro q
      by_cases hq : q = r
      · subst hq; exact Or.inr ⟨_, setMemo_same _ _ _, by rw [hmfva, k2.cur]; rfl⟩
      · exact Or.inl (setMemo_other _ _ _ hq)
    · intro q m' hm' hn
      by_cases hq : q = r
      · subst hq
        rw [setMemo_same] at hm'; cases hm'
        rw [hmfval] at hn; cases hn
      · rw [setMemo_other _ _ _ hq] at hm'; exact ⟨m', hm', hn⟩
  refine ⟨.exec r :: n1, by simp only [setMemo_trace]; exact e1, hstab, hx.stable, ?_, ?_, ?_, ?_, ?_⟩
  · intro p hp
    simp only [List.mem_cons, Ev.exec.injEq] at hp
    rcases hp with hp | hp
    · subst hp; exact hj.right hstab
    · exact (b.just p hp).right hs2
  · intro p m m' hm hm' hne
    have hpr : p ≠ r := fun e => hne (by rw [e]; simp)
    rw [setMemo_other _ _ _ hpr] at hm'
    exact b.nochg p m m' hm hm' (fun h => hne (List.mem_cons_of_mem _ h))
  · intro p m m' hm hv hm' hv'
    by_cases hpr : p = r
    · subst hpr; exact Or.inr (by simp)
    · rw [setMemo_other _ _ _ hpr] at hm'
      rcases b.ver p m m' hm hv hm' hv' with h | h
      · exact Or.inl (List.mem_cons_of_mem _ h)
      · exact Or.inr (List.mem_cons_of_mem _ h)
  · intro p m' hn hm'
    by_cases hpr : p = r
    · subst hpr; simp
    · rw [setMemo_other _ _ _ hpr] at hm'
      exact List.mem_cons_of_mem _ (b.fresh p m' hn hm')
  · intro p m m' hm hm' hk hvn hveq hdur
    by_cases hpr : p = r
    · subst hpr
      rw [setMemo_same] at hm'; cases hm'
      rw [hold] at hm; subst hm
      simp only [execMemo, newMemo] at hveq hdur ⊢
      have hb : canBackdate (P.kind p) m r0.2.2 r0.2.1 = true :=
        (canBackdate_iff _ _ _ _).mpr ⟨hk, hveq.symm, hdur⟩
      simp only [backdateCa, hb, if_true]
    · rw [setMemo_other _ _ _ hpr] at hm'
      exact b.bd p m m' hm hm' hk hvn hveq hdur

end SalsaVerif.Proofs.Core3E
