/-
  C26 with flattening: `executeP` preserves `J` and returns the from-scratch value.
  Core Lean only.
-/
import SalsaVerif.Proofs.PersistFlat6b

namespace SalsaVerif.Proofs.PersistFlat
open SalsaVerif.Model.Core SalsaVerif.Model.Persist SalsaVerif.Proofs.Core SalsaVerif.Proofs.Persist

theorem SOK_congr {s t : State} (h1 : t.cur = s.cur) (h2 : t.lch = s.lch) (m : Memo) : SOK t m ↔ SOK s m := by
  simp only [SOK, lc_congr h1 h2, h1]

theorem execute_okJ {pers P r fe H R0} (hP : Wf P) (hfe : FetchSpecJ pers P r fe) (s : State)
    (old : Option Memo) (hJ : J pers P H R0 s) (hA : AllRec s) (hold : s.memos r = old)
    (hstale : ∀ mo, s.memos r = some mo → ¬ SOK s mo) :
    J pers P H R0 (executeP fe P s r old).1 ∧ AllRec (executeP fe P s r old).1 ∧
    Fr s (executeP fe P s r old).1 (r + 1) ∧
    (executeP fe P s r old).2.val = sem P s.inp r ∧
    ∃ m, (executeP fe P s r old).1.memos r = some m ∧ m.va = s.cur ∧
      m.value = (executeP fe P s r old).2.val ∧ m.ca = (executeP fe P s r old).2.ca ∧
      m.dur = (executeP fe P s r old).2.dur := by
  have hrun := run_okJ hfe (P r) (hP r) (emit s (.exec r)) frame0 (J_emit _ hJ) hA
  generalize hr0 : runBodyP fe (P r) (emit s (.exec r)) frame0 = r0 at hrun
  obtain ⟨k1, kA, k2, ko⟩ := hrun
  have k2' : Fr s r0.1 r := ⟨k2.cur, k2.lch, k2.inp, k2.above, k2.stable, k2.keep⟩
  have hmr : r0.1.memos r = old := by rw [k2'.above r (Nat.le_refl r)]; exact hold
  have hexec : executeP fe P s r old =
      (setMemo r0.1 r (newMemo r0.2.2 r0.1.cur (backdateCa (r0.1.memos r) r0.2.2 r0.2.1) r0.2.1.dur r0.2.1.obs),
       ⟨r0.2.2, backdateCa (r0.1.memos r) r0.2.2 r0.2.1, r0.2.1.dur⟩) := by
    simp only [executeP, hr0, hmr]
  rw [hexec]
  have hinp : r0.1.inp = s.inp := k2'.inp
  obtain ⟨v1, ⟨new, o1, o2, o3⟩, v3, v4, v5, v6, v7, v8⟩ := ko
  have hsd : sdeps P r0.1.inp r = depsB (semDep P s.inp) (P r) := by rw [hinp]; rfl
  have hx : ExecCtx P r0.1 r r0.2.1 r0.2.2 := by
    refine ⟨?_, ?_, ?_, ?_, ?_, ?_, ?_⟩
    · intro d hd; rw [hsd] at hd; exact v3 d hd
    · rw [hsd, o1]; simpa [frame0] using o2
    · rw [hinp, sem_unfold P s.inp hP r]; exact v1
    · rw [k2'.cur]; exact v6 hJ.base.cur1
    · rcases v7 with h | ⟨d, a, b⟩
      · exact Or.inl h
      · exact Or.inr ⟨d, by rw [hsd]; exact a, b⟩
    · exact v5
    · rcases v8 with h | ⟨d, a, b⟩
      · exact Or.inl h
      · exact Or.inr ⟨d, by rw [hsd]; exact a, b⟩
  have hst : ∀ mo, r0.1.memos r = some mo → ¬ SOK r0.1 mo := by
    intro mo hmo hs
    rw [hmr, ← hold] at hmo
    exact hstale mo hmo ((SOK_congr k2'.cur k2'.lch mo).mp hs)
  refine ⟨install_exec hP k1 hx hst, ?_, ?_, by show r0.2.2 = sem P s.inp r; rw [v1, sem_unfold P s.inp hP r, emit_inp], ?_⟩
  · apply allRec_setMemo kA
    intro o ho
    simp only [newMemo] at ho
    rw [o1] at ho
    simp only [frame0, List.nil_append] at ho
    exact o3 o ho
  · refine ⟨by simp [k2'.cur], by simp [k2'.lch], by simp [k2'.inp], ?_, ?_, ?_⟩
    · intro q hq
      have hne : q ≠ r := by omega
      rw [setMemo_other _ _ _ hne]; exact k2'.above q (by omega)
    · intro q m hm hv
      by_cases hqr : q = r
      · subst hqr; exact absurd (Or.inl hv) (hstale m hm)
      · rw [setMemo_other _ _ _ hqr]; exact k2'.stable q m hm hv
    · intro q m hm
      by_cases hqr : q = r
      · subst hqr; exact ⟨_, setMemo_same _ _ _⟩
      · rw [setMemo_other _ _ _ hqr]; exact k2'.keep q m hm
  · exact ⟨_, setMemo_same _ _ _, k2'.cur, rfl, rfl, rfl⟩

end SalsaVerif.Proofs.PersistFlat
