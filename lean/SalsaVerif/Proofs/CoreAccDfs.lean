/-
  CoreAcc: the search of `accumulated_by`.

  Layer 1 (`accVisit_pure`): after the initial `fetch`, every key the search reaches passes the
  shallow test (clause I3 is hereditary), so each `refresh_memo` of the search is a hit or a
  `mark_as_verified` — the state changes by verification stamps only (`Ver`) and the output is that
  of the search on the frozen memo table (`pVisit`).

  Layer 2 (`pVisit_ref`): on a memo table satisfying the invariant, the search — which follows
  recorded edges only and prunes at `accumulated_inputs = Empty` — produces the preorder of the
  full from-scratch call tree (`refVisit`).  The two visited sets differ by keys whose whole call
  tree pushes nothing (`Empty`), which is what the flag clauses A2/A3 of the invariant guarantee.

  Core Lean only.
-/
import SalsaVerif.Proofs.CoreAccTop

namespace SalsaVerif.Proofs.CoreAcc
open SalsaVerif.Model.CoreAcc

/-! ### the search on a frozen memo table -/

abbrev PVisitFn := Dep → List Dep → List Dep × List Nat

def pVisitEdges (visit : PVisitFn) : List Obs → List Dep → List Dep × List Nat
  | [], vis => (vis, [])
  | o :: os, vis =>
    if o.recd then
      let r := visit o.dep vis
      let t := pVisitEdges visit os r.1
      (t.1, r.2 ++ t.2)
    else pVisitEdges visit os vis

def pVisit (M : Nat → Option Memo) : Nat → PVisitFn
  | 0 => fun d vis =>
    if d ∈ vis then (vis, [])
    else match d with
      | .inp _ => (d :: vis, [])
      | .qry _ => (vis, [])
  | r + 1 => fun d vis =>
    if d ∈ vis then (vis, [])
    else match d with
      | .inp _ => (d :: vis, [])
      | .qry k =>
        if k < r then pVisit M r d vis
        else if k = r then
          match M r with
          | none => (d :: vis, [])
          | some m =>
            if m.accIn then
              let t := pVisitEdges (pVisit M r) m.obs (d :: vis)
              (t.1, m.acc ++ t.2)
            else (d :: vis, m.acc)
        else (vis, [])

/-! ### Layer 1 -/

/-- `s` differs from `s0` by verification stamps (and the event trace) only -/
structure Ver (s0 s : State) : Prop where
  cur : s.cur = s0.cur
  lch : s.lch = s0.lch
  inp : s.inp = s0.inp
  memos : ∀ q, s.memos q = s0.memos q ∨ ∃ m, s0.memos q = some m ∧ s.memos q = some { m with va := s0.cur }

theorem Ver.refl (s : State) : Ver s s := ⟨rfl, rfl, rfl, fun _ => Or.inl rfl⟩

theorem Ver.lc {s0 s} (h : Ver s0 s) (d : Nat) : lc s d = lc s0 d := by
  simp [SalsaVerif.Model.CoreAcc.lc, h.cur, h.lch]

theorem ver_memo {s0 s : State} {q : Nat} {m0 : Memo} (hV : Ver s0 s) (hm0 : s0.memos q = some m0) (hs0 : SOK s0 m0) :
    ∃ ms, s.memos q = some ms ∧ SOK s ms ∧ ms.acc = m0.acc ∧ ms.accIn = m0.accIn ∧ ms.obs = m0.obs ∧
      ({ ms with va := s.cur } : Memo) = { m0 with va := s0.cur } := by
  rcases hV.memos q with h | ⟨m, hm, h⟩
  · refine ⟨m0, by rw [h, hm0], ?_, rfl, rfl, rfl, by rw [hV.cur]⟩
    rcases hs0 with a | a
    · left; rw [a, hV.cur]
    · right; rw [hV.lc]; exact a
  · rw [hm0] at hm; cases hm
    exact ⟨{ m0 with va := s0.cur }, h, Or.inl (by simp [hV.cur]), rfl, rfl, rfl, by simp [hV.cur]⟩

/-- `refresh_memo` of a memo that passes the shallow test: a hit or `mark_as_verified` -/
theorem refresh_sok (fe : FetchFn) (mc : McaFn) (P : Nat → Body) {s : State} {r : Nat} {ms : Memo}
    (hms : s.memos r = some ms) (hs : SOK s ms) :
    (fetchStep fe mc P s r).1.cur = s.cur ∧ (fetchStep fe mc P s r).1.lch = s.lch ∧
    (fetchStep fe mc P s r).1.inp = s.inp ∧
    (∀ q, q ≠ r → (fetchStep fe mc P s r).1.memos q = s.memos q) ∧
    (fetchStep fe mc P s r).1.memos r = some { ms with va := s.cur } := by
  unfold fetchStep
  rw [hms]
  simp only
  by_cases hv : ms.va = s.cur
  · rw [if_pos hv]
    refine ⟨rfl, rfl, rfl, fun _ _ => rfl, ?_⟩
    show s.memos r = _
    rw [hms]
    cases ms
    simp only at hv
    simp [hv]
  · have hl : lc s ms.dur ≤ ms.va := by
      rcases hs with h | h
      · exact absurd h hv
      · exact h
    simp only [hv, if_false, hl, if_true, markVerified_eq]
    exact ⟨rfl, rfl, rfl, fun q hq => by simp [setMemo_other _ _ _ hq], by simp⟩

def VisitSpec (P : Nat → Body) (s0 : State) (visit : VisitFn) (pv : PVisitFn) : Prop :=
  ∀ s d vis, Inv P s → Ver s0 s → sokDep s0 d →
    Inv P (visit s d vis).1 ∧ Ver s0 (visit s d vis).1 ∧ (visit s d vis).2 = pv d vis

theorem accVisitEdges_pure {P s0 visit pv} (H : VisitSpec P s0 visit pv) : ∀ obs s vis, Inv P s → Ver s0 s →
    (∀ o, o ∈ obs → sokDep s0 o.dep) →
    Inv P (accVisitEdges visit obs s vis).1 ∧ Ver s0 (accVisitEdges visit obs s vis).1 ∧
    (accVisitEdges visit obs s vis).2 = pVisitEdges pv obs vis := by
  intro obs
  induction obs with
  | nil => intro s vis hI hV _; exact ⟨hI, hV, rfl⟩
  | cons o os ih =>
    intro s vis hI hV hsok
    simp only [accVisitEdges, pVisitEdges]
    by_cases hrec : o.recd = true
    · simp only [hrec, if_true]
      obtain ⟨a1, a2, a3⟩ := H s o.dep vis hI hV (hsok o (by simp))
      obtain ⟨b1, b2, b3⟩ := ih (visit s o.dep vis).1 (visit s o.dep vis).2.1 a1 a2
        (fun o' h => hsok o' (by simp [h]))
      refine ⟨b1, b2, ?_⟩
      rw [b3, a3]
    · have hrec' : o.recd = false := by cases h : o.recd <;> simp_all
      simp only [hrec', Bool.false_eq_true, if_false]
      exact ih s vis hI hV (fun o' h => hsok o' (by simp [h]))

theorem eng_fetch_eq (P : Nat → Body) (r : Nat) (s : State) :
    (eng P (r + 1)).1 s r = fetchStep (eng P r).1 (eng P r).2 P s r := by
  simp [eng]

/-- **Layer 1**: the search over the engine = the search on the frozen table of `s0` -/
theorem accVisit_pure {P} (hP : Wf P) {s0 : State} (hI0 : Inv P s0) :
    ∀ r, VisitSpec P s0 (accVisit P r) (pVisit s0.memos r) := by
  intro r
  induction r with
  | zero =>
    intro s d vis hI hV _
    simp only [accVisit, pVisit]
    split
    · exact ⟨hI, hV, rfl⟩
    · cases d <;> exact ⟨hI, hV, rfl⟩
  | succ r ih =>
    intro s d vis hI hV hsd
    simp only [accVisit, pVisit]
    by_cases hmem : d ∈ vis
    · simp only [hmem, if_true]; exact ⟨hI, hV, trivial⟩
    · simp only [hmem, if_false]
      cases d with
      | inp i => exact ⟨hI, hV, rfl⟩
      | qry k =>
        simp only
        by_cases hlt : k < r
        · simp only [hlt, if_true]; exact ih s (.qry k) vis hI hV hsd
        · simp only [hlt, if_false]
          by_cases hkr : k = r
          · subst hkr
            simp only [if_true]
            obtain ⟨m0, hm0, hs0⟩ := hsd
            obtain ⟨ms, hms, hss, e1, e2, e3, e4⟩ := ver_memo hV hm0 hs0
            have hIf : Inv P ((eng P (k + 1)).1 s k).1 :=
              ((eng_ok hP (k + 1)).1.ok s k (Nat.lt_succ_self k) hI).1
            rw [eng_fetch_eq] at hIf ⊢
            obtain ⟨f1, f2, f3, f4, f5⟩ := refresh_sok (eng P k).1 (eng P k).2 P hms hss
            generalize fetchStep (eng P k).1 (eng P k).2 P s k = f at hIf f1 f2 f3 f4 f5
            have hVf : Ver s0 f.1 := by
              refine ⟨by rw [f1, hV.cur], by rw [f2, hV.lch], by rw [f3, hV.inp], ?_⟩
              intro q
              by_cases hq : q = k
              · subst hq
                right
                exact ⟨m0, hm0, by rw [f5, e4]⟩
              · rw [f4 q hq]; exact hV.memos q
            rw [f5, hm0]
            simp only [e2, e1, e3]
            have hch : ∀ o, o ∈ m0.obs → sokDep s0 o.dep := fun o ho => ((hI0.memo k m0 hm0).i3 hs0 o ho).2
            cases hai : m0.accIn with
            | false => simp only [Bool.false_eq_true, if_false]; exact ⟨hIf, hVf, trivial⟩
            | true =>
              simp only [if_true]
              obtain ⟨b1, b2, b3⟩ := accVisitEdges_pure ih m0.obs f.1 (.qry k :: vis) hIf hVf hch
              refine ⟨b1, b2, ?_⟩
              rw [b3]
          · simp only [hkr, if_false]; exact ⟨hI, hV, trivial⟩

/-! ### Layer 2 -/

/-- the whole from-scratch call tree of `k` pushes nothing -/
inductive Empty (P : Nat → Body) (inp : Nat → Inp) : Nat → Prop
  | mk (k : Nat) : pushesOf P inp k = [] → (∀ c, c ∈ callsOf P inp k → Empty P inp c) → Empty P inp k

theorem Empty.pushes {P inp k} (h : Empty P inp k) : pushesOf P inp k = [] := by
  cases h; assumption

theorem Empty.calls {P inp k} (h : Empty P inp k) : ∀ c, c ∈ callsOf P inp k → Empty P inp c := by
  cases h; assumption

theorem depCall_qry (c : Nat) : depCall (.qry c) = [c] := rfl
theorem depCall_inp (i : Nat) : depCall (.inp i) = [] := rfl

theorem mem_calls {l : List Obs} {c : Nat} :
    c ∈ (l.map fun o => depCall o.dep).flatten ↔ ∃ o, o ∈ l ∧ o.dep = .qry c := by
  simp only [List.mem_flatten, List.mem_map]
  constructor
  · rintro ⟨x, ⟨o, ho, rfl⟩, hc⟩
    refine ⟨o, ho, ?_⟩
    cases hd : o.dep with
    | inp i => rw [hd] at hc; simp [depCall] at hc
    | qry q => rw [hd] at hc; simp [depCall] at hc; rw [hc]
  · rintro ⟨o, ho, hd⟩
    exact ⟨_, ⟨o, ho, rfl⟩, by rw [hd]; simp [depCall]⟩

/-- what the invariant says about a memo table, for the keys that pass the shallow test -/
structure Snap (P : Nat → Body) (s0 : State) : Prop where
  acc : ∀ k m, s0.memos k = some m → SOK s0 m → m.acc = pushesOf P s0.inp k
  calls : ∀ k m, s0.memos k = some m → SOK s0 m →
    (m.obs.map fun o => depCall o.dep).flatten = callsOf P s0.inp k
  sok : ∀ k m, s0.memos k = some m → SOK s0 m → ∀ o, o ∈ m.obs → sokDep s0 o.dep
  below : ∀ k m, s0.memos k = some m → ∀ o c, o ∈ m.obs → o.dep = .qry c → c < k
  unrec : ∀ k m, s0.memos k = some m → ∀ o c, o ∈ m.obs → o.recd = false → o.dep = .qry c →
    ∃ m', s0.memos c = some m' ∧ m'.acc = [] ∧ m'.accIn = false
  flag : ∀ k m, s0.memos k = some m → SOK s0 m → m.accIn = false → ∀ o c, o ∈ m.obs → o.dep = .qry c →
    ∃ m', s0.memos c = some m' ∧ m'.acc = [] ∧ m'.accIn = false

theorem snap_of_inv {P s0} (hP : Wf P) (hI : Inv P s0) : Snap P s0 := by
  refine ⟨fun k m hm hs => acc_of_sok hP hI hm hs, fun k m hm hs => calls_of_sok hP hI hm hs,
    fun k m hm hs o ho => ((hI.memo k m hm).i3 hs o ho).2,
    fun k m hm o c ho hd => ((hI.memo k m hm).i5 o c ho hd).1, ?_, ?_⟩
  · intro k m hm o c ho hr hd
    obtain ⟨_, m', hm', _⟩ := (hI.memo k m hm).i5 o c ho hd
    have := (hI.memo k m hm).a3 o ho hr m'.res (by rw [hd]; simp [depInfo, hm'])
    exact ⟨m', hm', hasAcc_false.mp this.1, this.2⟩
  · intro k m hm hs ha o c ho hd
    obtain ⟨_, m', hm', _⟩ := (hI.memo k m hm).i5 o c ho hd
    have := (hI.memo k m hm).a2 hs ha o ho m'.res (by rw [hd]; simp [depInfo, hm'])
    exact ⟨m', hm', hasAcc_false.mp this.1, this.2⟩

/-- the flag clause is hereditary: no accumulated values and an `Empty` flag ⇒ the whole call tree
    pushes nothing -/
theorem empty_of_flag {P s0} (hS : Snap P s0) : ∀ k m, s0.memos k = some m → SOK s0 m →
    m.acc = [] → m.accIn = false → Empty P s0.inp k := by
  intro k
  induction k using Nat.strongRecOn with
  | _ k ih =>
    intro m hm hs hacc hfl
    refine Empty.mk k (by rw [← hS.acc k m hm hs]; exact hacc) ?_
    intro c hc
    rw [← hS.calls k m hm hs] at hc
    obtain ⟨o, ho, hd⟩ := mem_calls.mp hc
    obtain ⟨m', hm', ha', hf'⟩ := hS.flag k m hm hs hfl o c ho hd
    have hsk := hS.sok k m hm hs o ho
    rw [hd] at hsk
    obtain ⟨m2, hm2, hs2⟩ := hsk
    rw [hm'] at hm2; cases hm2
    exact ih c (hS.below k m hm o c ho hd) m' hm' hs2 ha' hf'

/-! #### the visited sets only grow -/

theorem refVisitL_mono {visit : Nat → List Nat → List Nat × List Nat}
    (hv : ∀ c vr x, x ∈ vr → x ∈ (visit c vr).1) : ∀ cs vr x, x ∈ vr → x ∈ (refVisitL visit cs vr).1 := by
  intro cs
  induction cs with
  | nil => intro vr x h; exact h
  | cons c cs ih => intro vr x h; simp only [refVisitL]; exact ih _ x (hv c vr x h)

theorem refVisit_mono (P inp) : ∀ r k vr x, x ∈ vr → x ∈ (refVisit P inp r k vr).1 := by
  intro r
  induction r with
  | zero => intro k vr x h; exact h
  | succ r ih =>
    intro k vr x h
    simp only [refVisit]
    split
    · exact h
    · split
      · exact ih k vr x h
      · split
        · exact refVisitL_mono ih _ _ x (by simp [h])
        · exact h

theorem pVisitEdges_mono {visit : PVisitFn}
    (hv : ∀ d vi x, x ∈ vi → x ∈ (visit d vi).1) : ∀ obs vi x, x ∈ vi → x ∈ (pVisitEdges visit obs vi).1 := by
  intro obs
  induction obs with
  | nil => intro vi x h; exact h
  | cons o os ih =>
    intro vi x h
    simp only [pVisitEdges]
    split
    · exact ih _ x (hv o.dep vi x h)
    · exact ih _ x h

theorem pVisit_mono (M) : ∀ r d vi x, x ∈ vi → x ∈ (pVisit M r d vi).1 := by
  intro r
  induction r with
  | zero =>
    intro d vi x h
    simp only [pVisit]
    split
    · exact h
    · cases d <;> simp [h]
  | succ r ih =>
    intro d vi x h
    simp only [pVisit]
    split
    · exact h
    · cases d with
      | inp i => simp [h]
      | qry k =>
        simp only
        split
        · exact ih _ vi x h
        · split
          · cases M r with
            | none => simp [h]
            | some m =>
              simp only
              split
              · exact pVisitEdges_mono ih _ _ x (by simp [h])
              · simp [h]
          · exact h

/-! #### already visited: nothing happens, at every level -/

theorem refVisit_mem (P inp) {r k vr} (h : k ∈ vr) : refVisit P inp r k vr = (vr, []) := by
  cases r with
  | zero => rfl
  | succ r => simp [refVisit, h]

theorem pVisit_mem (M) {r d vi} (h : d ∈ vi) : pVisit M r d vi = (vi, []) := by
  cases r with
  | zero => simp [pVisit, h]
  | succ r => simp [pVisit, h]

theorem refVisit_lt (P inp) {r k} (vr) (h : k < r) : refVisit P inp (r + 1) k vr = refVisit P inp r k vr := by
  by_cases hm : k ∈ vr
  · rw [refVisit_mem P inp hm, refVisit_mem P inp hm]
  · simp [refVisit, hm, h]

theorem pVisit_lt (M) {r k} (vi) (h : k < r) : pVisit M (r + 1) (.qry k) vi = pVisit M r (.qry k) vi := by
  by_cases hm : Dep.qry k ∈ vi
  · rw [pVisit_mem M hm, pVisit_mem M hm]
  · simp [pVisit, hm, h]

/-- visiting an input: no output, no query enters the visited set -/
theorem pVisit_inp (M) (r i vi) : (pVisit M r (.inp i) vi).2 = [] ∧
    ∀ x, Dep.qry x ∈ (pVisit M r (.inp i) vi).1 ↔ Dep.qry x ∈ vi := by
  cases r with
  | zero =>
    simp only [pVisit]
    split
    · exact ⟨rfl, fun _ => Iff.rfl⟩
    · exact ⟨rfl, fun x => by simp⟩
  | succ r =>
    simp only [pVisit]
    split
    · exact ⟨rfl, fun _ => Iff.rfl⟩
    · exact ⟨rfl, fun x => by simp⟩

/-! #### visiting a key whose call tree is `Empty` -/

section
variable {P : Nat → Body} {s0 : State}

theorem refVisitL_empty {visit : Nat → List Nat → List Nat × List Nat}
    (hv : ∀ c vr, Empty P s0.inp c → (visit c vr).2 = [] ∧ ∀ x, x ∈ (visit c vr).1 → x ∈ vr ∨ Empty P s0.inp x) :
    ∀ cs vr, (∀ c, c ∈ cs → Empty P s0.inp c) →
      (refVisitL visit cs vr).2 = [] ∧ ∀ x, x ∈ (refVisitL visit cs vr).1 → x ∈ vr ∨ Empty P s0.inp x := by
  intro cs
  induction cs with
  | nil => intro vr _; exact ⟨rfl, fun x h => Or.inl h⟩
  | cons c cs ih =>
    intro vr hE
    simp only [refVisitL]
    obtain ⟨a1, a2⟩ := hv c vr (hE c (by simp))
    obtain ⟨b1, b2⟩ := ih (visit c vr).1 (fun c' h => hE c' (by simp [h]))
    refine ⟨by rw [a1, b1]; rfl, ?_⟩
    intro x hx
    rcases b2 x hx with h | h
    · exact a2 x h
    · exact Or.inr h

theorem refVisit_empty : ∀ r k vr, Empty P s0.inp k →
    (refVisit P s0.inp r k vr).2 = [] ∧
    ∀ x, x ∈ (refVisit P s0.inp r k vr).1 → x ∈ vr ∨ Empty P s0.inp x := by
  intro r
  induction r with
  | zero => intro k vr _; exact ⟨rfl, fun x h => Or.inl h⟩
  | succ r ih =>
    intro k vr hE
    simp only [refVisit]
    split
    · exact ⟨rfl, fun x h => Or.inl h⟩
    · split
      · exact ih k vr hE
      · split
        · obtain ⟨a1, a2⟩ := refVisitL_empty (visit := refVisit P s0.inp r) ih (callsOf P s0.inp k) (k :: vr) hE.calls
          refine ⟨by simp only; rw [a1, hE.pushes]; rfl, ?_⟩
          intro x hx
          rcases a2 x hx with h | h
          · simp only [List.mem_cons] at h
            rcases h with h | h
            · right; rw [h]; exact hE
            · exact Or.inl h
          · exact Or.inr h
        · exact ⟨rfl, fun x h => Or.inl h⟩

theorem pVisitEdges_empty {visit : PVisitFn}
    (hv : ∀ c vi, sokDep s0 (.qry c) → Empty P s0.inp c →
      (visit (.qry c) vi).2 = [] ∧ ∀ x, Dep.qry x ∈ (visit (.qry c) vi).1 → Dep.qry x ∈ vi ∨ Empty P s0.inp x)
    (hi : ∀ i vi, (visit (.inp i) vi).2 = [] ∧ ∀ x, Dep.qry x ∈ (visit (.inp i) vi).1 ↔ Dep.qry x ∈ vi) :
    ∀ obs vi, (∀ o c, o ∈ obs → o.dep = .qry c → sokDep s0 (.qry c) ∧ Empty P s0.inp c) →
      (pVisitEdges visit obs vi).2 = [] ∧
      ∀ x, Dep.qry x ∈ (pVisitEdges visit obs vi).1 → Dep.qry x ∈ vi ∨ Empty P s0.inp x := by
  intro obs
  induction obs with
  | nil => intro vi _; exact ⟨rfl, fun x h => Or.inl h⟩
  | cons o os ih =>
    intro vi hE
    simp only [pVisitEdges]
    have hE' : ∀ o' c, o' ∈ os → o'.dep = .qry c → sokDep s0 (.qry c) ∧ Empty P s0.inp c :=
      fun o' c h hd => hE o' c (by simp [h]) hd
    split
    · have first : (visit o.dep vi).2 = [] ∧
          ∀ x, Dep.qry x ∈ (visit o.dep vi).1 → Dep.qry x ∈ vi ∨ Empty P s0.inp x := by
        cases hd : o.dep with
        | inp i => exact ⟨(hi i vi).1, fun x h => Or.inl ((hi i vi).2 x |>.mp h)⟩
        | qry c => obtain ⟨a, b⟩ := hE o c (by simp) hd; exact hv c vi a b
      obtain ⟨a1, a2⟩ := first
      obtain ⟨b1, b2⟩ := ih (visit o.dep vi).1 hE'
      refine ⟨by rw [a1, b1]; rfl, ?_⟩
      intro x hx
      rcases b2 x hx with h | h
      · exact a2 x h
      · exact Or.inr h
    · exact ih vi hE'

theorem pVisit_empty (hS : Snap P s0) : ∀ r k vi, sokDep s0 (.qry k) → Empty P s0.inp k →
    (pVisit s0.memos r (.qry k) vi).2 = [] ∧
    ∀ x, Dep.qry x ∈ (pVisit s0.memos r (.qry k) vi).1 → Dep.qry x ∈ vi ∨ Empty P s0.inp x := by
  intro r
  induction r with
  | zero =>
    intro k vi _ _
    simp only [pVisit]
    split <;> exact ⟨rfl, fun x h => Or.inl h⟩
  | succ r ih =>
    intro k vi hsk hE
    by_cases hm : Dep.qry k ∈ vi
    · rw [pVisit_mem _ hm]; exact ⟨rfl, fun x h => Or.inl h⟩
    · by_cases hlt : k < r
      · rw [pVisit_lt _ vi hlt]; exact ih k vi hsk hE
      · by_cases hkr : k = r
        · subst hkr
          obtain ⟨m, hm0, hs0⟩ := hsk
          have hacc : m.acc = [] := by rw [hS.acc k m hm0 hs0]; exact hE.pushes
          simp only [pVisit, hm, if_false, hlt, if_true, hm0, hacc, List.nil_append]
          have self_or : ∀ x, Dep.qry x ∈ Dep.qry k :: vi → Dep.qry x ∈ vi ∨ Empty P s0.inp x := by
            intro x hx
            simp only [List.mem_cons, Dep.qry.injEq] at hx
            rcases hx with h | h
            · right; rw [h]; exact hE
            · exact Or.inl h
          split
          · have hch : ∀ o c, o ∈ m.obs → o.dep = .qry c → sokDep s0 (.qry c) ∧ Empty P s0.inp c := by
              intro o c ho hd
              have h1 := hS.sok k m hm0 hs0 o ho
              rw [hd] at h1
              refine ⟨h1, hE.calls c ?_⟩
              rw [← hS.calls k m hm0 hs0]
              exact mem_calls.mpr ⟨o, ho, hd⟩
            obtain ⟨a1, a2⟩ := pVisitEdges_empty (visit := pVisit s0.memos k) ih (pVisit_inp s0.memos k)
              m.obs (.qry k :: vi) hch
            refine ⟨a1, ?_⟩
            intro x hx
            rcases a2 x hx with h | h
            · exact self_or x h
            · exact Or.inr h
          · exact ⟨rfl, self_or⟩
        · simp only [pVisit, hm, if_false, hlt, hkr]
          exact ⟨trivial, fun x h => Or.inl h⟩

/-! #### the two visited sets differ by `Empty` keys -/

def VisRel (P : Nat → Body) (s0 : State) (vi : List Dep) (vr : List Nat) : Prop :=
  ∀ x, (Dep.qry x ∈ vi → x ∈ vr ∨ Empty P s0.inp x) ∧ (x ∈ vr → Dep.qry x ∈ vi ∨ Empty P s0.inp x)

theorem VisRel.cons {vi vr} (h : VisRel P s0 vi vr) (k : Nat) : VisRel P s0 (.qry k :: vi) (k :: vr) := by
  intro x
  constructor
  · intro hx
    simp only [List.mem_cons, Dep.qry.injEq] at hx
    rcases hx with e | hx
    · left; simp [e]
    · rcases (h x).1 hx with a | a
      · left; simp [a]
      · exact Or.inr a
  · intro hx
    simp only [List.mem_cons] at hx
    rcases hx with e | hx
    · left; simp [e]
    · rcases (h x).2 hx with a | a
      · left; simp [a]
      · exact Or.inr a

/-- the reference visits a key with an `Empty` call tree -/
theorem VisRel.ref_empty {vi vr} (h : VisRel P s0 vi vr) (r k : Nat) (hE : Empty P s0.inp k) :
    VisRel P s0 vi (refVisit P s0.inp r k vr).1 := by
  obtain ⟨_, a2⟩ := refVisit_empty (P := P) (s0 := s0) r k vr hE
  intro x
  constructor
  · intro hx
    rcases (h x).1 hx with a | a
    · exact Or.inl (refVisit_mono P s0.inp r k vr x a)
    · exact Or.inr a
  · intro hx
    rcases a2 x hx with a | a
    · exact (h x).2 a
    · exact Or.inr a

/-- the implementation visits a key with an `Empty` call tree -/
theorem VisRel.impl_empty (hS : Snap P s0) {vi vr} (h : VisRel P s0 vi vr) (r k : Nat)
    (hsk : sokDep s0 (.qry k)) (hE : Empty P s0.inp k) :
    VisRel P s0 (pVisit s0.memos r (.qry k) vi).1 vr := by
  obtain ⟨_, a2⟩ := pVisit_empty hS r k vi hsk hE
  intro x
  constructor
  · intro hx
    rcases a2 x hx with a | a
    · exact (h x).1 a
    · exact Or.inr a
  · intro hx
    rcases (h x).2 hx with a | a
    · exact Or.inl (pVisit_mono s0.memos r (.qry k) vi _ a)
    · exact Or.inr a

/-- an input enters the implementation's visited set -/
theorem VisRel.impl_inp {vi vr} (h : VisRel P s0 vi vr) (r i : Nat) :
    VisRel P s0 (pVisit s0.memos r (.inp i) vi).1 vr := by
  intro x
  constructor
  · intro hx; exact (h x).1 ((pVisit_inp s0.memos r i vi).2 x |>.mp hx)
  · intro hx
    rcases (h x).2 hx with a | a
    · exact Or.inl ((pVisit_inp s0.memos r i vi).2 x |>.mpr a)
    · exact Or.inr a

def VisitRel (P : Nat → Body) (s0 : State) (pv : PVisitFn) (rv : Nat → List Nat → List Nat × List Nat) : Prop :=
  ∀ k vi vr, sokDep s0 (.qry k) → VisRel P s0 vi vr →
    (pv (.qry k) vi).2 = (rv k vr).2 ∧ VisRel P s0 (pv (.qry k) vi).1 (rv k vr).1

/-- the recorded edges of one key against its from-scratch callees -/
theorem pVisitEdges_ref (r : Nat)
    (H : VisitRel P s0 (pVisit s0.memos r) (refVisit P s0.inp r)) :
    ∀ obs vi vr, VisRel P s0 vi vr →
      (∀ o, o ∈ obs → sokDep s0 o.dep) →
      (∀ o c, o ∈ obs → o.recd = false → o.dep = .qry c → Empty P s0.inp c) →
      (pVisitEdges (pVisit s0.memos r) obs vi).2 =
        (refVisitL (refVisit P s0.inp r) (obs.map fun o => depCall o.dep).flatten vr).2 ∧
      VisRel P s0 (pVisitEdges (pVisit s0.memos r) obs vi).1
        (refVisitL (refVisit P s0.inp r) (obs.map fun o => depCall o.dep).flatten vr).1 := by
  intro obs
  induction obs with
  | nil => intro vi vr h _ _; exact ⟨rfl, h⟩
  | cons o os ih =>
    intro vi vr h hsok hun
    have hsok' : ∀ o', o' ∈ os → sokDep s0 o'.dep := fun o' hm => hsok o' (by simp [hm])
    have hun' : ∀ o' c, o' ∈ os → o'.recd = false → o'.dep = .qry c → Empty P s0.inp c :=
      fun o' c hm => hun o' c (by simp [hm])
    simp only [pVisitEdges, List.map_cons, List.flatten_cons]
    cases hd : o.dep with
    | inp i =>
      simp only [depCall_inp, List.nil_append]
      split
      · obtain ⟨b1, b2⟩ := ih (pVisit s0.memos r (.inp i) vi).1 vr (h.impl_inp r i) hsok' hun'
        refine ⟨?_, b2⟩
        rw [(pVisit_inp s0.memos r i vi).1, b1]; rfl
      · exact ih vi vr h hsok' hun'
    | qry c =>
      simp only [depCall_qry, List.cons_append, List.nil_append, refVisitL]
      have hsc : sokDep s0 (.qry c) := by have := hsok o (by simp); rw [hd] at this; exact this
      split
      · obtain ⟨a1, a2⟩ := H c vi vr hsc h
        obtain ⟨b1, b2⟩ := ih _ _ a2 hsok' hun'
        exact ⟨by rw [a1, b1], b2⟩
      · rename_i hrec
        have hrec' : o.recd = false := by cases hx : o.recd <;> simp_all
        have hE := hun o c (by simp) hrec' hd
        obtain ⟨e1, _⟩ := refVisit_empty (P := P) (s0 := s0) r c vr hE
        obtain ⟨b1, b2⟩ := ih vi _ (h.ref_empty r c hE) hsok' hun'
        exact ⟨by rw [e1, b1]; rfl, b2⟩

/-- **Layer 2**: the pruned search on the memo table = the full from-scratch preorder -/
theorem pVisit_ref (hS : Snap P s0) : ∀ r, VisitRel P s0 (pVisit s0.memos r) (refVisit P s0.inp r) := by
  intro r
  induction r with
  | zero =>
    intro k vi vr _ h
    simp only [pVisit, refVisit]
    split <;> exact ⟨rfl, h⟩
  | succ r ih =>
    intro k vi vr hsk h
    by_cases hlt : k < r
    · rw [pVisit_lt _ vi hlt, refVisit_lt _ _ vr hlt]; exact ih k vi vr hsk h
    · by_cases hkr : k = r
      · subst hkr
        by_cases hmi : Dep.qry k ∈ vi
        · by_cases hmr : k ∈ vr
          · rw [pVisit_mem _ hmi, refVisit_mem _ _ hmr]; exact ⟨rfl, h⟩
          · -- only the implementation has seen `k`: its call tree is empty
            have hE : Empty P s0.inp k := by
              rcases (h k).1 hmi with a | a
              · exact absurd a hmr
              · exact a
            rw [pVisit_mem _ hmi]
            exact ⟨(refVisit_empty (P := P) (s0 := s0) (k + 1) k vr hE).1.symm, h.ref_empty (k + 1) k hE⟩
        · by_cases hmr : k ∈ vr
          · have hE : Empty P s0.inp k := by
              rcases (h k).2 hmr with a | a
              · exact absurd a hmi
              · exact a
            rw [refVisit_mem _ _ hmr]
            exact ⟨(pVisit_empty hS (k + 1) k vi hsk hE).1, h.impl_empty hS (k + 1) k hsk hE⟩
          · -- first visit on both sides
            obtain ⟨m, hm0, hs0⟩ := hsk
            have hacc := hS.acc k m hm0 hs0
            have hcalls := hS.calls k m hm0 hs0
            simp only [pVisit, refVisit, hmi, hmr, if_false, hlt, if_true, hm0]
            have hrel := h.cons k
            have hun : ∀ o c, o ∈ m.obs → o.recd = false → o.dep = .qry c → Empty P s0.inp c := by
              intro o c ho hr hd
              obtain ⟨m', hm', a1, a2⟩ := hS.unrec k m hm0 o c ho hr hd
              have hsc := hS.sok k m hm0 hs0 o ho
              rw [hd] at hsc
              obtain ⟨m2, hm2, hs2⟩ := hsc
              rw [hm'] at hm2; cases hm2
              exact empty_of_flag hS c m' hm' hs2 a1 a2
            cases hai : m.accIn with
            | true =>
              simp only [if_true]
              obtain ⟨b1, b2⟩ := pVisitEdges_ref k ih m.obs _ _ hrel (hS.sok k m hm0 hs0) hun
              rw [hcalls] at b1 b2
              exact ⟨by rw [hacc, b1], b2⟩
            | false =>
              simp only [Bool.false_eq_true, if_false]
              -- every callee has an empty call tree
              have hEc : ∀ c, c ∈ callsOf P s0.inp k → Empty P s0.inp c := by
                intro c hc
                rw [← hcalls] at hc
                obtain ⟨o, ho, hd⟩ := mem_calls.mp hc
                obtain ⟨m', hm', a1, a2⟩ := hS.flag k m hm0 hs0 hai o c ho hd
                have hsc := hS.sok k m hm0 hs0 o ho
                rw [hd] at hsc
                obtain ⟨m2, hm2, hs2⟩ := hsc
                rw [hm'] at hm2; cases hm2
                exact empty_of_flag hS c m' hm' hs2 a1 a2
              obtain ⟨e1, e2⟩ := refVisitL_empty (visit := refVisit P s0.inp k)
                (fun c vr hE => refVisit_empty (P := P) (s0 := s0) k c vr hE) (callsOf P s0.inp k) (k :: vr) hEc
              refine ⟨by rw [e1, hacc]; simp, ?_⟩
              intro x
              constructor
              · intro hx
                rcases (hrel x).1 hx with a | a
                · exact Or.inl (refVisitL_mono (refVisit_mono P s0.inp k) _ _ x a)
                · exact Or.inr a
              · intro hx
                rcases e2 x hx with a | a
                · exact (hrel x).2 a
                · exact Or.inr a
      · have hgt : ¬ k < r ∧ ¬ k = r := ⟨hlt, hkr⟩
        by_cases hmi : Dep.qry k ∈ vi <;> by_cases hmr : k ∈ vr <;>
          simp only [pVisit, refVisit, hmi, hmr, if_true, if_false, hlt, hkr] <;> exact ⟨trivial, h⟩

end

end SalsaVerif.Proofs.CoreAcc
