/-
  Core3 engine: the LRU set covers the cached values of a GIVEN set of keys `G` (Proofs/Core3Lru.lean
  is the case "all keys").  While the capacity is non-zero, every engine step, eviction and revision
  bump keeps: every `lru`-kind key in `G` that holds an evictable value is a member of the LRU set.
  Used with `G` = the keys requested since the capacity last became non-zero (Props/C05Bound.lean):
  values cached while the LRU was disabled are outside `G` and stay uncovered until they are used
  again.  Structural, no engine invariant.  Core Lean only.
-/
import SalsaVerif.Proofs.Core3Lru

namespace SalsaVerif.Proofs.Core3
open SalsaVerif.Model.Core3
open SalsaVerif.Model.Lru (Lru forEachEvicted setCapacity evictLoop recordUse linkedInsert)

/-- every cached key of `G`, except possibly `x`, is in the LRU set -/
def LBxG (P : Prog) (G : Nat → Prop) (x : Option Nat) (s : State) : Prop :=
  ∀ q, some q ≠ x → G q → Cached P s q → q ∈ s.lru.set

abbrev LBG (P : Prog) (G : Nat → Prop) (s : State) : Prop := LBxG P G none s

theorem LBxG.weaken {P G x s} (h : LBG P G s) : LBxG P G x s := fun q _ hg hc => h q (by simp) hg hc

theorem lbxG_setMemo {P G s x m} (h : LBxG P G (some x) s) : LBxG P G (some x) (setMemo s x m) := by
  intro q hq hg hc
  have hne : q ≠ x := fun e => hq (by rw [e])
  apply h q hq hg
  obtain ⟨hk, m', hm', hv⟩ := hc
  exact ⟨hk, m', by simpa [setMemo, hne] using hm', hv⟩

theorem lbG_recordUse {P G s x} (hc : s.lru.capacity ≠ 0) (h : LBxG P G (some x) s) :
    LBG P G (recordUseFor P s x) := by
  intro q _ hg hq
  unfold recordUseFor at hq ⊢
  by_cases hk : P.kind x = .lru
  · simp only [hk, if_true] at hq ⊢
    simp only [recordUse, hc, ne_eq, not_false_eq_true, if_true]
    rw [SalsaVerif.Proofs.Lru.mem_insert]
    by_cases e : q = x
    · exact Or.inl e
    · exact Or.inr (h q (fun e' => e (Option.some.inj e')) hg hq)
  · simp only [hk, if_false] at hq ⊢
    by_cases e : q = x
    · subst e; exact absurd hq.1 hk
    · exact h q (fun e' => e (Option.some.inj e')) hg hq

theorem lbG_setMemo_of_mem {P G t x m'} (h : LBxG P G (some x) t)
    (hx : G x → Cached P (setMemo t x m') x → x ∈ t.lru.set) : LBG P G (setMemo t x m') := by
  intro q _ hg hc
  by_cases e : q = x
  · subst e; exact hx hg hc
  · exact lbxG_setMemo h q (fun e' => e (Option.some.inj e')) hg hc

/-- an engine step keeps capacity and members, and the cover of `G` when the capacity is non-zero -/
def LStepG (P : Prog) (G : Nat → Prop) (s t : State) : Prop :=
  LSub s t ∧ (s.lru.capacity ≠ 0 → LBG P G s → LBG P G t)

theorem LStepG.refl (P : Prog) (G) (s : State) : LStepG P G s s := ⟨LSub.refl s, fun _ h => h⟩

theorem LStepG.trans {P G s t u} (a : LStepG P G s t) (b : LStepG P G t u) : LStepG P G s u :=
  ⟨a.1.trans b.1, fun hc h => b.2 (by rw [a.1.cap]; exact hc) (a.2 hc h)⟩

structure FetchLG (P : Prog) (G : Nat → Prop) (fe : FetchFn) : Prop where
  l : ∀ s q, LStepG P G s (fe s q).1

structure McaLG (P : Prog) (G : Nat → Prop) (mc : McaFn) : Prop where
  l : ∀ s q rev, LStepG P G s (mc s q rev).1

theorem readDep_lG {P G fe} (hfe : FetchLG P G fe) (s f d) : LStepG P G s (readDep fe s f d).1 := by
  cases d with
  | inp i => exact LStepG.refl P G s
  | qry q => exact hfe.l s q
  | cell c => exact LStepG.refl P G s

theorem run_lG {P G fe} (hfe : FetchLG P G fe) : ∀ b s f, LStepG P G s (runBody fe b s f).1 := by
  intro b
  induction b with
  | ret v => intro s f; exact LStepG.refl P G s
  | read d k ih =>
    intro s f
    simp only [runBody]
    exact (readDep_lG hfe s f d).trans (ih _ _ _)

theorem deep_lG {P G mc} (hmc : McaLG P G mc) : ∀ obs s rev, LStepG P G s (deepEdges mc obs s rev).1 := by
  intro obs
  induction obs with
  | nil => intro s rev; exact LStepG.refl P G s
  | cons o rest ih =>
    intro s rev
    simp only [deepEdges]
    have first : LStepG P G s (depChanged mc s o.dep rev).1 := by
      cases o.dep with
      | inp i => exact LStepG.refl P G s
      | qry q => exact hmc.l s q rev
      | cell c => exact LStepG.refl P G s
    split
    · split
      · exact first
      · exact first.trans (ih _ _)
    · exact ih _ _

theorem deepVerify_lG {P G mc} (hmc : McaLG P G mc) (s m) : LStepG P G s (deepVerify mc s m).1 := by
  unfold deepVerify
  split
  · exact LStepG.refl P G s
  · exact deep_lG hmc _ _ _

theorem execute_lG {P G fe} (hfe : FetchLG P G fe) (s : State) (q : Nat) (old : Option Memo) :
    LSub s (execute fe P s q old).1 ∧
    (s.lru.capacity ≠ 0 → LBG P G s → LBxG P G (some q) (execute fe P s q old).1) := by
  have h := run_lG hfe (P.body q) (emit s (.exec q)) frame0
  exact ⟨⟨h.1.cap, h.1.sub⟩, fun hc hl => lbxG_setMemo (LBxG.weaken (h.2 hc hl))⟩

theorem refreshStep_lG {P G fe mc} (hfe : FetchLG P G fe) (hmc : McaLG P G mc) (s : State) (q : Nat) :
    LSub s (refreshStep fe mc P s q).1 ∧
    (s.lru.capacity ≠ 0 → LBG P G s → LBxG P G (some q) (refreshStep fe mc P s q).1) := by
  unfold refreshStep
  cases hm : s.memos q with
  | none => exact execute_lG hfe s q none
  | some m =>
    cases hv : m.value with
    | none => simp only [hv]; exact execute_lG hfe s q _
    | some v =>
      simp only [hv]
      by_cases h1 : m.va = s.cur
      · simp only [h1, if_true]; exact ⟨LSub.refl s, fun _ h => LBxG.weaken h⟩
      · simp only [h1, if_false]
        by_cases h2 : lc s m.dur ≤ m.va
        · simp only [h2, if_true]
          exact ⟨lsub_of_lru rfl, fun _ h => lbxG_setMemo (LBxG.weaken h)⟩
        · simp only [h2, if_false]
          have hd := deepVerify_lG hmc s m
          generalize deepVerify mc s m = r at hd
          by_cases h3 : r.2 = true
          · simp only [h3, if_true]
            exact ⟨⟨hd.1.cap, hd.1.sub⟩, fun hc h => lbxG_setMemo (LBxG.weaken (hd.2 hc h))⟩
          · simp only [h3, if_false]
            obtain ⟨e1, e2⟩ := execute_lG hfe r.1 q (some m)
            exact ⟨hd.1.trans e1, fun hc h => e2 (by rw [hd.1.cap]; exact hc) (hd.2 hc h)⟩

theorem fetchStep_lG {P G fe mc} (hfe : FetchLG P G fe) (hmc : McaLG P G mc) (s : State) (q : Nat) :
    LStepG P G s (fetchStep fe mc P s q).1 := by
  obtain ⟨a, b⟩ := refreshStep_lG hfe hmc s q
  simp only [fetchStep]
  exact ⟨a.trans (lsub_recordUse P _ q), fun hc h => lbG_recordUse (by rw [a.cap]; exact hc) (b hc h)⟩

theorem mcaStep_lG {P G fe mc} (hfe : FetchLG P G fe) (hmc : McaLG P G mc) (s : State) (q rev : Nat) :
    LStepG P G s (mcaStep fe mc P s q rev).1 := by
  unfold mcaStep
  cases hm : s.memos q with
  | none => exact LStepG.refl P G s
  | some m =>
    simp only
    have hq : ∀ (t : State) (m' : Memo), LSub s t → m'.value = m.value → m'.untracked = m.untracked →
        LBG P G s → G q → Cached P (setMemo t q m') q → q ∈ t.lru.set := by
      intro t m' hs hv hu hl hg hc
      obtain ⟨hk, m2, hm2, hv2, hu2⟩ := hc
      simp only [setMemo, if_true] at hm2
      have : m2 = m' := (Option.some.inj hm2).symm
      subst this
      exact hs.sub q (hl q (by simp) hg ⟨hk, m, hm, by rw [← hv]; exact hv2, by rw [← hu]; exact hu2⟩)
    by_cases h1 : m.va = s.cur
    · simp only [h1, if_true]; exact LStepG.refl P G s
    · simp only [h1, if_false]
      by_cases h2 : lc s m.dur ≤ m.va
      · simp only [h2, if_true]
        exact ⟨lsub_of_lru rfl, fun _ h => lbG_setMemo_of_mem (LBxG.weaken h) (hq _ _ (lsub_of_lru rfl) rfl rfl h)⟩
      · simp only [h2, if_false]
        have hd := deepVerify_lG hmc s m
        generalize deepVerify mc s m = r at hd
        by_cases h3 : r.2 = true
        · simp only [h3, if_true]
          exact ⟨⟨hd.1.cap, hd.1.sub⟩, fun hc h =>
            lbG_setMemo_of_mem (LBxG.weaken (hd.2 hc h)) (hq _ _ ⟨hd.1.cap, hd.1.sub⟩ rfl rfl h)⟩
        · simp only [h3, if_false]
          cases hv : m.value with
          | none => simp only [hv]; exact hd
          | some v =>
            simp only [hv]
            obtain ⟨e1, e2⟩ := execute_lG hfe r.1 q (some m)
            exact ⟨(hd.1.trans e1).trans (lsub_recordUse P _ q), fun hc h =>
              lbG_recordUse (by rw [e1.cap, hd.1.cap]; exact hc) (e2 (by rw [hd.1.cap]; exact hc) (hd.2 hc h))⟩

theorem eng_lG (P : Prog) (G : Nat → Prop) : ∀ r, FetchLG P G (eng P r).1 ∧ McaLG P G (eng P r).2 := by
  intro r
  induction r with
  | zero => exact ⟨⟨fun s _ => LStepG.refl P G s⟩, ⟨fun s _ _ => LStepG.refl P G s⟩⟩
  | succ r ih =>
    obtain ⟨hfe, hmc⟩ := ih
    constructor
    · constructor
      intro s q
      simp only [eng]
      split
      · exact hfe.l s q
      · split
        · rename_i h; subst h; exact fetchStep_lG hfe hmc s q
        · exact LStepG.refl P G s
    · constructor
      intro s q rev
      simp only [eng]
      split
      · exact hmc.l s q rev
      · split
        · rename_i h; subst h; exact mcaStep_lG hfe hmc s q rev
        · exact LStepG.refl P G s

theorem fetch_lG (P : Prog) (G : Nat → Prop) (s : State) (q : Nat) : LStepG P G s (fetch P s q).1 :=
  (eng_lG P G (q + 1)).1.l s q

/-- the requested key itself is recorded -/
theorem fetch_mem_set (P : Prog) (s : State) (q : Nat) (hk : P.kind q = .lru) (hc : s.lru.capacity ≠ 0) :
    q ∈ (fetch P s q).1.lru.set := by
  obtain ⟨hfe, hmc⟩ := eng_lG P (fun _ => True) q
  obtain ⟨a, _⟩ := refreshStep_lG hfe hmc s q
  rw [fetch_self]
  simp only [fetchStep, recordUseFor, hk, if_true, recordUse]
  have : (refreshStep (eng P q).1 (eng P q).2 P s q).1.lru.capacity ≠ 0 := by rw [a.cap]; exact hc
  simp only [this, ne_eq, not_false_eq_true, if_true]
  exact (SalsaVerif.Proofs.Lru.mem_insert _ _ _).mpr (Or.inl rfl)

/-! ### eviction -/

theorem lbG_evict_loop {P G} (T : State) (gone keep : List Nat) (hset : T.lru.set = keep)
    (h : ∀ q, G q → Cached P T q → q ∈ gone ∨ q ∈ keep) : LBG P G (gone.foldl evictValue T) := by
  intro q _ hg hcq
  obtain ⟨hkq, m', hm', hv', hu'⟩ := hcq
  rw [foldl_evict_lru, hset]
  cases hm : T.memos q with
  | none => rw [foldl_evict_nomemo gone T q hm] at hm'; cases hm'
  | some m =>
    have hsame : m' = m ∧ m.untracked = false := by
      rcases foldl_evict_memos gone T q m hm with h1 | ⟨_, h1⟩
      · rw [h1] at hm'; cases hm'; exact ⟨rfl, hu'⟩
      · rw [h1] at hm'; cases hm'; exact absurd rfl hv'
    obtain ⟨e, hum⟩ := hsame
    subst e
    rcases h q hg ⟨hkq, m', hm, hv', hu'⟩ with hgo | hk
    · obtain ⟨m2, h2, hv2⟩ := foldl_evict_mem gone T q m' hgo hm hum
      rw [h2] at hm'; cases hm'; exact absurd hv2 hv'
    · exact hk

theorem lbG_evictLru {P G s} (hc : s.lru.capacity ≠ 0) (h : LBG P G s) :
    LBG P G (evictLru s) ∧ (evictLru s).lru.capacity = s.lru.capacity ∧
    (evictLru s).lru.set.length ≤ s.lru.capacity := by
  unfold evictLru
  rw [SalsaVerif.Proofs.Lru.forEachEvicted_eq s.lru hc]
  simp only
  refine ⟨?_, by rw [foldl_evict_lru], by rw [foldl_evict_lru]; simp only [List.length_drop]; omega⟩
  apply lbG_evict_loop _ _ (s.lru.set.drop (s.lru.set.length - s.lru.capacity)) rfl
  intro q hg hcq
  have hmem : q ∈ s.lru.set := h q (by simp) hg hcq
  rw [← List.take_append_drop (s.lru.set.length - s.lru.capacity) s.lru.set] at hmem
  exact List.mem_append.mp hmem

/-- eviction never adds members and keeps the capacity, whatever the capacity is -/
theorem evictLru_lru (s : State) :
    (evictLru s).lru.capacity = s.lru.capacity ∧ ∀ x, x ∈ (evictLru s).lru.set → x ∈ s.lru.set := by
  unfold evictLru
  rw [foldl_evict_lru]
  by_cases hc : s.lru.capacity = 0
  · have : forEachEvicted s.lru = (s.lru, []) := by simp [forEachEvicted, hc]
    rw [this]
    exact ⟨rfl, fun _ h => h⟩
  · rw [SalsaVerif.Proofs.Lru.forEachEvicted_eq s.lru hc]
    exact ⟨rfl, fun x hx => List.mem_of_mem_drop hx⟩

/-! ### operations -/

theorem lbG_frame {P G} {s t : State} (hm : t.memos = s.memos) (hl : t.lru = s.lru) (h : LBG P G s) :
    LBG P G t := by
  intro q _ hg hc
  rw [hl]
  apply h q (by simp) hg
  obtain ⟨hk, m, hm', hv⟩ := hc
  exact ⟨hk, m, by rw [← hm]; exact hm', hv⟩

theorem lbG_bumpRev {P G s} (hc : s.lru.capacity ≠ 0) (h : LBG P G s) :
    LBG P G (bumpRev s) ∧ (bumpRev s).lru.capacity = s.lru.capacity :=
  ⟨(lbG_evictLru (s := { s with cur := s.cur + 1, wlog := (s.cur + 1, 0) :: s.wlog }) hc
      (lbG_frame (s := s) rfl rfl h)).1,
   (lbG_evictLru (P := P) (G := G) (s := { s with cur := s.cur + 1, wlog := (s.cur + 1, 0) :: s.wlog }) hc
      (lbG_frame (s := s) rfl rfl h)).2.1⟩

theorem write_lru (s : State) (i v nd) :
    (write s i v nd).memos = (bumpRev s).memos ∧ (write s i v nd).lru = (bumpRev s).lru := by
  simp only [write]; split <;> exact ⟨rfl, rfl⟩

theorem synth_lru (s : State) (d) :
    (synth s d).memos = (bumpRev s).memos ∧ (synth s d).lru = (bumpRev s).lru := by
  simp only [synth]; split <;> exact ⟨rfl, rfl⟩

/-- every operation that leaves the capacity non-zero keeps the cover of `G` -/
theorem lbG_step {P G s} (op : Op) (hs : s.lru.capacity ≠ 0) (ht : (step P s op).lru.capacity ≠ 0)
    (h : LBG P G s) : LBG P G (step P s op) := by
  cases op with
  | get q => exact (fetch_lG P G s q).2 hs h
  | set i v nd =>
    exact lbG_frame (write_lru s i v nd).1 (write_lru s i v nd).2 (lbG_bumpRev hs h).1
  | synth d => exact lbG_frame (synth_lru s d).1 (synth_lru s d).2 (lbG_bumpRev hs h).1
  | cellSynth c v d =>
    exact lbG_frame (synth_lru (setCell s c v) d).1 (synth_lru (setCell s c v) d).2
      (lbG_bumpRev (s := setCell s c v) hs (lbG_frame (s := s) rfl rfl h)).1
  | cellSet c v i w nd =>
    exact lbG_frame (write_lru (setCell s c v) i w nd).1 (write_lru (setCell s c v) i w nd).2
      (lbG_bumpRev (s := setCell s c v) hs (lbG_frame (s := s) rfl rfl h)).1
  | lruCap n =>
    have hn : n ≠ 0 := by
      intro e; subst e; simp [step, lruCap, setCapacity] at ht
    intro q _ hg hc
    have : (step P s (.lruCap n)).lru.set = s.lru.set := by simp [step, lruCap, setCapacity, hn]
    rw [this]
    exact h q (by simp) hg hc
  | evict => exact (lbG_evictLru hs h).1

end SalsaVerif.Proofs.Core3
