/-
  C26 with flattening: the engine `engP` meets its specifications under `J`; `fetch_soundJ`.
  Core Lean only.
-/
import SalsaVerif.Proofs.PersistFlat6e

namespace SalsaVerif.Proofs.PersistFlat
open SalsaVerif.Model.Core SalsaVerif.Model.Persist SalsaVerif.Proofs.Core SalsaVerif.Proofs.Persist

theorem eng_okJ {pers P} (hP : Wf P) : ∀ r, FetchSpecJ pers P r (engP P r).1 ∧ McaSpecJ pers P r (engP P r).2 := by
  intro r
  induction r with
  | zero =>
    exact ⟨⟨by intro H R0 s q h; omega⟩, ⟨by intro H R0 s q rev h; omega⟩⟩
  | succ r ih =>
    obtain ⟨hfe, hmc⟩ := ih
    constructor
    · constructor
      intro H R0 s q hq hJ hA
      simp only [engP]
      by_cases hlt : q < r
      · simp only [hlt, if_true]
        obtain ⟨a1, aA, a2, a3, a4⟩ := hfe.ok H R0 s q hlt hJ hA
        exact ⟨a1, aA, a2.weaken (Nat.le_succ r), a3, a4⟩
      · have : q = r := by omega
        subst this
        simp only [Nat.lt_irrefl, if_false, if_true]
        exact fetchStep_okJ hP hfe hmc s hJ hA
    · constructor
      intro H R0 s q rev hq hJ hA hex
      simp only [engP]
      by_cases hlt : q < r
      · simp only [hlt, if_true]
        obtain ⟨a1, aA, a2, a3⟩ := hmc.ok H R0 s q rev hlt hJ hA hex
        exact ⟨a1, aA, a2.weaken (Nat.le_succ r), a3⟩
      · have : q = r := by omega
        subst this
        simp only [Nat.lt_irrefl, if_false, if_true]
        obtain ⟨m0, hm0⟩ := hex
        simp only [mcaStepP, hm0]
        obtain ⟨b1, bA, b2, _, m, b4, b5, _, b7, _⟩ := fetchStep_okJ hP hfe hmc s hJ hA
        exact ⟨b1, bA, b2, m, b4, b5, by rw [b7]⟩

/-- **a request preserves `J` and returns the from-scratch value** -/
theorem fetch_soundJ {pers P H R0} (hP : Wf P) (s : State) (q : Nat) (hJ : J pers P H R0 s) (hA : AllRec s) :
    J pers P H R0 (fetchP P s q).1 ∧ AllRec (fetchP P s q).1 ∧ (fetchP P s q).2.val = sem P s.inp q ∧
    (fetchP P s q).1.cur = s.cur ∧ (fetchP P s q).1.inp = s.inp := by
  obtain ⟨a1, aA, a2, a3, _⟩ := (eng_okJ (pers := pers) hP (q + 1)).1.ok H R0 s q (Nat.lt_succ_self q) hJ hA
  exact ⟨a1, aA, a3, a2.cur, a2.inp⟩

end SalsaVerif.Proofs.PersistFlat
