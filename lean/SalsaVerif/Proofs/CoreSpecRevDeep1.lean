/-
  CoreSpec, histories with writes: deep verification of a node (`deep_verify_edges`), part 1.
  Ground work for the walk over the edges:
    * list facts: the handle source of a struct read lies BEFORE it (`hd_split`), the reads before
      the `create` are a prefix of the recorded reads (`preOf_prefix`) and lie before an output
      edge (`pre_sub_done`);
    * `dv_handle_chain`: `handle_dur` (Proofs/CoreSpecRevBump.lean) extended by "the creator's value
      carries the handle";
    * a dependency that passes the shallow test keeps its info across a nested request
      (`dv_sokDep_info_ext`);
    * `Green t L o`: read `o` is current in `t` at level `L` — the dependency passes the shallow
      test (is verified now when the edge is recorded), has the recorded value and durability at
      least `L`; stable under `Ext` (`Green.ext`); its value is the from-scratch value
      (`Green.sem`).
  Core Lean only.
-/
import SalsaVerif.Proofs.CoreSpecRevSpecs
import SalsaVerif.Proofs.CoreSpecRevFresh

namespace SalsaVerif.Proofs.CoreSpec
open SalsaVerif.Model.CoreSpec

/-! ### local copies (Proofs/CoreSpecRevShallow.lean, CoreSpecRevFSpec1.lean, CoreSpecRevBump.lean have
    the unprimed versions; this development imports only the invariant, `Ext`, the specifications
    and Proofs/CoreSpecRevFresh.lean, plus Proofs/CoreSpecRevShallow.lean in the last part) -/

/-- no logged write has level 3 -/
theorem wit3_absurd' {P idOf s} (hI : Inv P idOf s) {lo hi} (h : Wit s 3 lo hi) : False := by
  obtain ⟨w, d, hw, hd, _, _⟩ := h
  have := hI.wlog3 w d hw
  omega

/-- the plain form of `ObsOk.i6`: an unrecorded dependency that exists has its value and is still
    NEVER_CHANGE -/
theorem i6_plain' {P idOf s m} (hI : Inv P idOf s) (ok : ObsOk s m) (o : Obs) (ho : o ∈ m.obs)
    (hout : o.out = false) (hr : o.recd = false) (x : Res) (hx : depInfo s o.dep = some x) :
    x.val = o.val ∧ 3 ≤ x.dur := by
  rcases (ok.i6 o ho hout hr).iv x hx with h | h
  · exact h
  · exact (wit3_absurd' hI h).elim

/-- a query read of a memo that passes the shallow test: the read memo passes it, has the recorded
    value and at least the reader's durability -/
theorem qry_read_info' {P idOf s q m} (hI : Inv P idOf s) (hm : s.memos q = some m) (hs : SOK s m)
    (o : Obs) (q' : Nat) (ho : o ∈ m.obs) (hout : o.out = false) (hd : o.dep = .qry q') :
    q' < q ∧ ∃ m2, s.memos q' = some m2 ∧ SOK s m2 ∧ m2.value = o.val ∧ m.dur ≤ m2.dur := by
  have ok := hI.node q m hm
  have hr := ok.rank o ho hout
  rw [hd] at hr
  have hk := ok.ksok hs o ho hout
  rw [hd] at hk
  obtain ⟨m2, hm2, hs2⟩ := hk
  obtain ⟨x, hx, hc⟩ := ok.obs.kaca hs o ho hout
  have h2 := ok.obs.i2 o ho hout x hx (Nat.le_trans hc ok.obs.deep_va)
  rw [hd] at hx
  simp only [depInfo, hm2, Option.map_some, Option.some.injEq] at hx
  subst hx
  exact ⟨hr, m2, hm2, hs2, h2.1, h2.2⟩

theorem verEq_fields' {cur : Nat} {m m' : Memo} (h : VerEq cur m m') :
    m'.value = m.value ∧ m'.ca = m.ca ∧ m'.dur = m.dur ∧ m'.obs = m.obs ∧ m'.deepAt = m.deepAt ∧
    m'.origin = m.origin ∧ m'.ts = m.ts ∧ (m'.va = m.va ∨ m'.va = cur) := by
  rcases h with e | e <;> subst e
  · exact ⟨rfl, rfl, rfl, rfl, rfl, rfl, rfl, Or.inl rfl⟩
  · exact ⟨rfl, rfl, rfl, rfl, rfl, rfl, rfl, Or.inr rfl⟩

/-! ### list facts -/

/-- positional form of `hd_src`: the query read that carried the handle comes before the read -/
theorem hd_split (c : Nat) : ∀ (done : List Obs) (H : Nat → Prop) (o : Obs) (rest : List Obs),
    HdOk H (done ++ o :: rest) → o.out = false → (o.dep = .field c ∨ o.dep = .spec c) →
    H c ∨ ∃ o' q', o' ∈ done ∧ o'.out = false ∧ o'.dep = .qry q' ∧ o'.val.h = some c := by
  intro done
  induction done with
  | nil =>
    intro H o rest hd hout hdep
    simp only [List.nil_append] at hd
    unfold HdOk at hd
    simp only [hout, Bool.false_eq_true, if_false] at hd
    rcases hdep with e | e
    · rw [e] at hd; exact Or.inl hd.1
    · rw [e] at hd; exact Or.inl hd.1
  | cons o1 d ih =>
    intro H o rest hd hout hdep
    have lift : (∃ o' q', o' ∈ d ∧ o'.out = false ∧ o'.dep = .qry q' ∧ o'.val.h = some c) →
        ∃ o' q', o' ∈ o1 :: d ∧ o'.out = false ∧ o'.dep = .qry q' ∧ o'.val.h = some c := by
      rintro ⟨o', q', a, r⟩
      exact ⟨o', q', List.mem_cons_of_mem _ a, r⟩
    simp only [List.cons_append] at hd
    unfold HdOk at hd
    by_cases h1 : o1.out = true
    · simp only [h1, if_true] at hd
      rcases ih H o rest hd hout hdep with r | r
      · exact Or.inl r
      · exact Or.inr (lift r)
    · have h1f : o1.out = false := by cases h : o1.out <;> simp_all
      simp only [h1] at hd
      cases hd1 : o1.dep with
      | inp j =>
        rw [hd1] at hd
        rcases ih H o rest hd hout hdep with r | r
        · exact Or.inl r
        · exact Or.inr (lift r)
      | qry q1 =>
        rw [hd1] at hd
        rcases ih _ o rest hd hout hdep with (r | r) | r
        · exact Or.inl r
        · exact Or.inr ⟨o1, q1, List.mem_cons_self, h1f, hd1, r⟩
        · exact Or.inr (lift r)
      | field c1 =>
        rw [hd1] at hd
        rcases ih H o rest hd.2 hout hdep with r | r
        · exact Or.inl r
        · exact Or.inr (lift r)
      | spec c1 =>
        rw [hd1] at hd
        rcases ih H o rest hd.2 hout hdep with r | r
        · exact Or.inl r
        · exact Or.inr (lift r)

/-- the reads before the `create` are a prefix of the reads -/
theorem preOf_prefix (idOf : Nat → Nat) : ∀ b (obs : List Obs), ∃ post, obs = preOf idOf b obs ++ post := by
  intro b
  induction b with
  | ret v => intro obs; exact ⟨obs, by simp [preOf]⟩
  | read d k ih =>
    intro obs
    cases obs with
    | nil => exact ⟨[], by simp [preOf]⟩
    | cons a rest =>
      obtain ⟨post, hp⟩ := ih a.val rest
      exact ⟨post, by simp only [preOf, List.cons_append]; rw [← hp]⟩
  | ident c k ih => intro obs; simp only [preOf]; exact ih _ obs
  | create idk v k _ => intro obs; exact ⟨obs, by simp [preOf]⟩
  | specify c v k _ => intro obs; exact ⟨obs, by simp [preOf]⟩

/-- a prefix without output edges lies before the first output edge -/
theorem pre_sub_done {done rest pre post : List Obs} {o : Obs} (h : done ++ o :: rest = pre ++ post)
    (hout : o.out = true) (hpre : ∀ p, p ∈ pre → p.out = false) : ∀ p, p ∈ pre → p ∈ done := by
  rcases List.append_eq_append_iff.mp h with ⟨a', e1, e2⟩ | ⟨c', e1, _⟩
  · cases a' with
    | nil =>
      intro p hp
      rw [e1] at hp
      simpa using hp
    | cons a a'' =>
      simp only [List.cons_append, List.cons.injEq] at e2
      have : o ∈ pre := by rw [e1, e2.1]; simp
      have := hpre o this
      rw [hout] at this; cases this
  · intro p hp
    rw [e1]
    exact List.mem_append_left _ hp

/-! ### handles -/

/-- the creator's memo of a handle carried by the value of a memo that passes the shallow test:
    it passes the test, is at least as durable, and its own value carries the handle -/
theorem dv_handle_chain {P idOf s} (hI : Inv P idOf s) : ∀ q m, s.memos q = some m → SOK s m →
    ∀ c, m.value.h = some c → ∃ mc, s.memos c = some mc ∧ SOK s mc ∧ m.dur ≤ mc.dur ∧ mc.value.h = some c := by
  intro q
  induction q using Nat.strongRecOn with
  | ind q ih =>
    intro m hm hs c hc
    rcases (hI.node q m hm).hsrc c hc with ⟨h, _⟩ | ⟨o, q', ho, hout, hd, hv⟩
    · subst h; exact ⟨m, hm, hs, Nat.le_refl _, hc⟩
    · obtain ⟨hlt, m2, hm2, hs2, hval, hdur⟩ := qry_read_info' hI hm hs o q' ho hout hd
      obtain ⟨mc, hmc, hsc, hd2, hh⟩ := ih q' hlt m2 hm2 hs2 c (by rw [hval]; exact hv)
      exact ⟨mc, hmc, hsc, Nat.le_trans hdur hd2, hh⟩

/-! ### stamps are bounded by the current revision -/

theorem dv_depInfo_ca_le {P idOf s d x} (hI : Inv P idOf s) (h : depInfo s d = some x) : x.ca ≤ s.cur := by
  cases d with
  | inp i => simp only [depInfo, Option.some.injEq] at h; subst h; exact hI.inp_le i
  | qry q =>
    cases hm : s.memos q with
    | none => simp [depInfo, hm] at h
    | some m =>
      simp only [depInfo, hm, Option.map_some, Option.some.injEq] at h
      subst h
      have := (hI.node q m hm).obs
      exact Nat.le_trans this.ca_va this.va_cur
  | field c =>
    cases hm : s.slots c with
    | none => simp [depInfo, hm] at h
    | some sl =>
      simp only [depInfo, hm, Option.map_some, Option.some.injEq] at h
      subst h
      exact (hI.slot c sl hm).1
  | spec c =>
    cases hm : s.smemos c with
    | none => simp [depInfo, hm] at h
    | some sm =>
      simp only [depInfo, hm, Option.map_some, Option.some.injEq] at h
      subst h
      have ok := hI.smemo c sm hm
      cases ho : sm.origin with
      | none =>
        have := (ok.derived ho).1
        exact Nat.le_trans this.ca_va this.va_cur
      | some k =>
        obtain ⟨_, _, a, b, _⟩ := ok.assigned k ho
        exact Nat.le_trans a b

theorem dv_smemo_va1 {P idOf s c sm} (hI : Inv P idOf s) (hm : s.smemos c = some sm) : 1 ≤ sm.va := by
  have ok := hI.smemo c sm hm
  cases ho : sm.origin with
  | none => exact (ok.derived ho).1.va1
  | some k => exact (ok.assigned k ho).2.2.2.2.1

theorem dv_smemo_dur3 {P idOf s c sm} (hI : Inv P idOf s) (hm : s.smemos c = some sm) : sm.dur ≤ 3 := by
  have ok := hI.smemo c sm hm
  cases ho : sm.origin with
  | none => exact (ok.derived ho).1.dur3
  | some k => exact (ok.assigned k ho).2.2.2.2.2

theorem dv_sok_of_never {P idOf s} (hI : Inv P idOf s) {m : Memo} (h3 : 3 ≤ m.dur) (hva : 1 ≤ m.va) : SOK s m := by
  right; rw [hI.lc_never m.dur h3]; exact hva

/-- no logged write is later than the `verified_at` of a memo that passes the shallow test -/
theorem dv_no_write_after_sok {P idOf s} (hI : Inv P idOf s) {mc : Memo} (hs : SOK s mc) :
    ∀ w d, (w, d) ∈ s.wlog → mc.dur ≤ d → ¬ mc.va < w := by
  intro w d hw hd hlt
  rcases hs with e | e
  · have h1 := hI.wlog_lc w d hw 0 (Nat.zero_le _)
    have h2 := hI.lc_le 0
    omega
  · have := hI.wlog_lc w d hw mc.dur hd
    omega

/-! ### a dependency that passes the shallow test keeps its info across a nested request -/

theorem dv_sokDep_info_ext {s t : State} {k : Nat} {d : Dep} {x : Res} (h : Ext s t k) (hd : sokDep s d)
    (hi : depInfo s d = some x) : sokDep t d ∧ depInfo t d = some x := by
  cases d with
  | inp i =>
    refine ⟨trivial, ?_⟩
    simp only [depInfo] at hi ⊢
    rw [h.inp]; exact hi
  | qry q =>
    obtain ⟨m, hm, hs⟩ := hd
    obtain ⟨m', hm', hv⟩ := h.sok q m hm hs
    obtain ⟨a, b, c, _⟩ := verEq_fields' hv
    refine ⟨⟨m', hm', (h.sokIff m').mpr (sok_verEq hs hv)⟩, ?_⟩
    simp only [depInfo, hm, hm', Option.map_some, a, b, c] at hi ⊢
    exact hi
  | field c =>
    obtain ⟨hc, hne⟩ := hd
    cases hsl : s.slots c with
    | none => exact absurd hsl hne
    | some sl =>
      obtain ⟨sl', a, _, _, e3, e4, e5⟩ := h.slot c sl hc hsl
      refine ⟨⟨h.memoSok hc, by rw [a]; simp⟩, ?_⟩
      simp only [depInfo, hsl, a, Option.map_some, e3, e4, e5] at hi ⊢
      exact hi
  | spec c =>
    obtain ⟨hc, sm, hsm, hs⟩ := hd
    obtain ⟨sm', hsm', hv⟩ := h.smsok c sm hc hsm hs
    obtain ⟨a, b, c', _⟩ := verEq_fields' hv
    refine ⟨⟨h.memoSok hc, sm', hsm', (h.sokIff sm').mpr (sok_verEq hs hv)⟩, ?_⟩
    simp only [depInfo, hsm, hsm', Option.map_some, a, b, c'] at hi ⊢
    exact hi

/-- a NEVER_CHANGE dependency whose creator (for struct reads) is valid passes the shallow test -/
theorem dv_sokDep_of_never {P idOf s d x} (hI : Inv P idOf s) (hi : depInfo s d = some x) (h3 : 3 ≤ x.dur)
    (hcr : ∀ c, (d = .field c ∨ d = .spec c) → memoSok s c) : sokDep s d := by
  cases d with
  | inp i => trivial
  | qry q =>
    cases hm : s.memos q with
    | none => simp [depInfo, hm] at hi
    | some m =>
      simp only [depInfo, hm, Option.map_some, Option.some.injEq] at hi
      subst hi
      exact ⟨m, hm, dv_sok_of_never hI h3 (hI.node q m hm).obs.va1⟩
  | field c =>
    refine ⟨hcr c (Or.inl rfl), ?_⟩
    cases hm : s.slots c with
    | none => simp [depInfo, hm] at hi
    | some sl => simp
  | spec c =>
    refine ⟨hcr c (Or.inr rfl), ?_⟩
    cases hm : s.smemos c with
    | none => simp [depInfo, hm] at hi
    | some sm =>
      simp only [depInfo, hm, Option.map_some, Option.some.injEq] at hi
      subst hi
      exact ⟨sm, rfl, dv_sok_of_never hI h3 (dv_smemo_va1 hI hm)⟩

/-! ### current reads -/

/-- read `o` is current in `t` at level `L` -/
structure Green (t : State) (L : Nat) (o : Obs) : Prop where
  sok : sokDep t o.dep
  hot : o.recd = true → hotDep t o.dep
  info : ∃ x, depInfo t o.dep = some x ∧ x.val = o.val ∧ L ≤ x.dur ∧ (o.recd = false → 3 ≤ x.dur)

theorem Green.ext {s t : State} {k L : Nat} {o : Obs} (h : Ext s t k) (g : Green s L o) : Green t L o := by
  obtain ⟨x, hx, a, b, c⟩ := g.info
  obtain ⟨h1, h2⟩ := dv_sokDep_info_ext h g.sok hx
  exact ⟨h1, fun hr => hotDep_ext h (g.hot hr), x, h2, a, b, c⟩

theorem Green.level {t : State} {L L' : Nat} {o : Obs} (g : Green t L o) (h : L' ≤ L) : Green t L' o := by
  obtain ⟨x, hx, a, b, c⟩ := g.info
  exact ⟨g.sok, g.hot, x, hx, a, Nat.le_trans h b, c⟩

/-- the slot of a struct read that is current exists, and so does the memo of `spec` -/
theorem Green.slot {P idOf t L o c} (hI : Inv P idOf t) (g : Green t L o) (hd : o.dep = .field c ∨ o.dep = .spec c) :
    memoSok t c ∧ ∃ sl, t.slots c = some sl := by
  have h := g.sok
  rcases hd with e | e
  · rw [e] at h
    refine ⟨h.1, ?_⟩
    cases hs : t.slots c with
    | none => exact absurd hs h.2
    | some sl => exact ⟨sl, rfl⟩
  · rw [e] at h
    obtain ⟨hc, sm, hsm, _⟩ := h
    exact ⟨hc, hI.smslot c sm hsm⟩

/-- the observer clause of a current read holds by its first alternative, for every `verified_at` -/
theorem Green.obsAt {P idOf t L o} (hI : Inv P idOf t) (g : Green t L o) (va : Nat) : ObsAt t va L o := by
  obtain ⟨x, hx, a, b, _⟩ := g.info
  refine ⟨?_, ?_, ?_⟩
  · intro x' hx'
    rw [hx] at hx'; cases hx'
    exact Or.inl ⟨a, b⟩
  · intro c mc hd hs _
    obtain ⟨_, sl, hsl⟩ := g.slot hI hd
    rw [hs] at hsl; cases hsl
  · intro c sl hd _ hsm
    have h := g.sok
    rw [hd] at h
    obtain ⟨_, sm, hsm', _⟩ := h
    rw [hsm] at hsm'; cases hsm'

/-- the observer clause at level 3 of a current unrecorded read -/
theorem Green.obsAt3 {P idOf t L o} (hI : Inv P idOf t) (g : Green t L o) (hr : o.recd = false) (va : Nat) :
    ObsAt t va 3 o := by
  obtain ⟨x, hx, a, _, c⟩ := g.info
  exact Green.obsAt hI (L := 3) ⟨g.sok, g.hot, x, hx, a, c hr, c⟩ va

/-- the value of a current read is the from-scratch value of the dependency -/
theorem Green.sem {P idOf t L o} (hP : Wf2 P idOf) (hI : Inv P idOf t) (g : Green t L o) :
    semDep P t.inp o.dep = o.val := by
  obtain ⟨x, hx, a, _, _⟩ := g.info
  have h := g.sok
  cases hd : o.dep with
  | inp i =>
    rw [hd] at hx
    simp only [depInfo, Option.some.injEq] at hx
    rw [← a, ← hx]; rfl
  | qry q =>
    rw [hd] at hx h
    obtain ⟨m, hm, hs⟩ := h
    simp only [depInfo, hm, Option.map_some, Option.some.injEq] at hx
    rw [← a, ← hx]
    exact (value_of_sok hP hI hm hs).symm
  | field c =>
    rw [hd] at hx h
    cases hsl : t.slots c with
    | none => exact absurd hsl h.2
    | some sl =>
      simp only [depInfo, hsl, Option.map_some, Option.some.injEq] at hx
      rw [← a, ← hx]
      exact field_sem_val hP hI h.1 hsl
  | spec c =>
    rw [hd] at hx h
    obtain ⟨hc, sm, hsm, hss⟩ := h
    simp only [depInfo, hsm, Option.map_some, Option.some.injEq] at hx
    rw [← a, ← hx]
    exact (spec_sem hP hI hc hsm hss).symm

end SalsaVerif.Proofs.CoreSpec
