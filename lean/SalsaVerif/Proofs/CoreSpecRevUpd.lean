/-
  CoreSpec, histories with writes: `execute` of a node, part 1 — a state change confined to the
  records of ONE key `r` (its node memo, its struct, its `spec` memo): `Upd r s t`.
  Everything of the invariant that does not mention a record of `r` is carried over
  (`obsAt_off`, `obsOk_upd`, `nodeOk_upd`, `inv_upd`); what does is left to the caller as
  level-generic observer obligations.  Core Lean only.
-/
import SalsaVerif.Proofs.CoreSpecRevRun0

namespace SalsaVerif.Proofs.CoreSpec
namespace X
open SalsaVerif.Model.CoreSpec

/-- `d` is a dependency on a record of key `r` -/
def atR (r : Nat) (d : Dep) : Prop := d = .qry r ∨ d = .field r ∨ d = .spec r

structure Upd (r : Nat) (s t : State) : Prop where
  cur : t.cur = s.cur
  lch : t.lch = s.lch
  inp : t.inp = s.inp
  wlog : t.wlog = s.wlog
  memos : ∀ q, q ≠ r → t.memos q = s.memos q
  slots : ∀ c, c ≠ r → t.slots c = s.slots c
  smemos : ∀ c, c ≠ r → t.smemos c = s.smemos c

namespace Upd
variable {r : Nat} {s t : State}

theorem lcEq (h : Upd r s t) (d : Nat) : lc t d = lc s d := by
  simp [Model.CoreSpec.lc, h.cur, h.lch]

theorem sokIff (h : Upd r s t) (m : Memo) : SOK t m ↔ SOK s m := by
  simp only [SOK, h.cur, h.lcEq]

theorem witIff (h : Upd r s t) (k lo hi : Nat) : Wit t k lo hi ↔ Wit s k lo hi := by
  simp only [Wit, h.wlog]

theorem memoSokIff (h : Upd r s t) {q : Nat} (hq : q ≠ r) : memoSok t q ↔ memoSok s q := by
  simp only [memoSok, h.memos q hq, h.sokIff]

theorem busyIff (h : Upd r s t) {q : Nat} (hq : q ≠ r) : Busy t q ↔ Busy s q := by
  simp only [Busy, h.slots q hq, h.cur, h.memoSokIff hq]

theorem depInfo_off (h : Upd r s t) {d : Dep} (hd : ¬ atR r d) : depInfo t d = depInfo s d := by
  cases d with
  | inp i => simp only [depInfo, h.inp]
  | qry q =>
    have : q ≠ r := fun e => hd (Or.inl (by rw [e]))
    simp only [depInfo, h.memos q this]
  | field c =>
    have : c ≠ r := fun e => hd (Or.inr (Or.inl (by rw [e])))
    simp only [depInfo, h.slots c this]
  | spec c =>
    have : c ≠ r := fun e => hd (Or.inr (Or.inr (by rw [e])))
    simp only [depInfo, h.smemos c this]

theorem sokDep_off (h : Upd r s t) {d : Dep} (hd : ¬ atR r d) : sokDep t d ↔ sokDep s d := by
  cases d with
  | inp i => exact Iff.rfl
  | qry q =>
    have : q ≠ r := fun e => hd (Or.inl (by rw [e]))
    exact h.memoSokIff this
  | field c =>
    have : c ≠ r := fun e => hd (Or.inr (Or.inl (by rw [e])))
    simp only [sokDep, h.memoSokIff this, h.slots c this]
  | spec c =>
    have : c ≠ r := fun e => hd (Or.inr (Or.inr (by rw [e])))
    simp only [sokDep, h.memoSokIff this, h.smemos c this, h.sokIff]

theorem obsAt_off (h : Upd r s t) {va L : Nat} {o : Obs} (hd : ¬ atR r o.dep) (a : ObsAt s va L o) :
    ObsAt t va L o := by
  refine ⟨?_, ?_, ?_⟩
  · intro x hx
    rw [h.depInfo_off hd] at hx
    exact (a.iv x hx).imp id (h.witIff _ _ _).mpr
  · intro c mc hdc hs hm
    have hc : c ≠ r := by
      intro e; subst e
      rcases hdc with e | e
      · exact hd (Or.inr (Or.inl e))
      · exact hd (Or.inr (Or.inr e))
    rw [h.slots c hc] at hs; rw [h.memos c hc] at hm
    exact (h.witIff _ _ _).mpr (a.dead c mc hdc hs hm)
  · intro c sl hdc hs hm
    have hc : c ≠ r := by
      intro e; subst e; exact hd (Or.inr (Or.inr hdc))
    rw [h.slots c hc] at hs; rw [h.smemos c hc] at hm
    exact (h.witIff _ _ _).mpr (a.deadsm c sl hdc hs hm)

theorem structAt_off (h : Upd r s t) {va L : Nat} {o : Obs} (hd : ¬ atR r o.dep) (a : StructAt s va L o) :
    StructAt t va L o := by
  have hc : ∀ c, (o.dep = .field c ∨ o.dep = .spec c) → c ≠ r := by
    intro c hdc e; subst e
    rcases hdc with e | e
    · exact hd (Or.inr (Or.inl e))
    · exact hd (Or.inr (Or.inr e))
  refine ⟨?_, ?_⟩
  · intro c mc hdc hm
    rw [h.memos c (hc c hdc)] at hm
    exact (a.odur c mc hdc hm).imp id (h.witIff _ _ _).mpr
  · intro c mc hdc hm
    rw [h.memos c (hc c hdc)] at hm
    exact (a.hexp c mc hdc hm).imp id (h.witIff _ _ _).mpr

end Upd

/-- what the caller owes for the records of `r` that observers mention besides the observer
    clauses themselves -/
structure UpdR (r : Nat) (s t : State) : Prop where
  /-- a node memo of `r` stays there and its `verified_at` does not go down -/
  mq : ∀ m0, s.memos r = some m0 → ∃ m1, t.memos r = some m1 ∧ m0.va ≤ m1.va
  /-- a `spec` memo of `r` in `t` is the old one or verified now -/
  sm : ∀ sm', t.smemos r = some sm' → s.smemos r = some sm' ∨ s.cur ≤ sm'.va
  /-- a node memo of `r` in `t` is the old one or verified now -/
  mr : ∀ mc', t.memos r = some mc' → s.memos r = some mc' ∨ s.cur ≤ mc'.va

theorem obsOk_upd {P idOf r s t m} (U : Upd r s t) (R : UpdR r s t) (hI : Inv P idOf s) (ok : ObsOk s m)
    (hso : SOK s m → ∀ o, o ∈ m.obs → o.out = false → atR r o.dep →
      ∀ x, depInfo s o.dep = some x → ∃ x', depInfo t o.dep = some x' ∧ x'.ca ≤ x.ca)
    (hat : ∀ o, o ∈ m.obs → o.out = false → atR r o.dep → ∀ L, (L = m.dur ∨ (L = 3 ∧ o.recd = false)) →
      ObsAt s m.va L o → ObsAt t m.va L o) : ObsOk t m := by
  have tr : ∀ o, o ∈ m.obs → o.out = false → ∀ L, (L = m.dur ∨ (L = 3 ∧ o.recd = false)) →
      ObsAt s m.va L o → ObsAt t m.va L o := by
    intro o ho hout L hL a
    by_cases hd : atR r o.dep
    · exact hat o ho hout hd L hL a
    · exact U.obsAt_off hd a
  refine ⟨ok.ca_va, by rw [U.cur]; exact ok.va_cur, ok.va1, ok.deep_va, ok.deep1, ok.dur3, ?_, ?_, ?_, ?_, ?_, ?_,
    ?_, ?_⟩
  · intro o ho hout; exact tr o ho hout _ (Or.inl rfl) (ok.iv o ho hout)
  · intro hs o ho hout
    have hs' := (U.sokIff m).mp hs
    obtain ⟨x, hx, hc⟩ := ok.kaca hs' o ho hout
    by_cases hd : atR r o.dep
    · obtain ⟨x', hx', hc'⟩ := hso hs' o ho hout hd x hx
      exact ⟨x', hx', Nat.le_trans hc' hc⟩
    · exact ⟨x, by rw [U.depInfo_off hd]; exact hx, hc⟩
  · rw [U.lcEq]; exact ok.i4
  · intro o q' ho hout hd
    obtain ⟨m', hm', h⟩ := ok.i5q o q' ho hout hd
    by_cases hq : q' = r
    · subst hq
      obtain ⟨m1, a, b⟩ := R.mq m' hm'
      exact ⟨m1, a, fun hr => Nat.le_trans (h hr) b⟩
    · exact ⟨m', by rw [U.memos q' hq]; exact hm', h⟩
  · intro o c sm ho hout hd hr hsm
    by_cases hc : c = r
    · subst hc
      rcases R.sm sm hsm with e | e
      · exact ok.i5s o c sm ho hout hd hr e
      · exact Nat.le_trans ok.deep_va (Nat.le_trans ok.va_cur e)
    · rw [U.smemos c hc] at hsm
      exact ok.i5s o c sm ho hout hd hr hsm
  · intro o c mc ho hout hd hmc w d hw hdur hlt
    rw [U.wlog] at hw
    by_cases hc : c = r
    · subst hc
      rcases R.mr mc hmc with e | e
      · exact ok.ordw o c mc ho hout hd e w d hw hdur hlt
      · have h1 := hI.wlog_lc w d hw 0 (Nat.zero_le _)
        have h2 : lc s 0 = s.cur := by simp [Model.CoreSpec.lc]
        omega
    · rw [U.memos c hc] at hmc
      exact ok.ordw o c mc ho hout hd hmc w d hw hdur hlt
  · intro o ho hout hr; exact tr o ho hout 3 (Or.inr ⟨rfl, hr⟩) (ok.i6 o ho hout hr)
  · intro w d hw; rw [U.wlog] at hw; exact ok.g4 w d hw

/-- the level-generic obligations of the caller for ONE observer memo `m` -/
structure ObsTr (r : Nat) (s t : State) (m : Memo) : Prop where
  oa : ∀ o, o ∈ m.obs → o.out = false → atR r o.dep → ∀ L, m.dur ≤ L → ObsAt s m.va L o →
      (StructAt s m.va L o ∨ 3 ≤ L) → ObsAt t m.va L o
  sa : ∀ o, o ∈ m.obs → o.out = false → atR r o.dep → ∀ L, m.dur ≤ L → ObsAt s m.va L o →
      StructAt s m.va L o → StructAt t m.va L o
  m4 : ∀ o, o ∈ m.obs → o.out = false → atR r o.dep → ObsAt s m.va m.dur o →
      (∀ x, depInfo s o.dep = some x → m.ca ≤ x.ca) → ∀ x, depInfo t o.dep = some x → m.ca ≤ x.ca

/-- an observer that reads no record of `r` owes nothing -/
theorem obsTr_off {r s t m} (h : ∀ o, o ∈ m.obs → o.out = false → ¬ atR r o.dep) : ObsTr r s t m :=
  ⟨fun o ho hout hd => absurd hd (h o ho hout), fun o ho hout hd => absurd hd (h o ho hout),
   fun o ho hout hd => absurd hd (h o ho hout)⟩

theorem preAt_upd {P : Prog} {idOf : Nat → Nat} {r s t q m R L} (U : Upd r s t) (T : ObsTr r s t m)
    (hR : replayR q idOf (P.node q) m.obs none none = some R) (hL : m.dur ≤ L)
    (a : PreAt s m.va L (preOf idOf (P.node q) m.obs)) : PreAt t m.va L (preOf idOf (P.node q) m.obs) := by
  intro o ho
  have hm := preOf_sublist idOf _ _ o ho
  have hout := preOf_nonout q idOf _ _ none none R hR o ho
  by_cases hd : atR r o.dep
  · exact ⟨T.oa o hm hout hd L hL (a o ho).1 (Or.inl (a o ho).2), T.sa o hm hout hd L hL (a o ho).1 (a o ho).2⟩
  · exact ⟨U.obsAt_off hd (a o ho).1, U.structAt_off hd (a o ho).2⟩

theorem tieOk_upd {P : Prog} {idOf : Nat → Nat} {r s t q m R} (U : Upd r s t) (T : ObsTr r s t m)
    (hR : replayR q idOf (P.node q) m.obs none none = some R)
    (hsn : s.slots q = none → t.slots q = none)
    (hsl : ∀ sl, s.slots q = some sl → ∃ sl', t.slots q = some sl' ∧ SlotEq sl sl') (hsm : t.smemos q = s.smemos q)
    (a : TieOk s q m R (preOf idOf (P.node q) m.obs)) : TieOk t q m R (preOf idOf (P.node q) m.obs) := by
  unfold TieOk at a ⊢
  cases hts : R.ts with
  | none =>
    rw [hts] at a
    simp only at a ⊢
    rw [hsm]; exact ⟨hsn a.1, a.2⟩
  | some kv =>
    obtain ⟨k, v⟩ := kv
    rw [hts] at a
    simp only at a ⊢
    obtain ⟨sl, h1, h2, h3, h4, h5⟩ := a
    obtain ⟨sl', h1', _, e2, e3, e4, e5⟩ := hsl sl h1
    refine ⟨sl', h1', e2.trans h2, e3.trans h3, by rw [e4]; exact h4, ?_⟩
    cases hsp : R.sp with
    | some w =>
      rw [hsp] at h5
      obtain ⟨A, hA, g1, g2, g3, g4, g5, g6, g7⟩ := h5
      exact ⟨A, by rw [hsm]; exact hA, g1, g2, g3, g4, by rw [e5]; exact g5, preAt_upd U T hR g4 g6, g7⟩
    | none =>
      rw [hsp] at h5
      obtain ⟨g1, g2⟩ := h5
      show _ ∧ PreAt t m.va (max sl'.dur m.dur) _
      rw [e5]
      refine ⟨?_, preAt_upd U T hR (Nat.le_max_right _ _) g2⟩
      intro A hA ho
      rw [hsm] at hA
      exact (U.witIff _ _ _).mpr (g1 A hA ho)

theorem nodeOk_upd {P idOf r s t q m} (U : Upd r s t) (R : UpdR r s t) (hI : Inv P idOf s)
    (ok : NodeOk P idOf s q m)
    (hS : memoSok s r → ∀ d, atR r d →
      (∀ x, depInfo s d = some x → ∃ x', depInfo t d = some x' ∧ x'.ca ≤ x.ca) ∧ (sokDep s d → sokDep t d))
    (T : ObsTr r s t m)
    (hrep : ¬ Busy t q → ¬ Busy s q ∧ (s.slots q = none → t.slots q = none) ∧
      (∀ sl, s.slots q = some sl → ∃ sl', t.slots q = some sl' ∧ SlotEq sl sl') ∧ t.smemos q = s.smemos q) :
    NodeOk P idOf t q m := by
  have hso : SOK s m → ∀ o, o ∈ m.obs → o.out = false → atR r o.dep → memoSok s r := by
    intro hs o ho hout hd
    have hk := ok.ksok hs o ho hout
    rcases hd with e | e | e
    · rw [e] at hk; exact hk
    · rw [e] at hk; exact hk.1
    · rw [e] at hk; exact hk.1
  refine ⟨?_, ok.origin, ?_, ok.rank, ?_, ?_, ok.hd, ?_, ok.hsrc, ok.outedge, ok.never, ?_, ok.shape⟩
  rotate_left 3
  · intro o c ho hout hd
    obtain ⟨mc, hmc⟩ := ok.hmemo o c ho hout hd
    by_cases hc : c = r
    · subst hc
      obtain ⟨m1, a, _⟩ := R.mq mc hmc
      exact ⟨m1, a⟩
    · exact ⟨mc, by rw [U.memos c hc]; exact hmc⟩
  rotate_right 3
  · apply obsOk_upd U R hI ok.obs (fun hs o ho hout hd => (hS (hso hs o ho hout hd) _ hd).1)
    intro o ho hout hd L hL a
    rcases hL with e | ⟨e, _⟩
    · subst e
      exact T.oa o ho hout hd _ (Nat.le_refl _) a (Or.inl (ok.sobs o ho hout))
    · subst e
      exact T.oa o ho hout hd _ ok.obs.dur3 a (Or.inr (Nat.le_refl _))
  · intro hs o ho hout
    have hs' := (U.sokIff m).mp hs
    by_cases hd : atR r o.dep
    · exact (hS (hso hs' o ho hout hd) _ hd).2 (ok.ksok hs' o ho hout)
    · exact (U.sokDep_off hd).mpr (ok.ksok hs' o ho hout)
  · intro o ho hout
    by_cases hd : atR r o.dep
    · exact T.sa o ho hout hd _ (Nat.le_refl _) (ok.obs.iv o ho hout) (ok.sobs o ho hout)
    · exact U.structAt_off hd (ok.sobs o ho hout)
  · obtain ⟨R0, h1, h2, h3, h4, h5⟩ := ok.rep
    refine ⟨R0, h1, h2, h3, h4, ?_⟩
    intro hnb
    obtain ⟨a, b, c, d⟩ := hrep hnb
    refine ⟨tieOk_upd U T h1 b c d (h5 a).1, ?_⟩
    have ha := (h5 a).2
    unfold AOrd at ha ⊢
    rw [d, U.wlog]; exact ha
  · rcases ok.m4 with h | ⟨o, ho, hout, h⟩
    · exact Or.inl h
    · refine Or.inr ⟨o, ho, hout, ?_⟩
      by_cases hd : atR r o.dep
      · exact T.m4 o ho hout hd (ok.obs.iv o ho hout) h
      · intro x hx; rw [U.depInfo_off hd] at hx; exact h x hx

/-- a `spec` memo of another struct reads no record of `r` -/
theorem specOk_upd {P idOf r s t c sm} (U : Upd r s t) (R : UpdR r s t) (hI : Inv P idOf s) (hc : c ≠ r)
    (ok : SpecOk P idOf s c sm) : SpecOk P idOf t c sm := by
  refine ⟨?_, ?_, ok.noh, ok.hgen, ok.dshape⟩
  · intro ho
    obtain ⟨h1, h2⟩ := ok.derived ho
    have hoff : ∀ o, o ∈ sm.obs → o.out = false → ¬ atR r o.dep := by
      intro o hm _ hd
      rcases (ok.dshape ho o hm).2 with e | ⟨i, e⟩
      · rw [e] at hd
        rcases hd with e' | e' | e'
        · cases e'
        · cases e'; exact hc rfl
        · cases e'
      · rw [e] at hd
        rcases hd with e' | e' | e' <;> cases e'
    exact ⟨obsOk_upd U R hI h1 (fun _ o hm hout hd => absurd hd (hoff o hm hout))
      (fun o hm hout hd => absurd hd (hoff o hm hout)), h2⟩
  · intro k hk
    obtain ⟨h1, h2, h3, h4, h5, h6⟩ := ok.assigned k hk
    exact ⟨h1, h2, h3, by rw [U.cur]; exact h4, h5, h6⟩

/-- The invariant after a change confined to the records of `r`: the caller provides the clauses
    for the records of `r` in the new state and the observer obligations. -/
theorem inv_upd {P idOf r s t} (hI : Inv P idOf s) (U : Upd r s t) (R : UpdR r s t) (hpn : t.panic = none)
    (hS : memoSok s r → ∀ d, atR r d →
      (∀ x, depInfo s d = some x → ∃ x', depInfo t d = some x' ∧ x'.ca ≤ x.ca) ∧ (sokDep s d → sokDep t d))
    (hT : ∀ q m, q ≠ r → s.memos q = some m → ObsTr r s t m)
    (hnode : ∀ m, t.memos r = some m → NodeOk P idOf t r m)
    (hnonode : t.memos r = none → ¬ Busy t r → t.slots r = none ∧ t.smemos r = none)
    (hspec : ∀ sm, t.smemos r = some sm → SpecOk P idOf t r sm)
    (hsmslot : ∀ sm, t.smemos r = some sm → ∃ sl, t.slots r = some sl)
    (hslot : ∀ sl, t.slots r = some sl → sl.fca ≤ t.cur ∧ 1 ≤ sl.fca ∧ sl.upd ≤ t.cur ∧ sl.dur ≤ 3)
    (hhot : ∀ sm, t.smemos r = some sm → sm.va = t.cur → memoSok t r ∨ Busy t r) : Inv P idOf t := by
  refine ⟨hpn, by rw [U.cur]; exact hI.cur1, ?_, ?_, ?_, ?_, ?_, ?_, ?_, ?_, ?_, ?_, ?_, ?_, ?_, ?_, ?_⟩
  · intro d; rw [U.lcEq, U.cur]; exact hI.lc_le d
  · intro d; rw [U.lcEq]; exact hI.lc_ge1 d
  · intro d; rw [U.lcEq, U.lcEq]; exact hI.lc_anti d
  · intro d hd; rw [U.lcEq]; exact hI.lc_never d hd
  · intro i; rw [U.inp, U.cur]; exact hI.inp_le i
  · intro i; rw [U.inp]; exact hI.inp_ge1 i
  · intro w d hw k hk; rw [U.wlog] at hw; rw [U.lcEq]; exact hI.wlog_lc w d hw k hk
  · intro w d hw; rw [U.wlog] at hw; exact hI.wlog3 w d hw
  · intro w h1 h2; rw [U.cur] at h2; rw [U.wlog]; exact hI.bumps w h1 h2
  · intro q m hm
    by_cases hq : q = r
    · subst hq; exact hnode m hm
    · rw [U.memos q hq] at hm
      refine nodeOk_upd U R hI (hI.node q m hm) hS (hT q m hq hm) ?_
      intro hnb
      refine ⟨fun hb => hnb ((U.busyIff hq).mpr hb), fun h => by rw [U.slots q hq]; exact h,
        fun sl h => ⟨sl, by rw [U.slots q hq]; exact h, SlotEq.refl sl⟩, U.smemos q hq⟩
  · intro q hm hnb
    by_cases hq : q = r
    · subst hq; exact hnonode hm hnb
    · rw [U.memos q hq] at hm
      rw [U.slots q hq, U.smemos q hq]
      exact hI.nonode q hm (fun hb => hnb ((U.busyIff hq).mpr hb))
  · intro c sm hsm
    by_cases hc : c = r
    · subst hc; exact hspec sm hsm
    · rw [U.smemos c hc] at hsm
      exact specOk_upd U R hI hc (hI.smemo c sm hsm)
  · intro c sm hsm
    by_cases hc : c = r
    · subst hc; exact hsmslot sm hsm
    · rw [U.smemos c hc] at hsm
      rw [U.slots c hc]; exact hI.smslot c sm hsm
  · intro c sl hsl
    by_cases hc : c = r
    · subst hc; exact hslot sl hsl
    · rw [U.slots c hc] at hsl
      rw [U.cur]; exact hI.slot c sl hsl
  · intro c sm hsm hva
    by_cases hc : c = r
    · subst hc; exact hhot sm hsm hva
    · rw [U.smemos c hc] at hsm
      rw [U.cur] at hva
      rcases hI.hotsm c sm hsm hva with a | a
      · exact Or.inl ((U.memoSokIff hc).mpr a)
      · exact Or.inr ((U.busyIff hc).mpr a)

/-- the node memo of `r` itself, unchanged, while `r` is busy: its reads are below `r` -/
theorem nodeOk_upd_self {P idOf r s t m} (U : Upd r s t) (R : UpdR r s t) (hI : Inv P idOf s)
    (ok : NodeOk P idOf s r m) (hnr : ¬ memoSok s r) (hb : Busy t r) : NodeOk P idOf t r m := by
  refine nodeOk_upd U R hI ok (fun h => absurd h hnr) (obsTr_off ?_) (fun hnb => absurd hb hnb)
  intro o ho hout hd
  have := ok.rank o ho hout
  rcases hd with e | e | e <;> rw [e] at this <;> simp only [depBelow] at this <;> omega

end X
end SalsaVerif.Proofs.CoreSpec
