/-
  CoreSpec: soundness within ONE revision (any number of requests, in any order, no write in
  between): every request that does not panic returns the from-scratch value `sem`.
  Every memo found is verified in the current revision, so no verification is involved; the proof
  is about execution: structs, `specify`, the `spec` function, handles.  Core Lean only.
-/
import SalsaVerif.Proofs.CoreSpecRef

namespace SalsaVerif.Proofs.CoreSpec
open SalsaVerif.Model.CoreSpec

/-- the struct of a creator agrees with the struct of its from-scratch run -/
def SlotOk : Option Slot → Option (Nat × Nat) → Prop
  | none, none => True
  | some sl, some (k, v) => sl.k = k ∧ sl.v = v
  | _, _ => False

/-- Invariant of the states of one revision, for everything of rank `< r`. -/
structure J (P : Prog) (env : Nat → Inp) (r : Nat) (s : State) : Prop where
  inp : s.inp = env
  pn : s.panic = none
  memo : ∀ q m, q < r → s.memos q = some m → m.va = s.cur ∧ m.value = sem P env q
  nomemo : ∀ c, c < r → s.memos c = none → s.slots c = none ∧ s.smemos c = none
  slot : ∀ c, c < r → s.memos c ≠ none → SlotOk (s.slots c) (semRes P env c).ts
  smemo : ∀ c sm, c < r → s.smemos c = some sm → sm.va = s.cur ∧ sm.value = semSpec P env c
  spec : ∀ c v, c < r → s.memos c ≠ none → (semRes P env c).sp = some v → s.smemos c ≠ none

/-- frame: the sub-engine for ranks `< r` leaves everything of rank `≥ r` alone -/
structure Ext1 (r : Nat) (s t : State) : Prop where
  cur : t.cur = s.cur
  inp : t.inp = s.inp
  above_m : ∀ q, r ≤ q → t.memos q = s.memos q
  above_s : ∀ c, r ≤ c → t.slots c = s.slots c
  above_sm : ∀ c, r ≤ c → t.smemos c = s.smemos c

theorem Ext1.refl (r s) : Ext1 r s s := ⟨rfl, rfl, fun _ _ => rfl, fun _ _ => rfl, fun _ _ => rfl⟩

theorem Ext1.trans {r s t u} (h1 : Ext1 r s t) (h2 : Ext1 r t u) : Ext1 r s u :=
  ⟨h2.cur.trans h1.cur, h2.inp.trans h1.inp,
   fun q hq => (h2.above_m q hq).trans (h1.above_m q hq),
   fun q hq => (h2.above_s q hq).trans (h1.above_s q hq),
   fun q hq => (h2.above_sm q hq).trans (h1.above_sm q hq)⟩

theorem Ext1.weaken {r r' s t} (h : Ext1 r s t) (hr : r ≤ r') : Ext1 r' s t :=
  ⟨h.cur, h.inp, fun q hq => h.above_m q (Nat.le_trans hr hq), fun q hq => h.above_s q (Nat.le_trans hr hq),
   fun q hq => h.above_sm q (Nat.le_trans hr hq)⟩

theorem J.weaken {P env r r' s} (h : J P env r' s) (hr : r ≤ r') : J P env r s :=
  ⟨h.inp, h.pn, fun q m hq => h.memo q m (Nat.lt_of_lt_of_le hq hr),
   fun c hc => h.nomemo c (Nat.lt_of_lt_of_le hc hr), fun c hc => h.slot c (Nat.lt_of_lt_of_le hc hr),
   fun c sm hc => h.smemo c sm (Nat.lt_of_lt_of_le hc hr), fun c v hc => h.spec c v (Nat.lt_of_lt_of_le hc hr)⟩

/-- the invariant for higher ranks survives a call of the sub-engine -/
theorem J.lift {P env r r' s t} (h : J P env r' s) (ht : J P env r t) (he : Ext1 r s t) : J P env r' t := by
  refine ⟨ht.inp, ht.pn, ?_, ?_, ?_, ?_, ?_⟩
  · intro q m hq hm
    by_cases hlt : q < r
    · exact ht.memo q m hlt hm
    · rw [he.above_m q (Nat.le_of_not_lt hlt)] at hm
      rw [he.cur]; exact h.memo q m hq hm
  · intro c hc hm
    by_cases hlt : c < r
    · exact ht.nomemo c hlt hm
    · have hle := Nat.le_of_not_lt hlt
      rw [he.above_m c hle] at hm
      rw [he.above_s c hle, he.above_sm c hle]; exact h.nomemo c hc hm
  · intro c hc hm
    by_cases hlt : c < r
    · exact ht.slot c hlt hm
    · have hle := Nat.le_of_not_lt hlt
      rw [he.above_m c hle] at hm
      rw [he.above_s c hle]; exact h.slot c hc hm
  · intro c sm hc hsm
    by_cases hlt : c < r
    · exact ht.smemo c sm hlt hsm
    · have hle := Nat.le_of_not_lt hlt
      rw [he.above_sm c hle] at hsm
      rw [he.cur]; exact h.smemo c sm hc hsm
  · intro c v hc hm hsp
    by_cases hlt : c < r
    · exact ht.spec c v hlt hm hsp
    · have hle := Nat.le_of_not_lt hlt
      rw [he.above_m c hle] at hm
      rw [he.above_sm c hle]; exact h.spec c v hc hm hsp

/-- what the sub-engine (ranks `< r`) guarantees for a request that does not panic -/
def FetchOk (P : Prog) (env : Nat → Inp) (r : Nat) (fe : FetchFn) : Prop :=
  ∀ s q, q < r → J P env r s → (fe s q).1.panic = none →
    J P env r (fe s q).1 ∧ Ext1 r s (fe s q).1 ∧ (fe s q).2.val = sem P env q

/-! ### panics are sticky: a request that ends without panic never panicked -/

theorem sticky_none {s t : State} (h : Sticky s t) (ht : t.panic = none) : s.panic = none := by
  cases hp : s.panic with
  | none => rfl
  | some p => rw [h p hp] at ht; cases ht

/-! ### the body of `spec` -/

theorem runS_ok : ∀ b, WfS b → ∀ (s : State) (f : Frame),
    (runBody noFetch noFetch none b s f).1 = s ∧
    (runBody noFetch noFetch none b s f).2.2 =
      (evalX 0 (inpDep s.inp) (fun _ => 0) (fun _ _ => ⟨0, none⟩) b none none none).val := by
  intro b hb
  induction hb with
  | ret n => intro s f; exact ⟨rfl, rfl⟩
  | read i k _ ih =>
    intro s f
    simp only [runBody, readDep, evalX, ownRead_inp, inpDep]
    exact ih _ s _

/-- `t` is `s` with the struct of `c` read-locked (and possibly more events) -/
structure LockEq (c : Nat) (s t : State) : Prop where
  cur : t.cur = s.cur
  inp : t.inp = s.inp
  memos : t.memos = s.memos
  smemos : t.smemos = s.smemos
  panic : t.panic = s.panic
  other : ∀ c', c' ≠ c → t.slots c' = s.slots c'
  same : ∀ sl, s.slots c = some sl → ∃ sl', t.slots c = some sl' ∧ sl'.k = sl.k ∧ sl'.v = sl.v
  gone : s.slots c = none → t.slots c = none

theorem LockEq.refl (c s) : LockEq c s s :=
  ⟨rfl, rfl, rfl, rfl, rfl, fun _ _ => rfl, fun sl h => ⟨sl, h, rfl, rfl⟩, id⟩

theorem LockEq.trans {c s t u} (h1 : LockEq c s t) (h2 : LockEq c t u) : LockEq c s u :=
  ⟨h2.cur.trans h1.cur, h2.inp.trans h1.inp, h2.memos.trans h1.memos, h2.smemos.trans h1.smemos,
   h2.panic.trans h1.panic, fun c' hc => (h2.other c' hc).trans (h1.other c' hc),
   fun sl hsl => by
     obtain ⟨sl1, a1, a2, a3⟩ := h1.same sl hsl
     obtain ⟨sl2, b1, b2, b3⟩ := h2.same sl1 a1
     exact ⟨sl2, b1, b2.trans a2, b3.trans a3⟩,
   fun hn => h2.gone (h1.gone hn)⟩

theorem lockEq_lockSlot {c s sl} (hsl : s.slots c = some sl) : LockEq c s (lockSlot s c sl) :=
  ⟨rfl, rfl, rfl, rfl, rfl, fun c' hc => by simp only [lockSlot]; exact setSlot_other _ _ _ hc,
   fun sl' hsl' => by
     rw [hsl] at hsl'; cases hsl'
     exact ⟨{ sl with upd := s.cur }, by simp [lockSlot], rfl, rfl⟩,
   fun hn => by rw [hsl] at hn; exact absurd hn (by simp)⟩

theorem lockEq_emit (c s e) : LockEq c s (emit s e) :=
  ⟨rfl, rfl, rfl, rfl, rfl, fun _ _ => rfl, fun sl h => ⟨sl, h, rfl, rfl⟩, id⟩

theorem J_lockEq {P env r s t c} (h : J P env r s) (he : LockEq c s t) : J P env r t := by
  refine ⟨he.inp.trans h.inp, he.panic.trans h.pn, ?_, ?_, ?_, ?_, ?_⟩
  · intro q m hq hm; rw [he.memos] at hm; rw [he.cur]; exact h.memo q m hq hm
  · intro c' hc hm
    rw [he.memos] at hm
    have := h.nomemo c' hc hm
    refine ⟨?_, by rw [he.smemos]; exact this.2⟩
    by_cases e : c' = c
    · subst e; exact he.gone this.1
    · rw [he.other c' e]; exact this.1
  · intro c' hc hm
    rw [he.memos] at hm
    have := h.slot c' hc hm
    by_cases e : c' = c
    · subst e
      cases hs : s.slots c' with
      | none => rw [he.gone hs]; rw [hs] at this; exact this
      | some sl =>
        obtain ⟨sl', a1, a2, a3⟩ := he.same sl hs
        rw [hs] at this
        rw [a1]
        cases hts : (semRes P env c').ts with
        | none => rw [hts] at this; exact this
        | some kv => obtain ⟨k, v⟩ := kv; rw [hts] at this; exact ⟨a2.trans this.1, a3.trans this.2⟩
    · rw [he.other c' e]; exact this
  · intro c' sm hc hsm; rw [he.smemos] at hsm; rw [he.cur]; exact h.smemo c' sm hc hsm
  · intro c' v hc hm hs; rw [he.memos] at hm; rw [he.smemos]; exact h.spec c' v hc hm hs

theorem Ext_lockEq {r s t c} (hc : c < r) (he : LockEq c s t) : Ext1 r s t :=
  ⟨he.cur, he.inp, fun q _ => by rw [he.memos], fun c' hc' => he.other c' (by omega),
   fun c' _ => by rw [he.smemos]⟩

theorem identStep_some {s c sl} (h : s.slots c = some sl) : identStep s c = (lockSlot s c sl, sl.k) := by
  simp [identStep, h]

theorem readField_some {fe fs s c sl} (h : s.slots c = some sl) :
    readDep fe fs s (.field c) = (lockSlot s c sl, ⟨⟨sl.v, none⟩, sl.fca, sl.dur⟩) := by
  simp [readDep, h]

/-- a successful read of a struct of a smaller creator: the struct is the semantic one -/
theorem slot_sem {P env r s c sl} (h : J P env r s) (hc : c < r) (hsl : s.slots c = some sl) :
    (semRes P env c).ts = some (sl.k, sl.v) ∧ s.memos c ≠ none := by
  have hm : s.memos c ≠ none := by
    intro hm; have := (h.nomemo c hc hm).1; rw [this] at hsl; cases hsl
  have := h.slot c hc hm
  rw [hsl] at this
  cases hts : (semRes P env c).ts with
  | none => rw [hts] at this; exact absurd this id
  | some kv =>
    obtain ⟨k, v⟩ := kv
    rw [hts] at this
    obtain ⟨a, b⟩ := this
    exact ⟨by rw [a, b], hm⟩

/-- the run of `fn spec(db, t) { let (k, v) = (t.k(db), t.v(db)); body k v }` -/
theorem runSpecBody {P : Prog} (hP : Wf P) {s : State} {c : Nat} {sl : Slot} (hsl : s.slots c = some sl)
    (f : Frame) :
    LockEq c s (runBody noFetch noFetch none (specBody P.spec c) s f).1 ∧
    (runBody noFetch noFetch none (specBody P.spec c) s f).2.2 = specBodyVal P s.inp sl.k sl.v := by
  have h1 := lockEq_lockSlot hsl
  obtain ⟨sl1, a1, a2, a3⟩ := h1.same sl hsl
  have h2 := lockEq_lockSlot a1
  simp only [specBody, runBody, identStep_some hsl, readField_some a1]
  obtain ⟨r1, r2⟩ := runS_ok (P.spec sl.k sl1.v) (hP.spec _ _) (lockSlot (lockSlot s c sl) c sl1)
    ((f.push (.field c) ⟨⟨sl1.v, none⟩, sl1.fca, sl1.dur⟩))
  rw [r1, r2]
  refine ⟨h1.trans h2, ?_⟩
  rw [a3]
  simp [specBodyVal]

theorem fetchSpec_ok {P : Prog} (hP : Wf P) {env r s c sl} (h : J P env r s) (hc : c < r)
    (hsl : s.slots c = some sl) (hpn : (fetchSpec P.spec s c).1.panic = none) :
    J P env r (fetchSpec P.spec s c).1 ∧ Ext1 r s (fetchSpec P.spec s c).1 ∧
    (fetchSpec P.spec s c).2.val = semSpec P env c := by
  have ht : touchMemos s c = lockSlot s c sl := by simp [touchMemos, hsl]
  have hL0 := lockEq_lockSlot hsl
  obtain ⟨hts, hmem⟩ := slot_sem h hc hsl
  cases hsm : s.smemos c with
  | some sm =>
    obtain ⟨hva, hval⟩ := h.smemo c sm hc hsm
    rw [fetchSpec_hit P.spec s c sm hsm hva, ht]
    exact ⟨J_lockEq h hL0, Ext_lockEq hc hL0, hval⟩
  | none =>
    have hsp : (semRes P env c).sp = none := by
      cases hs : (semRes P env c).sp with
      | none => rfl
      | some v => exact absurd hsm (h.spec c v hc hmem hs)
    have hunf : fetchSpec P.spec s c = executeSpec P.spec (lockSlot s c sl) c none := by
      unfold fetchSpec; simp only [ht, lockSlot_smemos, hsm]
    rw [hunf] at hpn ⊢
    unfold executeSpec at hpn ⊢
    obtain ⟨sl1, a1, a2, a3⟩ := hL0.same sl hsl
    have hL1 := lockEq_emit c (lockSlot s c sl) (.execS c (genOf (lockSlot s c sl) c))
    obtain ⟨sl2, b1, b2, b3⟩ := hL1.same sl1 a1
    obtain ⟨hL2, hv⟩ := runSpecBody hP b1 (frame0 none)
    generalize runBody noFetch noFetch none (specBody P.spec c)
      (emit (lockSlot s c sl) (.execS c (genOf (lockSlot s c sl) c))) (frame0 none) = R at hL2 hv hpn ⊢
    have hL : LockEq c s R.1 := (hL0.trans hL1).trans hL2
    have hJ := J_lockEq h hL
    have hval : R.2.2 = semSpec P env c := by
      rw [hv]
      simp only [semSpec, specVal, hsp, hts, emit_inp, lockSlot_inp, h.inp, b2, b3, a2, a3]
    unfold installSpec at hpn ⊢
    simp only [backdate, failIf_false] at hpn ⊢
    refine ⟨?_, ?_, hval⟩
    · refine ⟨hJ.inp, by simpa using hpn, ?_, ?_, ?_, ?_, ?_⟩
      · intro q m hq hm; exact hJ.memo q m hq hm
      · intro c' hc' hm
        have hm' : R.1.memos c' = none := hm
        have := hJ.nomemo c' hc' hm'
        have hne : c' ≠ c := by intro e; subst e; rw [hL.memos] at hm'; exact hmem hm'
        exact ⟨this.1, by rw [setSMemo_other _ _ _ hne]; exact this.2⟩
      · intro c' hc' hm; exact hJ.slot c' hc' hm
      · intro c' sm hc' hsm'
        by_cases hne : c' = c
        · subst hne
          rw [setSMemo_same] at hsm'
          cases hsm'
          exact ⟨rfl, hval⟩
        · rw [setSMemo_other _ _ _ hne] at hsm'
          exact hJ.smemo c' sm hc' hsm'
      · intro c' v hc' hm hs
        by_cases hne : c' = c
        · subst hne; rw [setSMemo_same]; simp
        · rw [setSMemo_other _ _ _ hne]; exact hJ.spec c' v hc' hm hs
    · have hE := Ext_lockEq hc hL
      exact ⟨hE.cur, hE.inp, hE.above_m, hE.above_s,
        fun c' hc' => by rw [setSMemo_other _ _ _ (by omega)]; exact hE.above_sm c' hc'⟩

/-! ### running the body of node `r` -/

/-- the struct of the executing query mirrors the struct of the reference run so far -/
def MirrorSlot (self : Nat) (s : State) (f : Frame) : Option (Nat × Nat) → Prop
  | none => s.slots self = none ∧ f.ts = none
  | some (k, v) => (∃ sl, s.slots self = some sl ∧ sl.k = k ∧ sl.v = v) ∧ f.ts.isSome = true

/-- the `Assigned` memo of the executing query mirrors the value specified so far -/
def MirrorSp (self : Nat) (s : State) (f : Frame) (ts : Option (Nat × Nat)) : Option Nat → Prop
  | none => s.smemos self = none
  | some v => ts ≠ none ∧ ∃ sm, s.smemos self = some sm ∧ sm.va = s.cur ∧ sm.value = ⟨v, none⟩ ∧
      sm.origin.isSome = true ∧ f.hasOut self = true

theorem push_ts (f : Frame) (d r) : (f.push d r).ts = f.ts := rfl

theorem push_hasOut (f : Frame) (d r c) : (f.push d r).hasOut c = f.hasOut c := by
  simp [Frame.push, Frame.hasOut]

theorem mirrorSlot_frame {self s t f f' ts} (h : MirrorSlot self s f ts)
    (hs : t.slots self = s.slots self) (hf : f'.ts = f.ts) : MirrorSlot self t f' ts := by
  cases ts with
  | none => simp only [MirrorSlot] at h ⊢; rw [hs, hf]; exact h
  | some kv => obtain ⟨k, v⟩ := kv; simp only [MirrorSlot] at h ⊢; rw [hs, hf]; exact h

theorem mirrorSp_frame {self s t f f' ts sp} (h : MirrorSp self s f ts sp)
    (hs : t.smemos self = s.smemos self) (hc : t.cur = s.cur) (hf : f'.hasOut self = f.hasOut self) :
    MirrorSp self t f' ts sp := by
  cases sp with
  | none => simp only [MirrorSp] at h ⊢; rw [hs]; exact h
  | some v => simp only [MirrorSp] at h ⊢; rw [hs, hc, hf]; exact h

theorem fail_contra {s t : State} {p} (hs : s.panic = none) (hst : Sticky (fail s p) t) (ht : t.panic = none) :
    False := by
  have := hst p (fail_panic_none hs)
  rw [this] at ht; cases ht

theorem run_ok {P : Prog} {env : Nat → Inp} {r : Nat} {fe : FetchFn} (hP : Wf P)
    (hfe : FetchOk P env r fe) (hst : RelF Sticky fe) :
    ∀ b, WfB r b → ∀ s f ts sp, J P env r s → MirrorSlot r s f ts → MirrorSp r s f ts sp →
      s.memos r = none →
      (runBody fe (fetchSpec P.spec) (some r) b s f).1.panic = none →
      J P env r (runBody fe (fetchSpec P.spec) (some r) b s f).1 ∧
      Ext1 (r + 1) s (runBody fe (fetchSpec P.spec) (some r) b s f).1 ∧
      (runBody fe (fetchSpec P.spec) (some r) b s f).1.memos r = none ∧
      (runBody fe (fetchSpec P.spec) (some r) b s f).2.2 =
        (evalX r (semDep P env) (semIdent P env) (specBodyVal P env) b ts sp none).val ∧
      MirrorSlot r (runBody fe (fetchSpec P.spec) (some r) b s f).1
        (runBody fe (fetchSpec P.spec) (some r) b s f).2.1
        (evalX r (semDep P env) (semIdent P env) (specBodyVal P env) b ts sp none).ts ∧
      MirrorSp r (runBody fe (fetchSpec P.spec) (some r) b s f).1
        (runBody fe (fetchSpec P.spec) (some r) b s f).2.1
        (evalX r (semDep P env) (semIdent P env) (specBodyVal P env) b ts sp none).ts
        (evalX r (semDep P env) (semIdent P env) (specBodyVal P env) b ts sp none).sp := by
  have hstS : RelF Sticky (fetchSpec P.spec) := relF_fetchSpec primRel_sticky P.spec
  have sticky : ∀ b s f, Sticky s (runBody fe (fetchSpec P.spec) (some r) b s f).1 :=
    fun b s f => runBody_rel primRel_sticky.toPrimRel0 hst hstS (some r) b s f
  intro b hb
  induction hb with
  | ret v _ =>
    intro s f ts sp hJ hms hmp hm _
    exact ⟨hJ, Ext1.refl _ _, hm, rfl, hms, hmp⟩
  | inp i k _ ih =>
    intro s f ts sp hJ hms hmp hm hpn
    simp only [runBody, readDep] at hpn ⊢
    simp only [evalX, ownRead_inp]
    have e : semDep P env (.inp i) = ⟨(s.inp i).val, none⟩ := by simp [semDep, hJ.inp]
    rw [e]
    exact ih _ s _ ts sp hJ (mirrorSlot_frame hms rfl rfl) (mirrorSp_frame hmp rfl rfl (push_hasOut _ _ _ _))
      hm hpn
  | qry q k hq hk ih =>
    intro s f ts sp hJ hms hmp hm hpn
    simp only [runBody, readDep] at hpn ⊢
    simp only [evalX, ownRead_qry]
    have hp1 : (fe s q).1.panic = none := sticky_none (sticky _ _ _) hpn
    obtain ⟨g1, g2, g3⟩ := hfe s q hq hJ hp1
    rw [g3] at hpn ⊢
    have e : semDep P env (.qry q) = sem P env q := rfl
    rw [e]
    have hwf := fun c hc => sem_handle hP env q c hc
    obtain ⟨i1, i2, i3, i4, i5, i6⟩ := ih (sem P env q) hwf (fe s q).1 (f.push (.qry q) (fe s q).2) ts sp g1
      (mirrorSlot_frame hms (g2.above_s r (Nat.le_refl _)) rfl)
      (mirrorSp_frame hmp (g2.above_sm r (Nat.le_refl _)) g2.cur (push_hasOut _ _ _ _))
      (by rw [g2.above_m r (Nat.le_refl _)]; exact hm) hpn
    exact ⟨i1, (g2.weaken (Nat.le_succ r)).trans i2, i3, i4, i5, i6⟩
  | field c k hc hk ih =>
    intro s f ts sp hJ hms hmp hm hpn
    have hne : c ≠ r := by omega
    simp only [runBody] at hpn ⊢
    simp only [evalX, ownRead_field _ _ _ _ _ _ _ hne]
    cases hsl : s.slots c with
    | none =>
      exfalso
      simp only [readDep, hsl] at hpn
      exact fail_contra hJ.pn (sticky _ _ _) hpn
    | some sl =>
      rw [readField_some hsl] at hpn ⊢
      dsimp only at hpn ⊢
      have hL := lockEq_lockSlot hsl
      obtain ⟨hts, _⟩ := slot_sem hJ hc hsl
      have e : semDep P env (.field c) = ⟨sl.v, none⟩ := by simp [semDep, fieldVal, hts]
      rw [e]
      obtain ⟨i1, i2, i3, i4, i5, i6⟩ := ih sl.v (lockSlot s c sl)
        (f.push (.field c) ⟨⟨sl.v, none⟩, sl.fca, sl.dur⟩) ts sp (J_lockEq hJ hL)
        (mirrorSlot_frame hms (hL.other r (Ne.symm hne)) rfl)
        (mirrorSp_frame hmp (by rw [hL.smemos]) hL.cur (push_hasOut _ _ _ _))
        (by rw [hL.memos]; exact hm) hpn
      exact ⟨i1, ((Ext_lockEq hc hL).weaken (Nat.le_succ r)).trans i2, i3, i4, i5, i6⟩
  | spec c k hc hk ih =>
    intro s f ts sp hJ hms hmp hm hpn
    have hne : c ≠ r := by omega
    simp only [runBody] at hpn ⊢
    simp only [evalX, ownRead_spec _ _ _ _ _ _ _ hne]
    cases hsl : s.slots c with
    | none =>
      exfalso
      simp only [readDep, hsl] at hpn
      exact fail_contra hJ.pn (sticky _ _ _) hpn
    | some sl =>
      simp only [readDep, hsl] at hpn ⊢
      have hp1 : (fetchSpec P.spec s c).1.panic = none := sticky_none (sticky _ _ _) hpn
      obtain ⟨g1, g2, g3⟩ := fetchSpec_ok hP hJ hc hsl hp1
      have e : semDep P env (.spec c) = semSpec P env c := rfl
      rw [e]
      rw [g3] at hpn ⊢
      have hh : (semSpec P env c).h = none := specVal_handle hP _ _
      rw [val_eta hh] at hpn ⊢
      obtain ⟨i1, i2, i3, i4, i5, i6⟩ := ih (semSpec P env c).n (fetchSpec P.spec s c).1
        (f.push (.spec c) (fetchSpec P.spec s c).2) ts sp g1
        (mirrorSlot_frame hms (g2.above_s r (Nat.le_refl _)) rfl)
        (mirrorSp_frame hmp (g2.above_sm r (Nat.le_refl _)) g2.cur (push_hasOut _ _ _ _))
        (by rw [g2.above_m r (Nat.le_refl _)]; exact hm) hpn
      exact ⟨i1, (g2.weaken (Nat.le_succ r)).trans i2, i3, i4, i5, i6⟩
  | ident c k hc hk ih =>
    intro s f ts sp hJ hms hmp hm hpn
    have hne : c ≠ r := by omega
    simp only [runBody] at hpn ⊢
    simp only [evalX, ownIdent_other _ _ _ _ hne]
    cases hsl : s.slots c with
    | none =>
      exfalso
      simp only [identStep, hsl] at hpn
      exact fail_contra hJ.pn (sticky _ _ _) hpn
    | some sl =>
      rw [identStep_some hsl] at hpn ⊢
      dsimp only at hpn ⊢
      have hL := lockEq_lockSlot hsl
      obtain ⟨hts, _⟩ := slot_sem hJ hc hsl
      have e : semIdent P env c = sl.k := by simp [semIdent, identVal, hts]
      rw [e]
      obtain ⟨i1, i2, i3, i4, i5, i6⟩ := ih sl.k (lockSlot s c sl) f ts sp (J_lockEq hJ hL)
        (mirrorSlot_frame hms (hL.other r (Ne.symm hne)) rfl)
        (mirrorSp_frame hmp (by rw [hL.smemos]) hL.cur rfl)
        (by rw [hL.memos]; exact hm) hpn
      exact ⟨i1, ((Ext_lockEq hc hL).weaken (Nat.le_succ r)).trans i2, i3, i4, i5, i6⟩
  | create idk v k _ ih =>
    intro s f ts sp hJ hms hmp hm hpn
    simp only [runBody] at hpn ⊢
    simp only [evalX]
    cases hft : f.ts with
    | some g =>
      exfalso
      simp only [createStep, hft, Option.isSome_some, if_true] at hpn
      exact fail_contra hJ.pn (sticky _ _ _) hpn
    | none =>
      -- no struct yet: the reference run has none either, and nothing is specified
      have hts : ts = none := by
        cases ts with
        | none => rfl
        | some kv => obtain ⟨k', v'⟩ := kv; simp only [MirrorSlot] at hms; rw [hft] at hms; simp at hms
      subst hts
      have hsp : sp = none := by
        cases sp with
        | none => rfl
        | some v' => simp only [MirrorSp] at hmp; exact absurd rfl hmp.1
      subst hsp
      simp only [MirrorSlot] at hms
      simp only [MirrorSp] at hmp
      have hcs : createStep s (some r) f idk v =
          (setSMemo { setSlot s r (some { gen := s.nextGen, k := idk, v := v, fca := f.ca, dur := f.dur, upd := s.cur })
              with nextGen := s.nextGen + 1 } r none,
           { f with ts := some s.nextGen }, ⟨v, some r⟩) := by
        simp [createStep, hft, newStruct, hms.1]
      rw [hcs] at hpn ⊢
      dsimp only at hpn ⊢
      generalize hT : (setSMemo { setSlot s r (some { gen := s.nextGen, k := idk, v := v, fca := f.ca, dur := f.dur, upd := s.cur })
              with nextGen := s.nextGen + 1 } r none) = t at hpn ⊢
      have tcur : t.cur = s.cur := by rw [← hT]; rfl
      have tinp : t.inp = s.inp := by rw [← hT]; rfl
      have tpanic : t.panic = s.panic := by rw [← hT]; rfl
      have tmemos : t.memos = s.memos := by rw [← hT]; rfl
      have tslots : ∀ c, c ≠ r → t.slots c = s.slots c := by
        intro c hc; rw [← hT]; simp [setSlot_other _ _ _ hc]
      have tslotr : t.slots r = some { gen := s.nextGen, k := idk, v := v, fca := f.ca, dur := f.dur, upd := s.cur } := by
        rw [← hT]; simp
      have tsm : ∀ c, c ≠ r → t.smemos c = s.smemos c := by
        intro c hc; rw [← hT]; rw [setSMemo_other _ _ _ hc]; rfl
      have tsmr : t.smemos r = none := by rw [← hT]; simp
      have hJt : J P env r t := by
        refine ⟨tinp.trans hJ.inp, tpanic.trans hJ.pn, ?_, ?_, ?_, ?_, ?_⟩
        · intro q m hq hmm; rw [tmemos] at hmm; rw [tcur]; exact hJ.memo q m hq hmm
        · intro c hc hmm; rw [tmemos] at hmm
          rw [tslots c (by omega), tsm c (by omega)]; exact hJ.nomemo c hc hmm
        · intro c hc hmm; rw [tmemos] at hmm; rw [tslots c (by omega)]; exact hJ.slot c hc hmm
        · intro c sm hc hsm; rw [tsm c (by omega)] at hsm; rw [tcur]; exact hJ.smemo c sm hc hsm
        · intro c v' hc hmm hs; rw [tmemos] at hmm; rw [tsm c (by omega)]; exact hJ.spec c v' hc hmm hs
      have hEt : Ext1 (r + 1) s t :=
        ⟨tcur, tinp, fun q _ => by rw [tmemos], fun c hc => tslots c (by omega), fun c hc => tsm c (by omega)⟩
      obtain ⟨i1, i2, i3, i4, i5, i6⟩ := ih t { f with ts := some s.nextGen } (some (idk, v)) none hJt
        (by simp only [MirrorSlot]; exact ⟨⟨_, tslotr, rfl, rfl⟩, rfl⟩)
        (by simp only [MirrorSp]; exact tsmr)
        (by rw [tmemos]; exact hm) hpn
      exact ⟨i1, hEt.trans i2, i3, i4, i5, i6⟩
  | specify c v k _ ih =>
    intro s f ts sp hJ hms hmp hm hpn
    simp only [runBody] at hpn ⊢
    simp only [evalX]
    by_cases hcond : some r = some c ∧ f.ts.isSome = true
    · obtain ⟨hc, hown⟩ := hcond
      cases hc
      have htsne : ts ≠ none := by
        intro e; subst e; simp only [MirrorSlot] at hms; rw [hms.2] at hown; cases hown
      cases sp with
      | some v' =>
        exfalso
        simp only [MirrorSp] at hmp
        obtain ⟨_, sm, a1, a2, _, a4, a5⟩ := hmp
        cases horg : sm.origin with
        | none => rw [horg] at a4; cases a4
        | some k' =>
          rw [specify_twice s f r v sm k' hown a1 a2 horg a5] at hpn
          exact fail_contra hJ.pn (sticky _ _ _) hpn
      | none =>
        simp only [MirrorSp] at hmp
        rw [specify_installs s f r v hown (by intro o ho; rw [hmp] at ho; cases ho)] at hpn ⊢
        obtain ⟨a1, a2, _, a4, a5⟩ := installAssigned_facts s f r v
        have hother : ∀ c, c ≠ r → (installAssigned s f r v).1.smemos c = s.smemos c := by
          intro c hc; simp only [installAssigned]; rw [setSMemo_other _ _ _ hc]; simp
        have hmemos : (installAssigned s f r v).1.memos = s.memos := by simp [installAssigned]
        have hinp : (installAssigned s f r v).1.inp = s.inp := by simp [installAssigned]
        have hpanic : (installAssigned s f r v).1.panic = none := sticky_none (sticky _ _ _) hpn
        have hJt : J P env r (installAssigned s f r v).1 := by
          refine ⟨hinp.trans hJ.inp, hpanic, ?_, ?_, ?_, ?_, ?_⟩
          · intro q m hq hmm; rw [hmemos] at hmm; rw [a2]; exact hJ.memo q m hq hmm
          · intro c hc hmm; rw [hmemos] at hmm
            rw [a4, hother c (by omega)]; exact hJ.nomemo c hc hmm
          · intro c hc hmm; rw [hmemos] at hmm; rw [a4]; exact hJ.slot c hc hmm
          · intro c sm hc hsm; rw [hother c (by omega)] at hsm; rw [a2]; exact hJ.smemo c sm hc hsm
          · intro c v' hc hmm hs; rw [hmemos] at hmm; rw [hother c (by omega)]; exact hJ.spec c v' hc hmm hs
        have hEt : Ext1 (r + 1) s (installAssigned s f r v).1 :=
          ⟨a2, hinp, fun q _ => by rw [hmemos], fun c _ => by rw [a4], fun c hc => hother c (by omega)⟩
        obtain ⟨i1, i2, i3, i4, i5, i6⟩ := ih (installAssigned s f r v).1 (installAssigned s f r v).2 ts
          (specNext none none v) hJt
          (mirrorSlot_frame hms (by rw [a4]) (by rw [a5, addOut_ts]))
          (by
            simp only [specNext, MirrorSp]
            refine ⟨htsne, _, a1, ?_, rfl, rfl, ?_⟩
            · simp [assignedMemo, a2]
            · rw [a5]; exact addOut_hasOut _ _ _)
          (by rw [hmemos]; exact hm) hpn
        exact ⟨i1, hEt.trans i2, i3, i4, i5, i6⟩
    · exfalso
      have : some r ≠ some c ∨ f.ts.isSome = false := by
        by_cases h1 : some r = some c
        · right
          cases hh : f.ts.isSome with
          | false => rfl
          | true => exact absurd ⟨h1, hh⟩ hcond
        · left; exact h1
      rw [specify_foreign s (some r) f c v this] at hpn
      exact fail_contra hJ.pn (sticky _ _ _) hpn

/-! ### execute, fetch, the engine -/

theorem J_emit {P env r s} (h : J P env r s) (e : Ev) : J P env r (emit s e) :=
  ⟨h.inp, h.pn, h.memo, h.nomemo, h.slot, h.smemo, h.spec⟩

theorem execute_ok {P : Prog} {env : Nat → Inp} {r : Nat} {fe : FetchFn} (hP : Wf P)
    (hfe : FetchOk P env r fe) (hst : RelF Sticky fe) {s : State} (hJ : J P env (r + 1) s)
    (hm : s.memos r = none) (hpn : (execute fe P s r none).1.panic = none) :
    J P env (r + 1) (execute fe P s r none).1 ∧ Ext1 (r + 1) s (execute fe P s r none).1 ∧
    (execute fe P s r none).2.val = sem P env r := by
  unfold execute at hpn ⊢
  simp only [oldSeed] at hpn ⊢
  have hnm := hJ.nomemo r (Nat.lt_succ_self r) hm
  have hp1 : (runBody fe (fetchSpec P.spec) (some r) (P.node r) (emit s (.exec r)) (frame0 none)).1.panic = none :=
    sticky_none (installNode_rel primRel_sticky _ _ _ _ _) hpn
  obtain ⟨i1, i2, i3, i4, i5, i6⟩ := run_ok hP hfe hst (P.node r) (hP.node r) (emit s (.exec r)) (frame0 none)
    none none (J_emit (hJ.weaken (Nat.le_succ r)) _)
    (by simp only [MirrorSlot]; exact ⟨hnm.1, rfl⟩) (by simp only [MirrorSp]; exact hnm.2)
    (by simpa using hm) hp1
  rw [← sem_unfold hP env r] at i4 i5 i6
  generalize runBody fe (fetchSpec P.spec) (some r) (P.node r) (emit s (.exec r)) (frame0 none) = R
    at i1 i2 i3 i4 i5 i6 hpn ⊢
  unfold installNode at hpn ⊢
  simp only [backdate, failIf_false] at hpn ⊢
  have hval : R.2.2 = sem P env r := i4
  refine ⟨?_, ?_, hval⟩
  · refine ⟨i1.inp, by simpa using hpn, ?_, ?_, ?_, ?_, ?_⟩
    · intro q m hq hmm
      by_cases e : q = r
      · subst e
        rw [setMemo_same] at hmm
        cases hmm
        exact ⟨rfl, hval⟩
      · rw [setMemo_other _ _ _ e] at hmm
        exact i1.memo q m (by omega) hmm
    · intro c hc hmm
      by_cases e : c = r
      · subst e; rw [setMemo_same] at hmm; cases hmm
      · rw [setMemo_other _ _ _ e] at hmm
        exact i1.nomemo c (by omega) hmm
    · intro c hc hmm
      by_cases e : c = r
      · subst e
        simp only [setMemo_slots]
        cases hts : (semRes P env c).ts with
        | none => rw [hts] at i5; simp only [MirrorSlot] at i5; rw [i5.1]; trivial
        | some kv =>
          obtain ⟨k, v⟩ := kv
          rw [hts] at i5; simp only [MirrorSlot] at i5
          obtain ⟨⟨sl, a1, a2, a3⟩, _⟩ := i5
          rw [a1]; exact ⟨a2, a3⟩
      · rw [setMemo_other _ _ _ e] at hmm
        exact i1.slot c (by omega) hmm
    · intro c sm hc hsm
      by_cases e : c = r
      · subst e
        simp only [setMemo_smemos, setMemo_cur] at hsm ⊢
        cases hsp : (semRes P env c).sp with
        | none => rw [hsp] at i6; simp only [MirrorSp] at i6; rw [i6] at hsm; cases hsm
        | some v =>
          rw [hsp] at i6; simp only [MirrorSp] at i6
          obtain ⟨_, sm', a1, a2, a3, _, _⟩ := i6
          rw [a1] at hsm; cases hsm
          exact ⟨a2, by rw [a3]; simp [semSpec, specVal, hsp]⟩
      · exact i1.smemo c sm (by omega) hsm
    · intro c v hc hmm hs
      by_cases e : c = r
      · subst e
        rw [hs] at i6; simp only [MirrorSp] at i6
        obtain ⟨_, sm', a1, _⟩ := i6
        simp only [setMemo_smemos]; rw [a1]; simp
      · rw [setMemo_other _ _ _ e] at hmm
        exact i1.spec c v (by omega) hmm hs
  · exact ⟨i2.cur, i2.inp, fun q hq => by rw [setMemo_other _ _ _ (by omega)]; exact i2.above_m q hq,
      i2.above_s, i2.above_sm⟩

theorem fetchStep_ok {P : Prog} {env : Nat → Inp} {r : Nat} {fe : FetchFn} {mc : McaFn} (hP : Wf P)
    (hfe : FetchOk P env r fe) (hst : RelF Sticky fe) {s : State} (hJ : J P env (r + 1) s)
    (hpn : (fetchStep fe mc P s r).1.panic = none) :
    J P env (r + 1) (fetchStep fe mc P s r).1 ∧ Ext1 (r + 1) s (fetchStep fe mc P s r).1 ∧
    (fetchStep fe mc P s r).2.val = sem P env r := by
  unfold fetchStep at hpn ⊢
  cases hm : s.memos r with
  | none =>
    simp only [hm] at hpn ⊢
    exact execute_ok hP hfe hst hJ hm hpn
  | some m =>
    obtain ⟨hva, hval⟩ := hJ.memo r m (Nat.lt_succ_self r) hm
    simp only [hm, hva, if_true]
    exact ⟨hJ, Ext1.refl _ _, hval⟩

theorem eng_ok {P : Prog} (hP : Wf P) (env : Nat → Inp) : ∀ r, FetchOk P env r (eng P r).1 := by
  intro r
  induction r with
  | zero => intro s q hq; omega
  | succ r ih =>
    intro s q hq hJ hpn
    simp only [eng] at hpn ⊢
    by_cases hlt : q < r
    · simp only [hlt, if_true] at hpn ⊢
      obtain ⟨g1, g2, g3⟩ := ih s q hlt (hJ.weaken (Nat.le_succ r)) hpn
      exact ⟨hJ.lift g1 g2, g2.weaken (Nat.le_succ r), g3⟩
    · have : q = r := by omega
      subst this
      simp only [Nat.lt_irrefl, if_false, if_true] at hpn ⊢
      exact fetchStep_ok hP ih (eng_rel primRel_sticky P q).1 hJ hpn

/-- the invariant for all ranks -/
def AllJ (P : Prog) (env : Nat → Inp) (s : State) : Prop := ∀ r, J P env r s

theorem getOp_ok {P : Prog} (hP : Wf P) {env : Nat → Inp} {s : State} (hJ : AllJ P env s) (q : Nat)
    (hpn : (getOp P s q).1.panic = none) :
    AllJ P env (getOp P s q).1 ∧ (getOp P s q).2 = sem P env q := by
  unfold getOp at hpn ⊢
  have hp1 : (fetch P s q).1.panic = none := sticky_none (observe_rel primRel_sticky _ _) hpn
  obtain ⟨g1, g2, g3⟩ := eng_ok hP env (q + 1) s q (Nat.lt_succ_self q) (hJ (q + 1)) hp1
  have hall : AllJ P env (fetch P s q).1 := by
    intro r
    by_cases h : r ≤ q + 1
    · exact g1.weaken h
    · exact (hJ r).lift g1 g2
  refine ⟨?_, g3⟩
  show AllJ P env (observe (fetch P s q).1 (fetch P s q).2.val)
  unfold observe at hpn ⊢
  cases hh : (fetch P s q).2.val.h with
  | none => exact hall
  | some c =>
    simp only [hh] at hpn ⊢
    cases hsl : (fetch P s q).1.slots c with
    | none =>
      exfalso
      simp only [hsl] at hpn
      rw [fail_panic_none (hall 0).pn] at hpn; cases hpn
    | some sl =>
      simp only [hsl]
      intro r
      exact J_lockEq (hall r) (lockEq_lockSlot hsl)

theorem allJ_init (P : Prog) (inp : Nat → Inp) : AllJ P (init inp).inp (init inp) := by
  intro r
  refine ⟨rfl, rfl, ?_, ?_, ?_, ?_, ?_⟩
  · intro q m _ hm; cases hm
  · intro c _ _; exact ⟨rfl, rfl⟩
  · intro c _ hm; exact absurd rfl hm
  · intro c sm _ hsm; cases hsm
  · intro c v _ hm; exact absurd rfl hm

/-- histories of requests only -/
def gets (qs : List Nat) : List Op := qs.map .get

theorem foldl_gets_sticky (P : Prog) : ∀ qs s, Sticky s ((gets qs).foldl (step P) s) := by
  intro qs
  induction qs with
  | nil => intro s p h; exact h
  | cons q qs ih =>
    intro s p h
    simp only [gets, List.map_cons, List.foldl_cons, step]
    exact ih _ p (getOp_rel primRel_sticky P s q p h)

theorem outputs_gets {P : Prog} (hP : Wf P) (env : Nat → Inp) : ∀ qs s, AllJ P env s →
    ((gets qs).foldl (step P) s).panic = none →
    outputs P s (gets qs) = qs.map (sem P env) := by
  intro qs
  induction qs with
  | nil => intro s _ _; rfl
  | cons q qs ih =>
    intro s hJ hpn
    simp only [gets, List.map_cons, List.foldl_cons, step, outputs] at hpn ⊢
    have hp1 : (getOp P s q).1.panic = none := sticky_none (foldl_gets_sticky P qs _) hpn
    obtain ⟨g1, g2⟩ := getOp_ok hP hJ q hp1
    rw [g2]
    congr 1
    exact ih _ g1 hpn

end SalsaVerif.Proofs.CoreSpec
