/-
  Auxiliary facts for the chain / termination proof of the head loop (`Props/C12.lean`):
  computation rules of `fetch`, the lookup rule of `updateProv`, the computation rules of the
  head loop.  Core Lean only.
-/
import SalsaVerif.Proofs.CycleSound

namespace SalsaVerif.Proofs.Cycle
open SalsaVerif.Model.Cycle

/-! ## computation rules of `fetch` -/

section fetchRules
variable (P : Prog) (exec : Nat → St → Res Fetched) (c : Nat) (s : St)

theorem fetch_poisoned (hp : s.poisoned.contains c = true) :
    fetch P exec c s = .error ⟨.propagated, s.stack⟩ := by
  unfold fetch; rw [if_pos hp]

theorem fetch_final (hp : s.poisoned.contains c = false) {w : Nat}
    (hf : s.final.lookup c = some w) : fetch P exec c s = .ok (w, [], s) := by
  unfold fetch
  rw [if_neg (by rw [hp]; exact Bool.false_ne_true)]
  simp only [hf]

theorem fetch_stack (hp : s.poisoned.contains c = false) (hf : s.final.lookup c = none)
    (hs : s.stack.contains c = true) : fetch P exec c s = fetchColdCycle P c s := by
  unfold fetch
  rw [if_neg (by rw [hp]; exact Bool.false_ne_true)]
  simp only [hf]
  rw [if_pos hs]

theorem fetch_cache (hp : s.poisoned.contains c = false) (hf : s.final.lookup c = none)
    (hs : s.stack.contains c = false) {en : Entry} (hc : s.cache.lookup c = some en) :
    fetch P exec c s = .ok (en.val, en.heads, s) := by
  unfold fetch
  rw [if_neg (by rw [hp]; exact Bool.false_ne_true)]
  simp only [hf]
  rw [if_neg (by rw [hs]; exact Bool.false_ne_true)]
  simp only [hc]

theorem fetch_exec (hp : s.poisoned.contains c = false) (hf : s.final.lookup c = none)
    (hs : s.stack.contains c = false) (hc : s.cache.lookup c = none) :
    fetch P exec c s = exec c s := by
  unfold fetch
  rw [if_neg (by rw [hp]; exact Bool.false_ne_true)]
  simp only [hf]
  rw [if_neg (by rw [hs]; exact Bool.false_ne_true)]
  simp only [hc]

end fetchRules

theorem fetchColdCycle_some (P : Prog) (c : Nat) (s : St) (hst : (P.node c).strat ≠ .panic)
    {w : Nat} (h : s.prov.lookup c = some w) : fetchColdCycle P c s = .ok (w, [c], s) := by
  unfold fetchColdCycle
  cases hs : (P.node c).strat with
  | panic => exact absurd hs hst
  | fixpoint b => simp [h]
  | fallback fv => simp [h]

theorem fetchColdCycle_none (P : Prog) (c : Nat) (s : St) (hst : (P.node c).strat ≠ .panic)
    (h : s.prov.lookup c = none) :
    fetchColdCycle P c s
      = .ok (cycleInitial P c, [c], { s with prov := (c, cycleInitial P c) :: s.prov }) := by
  unfold fetchColdCycle
  cases hs : (P.node c).strat with
  | panic => exact absurd hs hst
  | fixpoint b => simp [h]
  | fallback fv => simp [h]

theorem fetchColdCycle_ok_strat (P : Prog) (c : Nat) (s : St) {r : Fetched}
    (h : fetchColdCycle P c s = .ok r) : (P.node c).strat ≠ .panic := by
  intro hs
  unfold fetchColdCycle at h
  rw [hs] at h
  cases h

/-! ## `updateProv` -/

theorem lookup_updateProv (cache1 : List (Nat × Entry)) (prov : List (Nat × Nat)) (c : Nat) :
    (updateProv cache1 prov).lookup c
      = if (prov.lookup c).isSome then (cache1.lookup c).map (·.val) else none := by
  unfold updateProv
  induction prov with
  | nil => rfl
  | cons p prov ih =>
    obtain ⟨k, w⟩ := p
    by_cases hk : c = k
    · subst hk
      rw [lookup_cons_self]
      simp only [Option.isSome_some, if_true]
      cases hl : cache1.lookup c with
      | none =>
        simp only [List.filterMap_cons, hl, Option.map_none]
        rw [ih]
        simp [hl]
      | some en =>
        simp only [List.filterMap_cons, hl, Option.map_some]
        rw [lookup_cons_self]
    · rw [lookup_cons_ne _ _ hk]
      cases hl : cache1.lookup k with
      | none =>
        simp only [List.filterMap_cons, hl, Option.map_none]
        exact ih
      | some en =>
        simp only [List.filterMap_cons, hl, Option.map_some]
        rw [lookup_cons_ne _ _ hk]
        exact ih

theorem isHead_nil (c : Nat) : isHead [] c = false := rfl

theorem isHead_iff {prov : List (Nat × Nat)} {c : Nat} :
    isHead prov c = true ↔ ∃ w, prov.lookup c = some w := by
  unfold isHead
  cases prov.lookup c with
  | none => simp
  | some w => simp

/-! ## computation rules of the head loop -/

section loopRules
variable (P : Prog) (env : Nat → Nat) (read : Nat → St → Res Fetched) (j : Nat)
  (fuel stamp : Nat) (s : St) {v : Nat} {hs : List Nat} {s1 : St}
  (hev : evalM env read (P.node j).body s = .ok (v, hs, s1))

/-- is a cycle head active below the query that is about to complete? -/
def belowOf (s1 : St) : Bool := s1.stack.tail.any (isHead s1.prov)

/-- the heads a memo of `j` still depends on once `j` is popped. -/
def hsOf (j : Nat) (hs : List Nat) : List Nat := hs.filter (fun k => k != j)

theorem emi_body_error {e : Panic} (he : evalM env read (P.node j).body s = .error e) :
    executeMaybeIterate P env read j (fuel + 1) stamp s = .error e := by
  rw [executeMaybeIterate, he]

include hev in
theorem emi_part (hl : s1.prov.lookup j = none) (hb : belowOf s1 = true) :
    executeMaybeIterate P env read j (fuel + 1) stamp s
      = .ok (if (hsOf j hs).isEmpty then v else participantValue P j v, hsOf j hs,
          stCached s1 j (if (hsOf j hs).isEmpty then v else participantValue P j v)
            (hsOf j hs)) := by
  unfold belowOf at hb
  rw [executeMaybeIterate, hev]
  simp only [hl, hb]
  rfl

include hev in
theorem emi_final (hl : s1.prov.lookup j = none) (hb : belowOf s1 = false) :
    executeMaybeIterate P env read j (fuel + 1) stamp s
      = .ok (v, [], stFinal s1 j v) := by
  unfold belowOf at hb
  rw [executeMaybeIterate, hev]
  simp only [hl, hb]
  rfl

include hev in
theorem emi_nested {last : Nat} (hl : s1.prov.lookup j = some last)
    (hb : belowOf s1 = true) :
    executeMaybeIterate P env read j (fuel + 1) stamp s
      = .ok (cycleFn P j last v, hsOf j hs, stCached s1 j (cycleFn P j last v) (hsOf j hs)) := by
  unfold belowOf at hb
  rw [executeMaybeIterate, hev]
  simp only [hl, hb]
  rfl

include hev in
theorem emi_conv {last : Nat} (hl : s1.prov.lookup j = some last)
    (hb : belowOf s1 = false)
    (hc : converged (cache1Of s1 j (cycleFn P j last v)) s1.prov = true) :
    executeMaybeIterate P env read j (fuel + 1) stamp s
      = .ok (cycleFn P j last v, [], stConv s1 j (cycleFn P j last v)) := by
  unfold belowOf at hb
  unfold cache1Of at hc
  rw [executeMaybeIterate, hev]
  simp only [hl, hb, hc]
  rfl

include hev in
theorem emi_iter {last stamp' : Nat} (hl : s1.prov.lookup j = some last)
    (hb : belowOf s1 = false)
    (hc : converged (cache1Of s1 j (cycleFn P j last v)) s1.prov = false)
    (hi : SalsaVerif.Gen.Stamp.IterationStamp.increment_iteration stamp = some stamp') :
    executeMaybeIterate P env read j (fuel + 1) stamp s
      = executeMaybeIterate P env read j fuel stamp' (stIter s1 j (cycleFn P j last v)) := by
  unfold belowOf at hb
  unfold cache1Of at hc
  rw [executeMaybeIterate, hev]
  simp only [hl, hb, hc, hi]
  rfl

include hev in
theorem emi_too {last : Nat} (hl : s1.prov.lookup j = some last)
    (hb : belowOf s1 = false)
    (hc : converged (cache1Of s1 j (cycleFn P j last v)) s1.prov = false)
    (hi : SalsaVerif.Gen.Stamp.IterationStamp.increment_iteration stamp = none) :
    executeMaybeIterate P env read j (fuel + 1) stamp s
      = .error ⟨.tooManyIterations, s1.stack⟩ := by
  unfold belowOf at hb
  unfold cache1Of at hc
  rw [executeMaybeIterate, hev]
  simp only [hl, hb, hc, hi]
  rfl

end loopRules

theorem belowOf_false_iff (s1 : St) (rest : List Nat) (j : Nat) (hst : s1.stack = j :: rest) :
    belowOf s1 = false ↔ ∀ k ∈ rest, isHead s1.prov k = false := by
  unfold belowOf
  rw [hst]
  simp [List.any_eq_false]

end SalsaVerif.Proofs.Cycle
