/-
  `winvB` (Model/StructsInv.lean, evaluated by `svdriver structs` after every replayed trace line)
  is exactly the world invariant `WInv` of Proofs/Structs.lean: `inv=ok` in the driver output means
  that the invariant of the C06 / C07 theorems holds in the replayed model state.
-/
import SalsaVerif.Model.StructsInv
import SalsaVerif.Proofs.Structs

namespace SalsaVerif.Proofs.Structs
open SalsaVerif.Model.Structs

theorem ownsB_iff (s : State) (id : Id) : ownsB s id = true ↔ Owns s id := by
  unfold ownsB Owns
  cases h : s.slots[id.idx]? with
  | none => simp
  | some v =>
    simp only [Bool.and_eq_true, decide_eq_true_eq, Option.some.injEq, exists_eq_left']
    constructor
    · rintro ⟨h1, h2⟩
      exact ⟨by intro hn; rw [hn] at h1; simp at h1, h2⟩
    · rintro ⟨h1, h2⟩
      exact ⟨by cases hu : v.updatedAt with
                | none => exact absurd hu h1
                | some _ => rfl, h2⟩

theorem deadAtB_iff (s : State) (id : Id) : deadAtB s id = true ↔ DeadAt s id := by
  unfold deadAtB DeadAt
  cases h : s.slots[id.idx]? with
  | none => simp
  | some v =>
    simp only [Bool.and_eq_true, decide_eq_true_eq, Option.some.injEq, exists_eq_left',
      Option.isNone_iff_eq_none, List.isEmpty_iff]
    constructor
    · rintro ⟨⟨h1, h2⟩, h3⟩; exact ⟨h1, h2, h3⟩
    · rintro ⟨h1, h2, h3⟩; exact ⟨⟨h1, h2⟩, h3⟩

theorem nodupB_iff (l : List Nat) : nodupB l = true ↔ l.Nodup := by
  induction l with
  | nil => simp [nodupB]
  | cons a l ih =>
    simp only [nodupB, Bool.and_eq_true, Bool.not_eq_true', List.nodup_cons, ih]
    constructor
    · rintro ⟨h1, h2⟩
      refine ⟨?_, h2⟩
      intro hm
      have hc := List.contains_iff_mem.mpr hm
      rw [h1] at hc
      cases hc
    · rintro ⟨h1, h2⟩
      refine ⟨?_, h2⟩
      cases hc : l.contains a with
      | false => rfl
      | true => exact absurd (List.contains_iff_mem.mp hc) h1

theorem ctxHandles_eq (c : Ctx) : ctxHandles c = ctxIds c := by
  cases c <;> rfl

theorem ctxHandles_idx (c : Ctx) : (ctxHandles c).map (·.idx) = ctxIdxs c := by
  cases c with
  | idle a => simp [ctxHandles, ctxIdxs, pairIdxs, List.map_map, Function.comp_def]
  | running f => simp [ctxHandles, ctxIdxs, idxs, List.map_map, Function.comp_def]

theorem ownsAllB_iff (w : World) :
    ownsAllB w = true ↔ ∀ c, c ∈ w.ctxs → ∀ id, id ∈ ctxIds c → Owns w.st id := by
  simp only [ownsAllB, List.all_eq_true, ctxHandles_eq, ownsB_iff]

theorem distinctB_iff (w : World) : distinctB w = true ↔ (ownedIdxs w).Nodup := by
  unfold distinctB ownedIdxs
  rw [nodupB_iff]
  have : (w.ctxs.flatMap fun c => (ctxHandles c).map (·.idx)) = w.ctxs.flatMap ctxIdxs := by
    congr 1
    funext c
    exact ctxHandles_idx c
  rw [this]

theorem freeOKB_iff (s : State) : freeOKB s = true ↔ FreeOK s := by
  simp only [freeOKB, List.all_eq_true, deadAtB_iff, FreeOK]

theorem freeNodupB_iff (s : State) : freeNodupB s = true ↔ FreeNodup s := by
  unfold freeNodupB FreeNodup freeIdxs
  exact nodupB_iff _

theorem memoGenB_iff (s : State) : memoGenB s = true ↔ MemoGen s := by
  simp only [memoGenB, List.all_eq_true, decide_eq_true_eq, MemoGen]
  constructor
  · intro h k v hk m hm
    exact h v (List.mem_of_getElem? hk) m hm
  · intro h v hv m hm
    obtain ⟨k, hk⟩ := List.getElem?_of_mem hv
    exact h k v hk m hm

/-- the Bool invariant printed by `svdriver structs` (`inv=ok`) is the invariant of the theorems -/
theorem winvB_iff (w : World) : winvB w = true ↔ WInv w := by
  simp only [winvB, Bool.and_eq_true, ownsAllB_iff, distinctB_iff, freeOKB_iff, freeNodupB_iff,
    memoGenB_iff]
  constructor
  · rintro ⟨⟨⟨⟨h1, h2⟩, h3⟩, h4⟩, h5⟩; exact ⟨h1, h2, h3, h4, h5⟩
  · rintro ⟨h1, h2, h3, h4, h5⟩; exact ⟨⟨⟨⟨h1, h2⟩, h3⟩, h4⟩, h5⟩

/-- `winvFailures` (the component names after `inv=FAIL:`) is empty exactly when `winvB` holds -/
theorem winvFailures_nil_iff (w : World) : winvFailures w = [] ↔ winvB w = true := by
  unfold winvFailures winvB
  cases ownsAllB w <;> cases distinctB w <;> cases freeOKB w.st <;> cases freeNodupB w.st <;>
    cases memoGenB w.st <;> simp

example : winvB World.empty = true := by decide

end SalsaVerif.Proofs.Structs
