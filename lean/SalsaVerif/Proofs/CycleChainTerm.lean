/-
  Termination of the head loop: the measure `Σ_{c<n} card (value of c in the pass)` is bounded by
  `8·n` and strictly increases with every non-converged pass after the first, so a loop never
  needs more than `8·n + 1` passes; with `8·n < 200 = MAX_ITERATIONS` the iteration stamp never
  overflows.  Core Lean only.
-/
import SalsaVerif.Proofs.CycleChainSim2

namespace SalsaVerif.Proofs.Cycle
open SalsaVerif.Model.Cycle SalsaVerif.Gen.Stamp

theorem le_lt_256 {a b : Nat} (h : le a b) (hb : b < 256) : a < 256 := by
  have h1 : a ≤ a ||| b := Nat.left_le_or
  rw [or_eq_of_le h] at h1
  omega

theorem le_zero_eq {a : Nat} (h : le a 0) : a = 0 := by
  have : a ||| 0 = 0 := h
  simpa using this

theorem lfp_out (P : Prog) (env : Nat → Nat) {c : Nat} (h : P.n ≤ c) : lfp P env c = 0 := by
  rw [← lfp_step, node_out P h]
  rfl

theorem incr_ok (stamp : Nat) (hs : stamp < 2^16) (hit : IterationStamp.iteration stamp < 200) :
    ∃ stamp', IterationStamp.increment_iteration stamp = some stamp' ∧
      IterationStamp.iteration stamp' = IterationStamp.iteration stamp + 1 ∧ stamp' < 2^16 := by
  simp only [IterationStamp.iteration, Nat.shiftRight_zero] at hit ⊢
  have hs1 : (stamp + 1) % 2^16 = stamp + 1 := by
    apply Nat.mod_eq_of_lt
    omega
  have h200 : (stamp + 1) % 256 ≤ 200 := by omega
  refine ⟨stamp + 1, ?_, by omega, by omega⟩
  simp only [IterationStamp.increment_iteration, hs1, IterationStamp.iteration, MAX_ITERATIONS,
    Nat.shiftRight_zero]
  simp [h200]

theorem not_converged_witness {cache1 : List (Nat × Entry)} {prov : List (Nat × Nat)}
    (h : converged cache1 prov = false) :
    ∃ c w, prov.lookup c = some w ∧ (cache1.lookup c).map (·.val) ≠ some w := by
  have hex : ∃ p ∈ prov, (cache1.lookup p.1).map (·.val) ≠ prov.lookup p.1 := by
    apply Classical.byContradiction
    intro hno
    have : converged cache1 prov = true := by
      unfold converged
      rw [List.all_eq_true]
      intro p hp
      simp only [beq_iff_eq]
      apply Classical.byContradiction
      intro hne
      exact hno ⟨p, hp, hne⟩
    rw [this] at h; cases h
  obtain ⟨p, hp, hne⟩ := hex
  obtain ⟨c, u⟩ := p
  have hs := lookup_isSome_of_mem hp
  cases hl : prov.lookup c with
  | none => rw [hl] at hs; cases hs
  | some w => exact ⟨c, w, hl, by rw [hl] at hne; exact hne⟩

section
variable (P : Prog) (env : Nat → Nat) (read : Nat → St → Res Fetched) (j : Nat) (rest : List Nat)

theorem passVal_lt (s1 : St) (new : Nat) (hI : Inv P env s1) (h2 : le new (lfp P env j))
    (c : Nat) : passVal s1 j new c < 256 := by
  unfold passVal
  cases h : cv1 s1 j new c with
  | none => simp
  | some w => exact le_lt_256 (cv1_le P env s1 j new hI h2 c w h) (lfp_lt P env c)

/-- a non-converged pass (after the first) strictly increases the measure. -/
theorem pass_measure (l0 e r0 : St) (vl lastl v' : Nat) (r1 : St)
    (hN : NextPass P env read j rest l0 e r0 vl lastl v' r1) (hIe : Inv P env e)
    (hc : converged (cache1Of r1 j (cycleFn P j (cycleFn P j lastl vl) v')) r1.prov = false) :
    total (passVal e j (cycleFn P j lastl vl)) P.n
      < total (passVal r1 j (cycleFn P j (cycleFn P j lastl vl) v')) P.n := by
  have hnewl : le (cycleFn P j lastl vl) (lfp P env j) := hN.inv1.provLe j _ hN.last1
  apply total_strict
  · intro i
    unfold passVal
    cases h : cv1 e j (cycleFn P j lastl vl) i with
    | none => rw [hN.valsNone i h]; exact le_refl _
    | some w =>
      obtain ⟨w', hw', hle⟩ := hN.valsLe i w h
      rw [hw']; exact hle
  · exact passVal_lt P env j e _ hIe hnewl
  · exact passVal_lt P env j r1 _ hN.inv1 hN.newLe
  · obtain ⟨c, w, hw, hne⟩ := not_converged_witness hc
    have h1 := hN.provEq c w hw
    obtain ⟨w', hw', hle⟩ := hN.valsLe c w h1
    have hww : w ≠ w' := by
      intro e'
      apply hne
      subst e'
      exact hw'
    have hcn : c < P.n := by
      apply Classical.byContradiction
      intro hge
      have h0 := lfp_out P env (Nat.le_of_not_lt hge)
      have hw'0 := cv1_le P env r1 j _ hN.inv1 hN.newLe c w' hw'
      rw [h0] at hw'0
      have e1 := le_zero_eq hw'0
      rw [e1] at hle
      exact hww ((le_zero_eq hle).trans e1.symm)
    refine ⟨c, hcn, ?_⟩
    unfold passVal
    rw [h1, hw']
    exact hww

/-- **termination of the head loop**: from pass `t ≥ 1` on (with the measure of pass `t-1` at
    least `t-1`) the loop of an outermost head ends in a value. -/
theorem loop_ok (hR : ReadSpec P env read) (hS : ReadSim P env read) (hNF : NoFallback P)
    (hG : P.NoGate) (hn : 8 * P.n < 200) :
    ∀ (fuel stamp : Nat) (l0 e r0 : St) (vl lastl : Nat),
      PrevPass P env read j rest l0 e r0 vl lastl → stamp < 2^16 →
      fuel + IterationStamp.iteration stamp = 201 →
      IterationStamp.iteration stamp
        ≤ total (passVal e j (cycleFn P j lastl vl)) P.n + 1 →
      ∃ v hs s', executeMaybeIterate P env read j fuel stamp r0 = .ok (v, hs, s') := by
  intro fuel
  induction fuel with
  | zero =>
    intro stamp l0 e r0 vl lastl _ _ hsum hmu
    have := total_le (passVal e j (cycleFn P j lastl vl)) P.n
    omega
  | succ fuel ih =>
    intro stamp l0 e r0 vl lastl hP hs hsum hmu
    obtain ⟨v', r1, hN⟩ := pass_next P env read j rest hR hS hNF hG l0 e r0 vl lastl hP
    obtain ⟨hs', hevr⟩ := hN.run
    cases hc : converged (cache1Of r1 j (cycleFn P j (cycleFn P j lastl vl) v')) r1.prov with
    | true =>
      exact ⟨_, _, _, emi_conv P env read j fuel stamp r0 hevr hN.last1 hN.notBelow hc⟩
    | false =>
      have hlt := pass_measure P env read j rest l0 e r0 vl lastl v' r1 hN hP.invE hc
      have hbound := total_le (passVal r1 j (cycleFn P j (cycleFn P j lastl vl) v')) P.n
      obtain ⟨stamp', hi, hit', hs'2⟩ := incr_ok stamp hs (by omega)
      rw [emi_iter P env read j fuel stamp r0 hevr hN.last1 hN.notBelow hc hi]
      exact ih stamp' r0 r1 _ v' _ hN.next hs'2 (by omega) (by omega)

end

end SalsaVerif.Proofs.Cycle
