/-
  Snapshot / restore (Model/Persist.lean) against the invariant `Inv` of Proofs/CoreInv.lean.

  * `flatten_persisted`  — a serialized memo mentions only inputs and persisted functions
                           (unconditional: no edge of the restored database dangles);
  * `flattenObs_id`      — flattening is the identity when every dependency is an input or a
                           persisted function;
  * `inv_keep`           — dropping memos keeps `Inv` as long as no kept memo depends on a dropped one;
  * `restore_inv`        — `Inv s → NoFlat pers s → Inv (restore (snapshot pers s))`;
  * `Closed pers P`      — static sufficient condition for `NoFlat` in every reachable state
                           (persisted bodies read only inputs and persisted functions), with the
                           Bool check `closedList` for line-protocol programs;
  * `stepP_inv`, `runP_inv`, `outputsP_ref` — histories with snapshots anywhere.
  Core Lean only.
-/
import SalsaVerif.Proofs.PersistEngine
import SalsaVerif.Proofs.CoreRef

namespace SalsaVerif.Proofs.Persist
open SalsaVerif.Model.Core SalsaVerif.Model.Persist SalsaVerif.Proofs.Core

/-! ### what the flattened edges mention -/

/-- an observation of an input or of a persisted function -/
def PersObs (pers : Nat → Bool) (o : Obs) : Prop := ∀ j, o.dep = .qry j → pers j = true

theorem insertEdge_flat {Q : Obs → Prop} (a : FAcc) (o : Obs) (ha : ∀ x, x ∈ a.flat → Q x)
    (ho : Q { o with recd := true }) : ∀ x, x ∈ (insertEdge a o).flat → Q x := by
  intro x hx
  unfold insertEdge at hx
  split at hx
  · exact ha x hx
  · simp only [List.mem_append, List.mem_singleton] at hx
    rcases hx with hx | hx
    · exact ha x hx
    · rw [hx]; exact ho

theorem foldl_flat {α} {Q : Obs → Prop} (f : FAcc → α → FAcc)
    (hf : ∀ a x, (∀ y, y ∈ a.flat → Q y) → ∀ y, y ∈ (f a x).flat → Q y) :
    ∀ (l : List α) (a : FAcc), (∀ y, y ∈ a.flat → Q y) → ∀ y, y ∈ (l.foldl f a).flat → Q y := by
  intro l
  induction l with
  | nil => intro a ha; exact ha
  | cons x rest ih => intro a ha; exact ih (f a x) (hf a x ha)

/-- below the top level only input leaves are inserted -/
theorem cmse_flat (pers : Nat → Bool) (s : State) : ∀ fuel j a, (∀ y, y ∈ a.flat → PersObs pers y) →
    ∀ y, y ∈ (cmse s fuel j a).flat → PersObs pers y := by
  intro fuel
  induction fuel with
  | zero => intro j a ha; exact ha
  | succ fuel ih =>
    intro j a ha
    simp only [cmse]
    split
    · exact ha
    · apply foldl_flat
      · intro a' o ha'
        unfold cmseEdge
        split
        · exact ha'
        · split
          · exact ha'
          · split
            · rename_i i hd
              apply insertEdge_flat a' o ha'
              intro j' hj'
              simp only [hd] at hj'
              cases hj'
            · exact ih _ _ ha'
      · exact ha

theorem flattenEdge_flat (pers : Nat → Bool) (s : State) (a : FAcc) (o : Obs)
    (ha : ∀ y, y ∈ a.flat → PersObs pers y) : ∀ y, y ∈ (flattenEdge pers s a o).flat → PersObs pers y := by
  unfold flattenEdge
  split
  · rename_i i hd
    intro y hy
    simp only [List.mem_append, List.mem_singleton] at hy
    rcases hy with hy | hy
    · exact ha y hy
    · rw [hy]; intro j hj; rw [hd] at hj; cases hj
  · rename_i j hd
    split
    · rename_i hp
      intro y hy
      simp only [List.mem_append, List.mem_singleton] at hy
      rcases hy with hy | hy
      · exact ha y hy
      · rw [hy]; intro j' hj'; rw [hd] at hj'; cases hj'; exact hp
    · exact cmse_flat pers s _ _ a ha

/-- **A serialized memo mentions only inputs and persisted functions.** -/
theorem flatten_persisted (pers : Nat → Bool) (s : State) (obs : List Obs) :
    ∀ o, o ∈ flattenObs pers s obs → PersObs pers o := by
  unfold flattenObs
  apply foldl_flat (flattenEdge pers s) (flattenEdge_flat pers s)
  intro y hy; cases hy

/-! ### no flattening needed -/

theorem flatten_foldl_id (pers : Nat → Bool) (s : State) : ∀ (obs : List Obs) (a : FAcc),
    (∀ o, o ∈ obs → PersObs pers o) →
    obs.foldl (flattenEdge pers s) a = ⟨a.flat ++ obs, a.visited⟩ := by
  intro obs
  induction obs with
  | nil => intro a _; simp
  | cons o rest ih =>
    intro a h
    have ho := h o (by simp)
    have hstep : flattenEdge pers s a o = ⟨a.flat ++ [o], a.visited⟩ := by
      unfold flattenEdge
      split
      · rfl
      · rename_i j hd
        rw [if_pos (ho j hd)]
    simp only [List.foldl_cons, hstep]
    rw [ih _ (fun o' hm => h o' (by simp [hm]))]
    simp

/-- flattening is the identity on a memo whose dependencies are inputs or persisted functions -/
theorem flattenObs_id (pers : Nat → Bool) (s : State) (obs : List Obs)
    (h : ∀ o, o ∈ obs → PersObs pers o) : flattenObs pers s obs = obs := by
  unfold flattenObs
  rw [flatten_foldl_id pers s obs _ h]
  simp

/-- every dependency of every persisted memo is an input or a persisted function -/
def NoFlat (pers : Nat → Bool) (s : State) : Prop :=
  ∀ q m, pers q = true → s.memos q = some m → ∀ o, o ∈ m.obs → PersObs pers o

theorem snapshot_memos {pers s} (h : NoFlat pers s) (q : Nat) :
    (snapshot pers s).memos q = if pers q = true then s.memos q else none := by
  simp only [snapshot]
  by_cases hp : pers q = true
  · simp only [hp, if_true]
    cases hm : s.memos q with
    | none => rfl
    | some m =>
      simp only [Option.map, snapshotMemo]
      rw [flattenObs_id pers s m.obs (h q m hp hm)]
  · simp [hp]

/-! ### dropping memos -/

/-- the state that keeps the memos selected by `keep` (and any event log) -/
def keepMemos (keep : Nat → Bool) (s : State) (tr : List Ev) : State :=
  { cur := s.cur, lch := s.lch, inp := s.inp,
    memos := fun q => if keep q = true then s.memos q else none, wlog := s.wlog, trace := tr }

theorem depInfo_keep {keep s tr d r} (h : depInfo (keepMemos keep s tr) d = some r) : depInfo s d = some r := by
  cases d with
  | inp i => exact h
  | qry q =>
    simp only [depInfo, keepMemos] at h ⊢
    by_cases hk : keep q = true
    · simpa [hk] using h
    · simp [hk] at h

theorem inv_keep {P s} (keep : Nat → Bool) (tr : List Ev) (hI : Inv P s)
    (hclosed : ∀ q m, keep q = true → s.memos q = some m → ∀ o, o ∈ m.obs → ∀ j, o.dep = .qry j → keep j = true) :
    Inv P (keepMemos keep s tr) := by
  refine ⟨hI.cur1, hI.lc_le, hI.lc_ge1, hI.lc_anti, hI.lc_never, hI.inp_le, hI.inp_ge1, hI.wlog_lc, ?_⟩
  intro q m hm
  have hk : keep q = true := by
    by_cases hk : keep q = true
    · exact hk
    · simp [keepMemos, hk] at hm
  have hm0 : s.memos q = some m := by simpa [keepMemos, hk] using hm
  have ok := hI.memo q m hm0
  have hsame : ∀ j, keep j = true → (keepMemos keep s tr).memos j = s.memos j := by
    intro j hj; simp [keepMemos, hj]
  refine ⟨ok.ca_va, ok.va_cur, ok.va1, ok.deep_va, ok.dur3, ok.rep, ?_, ?_, ok.i4, ?_, ?_, ok.g4, ?_⟩
  · intro o ho r hi hc
    exact ok.i2 o ho r (depInfo_keep hi) hc
  · intro hs o ho
    obtain ⟨a, b⟩ := ok.i3 hs o ho
    refine ⟨fun r hi => a r (depInfo_keep hi), ?_⟩
    cases hd : o.dep with
    | inp i => trivial
    | qry j =>
      rw [hd] at b
      obtain ⟨m2, hm2, hs2⟩ := b
      exact ⟨m2, by rw [hsame j (hclosed q m hk hm0 o ho j hd)]; exact hm2, hs2⟩
  · intro o j ho hd
    obtain ⟨hlt, m2, hm2, hrec⟩ := ok.i5 o j ho hd
    exact ⟨hlt, m2, by rw [hsame j (hclosed q m hk hm0 o ho j hd)]; exact hm2, hrec⟩
  · intro o ho hr r hi
    exact ok.i6 o ho hr r (depInfo_keep hi)
  · intro o ho r hi
    exact ok.i10 o ho r (depInfo_keep hi)

theorem restore_snapshot_eq {pers s} (h : NoFlat pers s) :
    restore (snapshot pers s) = keepMemos pers s [] := by
  simp only [restore, keepMemos]
  congr 1
  funext q
  exact snapshot_memos h q

/-- **The restored database satisfies the engine invariant** (no-flattening fragment). -/
theorem restore_inv {P s} (pers : Nat → Bool) (hI : Inv P s) (h : NoFlat pers s) :
    Inv P (restore (snapshot pers s)) := by
  rw [restore_snapshot_eq h]
  exact inv_keep pers [] hI (fun q m hk hm o ho j hd => h q m hk hm o ho j hd)

/-! ### a static condition: persisted bodies read only inputs and persisted functions -/

inductive ClosedB (pers : Nat → Bool) : Body → Prop
  | ret (v) : ClosedB pers (.ret v)
  | read (d k) : (∀ j, d = .qry j → pers j = true) → (∀ v, ClosedB pers (k v)) → ClosedB pers (.read d k)

def Closed (pers : Nat → Bool) (P : Nat → Body) : Prop := ∀ q, pers q = true → ClosedB pers (P q)

theorem closedB_replay {pers} : ∀ b, ClosedB pers b → ∀ (l : List (Dep × Nat)) v, replay b l = some v →
    ∀ d x, (d, x) ∈ l → ∀ j, d = .qry j → pers j = true := by
  intro b hb
  induction hb with
  | ret v0 =>
    intro l v h d x hm
    cases l with
    | nil => cases hm
    | cons _ _ => simp [replay] at h
  | read d0 k hd _ ih =>
    intro l v h d x hm
    cases l with
    | nil => simp [replay] at h
    | cons hd0 rest =>
      obtain ⟨d', x'⟩ := hd0
      simp only [replay] at h
      split at h
      · rename_i hdd
        subst hdd
        simp only [List.mem_cons] at hm
        rcases hm with hm | hm
        · cases hm; exact hd
        · exact ih x' rest v h d x hm
      · simp at h

theorem noflat_of_closed {pers P s} (hC : Closed pers P) (hI : Inv P s) : NoFlat pers s := by
  intro q m hp hm o ho j hd
  have ok := hI.memo q m hm
  exact closedB_replay (P q) (hC q hp) _ _ ok.rep o.dep o.val
    (by simp only [obsPairs, List.mem_map]; exact ⟨o, ho, rfl⟩) j hd

/-- every called query is persisted -/
def callsPers (pers : Nat → Bool) : Expr → Bool
  | .const _ => true
  | .inp _ => true
  | .qry j => pers j
  | .add a b => callsPers pers a && callsPers pers b
  | .min a b => callsPers pers a && callsPers pers b
  | .max a b => callsPers pers a && callsPers pers b
  | .ite c a b => callsPers pers c && callsPers pers a && callsPers pers b

/-- `Closed` as a Bool on line-protocol programs: expression `q` (counted from `r`) of a
    persisted index calls only persisted queries -/
def closedList (pers : Nat → Bool) : Nat → List Expr → Bool
  | _, [] => true
  | r, e :: es => (!pers r || callsPers pers e) && closedList pers (r + 1) es

theorem closedB_compile (pers : Nat → Bool) : ∀ (e : Expr) (k : Nat → Body), callsPers pers e = true →
    (∀ v, ClosedB pers (k v)) → ClosedB pers (compile e k) := by
  intro e
  induction e with
  | const n => intro k _ hk; exact hk n
  | inp i => intro k _ hk; exact ClosedB.read _ _ (by intro q' h; cases h) hk
  | qry j =>
    intro k h hk
    refine ClosedB.read _ _ ?_ hk
    intro q' hq; cases hq
    simpa [callsPers] using h
  | add a b iha ihb =>
    intro k h hk
    simp only [callsPers, Bool.and_eq_true] at h
    exact iha _ h.1 (fun x => ihb _ h.2 (fun y => hk _))
  | min a b iha ihb =>
    intro k h hk
    simp only [callsPers, Bool.and_eq_true] at h
    exact iha _ h.1 (fun x => ihb _ h.2 (fun y => hk _))
  | max a b iha ihb =>
    intro k h hk
    simp only [callsPers, Bool.and_eq_true] at h
    exact iha _ h.1 (fun x => ihb _ h.2 (fun y => hk _))
  | ite c a b ihc iha ihb =>
    intro k h hk
    simp only [callsPers, Bool.and_eq_true] at h
    refine ihc _ h.1.1 (fun x => ?_)
    split
    · exact iha _ h.1.2 hk
    · exact ihb _ h.2 hk

theorem closedList_get (pers : Nat → Bool) : ∀ (es : List Expr) (r q : Nat) (e : Expr),
    closedList pers r es = true → es[q]? = some e → pers (r + q) = true → callsPers pers e = true := by
  intro es
  induction es with
  | nil => intro r q e _ h; simp at h
  | cons e0 rest ih =>
    intro r q e h hq hp
    simp only [closedList, Bool.and_eq_true, Bool.or_eq_true, Bool.not_eq_true'] at h
    cases q with
    | zero =>
      simp at hq; subst hq
      rcases h.1 with h1 | h1
      · simp at hp; rw [hp] at h1; cases h1
      · exact h1
    | succ q =>
      simp only [List.getElem?_cons_succ] at hq
      have e1 : r + 1 + q = r + (q + 1) := by omega
      exact ih (r + 1) q e h.2 hq (by rw [e1]; exact hp)

theorem closed_progOf (pers : Nat → Bool) (es : List Expr) (h : closedList pers 0 es = true) :
    Closed pers (progOf es) := by
  intro q hp
  unfold progOf
  cases hq : es[q]? with
  | none => exact ClosedB.ret 0
  | some e =>
    have := closedList_get pers es 0 q e h hq (by simpa using hp)
    exact closedB_compile pers e _ this (fun v => ClosedB.ret v)

/-! ### histories with snapshots -/

theorem stepP_inv {pers P} (hP : Wf P) (hC : Closed pers P) (s : State) (op : POp) (hI : Inv P s) :
    Inv P (stepP pers P s op) := by
  cases op with
  | get q => exact (fetch_soundP hP s q hI).1
  | set i v nd => obtain ⟨b, hb⟩ := write_bump s i v nd; exact bump_inv hb hI
  | synth d => obtain ⟨b, hb⟩ := synth_bump s d; exact bump_inv hb hI
  | snapshot => exact restore_inv pers hI (noflat_of_closed hC hI)

theorem foldlP_inv {pers P} (hP : Wf P) (hC : Closed pers P) : ∀ (ops : List POp) (s : State), Inv P s →
    Inv P (ops.foldl (stepP pers P) s) := by
  intro ops
  induction ops with
  | nil => intro s h; exact h
  | cons op rest ih => intro s h; exact ih _ (stepP_inv hP hC s op h)

theorem runP_inv {pers P} (hP : Wf P) (hC : Closed pers P) (inp : Nat → Inp) (ops : List POp) :
    Inv P (runP pers P inp ops) :=
  foldlP_inv hP hC ops _ (init_inv P inp)

@[simp] theorem restore_inp (t : State) : (restore t).inp = t.inp := rfl
@[simp] theorem snapshot_inp (pers s) : (snapshot pers s).inp = s.inp := rfl
@[simp] theorem restore_cur (t : State) : (restore t).cur = t.cur := rfl
@[simp] theorem snapshot_cur (pers s) : (snapshot pers s).cur = s.cur := rfl
@[simp] theorem restore_trace (t : State) : (restore t).trace = [] := rfl

theorem outputsP_ref {pers P} (hP : Wf P) (hC : Closed pers P) : ∀ (ops : List POp) (s : State), Inv P s →
    outputsP pers P s ops = refOutputsP P (envOf s.inp) ops := by
  intro ops
  induction ops with
  | nil => intro s _; rfl
  | cons op rest ih =>
    intro s hI
    cases op with
    | get q =>
      obtain ⟨a1, a2, _, a4⟩ := fetch_soundP hP s q hI
      simp only [outputsP, refOutputsP]
      rw [ih _ a1, a4, a2]
      congr 1
      exact sem_ext P s.inp (refInp (envOf s.inp)) (fun i => rfl) q
    | set i v nd =>
      simp only [outputsP, refOutputsP]
      have h := stepP_inv hP hC s (.set i v nd) hI
      simp only [stepP] at h
      rw [ih _ h, envOf_write]
    | synth d =>
      simp only [outputsP, refOutputsP]
      have h := stepP_inv hP hC s (.synth d) hI
      simp only [stepP] at h
      rw [ih _ h, envOf_synth]
    | snapshot =>
      simp only [outputsP, refOutputsP]
      have h := stepP_inv hP hC s .snapshot hI
      simp only [stepP] at h
      rw [ih _ h]
      rfl

/-! ### the hot path on the restored database -/

theorem snapshot_memo_pers {pers s q m} (hp : pers q = true) (hm : s.memos q = some m) :
    (restore (snapshot pers s)).memos q = some (snapshotMemo pers s m) := by
  simp [restore, snapshot, hp, hm]

theorem fetchP_unfold (P : Nat → Body) (s : State) (q : Nat) :
    fetchP P s q = fetchStepP (engP P q).1 (engP P q).2 P s q := by
  simp [fetchP, engP]

end SalsaVerif.Proofs.Persist
