/-
  CoreSpec engine: a generic frame principle.  Every engine function is a composition of the
  primitive state updates `emit`, `fail`, `setMemo`, `setSMemo`, `setSlot` and the allocation
  counter; a reflexive-transitive relation that contains the primitives therefore relates the
  state before and after any engine call.  Instances: the revision / inputs / write log never
  change during a request, a latched panic is never lost.  Core Lean only.
-/
import SalsaVerif.Model.CoreSpec

namespace SalsaVerif.Proofs.CoreSpec
open SalsaVerif.Model.CoreSpec

structure PrimRel (R : State → State → Prop) : Prop where
  refl : ∀ s, R s s
  trans : ∀ {s t u}, R s t → R t u → R s u
  emit : ∀ s e, R s (emit s e)
  fail : ∀ s p, R s (fail s p)
  setMemo : ∀ s q m, R s (setMemo s q m)
  setSMemo : ∀ s c m, R s (setSMemo s c m)
  setSlot : ∀ s c sl, R s (setSlot s c sl)
  gen : ∀ s n, R s { s with nextGen := n }

variable {R : State → State → Prop}

theorem PrimRel.failIf (h : PrimRel R) (s b p) : R s (failIf s b p) := by
  unfold Model.CoreSpec.failIf
  split
  · exact h.fail s p
  · exact h.refl s

theorem PrimRel.lockSlot (h : PrimRel R) (s c sl) : R s (lockSlot s c sl) := h.setSlot _ _ _

theorem PrimRel.touchMemos (h : PrimRel R) (s c) : R s (touchMemos s c) := by
  unfold Model.CoreSpec.touchMemos
  split
  · exact h.lockSlot _ _ _
  · exact h.refl s

/-- fetchers that stay inside the relation -/
def RelF (R : State → State → Prop) (fe : FetchFn) : Prop := ∀ s q, R s (fe s q).1
def RelM (R : State → State → Prop) (mc : McaFn) : Prop := ∀ s q rev, R s (mc s q rev).1

theorem relF_noFetch (h : PrimRel R) : RelF R noFetch := fun s _ => h.refl s

theorem readDep_rel (h : PrimRel R) {fe fs} (hfe : RelF R fe) (hfs : RelF R fs) (s d) :
    R s (readDep fe fs s d).1 := by
  cases d with
  | inp i => exact h.refl s
  | qry q => exact hfe s q
  | field c =>
    simp only [readDep]
    split
    · exact h.lockSlot _ _ _
    · exact h.fail _ _
  | spec c =>
    simp only [readDep]
    split
    · exact hfs s c
    · exact h.fail _ _

theorem newStruct_rel (h : PrimRel R) (s self f idk v) : R s (newStruct s self f idk v).1 := by
  unfold newStruct
  split
  · split
    · exact h.refl s
    · exact h.setSlot _ _ _
  · exact h.trans (h.trans (h.setSlot s self _) (h.gen _ (s.nextGen + 1))) (h.setSMemo _ _ _)

theorem specifyAndRecord_rel (h : PrimRel R) (s self f c v) : R s (specifyAndRecord s self f c v).1 := by
  unfold specifyAndRecord
  have hinst : ∀ m, R s (setSMemo (Model.CoreSpec.failIf s
      (backdate (s.smemos c) true ⟨v, none⟩ none f.ca f.dur s.cur).2 .backdateViolation) c m) :=
    fun m => h.trans (h.failIf _ _ _) (h.setSMemo _ _ _)
  split
  · exact h.fail _ _
  · dsimp only
    split
    · split
      · split
        · exact h.refl s
        · split
          · exact h.fail _ _
          · exact hinst _
      · exact hinst _
    · exact hinst _

theorem runBody_rel (h : PrimRel R) {fe fs} (hfe : RelF R fe) (hfs : RelF R fs) (self) :
    ∀ b s f, R s (runBody fe fs self b s f).1 := by
  intro b
  induction b with
  | ret v => intro s f; exact h.refl s
  | read d k ih =>
    intro s f
    simp only [runBody]
    exact h.trans (readDep_rel h hfe hfs s d) (ih _ _ _)
  | ident c k ih =>
    intro s f
    simp only [runBody]
    split
    · exact h.trans (h.lockSlot _ _ _) (ih _ _ _)
    · exact h.trans (h.fail _ _) (ih _ _ _)
  | create idk v k ih =>
    intro s f
    simp only [runBody]
    split
    · exact h.trans (newStruct_rel h _ _ _ _ _) (ih _ _ _)
    · exact h.trans (h.fail _ _) (ih _ _ _)
  | specify c v k ih =>
    intro s f
    simp only [runBody]
    exact h.trans (specifyAndRecord_rel h _ _ _ _ _) (ih _ _)

theorem executeSpec_rel (h : PrimRel R) (SB s c old) : R s (executeSpec SB s c old).1 := by
  unfold executeSpec
  exact h.trans (h.trans (h.trans (h.emit _ _)
    (runBody_rel h (relF_noFetch h) (relF_noFetch h) none _ _ _)) (h.failIf _ _ _)) (h.setSMemo _ _ _)

theorem depChangedLeaf_rel (h : PrimRel R) (s d rev) : R s (depChangedLeaf s d rev).1 := by
  unfold depChangedLeaf
  split
  · exact h.refl s
  · split
    · exact h.refl s
    · exact h.fail _ _
  · exact h.refl s

theorem deepEdgesLeaf_rel (h : PrimRel R) : ∀ obs s rev, R s (deepEdgesLeaf obs s rev).1 := by
  intro obs
  induction obs with
  | nil => intro s rev; exact h.refl s
  | cons o os ih =>
    intro s rev
    simp only [deepEdgesLeaf]
    split
    · split
      · exact depChangedLeaf_rel h _ _ _
      · exact h.trans (depChangedLeaf_rel h _ _ _) (ih _ _)
    · exact ih _ _

theorem fetchSpec_rel (h : PrimRel R) (SB s c) : R s (fetchSpec SB s c).1 := by
  unfold fetchSpec
  refine h.trans (h.touchMemos s c) ?_
  generalize touchMemos s c = t
  dsimp only
  split
  · exact executeSpec_rel h _ _ _ _
  · split
    · exact h.refl _
    · split
      · exact h.trans (h.emit _ _) (h.setSMemo _ _ _)
      · split
        · exact executeSpec_rel h _ _ _ _
        · split
          · exact h.trans (deepEdgesLeaf_rel h _ _ _) (h.trans (h.emit _ _) (h.setSMemo _ _ _))
          · exact h.trans (deepEdgesLeaf_rel h _ _ _) (executeSpec_rel h _ _ _ _)

theorem relF_fetchSpec (h : PrimRel R) (SB) : RelF R (fetchSpec SB) := fun s c => fetchSpec_rel h SB s c

theorem mcaSpec_rel (h : PrimRel R) (SB s c rev) : R s (mcaSpec SB s c rev).1 := by
  unfold mcaSpec
  refine h.trans (h.touchMemos s c) ?_
  generalize touchMemos s c = t
  dsimp only
  split
  · exact h.refl _
  · exact fetchSpec_rel h _ _ _

theorem markValidatedOutput_rel (h : PrimRel R) (s e c) : R s (markValidatedOutput s e c) := by
  unfold markValidatedOutput
  refine h.trans (h.touchMemos s c) ?_
  generalize touchMemos s c = t
  dsimp only
  split
  · exact h.refl _
  · split
    · exact h.trans (h.emit _ _) (h.setSMemo _ _ _)
    · exact h.fail _ _

theorem markOutputsVerified_rel (h : PrimRel R) (e) : ∀ obs s, R s (markOutputsVerified e obs s) := by
  intro obs
  induction obs with
  | nil => intro s; exact h.refl s
  | cons o os ih =>
    intro s
    simp only [markOutputsVerified]
    split
    · exact h.trans (markValidatedOutput_rel h _ _ _) (ih _)
    · exact ih _

theorem depChanged_rel (h : PrimRel R) {mc} (hmc : RelM R mc) (SB s d rev) :
    R s (depChanged mc SB s d rev).1 := by
  unfold depChanged
  split
  · exact h.refl s
  · exact hmc _ _ _
  · split
    · exact h.refl s
    · exact h.fail _ _
  · split
    · exact mcaSpec_rel h _ _ _ _
    · exact h.fail _ _

theorem deepEdges_rel (h : PrimRel R) {mc} (hmc : RelM R mc) (SB e) :
    ∀ obs s rev, R s (deepEdges mc SB e obs s rev).1 := by
  intro obs
  induction obs with
  | nil => intro s rev; exact h.refl s
  | cons o os ih =>
    intro s rev
    simp only [deepEdges]
    split
    · split
      · split
        · exact h.trans (markValidatedOutput_rel h _ _ _) (ih _ _)
        · exact ih _ _
      · split
        · exact depChanged_rel h hmc _ _ _ _
        · exact h.trans (depChanged_rel h hmc _ _ _ _) (ih _ _)
    · exact ih _ _

theorem deleteEntity_rel (h : PrimRel R) (s q) : R s (deleteEntity s q) := by
  unfold deleteEntity
  split
  · exact h.refl s
  · dsimp only
    refine h.trans (h.trans (h.trans (h.emit _ _) (h.emit _ _)) (h.failIf _ _ _)) ?_
    refine h.trans ?_ (h.setSlot _ _ _)
    split
    · exact h.trans (h.emit _ _) (h.setSMemo _ _ _)
    · exact h.refl _

theorem diffOutputs_rel (h : PrimRel R) (s q old f g) : R s (diffOutputs s q old f g) := by
  unfold diffOutputs
  dsimp only
  have h1 : R s (if old.ts.isSome ∧ f.ts.isNone then deleteEntity s q else s) := by
    split
    · exact deleteEntity_rel h _ _
    · exact h.refl s
  split
  · exact h.trans h1 (h.emit _ _)
  · exact h1

theorem execute_rel (h : PrimRel R) {fe} (hfe : RelF R fe) (P s q old) : R s (execute fe P s q old).1 := by
  unfold execute
  dsimp only
  refine h.trans (h.trans (h.trans (h.emit s (.exec q))
    (runBody_rel h hfe (relF_fetchSpec h P.spec) (some q) _ _ _)) (h.failIf _ _ _)) ?_
  refine h.trans ?_ (h.setMemo _ _ _)
  split
  · exact diffOutputs_rel h _ _ _ _ _
  · exact h.refl _

theorem fetchStep_rel (h : PrimRel R) {fe mc} (hfe : RelF R fe) (hmc : RelM R mc) (P s q) :
    R s (fetchStep fe mc P s q).1 := by
  unfold fetchStep
  split
  · exact execute_rel h hfe _ _ _ _
  · split
    · exact h.refl s
    · split
      · exact h.trans (h.trans (h.emit _ _) (h.setMemo _ _ _)) (markOutputsVerified_rel h _ _ _)
      · dsimp only
        split
        · exact h.trans (deepEdges_rel h hmc _ _ _ _ _) (h.trans (h.emit _ _) (h.setMemo _ _ _))
        · exact h.trans (deepEdges_rel h hmc _ _ _ _ _) (execute_rel h hfe _ _ _ _)

theorem mcaStep_rel (h : PrimRel R) {fe mc} (hfe : RelF R fe) (hmc : RelM R mc) (P s q rev) :
    R s (mcaStep fe mc P s q rev).1 := by
  unfold mcaStep
  split
  · exact h.refl s
  · exact fetchStep_rel h hfe hmc _ _ _

theorem eng_rel (h : PrimRel R) (P) : ∀ r, RelF R (eng P r).1 ∧ RelM R (eng P r).2 := by
  intro r
  induction r with
  | zero => exact ⟨fun s _ => h.refl s, fun s _ _ => h.refl s⟩
  | succ r ih =>
    refine ⟨?_, ?_⟩
    · intro s q
      simp only [eng]
      split
      · exact ih.1 s q
      · split
        · exact fetchStep_rel h ih.1 ih.2 _ _ _
        · exact h.refl s
    · intro s q rev
      simp only [eng]
      split
      · exact ih.2 s q rev
      · split
        · exact mcaStep_rel h ih.1 ih.2 _ _ _ _
        · exact h.refl s

theorem fetch_rel (h : PrimRel R) (P s q) : R s (fetch P s q).1 := (eng_rel h P (q + 1)).1 s q

theorem observe_rel (h : PrimRel R) (s v) : R s (observe s v) := by
  unfold observe
  split
  · split
    · exact h.lockSlot _ _ _
    · exact h.fail _ _
  · exact h.refl s

theorem getOp_rel (h : PrimRel R) (P s q) : R s (getOp P s q).1 :=
  h.trans (fetch_rel h P s q) (observe_rel h _ _)

/-! ### instances -/

/-- the environment (revision, last-changed table, inputs, write log) is untouched by requests -/
def SameEnv (s t : State) : Prop := t.cur = s.cur ∧ t.lch = s.lch ∧ t.inp = s.inp ∧ t.wlog = s.wlog

theorem fail_cases (s p) : fail s p = s ∨ fail s p = { s with panic := some p } := by
  unfold Model.CoreSpec.fail
  split
  · exact Or.inl rfl
  · exact Or.inr rfl

theorem primRel_sameEnv : PrimRel SameEnv where
  refl _ := ⟨rfl, rfl, rfl, rfl⟩
  trans h1 h2 := ⟨h2.1.trans h1.1, h2.2.1.trans h1.2.1, h2.2.2.1.trans h1.2.2.1, h2.2.2.2.trans h1.2.2.2⟩
  emit _ _ := ⟨rfl, rfl, rfl, rfl⟩
  fail s p := by rcases fail_cases s p with e | e <;> rw [e] <;> exact ⟨rfl, rfl, rfl, rfl⟩
  setMemo _ _ _ := ⟨rfl, rfl, rfl, rfl⟩
  setSMemo _ _ _ := ⟨rfl, rfl, rfl, rfl⟩
  setSlot _ _ _ := ⟨rfl, rfl, rfl, rfl⟩
  gen _ _ := ⟨rfl, rfl, rfl, rfl⟩

/-- a latched panic is never lost or replaced -/
def Sticky (s t : State) : Prop := ∀ p, s.panic = some p → t.panic = some p

theorem primRel_sticky : PrimRel Sticky where
  refl _ _ h := h
  trans h1 h2 p h := h2 p (h1 p h)
  emit _ _ _ h := h
  fail s p' p h := by unfold Model.CoreSpec.fail; rw [h]; exact h
  setMemo _ _ _ _ h := h
  setSMemo _ _ _ _ h := h
  setSlot _ _ _ _ h := h
  gen _ _ _ h := h

/-- the event trace only grows -/
def TraceExt (s t : State) : Prop := ∃ l, t.trace = s.trace ++ l

theorem primRel_traceExt : PrimRel TraceExt where
  refl _ := ⟨[], by simp⟩
  trans h1 h2 := by
    obtain ⟨l1, e1⟩ := h1
    obtain ⟨l2, e2⟩ := h2
    exact ⟨l1 ++ l2, by rw [e2, e1, List.append_assoc]⟩
  emit _ e := ⟨[e], rfl⟩
  fail s p := by rcases fail_cases s p with e | e <;> rw [e] <;> exact ⟨[], by simp⟩
  setMemo _ _ _ := ⟨[], by simp [Model.CoreSpec.setMemo]⟩
  setSMemo _ _ _ := ⟨[], by simp [Model.CoreSpec.setSMemo]⟩
  setSlot _ _ _ := ⟨[], by simp [Model.CoreSpec.setSlot]⟩
  gen _ _ := ⟨[], by simp⟩

/-- nothing is emitted -/
def SameTrace (s t : State) : Prop := t.trace = s.trace

end SalsaVerif.Proofs.CoreSpec
