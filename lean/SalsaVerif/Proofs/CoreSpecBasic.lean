/-
  CoreSpec engine: a generic frame principle.  Every engine function is a composition of the
  primitive state updates `emit`, `fail`, `setMemo`, `setSMemo`, `setSlot` and the allocation
  counter; a reflexive-transitive relation that contains the primitives therefore relates the
  state before and after any engine call.  Instances: the revision / inputs / write log never
  change during a request, a latched panic is never lost.  Core Lean only.
-/
import SalsaVerif.Model.CoreSpec

namespace SalsaVerif.Proofs.CoreSpec
open SalsaVerif.Model.CoreSpec

theorem fail_cases (s p) : fail s p = s ∨ fail s p = { s with panic := some p } := by
  unfold Model.CoreSpec.fail
  split
  · exact Or.inl rfl
  · exact Or.inr rfl

/-! ### projections of the primitive updates -/

@[simp] theorem setSMemo_same (s c m) : (setSMemo s c m).smemos c = m := by simp [setSMemo]
theorem setSMemo_other (s c m) {c'} (h : c' ≠ c) : (setSMemo s c m).smemos c' = s.smemos c' := by
  simp [setSMemo, h]
@[simp] theorem setSMemo_cur (s c m) : (setSMemo s c m).cur = s.cur := rfl
@[simp] theorem setSMemo_lch (s c m) : (setSMemo s c m).lch = s.lch := rfl
@[simp] theorem setSMemo_trace (s c m) : (setSMemo s c m).trace = s.trace := rfl
@[simp] theorem setSMemo_slots (s c m) : (setSMemo s c m).slots = s.slots := rfl
@[simp] theorem setSMemo_memos (s c m) : (setSMemo s c m).memos = s.memos := rfl
@[simp] theorem setSMemo_panic (s c m) : (setSMemo s c m).panic = s.panic := rfl
@[simp] theorem setSMemo_inp (s c m) : (setSMemo s c m).inp = s.inp := rfl

@[simp] theorem setSlot_same (s c sl) : (setSlot s c sl).slots c = sl := by simp [setSlot]
theorem setSlot_other (s c sl) {c'} (h : c' ≠ c) : (setSlot s c sl).slots c' = s.slots c' := by
  simp [setSlot, h]
@[simp] theorem setSlot_cur (s c sl) : (setSlot s c sl).cur = s.cur := rfl
@[simp] theorem setSlot_lch (s c sl) : (setSlot s c sl).lch = s.lch := rfl
@[simp] theorem setSlot_trace (s c sl) : (setSlot s c sl).trace = s.trace := rfl
@[simp] theorem setSlot_smemos (s c sl) : (setSlot s c sl).smemos = s.smemos := rfl
@[simp] theorem setSlot_memos (s c sl) : (setSlot s c sl).memos = s.memos := rfl
@[simp] theorem setSlot_panic (s c sl) : (setSlot s c sl).panic = s.panic := rfl
@[simp] theorem setSlot_inp (s c sl) : (setSlot s c sl).inp = s.inp := rfl

@[simp] theorem setMemo_same (s q m) : (setMemo s q m).memos q = some m := by simp [setMemo]
theorem setMemo_other (s q m) {p} (h : p ≠ q) : (setMemo s q m).memos p = s.memos p := by simp [setMemo, h]
@[simp] theorem setMemo_cur (s q m) : (setMemo s q m).cur = s.cur := rfl
@[simp] theorem setMemo_lch (s q m) : (setMemo s q m).lch = s.lch := rfl
@[simp] theorem setMemo_trace (s q m) : (setMemo s q m).trace = s.trace := rfl
@[simp] theorem setMemo_smemos (s q m) : (setMemo s q m).smemos = s.smemos := rfl
@[simp] theorem setMemo_slots (s q m) : (setMemo s q m).slots = s.slots := rfl
@[simp] theorem setMemo_panic (s q m) : (setMemo s q m).panic = s.panic := rfl
@[simp] theorem setMemo_inp (s q m) : (setMemo s q m).inp = s.inp := rfl

@[simp] theorem emit_cur (s e) : (emit s e).cur = s.cur := rfl
@[simp] theorem emit_lch (s e) : (emit s e).lch = s.lch := rfl
@[simp] theorem emit_trace (s e) : (emit s e).trace = s.trace ++ [e] := rfl
@[simp] theorem emit_smemos (s e) : (emit s e).smemos = s.smemos := rfl
@[simp] theorem emit_slots (s e) : (emit s e).slots = s.slots := rfl
@[simp] theorem emit_memos (s e) : (emit s e).memos = s.memos := rfl
@[simp] theorem emit_panic (s e) : (emit s e).panic = s.panic := rfl
@[simp] theorem emit_inp (s e) : (emit s e).inp = s.inp := rfl
@[simp] theorem emit_lc (s e d) : lc (emit s e) d = lc s d := rfl

@[simp] theorem fail_cur (s p) : (fail s p).cur = s.cur := by rcases fail_cases s p with e | e <;> rw [e]
@[simp] theorem fail_lch (s p) : (fail s p).lch = s.lch := by rcases fail_cases s p with e | e <;> rw [e]
@[simp] theorem fail_trace (s p) : (fail s p).trace = s.trace := by rcases fail_cases s p with e | e <;> rw [e]
@[simp] theorem fail_smemos (s p) : (fail s p).smemos = s.smemos := by rcases fail_cases s p with e | e <;> rw [e]
@[simp] theorem fail_slots (s p) : (fail s p).slots = s.slots := by rcases fail_cases s p with e | e <;> rw [e]
@[simp] theorem fail_memos (s p) : (fail s p).memos = s.memos := by rcases fail_cases s p with e | e <;> rw [e]
@[simp] theorem fail_inp (s p) : (fail s p).inp = s.inp := by rcases fail_cases s p with e | e <;> rw [e]
@[simp] theorem fail_lc (s p d) : lc (fail s p) d = lc s d := by simp [lc]

theorem fail_panic_none {s p} (h : s.panic = none) : (fail s p).panic = some p := by
  unfold Model.CoreSpec.fail; rw [h]

theorem failIf_cases (s b p) : failIf s b p = s ∨ failIf s b p = fail s p := by
  unfold Model.CoreSpec.failIf; split
  · exact Or.inr rfl
  · exact Or.inl rfl

@[simp] theorem failIf_cur (s b p) : (failIf s b p).cur = s.cur := by
  rcases failIf_cases s b p with e | e <;> rw [e]; simp
@[simp] theorem failIf_lch (s b p) : (failIf s b p).lch = s.lch := by
  rcases failIf_cases s b p with e | e <;> rw [e]; simp
@[simp] theorem failIf_trace (s b p) : (failIf s b p).trace = s.trace := by
  rcases failIf_cases s b p with e | e <;> rw [e]; simp
@[simp] theorem failIf_smemos (s b p) : (failIf s b p).smemos = s.smemos := by
  rcases failIf_cases s b p with e | e <;> rw [e]; simp
@[simp] theorem failIf_slots (s b p) : (failIf s b p).slots = s.slots := by
  rcases failIf_cases s b p with e | e <;> rw [e]; simp
@[simp] theorem failIf_memos (s b p) : (failIf s b p).memos = s.memos := by
  rcases failIf_cases s b p with e | e <;> rw [e]; simp
@[simp] theorem failIf_inp (s b p) : (failIf s b p).inp = s.inp := by
  rcases failIf_cases s b p with e | e <;> rw [e]; simp
theorem failIf_false (s p) : failIf s false p = s := by simp [Model.CoreSpec.failIf]

@[simp] theorem lockSlot_cur (s c sl) : (lockSlot s c sl).cur = s.cur := rfl
@[simp] theorem lockSlot_lch (s c sl) : (lockSlot s c sl).lch = s.lch := rfl
@[simp] theorem lockSlot_trace (s c sl) : (lockSlot s c sl).trace = s.trace := rfl
@[simp] theorem lockSlot_smemos (s c sl) : (lockSlot s c sl).smemos = s.smemos := rfl
@[simp] theorem lockSlot_memos (s c sl) : (lockSlot s c sl).memos = s.memos := rfl
@[simp] theorem lockSlot_panic (s c sl) : (lockSlot s c sl).panic = s.panic := rfl
@[simp] theorem lockSlot_inp (s c sl) : (lockSlot s c sl).inp = s.inp := rfl

theorem touchMemos_cases (s c) : touchMemos s c = s ∨ ∃ sl, s.slots c = some sl ∧ touchMemos s c = lockSlot s c sl := by
  unfold Model.CoreSpec.touchMemos
  split
  · rename_i sl h; exact Or.inr ⟨sl, h, rfl⟩
  · exact Or.inl rfl

@[simp] theorem touchMemos_cur (s c) : (touchMemos s c).cur = s.cur := by
  rcases touchMemos_cases s c with e | ⟨sl, _, e⟩ <;> rw [e]; rfl
@[simp] theorem touchMemos_lch (s c) : (touchMemos s c).lch = s.lch := by
  rcases touchMemos_cases s c with e | ⟨sl, _, e⟩ <;> rw [e]; rfl
@[simp] theorem touchMemos_trace (s c) : (touchMemos s c).trace = s.trace := by
  rcases touchMemos_cases s c with e | ⟨sl, _, e⟩ <;> rw [e]; rfl
@[simp] theorem touchMemos_smemos (s c) : (touchMemos s c).smemos = s.smemos := by
  rcases touchMemos_cases s c with e | ⟨sl, _, e⟩ <;> rw [e]; rfl
@[simp] theorem touchMemos_memos (s c) : (touchMemos s c).memos = s.memos := by
  rcases touchMemos_cases s c with e | ⟨sl, _, e⟩ <;> rw [e]; rfl
@[simp] theorem touchMemos_panic (s c) : (touchMemos s c).panic = s.panic := by
  rcases touchMemos_cases s c with e | ⟨sl, _, e⟩ <;> rw [e]; rfl
@[simp] theorem touchMemos_inp (s c) : (touchMemos s c).inp = s.inp := by
  rcases touchMemos_cases s c with e | ⟨sl, _, e⟩ <;> rw [e]; rfl
@[simp] theorem touchMemos_lc (s c d) : lc (touchMemos s c) d = lc s d := by simp [lc]

theorem touchMemos_genOf (s c c') : genOf (touchMemos s c) c' = genOf s c' := by
  rcases touchMemos_cases s c with e | ⟨sl, h, e⟩
  · rw [e]
  · rw [e]
    by_cases hc : c' = c
    · subst hc; simp [genOf, lockSlot, h]
    · simp [genOf, lockSlot, setSlot_other _ _ _ hc]


/-- the primitives a running body uses itself (it never emits an event) -/
structure PrimRel0 (R : State → State → Prop) : Prop where
  refl : ∀ s, R s s
  trans : ∀ {s t u}, R s t → R t u → R s u
  fail : ∀ s p, R s (fail s p)
  /-- every memo the engine installs is verified in the current revision -/
  setMemo : ∀ s q m, m.va = s.cur → R s (setMemo s q m)
  setSMemo : ∀ s c m, (∀ sm, m = some sm → sm.va = s.cur) → R s (setSMemo s c m)
  setSlot : ∀ s c sl, R s (setSlot s c sl)
  gen : ∀ s n, R s { s with nextGen := n }

structure PrimRel (R : State → State → Prop) : Prop extends PrimRel0 R where
  emit : ∀ s e, R s (emit s e)

variable {R : State → State → Prop}

theorem PrimRel0.failIf (h : PrimRel0 R) (s b p) : R s (failIf s b p) := by
  unfold Model.CoreSpec.failIf
  split
  · exact h.fail s p
  · exact h.refl s

theorem PrimRel0.lockSlot (h : PrimRel0 R) (s c sl) : R s (lockSlot s c sl) := h.setSlot _ _ _

theorem PrimRel0.touchMemos (h : PrimRel0 R) (s c) : R s (touchMemos s c) := by
  unfold Model.CoreSpec.touchMemos
  split
  · exact h.lockSlot _ _ _
  · exact h.refl s

/-- fetchers that stay inside the relation -/
def RelF (R : State → State → Prop) (fe : FetchFn) : Prop := ∀ s q, R s (fe s q).1
def RelM (R : State → State → Prop) (mc : McaFn) : Prop := ∀ s q rev, R s (mc s q rev).1

theorem relF_noFetch (h : PrimRel0 R) : RelF R noFetch := fun s _ => h.refl s

theorem readDep_rel (h : PrimRel0 R) {fe fs} (hfe : RelF R fe) (hfs : RelF R fs) (s d) :
    R s (readDep fe fs s d).1 := by
  cases d with
  | inp i => exact h.refl s
  | qry q => exact hfe s q
  | field c =>
    simp only [readDep]
    split
    · exact h.lockSlot _ _ _
    · exact h.fail _ _
  | spec c =>
    simp only [readDep]
    split
    · exact hfs s c
    · exact h.fail _ _

theorem newStruct_rel (h : PrimRel0 R) (s self f idk v) : R s (newStruct s self f idk v).1 := by
  unfold newStruct
  split
  · split
    · exact h.refl s
    · exact h.setSlot _ _ _
  · exact h.trans (h.trans (h.setSlot s self _) (h.gen _ (s.nextGen + 1))) (h.setSMemo _ _ _ (by intro sm e; cases e))

theorem installAssigned_rel (h : PrimRel0 R) (s f c v) : R s (installAssigned s f c v).1 := by
  unfold installAssigned
  exact h.trans (h.failIf _ _ _) (h.setSMemo _ _ _ (by intro sm e; cases e; simp [assignedMemo]))

theorem specifyAndRecord_rel (h : PrimRel0 R) (s self f c v) : R s (specifyAndRecord s self f c v).1 := by
  unfold specifyAndRecord
  split
  · split
    · split
      · split
        · exact h.refl s
        · split
          · exact h.fail _ _
          · exact installAssigned_rel h _ _ _ _
      · exact installAssigned_rel h _ _ _ _
    · exact installAssigned_rel h _ _ _ _
  · exact h.fail _ _

theorem identStep_rel (h : PrimRel0 R) (s c) : R s (identStep s c).1 := by
  unfold identStep
  split
  · exact h.lockSlot _ _ _
  · exact h.fail _ _

theorem createStep_rel (h : PrimRel0 R) (s self f idk v) : R s (createStep s self f idk v).1 := by
  unfold createStep
  split
  · split
    · exact h.fail _ _
    · exact newStruct_rel h _ _ _ _ _
  · exact h.fail _ _

theorem runBody_rel (h : PrimRel0 R) {fe fs} (hfe : RelF R fe) (hfs : RelF R fs) (self) :
    ∀ b s f, R s (runBody fe fs self b s f).1 := by
  intro b
  induction b with
  | ret v => intro s f; exact h.refl s
  | read d k ih =>
    intro s f
    simp only [runBody]
    exact h.trans (readDep_rel h hfe hfs s d) (ih _ _ _)
  | ident c k ih =>
    intro s f
    simp only [runBody]
    exact h.trans (identStep_rel h _ _) (ih _ _ _)
  | create idk v k ih =>
    intro s f
    simp only [runBody]
    exact h.trans (createStep_rel h _ _ _ _ _) (ih _ _ _)
  | specify c v k ih =>
    intro s f
    simp only [runBody]
    exact h.trans (specifyAndRecord_rel h _ _ _ _ _) (ih _ _)

theorem installSpec_rel (h : PrimRel R) (s c old f v) : R s (installSpec s c old f v).1 := by
  unfold installSpec
  exact h.trans (h.toPrimRel0.failIf _ _ _) (h.setSMemo _ _ _ (by intro sm e; cases e; simp))

theorem executeSpec_rel (h : PrimRel R) (SB s c old) : R s (executeSpec SB s c old).1 := by
  unfold executeSpec
  exact h.trans (h.trans (h.emit _ _)
    (runBody_rel h.toPrimRel0 (relF_noFetch h.toPrimRel0) (relF_noFetch h.toPrimRel0) none _ _ _)) (installSpec_rel h _ _ _ _ _)

theorem depChangedLeaf_rel (h : PrimRel R) (s d rev) : R s (depChangedLeaf s d rev).1 := by
  unfold depChangedLeaf
  split
  · exact h.refl s
  · split
    · exact h.refl s
    · exact h.fail _ _
  · exact h.refl s

theorem deepEdgesLeaf_rel (h : PrimRel R) : ∀ obs s rev, R s (deepEdgesLeaf obs s rev).1 := by
  intro obs
  induction obs with
  | nil => intro s rev; exact h.refl s
  | cons o os ih =>
    intro s rev
    simp only [deepEdgesLeaf]
    split
    · split
      · exact depChangedLeaf_rel h _ _ _
      · exact h.trans (depChangedLeaf_rel h _ _ _) (ih _ _)
    · exact ih _ _

theorem fetchSpec_rel (h : PrimRel R) (SB s c) : R s (fetchSpec SB s c).1 := by
  unfold fetchSpec
  refine h.trans (h.toPrimRel0.touchMemos s c) ?_
  generalize touchMemos s c = t
  dsimp only
  split
  · exact executeSpec_rel h _ _ _ _
  · split
    · exact h.refl _
    · split
      · exact h.trans (h.emit _ _) (h.setSMemo _ _ _ (by intro sm e; cases e; simp))
      · split
        · exact executeSpec_rel h _ _ _ _
        · split
          · exact h.trans (deepEdgesLeaf_rel h _ _ _) (h.trans (h.emit _ _) (h.setSMemo _ _ _ (by intro sm e; cases e; simp)))
          · exact h.trans (deepEdgesLeaf_rel h _ _ _) (executeSpec_rel h _ _ _ _)

theorem relF_fetchSpec (h : PrimRel R) (SB) : RelF R (fetchSpec SB) := fun s c => fetchSpec_rel h SB s c

theorem mcaSpec_rel (h : PrimRel R) (SB s c rev) : R s (mcaSpec SB s c rev).1 := by
  unfold mcaSpec
  refine h.trans (h.toPrimRel0.touchMemos s c) ?_
  generalize touchMemos s c = t
  dsimp only
  split
  · exact h.refl _
  · exact fetchSpec_rel h _ _ _

theorem markValidatedOutput_rel (h : PrimRel R) (s e c) : R s (markValidatedOutput s e c) := by
  unfold markValidatedOutput
  refine h.trans (h.toPrimRel0.touchMemos s c) ?_
  generalize touchMemos s c = t
  dsimp only
  split
  · exact h.refl _
  · split
    · exact h.trans (h.emit _ _) (h.setSMemo _ _ _ (by intro sm e; cases e; simp))
    · exact h.fail _ _

theorem markOutputsVerified_rel (h : PrimRel R) (e) : ∀ obs s, R s (markOutputsVerified e obs s) := by
  intro obs
  induction obs with
  | nil => intro s; exact h.refl s
  | cons o os ih =>
    intro s
    simp only [markOutputsVerified]
    split
    · exact h.trans (markValidatedOutput_rel h _ _ _) (ih _)
    · exact ih _

theorem depChanged_rel (h : PrimRel R) {mc} (hmc : RelM R mc) (SB s d rev) :
    R s (depChanged mc SB s d rev).1 := by
  unfold depChanged
  split
  · exact h.refl s
  · exact hmc _ _ _
  · split
    · exact h.refl s
    · exact h.fail _ _
  · split
    · exact mcaSpec_rel h _ _ _ _
    · exact h.fail _ _

theorem deepEdges_rel (h : PrimRel R) {mc} (hmc : RelM R mc) (SB e) :
    ∀ obs s rev, R s (deepEdges mc SB e obs s rev).1 := by
  intro obs
  induction obs with
  | nil => intro s rev; exact h.refl s
  | cons o os ih =>
    intro s rev
    simp only [deepEdges]
    split
    · split
      · split
        · exact h.trans (markValidatedOutput_rel h _ _ _) (ih _ _)
        · exact ih _ _
      · split
        · exact depChanged_rel h hmc _ _ _ _
        · exact h.trans (depChanged_rel h hmc _ _ _ _) (ih _ _)
    · exact ih _ _

theorem deleteEntity_rel (h : PrimRel R) (s q) : R s (deleteEntity s q) := by
  unfold deleteEntity
  split
  · exact h.refl s
  · rename_i sl _
    dsimp only
    have h2 : R s (Model.CoreSpec.failIf (Model.CoreSpec.emit (Model.CoreSpec.emit s (.staleT q q sl.gen)) (.discT q sl.gen))
        (decide (sl.upd = s.cur)) .deleteLocked) :=
      h.trans (h.trans (h.emit _ _) (h.emit _ _)) (h.toPrimRel0.failIf _ _ _)
    refine h.trans h2 ?_
    generalize Model.CoreSpec.failIf _ _ _ = t
    refine h.trans ?_ (h.setSlot _ _ _)
    split
    · exact h.trans (h.emit _ _) (h.setSMemo _ _ _ (by intro sm e; cases e))
    · exact h.refl _

theorem diffOutputs_rel (h : PrimRel R) (s q old f g) : R s (diffOutputs s q old f g) := by
  unfold diffOutputs
  dsimp only
  have h1 : R s (if old.ts.isSome ∧ f.ts.isNone then deleteEntity s q else s) := by
    split
    · exact deleteEntity_rel h _ _
    · exact h.refl s
  split
  · exact h.trans h1 (h.emit _ _)
  · exact h1

theorem deleteEntity_cur (s q) : (deleteEntity s q).cur = s.cur := by
  unfold deleteEntity
  split
  · rfl
  · dsimp only
    split <;> simp

theorem diffOutputs_cur (s q old f g) : (diffOutputs s q old f g).cur = s.cur := by
  unfold diffOutputs
  dsimp only
  split <;> split <;> simp [deleteEntity_cur]

theorem installNode_rel (h : PrimRel R) (s q old f v) : R s (installNode s q old f v).1 := by
  unfold installNode
  dsimp only
  have h2 := h.toPrimRel0.failIf s (backdate old false v (hgenOf s v) f.ca f.dur s.cur).2 .backdateViolation
  cases old with
  | none => exact h.trans h2 (h.setMemo _ _ _ (by simp))
  | some o =>
    have h3 := diffOutputs_rel h (Model.CoreSpec.failIf s
      (backdate (some o) false v (hgenOf s v) f.ca f.dur s.cur).2 .backdateViolation) q o f (genOf s q)
    refine h.trans (h.trans h2 h3) (h.setMemo _ _ _ ?_)
    rw [diffOutputs_cur]
    simp

theorem execute_rel (h : PrimRel R) {fe} (hfe : RelF R fe) (P s q old) : R s (execute fe P s q old).1 := by
  unfold execute
  exact h.trans (h.trans (h.emit s (.exec q))
    (runBody_rel h.toPrimRel0 hfe (relF_fetchSpec h P.spec) (some q) _ _ _)) (installNode_rel h _ _ _ _ _)

theorem fetchStep_rel (h : PrimRel R) {fe mc} (hfe : RelF R fe) (hmc : RelM R mc) (P s q) :
    R s (fetchStep fe mc P s q).1 := by
  unfold fetchStep
  split
  · exact execute_rel h hfe _ _ _ _
  · split
    · exact h.refl s
    · split
      · exact h.trans (h.trans (h.emit _ _) (h.setMemo _ _ _ (by simp))) (markOutputsVerified_rel h _ _ _)
      · dsimp only
        split
        · exact h.trans (deepEdges_rel h hmc _ _ _ _ _) (h.trans (h.emit _ _) (h.setMemo _ _ _ (by simp)))
        · exact h.trans (deepEdges_rel h hmc _ _ _ _ _) (execute_rel h hfe _ _ _ _)

theorem mcaStep_rel (h : PrimRel R) {fe mc} (hfe : RelF R fe) (hmc : RelM R mc) (P s q rev) :
    R s (mcaStep fe mc P s q rev).1 := by
  unfold mcaStep
  split
  · exact h.refl s
  · exact fetchStep_rel h hfe hmc _ _ _

theorem eng_rel (h : PrimRel R) (P) : ∀ r, RelF R (eng P r).1 ∧ RelM R (eng P r).2 := by
  intro r
  induction r with
  | zero => exact ⟨fun s _ => h.refl s, fun s _ _ => h.refl s⟩
  | succ r ih =>
    refine ⟨?_, ?_⟩
    · intro s q
      simp only [eng]
      split
      · exact ih.1 s q
      · split
        · exact fetchStep_rel h ih.1 ih.2 _ _ _
        · exact h.refl s
    · intro s q rev
      simp only [eng]
      split
      · exact ih.2 s q rev
      · split
        · exact mcaStep_rel h ih.1 ih.2 _ _ _ _
        · exact h.refl s

theorem fetch_rel (h : PrimRel R) (P s q) : R s (fetch P s q).1 := (eng_rel h P (q + 1)).1 s q

theorem observe_rel (h : PrimRel R) (s v) : R s (observe s v) := by
  unfold observe
  split
  · split
    · exact h.toPrimRel0.lockSlot _ _ _
    · exact h.fail _ _
  · exact h.refl s

theorem getOp_rel (h : PrimRel R) (P s q) : R s (getOp P s q).1 :=
  h.trans (fetch_rel h P s q) (observe_rel h _ _)

/-! ### instances -/

/-- the environment (revision, last-changed table, inputs, write log) is untouched by requests -/
def SameEnv (s t : State) : Prop := t.cur = s.cur ∧ t.lch = s.lch ∧ t.inp = s.inp ∧ t.wlog = s.wlog

theorem primRel_sameEnv : PrimRel SameEnv where
  refl _ := ⟨rfl, rfl, rfl, rfl⟩
  trans h1 h2 := ⟨h2.1.trans h1.1, h2.2.1.trans h1.2.1, h2.2.2.1.trans h1.2.2.1, h2.2.2.2.trans h1.2.2.2⟩
  emit _ _ := ⟨rfl, rfl, rfl, rfl⟩
  fail s p := by rcases fail_cases s p with e | e <;> rw [e] <;> exact ⟨rfl, rfl, rfl, rfl⟩
  setMemo _ _ _ _ := ⟨rfl, rfl, rfl, rfl⟩
  setSMemo _ _ _ _ := ⟨rfl, rfl, rfl, rfl⟩
  setSlot _ _ _ := ⟨rfl, rfl, rfl, rfl⟩
  gen _ _ := ⟨rfl, rfl, rfl, rfl⟩

/-- a latched panic is never lost or replaced -/
def Sticky (s t : State) : Prop := ∀ p, s.panic = some p → t.panic = some p

theorem primRel_sticky : PrimRel Sticky where
  refl _ _ h := h
  trans h1 h2 p h := h2 p (h1 p h)
  emit _ _ _ h := h
  fail s p' p h := by unfold Model.CoreSpec.fail; rw [h]; exact h
  setMemo _ _ _ _ _ h := h
  setSMemo _ _ _ _ _ h := h
  setSlot _ _ _ _ h := h
  gen _ _ _ h := h

/-- the event trace only grows -/
def TraceExt (s t : State) : Prop := ∃ l, t.trace = s.trace ++ l

theorem primRel_traceExt : PrimRel TraceExt where
  refl _ := ⟨[], by simp⟩
  trans h1 h2 := by
    obtain ⟨l1, e1⟩ := h1
    obtain ⟨l2, e2⟩ := h2
    exact ⟨l1 ++ l2, by rw [e2, e1, List.append_assoc]⟩
  emit _ e := ⟨[e], rfl⟩
  fail s p := by rcases fail_cases s p with e | e <;> rw [e] <;> exact ⟨[], by simp⟩
  setMemo _ _ _ _ := ⟨[], by simp [Model.CoreSpec.setMemo]⟩
  setSMemo _ _ _ _ := ⟨[], by simp [Model.CoreSpec.setSMemo]⟩
  setSlot _ _ _ := ⟨[], by simp [Model.CoreSpec.setSlot]⟩
  gen _ _ := ⟨[], by simp⟩

/-- nothing is emitted -/
def SameTrace (s t : State) : Prop := t.trace = s.trace

theorem primRel0_sameTrace : PrimRel0 SameTrace where
  refl _ := rfl
  trans h1 h2 := h2.trans h1
  fail s p := by rcases fail_cases s p with e | e <;> rw [e] <;> rfl
  setMemo _ _ _ _ := rfl
  setSMemo _ _ _ _ := rfl
  setSlot _ _ _ := rfl
  gen _ _ := rfl

end SalsaVerif.Proofs.CoreSpec
