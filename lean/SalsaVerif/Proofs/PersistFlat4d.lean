/-
  C26 with flattening: installing a freshly executed memo preserves `J` — part 1, the clauses of
  the new memo.  Core Lean only.
-/
import SalsaVerif.Proofs.PersistFlat4c

namespace SalsaVerif.Proofs.PersistFlat
open SalsaVerif.Model.Core SalsaVerif.Model.Persist SalsaVerif.Proofs.Core SalsaVerif.Proofs.Persist

theorem reach_ne_lt {P inp q k} (hP : Wf P) (hr : Reach P inp q k) (hne : k ≠ q) : k < q := by
  rcases reach_cases hr with e | ⟨k1, hd, hr1⟩
  · exact absurd e hne
  · exact Nat.lt_of_le_of_lt (hr1.le hP) (sdeps_lt hP hd)

theorem memoJ_new {pers P H R0 t q F v} (hP : Wf P) (hJ : J pers P H R0 t) (hx : ExecCtx P t q F v) :
    MemoJ pers P H R0 (setMemo t q (newMemo v t.cur (backdateCa (t.memos q) v F) F.dur F.obs)) q
      (newMemo v t.cur (backdateCa (t.memos q) v F) F.dur F.obs) := by
  have hc : H t.cur = t.inp := hJ.hist.cur hJ.base
  generalize hca : backdateCa (t.memos q) v F = ca'
  have hod : odOf (newMemo v t.cur ca' F.dur F.obs) = sdeps P t.inp q := hx.obs
  have hother : ∀ k, Dep.qry k ∈ sdeps P t.inp q →
      (setMemo t q (newMemo v t.cur ca' F.dur F.obs)).memos k = t.memos k := by
    intro k hk
    exact setMemo_other _ _ _ (Nat.ne_of_lt (sdeps_lt hP hk))
  refine ⟨?_, Nat.le_refl _, hJ.base.cur1, Nat.le_refl _, hx.dur3, ?_, ?_, ?_, ?_, ?_, ?_, ?_, ?_, ?_, ?_, ?_⟩
  · rw [← hca]; exact exec_ca_le hJ hx
  · -- j3
    intro i hi
    simp only [newMemo] at hi ⊢
    rw [hc] at hi ⊢
    obtain ⟨k, hr, hd⟩ := hi
    rcases reach_cases hr with e | ⟨k1, hd1, hr1⟩
    · subst e
      obtain ⟨_, x, hinfo, _, hdur⟩ := hx.hotd _ hd
      simp only [depInfo, Option.some.injEq] at hinfo
      rw [← hinfo] at hdur; exact hdur
    · obtain ⟨hh, x, hinfo, _, hdur⟩ := hx.hotd _ hd1
      obtain ⟨m1, hm1, hv1⟩ := hot_qry hh
      simp only [depInfo, hm1, Option.map, Option.some.injEq] at hinfo
      have hc1 : H m1.va = t.inp := by rw [hv1]; exact hc
      have := (hJ.memo k1 m1 hm1).j3 i (by rw [hc1]; exact ⟨k, hr1, hd⟩)
      rw [hc1] at this
      rw [← hinfo] at hdur
      exact Nat.le_trans hdur this
  · -- j4
    intro i _ ρ h1 h2
    simp only [newMemo] at h1 h2 ⊢
    have : ρ = t.cur := Nat.le_antisymm h2 h1
    rw [this]
  · -- j5
    show CaBnd pers P (H t.cur) (setMemo t q (newMemo v t.cur ca' F.dur F.obs)) q ca'
    rw [hc]
    have := exec_caBnd hP hJ hx
    rw [hca] at this
    refine caBnd_state (s := t) ?_ ?_ this
    · intro i; exact Nat.le_refl _
    intro p mp hmp
    by_cases hpq : p = q
    · subst hpq
      refine ⟨_, setMemo_same _ _ _, ?_⟩
      show mp.ca ≤ ca'
      rw [← hca]; exact exec_mono hP hJ hx mp hmp
    · exact ⟨mp, by rw [setMemo_other _ _ _ hpq]; exact hmp, Nat.le_refl _⟩
  · -- j6
    intro _
    rw [hod]
    simp only [newMemo]
    rw [hc]
    exact cut_direct (fun d hd => hd)
  · -- j7
    intro k hk
    rw [hod] at hk
    show Dep.qry k ∈ sdeps P (H t.cur) q ∧ ∃ mk,
      (setMemo t q (newMemo v t.cur ca' F.dur F.obs)).memos k = some mk ∧ t.cur ≤ mk.va
    rw [hc]
    refine ⟨hk, ?_⟩
    obtain ⟨hh, _⟩ := hx.hotd _ hk
    obtain ⟨mk, hmk, hvk⟩ := hot_qry hh
    exact ⟨mk, by rw [hother k hk]; exact hmk, by rw [hvk]; exact Nat.le_refl _⟩
  · -- j7s
    right
    intro d hd
    rw [hod]
    simp only [newMemo] at hd
    rw [hc] at hd
    exact hd
  · -- j6c
    intro _
    refine CutC.mk (setMemo_same _ _ _) ?_ ?_
    · show Cut P (H t.cur) (odOf (newMemo v t.cur ca' F.dur F.obs)) q
      rw [hod, hc]
      exact cut_direct (fun d hd => hd)
    · intro p hp
      rw [hod] at hp
      obtain ⟨hh, _⟩ := hx.hotd _ hp
      obtain ⟨mp, hmp, hvp⟩ := hot_qry hh
      exact cutC_below hP hJ p (sok_cutC hP hJ p mp hmp (Or.inl hvp)) (sdeps_lt hP hp)
  · -- j8
    intro _ k hk
    rw [hod] at hk
    obtain ⟨hh, x, hinfo, hxc, hxd⟩ := hx.hotd _ hk
    obtain ⟨mk, hmk, hvk⟩ := hot_qry hh
    simp only [depInfo, hmk, Option.map, Option.some.injEq] at hinfo
    refine ⟨mk, by rw [hother k hk]; exact hmk, Or.inl hvk, ?_, ?_⟩
    · rw [← hinfo] at hxc; exact Nat.le_trans hxc hx.ca_le
    · rw [← hinfo] at hxd; exact hxd
  · -- j16
    intro k hr hp
    simp only [newMemo] at hr
    rw [hc] at hr
    by_cases hkq : k = q
    · subst hkq; exact ⟨_, setMemo_same _ _ _⟩
    · obtain ⟨mk, hmk⟩ := below_memo hJ hx k hr hkq hp
      exact ⟨mk, by rw [setMemo_other _ _ _ hkq]; exact hmk⟩
  · -- r0
    intro _; exact hJ.r0
  · -- pc
    intro k mk hr hmk _
    simp only [newMemo] at hr ⊢
    rw [hc] at hr ⊢
    by_cases hkq : k = q
    · subst hkq
      rw [setMemo_same] at hmk
      cases hmk
      exact ⟨hx.val.symm, Nat.le_refl _⟩
    · rw [setMemo_other _ _ _ hkq] at hmk
      exact below_valid hJ hx k mk hr hkq hmk

end SalsaVerif.Proofs.PersistFlat
