/-
  CoreAcc engine (Core stage S2 + accumulators; adapted copy of CoreInv.lean): well-formedness,
  replay / replayAcc, the invariant `Inv` (with the accumulator clauses `repAcc`, `a2`, `a3`), the
  frame relation `Ext`, and the memo-installation lemma `inv_setMemo` (DESIGN.md §3, Appendix A.2).
  Core Lean only.
-/
import SalsaVerif.Model.CoreAcc

namespace SalsaVerif.Proofs.CoreAcc
open SalsaVerif.Model.CoreAcc

inductive WfB (r : Nat) : Body → Prop
  | ret (v) : WfB r (.ret v)
  | read (d k) : (∀ q', d = .qry q' → q' < r) → (∀ v, WfB r (k v)) → WfB r (.read d k)
  | push (v k) : WfB r k → WfB r (.push v k)

def Wf (P : Nat → Body) : Prop := ∀ q, WfB q (P q)

theorem semAt_stable (P inp) : ∀ r q, q < r → semAt P inp r q = sem P inp q := by
  intro r
  induction r with
  | zero => intro q h; omega
  | succ r ih =>
    intro q h
    by_cases hq : q < r
    · have := ih q hq
      simp only [semAt, hq, if_true]
      exact this
    · have : q = r := by omega
      subst this
      rfl

theorem evalB_congr (f g : Dep → Nat) (r : Nat) : ∀ b, WfB r b →
    (∀ i, f (.inp i) = g (.inp i)) → (∀ q, q < r → f (.qry q) = g (.qry q)) → evalB f b = evalB g b := by
  intro b h
  induction h with
  | ret v => intros; rfl
  | read d k hd _ ih =>
    intro h1 h2
    simp only [evalB]
    have : f d = g d := by
      cases d with
      | inp i => exact h1 i
      | qry q => exact h2 q (hd q rfl)
    rw [this]; exact ih _ h1 h2
  | push v k _ ih =>
    intro h1 h2
    simp only [evalB]
    exact ih h1 h2

theorem sem_unfold (P inp) (hP : Wf P) (q : Nat) : sem P inp q = evalB (semDep P inp) (P q) := by
  unfold sem
  simp only [semAt, Nat.lt_irrefl, if_false, if_true]
  apply evalB_congr _ _ q (P q) (hP q)
  · intro i; rfl
  · intro q' hq'; exact semAt_stable P inp q q' hq'

def replay : Body → List (Dep × Nat) → Option Nat
  | .ret v, [] => some v
  | .ret _, _ :: _ => none
  | .read _ _, [] => none
  | .read d k, (d', v) :: rest => if d = d' then replay (k v) rest else none
  | .push _ k, obs => replay k obs

/-- the values the body pushes when its reads return the recorded values -/
def replayAcc : Body → List (Dep × Nat) → List Nat
  | .ret _, _ => []
  | .read _ _, [] => []
  | .read _ k, (_, v) :: rest => replayAcc (k v) rest
  | .push v k, obs => v :: replayAcc k obs

theorem replay_sem (f : Dep → Nat) : ∀ b obs v, replay b obs = some v →
    (∀ d x, (d, x) ∈ obs → f d = x) → evalB f b = v := by
  intro b
  induction b with
  | ret v0 =>
    intro obs v h _
    cases obs with
    | nil => simp [replay] at h; simp [evalB, h]
    | cons _ _ => simp [replay] at h
  | read d k ih =>
    intro obs v h hobs
    cases obs with
    | nil => simp [replay] at h
    | cons hd rest =>
      obtain ⟨d', x⟩ := hd
      simp only [replay] at h
      split at h
      · rename_i hdd
        subst hdd
        have hx : f d = x := hobs d x (by simp)
        simp only [evalB, hx]
        exact ih x rest v h (fun d2 x2 hm => hobs d2 x2 (by simp [hm]))
      · simp at h
  | push v0 k ih =>
    intro obs v h hobs
    simp only [replay] at h
    simp only [evalB]
    exact ih obs v h hobs

/-- replaying against the current semantic values yields the from-scratch pushes -/
theorem replayAcc_sem (f : Dep → Nat) : ∀ b obs v, replay b obs = some v →
    (∀ d x, (d, x) ∈ obs → f d = x) → replayAcc b obs = evalAcc f b := by
  intro b
  induction b with
  | ret v0 => intro obs v _ _; cases obs <;> rfl
  | read d k ih =>
    intro obs v h hobs
    cases obs with
    | nil => simp [replay] at h
    | cons hd rest =>
      obtain ⟨d', x⟩ := hd
      simp only [replay] at h
      split at h
      · rename_i hdd
        subst hdd
        have hx : f d = x := hobs d x (by simp)
        simp only [evalAcc, replayAcc, hx]
        exact ih x rest v h (fun d2 x2 hm => hobs d2 x2 (by simp [hm]))
      · simp at h
  | push v0 k ih =>
    intro obs v h hobs
    simp only [replay] at h
    simp only [evalAcc, replayAcc]
    rw [ih obs v h hobs]

/-- … and the recorded reads of queries are the from-scratch callees, in order -/
theorem calls_sem (f : Dep → Nat) : ∀ b obs v, replay b obs = some v →
    (∀ d x, (d, x) ∈ obs → f d = x) → (obs.map fun p => depCall p.1).flatten = evalCalls f b := by
  intro b
  induction b with
  | ret v0 =>
    intro obs v h _
    cases obs with
    | nil => rfl
    | cons _ _ => simp [replay] at h
  | read d k ih =>
    intro obs v h hobs
    cases obs with
    | nil => simp [replay] at h
    | cons hd rest =>
      obtain ⟨d', x⟩ := hd
      simp only [replay] at h
      split at h
      · rename_i hdd
        subst hdd
        have hx : f d = x := hobs d x (by simp)
        simp only [evalCalls, List.map_cons, List.flatten_cons, hx]
        rw [ih x rest v h (fun d2 x2 hm => hobs d2 x2 (by simp [hm]))]
      · simp at h
  | push v0 k ih =>
    intro obs v h hobs
    simp only [replay] at h
    simp only [evalCalls]
    exact ih obs v h hobs

def obsPairs (l : List Obs) : List (Dep × Nat) := l.map fun o => (o.dep, o.val)

def depInfo (s : State) : Dep → Option Res
  | .inp i => some (s.inp i).res
  | .qry q => (s.memos q).map Memo.res

theorem depInfo_inp_noacc {s i x} (h : depInfo s (.inp i) = some x) : x.hasAcc = false ∧ x.accIn = false := by
  simp only [depInfo, Option.some.injEq] at h
  subst h
  exact ⟨rfl, rfl⟩

theorem hasAcc_false {m : Memo} : m.hasAcc = false ↔ m.acc = [] := by
  cases h : m.acc <;> simp [Memo.hasAcc, h]

def SOK (s : State) (m : Memo) : Prop := m.va = s.cur ∨ lc s m.dur ≤ m.va

def sokDep (s : State) : Dep → Prop
  | .inp _ => True
  | .qry q => ∃ m, s.memos q = some m ∧ SOK s m

def hot (s : State) : Dep → Prop
  | .inp _ => True
  | .qry q => ∃ m, s.memos q = some m ∧ m.va = s.cur

structure MemoOk (P : Nat → Body) (s : State) (q : Nat) (m : Memo) : Prop where
  ca_va : m.ca ≤ m.va
  va_cur : m.va ≤ s.cur
  va1 : 1 ≤ m.va
  deep_va : m.deepAt ≤ m.va
  dur3 : m.dur ≤ 3
  rep : replay (P q) (obsPairs m.obs) = some m.value
  /-- I1 for the accumulated values: they are the pushes of the replayed body -/
  repAcc : replayAcc (P q) (obsPairs m.obs) = m.acc
  i2 : ∀ o, o ∈ m.obs → ∀ r, depInfo s o.dep = some r → r.ca ≤ m.va → r.val = o.val ∧ m.dur ≤ r.dur
  i3 : SOK s m → ∀ o, o ∈ m.obs → (∀ r, depInfo s o.dep = some r → r.ca ≤ m.va) ∧ sokDep s o.dep
  i4 : lc s m.dur ≤ m.deepAt ∨ m.va < lc s m.dur
  i5 : ∀ o q', o ∈ m.obs → o.dep = .qry q' →
        q' < q ∧ ∃ m', s.memos q' = some m' ∧ (o.recd = true → m.deepAt ≤ m'.va)
  i6 : ∀ o, o ∈ m.obs → o.recd = false → ∀ r, depInfo s o.dep = some r → r.val = o.val ∧ 3 ≤ r.dur
  g4 : ∀ w d, (w, d) ∈ s.wlog → m.dur ≤ d → ¬ (m.deepAt < w ∧ w ≤ m.va)
  i10 : ∀ o, o ∈ m.obs → ∀ r, depInfo s o.dep = some r →
        r.ca ≤ m.va ∨ ∃ w d, (w, d) ∈ s.wlog ∧ m.dur ≤ d ∧ m.va < w ∧ w ≤ r.ca
  /-- flag clause: a memo that passes the shallow test and whose `accumulated_inputs` is `Empty`
      has only dependencies without accumulated values and with an `Empty` flag -/
  a2 : SOK s m → m.accIn = false → ∀ o, o ∈ m.obs → ∀ r, depInfo s o.dep = some r →
        r.hasAcc = false ∧ r.accIn = false
  /-- an unrecorded read is of a dependency without accumulated values (and an `Empty` flag) -/
  a3 : ∀ o, o ∈ m.obs → o.recd = false → ∀ r, depInfo s o.dep = some r →
        r.hasAcc = false ∧ r.accIn = false

structure Inv (P : Nat → Body) (s : State) : Prop where
  cur1 : 1 ≤ s.cur
  lc_le : ∀ d, lc s d ≤ s.cur
  lc_ge1 : ∀ d, 1 ≤ lc s d
  lc_anti : ∀ d, lc s (d + 1) ≤ lc s d
  lc_never : ∀ d, 3 ≤ d → lc s d = 1
  inp_le : ∀ i, (s.inp i).ca ≤ s.cur
  inp_ge1 : ∀ i, 1 ≤ (s.inp i).ca
  wlog_lc : ∀ w d, (w, d) ∈ s.wlog → ∀ k, k ≤ d → w ≤ lc s k
  memo : ∀ q m, s.memos q = some m → MemoOk P s q m

theorem lc_mono {P s} (hI : Inv P s) : ∀ d d', d ≤ d' → lc s d' ≤ lc s d := by
  intro d d' h
  induction h with
  | refl => exact Nat.le_refl _
  | step _ ih => exact Nat.le_trans (hI.lc_anti _) ih

structure Ext (s t : State) (r : Nat) : Prop where
  cur : t.cur = s.cur
  lch : t.lch = s.lch
  inp : t.inp = s.inp
  wlog : t.wlog = s.wlog
  above : ∀ q, r ≤ q → t.memos q = s.memos q
  stable : ∀ q m, s.memos q = some m → m.va = s.cur → t.memos q = some m
  mono : ∀ q m, s.memos q = some m → ∃ m', t.memos q = some m' ∧ m.va ≤ m'.va ∧ m.ca ≤ m'.ca
  /-- a memo is either left alone or (re)verified in the current revision -/
  touched : ∀ q, t.memos q = s.memos q ∨ ∃ m', t.memos q = some m' ∧ m'.va = s.cur
  /-- backdating: equal value and no loss of durability keep `changed_at` -/
  bd : ∀ q m m', s.memos q = some m → t.memos q = some m' → m'.value = m.value → m.dur ≤ m'.dur →
    m'.ca = m.ca

theorem Ext.refl (s r) : Ext s s r :=
  ⟨rfl, rfl, rfl, rfl, fun _ _ => rfl, fun _ _ h _ => h, fun _ m h => ⟨m, h, Nat.le_refl _, Nat.le_refl _⟩,
   fun _ => Or.inl rfl, fun _ m m' h h' _ _ => by rw [h] at h'; cases h'; rfl⟩

theorem Ext.trans {s t u r} (h1 : Ext s t r) (h2 : Ext t u r) : Ext s u r := by
  refine ⟨h2.cur.trans h1.cur, h2.lch.trans h1.lch, h2.inp.trans h1.inp, h2.wlog.trans h1.wlog, ?_, ?_, ?_, ?_, ?_⟩
  · intro q hq; rw [h2.above q hq, h1.above q hq]
  · intro q m hm hv
    have := h1.stable q m hm hv
    exact h2.stable q m this (by rw [hv, h1.cur])
  · intro q m hm
    obtain ⟨m1, hm1, a1, b1⟩ := h1.mono q m hm
    obtain ⟨m2, hm2, a2, b2⟩ := h2.mono q m1 hm1
    exact ⟨m2, hm2, Nat.le_trans a1 a2, Nat.le_trans b1 b2⟩
  · intro q
    rcases h2.touched q with e2 | ⟨m', hm', hv'⟩
    · rcases h1.touched q with e1 | ⟨m', hm', hv'⟩
      · exact Or.inl (e2.trans e1)
      · exact Or.inr ⟨m', by rw [e2]; exact hm', hv'⟩
    · exact Or.inr ⟨m', hm', by rw [hv', h1.cur]⟩
  · intro q m m'' hm hm'' hv hd
    rcases h1.touched q with e1 | ⟨m', hm', hv'⟩
    · exact h2.bd q m m'' (by rw [e1]; exact hm) hm'' hv hd
    · have := h2.stable q m' hm' (by rw [hv', h1.cur])
      have e : m'' = m' := by rw [this] at hm''; exact (Option.some.inj hm'').symm
      rw [e] at hv hd ⊢
      exact h1.bd q m m' hm hm' hv hd

theorem Ext.weaken {s t r r'} (h : Ext s t r) (hr : r ≤ r') : Ext s t r' :=
  ⟨h.cur, h.lch, h.inp, h.wlog, fun q hq => h.above q (Nat.le_trans hr hq), h.stable, h.mono, h.touched, h.bd⟩

theorem Ext.lc {s t r} (h : Ext s t r) (d : Nat) : lc t d = lc s d := by
  simp [SalsaVerif.Model.CoreAcc.lc, h.cur, h.lch]

theorem hot_ext {s t r d} (h : Ext s t r) (hd : hot s d) : hot t d := by
  cases d with
  | inp i => trivial
  | qry q =>
    obtain ⟨m, hm, hv⟩ := hd
    exact ⟨m, h.stable q m hm hv, by rw [hv, h.cur]⟩

theorem depInfo_hot_ext {s t r d x} (h : Ext s t r) (hd : hot s d) (hi : depInfo s d = some x) :
    depInfo t d = some x := by
  cases d with
  | inp i => simp only [depInfo] at *; rw [h.inp]; exact hi
  | qry q =>
    obtain ⟨m, hm, hv⟩ := hd
    have := h.stable q m hm hv
    simp only [depInfo, hm, this] at *
    exact hi

@[simp] theorem setMemo_cur (s q m) : (setMemo s q m).cur = s.cur := rfl
@[simp] theorem setMemo_lch (s q m) : (setMemo s q m).lch = s.lch := rfl
@[simp] theorem setMemo_inp (s q m) : (setMemo s q m).inp = s.inp := rfl
@[simp] theorem setMemo_wlog (s q m) : (setMemo s q m).wlog = s.wlog := rfl
@[simp] theorem setMemo_lc (s q m d) : lc (setMemo s q m) d = lc s d := rfl
@[simp] theorem setMemo_same (s q m) : (setMemo s q m).memos q = some m := by simp [setMemo]
theorem setMemo_other (s q m) {p} (h : p ≠ q) : (setMemo s q m).memos p = s.memos p := by simp [setMemo, h]

theorem depInfo_setMemo_other (s q m) {d} (h : d ≠ .qry q) : depInfo (setMemo s q m) d = depInfo s d := by
  cases d with
  | inp i => rfl
  | qry p =>
    have : p ≠ q := fun e => h (by rw [e])
    simp [depInfo, setMemo_other s q m this]

theorem sokDep_setMemo_other (s q m) {d} (h : d ≠ .qry q) : sokDep (setMemo s q m) d ↔ sokDep s d := by
  cases d with
  | inp i => simp [sokDep]
  | qry p =>
    have : p ≠ q := fun e => h (by rw [e])
    simp [sokDep, setMemo_other s q m this, SOK]

/-! ### the event trace is ghost: nothing depends on it -/

@[simp] theorem emit_cur (s e) : (emit s e).cur = s.cur := rfl
@[simp] theorem emit_lch (s e) : (emit s e).lch = s.lch := rfl
@[simp] theorem emit_inp (s e) : (emit s e).inp = s.inp := rfl
@[simp] theorem emit_memos (s e) : (emit s e).memos = s.memos := rfl
@[simp] theorem emit_wlog (s e) : (emit s e).wlog = s.wlog := rfl
@[simp] theorem emit_lc (s e d) : lc (emit s e) d = lc s d := rfl
@[simp] theorem emit_trace (s e) : (emit s e).trace = s.trace ++ [e] := rfl
@[simp] theorem setMemo_trace (s q m) : (setMemo s q m).trace = s.trace := rfl
theorem setMemo_emit (s e q m) : setMemo (emit s e) q m = emit (setMemo s q m) e := rfl

@[simp] theorem depInfo_emit (s e d) : depInfo (emit s e) d = depInfo s d := by cases d <;> rfl
theorem hot_emit (s e d) : hot (emit s e) d ↔ hot s d := by cases d <;> exact Iff.rfl
theorem sokDep_emit (s e d) : sokDep (emit s e) d ↔ sokDep s d := by cases d <;> exact Iff.rfl

theorem memoOk_emit {P s q m} (e : Ev) (ok : MemoOk P s q m) : MemoOk P (emit s e) q m :=
  ⟨ok.ca_va, ok.va_cur, ok.va1, ok.deep_va, ok.dur3, ok.rep, ok.repAcc,
   fun o ho r hi => ok.i2 o ho r (by rw [← depInfo_emit s e]; exact hi),
   fun hs o ho => ⟨fun r hi => (ok.i3 hs o ho).1 r (by rw [← depInfo_emit s e]; exact hi),
                   (sokDep_emit s e _).mpr (ok.i3 hs o ho).2⟩,
   ok.i4, ok.i5,
   fun o ho hr r hi => ok.i6 o ho hr r (by rw [← depInfo_emit s e]; exact hi),
   ok.g4,
   fun o ho r hi => ok.i10 o ho r (by rw [← depInfo_emit s e]; exact hi),
   fun hs ha o ho r hi => ok.a2 hs ha o ho r (by rw [← depInfo_emit s e]; exact hi),
   fun o ho hr r hi => ok.a3 o ho hr r (by rw [← depInfo_emit s e]; exact hi)⟩

theorem inv_emit {P s} (e : Ev) (h : Inv P s) : Inv P (emit s e) :=
  ⟨h.cur1, h.lc_le, h.lc_ge1, h.lc_anti, h.lc_never, h.inp_le, h.inp_ge1, h.wlog_lc,
   fun q m hm => memoOk_emit e (h.memo q m hm)⟩

theorem Ext.emit {s t r} (h : Ext s t r) (e : Ev) : Ext s (Model.CoreAcc.emit t e) r :=
  ⟨h.cur, h.lch, h.inp, h.wlog, h.above, h.stable, h.mono, h.touched, h.bd⟩

theorem ext_emit (s e r) : Ext s (emit s e) r := (Ext.refl s r).emit e

theorem SOK_setMemo (s q m' mp) : SOK (setMemo s q m') mp ↔ SOK s mp := Iff.rfl

theorem sok_of_never {P s m} (hI : Inv P s) (h3 : 3 ≤ m.dur) (hva : 1 ≤ m.va) : SOK s m := by
  right; rw [hI.lc_never m.dur h3]; exact hva

theorem depInfo_qry_same (s : State) (q : Nat) (m' : Memo) {r : Res}
    (h : depInfo (setMemo s q m') (.qry q) = some r) : r = m'.res := by
  simp [depInfo] at h
  exact h.symm

/-- what every observer `(p, o)` of the key `q` needs when the memo `m'` is installed for `q` -/
def ObsNeeds (s : State) (m' mp : Memo) (o : Obs) : Prop :=
  (m'.ca ≤ mp.va → m'.value = o.val ∧ mp.dur ≤ m'.dur) ∧
  (SOK s mp → m'.ca ≤ mp.va) ∧
  (o.recd = false → m'.value = o.val ∧ 3 ≤ m'.dur ∧ m'.hasAcc = false ∧ m'.accIn = false) ∧
  (m'.ca ≤ mp.va ∨ ∃ w d, (w, d) ∈ s.wlog ∧ mp.dur ≤ d ∧ mp.va < w ∧ w ≤ m'.ca) ∧
  (SOK s mp → mp.accIn = false → m'.hasAcc = false ∧ m'.accIn = false)

theorem inv_setMemo {P s q m'} (hI : Inv P s) (hok : MemoOk P (setMemo s q m') q m')
    (hva : m'.va = s.cur)
    (hobs : ∀ p mp o, p ≠ q → s.memos p = some mp → o ∈ mp.obs → o.dep = .qry q → ObsNeeds s m' mp o) :
    Inv P (setMemo s q m') := by
  refine ⟨hI.cur1, hI.lc_le, hI.lc_ge1, hI.lc_anti, hI.lc_never, hI.inp_le, hI.inp_ge1, hI.wlog_lc, ?_⟩
  intro p mp hmp
  by_cases hpq : p = q
  · subst hpq
    simp at hmp; subst hmp; exact hok
  · rw [setMemo_other s q m' hpq] at hmp
    have old := hI.memo p mp hmp
    refine ⟨old.ca_va, old.va_cur, old.va1, old.deep_va, old.dur3, old.rep, old.repAcc, ?_, ?_, old.i4, ?_, ?_,
      old.g4, ?_, ?_, ?_⟩
    · -- i2
      intro o ho r hinfo hc
      by_cases hdq : o.dep = .qry q
      · rw [hdq] at hinfo
        have := depInfo_qry_same s q m' hinfo
        subst this
        exact (hobs p mp o hpq hmp ho hdq).1 hc
      · rw [depInfo_setMemo_other s q m' hdq] at hinfo
        exact old.i2 o ho r hinfo hc
    · -- i3
      intro hs o ho
      have hs' : SOK s mp := hs
      by_cases hdq : o.dep = .qry q
      · refine ⟨?_, ?_⟩
        · intro r hinfo
          rw [hdq] at hinfo
          have := depInfo_qry_same s q m' hinfo
          subst this
          exact (hobs p mp o hpq hmp ho hdq).2.1 hs'
        · rw [hdq]
          exact ⟨m', setMemo_same _ _ _, Or.inl hva⟩
      · obtain ⟨a, b⟩ := old.i3 hs' o ho
        refine ⟨?_, (sokDep_setMemo_other s q m' hdq).mpr b⟩
        intro r hinfo
        rw [depInfo_setMemo_other s q m' hdq] at hinfo
        exact a r hinfo
    · -- i5
      intro o q' ho hd
      obtain ⟨hlt, m2, hm2, hrec⟩ := old.i5 o q' ho hd
      refine ⟨hlt, ?_⟩
      by_cases hq' : q' = q
      · subst hq'
        refine ⟨m', setMemo_same _ _ _, ?_⟩
        intro _
        rw [hva]; exact Nat.le_trans old.deep_va old.va_cur
      · exact ⟨m2, by rw [setMemo_other s q m' hq']; exact hm2, hrec⟩
    · -- i6
      intro o ho hr r hinfo
      by_cases hdq : o.dep = .qry q
      · rw [hdq] at hinfo
        have := depInfo_qry_same s q m' hinfo
        subst this
        have := (hobs p mp o hpq hmp ho hdq).2.2.1 hr
        exact ⟨this.1, this.2.1⟩
      · rw [depInfo_setMemo_other s q m' hdq] at hinfo
        exact old.i6 o ho hr r hinfo
    · -- i10
      intro o ho r hinfo
      by_cases hdq : o.dep = .qry q
      · rw [hdq] at hinfo
        have := depInfo_qry_same s q m' hinfo
        subst this
        exact (hobs p mp o hpq hmp ho hdq).2.2.2.1
      · rw [depInfo_setMemo_other s q m' hdq] at hinfo
        exact old.i10 o ho r hinfo
    · -- a2
      intro hs ha o ho r hinfo
      have hs' : SOK s mp := hs
      by_cases hdq : o.dep = .qry q
      · rw [hdq] at hinfo
        have := depInfo_qry_same s q m' hinfo
        subst this
        exact (hobs p mp o hpq hmp ho hdq).2.2.2.2 hs' ha
      · rw [depInfo_setMemo_other s q m' hdq] at hinfo
        exact old.a2 hs' ha o ho r hinfo
    · -- a3
      intro o ho hr r hinfo
      by_cases hdq : o.dep = .qry q
      · rw [hdq] at hinfo
        have := depInfo_qry_same s q m' hinfo
        subst this
        have := (hobs p mp o hpq hmp ho hdq).2.2.1 hr
        exact this.2.2
      · rw [depInfo_setMemo_other s q m' hdq] at hinfo
        exact old.a3 o ho hr r hinfo

/-- observers are unaffected when value and stamp stay and the durability does not drop — and
    either the accumulator part stays too, or the old memo failed the shallow test (then no
    observer passes it and no observer has an unrecorded edge to it) -/
theorem hobs_same {P s q mo} (hI : Inv P s) (hmo : s.memos q = some mo) (m' : Memo)
    (hv : m'.value = mo.value) (hc : m'.ca = mo.ca) (hd : mo.dur ≤ m'.dur)
    (hacc : (m'.hasAcc = mo.hasAcc ∧ m'.accIn = mo.accIn) ∨ ¬ SOK s mo) :
    ∀ p mp o, p ≠ q → s.memos p = some mp → o ∈ mp.obs → o.dep = .qry q → ObsNeeds s m' mp o := by
  intro p mp o _ hmp ho hdq
  have ok := hI.memo p mp hmp
  have mook := hI.memo q mo hmo
  have hinfo : depInfo s o.dep = some mo.res := by rw [hdq]; simp [depInfo, hmo]
  refine ⟨?_, ?_, ?_, ?_, ?_⟩
  · intro h
    rw [hc] at h
    obtain ⟨a, b⟩ := ok.i2 o ho _ hinfo h
    exact ⟨by rw [hv]; exact a, Nat.le_trans b hd⟩
  · intro hs
    rw [hc]; exact (ok.i3 hs o ho).1 _ hinfo
  · intro hr
    obtain ⟨a, b⟩ := ok.i6 o ho hr _ hinfo
    refine ⟨by rw [hv]; exact a, Nat.le_trans b hd, ?_⟩
    rcases hacc with ⟨h1, h2⟩ | hns
    · rw [h1, h2]; exact ok.a3 o ho hr _ hinfo
    · exact absurd (sok_of_never hI b mook.va1) hns
  · rw [hc]; exact ok.i10 o ho _ hinfo
  · intro hs ha
    rcases hacc with ⟨h1, h2⟩ | hns
    · rw [h1, h2]; exact ok.a2 hs ha o ho _ hinfo
    · have := (ok.i3 hs o ho).2
      rw [hdq] at this
      obtain ⟨m2, hm2, hs2⟩ := this
      rw [hmo] at hm2; cases hm2
      exact absurd hs2 hns

end SalsaVerif.Proofs.CoreAcc
