/-
  W4: `transferred` is a forest and `transferred_dependents` its inverse.  Part 1: vocabulary,
  `undo_transfer_lock`, `unblock_recursive`, and the two primitive forest edits (`unlink` =
  `undo_transfer_lock`, `link`).
-/
import SalsaVerif.Proofs.SyncDGFull

namespace SalsaVerif.Proofs.SyncDG
open SalsaVerif.Model.SyncDG

/-- `Forest` with a list `P` of keys whose `transferred` entry is dangling (their owner's
    dependents entry has already been removed by the running `unblock_recursive`). -/
structure ForestP (s : State) (P : List Nat) : Prop where
  fwd : ∀ k t o, s.transferred k = some (t, o) → k ∈ tdepsL s o ∨ k ∈ P
  bwd : ∀ k o, k ∈ tdepsL s o → ∃ t, s.transferred k = some (t, o)
  nodup : ∀ o, (tdepsL s o).Nodup
  acyclic : ∀ k, ¬ TPath s.transferred k k

theorem _root_.SalsaVerif.Model.SyncDG.Forest.toP {s : State} (h : Forest s) (P : List Nat) : ForestP s P :=
  ⟨fun k t o hk => Or.inl (h.fwd k t o hk), h.bwd, h.nodup, h.acyclic⟩

theorem ForestP.toForest {s : State} (h : ForestP s []) : Forest s :=
  ⟨fun k t o hk => by rcases h.fwd k t o hk with h1 | h1; exact h1; simp at h1, h.bwd, h.nodup, h.acyclic⟩

theorem ForestP.congr {s s' : State} {P : List Nat} (ht : s'.transferred = s.transferred)
    (hd : s'.tdeps = s.tdeps) (h : ForestP s P) : ForestP s' P := by
  have hl : ∀ o, tdepsL s' o = tdepsL s o := by intro o; simp [tdepsL, hd]
  constructor
  · intro k t o hk; rw [ht] at hk; rw [hl]; exact h.fwd k t o hk
  · intro k o hk; rw [hl] at hk; rw [ht]; exact h.bwd k o hk
  · intro o; rw [hl]; exact h.nodup o
  · rw [ht]; exact h.acyclic

theorem _root_.SalsaVerif.Model.SyncDG.Forest.congr {s s' : State} (ht : s'.transferred = s.transferred)
    (hd : s'.tdeps = s.tdeps) (h : Forest s) : Forest s' :=
  ((h.toP []).congr ht hd).toForest

theorem Forest_init : Forest init := by
  constructor <;> simp [init, tdepsL]
  intro k p
  have := p.source_isSome
  simp [tnext] at this

theorem ForestP.weaken {s : State} {P Q : List Nat} (h : ForestP s P) (hsub : ∀ k, k ∈ P → k ∈ Q) :
    ForestP s Q :=
  ⟨fun k t o hk => by
    rcases h.fwd k t o hk with h1 | h1
    · exact Or.inl h1
    · exact Or.inr (hsub k h1), h.bwd, h.nodup, h.acyclic⟩

@[simp] theorem tdepsL_upd_same (s : State) (o : Nat) (v : Option (List Nat)) (tr : Nat → Option (Nat × Nat)) :
    tdepsL { s with transferred := tr, tdeps := upd s.tdeps o v } o = v.getD [] := by
  simp [tdepsL]

theorem tnext_upd (tr : Nat → Option (Nat × Nat)) (k : Nat) (v : Option (Nat × Nat)) :
    tnext (upd tr k v) = upd (tnext tr) k (v.map (·.2)) := by
  funext x
  by_cases h : x = k <;> simp [tnext, upd, h]

theorem tpath_upd_none {tr : Nat → Option (Nat × Nat)} {k a b : Nat}
    (p : TPath (upd tr k none) a b) : TPath tr a b := by
  unfold TPath at p ⊢
  rw [tnext_upd] at p
  exact path_upd_none p

theorem tnext_some {tr : Nat → Option (Nat × Nat)} {k t o : Nat} (h : tr k = some (t, o)) :
    tnext tr k = some o := by simp [tnext, h]

theorem tnext_none {tr : Nat → Option (Nat × Nat)} {k : Nat} (h : tr k = none) :
    tnext tr k = none := by simp [tnext, h]

/-- Only removals from `transferred` / `tdeps`. -/
structure Shrink (s s' : State) : Prop where
  tr : ∀ k, s'.transferred k = s.transferred k ∨ s'.transferred k = none
  td : ∀ o, s'.tdeps o = s.tdeps o ∨ s'.tdeps o = none

theorem Shrink.refl (s : State) : Shrink s s := ⟨fun _ => Or.inl rfl, fun _ => Or.inl rfl⟩

theorem Shrink.of_eq {s s' : State} (ht : s'.transferred = s.transferred) (hd : s'.tdeps = s.tdeps) :
    Shrink s s' := ⟨fun k => Or.inl (by rw [ht]), fun o => Or.inl (by rw [hd])⟩

theorem Shrink.trans {a b c : State} (h1 : Shrink a b) (h2 : Shrink b c) : Shrink a c := by
  constructor
  · intro k
    rcases h2.tr k with h | h
    · rw [h]; exact h1.tr k
    · exact Or.inr h
  · intro o
    rcases h2.td o with h | h
    · rw [h]; exact h1.td o
    · exact Or.inr h

theorem Shrink.mem {s s' : State} (h : Shrink s s') {k o : Nat} (hk : k ∈ tdepsL s' o) :
    k ∈ tdepsL s o := by
  unfold tdepsL at hk ⊢
  rcases h.td o with h1 | h1
  · rwa [h1] at hk
  · rw [h1] at hk; simp at hk

/-! ### frames of the non-transfer functions (no `GInv` needed) -/

theorem unblockAll_sameTD {r : WaitResult} : ∀ (L : List Nat) (s s' : State),
    unblockAll r s L = some s' → SameTD s s' ∧ s'.qdeps = s.qdeps := by
  intro L
  induction L with
  | nil =>
    intro s s' h
    simp only [unblockAll, Option.some.injEq] at h
    subst h; exact ⟨SameTD.refl _, rfl⟩
  | cons t ts ih =>
    intro s s' h
    unfold unblockAll at h
    cases h1 : unblockRuntime s t r with
    | none => simp [h1] at h
    | some s1 =>
      simp only [h1] at h
      obtain ⟨_, rfl⟩ := unblockRuntime_eq h1
      obtain ⟨h2, h3⟩ := ih _ s' h
      exact ⟨⟨h2.1, h2.2, h2.3, h2.4⟩, h3⟩

theorem unblockRuntimesBlockedOn_sameTD {s s' : State} {k : Nat} {r : WaitResult}
    (h : unblockRuntimesBlockedOn s k r = some s') : SameTD s s' := by
  unfold unblockRuntimesBlockedOn at h
  obtain ⟨h1, _⟩ := unblockAll_sameTD _ _ _ h
  exact ⟨h1.1, h1.2, h1.3, h1.4⟩

/-! ### `undo_transfer_lock` = unlink -/

theorem undoTransferLock_eq {s s' : State} {k : Nat} (h : undoTransferLock s k = some s') :
    (s.transferred k = none ∧ s' = s) ∨
    (∃ t o l, s.transferred k = some (t, o) ∧ s.tdeps o = some l ∧
      s' = { s with transferred := upd s.transferred k none,
                    tdeps := upd s.tdeps o (some (smallSetRemove l k)) }) := by
  unfold undoTransferLock at h
  cases hk : s.transferred k with
  | none =>
    simp only [hk, Option.some.injEq] at h
    exact Or.inl ⟨rfl, h.symm⟩
  | some p =>
    obtain ⟨t, o⟩ := p
    simp only [hk] at h
    obtain ⟨l, hl, rfl⟩ := tdepsRemove_eq h
    exact Or.inr ⟨t, o, l, rfl, hl, rfl⟩

theorem tdepsL_of_tdeps {s : State} {o : Nat} {l : List Nat} (h : s.tdeps o = some l) :
    tdepsL s o = l := by simp [tdepsL, h]

/-- Membership in the dependents lists after one entry has been overwritten. -/
theorem mem_tdepsL_upd {s s' : State} {o : Nat} {L : List Nat}
    (hd : s'.tdeps = upd s.tdeps o (some L)) (x o' : Nat) :
    x ∈ tdepsL s' o' ↔ (o' = o ∧ x ∈ L) ∨ (o' ≠ o ∧ x ∈ tdepsL s o') := by
  unfold tdepsL
  rw [hd]
  by_cases h : o' = o
  · subst h; simp
  · rw [upd_other _ _ _ _ h]; simp [h]

theorem undoTransferLock_forest {s s' : State} {k : Nat} (hf : Forest s)
    (h : undoTransferLock s k = some s') :
    Forest s' ∧ (∀ o, k ∉ tdepsL s' o) ∧ s'.transferred k = none := by
  rcases undoTransferLock_eq h with ⟨hk, rfl⟩ | ⟨t, o, l, hk, hl, rfl⟩
  · refine ⟨hf, ?_, hk⟩
    intro o hm
    obtain ⟨t, ht⟩ := hf.bwd k o hm
    rw [hk] at ht; cases ht
  · have hlo : tdepsL s o = l := tdepsL_of_tdeps hl
    have hnd : l.Nodup := hlo ▸ hf.nodup o
    obtain ⟨rnd, rmem⟩ := smallSetRemove_spec l k hnd
    have hmem := fun x o' => mem_tdepsL_upd
      (s := s) (s' := { s with transferred := upd s.transferred k none,
                                tdeps := upd s.tdeps o (some (smallSetRemove l k)) }) rfl x o'
    refine ⟨⟨?_, ?_, ?_, ?_⟩, ?_, by simp⟩
    · intro x t' o' hx
      simp only at hx
      have hxk : x ≠ k := by rintro rfl; simp at hx
      rw [upd_other _ _ _ _ hxk] at hx
      have := hf.fwd x t' o' hx
      rw [hmem]
      by_cases ho : o' = o
      · subst ho
        exact Or.inl ⟨rfl, (rmem x).mpr ⟨hlo ▸ this, hxk⟩⟩
      · exact Or.inr ⟨ho, this⟩
    · intro x o' hx
      rw [hmem] at hx
      simp only
      rcases hx with ⟨rfl, hx⟩ | ⟨ho, hx⟩
      · obtain ⟨hx1, hx2⟩ := (rmem x).mp hx
        rw [upd_other _ _ _ _ hx2]
        exact hf.bwd x o' (hlo ▸ hx1)
      · have hxk : x ≠ k := by
          rintro rfl
          obtain ⟨t', ht'⟩ := hf.bwd x o' hx
          rw [hk] at ht'
          cases ht'
          exact ho rfl
        rw [upd_other _ _ _ _ hxk]
        exact hf.bwd x o' hx
    · intro o'
      by_cases ho : o' = o
      · subst ho; simp only [tdepsL_upd_same, Option.getD_some]; exact rnd
      · have : tdepsL { s with transferred := upd s.transferred k none,
                                tdeps := upd s.tdeps o (some (smallSetRemove l k)) } o' = tdepsL s o' := by
          simp [tdepsL, upd_other _ _ _ _ ho]
        rw [this]; exact hf.nodup o'
    · intro x p
      exact hf.acyclic x (tpath_upd_none p)
    · intro o' hm
      rw [hmem] at hm
      rcases hm with ⟨rfl, hm⟩ | ⟨ho, hm⟩
      · exact ((rmem k).mp hm).2 rfl
      · obtain ⟨t', ht'⟩ := hf.bwd k o' hm
        rw [hk] at ht'
        cases ht'
        exact ho rfl

/-! ### `unblock_recursive` -/

theorem unblockRecursive_forest {r : WaitResult} : ∀ (fuel : Nat) (s s' : State) (q : Nat) (P : List Nat),
    ForestP s (q :: P) → (∀ o, q ∉ tdepsL s o) → unblockRecursive r fuel s q = some s' →
    ForestP s' P ∧ Shrink s s' := by
  intro fuel
  induction fuel with
  | zero => intro s s' q P _ _ h; simp [unblockRecursive] at h
  | succ n ih =>
    intro s s' q P hf hq h
    unfold unblockRecursive at h
    simp only at h
    -- state after the two removals; the children of `q` become dangling
    generalize hs1 : ({ s with transferred := upd s.transferred q none, tdeps := upd s.tdeps q none } : State) = s1 at h
    have htr1 : s1.transferred = upd s.transferred q none := by subst hs1; rfl
    have htd1 : s1.tdeps = upd s.tdeps q none := by subst hs1; rfl
    have hl1 : ∀ o, o ≠ q → tdepsL s1 o = tdepsL s o := by
      intro o ho; simp [tdepsL, htd1, upd_other _ _ _ _ ho]
    have hl1q : tdepsL s1 q = [] := by simp [tdepsL, htd1]
    have hsh1 : Shrink s s1 := by
      constructor
      · intro k; rw [htr1]
        by_cases hk : k = q
        · subst hk; exact Or.inr (by simp)
        · exact Or.inl (by rw [upd_other _ _ _ _ hk])
      · intro o; rw [htd1]
        by_cases ho : o = q
        · subst ho; exact Or.inr (by simp)
        · exact Or.inl (by rw [upd_other _ _ _ _ ho])
    have hf1 : ForestP s1 (tdepsL s q ++ P) := by
      constructor
      · intro k t o hk
        rw [htr1] at hk
        have hkq : k ≠ q := by rintro rfl; simp at hk
        rw [upd_other _ _ _ _ hkq] at hk
        rcases hf.fwd k t o hk with h1 | h1
        · by_cases ho : o = q
          · subst ho; exact Or.inr (by simp [h1])
          · exact Or.inl (by rw [hl1 o ho]; exact h1)
        · simp only [List.mem_cons] at h1
          rcases h1 with h1 | h1
          · exact absurd h1 hkq
          · exact Or.inr (by simp [h1])
      · intro k o hk
        have ho : o ≠ q := by rintro rfl; rw [hl1q] at hk; simp at hk
        rw [hl1 o ho] at hk
        have hkq : k ≠ q := by rintro rfl; exact hq o hk
        rw [htr1, upd_other _ _ _ _ hkq]
        exact hf.bwd k o hk
      · intro o
        by_cases ho : o = q
        · subst ho; rw [hl1q]; exact List.nodup_nil
        · rw [hl1 o ho]; exact hf.nodup o
      · intro k p
        rw [htr1] at p
        exact hf.acyclic k (tpath_upd_none p)
    have hpre1 : ∀ d, d ∈ tdepsL s q → ∀ o, d ∉ tdepsL s1 o := by
      intro d hd o hm
      have ho : o ≠ q := by rintro rfl; rw [hl1q] at hm; simp at hm
      rw [hl1 o ho] at hm
      obtain ⟨t1, h1⟩ := hf.bwd d o hm
      obtain ⟨t2, h2⟩ := hf.bwd d q hd
      rw [h1] at h2
      cases h2
      exact ho rfl
    -- the loop over the children
    have loop : ∀ (rest : List Nat) (a b : State), ForestP a (rest ++ P) →
        (∀ d, d ∈ rest → ∀ o, d ∉ tdepsL a o) →
        forEachDep (fun s q =>
          match unblockRuntimesBlockedOn s q r with
          | none => none
          | some s' => unblockRecursive r n s' q) a rest = some b →
        ForestP b P ∧ Shrink a b := by
      intro rest
      induction rest with
      | nil =>
        intro a b ha _ hb
        simp only [forEachDep, Option.some.injEq] at hb
        subst hb
        exact ⟨by simpa using ha, Shrink.refl a⟩
      | cons d ds ihl =>
        intro a b ha hpre hb
        unfold forEachDep at hb
        cases h2 : unblockRuntimesBlockedOn a d r with
        | none => simp [h2] at hb
        | some a1 =>
          simp only [h2] at hb
          have same := unblockRuntimesBlockedOn_sameTD h2
          cases h3 : unblockRecursive r n a1 d with
          | none => simp [h3] at hb
          | some a2 =>
            simp only [h3] at hb
            have hl : ∀ o, tdepsL a1 o = tdepsL a o := by intro o; simp [tdepsL, same.tdeps]
            have ha1 : ForestP a1 (d :: (ds ++ P)) := ha.congr same.transferred same.tdeps
            obtain ⟨f2, sh2⟩ := ih a1 a2 d (ds ++ P) ha1
              (by intro o; rw [hl]; exact hpre d (by simp) o) h3
            have sh : Shrink a a2 := (Shrink.of_eq same.transferred same.tdeps).trans sh2
            obtain ⟨f3, sh3⟩ := ihl a2 b f2
              (by intro d' hd' o hm; exact hpre d' (by simp [hd']) o (sh.mem hm)) hb
            exact ⟨f3, sh.trans sh3⟩
    obtain ⟨f, sh⟩ := loop _ s1 s' hf1 hpre1 h
    exact ⟨f, hsh1.trans sh⟩

theorem unblockTransferredOwnedBy_forest {s s' : State} {k : Nat} {r : WaitResult} (hf : Forest s)
    (h : unblockTransferredOwnedBy s k r = some s') : Forest s' := by
  unfold unblockTransferredOwnedBy at h
  cases h1 : undoTransferLock s k with
  | none => simp [h1] at h
  | some s1 =>
    simp only [h1] at h
    obtain ⟨f1, hk, _⟩ := undoTransferLock_forest hf h1
    exact (unblockRecursive_forest _ _ _ _ [] (f1.toP _) hk h).1.toForest

/-! ### `link`: inserting one edge into the forest -/

/-- `transferred[k] := (t, n); transferred_dependents[n].push(k)`. -/
def link (s : State) (k t n : Nat) : State :=
  { s with transferred := upd s.transferred k (some (t, n)),
           tdeps := upd s.tdeps n (some (tdepsL s n ++ [k])) }

theorem link_forest {s : State} {k t n : Nat} (hf : Forest s) (hk : s.transferred k = none)
    (hne : n ≠ k) (hnp : ¬ TPath s.transferred n k) : Forest (link s k t n) := by
  have hkn : ∀ o, k ∉ tdepsL s o := by
    intro o hm
    obtain ⟨t', ht'⟩ := hf.bwd k o hm
    rw [hk] at ht'; cases ht'
  have hmem := fun x o' => mem_tdepsL_upd (s := s) (s' := link s k t n) (o := n)
    (L := tdepsL s n ++ [k]) rfl x o'
  refine ⟨?_, ?_, ?_, ?_⟩
  · intro x t' o' hx
    simp only [link] at hx
    rw [hmem]
    by_cases hxk : x = k
    · subst hxk
      simp only [upd_same, Option.some.injEq, Prod.mk.injEq] at hx
      obtain ⟨_, rfl⟩ := hx
      exact Or.inl ⟨rfl, by simp⟩
    · rw [upd_other _ _ _ _ hxk] at hx
      have := hf.fwd x t' o' hx
      by_cases ho : o' = n
      · subst ho; exact Or.inl ⟨rfl, by simp [this]⟩
      · exact Or.inr ⟨ho, this⟩
  · intro x o' hx
    rw [hmem] at hx
    simp only [link]
    rcases hx with ⟨rfl, hx⟩ | ⟨ho, hx⟩
    · simp only [List.mem_append, List.mem_singleton] at hx
      rcases hx with hx | rfl
      · have hxk : x ≠ k := by rintro rfl; exact hkn _ hx
        rw [upd_other _ _ _ _ hxk]; exact hf.bwd x o' hx
      · exact ⟨t, by simp⟩
    · have hxk : x ≠ k := by rintro rfl; exact hkn _ hx
      rw [upd_other _ _ _ _ hxk]; exact hf.bwd x o' hx
  · intro o'
    by_cases ho : o' = n
    · subst ho
      have : tdepsL (link s k t o') o' = tdepsL s o' ++ [k] := by simp [link, tdepsL]
      rw [this, List.nodup_append]
      refine ⟨hf.nodup o', by simp, ?_⟩
      intro a ha b hb
      simp at hb; subst hb
      rintro rfl
      exact hkn _ ha
    · have : tdepsL (link s k t n) o' = tdepsL s o' := by simp [link, tdepsL, upd_other _ _ _ _ ho]
      rw [this]; exact hf.nodup o'
  · intro x p
    unfold TPath at p hnp
    simp only [link] at p
    rw [tnext_upd] at p
    exact acyclic_upd_some hf.acyclic hne hnp x p

end SalsaVerif.Proofs.SyncDG
