/-
  C26 with flattening: what `collect_minimum_serialized_edges` (`cmse`, `flattenObs`) does to the
  flattened list — operational part.  `Done fl k`: the walk into `k` is complete: every input edge of
  `k`'s memo is in `fl`, every function edge is in `fl` or `Done` itself.  Core Lean only.
-/
import SalsaVerif.Proofs.PersistFlat7b

namespace SalsaVerif.Proofs.PersistFlat
open SalsaVerif.Model.Core SalsaVerif.Model.Persist SalsaVerif.Proofs.Core SalsaVerif.Proofs.Persist

inductive Done (s : State) (fl : List Obs) : Nat → Prop
  | mk {k : Nat} {mk : Memo} : s.memos k = some mk →
      (∀ o, o ∈ mk.obs → ∀ i, o.dep = .inp i → hasDep fl (.inp i) = true) →
      (∀ o, o ∈ mk.obs → ∀ p, o.dep = .qry p → hasDep fl (.qry p) = false → Done s fl p) →
      Done s fl k

theorem hasDep_append {l e : List Obs} {d : Dep} (h : hasDep l d = true) : hasDep (l ++ e) d = true := by
  simp only [hasDep, List.any_append, Bool.or_eq_true] at *
  exact Or.inl h

theorem hasDep_iff {l : List Obs} {d : Dep} : hasDep l d = true ↔ d ∈ l.map (·.dep) := by
  simp only [hasDep, List.any_eq_true, decide_eq_true_eq, List.mem_map]

theorem Done.mono {s fl fl'} (h : ∀ d, hasDep fl d = true → hasDep fl' d = true) :
    ∀ k, Done s fl k → Done s fl' k := by
  intro k hk
  induction hk with
  | mk hm hi _ ih =>
    refine Done.mk hm (fun o ho i hd => h _ (hi o ho i hd)) ?_
    intro o ho p hd hf
    apply ih o ho p hd
    cases hc : hasDep fl (.qry p) with
    | false => rfl
    | true => rw [h _ hc] at hf; cases hf

/-- visited functions are ancestors of the walk in progress or complete -/
structure VisOK (s : State) (a : FAcc) (anc : List Nat) : Prop where
  isq : ∀ d, d ∈ a.visited → ∃ k, d = .qry k
  cov : ∀ k, Dep.qry k ∈ a.visited → k ∈ anc ∨ Done s a.flat k

/-- what one step of a walk over the edges of `j` establishes -/
structure StepD (s : State) (anc : List Nat) (a a' : FAcc) (o : Obs) : Prop where
  ext : ∃ e, a'.flat = a.flat ++ e
  vis : VisOK s a' anc
  inp : ∀ i, o.dep = .inp i → hasDep a'.flat (.inp i) = true
  qry : ∀ p, o.dep = .qry p → hasDep a'.flat (.qry p) = true ∨ Done s a'.flat p

theorem walkD {s anc} (f : FAcc → Obs → FAcc) : ∀ (l : List Obs) (a : FAcc), VisOK s a anc →
    (∀ a o, o ∈ l → VisOK s a anc → StepD s anc a (f a o) o) →
    (∃ e, (l.foldl f a).flat = a.flat ++ e) ∧ VisOK s (l.foldl f a) anc ∧
    (∀ o, o ∈ l → ∀ i, o.dep = .inp i → hasDep (l.foldl f a).flat (.inp i) = true) ∧
    (∀ o, o ∈ l → ∀ p, o.dep = .qry p → hasDep (l.foldl f a).flat (.qry p) = true ∨ Done s (l.foldl f a).flat p) := by
  intro l
  induction l with
  | nil => intro a hv _; exact ⟨⟨[], by simp⟩, hv, (fun o ho => by cases ho), (fun o ho => by cases ho)⟩
  | cons o rest ih =>
    intro a hv hstep
    have st := hstep a o (by simp) hv
    obtain ⟨⟨e2, he2⟩, v2, i2, q2⟩ := ih (f a o) st.vis (fun a' o' ho' => hstep a' o' (by simp [ho']))
    obtain ⟨e1, he1⟩ := st.ext
    simp only [List.foldl_cons]
    have hmono : ∀ d, hasDep (f a o).flat d = true → hasDep (rest.foldl f (f a o)).flat d = true := by
      intro d hd; rw [he2]; exact hasDep_append hd
    refine ⟨⟨e1 ++ e2, by rw [he2, he1, List.append_assoc]⟩, v2, ?_, ?_⟩
    · intro o' ho' i hd
      simp only [List.mem_cons] at ho'
      rcases ho' with e | e
      · subst e; exact hmono _ (st.inp i hd)
      · exact i2 o' e i hd
    · intro o' ho' p hd
      simp only [List.mem_cons] at ho'
      rcases ho' with e | e
      · subst e
        rcases st.qry p hd with h | h
        · exact Or.inl (hmono _ h)
        · exact Or.inr (Done.mono hmono p h)
      · exact q2 o' e p hd

theorem visOK_ext {s a a' anc} (hv : VisOK s a anc) (hvis : a'.visited = a.visited)
    (hext : ∃ e, a'.flat = a.flat ++ e) : VisOK s a' anc := by
  obtain ⟨e, he⟩ := hext
  refine ⟨fun d hd => hv.isq d (hvis ▸ hd), ?_⟩
  intro k hk
  rcases hv.cov k (hvis ▸ hk) with h | h
  · exact Or.inl h
  · exact Or.inr (Done.mono (fun d hd => by rw [he]; exact hasDep_append hd) k h)

end SalsaVerif.Proofs.PersistFlat
