/-
  Every step of the C16 client layer preserves `CInv`.
-/
import SalsaVerif.Proofs.SyncClientInv

namespace SalsaVerif.Proofs.SyncClient
open SalsaVerif.Model.SyncDG SalsaVerif.Model.SyncExec SalsaVerif.Model.SyncClient
open SalsaVerif.Proofs.SyncDG SalsaVerif.Proofs.SyncExec

/-! ### sequential evaluation -/

theorem evalF_step (p : Program) (hwf : p.wf) : ∀ (n k : Nat), p.rank k < n →
    evalF p n k = evalF p (n + 1) k := by
  intro n
  induction n with
  | zero => intro k h; omega
  | succ n ih =>
    intro k hk
    show p.f k ((p.deps k).map (evalF p n)) = p.f k ((p.deps k).map (evalF p (n + 1)))
    congr 1
    apply List.map_congr_left
    intro d hd
    have := hwf k d hd
    exact ih d (by omega)

theorem evalF_stable (p : Program) (hwf : p.wf) (n k : Nat) (h : p.rank k < n) :
    ∀ m, evalF p n k = evalF p (n + m) k := by
  intro m
  induction m with
  | zero => rfl
  | succ m ih =>
    rw [ih]
    exact evalF_step p hwf (n + m) k (by omega)

theorem eval_eq (p : Program) (hwf : p.wf) (k : Nat) :
    eval p k = p.f k ((p.deps k).map (eval p)) := by
  show p.f k ((p.deps k).map (evalF p (p.rank k))) = _
  congr 1
  apply List.map_congr_left
  intro d hd
  have hlt := hwf k d hd
  obtain ⟨m, hm⟩ := Nat.le.dest (Nat.succ_le_of_lt hlt)
  show evalF p (p.rank k) d = evalF p (p.rank d + 1) d
  rw [← hm]
  exact (evalF_stable p hwf (p.rank d + 1) d (by omega) m).symm

/-! ### pop (the claim on the top frame's key is released) -/

theorem pairwise_head_ne {p : Program} {a : Nat} {l : List Nat}
    (h : (a :: l).Pairwise (fun x y => p.rank x < p.rank y)) : a ∉ l := by
  intro hm
  have := (List.pairwise_cons.mp h).1 a hm
  omega

theorem pop_cinv {p : Program} {c : CState} {t : Nat} {fr : Frame} {rest : List Frame} {x' : XState}
    (h : CInv p c) (hst : c.stack t = fr :: rest) (hw : c.want t = none)
    (hx : xstep c.x (.proto (.release t fr.key .completed)) = some x') :
    CInv p { c with x := x', stack := upd c.stack t rest } ∧ x'.base.edges t = none := by
  obtain ⟨_, b, hb, rfl⟩ := xstep_proto hx
  obtain ⟨hi, _, eff⟩ := release_cases h.x.base hb
  have hsorted := (h.loc t).sorted
  rw [held_cons hst] at hsorted
  have hkn : fr.key ∉ rest.map (·.key) := pairwise_head_ne hsorted
  have hedge : b.edges t = none := by
    by_cases hm : t ∈ c.x.base.qdeps fr.key
    · exact (eff.delivered t hm).2
    · rw [(eff.others t hm).2]; exact (idle_iff.mp hi).1
  have hheld_t : held ({ c with x := { c.x with base := b }, stack := upd c.stack t rest } : CState) t
      = rest.map (·.key) := by simp [held]
  have hheld_o : ∀ u, u ≠ t →
      held ({ c with x := { c.x with base := b }, stack := upd c.stack t rest } : CState) u = held c u := by
    intro u hu; simp [held, upd_other _ _ _ _ hu]
  refine ⟨⟨xstep_inv h.x hx, step_binv h.x.base.g h.b hb, ?_, ?_, h.memo, ?_⟩, hedge⟩
  · intro u k'
    show ownedBy b k' u = true ↔ _
    by_cases hk : k' = fr.key
    · subst hk
      have hl : ownedBy b fr.key u = false := by simp [ownedBy, eff.sync]
      rw [hl]
      constructor
      · intro hf; cases hf
      · intro hm
        exfalso
        by_cases hut : u = t
        · subst hut; rw [hheld_t] at hm; exact hkn hm
        · rw [hheld_o u hut] at hm
          have hmt : fr.key ∈ held c t := by rw [held_cons hst]; simp
          exact hut (held_disjoint h hm hmt)
    · have hl : ownedBy b k' u = ownedBy c.x.base k' u := by
        simp [ownedBy, eff.sync, upd_other _ _ _ _ hk]
      rw [hl, h.own u k']
      by_cases hut : u = t
      · subst hut
        rw [hheld_t, held_cons hst]
        simp [hk]
      · rw [hheld_o u hut]
  · intro u hu
    simp only at hu ⊢
    have hnm : u ∉ c.x.base.qdeps fr.key := by
      intro hm
      rw [(eff.delivered u hm).2] at hu; simp at hu
    rw [(eff.others u hnm).2] at hu
    obtain ⟨k', hk', hq⟩ := h.blocked u hu
    have hkk : k' ≠ fr.key := by rintro rfl; exact hnm hq
    exact ⟨k', hk', by rw [eff.qdeps, upd_other _ _ _ _ hkk]; exact hq⟩
  · intro u
    by_cases hut : u = t
    · subst hut
      have hl := h.loc u
      have hsub : ∀ fr', fr' ∈ rest → fr' ∈ c.stack u := by
        intro fr' hf; rw [hst]; simp [hf]
      constructor
      · intro k' hk'; simp only at hk'; rw [hw] at hk'; cases hk'
      · rw [hheld_t]; exact (List.pairwise_cons.mp hsorted).2
      · intro fr' hf; simp only [upd_same] at hf; exact hl.exec fr' (hsub fr' hf)
      · intro fr' hf hd; simp only [upd_same] at hf; exact hl.flags fr' (hsub fr' hf) hd
      · intro k' fr' rest' hk'; simp only at hk'; rw [hw] at hk'; cases hk'
      · simp only [upd_same]; exact chainOk_tail (hst ▸ hl.chain)
      · intro fr' hf; simp only [upd_same] at hf; exact hl.vals fr' (hsub fr' hf)
      · have hr := hl.root
        simp only [rootKey, hst] at hr
        simp only [rootKey, upd_same]
        cases rest with
        | nil => left; simp [hw]
        | cons fr2 r =>
          rw [List.getLast?_cons_cons] at hr
          exact hr
      · exact hl.res
    · refine LInv_other (h.loc u) ?_ rfl rfl rfl (fun _ _ => rfl) (fun _ _ hm => hm)
      simp only; rw [upd_other _ _ _ _ hut]

/-- Releasing the top frame's key and handing its (memoised) value to the caller. -/
theorem popDeliver_cinv {p : Program} {c : CState} {t : Nat} {fr : Frame} {rest : List Frame} {x' : XState}
    (h : CInv p c) (hst : c.stack t = fr :: rest) (hw : c.want t = none)
    (hm : c.x.memo fr.key = true)
    (hx : xstep c.x (.proto (.release t fr.key .completed)) = some x') :
    CInv p (deliver { c with x := x', stack := upd c.stack t rest } t (c.val fr.key)) := by
  obtain ⟨h1, he⟩ := pop_cinv h hst hw hx
  have hl := h.loc t
  refine deliver_cinv (k := fr.key) h1 he (h.memo _ hm) ?_ ?_
  · intro fr2 r hs2
    simp only [upd_same] at hs2
    subst hs2
    have := hl.chain
    rw [hst] at this
    exact ⟨this.1, this.2.1, this.2.2.1⟩
  · intro hs2
    simp only [upd_same] at hs2
    subst hs2
    have hr := hl.root
    simp only [rootKey, hst, List.getLast?_singleton] at hr
    rcases hr with hr | hr
    · cases hr
    · exact hr.symm

/-! ### the steps -/

theorem cstep_cinv {p : Program} (hwf : p.wf) {c c' : CState} {op : COp} (h : CInv p c)
    (hs : cstep p c op = some c') : CInv p c' := by
  cases op with
  | request t k =>
    simp only [cstep] at hs
    split at hs
    · rename_i hc
      simp only [Option.some.injEq] at hs
      subst hs
      simp only [Bool.and_eq_true, Option.isNone_iff_eq_none, List.isEmpty_iff] at hc
      obtain ⟨⟨hi, hw⟩, hst⟩ := hc
      refine ⟨h.x, h.b, h.own, ?_, h.memo, ?_⟩
      · intro u hu
        obtain ⟨k', hk', hq⟩ := h.blocked u hu
        have hut : u ≠ t := by
          rintro rfl
          rw [(idle_iff.mp hi).1] at hu; simp at hu
        exact ⟨k', by simp only; rw [upd_other _ _ _ _ hut]; exact hk', hq⟩
      · intro u
        by_cases hut : u = t
        · subst hut
          have hl := h.loc u
          have hh : held ({ c with want := upd c.want u (some k), asked := upd c.asked u (some k), result := upd c.result u none } : CState) u = [] := by
            simp [held, hst]
          constructor
          · intro k' _ k'' hk''; rw [hh] at hk''; simp at hk''
          · rw [hh]; exact List.Pairwise.nil
          · intro fr hf; simp only [hst] at hf; simp at hf
          · intro fr hf; simp only [hst] at hf; simp at hf
          · intro k' fr rest _ hs'; simp only [hst] at hs'; cases hs'
          · simp only [hst]; trivial
          · intro fr hf; simp only [hst] at hf; simp at hf
          · right; simp [rootKey, hst]
          · intro v hv; simp at hv
        · refine LInv_other (h.loc u) rfl ?_ ?_ ?_ (fun _ _ => rfl) (fun _ _ hm => hm)
          · simp only; rw [upd_other _ _ _ _ hut]
          · simp only; rw [upd_other _ _ _ _ hut]
          · simp only; rw [upd_other _ _ _ _ hut]
    · cases hs
  | hot t =>
    simp only [cstep] at hs
    cases hw : c.want t with
    | none => simp [hw] at hs
    | some k =>
      simp only [hw] at hs
      split at hs
      · rename_i hc
        simp only [Option.some.injEq] at hs
        subst hs
        simp only [Bool.and_eq_true] at hc
        have hl := h.loc t
        refine deliver_cinv (k := k) h (idle_iff.mp hc.1).1 (h.memo k hc.2) ?_ ?_
        · intro fr rest hst; exact hl.wantTop k fr rest hw hst
        · intro hst
          have hr := hl.root
          simp only [rootKey, hst, List.getLast?_nil, hw] at hr
          rcases hr with hr | hr
          · cases hr
          · exact hr.symm
      · cases hs
  | tryClaim t =>
    simp only [cstep] at hs
    cases hw : c.want t with
    | none => simp [hw] at hs
    | some k =>
      simp only [hw] at hs
      cases hst : stepA c.x.base (.claim t k true true) with
      | none => simp [hst] at hs
      | some pr =>
        obtain ⟨b, ans⟩ := pr
        obtain ⟨hi, hres, hcase⟩ := claim_cases h.x.base hst
        have hxs : xstep c.x (.proto (.claim t k true true)) = some { c.x with base := b } := by
          simp [xstep, protoOk, step, hst]
        have hxi := xstep_inv h.x hxs
        have hbi : BInv b := stepA_binv h.x.base.g h.b hst
        have hl := h.loc t
        cases hcase with
        | claimed ha hk hsy he hq =>
          subst ha
          simp only [hst, Option.some.injEq] at hs
          subst hs
          have hexk : c.x.executing k = none := by
            cases hex : c.x.executing k with
            | none => rfl
            | some u' =>
              have := h.x.owner k u' hex
              simp [ownedBy, hk] at this
          have hnk : ∀ u, k ∉ held c u := by
            intro u hm
            have := (h.own u k).mpr hm
            simp [ownedBy, hk] at this
          refine ⟨hxi, hbi, ?_, ?_, h.memo, ?_⟩
          · intro u k'
            show ownedBy b k' u = true ↔ _
            by_cases hkk : k' = k
            · subst hkk
              have hl1 : ownedBy b k' u = true ↔ u = t := by
                simp only [ownedBy, hsy, upd_same, freshClaim, decide_eq_true_eq, SyncOwner.thread.injEq]
                exact eq_comm
              rw [hl1]
              by_cases hut : u = t
              · subst hut; simp [held]
              · simp only [hut, false_iff]
                intro hm
                apply hnk u
                simpa [held, upd_other _ _ _ _ hut] using hm
            · have hl1 : ownedBy b k' u = ownedBy c.x.base k' u := by
                simp [ownedBy, hsy, upd_other _ _ _ _ hkk]
              rw [hl1, h.own u k']
              by_cases hut : u = t
              · subst hut; simp [held, hkk]
              · simp [held, upd_other _ _ _ _ hut]
          · intro u hu
            simp only at hu ⊢
            rw [he] at hu
            obtain ⟨k', hk', hq'⟩ := h.blocked u hu
            have hut : u ≠ t := by
              rintro rfl
              rw [(idle_iff.mp hi).1] at hu; simp at hu
            exact ⟨k', by rw [upd_other _ _ _ _ hut]; exact hk', by rw [hq]; exact hq'⟩
          · intro u
            by_cases hut : u = t
            · subst hut
              have hmem : ∀ fr', fr' ∈ ({ key := k, pc := 0, vals := [], started := false, done := false } : Frame) :: c.stack u →
                  fr' = { key := k, pc := 0, vals := [], started := false, done := false } ∨ fr' ∈ c.stack u := by
                intro fr' hf; simpa using hf
              constructor
              · intro k' hk'; simp at hk'
              · simp only [held, upd_same, List.map_cons]
                rw [List.pairwise_cons]
                exact ⟨fun k' hk' => hl.desc k hw k' hk', hl.sorted⟩
              · intro fr' hf
                simp only [upd_same] at hf
                rcases hmem fr' hf with rfl | h1
                · simp [hexk]
                · exact hl.exec fr' h1
              · intro fr' hf hd
                simp only [upd_same] at hf
                rcases hmem fr' hf with rfl | h1
                · simp at hd
                · exact hl.flags fr' h1 hd
              · intro k' fr' rest hk'; simp at hk'
              · simp only [upd_same]
                cases hs2 : c.stack u with
                | nil => trivial
                | cons fr2 r =>
                  have := hl.wantTop k fr2 r hw hs2
                  exact ⟨this.1, this.2.1, this.2.2, hs2 ▸ hl.chain⟩
              · intro fr' hf
                simp only [upd_same] at hf
                rcases hmem fr' hf with rfl | h1
                · simp
                · exact hl.vals fr' h1
              · have hr := hl.root
                simp only [rootKey, upd_same] at hr ⊢
                cases hs2 : c.stack u with
                | nil =>
                  simp only [hs2, List.getLast?_nil, hw] at hr
                  simp only [List.getLast?_singleton]
                  rcases hr with hr | hr
                  · cases hr
                  · right; exact hr
                | cons fr2 r =>
                  rw [List.getLast?_cons_cons]
                  rw [hs2] at hr
                  exact hr
              · exact hl.res
            · refine LInv_other (h.loc u) ?_ ?_ rfl rfl (fun _ _ => rfl) (fun _ _ hm => hm)
              · simp only; rw [upd_other _ _ _ _ hut]
              · simp only; rw [upd_other _ _ _ _ hut]
        | blocked o st ha hk ho hsy he hq hne =>
          subst ha
          simp only [hst, Option.some.injEq] at hs
          subst hs
          refine ⟨hxi, hbi, ?_, ?_, h.memo, ?_⟩
          · intro u k'
            show ownedBy b k' u = true ↔ _
            have hl1 : ownedBy b k' u = ownedBy c.x.base k' u := by
              by_cases hkk : k' = k
              · subst hkk; simp [ownedBy, hsy, hk]
              · simp [ownedBy, hsy, upd_other _ _ _ _ hkk]
            rw [hl1]; exact h.own u k'
          · intro u hu
            simp only at hu ⊢
            by_cases hut : u = t
            · subst hut
              exact ⟨k, hw, by rw [hq]; simp⟩
            · rw [he, upd_other _ _ _ _ hut] at hu
              obtain ⟨k', hk', hq'⟩ := h.blocked u hu
              refine ⟨k', hk', ?_⟩
              rw [hq]
              by_cases hkk : k' = k
              · subst hkk; simp [hq']
              · rw [upd_other _ _ _ _ hkk]; exact hq'
          · intro u
            exact LInv_other (h.loc u) rfl rfl rfl rfl (fun _ _ => rfl) (fun _ _ hm => hm)
        | cycle o st ha hk ho hc =>
          subst ha
          simp [hst] at hs
  | recheckHit t =>
    simp only [cstep] at hs
    cases hst : c.stack t with
    | nil => simp [hst] at hs
    | cons fr rest =>
      simp only [hst] at hs
      split at hs
      · rename_i hc
        simp only [Bool.and_eq_true, Bool.not_eq_true', Option.isNone_iff_eq_none] at hc
        cases hx : xstep c.x (.proto (.release t fr.key .completed)) with
        | none => simp [hx] at hs
        | some x' =>
          simp only [hx, Option.some.injEq] at hs
          subst hs
          exact popDeliver_cinv h hst hc.2 hc.1.2 hx
      · cases hs
  | release t =>
    simp only [cstep] at hs
    cases hst : c.stack t with
    | nil => simp [hst] at hs
    | cons fr rest =>
      simp only [hst] at hs
      split at hs
      · rename_i hc
        simp only [Bool.and_eq_true, Option.isNone_iff_eq_none] at hc
        cases hx : xstep c.x (.proto (.release t fr.key .completed)) with
        | none => simp [hx] at hs
        | some x' =>
          simp only [hx, Option.some.injEq] at hs
          subst hs
          have hm := ((h.loc t).flags fr (by rw [hst]; simp) hc.1).2
          exact popDeliver_cinv h hst hc.2 hm hx
      · cases hs
  | execBegin t =>
    simp only [cstep] at hs
    cases hst : c.stack t with
    | nil => simp [hst] at hs
    | cons fr rest =>
      simp only [hst] at hs
      split at hs
      · rename_i hc
        simp only [Bool.and_eq_true, Bool.not_eq_true', Option.isNone_iff_eq_none] at hc
        obtain ⟨hns, hw⟩ := hc
        cases hx : xstep c.x (.execBegin t fr.key) with
        | none => simp [hx] at hs
        | some x' =>
          simp only [hx, Option.some.injEq] at hs
          subst hs
          have hxi := xstep_inv h.x hx
          have hx2 := hx
          simp only [xstep] at hx2
          split at hx2
          · simp only [Option.some.injEq] at hx2
            subst hx2
            have hl := h.loc t
            have hfm : fr ∈ c.stack t := by rw [hst]; simp
            have hsorted := hl.sorted
            rw [held_cons hst] at hsorted
            have hkn : fr.key ∉ rest.map (·.key) := pairwise_head_ne hsorted
            have hfd : fr.done = false := by
              cases hd : fr.done with
              | false => rfl
              | true => have := (hl.flags fr hfm hd).1; rw [hns] at this; cases this
            have hheld : ∀ u, held ({ c with x := { c.x with execCount := upd c.x.execCount fr.key (c.x.execCount fr.key + 1), executing := upd c.x.executing fr.key (some t) }, stack := upd c.stack t ({ fr with started := true } :: rest) } : CState) u = held c u := by
              intro u
              by_cases hut : u = t
              · subst hut; simp [held, hst]
              · simp [held, upd_other _ _ _ _ hut]
            refine ⟨hxi, h.b, ?_, h.blocked, h.memo, ?_⟩
            · intro u k'; rw [hheld]; exact h.own u k'
            · intro u
              by_cases hut : u = t
              · subst hut
                have hmem : ∀ fr', fr' ∈ ({ fr with started := true } : Frame) :: rest →
                    fr' = { fr with started := true } ∨ (fr' ∈ rest) := by
                  intro fr' hf; simpa using hf
                have hrest : ∀ fr', fr' ∈ rest → fr' ∈ c.stack u ∧ fr'.key ≠ fr.key := by
                  intro fr' hf
                  refine ⟨by rw [hst]; simp [hf], ?_⟩
                  intro hk
                  exact hkn (by rw [← hk]; exact List.mem_map_of_mem hf)
                constructor
                · intro k' hk'; simp only at hk'; rw [hw] at hk'; cases hk'
                · rw [hheld]; exact hl.sorted
                · intro fr' hf
                  simp only [upd_same] at hf
                  rcases hmem fr' hf with rfl | h1
                  · simp [hfd]
                  · obtain ⟨h2, h3⟩ := hrest fr' h1
                    simp only [upd_other _ _ _ _ h3]
                    exact hl.exec fr' h2
                · intro fr' hf hd
                  simp only [upd_same] at hf
                  rcases hmem fr' hf with rfl | h1
                  · simp only at hd; rw [hfd] at hd; cases hd
                  · exact hl.flags fr' (hrest fr' h1).1 hd
                · intro k' fr' rest' hk'; simp only at hk'; rw [hw] at hk'; cases hk'
                · simp only [upd_same]; exact chainOk_top (fr := fr) rfl (hst ▸ hl.chain)
                · intro fr' hf
                  simp only [upd_same] at hf
                  rcases hmem fr' hf with rfl | h1
                  · exact hl.vals fr hfm
                  · exact hl.vals fr' (hrest fr' h1).1
                · have hr := hl.root
                  rw [rootKey_eq] at hr ⊢
                  simp only [upd_same]
                  rw [getLast?_top (fr := fr) (fr' := { fr with started := true }) rfl]
                  rw [hst] at hr
                  cases hg : ((fr :: rest).getLast?.map (·.key)) with
                  | none => simp at hg
                  | some kk => simp only [hg] at hr ⊢; exact hr
                · exact hl.res
              · refine LInv_other (h.loc u) ?_ rfl rfl rfl ?_ (fun _ _ hm => hm)
                · simp only; rw [upd_other _ _ _ _ hut]
                · intro fr' hf
                  have hne : fr'.key ≠ fr.key := by
                    intro hk
                    have h1 : fr.key ∈ held c u := by rw [← hk]; exact List.mem_map_of_mem hf
                    have h2 : fr.key ∈ held c t := by rw [held_cons hst]; simp
                    exact hut (held_disjoint h h1 h2)
                  simp only [upd_other _ _ _ _ hne]
          · cases hx2
      · cases hs
  | requestSub t =>
    simp only [cstep] at hs
    cases hst : c.stack t with
    | nil => simp [hst] at hs
    | cons fr rest =>
      simp only [hst] at hs
      split at hs
      · rename_i hc
        simp only [Bool.and_eq_true, Bool.not_eq_true', Option.isNone_iff_eq_none] at hc
        obtain ⟨⟨⟨hi, hfs⟩, hfd⟩, hw⟩ := hc
        cases hd : (p.deps fr.key)[fr.pc]? with
        | none => simp [hd] at hs
        | some d =>
          simp only [hd, Option.some.injEq] at hs
          subst hs
          have hl := h.loc t
          refine ⟨h.x, h.b, h.own, ?_, h.memo, ?_⟩
          · intro u hu
            obtain ⟨k', hk', hq⟩ := h.blocked u hu
            have hut : u ≠ t := by
              rintro rfl
              rw [(idle_iff.mp hi).1] at hu; simp at hu
            exact ⟨k', by simp only; rw [upd_other _ _ _ _ hut]; exact hk', hq⟩
          · intro u
            by_cases hut : u = t
            · subst hut
              have hsorted := hl.sorted
              rw [held_cons hst] at hsorted
              have hdk : p.rank d < p.rank fr.key := hwf fr.key d (List.mem_of_getElem? hd)
              constructor
              · intro k' hk' k'' hk''
                simp only [upd_same, Option.some.injEq] at hk'
                subst hk'
                have : k'' ∈ fr.key :: rest.map (·.key) := by
                  have : held ({ c with want := upd c.want u (some d) } : CState) u = held c u := rfl
                  rw [this, held_cons hst] at hk''; exact hk''
                simp only [List.mem_cons] at this
                rcases this with rfl | h1
                · exact hdk
                · have := (List.pairwise_cons.mp hsorted).1 k'' h1
                  omega
              · exact hl.sorted
              · exact hl.exec
              · exact hl.flags
              · intro k' fr' rest' hk' hs'
                simp only [upd_same, Option.some.injEq] at hk'
                subst hk'
                simp only [hst, List.cons.injEq] at hs'
                obtain ⟨rfl, _⟩ := hs'
                exact ⟨hfs, hfd, hd⟩
              · exact hl.chain
              · exact hl.vals
              · have hr := hl.root
                simp only [rootKey, hst] at hr ⊢
                cases hg : (fr :: rest).getLast? with
                | none => simp at hg
                | some f => simp only [hg] at hr ⊢; exact hr
              · exact hl.res
            · refine LInv_other (h.loc u) rfl ?_ rfl rfl (fun _ _ => rfl) (fun _ _ hm => hm)
              simp only; rw [upd_other _ _ _ _ hut]
      · cases hs
  | publish t =>
    simp only [cstep] at hs
    cases hst : c.stack t with
    | nil => simp [hst] at hs
    | cons fr rest =>
      simp only [hst] at hs
      split at hs
      · rename_i hc
        simp only [Bool.and_eq_true, Bool.not_eq_true', Option.isNone_iff_eq_none, decide_eq_true_eq] at hc
        obtain ⟨⟨⟨⟨hi, hfs⟩, hfd⟩, hw⟩, hpc⟩ := hc
        cases hx : xstep c.x (.publish t fr.key) with
        | none => simp [hx] at hs
        | some x' =>
          simp only [hx, Option.some.injEq] at hs
          subst hs
          have hxi := xstep_inv h.x hx
          have hx2 := hx
          simp only [xstep] at hx2
          split at hx2
          · simp only [Option.some.injEq] at hx2
            subst hx2
            have hl := h.loc t
            have hfm : fr ∈ c.stack t := by rw [hst]; simp
            have hsorted := hl.sorted
            rw [held_cons hst] at hsorted
            have hkn : fr.key ∉ rest.map (·.key) := pairwise_head_ne hsorted
            have hheld : ∀ u, held ({ c with x := { c.x with memo := upd c.x.memo fr.key true, executing := upd c.x.executing fr.key none }, val := upd c.val fr.key (p.f fr.key fr.vals), stack := upd c.stack t ({ fr with done := true } :: rest) } : CState) u = held c u := by
              intro u
              by_cases hut : u = t
              · subst hut; simp [held, hst]
              · simp [held, upd_other _ _ _ _ hut]
            refine ⟨hxi, h.b, ?_, h.blocked, ?_, ?_⟩
            · intro u k'; rw [hheld]; exact h.own u k'
            · intro k' hk'
              simp only at hk' ⊢
              by_cases hkk : k' = fr.key
              · subst hkk
                simp only [upd_same]
                rw [eval_eq p hwf, hl.vals fr hfm, List.take_of_length_le hpc]
              · rw [upd_other _ _ _ _ hkk] at hk' ⊢
                exact h.memo k' hk'
            · intro u
              by_cases hut : u = t
              · subst hut
                have hmem : ∀ fr', fr' ∈ ({ fr with done := true } : Frame) :: rest →
                    fr' = { fr with done := true } ∨ (fr' ∈ rest) := by
                  intro fr' hf; simpa using hf
                have hrest : ∀ fr', fr' ∈ rest → fr' ∈ c.stack u ∧ fr'.key ≠ fr.key := by
                  intro fr' hf
                  refine ⟨by rw [hst]; simp [hf], ?_⟩
                  intro hk
                  exact hkn (by rw [← hk]; exact List.mem_map_of_mem hf)
                constructor
                · intro k' hk'; simp only at hk'; rw [hw] at hk'; cases hk'
                · rw [hheld]; exact hl.sorted
                · intro fr' hf
                  simp only [upd_same] at hf
                  rcases hmem fr' hf with rfl | h1
                  · simp
                  · obtain ⟨h2, h3⟩ := hrest fr' h1
                    simp only [upd_other _ _ _ _ h3]
                    exact hl.exec fr' h2
                · intro fr' hf hd
                  simp only [upd_same] at hf
                  rcases hmem fr' hf with rfl | h1
                  · exact ⟨hfs, by simp⟩
                  · obtain ⟨h2, h3⟩ := hrest fr' h1
                    simp only [upd_other _ _ _ _ h3]
                    exact hl.flags fr' h2 hd
                · intro k' fr' rest' hk'; simp only at hk'; rw [hw] at hk'; cases hk'
                · simp only [upd_same]; exact chainOk_top (fr := fr) rfl (hst ▸ hl.chain)
                · intro fr' hf
                  simp only [upd_same] at hf
                  rcases hmem fr' hf with rfl | h1
                  · exact hl.vals fr hfm
                  · exact hl.vals fr' (hrest fr' h1).1
                · have hr := hl.root
                  rw [rootKey_eq] at hr ⊢
                  simp only [upd_same]
                  rw [getLast?_top (fr := fr) (fr' := { fr with done := true }) rfl]
                  rw [hst] at hr
                  cases hg : ((fr :: rest).getLast?.map (·.key)) with
                  | none => simp at hg
                  | some kk => simp only [hg] at hr ⊢; exact hr
                · exact hl.res
              · have hne : ∀ fr', fr' ∈ c.stack u → fr'.key ≠ fr.key := by
                  intro fr' hf hk
                  have h1 : fr.key ∈ held c u := by rw [← hk]; exact List.mem_map_of_mem hf
                  have h2 : fr.key ∈ held c t := by rw [held_cons hst]; simp
                  exact hut (held_disjoint h h1 h2)
                refine LInv_other (h.loc u) ?_ rfl rfl rfl ?_ ?_
                · simp only; rw [upd_other _ _ _ _ hut]
                · intro fr' hf; simp only [upd_other _ _ _ _ (hne fr' hf)]
                · intro fr' hf hm; simp only [upd_other _ _ _ _ (hne fr' hf)]; exact hm
          · cases hx2
      · cases hs
  | wake t =>
    simp only [cstep] at hs
    cases hx : xstep c.x (.proto (.wake t)) with
    | none => simp [hx] at hs
    | some x' =>
      simp only [hx, Option.some.injEq] at hs
      subst hs
      have hxi := xstep_inv h.x hx
      obtain ⟨_, b, hb, rfl⟩ := xstep_proto hx
      obtain ⟨_, he, hq, hsy, _⟩ := wake_cases hb
      refine ⟨hxi, step_binv h.x.base.g h.b hb, ?_, ?_, h.memo, ?_⟩
      · intro u k'
        show ownedBy b k' u = true ↔ _
        have : ownedBy b k' u = ownedBy c.x.base k' u := by simp [ownedBy, hsy]
        rw [this]; exact h.own u k'
      · intro u hu
        simp only at hu ⊢
        rw [he] at hu; rw [hq]; exact h.blocked u hu
      · intro u
        exact LInv_other (h.loc u) rfl rfl rfl rfl (fun _ _ => rfl) (fun _ _ hm => hm)

theorem crun_cinv {p : Program} (hwf : p.wf) : ∀ (ops : List COp) (c c' : CState), CInv p c →
    crun p c ops = some c' → CInv p c' := by
  intro ops
  induction ops with
  | nil =>
    intro c c' h hr
    simp only [crun, Option.some.injEq] at hr
    subst hr; exact h
  | cons op ops ih =>
    intro c c' h hr
    unfold crun at hr
    cases hs : cstep p c op with
    | none => simp [hs] at hr
    | some c1 =>
      simp only [hs] at hr
      exact ih c1 c' (cstep_cinv hwf h hs) hr

end SalsaVerif.Proofs.SyncClient
