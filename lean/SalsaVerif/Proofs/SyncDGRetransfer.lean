/-
  W3, hand-back by `transfer`: a re-claimed transferred key that is transferred to the SAME owner key again
  (the `transferred` entry is unchanged) by a thread other than the owner's thread.  The waiters of the key
  that blocked on it while it was re-claimed point at the re-claiming thread; the repaired `transfer_lock`
  hands them over (`afterTransfer`) instead of returning early: afterwards every remaining dependent of
  the key points at the new owner's thread.
-/
import SalsaVerif.Proofs.SyncDGWaiters2

namespace SalsaVerif.Proofs.SyncDG
open SalsaVerif.Model.SyncDG

/-- `s'` differs from `s` in `edges` only by entries that now point at `nt`. -/
def EdgesTo (nt : Nat) (s s' : State) : Prop := ∀ x, s'.edges x = s.edges x ∨ s'.edges x = some nt

theorem EdgesTo.refl (nt : Nat) (s : State) : EdgesTo nt s s := fun _ => Or.inl rfl

theorem EdgesTo.trans {nt : Nat} {a b c : State} (h1 : EdgesTo nt a b) (h2 : EdgesTo nt b c) :
    EdgesTo nt a c := by
  intro x
  rcases h2 x with h | h
  · rcases h1 x with h' | h'
    · exact Or.inl (h.trans h')
    · exact Or.inr (h.trans h')
  · exact Or.inr h

/-- an edge that points at `nt` keeps pointing at `nt` -/
theorem EdgesTo.keeps {nt : Nat} {a b : State} (h : EdgesTo nt a b) {x : Nat} (hx : a.edges x = some nt) :
    b.edges x = some nt := by
  rcases h x with h' | h'
  · rw [h', hx]
  · exact h'

theorem repointEdges_edges {nt : Nat} : ∀ (L : List Nat) (s s' : State),
    repointEdges nt s L = some s' → EdgesTo nt s s' ∧ ∀ t, t ∈ L → s'.edges t = some nt := by
  intro L
  induction L with
  | nil =>
    intro s s' h
    simp only [repointEdges, Option.some.injEq] at h
    subst h
    exact ⟨EdgesTo.refl nt s, fun t ht => by cases ht⟩
  | cons t ts ih =>
    intro s s' h
    unfold repointEdges at h
    cases het : s.edges t with
    | none => simp [het] at h
    | some u =>
      simp only [het] at h
      cases hd : dependsOn { s with edges := upd s.edges t (some nt) } nt t with
      | none => simp [hd] at h
      | some b =>
        cases b with
        | true => simp [hd] at h
        | false =>
          simp only [hd] at h
          obtain ⟨e2, m2⟩ := ih _ s' h
          have e1 : EdgesTo nt s { s with edges := upd s.edges t (some nt) } := by
            intro x
            by_cases hxt : x = t
            · subst hxt; exact Or.inr (by simp)
            · exact Or.inl (by simp only; rw [upd_other _ _ _ _ hxt])
          refine ⟨e1.trans e2, ?_⟩
          intro x hx
          rcases List.mem_cons.1 hx with hx | hx
          · subst hx
            exact e2.keeps (by simp)
          · exact m2 x hx

theorem updateTransferredEdges_edges {nt : Nat} : ∀ (fuel : Nat) (s s' : State) (q : Nat),
    updateTransferredEdges nt fuel s q = some s' →
    EdgesTo nt s s' ∧ ∀ t, t ∈ s.qdeps q → s'.edges t = some nt := by
  intro fuel
  induction fuel with
  | zero => intro s s' q h; simp [updateTransferredEdges] at h
  | succ n ih =>
    intro s s' q h
    unfold updateTransferredEdges at h
    cases h1 : repointEdges nt s (s.qdeps q) with
    | none => simp [h1] at h
    | some s1 =>
      simp only [h1] at h
      obtain ⟨e1, m1⟩ := repointEdges_edges _ _ _ h1
      have e2 : EdgesTo nt s1 s' := by
        refine forEachDep_ind (P := fun x => EdgesTo nt s1 x) ?_ _ _ _ (EdgesTo.refl nt s1) h
        intro a d b ha hb
        exact ha.trans (ih a b d hb).1
      exact ⟨e1.trans e2, fun t ht => e2.keeps (m1 t ht)⟩

/-- The repaired same-owner arm of `transfer_lock`: `query`'s `transferred` entry already is
    `(nt, newOwner)`, where `nt` is the thread the new owner resolves to, and the transferring thread
    `cur` is not `nt` (it had re-claimed `query`).  The step is not the early return: it reports
    `changed`, leaves `transferred` / `transferred_dependents` as they are, and every thread that is
    still a dependent of `query` afterwards has its edge pointing at `nt` — the resolved owner's thread —
    whatever it pointed at before (in particular the stale edges to `cur`).  With the early return (salsa
    before the repair) the state was unchanged and those edges kept pointing at `cur`: `checkW3` fails,
    see `noopHandbackOps` in Props/C19. -/
theorem transferLockCore_same_owner_repoints {s s' : State} {q c n nt nt' : Nat} {o : SyncOwner}
    {kind : TransferKind} (hinv : GInv s [])
    (hres : newOwnerThread s q n o = some nt)
    (hentry : s.transferred q = some (nt, n)) (hcn : c ≠ nt)
    (h : transferLockCore s q c n o = some (s', kind, nt')) :
    nt' = nt ∧ kind = .changed ∧ s'.transferred = s.transferred ∧ s'.tdeps = s.tdeps ∧
    ∀ t, t ∈ s'.qdeps q → s'.edges t = some nt := by
  unfold transferLockCore at h
  simp only [hres] at h
  cases hpre : transferPre s nt c with
  | none => simp [hpre] at h
  | some b =>
    cases b with
    | false => simp [hpre] at h
    | true =>
      simp only [hpre] at h
      have he : transferEntry s q c n nt = some none := by
        unfold transferEntry; simp [hentry]
      simp only [he, hcn, if_false] at h
      cases ha : afterTransfer s q nt with
      | none => simp [ha] at h
      | some s7 =>
        simp only [ha, Option.some.injEq, Prod.mk.injEq] at h
        obtain ⟨rfl, rfl, rfl⟩ := h
        obtain ⟨e1, e2⟩ := afterTransfer_sameTD hinv ha
        refine ⟨rfl, rfl, e1, e2, ?_⟩
        unfold afterTransfer at ha
        cases h1 : unblockTransferTarget s q nt with
        | none => simp [h1] at ha
        | some s1 =>
          simp only [h1] at ha
          have g1 := unblockTransferTarget_gstep hinv h1
          obtain ⟨_, q7⟩ := updateTransferredEdges_gstep _ _ _ _ g1.inv ha
          obtain ⟨_, m7⟩ := updateTransferredEdges_edges _ _ _ _ ha
          intro t ht
          rw [q7.qdeps] at ht
          exact m7 t ht

end SalsaVerif.Proofs.SyncDG
