/-
  CoreSpec, histories with writes: requests of the specifiable function — the goals of
  Proofs/CoreSpecRevSpecs.lean:

    theorem specFetchOk (hP : Wf2 P idOf) : SpecFetchOk P idOf (fetchSpec P.spec)
    theorem specMcaOk   (hP : Wf2 P idOf) : SpecMcaOk P idOf (mcaSpec P.spec)

  Parts: FSpec1 (read locks: `LockR`, `inv_lockR`), FSpec2 (`inv_setSMemo`), FSpec3 (frames, the run
  of the body as a replay), FSpec4 (lock-step, leaf walk, `obsOk_fresh`, observer transfers),
  FSpec5 (`SpecRes`, `install_res`, ties, `SpecOk` of the installed memo), FSpec6 (`exec_ok`).
  Here: the case analysis of `fetch` (`fetchCore_ok`) and the two theorems.  Core Lean only.
-/
import SalsaVerif.Proofs.CoreSpecRevFSpec6

namespace SalsaVerif.Proofs.CoreSpec
open SalsaVerif.Model.CoreSpec

/-- `fetchSpec` after the read lock -/
def fetchCore (SB : Nat → Nat → Body) (s : State) (c : Nat) : State × Res :=
  match s.smemos c with
  | none => executeSpec SB s c none
  | some m =>
    if m.va = s.cur then (s, hit m)
    else if lc s m.dur ≤ m.va then
      (setSMemo (emit s (.validS c (genOf s c))) c (some { m with va := s.cur }), hit m)
    else
      match m.origin with
      | some _ => executeSpec SB s c (some m)
      | none =>
        if (deepEdgesLeaf m.obs s m.va).2 then
          (setSMemo (emit (deepEdgesLeaf m.obs s m.va).1 (.validS c (genOf s c))) c
            (some { m with va := (deepEdgesLeaf m.obs s m.va).1.cur,
                           deepAt := (deepEdgesLeaf m.obs s m.va).1.cur }), hit m)
        else executeSpec SB (deepEdgesLeaf m.obs s m.va).1 c (some m)

theorem fetchSpec_eq (SB : Nat → Nat → Body) (s0 : State) (c : Nat) :
    fetchSpec SB s0 c = fetchCore SB (touchMemos s0 c) c := rfl

theorem fetchCore_none {SB : Nat → Nat → Body} {s : State} {c : Nat} (hsm : s.smemos c = none) :
    fetchCore SB s c = executeSpec SB s c none := by
  unfold fetchCore; simp only [hsm]

theorem fetchCore_hot {SB : Nat → Nat → Body} {s : State} {c : Nat} {m : Memo} (hsm : s.smemos c = some m)
    (hv : m.va = s.cur) : fetchCore SB s c = (s, hit m) := by
  unfold fetchCore; simp only [hsm, hv, if_true]

theorem fetchCore_shallow {SB : Nat → Nat → Body} {s : State} {c : Nat} {m : Memo} (hsm : s.smemos c = some m)
    (hv : m.va ≠ s.cur) (hsh : lc s m.dur ≤ m.va) :
    fetchCore SB s c =
      (setSMemo (emit s (.validS c (genOf s c))) c (some { m with va := s.cur }), hit m) := by
  unfold fetchCore; simp only [hsm, hv, hsh, if_true, if_false]

theorem fetchCore_assigned {SB : Nat → Nat → Body} {s : State} {c : Nat} {m : Memo} {k : Nat}
    (hsm : s.smemos c = some m) (hv : m.va ≠ s.cur) (hsh : ¬ lc s m.dur ≤ m.va) (hor : m.origin = some k) :
    fetchCore SB s c = executeSpec SB s c (some m) := by
  unfold fetchCore; simp only [hsm, hv, hsh, if_false, hor]

theorem fetchCore_derived {SB : Nat → Nat → Body} {s : State} {c : Nat} {m : Memo}
    (hsm : s.smemos c = some m) (hv : m.va ≠ s.cur) (hsh : ¬ lc s m.dur ≤ m.va) (hor : m.origin = none) :
    fetchCore SB s c =
      if (deepEdgesLeaf m.obs s m.va).2 = true then
        (setSMemo (emit (deepEdgesLeaf m.obs s m.va).1 (.validS c (genOf s c))) c
          (some { m with va := (deepEdgesLeaf m.obs s m.va).1.cur,
                         deepAt := (deepEdgesLeaf m.obs s m.va).1.cur }), hit m)
      else executeSpec SB (deepEdgesLeaf m.obs s m.va).1 c (some m) := by
  unfold fetchCore; simp only [hsm, hv, hsh, if_false, hor]

/-- the old memo is marked verified (shallow: `dA = m.deepAt`; deep: `dA = cur`) -/
theorem reverify_res {P idOf s c sl dA} {m : Memo} (hP : Wf2 P idOf) (hI : Inv P idOf s) (hc : memoSok s c)
    (hsl : s.slots c = some sl) (hm : s.smemos c = some m) (hv : m.va ≠ s.cur) (e : Ev)
    (hder : m.origin = none → 1 ≤ dA ∧ dA ≤ s.cur ∧ lc s m.dur ≤ dA ∧
      ∀ o, o ∈ m.obs → ∃ x, depInfo s o.dep = some x ∧ x.val = o.val ∧
       m.dur ≤ x.dur ∧ x.ca ≤ dA ∧ (o.recd = false → 3 ≤ x.dur))
    (hsok : m.origin ≠ none → SOK s m) (hver : SOK s m → dA = m.deepAt) :
    SpecRes P idOf s (setSMemo (emit s e) c (some { m with va := s.cur, deepAt := dA })) c (hit m) := by
  apply SpecRes.pre (lockR_emit c s e) hc
  have hIe := inv_emit hI e
  have hme : (emit s e).smemos c = some m := hm
  have H : SetHyp (emit s e) c { m with va := s.cur, deepAt := dA } := by
    refine ⟨rfl, ?_, ?_, ?_, ?_⟩
    · intro old h _
      have : m = old := Option.some.inj (hme.symm.trans h)
      subst this
      exact ⟨rfl, rfl, rfl⟩
    · intro mp _ o _ _ hd L _ a
      exact a.iv ⟨m.value, m.ca, m.dur⟩ (by rw [hd]; simp [depInfo, hm])
    · intro old h
      have : m = old := Option.some.inj (hme.symm.trans h)
      subst this
      exact Nat.le_refl _
    · intro hn
      rw [hme] at hn; cases hn
  have hM := specOk_reverify (t := emit s e) (dA := dA) hIe hc hsl hme hder
  have htie := tie_reverify (t := emit s e) (M := { m with va := s.cur, deepAt := dA }) hIe hc hme rfl rfl rfl rfl rfl hsok
  refine install_res hP hIe hc ⟨sl, hsl⟩ H hM htie ?_ ?_
  · intro old h
    have : m = old := Option.some.inj (hme.symm.trans h)
    subst this
    exact hv
  · intro old h hs
    have : m = old := Option.some.inj (hme.symm.trans h)
    subst this
    have hd := hver hs
    subst hd
    rfl

theorem fetchCore_ok {P idOf s c sl} (hP : Wf2 P idOf) (hI : Inv P idOf s) (hc : memoSok s c)
    (hsl : s.slots c = some sl) (hpn : (fetchCore P.spec s c).1.panic = none) :
    SpecRes P idOf s (fetchCore P.spec s c).1 c (fetchCore P.spec s c).2 := by
  cases hsm : s.smemos c with
  | none =>
    rw [fetchCore_none hsm] at hpn ⊢
    exact exec_ok hP hI hc hsl none hsm (fun o h => by rw [hsm] at h; cases h)
      (fun D h => by rw [hsm] at h; cases h) hpn
  | some m =>
    have hok := hI.smemo c m hsm
    by_cases hv : m.va = s.cur
    · rw [fetchCore_hot hsm hv] at hpn ⊢
      exact specRes_lock hP hI (LockR.refl c s) hc hsm hv
    · by_cases hsh : lc s m.dur ≤ m.va
      · rw [fetchCore_shallow hsm hv hsh] at hpn ⊢
        have hs : SOK s m := Or.inr hsh
        refine reverify_res (dA := m.deepAt) hP hI hc hsl hsm hv _ ?_ (fun _ => hs) (fun _ => rfl)
        intro ho
        have ok := (hok.derived ho).1
        refine ⟨ok.deep1, Nat.le_trans ok.deep_va ok.va_cur, ?_, ?_⟩
        · rcases ok.i4 with h | h
          · exact h
          · omega
        · intro o hmem
          have hout := (hok.dshape ho o hmem).1
          obtain ⟨x, hx, hxc⟩ := ok.kaca hs o hmem hout
          obtain ⟨a, b⟩ := ok.i2 o hmem hout x hx (Nat.le_trans hxc ok.deep_va)
          exact ⟨x, hx, a, b, hxc, fun hr => (i6_plain hI ok o hmem hout hr x hx).2⟩
      · have hns : ¬ SOK s m := by
          intro h
          rcases h with h | h
          · exact hv h
          · exact hsh h
        have hold : ∀ o, s.smemos c = some o → ¬ SOK s o := by
          intro o h
          rw [hsm] at h
          have : m = o := Option.some.inj h
          rw [← this]; exact hns
        cases hor : m.origin with
        | some k =>
          rw [fetchCore_assigned hsm hv hsh hor] at hpn ⊢
          refine exec_ok hP hI hc hsl (some m) hsm hold ?_ hpn
          intro D h hD
          rw [hsm] at h
          have : m = D := Option.some.inj h
          rw [← this, hor] at hD; cases hD
        | none =>
          rw [fetchCore_derived hsm hv hsh hor] at hpn ⊢
          have ok := (hok.derived hor).1
          by_cases hr : (deepEdgesLeaf m.obs s m.va).2 = true
          · rw [if_pos hr] at hpn ⊢
            have hp1 : (deepEdgesLeaf m.obs s m.va).1.panic = none := by simpa using hpn
            obtain ⟨h1, h2, _⟩ := deepEdgesLeaf_spec m.obs s m.va hI.pn hp1
            rw [h1]
            refine reverify_res (dA := s.cur) hP hI hc hsl hsm hv _ ?_ (fun h => absurd hor h)
              (fun h => absurd h hns)
            intro _
            refine ⟨hI.cur1, Nat.le_refl _, hI.lc_le _, ?_⟩
            intro o hmem
            obtain ⟨hout, hleaf⟩ := hok.dshape hor o hmem
            have hinfo : ∃ x, depInfo s o.dep = some x ∧ x.ca ≤ s.cur ∧
                ((depChangedLeaf s o.dep m.va).2 = false → x.ca ≤ m.va) := by
              rcases hleaf with e | ⟨i, e⟩
              · rw [e]
                refine ⟨⟨⟨sl.v, none⟩, sl.fca, sl.dur⟩, by simp [depInfo, hsl], (hI.slot c sl hsl).1, ?_⟩
                intro h
                rw [depChangedLeaf_field _ hsl] at h
                have := of_decide_eq_false h
                show sl.fca ≤ m.va
                omega
              · rw [e]
                refine ⟨⟨⟨(s.inp i).val, none⟩, (s.inp i).ca, (s.inp i).dur⟩, rfl, hI.inp_le i, ?_⟩
                intro h
                have h' : decide ((s.inp i).ca > m.va) = false := h
                have := of_decide_eq_false h'
                show (s.inp i).ca ≤ m.va
                omega
            obtain ⟨x, hx, hxcur, hfalse⟩ := hinfo
            cases hrec : o.recd with
            | true =>
              obtain ⟨a, b⟩ := ok.i2 o hmem hout x hx (hfalse (h2 hr o hmem hrec hout))
              exact ⟨x, hx, a, b, hxcur, fun h => by cases h⟩
            | false =>
              obtain ⟨a, b⟩ := i6_plain hI ok o hmem hout hrec x hx
              exact ⟨x, hx, a, Nat.le_trans ok.dur3 b, hxcur, fun _ => b⟩
          · rw [if_neg hr] at hpn ⊢
            have hp1 : (deepEdgesLeaf m.obs s m.va).1.panic = none :=
              stickyNone (executeSpec_rel primRel_sticky _ _ _ _) hpn
            obtain ⟨h1, _, h3⟩ := deepEdgesLeaf_spec m.obs s m.va hI.pn hp1
            rw [h1] at hpn ⊢
            refine exec_ok hP hI hc hsl (some m) hsm hold ?_ hpn
            intro D h hD
            rw [hsm] at h
            have : m = D := Option.some.inj h
            rw [← this]
            have hr' : (deepEdgesLeaf m.obs s m.va).2 = false := by
              cases hh : (deepEdgesLeaf m.obs s m.va).2 with
              | true => exact absurd hh hr
              | false => rfl
            obtain ⟨o, hmem, _, hout, hch⟩ := h3 hr'
            refine ⟨o, hmem, hout, ?_⟩
            rcases (hok.dshape hor o hmem).2 with e | ⟨i, e⟩
            · left
              rw [e, depChangedLeaf_field _ hsl] at hch
              have := of_decide_eq_true hch
              exact ⟨e, by omega⟩
            · right
              rw [e] at hch
              have h' : decide ((s.inp i).ca > m.va) = true := hch
              have := of_decide_eq_true h'
              exact ⟨i, e, by omega⟩

/-- `fetch` of `spec(struct of c)` while the creator `c` is valid and its struct exists -/
theorem specFetchOk {P : Prog} {idOf : Nat → Nat} (hP : Wf2 P idOf) : SpecFetchOk P idOf (fetchSpec P.spec) := by
  unfold SpecFetchOk
  intro s c hI hc hsl hpn
  obtain ⟨sl, hsl⟩ := hsl
  rw [fetchSpec_eq] at hpn ⊢
  have hL := lockR_touchMemos c s
  obtain ⟨sl', hsl', _⟩ := hL.slot_fwd hsl
  have h := (fetchCore_ok hP (inv_lockR hI hL) ((hL.memoSokIff c).mpr hc) hsl' hpn).pre hL hc
  exact ⟨h.inv, h.ext, h.memos, h.busy, h.val, h.hot⟩

/-- `maybe_changed_after` of `spec(struct of c)` under the same conditions -/
theorem specMcaOk {P : Prog} {idOf : Nat → Nat} (hP : Wf2 P idOf) : SpecMcaOk P idOf (mcaSpec P.spec) := by
  unfold SpecMcaOk
  intro s c rev hI hc hsl hpn
  obtain ⟨sl, hsl⟩ := hsl
  have hL := lockR_touchMemos c s
  have hI1 := inv_lockR hI hL
  have hc1 : memoSok (touchMemos s c) c := (hL.memoSokIff c).mpr hc
  obtain ⟨sl', hsl', _⟩ := hL.slot_fwd hsl
  have hbusy : ∀ c', Busy (touchMemos s c) c' → Busy s c' := by
    intro c' hb
    rcases hL.busy_back hb with a | a
    · exact a
    · subst a; exact absurd hb (memoSok_not_busy hc1)
  unfold mcaSpec at hpn ⊢
  cases hsm : (touchMemos s c).smemos c with
  | none =>
    simp only [hsm] at hpn ⊢
    exact ⟨hI1, hL.ext, hL.memos, hbusy, fun h => by cases h⟩
  | some m =>
    simp only [hsm] at hpn ⊢
    obtain ⟨a1, a2, a3, a4, _, a6⟩ := specFetchOk hP (touchMemos s c) c hI1 hc1 ⟨sl', hsl'⟩ hpn
    refine ⟨a1, hL.ext.trans a2, a3.trans hL.memos, fun c' hb => hbusy c' (a4 c' hb), ?_⟩
    intro hd
    obtain ⟨sm, b1, b2, _, b4, _⟩ := a6
    refine ⟨sm, b1, by rw [b2, hL.cur], ?_⟩
    have := of_decide_eq_false hd
    rw [b4]
    omega

/-! ### non-vacuity: a valid creator with a struct, `spec` not computed yet -/

namespace FSpecEx

/-- every node creates a struct `Ts(0, 5)` and returns the handle; `spec(t) = t.k + t.v` -/
def P : Prog where
  node _ := .create 0 5 fun h => .ret h
  spec k v := .ret ⟨k + v, none⟩

def idOf : Nat → Nat := fun _ => 0

def mc : Memo :=
  { value := ⟨5, some 0⟩, hgen := some 0, va := 1, ca := 1, dur := 3, deepAt := 1, origin := none,
    ts := some 0, obs := [] }

def sl : Slot := { gen := 0, k := 0, v := 5, fca := 1, dur := 3, upd := 1 }

/-- node 0 was executed in revision 1 -/
def st : State :=
  { cur := 1, lch := fun _ => 1, inp := fun _ => ⟨0, 1, 0⟩,
    memos := fun q => if q = 0 then some mc else none,
    slots := fun q => if q = 0 then some sl else none,
    smemos := fun _ => none, nextGen := 1, wlog := [], trace := [], panic := none }

theorem wf2 : Wf2 P idOf where
  node _ := Wf2B.create _ 0 5 _ rfl
    (Wf2B.mid _ _ (Wf2B.retPost _ _ (fun _ hc => Or.inr (Option.some.inj hc).symm)))
  spec k v := WfS.ret (k + v)

theorem lc1 (d : Nat) : lc st d = 1 := by
  unfold Model.CoreSpec.lc; split <;> rfl

theorem noObs : ∀ o, o ∈ mc.obs → False := fun _ ho => List.not_mem_nil ho

theorem nodeOk : NodeOk P idOf st 0 mc := by
  refine ⟨?_, rfl, fun _ o ho => (noObs o ho).elim, fun o ho => (noObs o ho).elim,
    fun o ho => (noObs o ho).elim, fun o c ho => (noObs o ho).elim, trivial, ?_, ?_,
    fun o ho => (noObs o ho).elim, fun _ o ho => (noObs o ho).elim, Or.inl (Nat.le_refl 1),
    fun o ho => (noObs o ho).elim⟩
  · refine ⟨Nat.le_refl 1, Nat.le_refl 1, Nat.le_refl 1, Nat.le_refl 1, Nat.le_refl 1, Nat.le_refl 3,
      fun o ho => (noObs o ho).elim, fun _ o ho => (noObs o ho).elim,
      Or.inl (by rw [lc1]; exact Nat.le_refl 1),
      fun o _ ho => (noObs o ho).elim, fun o _ _ ho => (noObs o ho).elim, fun o _ _ ho => (noObs o ho).elim,
      fun o ho => (noObs o ho).elim, fun w d hw => (by cases hw)⟩
  · refine ⟨⟨⟨5, some 0⟩, some (0, 5), none⟩, rfl, rfl, rfl, ?_, ?_⟩
    · intro k v h
      cases h; rfl
    · intro _
      refine ⟨⟨sl, rfl, rfl, rfl, Nat.le_refl 1, ?_, ?_⟩, ?_⟩
      · intro A hA; cases hA
      · intro o ho; cases ho
      · intro w0 h0; cases h0
  · intro c hc
    have : c = 0 := (Option.some.inj hc).symm
    exact Or.inl ⟨this, rfl⟩

theorem inv : Inv P idOf st := by
  refine ⟨rfl, Nat.le_refl 1, fun d => (by rw [lc1]; exact Nat.le_refl 1),
    fun d => (by rw [lc1]; exact Nat.le_refl 1), fun d => (by rw [lc1, lc1]; exact Nat.le_refl 1),
    fun d _ => lc1 d, fun i => Nat.le_refl 1, fun i => Nat.le_refl 1,
    fun w d hw => (by cases hw), fun w d hw => (by cases hw), ?_, ?_, ?_,
    fun c sm h => (by cases h), fun c sm h => (by cases h), ?_, fun c sm h => (by cases h)⟩
  · intro w h1 h2
    have : st.cur = 1 := rfl
    omega
  · intro q m hm
    by_cases hq : q = 0
    · subst hq
      have : mc = m := Option.some.inj hm
      subst this
      exact nodeOk
    · simp [st, hq] at hm
  · intro q hq _
    by_cases h0 : q = 0
    · subst h0; cases hq
    · simp [st, h0]
  · intro c sl' hsl
    by_cases h0 : c = 0
    · subst h0
      have : sl = sl' := Option.some.inj hsl
      subst this
      exact ⟨Nat.le_refl 1, Nat.le_refl 1, Nat.le_refl 1, Nat.le_refl 3⟩
    · simp [st, h0] at hsl

theorem creatorOk : memoSok st 0 := ⟨mc, rfl, Or.inl rfl⟩

end FSpecEx

/-- the hypotheses of `specFetchOk` are satisfiable; the request computes `spec = 0 + 5` -/
example : Inv FSpecEx.P FSpecEx.idOf FSpecEx.st ∧ memoSok FSpecEx.st 0 ∧ (∃ sl, FSpecEx.st.slots 0 = some sl) ∧
    (fetchSpec FSpecEx.P.spec FSpecEx.st 0).1.panic = none ∧
    (fetchSpec FSpecEx.P.spec FSpecEx.st 0).2.val = ⟨5, none⟩ ∧
    semSpec FSpecEx.P FSpecEx.st.inp 0 = ⟨5, none⟩ :=
  ⟨FSpecEx.inv, FSpecEx.creatorOk, ⟨FSpecEx.sl, rfl⟩, rfl, rfl,
   ((specFetchOk FSpecEx.wf2 FSpecEx.st 0 FSpecEx.inv FSpecEx.creatorOk ⟨FSpecEx.sl, rfl⟩ rfl).2.2.2.2.1).symm⟩

/-- … and of `specMcaOk`: no memo of `spec` yet, the answer is "changed" -/
example : (mcaSpec FSpecEx.P.spec FSpecEx.st 0 1).1.panic = none ∧ (mcaSpec FSpecEx.P.spec FSpecEx.st 0 1).2 = true ∧
    Inv FSpecEx.P FSpecEx.idOf (mcaSpec FSpecEx.P.spec FSpecEx.st 0 1).1 :=
  ⟨rfl, rfl, (specMcaOk FSpecEx.wf2 FSpecEx.st 0 1 FSpecEx.inv FSpecEx.creatorOk ⟨FSpecEx.sl, rfl⟩ rfl).1⟩

end SalsaVerif.Proofs.CoreSpec
