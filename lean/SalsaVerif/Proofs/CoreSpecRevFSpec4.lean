/-
  CoreSpec, histories with writes: requests of the specifiable function, part 4.
  Lock-step comparison of a fresh run with recorded reads; the leaf walk `deepEdgesLeaf`; the shape
  of `executeSpec`; `ObsOk` of a memo whose reads are all current (`obsOk_fresh`); the observer
  transfers `tr_none` (no old memo) and `tr_replace` (a dead old memo is replaced).  Core Lean only.
-/
import SalsaVerif.Proofs.CoreSpecRevFSpec3

namespace SalsaVerif.Proofs.CoreSpec
open SalsaVerif.Model.CoreSpec

/-! ### lock-step -/

/-- A fresh run (input reads `is`, all current) against a recorded list `l2` of the same body:
    EITHER same result, every recorded read is a current input read of the run and vice versa,
    OR some recorded input read (also read by the run) has another value now. -/
theorem replayS_lockstep (env : Nat → Inp) (idOf : Nat → Nat) : ∀ b, WfS b →
    ∀ (is : List Nat) (l2 : List Obs) (R1 R2 : SemRes),
    replayR 0 idOf b (is.map (inpObs env)) none none = some R1 →
    replayR 0 idOf b l2 none none = some R2 →
    (R1 = R2 ∧ (∀ o, o ∈ l2 → o.out = false ∧ ∃ i, i ∈ is ∧ o.dep = .inp i ∧ o.val = ⟨(env i).val, none⟩) ∧
       (∀ i, i ∈ is → ∃ o, o ∈ l2 ∧ o.out = false ∧ o.dep = .inp i)) ∨
    (∃ o i, o ∈ l2 ∧ o.out = false ∧ i ∈ is ∧ o.dep = .inp i ∧ o.val ≠ ⟨(env i).val, none⟩) := by
  intro b hb
  induction hb with
  | ret n =>
    intro is l2 R1 R2 h1 h2
    cases is with
    | cons j is' => simp [replayR] at h1
    | nil =>
      cases l2 with
      | cons a r => simp [replayR] at h2
      | nil =>
        simp only [List.map_nil, replayR, Option.some.injEq] at h1 h2
        left
        refine ⟨h1.symm.trans h2, ?_, ?_⟩
        · intro o ho; simp at ho
        · intro i hi; simp at hi
  | read i k _ ih =>
    intro is l2 R1 R2 h1 h2
    cases is with
    | nil => simp [replayR] at h1
    | cons j is' =>
      cases l2 with
      | nil => simp [replayR] at h2
      | cons a2 r2 =>
        simp only [List.map_cons, replayR] at h1 h2
        split at h1
        · rename_i hc1
          split at h2
          · rename_i hc2
            have hj : j = i := by
              have := hc1.2
              simp only [inpObs, Dep.inp.injEq] at this
              exact this
            subst hj
            by_cases hv : a2.val = ⟨(env j).val, none⟩
            · rw [hv] at h2
              rcases ih (env j).val is' r2 R1 R2 h1 h2 with ⟨e, hall, hconv⟩ | ⟨o, i', a, b, c, d, e⟩
              · left
                refine ⟨e, ?_, ?_⟩
                · intro o ho
                  rcases List.mem_cons.mp ho with e' | ho'
                  · subst e'
                    exact ⟨hc2.1, j, List.mem_cons_self, hc2.2, hv⟩
                  · obtain ⟨x, i', y, z⟩ := hall o ho'
                    exact ⟨x, i', List.mem_cons_of_mem _ y, z⟩
                · intro i' hi'
                  rcases List.mem_cons.mp hi' with e' | hi''
                  · subst e'
                    exact ⟨a2, List.mem_cons_self, hc2.1, hc2.2⟩
                  · obtain ⟨o, x, y⟩ := hconv i' hi''
                    exact ⟨o, List.mem_cons_of_mem _ x, y⟩
              · right
                exact ⟨o, i', List.mem_cons_of_mem _ a, b, List.mem_cons_of_mem _ c, d, e⟩
            · right
              exact ⟨a2, j, List.mem_cons_self, hc2.1, List.mem_cons_self, hc2.2, hv⟩
          · simp at h2
        · simp at h1

/-! ### the leaf walk -/

theorem depChangedLeaf_state {s : State} {d : Dep} {rev : Nat} (hs : s.panic = none)
    (hp : (depChangedLeaf s d rev).1.panic = none) : (depChangedLeaf s d rev).1 = s := by
  unfold depChangedLeaf at hp ⊢
  split
  · rfl
  · split
    · rfl
    · rename_i c hn
      simp only [hn] at hp
      rw [fail_panic_none hs] at hp; cases hp
  · rfl

theorem depChangedLeaf_field {s : State} {c : Nat} {sl : Slot} (rev : Nat) (h : s.slots c = some sl) :
    (depChangedLeaf s (.field c) rev).2 = decide (sl.fca > rev) := by
  simp [depChangedLeaf, h]

theorem deepEdgesLeaf_spec : ∀ (obs : List Obs) (s : State) (rev : Nat), s.panic = none →
    (deepEdgesLeaf obs s rev).1.panic = none →
    (deepEdgesLeaf obs s rev).1 = s ∧
    ((deepEdgesLeaf obs s rev).2 = true → ∀ o, o ∈ obs → o.recd = true → o.out = false →
        (depChangedLeaf s o.dep rev).2 = false) ∧
    ((deepEdgesLeaf obs s rev).2 = false → ∃ o, o ∈ obs ∧ o.recd = true ∧ o.out = false ∧
        (depChangedLeaf s o.dep rev).2 = true) := by
  intro obs
  induction obs with
  | nil =>
    intro s rev _ _
    refine ⟨rfl, ?_, ?_⟩
    · intro _ o ho; simp at ho
    · intro h; simp [deepEdgesLeaf] at h
  | cons o os ih =>
    intro s rev hs hp
    simp only [deepEdgesLeaf] at hp ⊢
    by_cases hcond : (o.recd && !o.out) = true
    · rw [if_pos hcond] at hp ⊢
      have hro : o.recd = true ∧ o.out = false := by
        cases h1 : o.recd <;> cases h2 : o.out <;> simp_all
      cases hb : (depChangedLeaf s o.dep rev).2 with
      | true =>
        rw [hb] at hp
        rw [if_pos rfl] at hp ⊢
        refine ⟨depChangedLeaf_state hs hp, ?_, ?_⟩
        · intro h; simp at h
        · intro _; exact ⟨o, List.mem_cons_self, hro.1, hro.2, hb⟩
      | false =>
        rw [hb] at hp
        rw [if_neg Bool.false_ne_true] at hp ⊢
        have hp1 : (depChangedLeaf s o.dep rev).1.panic = none :=
          stickyNone (deepEdgesLeaf_rel primRel_sticky _ _ _) hp
        have h1 := depChangedLeaf_state hs hp1
        rw [h1] at hp ⊢
        obtain ⟨a, b, c⟩ := ih s rev hs hp
        refine ⟨a, ?_, ?_⟩
        · intro h o' ho' hr hout
          rcases List.mem_cons.mp ho' with e | ho''
          · subst e; exact hb
          · exact b h o' ho'' hr hout
        · intro h
          obtain ⟨o', x, y⟩ := c h
          exact ⟨o', List.mem_cons_of_mem _ x, y⟩
    · rw [if_neg hcond] at hp ⊢
      obtain ⟨a, b, c⟩ := ih s rev hs hp
      refine ⟨a, ?_, ?_⟩
      · intro h o' ho' hr hout
        rcases List.mem_cons.mp ho' with e | ho''
        · subst e
          exact absurd (by simp [hr, hout]) hcond
        · exact b h o' ho'' hr hout
      · intro h
        obtain ⟨o', x, y⟩ := c h
        exact ⟨o', List.mem_cons_of_mem _ x, y⟩

/-! ### the shape of `executeSpec` -/

/-- the memo `execute` installs for `spec` -/
def derivedMemo (cur : Nat) (v : Val) (ca : Nat) (F : Frame) : Memo :=
  { value := v, hgen := none, va := cur, ca := ca, dur := F.dur, deepAt := cur, origin := none, ts := none,
    obs := finalObs F.dur F.obs }

theorem executeSpec_shape {P : Prog} (idOf : Nat → Nat) (hS : ∀ k v, WfS (P.spec k v)) {s : State} {c : Nat}
    {sl : Slot} (old : Option Memo) (hsl : s.slots c = some sl) :
    ∃ (t : State) (slt : Slot) (is : List Nat) (v : Val), LockR c s t ∧ t.slots c = some slt ∧ SlotEq sl slt ∧
      replayR 0 idOf (P.spec slt.k slt.v) (is.map (inpObs t.inp)) none none = some ⟨v, none, none⟩ ∧
      executeSpec P.spec s c old =
        (setSMemo (failIf t (backdate old false v none (specFrame t.inp c slt is).ca
            (specFrame t.inp c slt is).dur t.cur).2 .backdateViolation) c
          (some (derivedMemo t.cur v (backdate old false v none (specFrame t.inp c slt is).ca
            (specFrame t.inp c slt is).dur t.cur).1 (specFrame t.inp c slt is))),
         ⟨v, (backdate old false v none (specFrame t.inp c slt is).ca (specFrame t.inp c slt is).dur t.cur).1,
          (specFrame t.inp c slt is).dur⟩) := by
  have hsl' : (emit s (.execS c (genOf s c))).slots c = some sl := hsl
  obtain ⟨t, slt, is, v, hL, h1, h2, h3, h4⟩ := runSpec_trace idOf hS hsl'
  refine ⟨t, slt, is, v, (lockR_emit c s _).trans hL, h1, h2, h4, ?_⟩
  unfold executeSpec
  simp only [h3]
  rfl

theorem failIf_flag {t : State} {b : Bool} {p : Panic} {c : Nat} {m : Option Memo} (ht : t.panic = none)
    (hp : (setSMemo (failIf t b p) c m).panic = none) : b = false := by
  cases b with
  | false => rfl
  | true =>
    simp only [setSMemo_panic, failIf, if_true] at hp
    rw [fail_panic_none ht] at hp; cases hp

/-! ### a memo whose reads are all current -/

theorem no_late_write {P idOf t c mc} (hI : Inv P idOf t) (hm : t.memos c = some mc) (hs : SOK t mc) :
    ∀ w d, (w, d) ∈ t.wlog → mc.dur ≤ d → mc.va < w → False := by
  intro w d hw hd hlt
  have _ := hm
  rcases hs with e | e
  · have h1 := hI.wlog_lc w d hw 0 (Nat.zero_le _)
    have h2 := hI.lc_le 0
    omega
  · have h1 := hI.wlog_lc w d hw mc.dur hd
    omega

theorem leafAt {t : State} {c : Nat} {M : Memo} {va L : Nat} {o : Obs} {x : Res}
    (hleaf : o.dep = .field c ∨ ∃ i, o.dep = .inp i) (hsl : ∃ sl, t.slots c = some sl)
    (hx : depInfo t o.dep = some x) (hv : x.val = o.val) (hL : L ≤ x.dur) :
    ObsAt (setSMemo t c (some M)) va L o := by
  have hne : o.dep ≠ .spec c := by
    rcases hleaf with e | ⟨i, e⟩ <;> rw [e] <;> intro h <;> cases h
  refine ⟨?_, ?_, ?_⟩
  · intro x' hx'
    rw [depInfo_set_other _ _ _ hne, hx] at hx'
    cases hx'
    exact Or.inl ⟨hv, hL⟩
  · intro c' mc hd hs _
    exfalso
    rcases hleaf with e | ⟨i, e⟩
    · rw [e] at hd
      rcases hd with h | h
      · cases h
        obtain ⟨sl, hsl⟩ := hsl
        have hs' : t.slots c = none := hs
        rw [hsl] at hs'; cases hs'
      · cases h
    · rw [e] at hd; rcases hd with h | h <;> cases h
  · intro c' sl hd _ _
    exfalso
    rcases hleaf with e | ⟨i, e⟩ <;> rw [e] at hd <;> cases hd

theorem obsOk_fresh {P idOf t c M} (hI : Inv P idOf t) (hc : memoSok t c) (hsl : ∃ sl, t.slots c = some sl)
    (hva : M.va = t.cur) (hca : M.ca ≤ t.cur) (hd1 : 1 ≤ M.deepAt) (hdc : M.deepAt ≤ t.cur) (hd3 : M.dur ≤ 3)
    (hlc : lc t M.dur ≤ M.deepAt)
    (hreads : ∀ o, o ∈ M.obs → o.out = false ∧ (o.dep = .field c ∨ ∃ i, o.dep = .inp i) ∧
        ∃ x, depInfo t o.dep = some x ∧ x.val = o.val ∧ M.dur ≤ x.dur ∧ x.ca ≤ M.deepAt ∧
          (o.recd = false → 3 ≤ x.dur)) :
    ObsOk (setSMemo t c (some M)) M := by
  refine ⟨by rw [hva]; exact hca, Nat.le_of_eq hva, by rw [hva]; exact hI.cur1, by rw [hva]; exact hdc, hd1, hd3,
    ?_, ?_, Or.inl hlc, ?_, ?_, ?_, ?_, ?_⟩
  · intro o ho _
    obtain ⟨_, hleaf, x, hx, hv, hdur, _, _⟩ := hreads o ho
    exact leafAt hleaf hsl hx hv hdur
  · intro _ o ho _
    obtain ⟨_, hleaf, x, hx, _, _, hxc, _⟩ := hreads o ho
    have hne : o.dep ≠ .spec c := by
      rcases hleaf with e | ⟨i, e⟩ <;> rw [e] <;> intro h <;> cases h
    exact ⟨x, by rw [depInfo_set_other _ _ _ hne]; exact hx, hxc⟩
  · intro o q' ho _ hd
    obtain ⟨_, hleaf, _⟩ := hreads o ho
    rcases hleaf with e | ⟨i, e⟩ <;> rw [e] at hd <;> cases hd
  · intro o c' sm ho _ hd
    obtain ⟨_, hleaf, _⟩ := hreads o ho
    rcases hleaf with e | ⟨i, e⟩ <;> rw [e] at hd <;> cases hd
  · intro o c' mc ho _ hd hmc w d hw hdur hlt
    exfalso
    obtain ⟨_, hleaf, _⟩ := hreads o ho
    have hcc : c' = c := by
      rcases hleaf with e | ⟨i, e⟩
      · rw [e] at hd
        rcases hd with h | h
        · cases h; rfl
        · cases h
      · rw [e] at hd; rcases hd with h | h <;> cases h
    subst hcc
    obtain ⟨mc', hm', hs'⟩ := hc
    have hmc' : t.memos c' = some mc := hmc
    rw [hm'] at hmc'; cases hmc'
    exact no_late_write hI hm' hs' w d hw hdur hlt
  · intro o ho _ hr
    obtain ⟨_, hleaf, x, hx, hv, _, _, h3⟩ := hreads o ho
    exact leafAt hleaf hsl hx hv (h3 hr)
  · intro w d hw hd h
    have h1 := hI.wlog_lc w d hw M.dur hd
    have h2 : lc t M.dur ≤ M.deepAt := hlc
    omega

/-! ### observer transfers -/

theorem tr_none {t : State} {c : Nat} {M : Memo} {sl : Slot} (hsl : t.slots c = some sl)
    (hn : t.smemos c = none) (hca : sl.fca ≤ M.ca) :
    ∀ mp, ObsOk t mp → ∀ o, o ∈ mp.obs → o.out = false → o.dep = .spec c → ∀ L, mp.dur ≤ L →
      ObsAt t mp.va L o → (M.value = o.val ∧ L ≤ M.dur) ∨ Wit t L mp.va M.ca :=
  fun _ _ _ _ _ hd _ _ a => Or.inr ((a.deadsm c sl hd hsl hn).mono hca)

/-- The old memo `O` of `spec c` is replaced by `M`: either backdated (same stamp, same value, not
    less durable), or stamped `N > O.va` where the value and durability are kept or a relevant write
    (level ≥ `O.dur`) lies in `(O.va, N]`. -/
theorem tr_replace {P idOf t c} {O M : Memo} {N : Nat} (hI : Inv P idOf t) (hO : t.smemos c = some O) (hcv : O.ca ≤ O.va)
    (hU : (M.ca = O.ca ∧ M.value = O.value ∧ O.dur ≤ M.dur) ∨
          (M.ca = N ∧ O.va < N ∧ ((M.value = O.value ∧ O.dur ≤ M.dur) ∨ Wit t O.dur O.va N))) :
    ∀ mp, ObsOk t mp → ∀ o, o ∈ mp.obs → o.out = false → o.dep = .spec c → ∀ L, mp.dur ≤ L →
      ObsAt t mp.va L o → (M.value = o.val ∧ L ≤ M.dur) ∨ Wit t L mp.va M.ca := by
  intro mp ok o ho hout hd L hL a
  have hinfo : depInfo t o.dep = some ⟨O.value, O.ca, O.dur⟩ := by rw [hd]; simp [depInfo, hO]
  have old : (O.value = o.val ∧ L ≤ O.dur) ∨ Wit t L mp.va O.ca := a.iv _ hinfo
  rcases hU with ⟨e1, e2, e3⟩ | ⟨e1, hlt, hK⟩
  · rcases old with ⟨a1, a2⟩ | w
    · exact Or.inl ⟨e2.trans a1, Nat.le_trans a2 e3⟩
    · right; rw [e1]; exact w
  · rw [e1]
    rcases old with ⟨a1, a2⟩ | w
    · rcases hK with ⟨k1, k2⟩ | ⟨w', d, hw, hdl, hlo, hhi⟩
      · exact Or.inl ⟨k1.trans a1, Nat.le_trans a2 k2⟩
      · right
        refine ⟨w', d, hw, Nat.le_trans a2 hdl, ?_, hhi⟩
        cases hr : o.recd with
        | true =>
          have h5 : mp.deepAt ≤ O.va := ok.i5s o c O ho hout hd hr hO
          have h4 := ok.g4 w' d hw (Nat.le_trans hL (Nat.le_trans a2 hdl))
          omega
        | false =>
          have h3 : 3 ≤ O.dur := (i6_plain hI ok o ho hout hr _ hinfo).2
          have := hI.wlog3 w' d hw
          omega
    · exact Or.inr (w.mono (by omega))

theorem ca_replace {O M : Memo} {N : Nat} (hcv : O.ca ≤ O.va)
    (hU : (M.ca = O.ca ∧ M.value = O.value ∧ O.dur ≤ M.dur) ∨ (M.ca = N ∧ O.va < N ∧ True)) : O.ca ≤ M.ca := by
  rcases hU with ⟨e, _⟩ | ⟨e, h, _⟩
  · rw [e]; exact Nat.le_refl _
  · rw [e]; omega

end SalsaVerif.Proofs.CoreSpec
