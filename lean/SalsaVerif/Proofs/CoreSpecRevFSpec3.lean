/-
  CoreSpec, histories with writes: requests of the specifiable function, part 3.
  Running the body of `spec`: the frame it produces (`specFrame`), the reads as a replay, the
  lock-step comparison with the reads recorded in an old `Derived` memo, the leaf walk
  `deepEdgesLeaf`, the shape of `executeSpec`.  Core Lean only.
-/
import SalsaVerif.Proofs.CoreSpecRevFSpec2

namespace SalsaVerif.Proofs.CoreSpec
open SalsaVerif.Model.CoreSpec

theorem stickyNone {s t : State} (h : Sticky s t) (ht : t.panic = none) : s.panic = none := by
  cases hp : s.panic with
  | none => rfl
  | some p => rw [h p hp] at ht; cases ht

/-! ### frames of input reads -/

def inpRes (env : Nat → Inp) (i : Nat) : Res := ⟨⟨(env i).val, none⟩, (env i).ca, (env i).dur⟩

def inpObs (env : Nat → Inp) (i : Nat) : Obs := ⟨.inp i, ⟨(env i).val, none⟩, decide ((env i).dur ≠ 3), false⟩

def pushInp (env : Nat → Inp) (f : Frame) (i : Nat) : Frame := f.push (.inp i) (inpRes env i)

theorem foldPush_obs (env : Nat → Inp) : ∀ (is : List Nat) (f : Frame),
    (List.foldl (pushInp env) f is).obs = f.obs ++ is.map (inpObs env) := by
  intro is
  induction is with
  | nil => intro f; simp
  | cons i is ih =>
    intro f
    simp only [List.foldl_cons, List.map_cons]
    rw [ih]
    show (f.obs ++ [inpObs env i]) ++ _ = _
    rw [List.append_assoc]
    rfl

theorem foldPush_ca_ge (env : Nat → Inp) : ∀ (is : List Nat) (f : Frame),
    f.ca ≤ (List.foldl (pushInp env) f is).ca := by
  intro is
  induction is with
  | nil => intro f; exact Nat.le_refl _
  | cons i is ih =>
    intro f
    simp only [List.foldl_cons]
    exact Nat.le_trans (Nat.le_max_left _ _) (ih (pushInp env f i))

theorem foldPush_ca_mem (env : Nat → Inp) : ∀ (is : List Nat) (f : Frame) (i : Nat), i ∈ is →
    (env i).ca ≤ (List.foldl (pushInp env) f is).ca := by
  intro is
  induction is with
  | nil => intro f i h; cases h
  | cons j is ih =>
    intro f i h
    simp only [List.foldl_cons]
    rcases List.mem_cons.mp h with e | h'
    · subst e
      exact Nat.le_trans (Nat.le_max_right f.ca _) (foldPush_ca_ge env is (pushInp env f i))
    · exact ih _ i h'

theorem foldPush_ca_le (env : Nat → Inp) (B : Nat) : ∀ (is : List Nat) (f : Frame), f.ca ≤ B →
    (∀ i, i ∈ is → (env i).ca ≤ B) → (List.foldl (pushInp env) f is).ca ≤ B := by
  intro is
  induction is with
  | nil => intro f h _; exact h
  | cons j is ih =>
    intro f h hall
    simp only [List.foldl_cons]
    apply ih
    · exact Nat.max_le.mpr ⟨h, hall j (by simp)⟩
    · intro i hi; exact hall i (by simp [hi])

theorem foldPush_dur_le (env : Nat → Inp) : ∀ (is : List Nat) (f : Frame),
    (List.foldl (pushInp env) f is).dur ≤ f.dur := by
  intro is
  induction is with
  | nil => intro f; exact Nat.le_refl _
  | cons i is ih =>
    intro f
    simp only [List.foldl_cons]
    exact Nat.le_trans (ih (pushInp env f i)) (Nat.min_le_left _ _)

theorem foldPush_dur_mem (env : Nat → Inp) : ∀ (is : List Nat) (f : Frame) (i : Nat), i ∈ is →
    (List.foldl (pushInp env) f is).dur ≤ (env i).dur := by
  intro is
  induction is with
  | nil => intro f i h; cases h
  | cons j is ih =>
    intro f i h
    simp only [List.foldl_cons]
    rcases List.mem_cons.mp h with e | h'
    · subst e
      exact Nat.le_trans (foldPush_dur_le env is (pushInp env f i)) (Nat.min_le_right f.dur _)
    · exact ih _ i h'

theorem foldPush_dur_ge (env : Nat → Inp) (k : Nat) : ∀ (is : List Nat) (f : Frame), k ≤ f.dur →
    (∀ i, i ∈ is → k ≤ (env i).dur) → k ≤ (List.foldl (pushInp env) f is).dur := by
  intro is
  induction is with
  | nil => intro f h _; exact h
  | cons j is ih =>
    intro f h hall
    simp only [List.foldl_cons]
    apply ih
    · exact Nat.le_min.mpr ⟨h, hall j (by simp)⟩
    · intro i hi; exact hall i (by simp [hi])

/-! ### the body of `spec` as a list of input reads -/

theorem runS_trace (idOf : Nat → Nat) : ∀ b, WfS b → ∀ (s : State) (f : Frame),
    ∃ (is : List Nat) (v : Val),
      runBody noFetch noFetch none b s f = (s, List.foldl (pushInp s.inp) f is, v) ∧
      replayR 0 idOf b (is.map (inpObs s.inp)) none none = some ⟨v, none, none⟩ := by
  intro b hb
  induction hb with
  | ret n => intro s f; exact ⟨[], ⟨n, none⟩, rfl, rfl⟩
  | read i k _ ih =>
    intro s f
    obtain ⟨is, v, h1, h2⟩ := ih (s.inp i).val s (f.push (.inp i) (inpRes s.inp i))
    refine ⟨i :: is, v, ?_, ?_⟩
    · simp only [runBody, readDep, List.foldl_cons]
      exact h1
    · simp only [List.map_cons, replayR, inpObs, and_self, if_true]
      exact h2

def fieldRes (sl : Slot) : Res := ⟨⟨sl.v, none⟩, sl.fca, sl.dur⟩

def fieldObs (c : Nat) (sl : Slot) : Obs := ⟨.field c, ⟨sl.v, none⟩, decide (sl.dur ≠ 3), false⟩

/-- the frame after `fn spec`: the tracked field, then the input reads `is` -/
def specFrame (env : Nat → Inp) (c : Nat) (sl : Slot) (is : List Nat) : Frame :=
  List.foldl (pushInp env) ((frame0 none).push (.field c) (fieldRes sl)) is

theorem specFrame_obs (env c sl is) : (specFrame env c sl is).obs = fieldObs c sl :: is.map (inpObs env) := by
  unfold specFrame
  rw [foldPush_obs]
  rfl

theorem specFrame_ca_field (env c sl is) : sl.fca ≤ (specFrame env c sl is).ca :=
  Nat.le_trans (Nat.le_max_right 1 _) (foldPush_ca_ge env is ((frame0 none).push (.field c) (fieldRes sl)))

theorem specFrame_ca1 (env c sl is) : 1 ≤ (specFrame env c sl is).ca :=
  Nat.le_trans (Nat.le_max_left 1 sl.fca) (foldPush_ca_ge env is ((frame0 none).push (.field c) (fieldRes sl)))

theorem specFrame_ca_mem (env c sl is) (i : Nat) (h : i ∈ is) : (env i).ca ≤ (specFrame env c sl is).ca :=
  foldPush_ca_mem env is _ i h

theorem specFrame_ca_le (env c sl is) (B : Nat) (h1 : 1 ≤ B) (h2 : sl.fca ≤ B) (h3 : ∀ i, i ∈ is → (env i).ca ≤ B) :
    (specFrame env c sl is).ca ≤ B :=
  foldPush_ca_le env B is _ (Nat.max_le.mpr ⟨h1, h2⟩) h3

theorem specFrame_dur3 (env c sl is) : (specFrame env c sl is).dur ≤ 3 :=
  Nat.le_trans (foldPush_dur_le env is ((frame0 none).push (.field c) (fieldRes sl))) (Nat.min_le_left 3 sl.dur)

theorem specFrame_dur_field (env c sl is) : (specFrame env c sl is).dur ≤ sl.dur :=
  Nat.le_trans (foldPush_dur_le env is ((frame0 none).push (.field c) (fieldRes sl))) (Nat.min_le_right 3 sl.dur)

theorem specFrame_dur_mem (env c sl is) (i : Nat) (h : i ∈ is) : (specFrame env c sl is).dur ≤ (env i).dur :=
  foldPush_dur_mem env is _ i h

theorem specFrame_dur_ge (env c sl is) (k : Nat) (h1 : k ≤ 3) (h2 : k ≤ sl.dur) (h3 : ∀ i, i ∈ is → k ≤ (env i).dur) :
    k ≤ (specFrame env c sl is).dur :=
  foldPush_dur_ge env k is _ (Nat.le_min.mpr ⟨h1, h2⟩) h3

/-- the run of `fn spec(db, t) { let (k, v) = (t.k(db), t.v(db)); body k v }` -/
theorem runSpec_trace {P : Prog} (idOf : Nat → Nat) (hS : ∀ k v, WfS (P.spec k v)) {s : State} {c : Nat}
    {sl : Slot} (hsl : s.slots c = some sl) :
    ∃ (t : State) (slt : Slot) (is : List Nat) (v : Val), LockR c s t ∧ t.slots c = some slt ∧ SlotEq sl slt ∧
      runBody noFetch noFetch none (specBody P.spec c) s (frame0 none) = (t, specFrame t.inp c slt is, v) ∧
      replayR 0 idOf (P.spec slt.k slt.v) (is.map (inpObs t.inp)) none none = some ⟨v, none, none⟩ := by
  have h1 : identStep s c = (lockSlot s c sl, sl.k) := by simp [identStep, hsl]
  have hsl2 : (lockSlot s c sl).slots c = some { sl with upd := s.cur } := by simp [lockSlot]
  have h2 : readDep noFetch noFetch (lockSlot s c sl) (.field c) =
      (lockSlot (lockSlot s c sl) c { sl with upd := s.cur }, fieldRes sl) := by
    simp [readDep, hsl2, fieldRes]
  have hL : LockR c s (lockSlot (lockSlot s c sl) c { sl with upd := s.cur }) :=
    (lockR_lockSlot hsl).trans (lockR_lockSlot hsl2)
  obtain ⟨is, v, e1, e2⟩ := runS_trace idOf _ (hS sl.k sl.v)
    (lockSlot (lockSlot s c sl) c { sl with upd := s.cur }) ((frame0 none).push (.field c) (fieldRes sl))
  refine ⟨_, { sl with upd := s.cur }, is, v, hL, by simp [lockSlot], ⟨rfl, rfl, rfl, rfl, rfl⟩, ?_, e2⟩
  simp only [specBody, runBody, h1, h2]
  exact e1

/-! ### the flags do not matter for a replay -/

theorem replayR_clear (self : Nat) (idOf : Nat → Nat) : ∀ b (obs : List Obs) ts sp,
    replayR self idOf b (obs.map fun o => { o with recd := false }) ts sp = replayR self idOf b obs ts sp := by
  intro b
  induction b with
  | ret v =>
    intro obs ts sp
    cases obs <;> rfl
  | read d k ih =>
    intro obs ts sp
    cases obs with
    | nil => rfl
    | cons o rest =>
      simp only [List.map_cons, replayR]
      rw [ih]
  | ident c k ih => intro obs ts sp; simp only [replayR]; exact ih _ _ _ _
  | create idk v k ih =>
    intro obs ts sp
    cases ts with
    | some t => rfl
    | none => simp only [replayR]; exact ih _ _ _ _
  | specify c v k ih =>
    intro obs ts sp
    cases obs with
    | nil => rfl
    | cons o rest =>
      simp only [List.map_cons, replayR]
      rw [ih]

theorem finalObs_cases (dur : Nat) (obs : List Obs) :
    finalObs dur obs = obs ∨ (dur = 3 ∧ finalObs dur obs = obs.map fun o => { o with recd := false }) := by
  unfold finalObs
  split
  · rename_i h; exact Or.inr ⟨h, rfl⟩
  · exact Or.inl rfl

theorem replayR_final (self : Nat) (idOf : Nat → Nat) (dur : Nat) (b obs ts sp) :
    replayR self idOf b (finalObs dur obs) ts sp = replayR self idOf b obs ts sp := by
  rcases finalObs_cases dur obs with e | ⟨_, e⟩
  · rw [e]
  · rw [e, replayR_clear]

theorem mem_finalObs {dur : Nat} {obs : List Obs} {o : Obs} (h : o ∈ finalObs dur obs) :
    ∃ o', o' ∈ obs ∧ o.dep = o'.dep ∧ o.val = o'.val ∧ o.out = o'.out ∧
      (o.recd = false → o'.recd = false ∨ dur = 3) := by
  rcases finalObs_cases dur obs with e | ⟨h3, e⟩
  · rw [e] at h
    exact ⟨o, h, rfl, rfl, rfl, fun hr => Or.inl hr⟩
  · rw [e] at h
    obtain ⟨o', ho', rfl⟩ := List.mem_map.mp h
    exact ⟨o', ho', rfl, rfl, rfl, fun _ => Or.inr h3⟩

theorem finalObs_cons (dur : Nat) (o : Obs) (rest : List Obs) :
    ∃ o', finalObs dur (o :: rest) = o' :: finalObs dur rest ∧ o'.dep = o.dep ∧ o'.val = o.val ∧ o'.out = o.out := by
  unfold finalObs
  split
  · exact ⟨_, rfl, rfl, rfl, rfl⟩
  · exact ⟨o, rfl, rfl, rfl, rfl⟩

end SalsaVerif.Proofs.CoreSpec
