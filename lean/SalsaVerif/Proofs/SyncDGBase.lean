/-
  Helper lemmas for the wait-for graph model (Model/SyncDG.lean): paths in a functional graph,
  soundness of `dependsOnLoop`, list lemmas for `swapRemoveAt`.
-/
import SalsaVerif.Model.SyncDG

namespace SalsaVerif.Proofs.SyncDG
open SalsaVerif.Model.SyncDG

theorem _root_.SalsaVerif.Model.SyncDG.Path.trans {e : Nat → Option Nat} {a b c : Nat} (h1 : Path e a b) (h2 : Path e b c) :
    Path e a c := by
  induction h1 with
  | single h => exact Path.cons h h2
  | cons h _ ih => exact Path.cons h (ih h2)

theorem _root_.SalsaVerif.Model.SyncDG.Path.mono {e e' : Nat → Option Nat} (h : ∀ a b, e' a = some b → e a = some b)
    {a b : Nat} (p : Path e' a b) : Path e a b := by
  induction p with
  | single h1 => exact Path.single (h _ _ h1)
  | cons h1 _ ih => exact Path.cons (h _ _ h1) ih

theorem _root_.SalsaVerif.Model.SyncDG.Path.head {e : Nat → Option Nat} {a b : Nat} (p : Path e a b) :
    ∃ m, e a = some m ∧ (m = b ∨ Path e m b) := by
  cases p with
  | single h => exact ⟨_, h, Or.inl rfl⟩
  | cons h p' => exact ⟨_, h, Or.inr p'⟩

theorem _root_.SalsaVerif.Model.SyncDG.Path.source_isSome {e : Nat → Option Nat} {a b : Nat} (p : Path e a b) : (e a).isSome := by
  obtain ⟨m, h, _⟩ := p.head
  simp [h]

/-- Adding (or redirecting) the edge `f → t`: every new path is an old path or goes through `f → t`. -/
theorem path_upd_some {e : Nat → Option Nat} {f t a b : Nat}
    (p : Path (upd e f (some t)) a b) :
    Path e a b ∨ ((a = f ∨ Path e a f) ∧ (t = b ∨ Path e t b)) := by
  induction p with
  | @single a b h =>
    by_cases haf : a = f
    · subst haf
      simp at h
      exact Or.inr ⟨Or.inl rfl, Or.inl h⟩
    · rw [upd_other _ _ _ _ haf] at h
      exact Or.inl (Path.single h)
  | @cons a m b h _ ih =>
    by_cases haf : a = f
    · subst haf
      simp at h
      subst h
      rcases ih with ih | ⟨_, ih⟩
      · exact Or.inr ⟨Or.inl rfl, Or.inr ih⟩
      · exact Or.inr ⟨Or.inl rfl, ih⟩
    · rw [upd_other _ _ _ _ haf] at h
      rcases ih with ih | ⟨ih1, ih2⟩
      · exact Or.inl (Path.cons h ih)
      · refine Or.inr ⟨Or.inr ?_, ih2⟩
        rcases ih1 with rfl | ih1
        · exact Path.single h
        · exact Path.cons h ih1

/-- Removing an edge creates no path. -/
theorem path_upd_none {e : Nat → Option Nat} {f a b : Nat} (p : Path (upd e f none) a b) :
    Path e a b := by
  refine Path.mono ?_ p
  intro x y h
  by_cases hx : x = f
  · subst hx; simp at h
  · rwa [upd_other _ _ _ _ hx] at h

/-- No new cycle when adding `f → t` to an acyclic graph in which `t` does not reach `f`. -/
theorem acyclic_upd_some {e : Nat → Option Nat} {f t : Nat}
    (hac : ∀ x, ¬ Path e x x) (hne : t ≠ f) (hnp : ¬ Path e t f) :
    ∀ x, ¬ Path (upd e f (some t)) x x := by
  intro x p
  rcases path_upd_some p with p | ⟨h1, h2⟩
  · exact hac x p
  · rcases h1 with rfl | h1 <;> rcases h2 with h2 | h2
    · exact hne h2
    · exact hnp h2
    · subst h2; exact hnp h1
    · exact hnp (h2.trans h1)

/-- `depends_on` answering `false` is sound: there is no path (and the start is not the target
    when the start is unblocked). -/
theorem dependsOnLoop_false {e : Nat → Option Nat} {b : Nat} :
    ∀ (fuel a : Nat), dependsOnLoop e b fuel a = some false →
      ¬ Path e a b ∧ (e a = none → a ≠ b) := by
  intro fuel
  induction fuel with
  | zero => intro a h; simp [dependsOnLoop] at h
  | succ n ih =>
    intro a h
    unfold dependsOnLoop at h
    cases hea : e a with
    | none =>
      simp only [hea] at h
      refine ⟨?_, fun _ => ?_⟩
      · intro p
        have := p.source_isSome
        simp [hea] at this
      · simpa using h
    | some q =>
      simp only [hea] at h
      by_cases hq : q = b
      · simp [hq] at h
      · simp only [hq, if_false] at h
        have := ih q h
        refine ⟨?_, fun h' => by simp at h'⟩
        intro p
        obtain ⟨m, hm, hp⟩ := p.head
        rw [hea] at hm
        cases hm
        rcases hp with hp | hp
        · exact hq hp
        · exact this.1 hp

/-- `depends_on` answering `true` is sound. -/
theorem dependsOnLoop_true {e : Nat → Option Nat} {b : Nat} :
    ∀ (fuel a : Nat), dependsOnLoop e b fuel a = some true →
      Path e a b ∨ (a = b ∧ e a = none) := by
  intro fuel
  induction fuel with
  | zero => intro a h; simp [dependsOnLoop] at h
  | succ n ih =>
    intro a h
    unfold dependsOnLoop at h
    cases hea : e a with
    | none =>
      simp only [hea] at h
      exact Or.inr ⟨by simpa using h, rfl⟩
    | some q =>
      simp only [hea] at h
      by_cases hq : q = b
      · subst hq; exact Or.inl (Path.single hea)
      · simp only [hq, if_false] at h
        rcases ih q h with p | ⟨rfl, _⟩
        · exact Or.inl (Path.cons hea p)
        · exact absurd rfl hq

/-! ### `swapRemoveAt`, `SmallSet::remove` -/

theorem set_eq_take (l : List Nat) (i : Nat) (y t : Nat) (h : l[i]? = some t) :
    l.set i y = l.take i ++ y :: l.drop (i+1) ∧ l = l.take i ++ t :: l.drop (i+1) := by
  have hi : i < l.length := by
    rcases Nat.lt_or_ge i l.length with h' | h'
    · exact h'
    · rw [List.getElem?_eq_none h'] at h; cases h
  constructor
  · rw [List.set_eq_take_append_cons_drop]; simp [hi]
  · have : l[i] = t := by
      rw [List.getElem?_eq_getElem hi] at h; exact Option.some.inj h
    subst this
    simp

theorem swapRemoveAt_spec (l : List Nat) (i t : Nat) (hnd : l.Nodup) (h : l[i]? = some t) :
    (swapRemoveAt l i).Nodup ∧ ∀ x, x ∈ swapRemoveAt l i ↔ (x ∈ l ∧ x ≠ t) := by
  have hi : i < l.length := by
    rcases Nat.lt_or_ge i l.length with h' | h'
    · exact h'
    · rw [List.getElem?_eq_none h'] at h; cases h
  unfold swapRemoveAt
  rcases List.eq_nil_or_concat l with rfl | ⟨l', y, rfl⟩
  · simp at hi
  · simp only [List.concat_eq_append] at *
    simp only [List.getLast?_append, List.getLast?_singleton, Option.some_or]
    rw [List.nodup_append] at hnd
    obtain ⟨hnd', _, hy⟩ := hnd
    have hy' : y ∉ l' := fun hm => hy y hm y (by simp) rfl
    by_cases hil : i = l'.length
    · subst hil
      have : t = y := by simpa using h.symm
      subst this
      simp only [List.set_append_right _ _ (Nat.le_refl _), Nat.sub_self, List.set_cons_zero, List.dropLast_concat]
      refine ⟨hnd', fun x => ?_⟩
      simp only [List.mem_append, List.mem_singleton]
      constructor
      · intro hx; exact ⟨Or.inl hx, fun hxt => hy' (hxt ▸ hx)⟩
      · rintro ⟨hx | hx, hne⟩
        · exact hx
        · exact absurd hx hne
    · have hi' : i < l'.length := by simp at hi; omega
      have ht : l'[i]? = some t := by rwa [List.getElem?_append_left hi'] at h
      obtain ⟨e1, e2⟩ := set_eq_take l' i y t ht
      rw [List.set_append_left _ _ hi', List.dropLast_concat, e1]
      have hnd2 := hnd'
      rw [e2] at hnd2
      have hy2 := hy'
      rw [e2] at hy2
      simp only [List.mem_append, List.mem_cons, not_or] at hy2
      rw [List.nodup_append] at hnd2 ⊢
      obtain ⟨n1, n2, n3⟩ := hnd2
      rw [List.nodup_cons] at n2 ⊢
      refine ⟨⟨n1, ⟨hy2.2.2, n2.2⟩, ?_⟩, ?_⟩
      · intro a ha b hb
        simp only [List.mem_cons] at hb
        rcases hb with rfl | hb
        · rintro rfl; exact hy2.1 ha
        · exact n3 a ha b (by simp [hb])
      · intro x
        have hmem : x ∈ l' ++ [y] ↔ x ∈ List.take i l' ∨ x = t ∨ x ∈ List.drop (i+1) l' ∨ x = y := by
          rw [List.mem_append, List.mem_singleton]
          conv => lhs; rw [e2]
          simp only [List.mem_append, List.mem_cons]
          constructor
          · rintro ((h|h|h)|h) <;> simp [h]
          · rintro (h|h|h|h) <;> simp [h]
        rw [hmem]
        simp only [List.mem_append, List.mem_cons]
        have ht1 : t ∉ List.take i l' := fun hm => n3 t hm t (by simp) rfl
        have ht2 : t ∉ List.drop (i+1) l' := n2.1
        have hty : t ≠ y := by
          rintro rfl; exact hy' (List.mem_of_getElem? ht)
        constructor
        · rintro (h | rfl | h)
          · exact ⟨Or.inl h, fun e => ht1 (e ▸ h)⟩
          · exact ⟨Or.inr (Or.inr (Or.inr rfl)), fun e => hty e.symm⟩
          · exact ⟨Or.inr (Or.inr (Or.inl h)), fun e => ht2 (e ▸ h)⟩
        · rintro ⟨h | h | h | h, hne⟩
          · exact Or.inl h
          · exact absurd h hne
          · exact Or.inr (Or.inr h)
          · exact Or.inr (Or.inl h)

theorem smallSetRemove_spec (l : List Nat) (v : Nat) (hnd : l.Nodup) :
    (smallSetRemove l v).Nodup ∧ ∀ x, x ∈ smallSetRemove l v ↔ (x ∈ l ∧ x ≠ v) := by
  unfold smallSetRemove
  cases hf : l.findIdx? (· == v) with
  | none =>
    simp only
    rw [List.findIdx?_eq_none_iff] at hf
    refine ⟨hnd, fun x => ⟨fun hx => ⟨hx, ?_⟩, fun hx => hx.1⟩⟩
    rintro rfl
    have := hf x hx
    simp at this
  | some i =>
    simp only
    rw [List.findIdx?_eq_some_iff_getElem] at hf
    obtain ⟨hi, hp, _⟩ := hf
    have : l[i]? = some v := by
      rw [List.getElem?_eq_getElem hi]
      simp at hp
      rw [hp]
    exact swapRemoveAt_spec l i v hnd this

/-! ### `release_self`: the `claimed_twice` (hand-back) branch -/

/-- The sync entry of a re-claimed key after it has been handed back to its transfer target;
    `aw` is the new `anyone_waiting` flag. -/
def handedBack (st : SyncState) (aw : Bool) : SyncState :=
  { st with claimedTwice := false, owner := .transferred, anyoneWaiting := aw }

/-- The two outcomes of the `claimed_twice` branch of `release_self` (salsa e06010e):
    * QUIET: nobody waits, or the releasing thread owns the key's transfer target — only the sync entry
      changes (`anyone_waiting` keeps its value);
    * WAKE: somebody waits and the transfer chain does not resolve to the releasing thread —
      `anyone_waiting` is cleared and the dependents of the key are woken. -/
theorem releaseSelf_handback_cases {s s' : State} {t k : Nat} {st : SyncState}
    (hk : s.sync k = some st) (hct : st.claimedTwice = true) (h : releaseSelf s t k = some s') :
    ((st.anyoneWaiting = false ∨
        isOwnerOfTransferredQuery { s with sync := upd s.sync k (some (handedBack st st.anyoneWaiting)) } k t
          = some true) ∧
      s' = { s with sync := upd s.sync k (some (handedBack st st.anyoneWaiting)) }) ∨
    (st.anyoneWaiting = true ∧
      isOwnerOfTransferredQuery { s with sync := upd s.sync k (some (handedBack st st.anyoneWaiting)) } k t
        = some false ∧
      unblockRuntimesBlockedOn { s with sync := upd s.sync k (some (handedBack st false)) } k .completed
        = some s') := by
  unfold releaseSelf at h
  simp only [hk, hct, if_true] at h
  cases haw : st.anyoneWaiting with
  | false =>
    simp only [haw, Bool.false_eq_true, if_false, Option.some.injEq] at h
    refine Or.inl ⟨Or.inl rfl, ?_⟩
    rw [← h]; simp only [handedBack]
  | true =>
    simp only [haw, if_true] at h
    simp only [handedBack]
    split at h
    · cases h
    · next ho => exact Or.inl ⟨Or.inr ho, (Option.some.inj h).symm⟩
    · next ho => exact Or.inr ⟨trivial, ho, h⟩

/-- `is_owner_of_transferred_query` only reads `transferred` (and the ghost fuel). -/
theorem isOwnerOfTransferredQuery_congr {s s' : State} (k t : Nat) (ht : s'.transferred = s.transferred)
    (hb : s'.bound = s.bound) : isOwnerOfTransferredQuery s' k t = isOwnerOfTransferredQuery s k t := by
  simp only [isOwnerOfTransferredQuery, threadIdOfTransferredQuery, ht, hb]

end SalsaVerif.Proofs.SyncDG
