/-
  Helper lemmas for the wait-for graph model (Model/SyncDG.lean): paths in a functional graph,
  soundness of `dependsOnLoop`, list lemmas for `swapRemoveAt`.
-/
import SalsaVerif.Model.SyncDG

namespace SalsaVerif.Proofs.SyncDG
open SalsaVerif.Model.SyncDG

/-- A path of one or more `edges` steps. -/
inductive Path (e : Nat → Option Nat) : Nat → Nat → Prop
  | single {a b : Nat} : e a = some b → Path e a b
  | cons {a b c : Nat} : e a = some b → Path e b c → Path e a c

theorem Path.trans {e : Nat → Option Nat} {a b c : Nat} (h1 : Path e a b) (h2 : Path e b c) :
    Path e a c := by
  induction h1 with
  | single h => exact Path.cons h h2
  | cons h _ ih => exact Path.cons h (ih h2)

theorem Path.mono {e e' : Nat → Option Nat} (h : ∀ a b, e' a = some b → e a = some b)
    {a b : Nat} (p : Path e' a b) : Path e a b := by
  induction p with
  | single h1 => exact Path.single (h _ _ h1)
  | cons h1 _ ih => exact Path.cons (h _ _ h1) ih

theorem Path.head {e : Nat → Option Nat} {a b : Nat} (p : Path e a b) :
    ∃ m, e a = some m ∧ (m = b ∨ Path e m b) := by
  cases p with
  | single h => exact ⟨_, h, Or.inl rfl⟩
  | cons h p' => exact ⟨_, h, Or.inr p'⟩

theorem Path.source_isSome {e : Nat → Option Nat} {a b : Nat} (p : Path e a b) : (e a).isSome := by
  obtain ⟨m, h, _⟩ := p.head
  simp [h]

/-- Adding (or redirecting) the edge `f → t`: every new path is an old path or goes through `f → t`. -/
theorem path_upd_some {e : Nat → Option Nat} {f t a b : Nat}
    (p : Path (upd e f (some t)) a b) :
    Path e a b ∨ ((a = f ∨ Path e a f) ∧ (t = b ∨ Path e t b)) := by
  induction p with
  | @single a b h =>
    by_cases haf : a = f
    · subst haf
      simp at h
      exact Or.inr ⟨Or.inl rfl, Or.inl h⟩
    · rw [upd_other _ _ _ _ haf] at h
      exact Or.inl (Path.single h)
  | @cons a m b h _ ih =>
    by_cases haf : a = f
    · subst haf
      simp at h
      subst h
      rcases ih with ih | ⟨_, ih⟩
      · exact Or.inr ⟨Or.inl rfl, Or.inr ih⟩
      · exact Or.inr ⟨Or.inl rfl, ih⟩
    · rw [upd_other _ _ _ _ haf] at h
      rcases ih with ih | ⟨ih1, ih2⟩
      · exact Or.inl (Path.cons h ih)
      · refine Or.inr ⟨Or.inr ?_, ih2⟩
        rcases ih1 with rfl | ih1
        · exact Path.single h
        · exact Path.cons h ih1

/-- Removing an edge creates no path. -/
theorem path_upd_none {e : Nat → Option Nat} {f a b : Nat} (p : Path (upd e f none) a b) :
    Path e a b := by
  refine Path.mono ?_ p
  intro x y h
  by_cases hx : x = f
  · subst hx; simp at h
  · rwa [upd_other _ _ _ _ hx] at h

/-- No new cycle when adding `f → t` to an acyclic graph in which `t` does not reach `f`. -/
theorem acyclic_upd_some {e : Nat → Option Nat} {f t : Nat}
    (hac : ∀ x, ¬ Path e x x) (hne : t ≠ f) (hnp : ¬ Path e t f) :
    ∀ x, ¬ Path (upd e f (some t)) x x := by
  intro x p
  rcases path_upd_some p with p | ⟨h1, h2⟩
  · exact hac x p
  · rcases h1 with rfl | h1 <;> rcases h2 with h2 | h2
    · exact hne h2
    · exact hnp h2
    · subst h2; exact hnp h1
    · exact hnp (h2.trans h1)

/-- `depends_on` answering `false` is sound: there is no path (and the start is not the target
    when the start is unblocked). -/
theorem dependsOnLoop_false {e : Nat → Option Nat} {b : Nat} :
    ∀ (fuel a : Nat), dependsOnLoop e b fuel a = some false →
      ¬ Path e a b ∧ (e a = none → a ≠ b) := by
  intro fuel
  induction fuel with
  | zero => intro a h; simp [dependsOnLoop] at h
  | succ n ih =>
    intro a h
    unfold dependsOnLoop at h
    cases hea : e a with
    | none =>
      simp only [hea] at h
      refine ⟨?_, fun _ => ?_⟩
      · intro p
        have := p.source_isSome
        simp [hea] at this
      · simpa using h
    | some q =>
      simp only [hea] at h
      by_cases hq : q = b
      · simp [hq] at h
      · simp only [hq, if_false] at h
        have := ih q h
        refine ⟨?_, fun h' => by simp at h'⟩
        intro p
        obtain ⟨m, hm, hp⟩ := p.head
        rw [hea] at hm
        cases hm
        rcases hp with hp | hp
        · exact hq hp
        · exact this.1 hp

/-- `depends_on` answering `true` is sound. -/
theorem dependsOnLoop_true {e : Nat → Option Nat} {b : Nat} :
    ∀ (fuel a : Nat), dependsOnLoop e b fuel a = some true →
      Path e a b ∨ (a = b ∧ e a = none) := by
  intro fuel
  induction fuel with
  | zero => intro a h; simp [dependsOnLoop] at h
  | succ n ih =>
    intro a h
    unfold dependsOnLoop at h
    cases hea : e a with
    | none =>
      simp only [hea] at h
      exact Or.inr ⟨by simpa using h, rfl⟩
    | some q =>
      simp only [hea] at h
      by_cases hq : q = b
      · subst hq; exact Or.inl (Path.single hea)
      · simp only [hq, if_false] at h
        rcases ih q h with p | ⟨rfl, _⟩
        · exact Or.inl (Path.cons hea p)
        · exact absurd rfl hq

end SalsaVerif.Proofs.SyncDG
