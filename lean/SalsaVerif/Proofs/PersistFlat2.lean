/-
  C26 with flattening: the ghost input history `Hist`, the frontier bound `CaBnd`, the memo clauses
  `MemoJ` and the invariant `J` (see the header of PersistFlat1.lean).  Core Lean only.
-/
import SalsaVerif.Proofs.PersistFlat1b

namespace SalsaVerif.Proofs.PersistFlat
open SalsaVerif.Model.Core SalsaVerif.Model.Persist SalsaVerif.Proofs.Core SalsaVerif.Proofs.Persist

/-- the state-level part of `Inv` -/
structure Base (s : State) : Prop where
  cur1 : 1 ≤ s.cur
  lc_le : ∀ d, lc s d ≤ s.cur
  lc_ge1 : ∀ d, 1 ≤ lc s d
  lc_anti : ∀ d, lc s (d + 1) ≤ lc s d
  lc_never : ∀ d, 3 ≤ d → lc s d = 1
  inp_le : ∀ i, (s.inp i).ca ≤ s.cur
  inp_ge1 : ∀ i, 1 ≤ (s.inp i).ca

theorem Base.lc_mono {s} (hB : Base s) : ∀ d d', d ≤ d' → lc s d' ≤ lc s d := by
  intro d d' h
  induction h with
  | refl => exact Nat.le_refl _
  | step _ ih => exact Nat.le_trans (hB.lc_anti _) ih

/-- `H ρ` = the inputs as they were in revision `ρ` (ghost) -/
structure Hist (H : Nat → Nat → Inp) (s : State) : Prop where
  /-- an input is unchanged since its `changed_at` -/
  since : ∀ i ρ, (s.inp i).ca ≤ ρ → ρ ≤ s.cur → H ρ i = s.inp i
  /-- a change of an input of durability `D` was reported to every level `k ≤ D` -/
  lcw : ∀ ρ i k, 1 ≤ ρ → ρ < s.cur → H ρ i ≠ H (ρ + 1) i → k ≤ (H ρ i).dur → ρ + 1 ≤ lc s k
  /-- `changed_at` of an input in revision `ρ` is at most `ρ` -/
  hca : ∀ ρ i, 1 ≤ ρ → ρ ≤ s.cur → (H ρ i).ca ≤ ρ

theorem Hist.cur {H s} (hB : Base s) (hH : Hist H s) : H s.cur = s.inp := by
  funext i; exact hH.since i s.cur (hB.inp_le i) (Nat.le_refl _)

/-- an input whose durability in revision `a` is at least `d` is constant on `[a, cur]` when level
    `d` has not been written since `a` -/
theorem Hist.const_of_lc {H s} (hH : Hist H s) {a d i : Nat} (ha : 1 ≤ a)
    (hlc : lc s d ≤ a) (hd : d ≤ (H a i).dur) : ∀ ρ, a ≤ ρ → ρ ≤ s.cur → H ρ i = H a i := by
  intro ρ h1
  induction h1 with
  | refl => intro _; rfl
  | step h1 ih =>
    rename_i ρ
    intro h2
    have hρ := ih (Nat.le_of_succ_le h2)
    apply Classical.byContradiction
    intro hne
    have hne' : H ρ i ≠ H (ρ + 1) i := by
      intro e; apply hne; rw [← e]; exact hρ
    have h1' : a ≤ ρ := h1
    have := hH.lcw ρ i d (Nat.le_trans ha h1') (Nat.lt_of_succ_le h2) hne' (by rw [hρ]; exact hd)
    omega

/-! ### the frontier of a fresh execution -/

/-- `x` is at most 1, or the `changed_at` of an input read on the frontier, or of a persisted
    function first reached on the frontier -/
def CaBnd (pers : Nat → Bool) (P : Nat → Body) (inp : Nat → Inp) (s : State) (q x : Nat) : Prop :=
  x ≤ 1 ∨ ∃ k, NP P inp pers q k ∧
    ((∃ i, Dep.inp i ∈ sdeps P inp k ∧ x ≤ (s.inp i).ca) ∨
     (∃ p mp, Dep.qry p ∈ sdeps P inp k ∧ pers p = true ∧ s.memos p = some mp ∧ x ≤ mp.ca))

/-! ### the invariant -/

def odOf (m : Memo) : List Dep := m.obs.map (·.dep)

/-- the premise of Covers: no input edge that is a leaf under the anchor, and no function edge,
    has a stamp after the anchor -/
def PremL (P : Nat → Body) (H : Nat → Nat → Inp) (s : State) (q : Nat) (m : Memo) : Prop :=
  (∀ i, Dep.inp i ∈ odOf m → Leaf P (H m.va) q i → (s.inp i).ca ≤ m.va) ∧
  (∀ k mk, Dep.qry k ∈ odOf m → s.memos k = some mk → mk.ca ≤ m.va)

/-- the memo of `k` and, recursively, the memos of its function edges have edge lists that cut
    the evaluation under their own anchors -/
inductive CutC (P : Nat → Body) (H : Nat → Nat → Inp) (s : State) : Nat → Prop
  | mk {k : Nat} {mk : Memo} : s.memos k = some mk → Cut P (H mk.va) (odOf mk) k →
      (∀ p, Dep.qry p ∈ odOf mk → CutC P H s p) → CutC P H s k

structure MemoJ (pers : Nat → Bool) (P : Nat → Body) (H : Nat → Nat → Inp) (R0 : Nat) (s : State)
    (q : Nat) (m : Memo) : Prop where
  ca_va : m.ca ≤ m.va
  va_cur : m.va ≤ s.cur
  deep1 : 1 ≤ m.deepAt
  deep_va : m.deepAt ≤ m.va
  dur3 : m.dur ≤ 3
  j3 : ∀ i, Leaf P (H m.va) q i → m.dur ≤ (H m.va i).dur
  j4 : ∀ i, Leaf P (H m.deepAt) q i → ∀ ρ, m.deepAt ≤ ρ → ρ ≤ m.va → H ρ i = H m.deepAt i
  j5 : CaBnd pers P (H m.va) s q m.ca
  j6 : (R0 ≤ m.va ∨ PremL P H s q m) → Cut P (H m.va) (odOf m) q
  j7 : ∀ k, Dep.qry k ∈ odOf m →
    Dep.qry k ∈ sdeps P (H m.va) q ∧ ∃ mk, s.memos k = some mk ∧ m.deepAt ≤ mk.va
  j7s : (∀ k, Dep.qry k ∈ odOf m → pers k = true) ∨ (∀ d, d ∈ sdeps P (H m.va) q → d ∈ odOf m)
  j6c : R0 ≤ m.va → CutC P H s q
  j8 : SOK s m → ∀ k, Dep.qry k ∈ odOf m →
    ∃ mk, s.memos k = some mk ∧ SOK s mk ∧ mk.ca ≤ m.va ∧ m.dur ≤ mk.dur
  j16 : ∀ k, Reach P (H m.va) q k → pers k = true → ∃ mk, s.memos k = some mk
  r0 : pers q = false → R0 ≤ m.deepAt
  pc : ∀ k mk, Reach P (H m.va) q k → s.memos k = some mk → mk.ca ≤ m.va →
    sem P (H m.va) k = mk.value ∧ m.dur ≤ mk.dur

structure J (pers : Nat → Bool) (P : Nat → Body) (H : Nat → Nat → Inp) (R0 : Nat) (s : State) : Prop where
  base : Base s
  hist : Hist H s
  r0 : R0 ≤ s.cur
  memo : ∀ q m, s.memos q = some m → MemoJ pers P H R0 s q m

theorem MemoJ.value {pers P H R0 s q m} (h : MemoJ pers P H R0 s q m) (hm : s.memos q = some m) :
    m.value = sem P (H m.va) q :=
  ((h.pc q m (Reach.refl q) hm h.ca_va).1).symm

theorem MemoJ.va1 {pers P H R0 s q m} (h : MemoJ pers P H R0 s q m) : 1 ≤ m.va :=
  Nat.le_trans h.deep1 h.deep_va

end SalsaVerif.Proofs.PersistFlat
